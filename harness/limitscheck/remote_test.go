package limitscheck

// Remote level of C11: the callers of limits.Group are real remote deliveries
// (internal/target/remote: Start -> TakeMsg, connectionForDomain -> TakeDest before
// MAIL, Close -> ReleaseDest per connection + ReleaseMsg).  The target is built with
// the verif constructor, an in-memory resolver (go-mockdns) and a dialer that hands
// out net.Pipe ends served by a minimal scripted SMTP server, so that everything runs
// inside the synctest bubble and the 5 s permit time-out is logical time.
//
// Input: behaviours of Limits.tla with Remote = TRUE
//
//	{"a":"TakeMsg","m","ip","src"}   target.Start(msgMeta{RemoteAddr ip}, "m@src")
//	{"a":"TakeDest","m","d"}          delivery.AddRcpt("u@d")  (first recipient of the domain)
//	{"a":"TakeDest","m","d","reqtls":true}  the same with REQUIRETLS set on the message: the plaintext next
//	                                  hop cannot satisfy it, the attempt is refused (550 5.7.30) -> res "refused"
//	{"a":"MailReject","m","d"}        (plan) the next hop refuses this delivery's MAIL for d
//	{"a":"RcptReject","m","d"}        (plan) the next hop accepts MAIL and refuses the RCPT of that first
//	                                  recipient of d: the connection carries no recipient
//	{"a":"MoreRcpt","m","d","rej"}    delivery.AddRcpt("v<n>@d"), a further recipient of a domain the delivery
//	                                  is connected to; rej: the next hop refuses it
//	src "null": the delivery has the null reverse-path; ip "lo": the message has no TCP peer address
//	(odd behaviour ids: no connection state at all, even ones: a unix-socket peer)
//	{"a":"End","m","how"}             how the delivery ends:
//	    abort     delivery.Abort()                                   (connections go back to the pool)
//	    commit    Body (accepted) + Commit                           (pooled)
//	    datafail  Body, the next hop refuses DATA with 554 + Abort   (connection errored: closed, not pooled)
//	    drop      Body, the next hop drops the connection at DATA + Abort      (closed, not pooled)
//	    rsetfail  Abort, the next hop answers RSET with 451          (not usable: closed, not pooled)
//	behaviour field "reuse": conn_reuse_limit (1: every second transaction on a connection
//	makes it non-poolable)
//	{"a":"Tick"}
//
// Output: the same event vocabulary as the API level (Call/Ret/Snap/...), plus
// MailReject{m,d} when the scripted server refused MAIL; "End" is one call.

import (
	"bufio"
	"context"
	"encoding/json"
	"errors"
	"fmt"
	"net"
	"os"
	"sort"
	"strconv"
	"strings"
	"sync"
	"testing"
	"testing/synctest"

	"github.com/emersion/go-message/textproto"
	"github.com/emersion/go-smtp"
	"github.com/foxcpp/go-mockdns"
	"github.com/foxcpp/maddy/framework/buffer"
	"github.com/foxcpp/maddy/framework/exterrors"
	"github.com/foxcpp/maddy/framework/log"
	"github.com/foxcpp/maddy/framework/module"
	"github.com/foxcpp/maddy/internal/smtpconn/pool"
	"github.com/foxcpp/maddy/internal/target/remote"
	"github.com/foxcpp/maddy/verifharness/vtrace"
)

type rworld struct {
	conns    []net.Conn // client ends handed out by the dialer
	mu       sync.Mutex
	reject   map[string]bool   // "from|domain": refuse the next MAIL
	rejected map[string]bool   // "from|domain": a MAIL was refused
	rcptRej  map[string]bool   // "from|domain": refuse the next RCPT
	rcptRejd map[string]bool   // "from|domain": a RCPT was refused
	dataPlan map[string]string // "from|domain": datafail | drop | rsetfail for the current transaction
}

func (w *rworld) serve(c net.Conn, domain string) {
	defer c.Close()
	br := bufio.NewReader(c)
	say := func(s string) bool { _, err := c.Write([]byte(s + "\r\n")); return err == nil }
	if !say("220 mx." + domain + " ESMTP") {
		return
	}
	inData := false
	cur := "" // "from|domain" of the transaction in progress
	nrcpt := 0 // recipients accepted in it
	plan := func() string {
		w.mu.Lock()
		defer w.mu.Unlock()
		return w.dataPlan[cur]
	}
	for {
		line, err := br.ReadString('\n')
		if err != nil {
			return
		}
		line = strings.TrimRight(line, "\r\n")
		if inData {
			if line == "." {
				inData = false
				say("250 2.0.0 accepted")
			}
			continue
		}
		up := strings.ToUpper(line)
		switch {
		case strings.HasPrefix(up, "EHLO"), strings.HasPrefix(up, "HELO"):
			say("250 mx." + domain)
		case strings.HasPrefix(up, "MAIL FROM:"):
			from := line[len("MAIL FROM:"):]
			if i := strings.Index(from, ">"); i >= 0 {
				from = strings.TrimPrefix(from[:i], "<")
			}
			k := from + "|" + domain
			cur = k
			nrcpt = 0
			w.mu.Lock()
			rej := w.reject[k]
			if rej {
				delete(w.reject, k)
				w.rejected[k] = true
			}
			w.mu.Unlock()
			if rej {
				say("550 5.7.1 sender refused")
			} else {
				say("250 2.1.0 ok")
			}
		case strings.HasPrefix(up, "RCPT TO:"):
			w.mu.Lock()
			rej := w.rcptRej[cur]
			if rej {
				delete(w.rcptRej, cur)
				w.rcptRejd[cur] = true
			}
			w.mu.Unlock()
			if rej {
				say("550 5.1.1 no such user")
			} else {
				nrcpt++
				say("250 2.1.5 ok")
			}
		case up == "DATA" && nrcpt == 0:
			say("503 5.5.1 no valid recipients")
		case up == "DATA":
			switch plan() {
			case "datafail":
				say("554 5.0.0 message refused")
			case "drop":
				return
			default:
				inData = true
				say("354 go ahead")
			}
		case up == "RSET":
			nrcpt = 0
			if plan() == "rsetfail" {
				say("451 4.0.0 try again later")
			} else {
				say("250 2.0.0 ok")
			}
		case up == "NOOP":
			say("250 2.0.0 ok")
		case up == "QUIT":
			say("221 2.0.0 bye")
			return
		default:
			say("502 5.5.1 not implemented")
		}
	}
}

type rclient struct {
	client
	d     module.Delivery
	meta  *module.MsgMetadata
	nmore int
}

type rrun struct {
	run
	w   *rworld
	tgt *remote.Target
	rc  map[string]*rclient
}

func (r *rrun) rclient(m string) *rclient {
	c := r.rc[m]
	if c == nil {
		c = &rclient{client: client{name: m, dst: map[string]bool{}}}
		r.rc[m] = c
		r.cl[m] = &c.client
	}
	return c
}

func classifyErr(err error) string {
	if err == nil {
		return "ok"
	}
	if errors.Is(err, context.DeadlineExceeded) {
		return "timeout"
	}
	return "full"
}

func (r *rrun) rcall(c *rclient, op, ip, src, d, how string, reqtls bool) {
	prev := r.parked()
	defer func() { r.resume(prev) }()
	r.mu.Lock()
	c.pending, c.op = true, op
	r.mu.Unlock()
	r.tr.Emit("Call", vtrace.Ev{"m": c.name, "op": op, "ip": ip, "src": src, "d": d, "how": how, "reqtls": reqtls})
	from := fromOf(c.name, src)
	go func() {
		r.enter(c.name)
		res, detail := "ok", ""
		rejected, rcptRejected := false, false
		defer func() {
			if p := recover(); p != nil {
				res, detail = classifyPanic(p), fmt.Sprint(p)
			}
			r.mu.Lock()
			c.pending = false
			switch {
			case res == "nilptr" || res == "mismatch" || res == "other":
				c.crashed = true
			case op == "TakeMsg" && res == "ok":
				c.msg, c.ip, c.src = true, ip, src
			case op == "TakeDest" && res == "ok" && !rejected:
				c.dst[d] = true // also after a refused RCPT: the connection stays part of the delivery
			case op == "End":
				c.msg = false
				c.dst = map[string]bool{}
				c.d = nil
			}
			r.mu.Unlock()
			r.tr.Emit("Ret", vtrace.Ev{"m": c.name, "op": op, "res": res, "detail": detail})
			if rejected {
				r.tr.Emit("MailReject", vtrace.Ev{"m": c.name, "d": d})
			}
			if rcptRejected {
				r.tr.Emit("RcptReject", vtrace.Ev{"m": c.name, "d": d})
			}
		}()
		ctx := context.Background()
		switch op {
		case "TakeMsg":
			meta := &module.MsgMetadata{
				ID:   c.name,
				Conn: &module.ConnState{RemoteAddr: &net.TCPAddr{IP: ipOf(ip), Port: 2525}},
			}
			if ip == LoKey && r.b.ID%2 == 1 {
				meta.Conn = nil
			} else if ip == LoKey {
				meta.Conn = &module.ConnState{RemoteAddr: &net.UnixAddr{Name: "/run/verif.sock", Net: "unix"}}
			}
			dl, err := r.tgt.Start(ctx, meta, from)
			res = classifyErr(err)
			if err != nil {
				detail = err.Error()
			} else {
				c.d, c.meta = dl, meta
			}
		case "TakeDest":
			c.meta.SMTPOpts.RequireTLS = reqtls
			err := c.d.AddRcpt(ctx, "u@"+d, smtp.RcptOptions{})
			c.meta.SMTPOpts.RequireTLS = false
			var se *exterrors.SMTPError
			if err != nil && reqtls && errors.As(err, &se) && se.Code == 550 && se.EnhancedCode == (exterrors.EnhancedCode{5, 7, 30}) {
				res, detail = "refused", err.Error()
			} else if err != nil {
				detail = err.Error()
				r.w.mu.Lock()
				k := fromOf(c.name, c.src) + "|" + d
				rejected = r.w.rejected[k]
				delete(r.w.rejected, k)
				rcptRejected = !rejected && r.w.rcptRejd[k]
				delete(r.w.rcptRejd, k)
				r.w.mu.Unlock()
				if !rejected && !rcptRejected {
					res = classifyErr(err)
				}
				// rejected: the permit was taken (MAIL is sent after TakeDest) - res stays ok
			}
		case "End":
			r.mu.Lock()
			nconn := len(c.dst)
			r.mu.Unlock()
			var berr error
			if nconn > 0 && (how == "commit" || how == "datafail" || how == "drop") {
				hdr := textproto.Header{}
				hdr.Add("Subject", "verif")
				berr = c.d.Body(ctx, hdr, buffer.MemoryBuffer{Slice: []byte("hello\r\n")})
				if berr == nil {
					if err := c.d.Commit(ctx); err != nil {
						detail = "commit: " + err.Error()
					}
					break
				}
				detail = "body: " + berr.Error()
			}
			if err := c.d.Abort(ctx); err != nil {
				detail += " abort: " + err.Error()
			}
		}
	}()
	synctest.Wait()
}

// moreRcpt adds a further recipient of domain d to the delivery of c (no limit operation is
// expected: the delivery is connected to d already).
func (r *rrun) moreRcpt(c *rclient, d string, rej bool) {
	prev := r.parked()
	defer func() { r.resume(prev) }()
	r.mu.Lock()
	c.pending = true
	c.nmore++
	n := c.nmore
	r.mu.Unlock()
	k := fromOf(c.name, c.src) + "|" + d
	r.w.mu.Lock()
	delete(r.w.rcptRej, k)
	delete(r.w.rcptRejd, k)
	if rej {
		r.w.rcptRej[k] = true
	}
	r.w.mu.Unlock()
	go func() {
		r.enter(c.name)
		res := "ok"
		defer func() {
			if p := recover(); p != nil {
				res = "panic"
			}
			r.mu.Lock()
			c.pending = false
			r.mu.Unlock()
			r.tr.Emit("MoreRcpt", vtrace.Ev{"m": c.name, "d": d, "rej": rej, "res": res})
		}()
		if err := c.d.AddRcpt(context.Background(), "v"+strconv.Itoa(n)+"@"+d, smtp.RcptOptions{}); err != nil {
			res = "err"
		}
	}()
	synctest.Wait()
}

func fromOf(m, src string) string {
	if src == NullKey {
		return ""
	}
	return m + "@" + src
}

func (r *rrun) rstep(st Step, rejectNext bool) { r.rstepPlan(st, rejectNext, false) }

func (r *rrun) rstepPlan(st Step, rejectNext, rcptRejectNext bool) {
	switch st.A {
	case "Tick":
		r.tick()
		return
	case "Minute":
		r.minute()
		return
	case "MailReject", "RcptReject", "Quiesced", "Fill":
		return
	}
	c := r.rclient(st.M)
	r.mu.Lock()
	busy, crashed, msg, hasD := c.pending, c.crashed, c.msg, c.dst[st.D]
	src := c.src
	r.mu.Unlock()
	if busy || crashed {
		r.skip(st, "caller busy or crashed")
		return
	}
	switch st.A {
	case "TakeMsg":
		if msg {
			r.skip(st, "delivery already open")
			return
		}
		r.rcall(c, "TakeMsg", st.IP, st.Src, "", "", false)
	case "TakeDest":
		if !msg || hasD {
			r.skip(st, "no open delivery / domain already connected")
			return
		}
		r.w.mu.Lock()
		k := fromOf(c.name, src) + "|" + st.D
		delete(r.w.reject, k) // a plan that was never reached must not leak
		delete(r.w.rejected, k)
		delete(r.w.rcptRej, k)
		delete(r.w.rcptRejd, k)
		if rejectNext {
			r.w.reject[k] = true
		}
		if rcptRejectNext {
			r.w.rcptRej[k] = true
		}
		r.w.mu.Unlock()
		r.rcall(c, "TakeDest", "", "", st.D, "", st.Reqtls)
	case "MoreRcpt":
		if !msg || !hasD {
			r.skip(st, "no open delivery / not connected to the domain")
			return
		}
		r.moreRcpt(c, st.D, st.Rej)
	case "End":
		if !msg {
			r.skip(st, "no open delivery")
			return
		}
		how := st.How
		if how == "" {
			how = "abort"
		}
		r.w.mu.Lock()
		r.mu.Lock()
		for d := range c.dst {
			k := fromOf(c.name, src) + "|" + d
			delete(r.w.dataPlan, k)
			if how == "datafail" || how == "drop" || how == "rsetfail" {
				r.w.dataPlan[k] = how
			}
		}
		r.mu.Unlock()
		r.w.mu.Unlock()
		r.rcall(c, "End", "", "", "", how, false)
	default:
		r.skip(st, "not a remote-level step")
		return
	}
	r.snap("Snap")
}

func runRemoteBehaviour(t *testing.T, b Behaviour, w *bufio.Writer) {
	synctest.Test(t, func(t *testing.T) {
		tr := vtrace.New(w, b.ID)
		tr.Emit("Cfg", vtrace.Ev{"all": b.Cfg.All, "ip": b.Cfg.IP, "source": b.Cfg.Source,
			"dest": b.Cfg.Dest, "mb": b.Cfg.MB, "dual": b.Dual, "level": "remote", "reuse": b.Reuse})
		g, err := newGroup(b.Cfg, b.Dual)
		if err != nil {
			t.Fatalf("behaviour %d: cannot build limits group: %v", b.ID, err)
		}
		world := &rworld{reject: map[string]bool{}, rejected: map[string]bool{}, dataPlan: map[string]string{},
			rcptRej: map[string]bool{}, rcptRejd: map[string]bool{}}
		reuse := b.Reuse
		if reuse <= 0 {
			reuse = 10
		}
		zones := map[string]mockdns.Zone{}
		for _, d := range namedDst {
			zones[d+"."] = mockdns.Zone{MX: []net.MX{{Host: "mx." + d + ".", Pref: 10}}}
			zones["mx."+d+"."] = mockdns.Zone{A: []string{"192.0.2.1"}}
		}
		nolog := log.Logger{Out: log.NopOutput{}}
		if os.Getenv("VERIF_DEBUG") != "" {
			nolog = log.Logger{Out: log.WriterOutput(os.Stderr, false), Debug: true, Name: "remote"}
		}
		tgt := remote.VerifRemoteNewTarget(remote.VerifRemoteConfig{
			Hostname: "mx.maddy.test",
			Resolver: &mockdns.Resolver{Zones: zones},
			Dialer: func(ctx context.Context, network, addr string) (net.Conn, error) {
				host, _, err := net.SplitHostPort(addr)
				if err != nil {
					return nil, err
				}
				d := strings.TrimSuffix(strings.TrimPrefix(host, "mx."), ".")
				cl, srv := net.Pipe()
				world.mu.Lock()
				world.conns = append(world.conns, cl)
				world.mu.Unlock()
				go world.serve(srv, d)
				return cl, nil
			},
			Limits: g,
			Pool: pool.Config{MaxKeys: 5000, MaxConnsPerKey: 5, MaxConnLifetimeSec: 150,
				StaleKeyLifetimeSec: 300},
			ConnReuseLimit: reuse,
			Log:            nolog,
		})
		defer func() {
			tgt.Close()
			synctest.Wait()
			// a delivery that crashed inside Close leaves its connections open
			world.mu.Lock()
			for _, c := range world.conns {
				c.Close()
			}
			world.mu.Unlock()
		}()
		r := &rrun{run: run{t: t, b: b, g: g, tr: tr, cl: map[string]*client{}}, w: world, tgt: tgt,
			rc: map[string]*rclient{}}
		r.installYield()
		for i, st := range b.Hist {
			rej, rrej := false, false
			if st.A == "TakeDest" {
				for _, nx := range b.Hist[i+1:] {
					if nx.M != st.M {
						continue
					}
					rej = nx.A == "MailReject" && nx.D == st.D
					rrej = nx.A == "RcptReject" && nx.D == st.D
					break
				}
			}
			r.rstepPlan(st, rej, rrej)
		}
		// every delivery ends
		endAll := func() {
			r.resume(r.parked())
			for i := 0; i < 3 && len(r.pendingNames()) > 0; i++ {
				r.tick()
			}
			names := []string{}
			for n := range r.rc {
				names = append(names, n)
			}
			sort.Strings(names)
			for _, n := range names {
				r.rstep(Step{A: "End", M: n}, false)
			}
		}
		endAll()
		// probe: a new delivery to every domain used must get through, one at a time
		if b.Probe {
			crashed := false
			for _, c := range r.rc {
				crashed = crashed || c.crashed
			}
			used := map[string]bool{}
			for _, st := range b.Hist {
				if st.A == "TakeDest" {
					used[st.D] = true
				}
			}
			ds := []string{}
			for d := range used {
				ds = append(ds, d)
			}
			sort.Strings(ds)
			for _, d := range ds {
				if crashed || r.rclient("q1").crashed {
					break
				}
				r.rstep(Step{A: "TakeMsg", M: "q1", IP: "i1", Src: "s1"}, false)
				r.rstep(Step{A: "TakeDest", M: "q1", D: d}, false)
				for i := 0; i < 3 && len(r.pendingNames()) > 0; i++ {
					r.tick()
				}
				r.rstep(Step{A: "End", M: "q1"}, false)
			}
		}
		// a caller that was parked late (yield point) may still have a delivery open
		for i := 0; i < 3 && (r.parked() != nil || len(r.pendingNames()) > 0); i++ {
			endAll()
		}
		r.snap("Quiesced")
	})
}

func TestReplayRemote(t *testing.T) {
	in, out := os.Getenv("VERIF_IN"), os.Getenv("VERIF_OUT")
	if in == "" || out == "" {
		t.Skip("VERIF_IN / VERIF_OUT not set")
	}
	f, err := os.Open(in)
	if err != nil {
		t.Fatal(err)
	}
	defer f.Close()
	of, err := os.Create(out)
	if err != nil {
		t.Fatal(err)
	}
	defer of.Close()
	w := bufio.NewWriter(of)
	defer w.Flush()
	sc := bufio.NewScanner(f)
	sc.Buffer(make([]byte, 1<<20), 1<<26)
	n := 0
	for sc.Scan() {
		var b Behaviour
		if err := json.Unmarshal(sc.Bytes(), &b); err != nil {
			t.Fatalf("bad behaviour line: %v", err)
		}
		runRemoteBehaviour(t, b, w)
		n++
	}
	t.Logf("replayed %d remote-level behaviours", n)
}
