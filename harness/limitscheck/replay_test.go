// Package limitscheck replays TLC-generated histories of Limits.tla on the real
// limits.Group (internal/limits, built from configuration nodes exactly as the
// endpoint and the remote target build it) and records NDJSON traces.
//
// Input  (VERIF_IN):  one JSON object per line
//
//	{"id":N,"cfg":{"all":a,"ip":i,"source":s,"dest":d,"mb":B},"dual":bool,"probe":bool,
//	 "hist":[{"a":"TakeMsg","m":"m1","ip":"i1","src":"s1"},{"a":"TakeDest","m":"m1","d":"d1"},
//	         {"a":"RelDest","m":"m1","d":"d1"},{"a":"RelMsg","m":"m1","src":"s1"},
//	         {"a":"Tick"},{"a":"Minute"},{"a":"Fill","s":"ip"}]}
//
// Output (VERIF_OUT): NDJSON events, trace number "t" = id:
//
//	Cfg, Call{m,op,ip,src,d}, Ret{m,op,res}, Tick, Minute, Fill{s,n,panics,errs,len},
//	Snap{use,usex,nosem,tl,pend}, Quiesced{use,usex,nosem,tl}
//
// Every history runs inside a testing/synctest bubble: the 5 s permit time-out is
// logical time (a Tick is 2.5 s, a Minute 61 s) and "blocked" is what
// synctest.Wait() leaves behind. Each call runs in its own goroutine; a panic is
// caught there and logged as the result of the call.
package limitscheck

import (
	"bufio"
	"context"
	"encoding/json"
	"errors"
	"fmt"
	"net"
	"os"
	"runtime"
	"sort"
	"strconv"
	"strings"
	"sync"
	"testing"
	"testing/synctest"
	"time"

	"github.com/foxcpp/maddy/framework/config"
	"github.com/foxcpp/maddy/internal/limits"
	"github.com/foxcpp/maddy/verifharness/vtrace"
)

const RealMaxBuckets = 20010 // limits.go:Init

type Cfg struct {
	All    int `json:"all"`
	IP     int `json:"ip"`
	Source int `json:"source"`
	Dest   int `json:"dest"`
	MB     int `json:"mb"`
}

type Step struct {
	A   string `json:"a"`
	M   string `json:"m"`
	IP  string `json:"ip"`
	Src string `json:"src"`
	D   string `json:"d"`
	S   string `json:"s"`
	How string `json:"how"` // remote level: how the delivery ends (End)
	// remote level, TakeDest: the message carries REQUIRETLS for this attempt (the scripted
	// next hops are plaintext, so the attempt is refused with 550 5.7.30)
	Reqtls bool `json:"reqtls"`
	// remote level, MoreRcpt: the next hop refuses this further recipient
	Rej bool `json:"rej"`
}

type Behaviour struct {
	ID    int    `json:"id"`
	Cfg   Cfg    `json:"cfg"`
	Dual  bool   `json:"dual"`  // every configured scope gets a second, looser semaphore in front
	Probe bool   `json:"probe"` // probe "N permits can be acquired" after the script
	Reuse int    `json:"reuse"` // remote level: conn_reuse_limit (0 = the default of 10)
	Hist  []Step `json:"hist"`
}

// ---- building the group from configuration nodes --------------------------

func limitNodes(c Cfg, dual bool) []config.Node {
	var ch []config.Node
	add := func(scope string, n int) {
		if n <= 0 {
			return
		}
		if dual {
			ch = append(ch, config.Node{Name: scope, Args: []string{"concurrency", strconv.Itoa(n + 1)}})
		}
		ch = append(ch, config.Node{Name: scope, Args: []string{"concurrency", strconv.Itoa(n)}})
	}
	add("all", c.All)
	add("ip", c.IP)
	add("source", c.Source)
	add("destination", c.Dest)
	return ch
}

func newGroup(c Cfg, dual bool) (*limits.Group, error) {
	mod, err := limits.New("limits", "verif", nil, nil)
	if err != nil {
		return nil, err
	}
	g := mod.(*limits.Group)
	block := config.Node{Name: "limits", Children: limitNodes(c, dual)}
	if err := g.Init(config.NewMap(nil, block)); err != nil {
		return nil, err
	}
	if c.MB != RealMaxBuckets {
		g.VerifSetMaxBuckets(c.MB)
	}
	return g, nil
}

// ---- keys --------------------------------------------------------------------

// Keys of the model and their real spelling.  Two keys are special:
//
//	ip "lo"       a message without a TCP peer address (unix socket, locally generated): the
//	              endpoint and the remote target limit it under 127.0.0.1
//	source "null" the null reverse-path MAIL FROM:<>: limited under the empty sender domain
func ipOf(k string) net.IP {
	if k == LoKey {
		return net.IPv4(127, 0, 0, 1)
	}
	n, _ := strconv.Atoi(strings.TrimPrefix(k, "i"))
	return net.IPv4(10, 0, 0, byte(n))
}

const (
	LoKey   = "lo"
	NullKey = "null"
)

// srcOf is the sender domain behind a source key of the model.
func srcOf(k string) string {
	if k == NullKey {
		return ""
	}
	return k
}

var namedIP, namedSrc, namedDst []string
var ipName = map[string]string{}

func init() {
	for i := 1; i <= 8; i++ {
		k := "i" + strconv.Itoa(i)
		namedIP = append(namedIP, ipOf(k).String())
		ipName[ipOf(k).String()] = k
		namedSrc = append(namedSrc, "s"+strconv.Itoa(i))
		namedDst = append(namedDst, "d"+strconv.Itoa(i))
	}
	namedIP = append(namedIP, ipOf(LoKey).String())
	ipName[ipOf(LoKey).String()] = LoKey
	namedSrc = append(namedSrc, "")
}

// ---- callers -------------------------------------------------------------------

type client struct {
	name    string
	pending bool
	op      string
	msg     bool
	ip, src string
	dst     map[string]bool
	crashed bool
}

type run struct {
	t   *testing.T
	b   Behaviour
	g   *limits.Group
	tr  *vtrace.Tracer
	mu  sync.Mutex
	cl  map[string]*client
	nfl int

	// yield point (see installYield)
	gate   chan struct{}
	gateOf string // caller parked at gate
	noPark bool
	gor    map[string]string // goroutine id -> caller running in it

	// scripted Park / Unpark (park_test.go)
	parkArm  map[string]string        // caller -> scope it is to be held up in during its next call
	parkGate map[string]chan struct{} // caller held up -> its gate
}

func goid() string {
	var buf [64]byte
	f := strings.Fields(string(buf[:runtime.Stack(buf[:], false)]))
	if len(f) > 1 {
		return f[1]
	}
	return ""
}

// enter registers the calling goroutine as the one running caller m's call.
func (r *run) enter(m string) {
	r.mu.Lock()
	if r.gor == nil {
		r.gor = map[string]string{}
	}
	r.gor[goid()] = m
	r.mu.Unlock()
}

// installYield adds one scheduling dimension: whenever a bucket limiter is constructed
// while the set-wide mutex is NOT held (a window in which a concurrent Take of the same
// new key would not see the bucket), the constructing caller is parked there until the
// next scripted step has been issued and has settled - so the next caller runs inside the
// window.  When the constructor runs under the mutex (the design) nothing is ever parked
// and the hook has no effect on the history.
func (r *run) installYield() {
	r.g.VerifHookNew(func(scope string, lockFree bool) {
		if !lockFree {
			return
		}
		r.mu.Lock()
		if r.noPark || r.gate != nil {
			r.mu.Unlock()
			return
		}
		m := r.gor[goid()]
		if m == "" { // not one of the scripted callers' goroutines
			r.mu.Unlock()
			return
		}
		gate := make(chan struct{})
		r.gate, r.gateOf = gate, m
		r.mu.Unlock()
		r.tr.Emit("Yield", vtrace.Ev{"s": scope, "m": m})
		<-gate
	})
}

// parked returns the gate of the caller parked by an earlier step (nil if none).
func (r *run) parked() chan struct{} {
	r.mu.Lock()
	defer r.mu.Unlock()
	return r.gate
}

// resume lets the caller parked at gate go on and waits until everything has settled.
func (r *run) resume(gate chan struct{}) {
	if gate == nil {
		return
	}
	r.mu.Lock()
	m := r.gateOf
	if r.gate == gate {
		r.gate = nil
	}
	r.mu.Unlock()
	r.tr.Emit("Resume", vtrace.Ev{"m": m})
	close(gate)
	synctest.Wait()
}

func (r *run) client(m string) *client {
	c := r.cl[m]
	if c == nil {
		c = &client{name: m, dst: map[string]bool{}}
		r.cl[m] = c
	}
	return c
}

func classifyPanic(p interface{}) string {
	if re, ok := p.(runtime.Error); ok {
		if strings.Contains(re.Error(), "nil pointer dereference") {
			return "nilptr"
		}
		return "other"
	}
	if strings.Contains(fmt.Sprint(p), "mismatched Release") {
		return "mismatch"
	}
	return "other"
}

// call starts one API call of caller m in its own goroutine and waits until every
// goroutine of the bubble has returned or is durably blocked.
func (r *run) call(c *client, op, ip, src, d string) {
	prev := r.parked()
	defer func() { r.resume(prev) }()
	r.mu.Lock()
	c.pending, c.op = true, op
	r.mu.Unlock()
	r.tr.Emit("Call", vtrace.Ev{"m": c.name, "op": op, "ip": ip, "src": src, "d": d})
	go func() {
		r.enter(c.name)
		res, detail := "ok", ""
		defer func() {
			if p := recover(); p != nil {
				res, detail = classifyPanic(p), fmt.Sprint(p)
			}
			r.mu.Lock()
			c.pending = false
			switch {
			case res == "nilptr" || res == "mismatch" || res == "other":
				c.crashed = true
			case op == "TakeMsg" && res == "ok":
				c.msg, c.ip, c.src = true, ip, src
			case op == "TakeDest" && res == "ok":
				c.dst[d] = true
			case op == "RelMsg":
				c.msg = false
			case op == "RelDest":
				delete(c.dst, d)
			}
			r.mu.Unlock()
			r.tr.Emit("Ret", vtrace.Ev{"m": c.name, "op": op, "res": res, "detail": detail})
		}()
		var err error
		switch op {
		case "TakeMsg":
			err = r.g.TakeMsg(context.Background(), ipOf(ip), srcOf(src))
		case "TakeDest":
			err = r.g.TakeDest(context.Background(), d)
		case "RelMsg":
			r.g.ReleaseMsg(ipOf(ip), srcOf(src))
		case "RelDest":
			r.g.ReleaseDest(d)
		}
		if err != nil {
			detail = err.Error()
			if errors.Is(err, context.DeadlineExceeded) {
				res = "timeout"
			} else {
				res = "full" // refused for another reason than the time-out
			}
		}
	}()
	synctest.Wait()
}

type snapshot struct {
	use, usex map[string]map[string]int
	nosem     [][]string
	tl        map[string]int
}

// tight returns the permits in use of the tightest semaphore and the largest
// number of permits in use among the others (-1 if there is no other).
func tight(sems [][2]int) (v, x int) {
	best := 0
	for i, s := range sems {
		if s[1] < sems[best][1] {
			best = i
		}
	}
	x = -1
	for i, s := range sems {
		if i != best && s[0] > x {
			x = s[0]
		}
	}
	return sems[best][0], x
}

func (r *run) snapshot() snapshot {
	s := snapshot{use: map[string]map[string]int{}, usex: map[string]map[string]int{}, tl: map[string]int{}}
	for _, sc := range []string{"all", "ip", "source", "dest"} {
		s.use[sc] = map[string]int{"_": 0}
		s.usex[sc] = map[string]int{"_": 0}
	}
	s.nosem = [][]string{}
	if gs := r.g.VerifGlobal(); len(gs) == 0 {
		s.nosem = append(s.nosem, []string{"all", "*"})
	} else {
		v, x := tight(gs)
		s.use["all"]["*"] = v
		if x >= 0 {
			s.usex["all"]["*"] = x
		}
	}
	for _, sc := range []struct {
		name string
		keys []string
	}{{"ip", namedIP}, {"source", namedSrc}, {"dest", namedDst}} {
		st := r.g.VerifScopeState(sc.name, sc.keys)
		s.tl[sc.name] = st.Len
		keys := make([]string, 0, len(st.Buckets))
		for k := range st.Buckets {
			keys = append(keys, k)
		}
		sort.Strings(keys)
		for _, k := range keys {
			name := k
			if sc.name == "ip" {
				name = ipName[k]
			}
			if sc.name == "source" && k == "" {
				name = NullKey
			}
			sems := st.Buckets[k]
			if len(sems) == 0 {
				s.nosem = append(s.nosem, []string{sc.name, name})
				s.use[sc.name][name] = 0
				continue
			}
			v, x := tight(sems)
			s.use[sc.name][name] = v
			if x >= 0 {
				s.usex[sc.name][name] = x
			}
		}
	}
	return s
}

func (r *run) pendingNames() []string {
	r.mu.Lock()
	defer r.mu.Unlock()
	out := []string{}
	for _, c := range r.cl {
		if c.pending {
			out = append(out, c.name)
		}
	}
	sort.Strings(out)
	return out
}

func (r *run) snap(ev string) {
	synctest.Wait()
	s := r.snapshot()
	r.tr.Emit(ev, vtrace.Ev{"use": s.use, "usex": s.usex, "nosem": s.nosem, "tl": s.tl, "pend": r.pendingNames()})
}

func (r *run) skip(st Step, why string) {
	r.tr.Emit("Skip", vtrace.Ev{"a": st.A, "m": st.M, "why": why})
}

func (r *run) tick() {
	r.resume(r.parked())
	r.tr.Emit("Tick", nil)
	time.Sleep(2500 * time.Millisecond)
	r.snap("Snap")
}

func (r *run) minute() {
	r.resume(r.parked())
	r.tr.Emit("Minute", nil)
	time.Sleep(61 * time.Second)
	r.snap("Snap")
}

func (r *run) anyHolder() bool {
	r.mu.Lock()
	defer r.mu.Unlock()
	for _, c := range r.cl {
		if c.msg || c.pending {
			return true
		}
	}
	return false
}

// fill takes and releases never-seen keys until the table of the scope holds mb+1 buckets.
func (r *run) fill(scope string) {
	r.resume(r.parked())
	r.mu.Lock()
	r.noPark = true // the bulk runs in the controller goroutine
	r.mu.Unlock()
	defer func() {
		r.mu.Lock()
		r.noPark = false
		r.mu.Unlock()
	}()
	st := r.g.VerifScopeState(scope, nil)
	n := r.b.Cfg.MB + 1 - st.Len
	if n <= 0 {
		r.skip(Step{A: "Fill"}, "table already at its capacity")
		return
	}
	panics, errs := 0, 0
	one := func(i int) {
		defer func() {
			if p := recover(); p != nil {
				panics++
			}
		}()
		r.nfl++
		ctx := context.Background() // a fresh key cannot block for longer than the 5 s time-out
		switch scope {
		case "ip":
			ip := net.IPv4(172, byte(16+r.nfl>>16), byte(r.nfl>>8), byte(r.nfl))
			if err := r.g.TakeMsg(ctx, ip, "s1"); err != nil {
				errs++
				return
			}
			r.g.ReleaseMsg(ip, "s1")
		case "source":
			k := "fill" + strconv.Itoa(r.nfl) + ".example"
			if err := r.g.TakeMsg(ctx, ipOf("i1"), k); err != nil {
				errs++
				return
			}
			r.g.ReleaseMsg(ipOf("i1"), k)
		case "dest":
			k := "fill" + strconv.Itoa(r.nfl) + ".example"
			if err := r.g.TakeDest(ctx, k); err != nil {
				errs++
				return
			}
			r.g.ReleaseDest(k)
		}
	}
	for i := 0; i < n; i++ {
		one(i)
	}
	synctest.Wait()
	st = r.g.VerifScopeState(scope, nil)
	r.tr.Emit("Fill", vtrace.Ev{"s": scope, "n": n, "panics": panics, "errs": errs, "len": st.Len})
	r.snap("Snap")
}

func (r *run) configured(scope string) bool {
	switch scope {
	case "ip":
		return r.b.Cfg.IP > 0
	case "source":
		return r.b.Cfg.Source > 0
	case "dest":
		return r.b.Cfg.Dest > 0
	}
	return r.b.Cfg.All > 0
}

// step executes one scripted step, keeping the discipline of the real callers: a
// release is issued only for what this caller's take returned ok for.
func (r *run) step(st Step) {
	switch st.A {
	case "Tick":
		r.tick()
		return
	case "Minute":
		r.minute()
		return
	case "Fill":
		if !r.configured(st.S) || len(r.pendingNames()) > 0 || (st.S != "dest" && r.anyHolder()) ||
			(st.S == "ip" && r.configured("source")) || (st.S == "source" && r.configured("ip")) {
			r.skip(st, "fill not applicable")
			return
		}
		r.fill(st.S)
		return
	case "Quiesced", "MailReject", "RcptReject", "MoreRcpt", "Park":
		return
	case "Unpark":
		if !r.unpark(st.M) {
			r.skip(st, "not parked")
		}
		return
	}
	c := r.client(st.M)
	r.mu.Lock()
	busy, crashed, msg, hasD := c.pending, c.crashed, c.msg, c.dst[st.D]
	nd := len(c.dst)
	ip, src := c.ip, c.src
	r.mu.Unlock()
	if busy || crashed {
		r.skip(st, "caller busy or crashed")
		return
	}
	switch st.A {
	case "TakeMsg":
		if msg || nd > 0 {
			r.skip(st, "already holds")
			return
		}
		r.call(c, "TakeMsg", st.IP, st.Src, "")
	case "TakeDest":
		if hasD || !(msg || strings.HasPrefix(c.name, "q")) {
			r.skip(st, "not in a delivery / already holds the domain")
			return
		}
		r.call(c, "TakeDest", "", "", st.D)
	case "RelDest":
		if !hasD {
			r.skip(st, "does not hold the domain")
			return
		}
		r.call(c, "RelDest", "", "", st.D)
	case "RelMsg":
		if !msg || nd > 0 {
			r.skip(st, "does not hold / still holds domains")
			return
		}
		// the callers of the design release under the keys they took
		r.call(c, "RelMsg", ip, src, "")
	default:
		r.t.Fatalf("unknown step %q", st.A)
	}
	r.snap("Snap")
}

// endDeliveries: every delivery ends - waiting calls run into their time-out,
// holders release what they hold (domains first, as remoteDelivery.Close does).
func (r *run) endDeliveries() {
	r.resume(r.parked())
	r.unparkAll()
	for i := 0; i < 3 && len(r.pendingNames()) > 0; i++ {
		r.tick()
	}
	names := []string{}
	for n := range r.cl {
		names = append(names, n)
	}
	sort.Strings(names)
	for _, n := range names {
		c := r.cl[n]
		r.mu.Lock()
		ds := []string{}
		for d := range c.dst {
			ds = append(ds, d)
		}
		r.mu.Unlock()
		sort.Strings(ds)
		for _, d := range ds {
			r.step(Step{A: "RelDest", M: n, D: d})
		}
		r.step(Step{A: "RelMsg", M: n})
	}
}

// probe: after quiescence, can the full N be acquired again (and not more)?
// Up to N+1 fresh callers take the scope key one after the other; the series stops
// at the first one that blocks; then the first holder releases (the blocked one
// must get the permit), then everything is released.
func (r *run) probe() {
	nk := 3
	if r.b.Cfg.MB != RealMaxBuckets {
		nk = 2 // stay inside a small table
	}
	key := func(prefix string, i int) string { return prefix + strconv.Itoa((i-1)%nk+1) }
	used := map[string]map[string]bool{"ip": {}, "source": {}, "dest": {}}
	for _, st := range r.b.Hist {
		if st.A == "TakeMsg" {
			used["ip"][st.IP] = true
			used["source"][st.Src] = true
		}
		if st.A == "TakeDest" {
			used["dest"][st.D] = true
		}
	}
	dead := false
	series := func(n int, mk func(i int) Step) {
		if dead {
			return
		}
		qs := []string{}
		for i := 1; i <= n+1 && i <= 3; i++ {
			q := "q" + strconv.Itoa(i)
			st := mk(i)
			st.M = q
			r.step(st)
			qs = append(qs, q)
			if len(r.pendingNames()) > 0 || r.client(q).crashed {
				break
			}
		}
		rel := func(q string) {
			c := r.client(q)
			r.mu.Lock()
			ds := []string{}
			for d := range c.dst {
				ds = append(ds, d)
			}
			r.mu.Unlock()
			for _, d := range ds {
				r.step(Step{A: "RelDest", M: q, D: d})
			}
			r.step(Step{A: "RelMsg", M: q})
		}
		if len(qs) > 0 {
			rel(qs[0])
		}
		for i := 0; i < 3 && len(r.pendingNames()) > 0; i++ {
			r.tick()
		}
		for _, q := range qs {
			rel(q)
		}
		for _, q := range qs { // a crashed prober keeps what it held: stop probing
			dead = dead || r.client(q).crashed
		}
	}
	sorted := func(m map[string]bool, def string) []string {
		out := []string{}
		for k := range m {
			out = append(out, k)
		}
		if len(out) == 0 {
			out = append(out, def)
		}
		sort.Strings(out)
		return out
	}
	c := r.b.Cfg
	if c.All > 0 {
		series(c.All, func(i int) Step { return Step{A: "TakeMsg", IP: key("i", i), Src: key("s", i)} })
	}
	if c.IP > 0 {
		for _, k := range sorted(used["ip"], "i1") {
			k := k
			series(c.IP, func(i int) Step { return Step{A: "TakeMsg", IP: k, Src: key("s", i)} })
		}
	}
	if c.Source > 0 {
		for _, k := range sorted(used["source"], "s1") {
			k := k
			series(c.Source, func(i int) Step { return Step{A: "TakeMsg", IP: key("i", i), Src: k} })
		}
	}
	if c.Dest > 0 {
		for _, k := range sorted(used["dest"], "d1") {
			k := k
			series(c.Dest, func(i int) Step { return Step{A: "TakeDest", D: k} })
		}
	}
}

func runBehaviour(t *testing.T, b Behaviour, w *bufio.Writer) {
	synctest.Test(t, func(t *testing.T) {
		tr := vtrace.New(w, b.ID)
		tr.Emit("Cfg", vtrace.Ev{"all": b.Cfg.All, "ip": b.Cfg.IP, "source": b.Cfg.Source,
			"dest": b.Cfg.Dest, "mb": b.Cfg.MB, "dual": b.Dual})
		g, err := newGroup(b.Cfg, b.Dual)
		if err != nil {
			t.Fatalf("behaviour %d: cannot build limits group: %v", b.ID, err)
		}
		r := &run{t: t, b: b, g: g, tr: tr, cl: map[string]*client{}}
		r.installYield()
		r.installPark()
		for i, st := range b.Hist {
			r.arm(i)
			r.step(st)
			if st.M != "" && st.A != "Park" {
				r.disarm(st.M)
			}
		}
		r.endDeliveries()
		if b.Probe {
			crashed := false
			for _, c := range r.cl {
				crashed = crashed || c.crashed
			}
			// a crashed caller keeps what it held; probing then says nothing new
			if !crashed {
				r.minute()
				r.probe()
			}
		}
		// a caller that was parked late (yield point) may still hold something
		for i := 0; i < 3 && (r.parked() != nil || len(r.pendingNames()) > 0); i++ {
			r.endDeliveries()
		}
		r.snap("Quiesced")
	})
}

func TestReplay(t *testing.T) {
	in, out := os.Getenv("VERIF_IN"), os.Getenv("VERIF_OUT")
	if in == "" || out == "" {
		t.Skip("VERIF_IN / VERIF_OUT not set")
	}
	f, err := os.Open(in)
	if err != nil {
		t.Fatal(err)
	}
	defer f.Close()
	of, err := os.Create(out)
	if err != nil {
		t.Fatal(err)
	}
	defer of.Close()
	w := bufio.NewWriter(of)
	defer w.Flush()
	sc := bufio.NewScanner(f)
	sc.Buffer(make([]byte, 1<<20), 1<<26)
	n := 0
	for sc.Scan() {
		var b Behaviour
		if err := json.Unmarshal(sc.Bytes(), &b); err != nil {
			t.Fatalf("bad behaviour line: %v", err)
		}
		runBehaviour(t, b, w)
		n++
	}
	t.Logf("replayed %d behaviours", n)
}
