package limitscheck

// Endpoint level of C11: the callers of limits.Group are real SMTP sessions
// (internal/endpoint/smtp: startDelivery -> TakeMsg, pipeline refusal -> ReleaseMsg,
// cleanSession/releaseLimits -> ReleaseMsg).  The endpoint is built from
// configuration nodes (limits block included), sessions are created without a
// socket (verif export) and driven concurrently inside the synctest bubble, the
// pipeline delivers to a scripted target that can refuse the sender.
//
// Input: behaviours of Limits.tla with Endp = TRUE; every TakeMsg step may carry
//
//	"raw": true   the sender domain is spelled in upper case (normalised by the endpoint)
//	"how": "reset" | "logout" | "data" | "datafail" | "rcptrej"   how the transaction ends (RelMsg);
//	       rcptrej: a recipient refused by the pipeline (550), then RSET
//	src "null": MAIL FROM:<> (the null reverse-path); ip "lo": the client is connected through a
//	unix socket (no TCP peer address)
//
// and the behaviour carries "defer": defer_sender_reject yes/no.
//
//	{"a":"TakeMsg","m","ip","src"}  MAIL FROM:<m@src> (immediate) / MAIL + first RCPT (deferred)
//	{"a":"PipeReject","m"}          (plan) the pipeline refuses that sender
//	{"a":"NestedMail","m","src","raw","null"}  a second MAIL FROM inside the open transaction (no RSET),
//	                                 naming the same or another sender domain or the null sender
//	{"a":"RelMsg","m"}              RSET | connection close | DATA ... (+ the RSET go-smtp issues)
//
// Output: the API-level event vocabulary; TakeMsg results: ok | timeout | rejected | full.

import (
	"bufio"
	"context"
	"encoding/json"
	"errors"
	"fmt"
	"net"
	"os"
	"sort"
	"strconv"
	"strings"
	"sync"
	"testing"
	"testing/synctest"

	"github.com/emersion/go-message/textproto"
	"github.com/emersion/go-smtp"
	"github.com/foxcpp/maddy/framework/buffer"
	"github.com/foxcpp/maddy/framework/config"
	"github.com/foxcpp/maddy/framework/exterrors"
	"github.com/foxcpp/maddy/framework/log"
	"github.com/foxcpp/maddy/framework/module"
	smtpendp "github.com/foxcpp/maddy/internal/endpoint/smtp"
	"github.com/foxcpp/maddy/verifharness/vtrace"
)

// ---- the scripted pipeline target -------------------------------------------------

type c11Target struct {
	mu       sync.Mutex
	reject   map[string]bool // sender (as the pipeline sees it): refuse Start
	bodyFail map[string]bool
	open     int
	// abortErr: Abort closes the delivery and then reports an error (a target whose clean-up failed).
	// The permit accounting of Limits.tla is independent of what the target answers to Abort, so this is
	// a harness-only data dimension: every second behaviour runs with it.
	abortErr bool
}

var (
	c11TargetOnce sync.Once
	c11Cur        *c11Target
	c11Mu         sync.Mutex
)

func setC11Target(t *c11Target) {
	c11TargetOnce.Do(func() {
		module.Register("target.verifc11", func(_, _ string, _, _ []string) (module.Module, error) {
			c11Mu.Lock()
			defer c11Mu.Unlock()
			return c11Cur, nil
		})
		module.Register("check.verifc11", func(_, _ string, _, _ []string) (module.Module, error) {
			c11Mu.Lock()
			defer c11Mu.Unlock()
			return &c11Check{t: c11Cur}, nil
		})
	})
	c11Mu.Lock()
	c11Cur = t
	c11Mu.Unlock()
}

func (t *c11Target) Name() string             { return "verifc11" }
func (t *c11Target) InstanceName() string     { return "verifc11" }
func (t *c11Target) Init(_ *config.Map) error { return nil }

type c11Delivery struct {
	t    *c11Target
	from string
}

func (t *c11Target) Start(_ context.Context, _ *module.MsgMetadata, mailFrom string) (module.Delivery, error) {
	t.mu.Lock()
	defer t.mu.Unlock()
	t.open++
	return &c11Delivery{t: t, from: mailFrom}, nil
}

// the sender-stage check of the pipeline: refuses the planned senders, which makes
// pipeline.Start fail inside startDelivery, right after TakeMsg succeeded
type c11Check struct{ t *c11Target }
type c11CheckState struct{ t *c11Target }

func (c *c11Check) Name() string             { return "verifc11" }
func (c *c11Check) InstanceName() string     { return "verifc11" }
func (c *c11Check) Init(_ *config.Map) error { return nil }
func (c *c11Check) CheckStateForMsg(context.Context, *module.MsgMetadata) (module.CheckState, error) {
	return &c11CheckState{t: c.t}, nil
}
func (s *c11CheckState) CheckConnection(context.Context) module.CheckResult {
	return module.CheckResult{}
}
func (s *c11CheckState) CheckSender(_ context.Context, mailFrom string) module.CheckResult {
	s.t.mu.Lock()
	defer s.t.mu.Unlock()
	if s.t.reject[mailFrom] {
		delete(s.t.reject, mailFrom)
		return module.CheckResult{Reject: true, Reason: &exterrors.SMTPError{Code: 550,
			EnhancedCode: exterrors.EnhancedCode{5, 7, 1}, Message: "verif: sender refused", CheckName: "verifc11"}}
	}
	return module.CheckResult{}
}
func (s *c11CheckState) CheckRcpt(context.Context, string) module.CheckResult {
	return module.CheckResult{}
}
func (s *c11CheckState) CheckBody(context.Context, textproto.Header, buffer.Buffer) module.CheckResult {
	return module.CheckResult{}
}
func (s *c11CheckState) Close() error { return nil }

func (d *c11Delivery) AddRcpt(context.Context, string, smtp.RcptOptions) error { return nil }
func (d *c11Delivery) Body(context.Context, textproto.Header, buffer.Buffer) error {
	d.t.mu.Lock()
	defer d.t.mu.Unlock()
	if d.t.bodyFail[d.from] {
		delete(d.t.bodyFail, d.from)
		return &smtp.SMTPError{Code: 451, EnhancedCode: smtp.EnhancedCode{4, 0, 0}, Message: "verif: body refused"}
	}
	return nil
}
func (d *c11Delivery) done() error {
	d.t.mu.Lock()
	d.t.open--
	d.t.mu.Unlock()
	return nil
}
func (d *c11Delivery) Abort(context.Context) error {
	d.done()
	if d.t.abortErr {
		return errors.New("verif: abort failed")
	}
	return nil
}
func (d *c11Delivery) Commit(context.Context) error { return d.done() }

// ---- behaviours ---------------------------------------------------------------------

type EStep struct {
	Step
	Raw  bool   `json:"raw"`
	How  string `json:"how"`
	Null bool   `json:"null"`
}

type EBehaviour struct {
	ID    int     `json:"id"`
	Cfg   Cfg     `json:"cfg"`
	Dual  bool    `json:"dual"`
	Probe bool    `json:"probe"`
	Defer bool    `json:"defer"`
	Hist  []EStep `json:"hist"`
}

type eclient struct {
	client
	s   *smtpendp.Session
	raw bool
	how string
}

type erun struct {
	run
	endp *smtpendp.Endpoint
	tgt  *c11Target
	def  bool
	ec   map[string]*eclient
}

func (r *erun) eclient(m string) *eclient {
	c := r.ec[m]
	if c == nil {
		c = &eclient{client: client{name: m, dst: map[string]bool{}}}
		r.ec[m] = c
		r.cl[m] = &c.client
	}
	return c
}

func senderOf(m, src string, raw bool) string {
	if src == NullKey {
		return ""
	}
	if raw {
		return m + "@" + strings.ToUpper(src)
	}
	return m + "@" + src
}

func classifySMTP(err error, planned bool) string {
	if err == nil {
		return "ok"
	}
	var se *smtp.SMTPError
	if errors.As(err, &se) {
		if se.Code == 451 && strings.Contains(se.Message, "High load") {
			return "timeout"
		}
	}
	if errors.Is(err, context.DeadlineExceeded) {
		return "timeout"
	}
	if planned {
		return "rejected" // the pipeline refused the sender, as planned
	}
	return "full"
}

const c11Body = "From: <a@s1>\r\nSubject: verif\r\n\r\nhello\r\n"

func (r *erun) ecall(c *eclient, op, ip, src string, raw, planned bool, how string) {
	prev := r.parked()
	defer func() { r.resume(prev) }()
	r.mu.Lock()
	c.pending, c.op = true, op
	r.mu.Unlock()
	r.tr.Emit("Call", vtrace.Ev{"m": c.name, "op": op, "ip": ip, "src": src, "d": "", "raw": raw, "how": how,
		"defer": r.def})
	go func() {
		r.enter(c.name)
		res, detail := "ok", ""
		defer func() {
			if p := recover(); p != nil {
				res, detail = classifyPanic(p), fmt.Sprint(p)
			}
			r.mu.Lock()
			c.pending = false
			switch {
			case res == "nilptr" || res == "mismatch" || res == "other":
				c.crashed = true
			case op == "TakeMsg" && res == "ok":
				c.msg, c.ip, c.src, c.raw = true, ip, src, raw
			case op == "RelMsg":
				c.msg = false
			}
			r.mu.Unlock()
			r.tr.Emit("Ret", vtrace.Ev{"m": c.name, "op": op, "res": res, "detail": detail})
		}()
		switch op {
		case "TakeMsg":
			var peer net.Addr = &net.TCPAddr{IP: ipOf(ip), Port: 40000}
			if ip == LoKey {
				peer = &net.UnixAddr{Name: "/run/verif.sock", Net: "unix"}
			}
			c.s = r.endp.VerifLimitsNewSession(peer)
			err := c.s.Mail(senderOf(c.name, src, raw), &smtp.MailOptions{})
			if err == nil && r.def {
				err = c.s.Rcpt("u@dst.example", &smtp.RcptOptions{})
			}
			res = classifySMTP(err, planned)
			if err != nil {
				detail = err.Error()
				c.s.Logout() // the client gives up: connection closed
			}
		case "RelMsg":
			switch how {
			case "logout":
			case "rcptrej":
				if err := c.s.Rcpt("rej@dst.example", &smtp.RcptOptions{}); err == nil {
					detail = "rcpt: refused recipient was accepted"
				}
				c.s.Reset()
			case "data", "datafail":
				if !r.def {
					if err := c.s.Rcpt("u@dst.example", &smtp.RcptOptions{}); err != nil {
						detail = "rcpt: " + err.Error()
					}
				}
				if err := c.s.Data(strings.NewReader(c11Body)); err != nil {
					detail += " data: " + err.Error()
				}
				c.s.Reset() // go-smtp resets the transaction after DATA
			default:
				c.s.Reset()
			}
			c.s.Logout()
		}
	}()
	synctest.Wait()
}

// nestedMail sends MAIL FROM again inside the open transaction of c.
func (r *erun) nestedMail(c *eclient, st EStep) {
	prev := r.parked()
	defer func() { r.resume(prev) }()
	from := ""
	if !st.Null {
		from = senderOf(c.name+"x", st.Src, st.Raw)
	}
	r.mu.Lock()
	c.pending = true
	r.mu.Unlock()
	go func() {
		r.enter(c.name)
		res := "ok"
		defer func() {
			if p := recover(); p != nil {
				res = "panic"
			}
			r.mu.Lock()
			c.pending = false
			r.mu.Unlock()
			r.tr.Emit("NestedMail", vtrace.Ev{"m": c.name, "src": st.Src, "raw": st.Raw, "null": st.Null, "res": res})
		}()
		if err := c.s.Mail(from, &smtp.MailOptions{}); err != nil {
			res = "err"
			var se *smtp.SMTPError
			if errors.As(err, &se) {
				res = strconv.Itoa(se.Code)
			}
		}
	}()
	synctest.Wait()
}

func (r *erun) estep(st EStep, planned bool) {
	switch st.A {
	case "Tick":
		r.tick()
		return
	case "Minute":
		r.minute()
		return
	case "PipeReject", "Quiesced", "Fill":
		return
	}
	c := r.eclient(st.M)
	r.mu.Lock()
	busy, crashed, msg := c.pending, c.crashed, c.msg
	ip, src, raw := c.ip, c.src, c.raw
	r.mu.Unlock()
	if busy || crashed {
		r.skip(st.Step, "caller busy or crashed")
		return
	}
	switch st.A {
	case "TakeMsg":
		if msg {
			r.skip(st.Step, "transaction already open")
			return
		}
		from := senderOf(c.name, st.Src, false) // the pipeline sees the normalised sender
		r.tgt.mu.Lock()
		delete(r.tgt.reject, from) // a plan that was never reached must not leak into this transaction
		delete(r.tgt.bodyFail, from)
		if planned {
			r.tgt.reject[from] = true
		}
		if st.How == "datafail" {
			r.tgt.bodyFail[from] = true
		}
		r.tgt.mu.Unlock()
		c.how = st.How
		r.ecall(c, "TakeMsg", st.IP, st.Src, st.Raw, planned, st.How)
	case "NestedMail":
		if !msg {
			r.skip(st.Step, "no open transaction")
			return
		}
		r.nestedMail(c, st)
	case "RelMsg":
		if !msg {
			r.skip(st.Step, "no open transaction")
			return
		}
		r.ecall(c, "RelMsg", ip, src, raw, false, c.how)
	default:
		r.skip(st.Step, "not an endpoint-level step")
		return
	}
	r.snap("Snap")
}

func enode(name string, args []string, children ...config.Node) config.Node {
	return config.Node{Name: name, Args: args, Children: children}
}

func runEndpointBehaviour(t *testing.T, b EBehaviour, w *bufio.Writer) {
	synctest.Test(t, func(t *testing.T) {
		tr := vtrace.New(w, b.ID)
		tr.Emit("Cfg", vtrace.Ev{"all": b.Cfg.All, "ip": b.Cfg.IP, "source": b.Cfg.Source,
			"dest": b.Cfg.Dest, "mb": b.Cfg.MB, "dual": b.Dual, "level": "endpoint", "defer": b.Defer})
		tgt := &c11Target{reject: map[string]bool{}, bodyFail: map[string]bool{}, abortErr: b.ID%2 == 1}
		setC11Target(tgt)
		mod, err := smtpendp.New("smtp", nil)
		if err != nil {
			t.Fatal(err)
		}
		endp := mod.(*smtpendp.Endpoint)
		endp.Log = log.Logger{Out: log.NopOutput{}}
		if os.Getenv("VERIF_DEBUG") != "" {
			endp.Log = log.Logger{Out: log.WriterOutput(os.Stderr, false), Debug: true, Name: "endp"}
		}
		yn := "no"
		if b.Defer {
			yn = "yes"
		}
		nodes := []config.Node{
			enode("hostname", []string{"mx.verif.test"}),
			enode("tls", []string{"off"}),
			enode("defer_sender_reject", []string{yn}),
			enode("buffer", []string{"ram"}),
			enode("limits", nil, limitNodes(b.Cfg, b.Dual)...),
			enode("check", nil, enode("verifc11", nil)),
			enode("default_source", nil,
				enode("destination", []string{"rej@dst.example"},
					enode("reject", []string{"550", "5.1.1", "verif: no such user"})),
				enode("default_destination", nil, enode("deliver_to", []string{"verifc11"}))),
		}
		if err := endp.Init(config.NewMap(map[string]interface{}{}, config.Node{Children: nodes})); err != nil {
			t.Fatalf("behaviour %d: endpoint init: %v", b.ID, err)
		}
		defer endp.Close()
		g := endp.VerifLimitsGroup()
		if b.Cfg.MB != RealMaxBuckets {
			g.VerifSetMaxBuckets(b.Cfg.MB)
		}
		r := &erun{run: run{t: t, b: Behaviour{ID: b.ID, Cfg: b.Cfg, Dual: b.Dual, Probe: b.Probe}, g: g, tr: tr,
			cl: map[string]*client{}}, endp: endp, tgt: tgt, def: b.Defer, ec: map[string]*eclient{}}
		r.installYield()
		for i, st := range b.Hist {
			planned := false
			if st.A == "TakeMsg" {
				for _, nx := range b.Hist[i+1:] {
					if nx.M != st.M {
						continue
					}
					planned = nx.A == "PipeReject"
					break
				}
			}
			r.estep(st, planned)
		}
		endAll := func() {
			r.resume(r.parked())
			for i := 0; i < 3 && len(r.pendingNames()) > 0; i++ {
				r.tick()
			}
			names := []string{}
			for n := range r.ec {
				names = append(names, n)
			}
			sort.Strings(names)
			for _, n := range names {
				r.estep(EStep{Step: Step{A: "RelMsg", M: n}}, false)
			}
		}
		endAll()
		// probe: for every source key used, N+1 fresh sessions; the first N get through, the
		// last one waits and gets the permit when the first transaction ends
		if b.Probe && b.Cfg.Source > 0 {
			crashed := false
			for _, c := range r.ec {
				crashed = crashed || c.crashed
			}
			used := map[string]bool{}
			for _, st := range b.Hist {
				if st.A == "TakeMsg" {
					used[st.Src] = true
				}
			}
			ks := []string{}
			for k := range used {
				ks = append(ks, k)
			}
			sort.Strings(ks)
			for _, k := range ks {
				if crashed {
					break
				}
				qs := []string{}
				for i := 1; i <= b.Cfg.Source+1 && i <= 3; i++ {
					q := "q" + strconv.Itoa(i)
					r.estep(EStep{Step: Step{A: "TakeMsg", M: q, IP: "i" + strconv.Itoa(i), Src: k}, How: "reset"}, false)
					qs = append(qs, q)
					crashed = crashed || r.eclient(q).crashed
					if len(r.pendingNames()) > 0 || crashed {
						break
					}
				}
				r.estep(EStep{Step: Step{A: "RelMsg", M: qs[0]}}, false)
				for i := 0; i < 3 && len(r.pendingNames()) > 0; i++ {
					r.tick()
				}
				for _, q := range qs {
					r.estep(EStep{Step: Step{A: "RelMsg", M: q}}, false)
				}
			}
		}
		// a caller that was parked late (yield point) may still have a transaction open
		for i := 0; i < 3 && (r.parked() != nil || len(r.pendingNames()) > 0); i++ {
			endAll()
		}
		r.snap("Quiesced")
	})
}

func TestReplayEndpoint(t *testing.T) {
	in, out := os.Getenv("VERIF_IN"), os.Getenv("VERIF_OUT")
	if in == "" || out == "" {
		t.Skip("VERIF_IN / VERIF_OUT not set")
	}
	f, err := os.Open(in)
	if err != nil {
		t.Fatal(err)
	}
	defer f.Close()
	of, err := os.Create(out)
	if err != nil {
		t.Fatal(err)
	}
	defer of.Close()
	w := bufio.NewWriter(of)
	defer w.Flush()
	sc := bufio.NewScanner(f)
	sc.Buffer(make([]byte, 1<<20), 1<<26)
	n := 0
	for sc.Scan() {
		var b EBehaviour
		if err := json.Unmarshal(sc.Bytes(), &b); err != nil {
			t.Fatalf("bad behaviour line: %v", err)
		}
		runEndpointBehaviour(t, b, w)
		n++
	}
	t.Logf("replayed %d endpoint-level behaviours", n)
}
