package limitscheck

// Scheduling dimension "Park / Unpark" (Limits.tla): a no-op limiter is appended to the
// chain of every bucket the keyed scopes construct (limits.VerifWrapNew).  It is reached
// right after the bucket's semaphores granted their permits and before BucketSet /
// Group go on (book-keeping, next scope, return).  When the script says Park for the
// caller and scope, the caller's goroutine is held there until the scripted Unpark (or the
// end of the script); meanwhile the bubble's clock may advance (Tick, Minute) and other
// callers run.  Without a scripted Park the extra limiter does nothing.

import (
	"context"
	"testing/synctest"

	"github.com/foxcpp/maddy/internal/limits/limiters"
	"github.com/foxcpp/maddy/verifharness/vtrace"
)

type parkL struct {
	r     *run
	scope string
}

func (p parkL) Take() bool                            { p.r.parkHere(p.scope); return true }
func (p parkL) TakeContext(ctx context.Context) error { p.r.parkHere(p.scope); return nil }
func (p parkL) Release()                              {}
func (p parkL) Close()                                {}

func (r *run) installPark() {
	r.parkArm = map[string]string{}
	r.parkGate = map[string]chan struct{}{}
	r.g.VerifWrapNew(func(scope string, l limiters.L) limiters.L {
		if ml, ok := l.(*limiters.MultiLimit); ok {
			ml.Wrapped = append(ml.Wrapped, parkL{r, scope})
			return ml
		}
		return &limiters.MultiLimit{Wrapped: []limiters.L{l, parkL{r, scope}}}
	})
}

func (r *run) parkHere(scope string) {
	r.mu.Lock()
	m := r.gor[goid()]
	if m == "" || r.parkArm[m] != scope {
		r.mu.Unlock()
		return
	}
	delete(r.parkArm, m)
	gate := make(chan struct{})
	r.parkGate[m] = gate
	r.mu.Unlock()
	r.tr.Emit("Yield", vtrace.Ev{"s": scope, "m": m})
	<-gate
}

// arm: the step after this call of caller m is Park(m, s)
func (r *run) arm(i int) {
	h := r.b.Hist
	if r.parkArm == nil || i+1 >= len(h) || h[i+1].A != "Park" || h[i+1].M != h[i].M ||
		(h[i].A != "TakeMsg" && h[i].A != "TakeDest") {
		return
	}
	r.mu.Lock()
	r.parkArm[h[i].M] = h[i+1].S
	r.mu.Unlock()
}

func (r *run) disarm(m string) {
	if r.parkArm == nil {
		return
	}
	r.mu.Lock()
	delete(r.parkArm, m)
	r.mu.Unlock()
}

func (r *run) unpark(m string) bool {
	r.mu.Lock()
	gate := r.parkGate[m]
	delete(r.parkGate, m)
	r.mu.Unlock()
	if gate == nil {
		return false
	}
	r.tr.Emit("Resume", vtrace.Ev{"m": m})
	close(gate)
	synctest.Wait()
	r.snap("Snap")
	return true
}

func (r *run) unparkAll() {
	r.mu.Lock()
	ms := []string{}
	for m := range r.parkGate {
		ms = append(ms, m)
	}
	r.mu.Unlock()
	for _, m := range ms {
		r.unpark(m)
	}
}
