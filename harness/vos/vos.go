// Package vos is a drop-in replacement for the identifiers of package os that
// internal/target/queue/queue.go uses. It is swapped in through
// `go build -overlay` at check time (the import "os" of a generated copy of
// queue.go becomes os "github.com/foxcpp/maddy/verifharness/vos").
//
// Every call is passed through to the real file system. For directories
// registered with a Controller the shim additionally
//   - records every mutating call (create, write, sync, rename, remove),
//   - can stop the world BEFORE mutating call k, or INSIDE write k (torn write),
//   - takes a snapshot of the directory at the crash instant, either as-is
//     ("ordered") or with all bytes written since the last Sync of each file
//     dropped ("strong"); renames and unlinks survive in both,
//   - can make one mutating call fail with an I/O error instead of performing it
//     (FailOp: disk full, EIO); a failing write leaves the first half behind.
// "Stopping the world" is runtime.Goexit() in the calling goroutine at the crash
// point and in every later shim call made for that directory.
package vos

import (
	"io"
	"io/fs"
	"os"
	"path/filepath"
	"runtime"
	"strings"
	"sync"
	"syscall"
)

type FileMode = fs.FileMode
type FileInfo = fs.FileInfo
type DirEntry = fs.DirEntry

const (
	ModePerm = os.ModePerm
	O_RDONLY = os.O_RDONLY
	O_WRONLY = os.O_WRONLY
	O_RDWR   = os.O_RDWR
	O_APPEND = os.O_APPEND
	O_CREATE = os.O_CREATE
	O_EXCL   = os.O_EXCL
	O_SYNC   = os.O_SYNC
	O_TRUNC  = os.O_TRUNC
)

type PathError = fs.PathError

var (
	ErrNotExist = os.ErrNotExist
)

func IsNotExist(err error) bool { return os.IsNotExist(err) }

// Op is one recorded mutating operation.
type Op struct {
	N    int    // 1-based index among mutating operations
	Op   string // create, write, sync, rename, remove
	File string // class of the file: hdr, body, meta, metanew, broken, other
	Name string // base name
	Len  int    // bytes (write)
	Torn bool   // the write was cut short by the crash
}

// Controller observes one spool directory.
type Controller struct {
	Dir string
	// CrashAt: stop before mutating op number CrashAt (0 = never).
	CrashAt int
	// Torn: if op CrashAt is a write, perform the first half of it, then stop.
	Torn bool
	// Strength of the snapshot taken at the crash: "ordered" or "strong".
	Strength string
	// SnapDir receives the snapshot (must exist and be empty).
	SnapDir string
	// OnOp is called under the controller's lock after each mutating op took effect.
	OnOp func(Op)
	// OnCrash is called under the lock when the crash happens (after the snapshot).
	OnCrash func(k int, op Op)
	// FailOp: "op:class" (create|write|sync|rename : hdr|body|metanew|meta), "" = never. The
	// FailNth-th (0, 1 = first) call of that kind returns an I/O error instead of being performed;
	// it is not numbered as an operation. OnFail is called under the lock when that happens.
	FailOp  string
	FailNth int
	OnFail  func(Op)

	mu       sync.Mutex
	n        int
	crashed  bool
	synced   map[string]int64 // bytes known durable per path
	failSeen int
}

// failing reports (with c.mu held) whether this call is the one that has to fail.
func (c *Controller) failing(op, path string) bool {
	if c.FailOp == "" || c.crashed || c.FailOp != op+":"+class(path) {
		return false
	}
	c.failSeen++
	n := c.FailNth
	if n == 0 {
		n = 1
	}
	if c.failSeen != n {
		return false
	}
	if c.OnFail != nil {
		c.OnFail(Op{N: c.n + 1, Op: op, File: class(path), Name: filepath.Base(path)})
	}
	return true
}

var (
	regMu sync.Mutex
	reg   = map[string]*Controller{}
)

// Register starts observing c.Dir.
func Register(c *Controller) {
	c.synced = map[string]int64{}
	// whatever is in the directory when observation starts is durable
	if ents, err := os.ReadDir(c.Dir); err == nil {
		for _, e := range ents {
			if fi, err := e.Info(); err == nil && !e.IsDir() {
				c.synced[filepath.Join(c.Dir, e.Name())] = fi.Size()
			}
		}
	}
	regMu.Lock()
	reg[filepath.Clean(c.Dir)] = c
	regMu.Unlock()
}

func Unregister(c *Controller) {
	regMu.Lock()
	delete(reg, filepath.Clean(c.Dir))
	regMu.Unlock()
}

func ctlFor(path string) *Controller {
	regMu.Lock()
	defer regMu.Unlock()
	return reg[filepath.Clean(filepath.Dir(path))]
}

// Crashed reports whether the crash point was reached.
func (c *Controller) Crashed() bool {
	c.mu.Lock()
	defer c.mu.Unlock()
	return c.crashed
}

// Ops returns the number of mutating operations performed so far.
func (c *Controller) Ops() int {
	c.mu.Lock()
	defer c.mu.Unlock()
	return c.n
}

// Point is a crash candidate that is not a file operation (a call on a scripted
// peer): it is numbered like an operation, and the world can be stopped before it.
func (c *Controller) Point(name string) {
	c.mu.Lock()
	ok, _ := c.step("call", name, 0)
	if ok {
		c.done("call", name, 0)
	}
	c.mu.Unlock()
	if !ok {
		runtime.Goexit()
	}
}

// StopNow stops the world at the current instant (used for "the stop happens
// after the queue went quiet") and takes the snapshot.
func (c *Controller) StopNow() {
	c.mu.Lock()
	if !c.crashed {
		c.crashNow(Op{N: c.n + 1, Op: "end", File: "end"})
	}
	c.mu.Unlock()
}

// Gate must be called by scripted peers of the crashed instance before they do
// anything: it stops the calling goroutine if the world has stopped.
func (c *Controller) Gate() {
	c.mu.Lock()
	dead := c.crashed
	c.mu.Unlock()
	if dead {
		runtime.Goexit()
	}
}

func class(name string) string {
	switch {
	case strings.HasPrefix(name, "call:"):
		return strings.TrimPrefix(name, "call:")
	case strings.HasSuffix(name, ".header"):
		return "hdr"
	case strings.HasSuffix(name, ".body"):
		return "body"
	case strings.HasSuffix(name, ".meta.new"):
		return "metanew"
	case strings.HasSuffix(name, ".meta_broken"):
		return "broken"
	case strings.HasSuffix(name, ".meta"):
		return "meta"
	}
	return "other"
}

// snapshot copies the directory; must be called with c.mu held.
func (c *Controller) snapshot() {
	if c.SnapDir == "" {
		return
	}
	ents, _ := os.ReadDir(c.Dir)
	for _, e := range ents {
		if e.IsDir() { // sub-directories are not the queue's: they survive as (empty) directories
			os.Mkdir(filepath.Join(c.SnapDir, e.Name()), 0o700)
			continue
		}
		src := filepath.Join(c.Dir, e.Name())
		data, err := os.ReadFile(src)
		if err != nil {
			continue
		}
		if c.Strength == "strong" {
			keep := c.synced[src]
			if int64(len(data)) > keep {
				data = data[:keep]
			}
		}
		os.WriteFile(filepath.Join(c.SnapDir, e.Name()), data, 0o644)
	}
}

// step is called (with c.mu held) before a mutating op. It returns
// (proceed, torn): proceed=false means the world stops now.
func (c *Controller) step(op, path string, ln int) (bool, bool) {
	if c.crashed {
		return false, false
	}
	c.n++
	if c.CrashAt != 0 && c.n == c.CrashAt {
		if c.Torn && op == "write" && ln > 1 {
			return true, true
		}
		c.crashNow(Op{N: c.n, Op: op, File: class(path), Name: filepath.Base(path), Len: ln})
		return false, false
	}
	return true, false
}

func (c *Controller) crashNow(op Op) {
	c.crashed = true
	c.snapshot()
	if c.OnCrash != nil {
		c.OnCrash(op.N, op)
	}
}

func (c *Controller) done(op, path string, ln int) {
	if c.OnOp != nil {
		c.OnOp(Op{N: c.n, Op: op, File: class(path), Name: filepath.Base(path), Len: ln})
	}
}

// File wraps *os.File.
type File struct {
	f    *os.File
	c    *Controller
	path string
}

func MkdirAll(path string, perm FileMode) error { return os.MkdirAll(path, perm) }

func Stat(name string) (FileInfo, error) {
	if c := ctlFor(name); c != nil {
		c.Gate()
	}
	return os.Stat(name)
}

func ReadDir(name string) ([]DirEntry, error) {
	regMu.Lock()
	c := reg[filepath.Clean(name)]
	regMu.Unlock()
	if c != nil {
		c.Gate()
	}
	return os.ReadDir(name)
}

func Open(name string) (*File, error) {
	c := ctlFor(name)
	if c != nil {
		c.Gate()
	}
	f, err := os.Open(name)
	if err != nil {
		return nil, err
	}
	return &File{f: f, c: c, path: name}, nil
}

func Create(name string) (*File, error) {
	c := ctlFor(name)
	if c == nil {
		f, err := os.Create(name)
		if err != nil {
			return nil, err
		}
		return &File{f: f, path: name}, nil
	}
	c.mu.Lock()
	if c.failing("create", name) {
		c.mu.Unlock()
		return nil, &PathError{Op: "open", Path: name, Err: syscall.ENOSPC}
	}
	ok, _ := c.step("create", name, 0)
	if !ok {
		c.mu.Unlock()
		runtime.Goexit()
	}
	f, err := os.Create(name)
	if err == nil {
		c.synced[name] = 0
		c.done("create", name, 0)
	}
	c.mu.Unlock()
	if err != nil {
		return nil, err
	}
	return &File{f: f, c: c, path: name}, nil
}

// OpenFile supports the flag combinations a spool writer plausibly uses.
func OpenFile(name string, flag int, perm FileMode) (*File, error) {
	c := ctlFor(name)
	if c == nil || flag&(O_CREATE|O_TRUNC|O_WRONLY|O_RDWR|O_APPEND) == 0 {
		if c != nil {
			c.Gate()
		}
		f, err := os.OpenFile(name, flag, perm)
		if err != nil {
			return nil, err
		}
		return &File{f: f, c: c, path: name}, nil
	}
	c.mu.Lock()
	if c.failing("create", name) {
		c.mu.Unlock()
		return nil, &PathError{Op: "open", Path: name, Err: syscall.ENOSPC}
	}
	ok, _ := c.step("create", name, 0)
	if !ok {
		c.mu.Unlock()
		runtime.Goexit()
	}
	f, err := os.OpenFile(name, flag, perm)
	if err == nil {
		if st, e := f.Stat(); e == nil && st.Size() < c.synced[name] || flag&O_TRUNC != 0 {
			c.synced[name] = 0
		} else if _, known := c.synced[name]; !known {
			c.synced[name] = 0
		}
	}
	c.done("create", name, 0)
	c.mu.Unlock()
	if err != nil {
		return nil, err
	}
	return &File{f: f, c: c, path: name}, nil
}

func ReadFile(name string) ([]byte, error) {
	if c := ctlFor(name); c != nil {
		c.Gate()
	}
	return os.ReadFile(name)
}

func WriteFile(name string, data []byte, perm FileMode) error {
	f, err := OpenFile(name, O_WRONLY|O_CREATE|O_TRUNC, perm)
	if err != nil {
		return err
	}
	_, err = f.Write(data)
	if cerr := f.Close(); err == nil {
		err = cerr
	}
	return err
}

func Lstat(name string) (FileInfo, error) { return Stat(name) }

func Rename(oldpath, newpath string) error {
	c := ctlFor(oldpath)
	if c == nil {
		return os.Rename(oldpath, newpath)
	}
	c.mu.Lock()
	if c.failing("rename", newpath) {
		c.mu.Unlock()
		return &os.LinkError{Op: "rename", Old: oldpath, New: newpath, Err: syscall.EIO}
	}
	ok, _ := c.step("rename", newpath, 0)
	if !ok {
		c.mu.Unlock()
		runtime.Goexit()
	}
	err := os.Rename(oldpath, newpath)
	if err == nil {
		c.synced[newpath] = c.synced[oldpath]
		delete(c.synced, oldpath)
		c.done("rename", newpath, 0)
	}
	c.mu.Unlock()
	return err
}

func Remove(name string) error {
	c := ctlFor(name)
	if c == nil {
		return os.Remove(name)
	}
	c.mu.Lock()
	ok, _ := c.step("remove", name, 0)
	if !ok {
		c.mu.Unlock()
		runtime.Goexit()
	}
	err := os.Remove(name)
	delete(c.synced, name)
	c.done("remove", name, 0)
	c.mu.Unlock()
	return err
}

func (f *File) Name() string { return f.f.Name() }

func (f *File) Stat() (FileInfo, error) { return f.f.Stat() }

func (f *File) WriteString(s string) (int, error) { return f.Write([]byte(s)) }

func (f *File) Read(p []byte) (int, error) {
	if f.c != nil {
		f.c.Gate()
	}
	return f.f.Read(p)
}

func (f *File) Close() error {
	// closing is not a mutating operation and must work after the crash too
	// (deferred Close calls run during Goexit)
	return f.f.Close()
}

func (f *File) Write(p []byte) (int, error) {
	c := f.c
	if c == nil {
		return f.f.Write(p)
	}
	c.mu.Lock()
	if c.failing("write", f.path) {
		n, _ := f.f.Write(p[:len(p)/2])
		c.mu.Unlock()
		return n, &PathError{Op: "write", Path: f.path, Err: syscall.ENOSPC}
	}
	ok, torn := c.step("write", f.path, len(p))
	if !ok {
		c.mu.Unlock()
		runtime.Goexit()
	}
	if torn {
		f.f.Write(p[:len(p)/2])
		c.crashNow(Op{N: c.n, Op: "write", File: class(f.path), Name: filepath.Base(f.path), Len: len(p) / 2, Torn: true})
		c.mu.Unlock()
		runtime.Goexit()
	}
	n, err := f.f.Write(p)
	c.done("write", f.path, n)
	c.mu.Unlock()
	return n, err
}

// ReadFrom lets io.Copy use plain Write calls (so that every write is seen).
func (f *File) ReadFrom(r io.Reader) (int64, error) {
	buf := make([]byte, 32*1024)
	var total int64
	for {
		n, err := r.Read(buf)
		if n > 0 {
			w, werr := f.Write(buf[:n])
			total += int64(w)
			if werr != nil {
				return total, werr
			}
		}
		if err == io.EOF {
			return total, nil
		}
		if err != nil {
			return total, err
		}
	}
}

func (f *File) Sync() error {
	c := f.c
	if c == nil {
		return f.f.Sync()
	}
	c.mu.Lock()
	if c.failing("sync", f.path) {
		c.mu.Unlock()
		return &PathError{Op: "sync", Path: f.path, Err: syscall.EIO}
	}
	ok, _ := c.step("sync", f.path, 0)
	if !ok {
		c.mu.Unlock()
		runtime.Goexit()
	}
	var err error // the real fsync is skipped: durability is modelled, not needed
	if st, serr := f.f.Stat(); serr == nil {
		// the file may have been renamed since it was opened: find its current path
		p := f.path
		if _, ok := c.synced[p]; !ok {
			for cand := range c.synced {
				if ci, e := os.Stat(cand); e == nil && os.SameFile(ci, st) {
					p = cand
					break
				}
			}
		}
		c.synced[p] = st.Size()
	}
	c.done("sync", f.path, 0)
	c.mu.Unlock()
	return err
}
