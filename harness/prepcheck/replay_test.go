// Package prepcheck (extension X13) drives the real smtp / submission / lmtp endpoint of maddy
// (go-smtp server, Session, submissionPrepare, prepareBody, checkRoutingLoops, the real msgpipeline that
// adds the Received field) over loopback TCP with a raw line client and records, for every row of
// spec/MsgPrepare.tla, the final reply and the message exactly as the delivery target received it.
// Event: Row {in, out}.  Nothing is judged here: the header is split into fields, the top Received field
// into its clauses, and TLC evaluates the predicates (spec/MsgPrepareTrace.tla).
package prepcheck

import (
	"bufio"
	"bytes"
	"context"
	"crypto/tls"
	"encoding/base64"
	"encoding/json"
	"errors"
	"fmt"
	"io"
	"net"
	"os"
	"regexp"
	"strconv"
	"strings"
	"sync"
	"testing"
	"time"

	"github.com/emersion/go-message/textproto"
	"github.com/emersion/go-smtp"
	"github.com/foxcpp/maddy/framework/buffer"
	"github.com/foxcpp/maddy/framework/config"
	"github.com/foxcpp/maddy/framework/log"
	"github.com/foxcpp/maddy/framework/module"
	smtpendp "github.com/foxcpp/maddy/internal/endpoint/smtp"
	"github.com/foxcpp/maddy/verifharness/authkit"
	"github.com/foxcpp/maddy/verifharness/scripted"
	"github.com/foxcpp/maddy/verifharness/vtrace"
	"golang.org/x/net/idna"
)

// ---- rows -------------------------------------------------------------------------------

type Field struct {
	K string `json:"k"`
	V string `json:"v"`
}

type Sess struct {
	Ep      string `json:"ep"`
	Tls     bool   `json:"tls"`
	Auth    bool   `json:"auth"`
	Utf8    bool   `json:"utf8"`
	Helo    string `json:"helo"`
	Rdns    string `json:"rdns"`
	Host    string `json:"host"`
	Maxrecv int    `json:"maxrecv"`
	Prev    string `json:"prev"`
}

type Conc struct {
	Helo   string `json:"helo"`
	Ptr    string `json:"ptr"`
	Host   string `json:"host"`
	Sender string `json:"sender"`
	Rcpt   string `json:"rcpt"`
}

type In struct {
	S    Sess    `json:"s"`
	C    Conc    `json:"c"`
	Msg  []Field `json:"msg"`
	Body int     `json:"body"` // size of the body in bytes (0: the small fixed body)
}

type Row struct {
	ID int             `json:"id"`
	In json.RawMessage `json:"in"`
}

const uLabel = "bücher" // {U} in a value of the specification; A-label xn--bcher-kva

func expand(v string) string {
	if strings.HasPrefix(v, "fill:") {
		n, _ := strconv.Atoi(v[5:])
		var b strings.Builder
		for n > 0 {
			k := 70
			if n < k {
				k = n
			}
			if b.Len() > 0 {
				b.WriteString("\r\n ")
			}
			b.WriteString(strings.Repeat("x", k))
			n -= k
		}
		return b.String()
	}
	return strings.ReplaceAll(v, "{U}", uLabel)
}

func contract(v string) string {
	u := strings.ReplaceAll(strings.ReplaceAll(v, "\r\n ", ""), "\r\n\t", "")
	if len(u) > 100 && strings.Trim(u, "x") == "" {
		return "fill:" + strconv.Itoa(len(u))
	}
	v = strings.ReplaceAll(v, uLabel, "{U}")
	for _, r := range v {
		if r > 126 || (r < 32 && r != '\t' && r != '\r' && r != '\n') {
			return "~nonascii"
		}
	}
	return v
}

// ---- recording target -------------------------------------------------------------------

type capture struct {
	id        string
	hdr       []byte
	body      []byte
	committed bool
	aborted   bool
}

var (
	recMu   sync.Mutex
	recGot  []*capture
	regOnce sync.Once
)

type target struct{ inst string }

func (t *target) Name() string               { return "verifx13" }
func (t *target) InstanceName() string       { return t.inst }
func (t *target) Init(cfg *config.Map) error { return nil }
func (t *target) Start(ctx context.Context, m *module.MsgMetadata, from string) (module.Delivery, error) {
	return &delivery{c: &capture{id: m.ID}}, nil
}

type delivery struct{ c *capture }

func (d *delivery) AddRcpt(ctx context.Context, rcptTo string, _ smtp.RcptOptions) error { return nil }
func (d *delivery) Body(ctx context.Context, header textproto.Header, body buffer.Buffer) error {
	var hb bytes.Buffer
	if err := textproto.WriteHeader(&hb, header); err != nil {
		return err
	}
	r, err := body.Open()
	if err != nil {
		return err
	}
	defer r.Close()
	b, err := io.ReadAll(r)
	if err != nil {
		return err
	}
	d.c.hdr, d.c.body = hb.Bytes(), b
	return nil
}
func (d *delivery) Commit(ctx context.Context) error {
	d.c.committed = true
	recMu.Lock()
	recGot = append(recGot, d.c)
	recMu.Unlock()
	return nil
}
func (d *delivery) Abort(ctx context.Context) error { d.c.aborted = true; return nil }

// ---- authentication provider and resolver ---------------------------------------------------

type authMod struct{}

func (authMod) Name() string               { return "auth.verifx13" }
func (authMod) InstanceName() string       { return "x13auth" }
func (authMod) Init(cfg *config.Map) error { return nil }
func (authMod) AuthPlain(u, p string) error {
	if u == "user@example.org" && p == "secret" {
		return nil
	}
	return module.ErrUnknownCredentials
}

type resolver struct {
	mu   sync.Mutex
	mode string
	name string
}

func (r *resolver) set(mode, name string) { r.mu.Lock(); r.mode, r.name = mode, name; r.mu.Unlock() }
func (r *resolver) LookupAddr(ctx context.Context, addr string) ([]string, error) {
	r.mu.Lock()
	defer r.mu.Unlock()
	switch r.mode {
	case "name", "idn":
		return []string{r.name + "."}, nil
	case "temp":
		return nil, &net.DNSError{Err: "server misbehaving", Name: addr, IsTemporary: true}
	}
	return nil, &net.DNSError{Err: "no such host", Name: addr, IsNotFound: true}
}
func nx(n string) error { return &net.DNSError{Err: "no such host", Name: n, IsNotFound: true} }
func (r *resolver) LookupHost(ctx context.Context, h string) ([]string, error)  { return nil, nx(h) }
func (r *resolver) LookupMX(ctx context.Context, n string) ([]*net.MX, error)  { return nil, nx(n) }
func (r *resolver) LookupTXT(ctx context.Context, n string) ([]string, error)  { return nil, nx(n) }
func (r *resolver) LookupIPAddr(ctx context.Context, h string) ([]net.IPAddr, error) {
	return nil, nx(h)
}

// ---- endpoints ------------------------------------------------------------------------------

type world struct {
	t     *testing.T
	res   *resolver
	certs *scripted.SMTPCerts
	endps map[string]*endpoint
}

type endpoint struct {
	e *smtpendp.Endpoint
	l net.Listener
}

func (w *world) endpoint(s Sess, c Conc) *endpoint {
	key := fmt.Sprintf("%s|%s|%d", s.Ep, c.Host, s.Maxrecv)
	if ep, ok := w.endps[key]; ok {
		return ep
	}
	text := "hostname " + c.Host + "\ntls off\nbuffer ram\nmax_header_size 4K\nmax_message_size 16K\n"
	if s.Maxrecv > 0 {
		text += fmt.Sprintf("max_received %d\n", s.Maxrecv)
	}
	if s.Ep != "lmtp" {
		text += "auth &x13auth\n"
	}
	text += "deliver_to verifx13 T\n"
	nodes, err := authkit.Nodes(text)
	if err != nil {
		w.t.Fatalf("config: %v\n%s", err, text)
	}
	mod, err := smtpendp.New(s.Ep, nil)
	if err != nil {
		w.t.Fatal(err)
	}
	e := mod.(*smtpendp.Endpoint)
	e.Log = log.Logger{Out: log.NopOutput{}}
	if err := e.Init(config.NewMap(map[string]interface{}{}, config.Node{Children: nodes})); err != nil {
		w.t.Fatalf("endpoint init: %v\n%s", err, text)
	}
	e.VerifPrepareSetResolver(w.res)
	if s.Ep != "lmtp" {
		leaf, err := w.certs.Leaf("mx.example.org", "valid")
		if err != nil {
			w.t.Fatal(err)
		}
		e.VerifPrepareSetTLS(&tls.Config{Certificates: []tls.Certificate{*leaf}})
	}
	l, err := net.Listen("tcp4", "127.0.0.1:0")
	if err != nil {
		w.t.Fatal(err)
	}
	go e.VerifPrepareServe(l)
	ep := &endpoint{e: e, l: l}
	w.endps[key] = ep
	return ep
}

// ---- client ---------------------------------------------------------------------------------

type reply struct {
	code int
	ench string
	text string
}

type client struct {
	c  net.Conn
	rd *bufio.Reader
}

var enchRE = regexp.MustCompile(`^([245]\.\d{1,3}\.\d{1,3}) `)
var idRE = regexp.MustCompile(`\(msg ID = ([0-9a-f]+)\)`)

func (cl *client) read() (reply, error) {
	var r reply
	for {
		line, err := cl.rd.ReadString('\n')
		if err != nil {
			return r, err
		}
		line = strings.TrimRight(line, "\r\n")
		if len(line) < 4 {
			return r, errors.New("short reply line: " + line)
		}
		r.code, _ = strconv.Atoi(line[:3])
		rest := line[4:]
		if m := enchRE.FindStringSubmatch(rest); m != nil && r.ench == "" {
			r.ench = m[1]
		}
		r.text += rest + "\n"
		if line[3] == ' ' {
			return r, nil
		}
	}
}

func (cl *client) cmd(s string) (reply, error) {
	if _, err := io.WriteString(cl.c, s+"\r\n"); err != nil {
		return reply{}, err
	}
	return cl.read()
}

type sendRes struct {
	stage string // "none" (accepted), "pre" (a command before the message was refused), "data"
	rep   reply
}

func (cl *client) message(in In, msg []Field, bodyN int) (sendRes, error) {
	mail := "MAIL FROM:<" + in.C.Sender + ">"
	if in.S.Utf8 {
		mail += " SMTPUTF8"
	}
	for _, c := range []string{mail, "RCPT TO:<" + in.C.Rcpt + ">", "DATA"} {
		r, err := cl.cmd(c)
		if err != nil {
			return sendRes{}, err
		}
		if r.code/100 != 2 && r.code/100 != 3 {
			cl.cmd("RSET")
			return sendRes{"pre", r}, nil
		}
	}
	var b bytes.Buffer
	for _, f := range msg {
		b.WriteString(f.K + ": " + expand(f.V) + "\r\n")
	}
	b.WriteString("\r\n")
	b.Write(body(bodyN))
	b.WriteString(".\r\n")
	if _, err := cl.c.Write(b.Bytes()); err != nil {
		return sendRes{}, err
	}
	r, err := cl.read()
	if err != nil {
		return sendRes{}, err
	}
	if r.code/100 == 2 {
		return sendRes{"none", r}, nil
	}
	return sendRes{"data", r}, nil
}

func body(n int) []byte {
	if n == 0 {
		return []byte("first line\r\n..dot-stuffed line\r\nlast line\r\n")
	}
	return bytes.Repeat([]byte(strings.Repeat("y", 62)+"\r\n"), (n+63)/64)
}

func bodyAsStored(n int) []byte {
	if n == 0 {
		return []byte("first line\r\n.dot-stuffed line\r\nlast line\r\n")
	}
	return body(n)
}

// ---- what the target got -> out ---------------------------------------------------------------

var recvRE = regexp.MustCompile(`^(?:from (\S+)(?: \((?:(\S+) )?\[([^\]]*)\]\))?)? ?(?:by (\S+))? ?(?:\(envelope-sender <([^>]*)>\))? ?(?:with (\S+))? ?id (\S+); (.+)$`)
var midRE = regexp.MustCompile(`^<[0-9a-f]{8}-[0-9a-f]{4}-[0-9a-f]{4}-[0-9a-f]{4}-[0-9a-f]{12}@([^<>@\s]+)>$`)

func splitHeader(h []byte) []Field {
	var out []Field
	lines := strings.Split(string(h), "\r\n")
	var cur string
	flush := func() {
		if cur == "" {
			return
		}
		k, v := cur, ""
		if i := strings.IndexByte(cur, ':'); i >= 0 {
			k, v = cur[:i], strings.TrimPrefix(cur[i+1:], " ")
		}
		out = append(out, Field{k, v})
		cur = ""
	}
	for _, l := range lines {
		if l == "" {
			continue
		}
		if l[0] == ' ' || l[0] == '\t' {
			cur += "\r\n" + l
			continue
		}
		flush()
		cur = l
	}
	flush()
	return out
}

func unfold(v string) string {
	v = strings.ReplaceAll(v, "\r\n", "")
	return strings.Join(strings.Fields(v), " ")
}

func ascii(s string) (string, bool) {
	for _, r := range s {
		if r > 127 {
			if at := strings.LastIndexByte(s, '@'); at >= 0 {
				a, err := idna.ToASCII(s[at+1:])
				if err != nil {
					return "~nonascii", true
				}
				return s[:at+1] + a, true
			}
			a, err := idna.ToASCII(s)
			if err != nil {
				return "~nonascii", true
			}
			return a, true
		}
	}
	return s, false
}

func classify(f Field, t0, t1 time.Time) string {
	switch strings.ToLower(f.K) {
	case "message-id":
		if m := midRE.FindStringSubmatch(f.V); m != nil {
			return "gen@" + m[1]
		}
	case "date":
		d, err := time.Parse("Mon, 2 Jan 2006 15:04:05 -0700", f.V)
		if err != nil {
			return ""
		}
		if !d.Before(t0.Add(-2*time.Second)) && !d.After(t1.Add(2*time.Second)) {
			return "now"
		}
		return "other"
	}
	return ""
}

func parseReceived(v string, t0, t1 time.Time) vtrace.Ev {
	rc := vtrace.Ev{"parsed": false, "from": "", "rdns": "", "ip": "", "by": "", "env": "", "with": "", "id": "",
		"date": "", "u": []string{}}
	m := recvRE.FindStringSubmatch(unfold(v))
	if m == nil {
		return rc
	}
	us := []string{}
	get := func(name, s string) {
		a, u := ascii(s)
		if u {
			us = append(us, name)
		}
		rc[name] = a
	}
	rc["parsed"] = true
	get("from", m[1])
	get("rdns", m[2])
	rc["ip"] = m[3]
	get("by", m[4])
	get("env", m[5])
	rc["with"] = m[6]
	rc["id"] = m[7]
	d, err := time.Parse(time.RFC1123Z, m[8])
	switch {
	case err != nil:
		rc["date"] = "bad"
	case !d.Before(t0.Add(-2*time.Second)) && !d.After(t1.Add(2*time.Second)):
		rc["date"] = "now"
	default:
		rc["date"] = "other"
	}
	rc["u"] = us
	return rc
}

// ---- one row ----------------------------------------------------------------------------------

func prevMessage(in In) []Field {
	msg := []Field{{"X-Prev", "one"}, {"Message-ID", "<prev@src.example>"}, {"From", "prev@src.example"},
		{"Date", "Mon, 02 Jan 2006 15:04:05 -0700"}, {"Subject", "previous message"}}
	if in.S.Prev == "refused" {
		n := in.S.Maxrecv
		if n == 0 {
			n = 50
		}
		var r []Field
		for i := 0; i <= n; i++ {
			r = append(r, Field{"Received", "from a.example by b.example; Mon, 02 Jan 2006 15:04:05 -0700"})
		}
		msg = append(r, msg...)
	}
	return msg
}

func runRow(w *world, row Row, tr *vtrace.Tracer) error {
	var in In
	if err := json.Unmarshal(row.In, &in); err != nil {
		return fmt.Errorf("bad row: %v", err)
	}
	ep := w.endpoint(in.S, in.C)
	w.res.set(in.S.Rdns, in.C.Ptr)
	recMu.Lock()
	recGot = nil
	recMu.Unlock()

	t0 := time.Now()
	c, err := net.Dial("tcp4", ep.l.Addr().String())
	if err != nil {
		return err
	}
	defer c.Close()
	c.SetDeadline(time.Now().Add(120 * time.Second))
	cl := &client{c: c, rd: bufio.NewReader(c)}
	if _, err := cl.read(); err != nil {
		return fmt.Errorf("greeting: %v", err)
	}
	hello := "EHLO "
	if in.S.Ep == "lmtp" {
		hello = "LHLO "
	}
	must := func(r reply, err error, what string) error {
		if err != nil {
			return fmt.Errorf("%s: %v", what, err)
		}
		if r.code/100 != 2 {
			return fmt.Errorf("%s refused: %d %s", what, r.code, r.text)
		}
		return nil
	}
	r, err := cl.cmd(hello + in.C.Helo)
	if err := must(r, err, "EHLO"); err != nil {
		return err
	}
	if in.S.Tls {
		r, err := cl.cmd("STARTTLS")
		if err := must(r, err, "STARTTLS"); err != nil {
			return err
		}
		tc := tls.Client(c, &tls.Config{InsecureSkipVerify: true})
		if err := tc.Handshake(); err != nil {
			return fmt.Errorf("TLS handshake: %v", err)
		}
		cl = &client{c: tc, rd: bufio.NewReader(tc)}
		r, err = cl.cmd(hello + in.C.Helo)
		if err := must(r, err, "EHLO after STARTTLS"); err != nil {
			return err
		}
	}
	if in.S.Auth {
		r, err := cl.cmd("AUTH PLAIN " + base64.StdEncoding.EncodeToString([]byte("\x00user@example.org\x00secret")))
		if err := must(r, err, "AUTH"); err != nil {
			return err
		}
	}
	prevID := ""
	if in.S.Prev != "none" {
		pr, err := cl.message(in, prevMessage(in), 0)
		if err != nil {
			return fmt.Errorf("previous message: %v", err)
		}
		want := map[string]string{"ok": "none", "refused": "data"}[in.S.Prev]
		if pr.stage != want {
			// the session did not get into the state the row asks for: reported, judged by TLC
			prevID = "~prev-" + pr.stage
		} else if m := idRE.FindStringSubmatch(pr.rep.text); m != nil {
			prevID = m[1]
		}
		recMu.Lock()
		if in.S.Prev == "ok" && len(recGot) == 1 {
			prevID = recGot[0].id
		}
		recGot = nil
		recMu.Unlock()
	}
	sr, err := cl.message(in, in.Msg, in.Body)
	if err != nil {
		return fmt.Errorf("message: %v", err)
	}
	cl.cmd("QUIT")
	c.Close()
	t1 := time.Now()

	recMu.Lock()
	got := recGot
	recGot = nil
	recMu.Unlock()

	out := vtrace.Ev{"stage": sr.stage, "code": sr.rep.code, "ench": sr.rep.ench, "delivered": len(got),
		"fields": []vtrace.Ev{}, "bodyOk": false, "metaId": "", "prevId": prevID, "replyId": "",
		"rc": parseReceived("", t0, t1)}
	if m := idRE.FindStringSubmatch(sr.rep.text); m != nil {
		out["replyId"] = m[1]
	}
	if len(got) > 0 {
		g := got[0]
		fs := splitHeader(g.hdr)
		var fl []vtrace.Ev
		for _, f := range fs {
			fl = append(fl, vtrace.Ev{"k": f.K, "v": contract(f.V), "q": classify(f, t0, t1)})
		}
		out["fields"] = fl
		out["bodyOk"] = bytes.Equal(g.body, bodyAsStored(in.Body))
		out["metaId"] = g.id
		if len(fs) > 0 && strings.EqualFold(fs[0].K, "Received") {
			out["rc"] = parseReceived(fs[0].V, t0, t1)
		}
		if os.Getenv("VERIF_SHOW") != "" {
			fmt.Fprintf(os.Stderr, "ROW %d header at the target:\n%s\n", row.ID, g.hdr)
		}
	}
	if os.Getenv("VERIF_SHOW") != "" {
		fmt.Fprintf(os.Stderr, "ROW %d reply: %d %s", row.ID, sr.rep.code, sr.rep.text)
	}
	tr.Emit("Row", vtrace.Ev{"in": row.In, "out": out})
	return nil
}

func TestReplay(t *testing.T) {
	in, outp := os.Getenv("VERIF_IN"), os.Getenv("VERIF_OUT")
	if in == "" || outp == "" {
		t.Skip("VERIF_IN / VERIF_OUT not set")
	}
	regOnce.Do(func() {
		module.Register("target.verifx13", func(_, inst string, _, _ []string) (module.Module, error) {
			return &target{inst: inst}, nil
		})
		authkit.RegisterReady(authMod{})
	})
	f, err := os.Open(in)
	if err != nil {
		t.Fatal(err)
	}
	defer f.Close()
	of, err := os.Create(outp)
	if err != nil {
		t.Fatal(err)
	}
	defer of.Close()
	wr := bufio.NewWriter(of)
	defer wr.Flush()
	certs, err := scripted.NewSMTPCerts()
	if err != nil {
		t.Fatal(err)
	}
	w := &world{t: t, res: &resolver{}, certs: certs, endps: map[string]*endpoint{}}
	defer func() {
		for _, ep := range w.endps {
			ep.l.Close()
			ep.e.Close()
		}
	}()
	sc := bufio.NewScanner(f)
	sc.Buffer(make([]byte, 1<<20), 1<<26)
	for sc.Scan() {
		var row Row
		if err := json.Unmarshal(sc.Bytes(), &row); err != nil {
			t.Fatalf("bad row line: %v", err)
		}
		tr := vtrace.New(wr, row.ID)
		if err := runRow(w, row, tr); err != nil {
			t.Fatalf("row %d: %v", row.ID, err)
		}
	}
}
