package localstorecheck

import (
	"testing"

	"github.com/foxcpp/maddy/internal/authz"
)

func TestProbeNorm(t *testing.T) {
	addrs := []string{"alice@example.org", "ALICE@Example.ORG", "ａｌｉｃｅ@example.org", "bob@пример.example", "bob@xn--e1afmkfd.example", "Bob@ПРИМЕР.example", "BOB@XN--E1AFMKFD.example", "al ice@example.org", "postmaster", "a\x00b@example.org", "alice@@example.org", "\xff@example.org", ""}
	for _, n := range []string{"precis_casefold_email", "precis_email", "casefold", "noop", "precis_casefold", "precis"} {
		for _, a := range addrs {
			r, err := authz.NormalizeFuncs[n](a)
			t.Logf("%-22s %-30q -> %q %v", n, a, r, err)
		}
	}
}
