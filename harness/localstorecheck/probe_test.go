package localstorecheck

import (
	"context"
	"fmt"
	"io"
	"os"
	"path/filepath"
	"strings"
	"testing"

	"github.com/emersion/go-imap"
	"github.com/emersion/go-message/textproto"
	"github.com/emersion/go-smtp"
	"github.com/foxcpp/maddy/framework/buffer"
	"github.com/foxcpp/maddy/framework/config"
	"github.com/foxcpp/maddy/framework/module"
	_ "github.com/foxcpp/maddy/internal/imap_filter"
	_ "github.com/foxcpp/maddy/internal/imap_filter/command"
	_ "github.com/foxcpp/maddy/internal/storage/blob/fs"
	"github.com/foxcpp/maddy/internal/storage/imapsql"
	_ "github.com/foxcpp/maddy/internal/table"
)

func node(name string, args []string, ch ...config.Node) config.Node {
	return config.Node{Name: name, Args: args, Children: ch}
}

func dumpAll(t *testing.T, st *imapsql.Storage, tag string) {
	accts, lerr := st.ListIMAPAccts(); t.Log(tag, "list", accts, lerr)
	for _, a := range accts {
		u, err := st.GetIMAPAcct(a)
		if err != nil {
			t.Log(tag, a, "ERR", err)
			continue
		}
		mboxes, _ := u.ListMailboxes(false)
		for _, mi := range mboxes {
			_, mb, err := u.GetMailbox(mi.Name, true, nil)
			if err != nil {
				t.Log(tag, a, mi.Name, "ERR", err)
				continue
			}
			ch := make(chan *imap.Message, 100)
			ss := new(imap.SeqSet)
			ss.AddRange(1, 0)
			sec, _ := imap.ParseBodySectionName("BODY.PEEK[]")
			err = mb.ListMessages(true, ss, []imap.FetchItem{imap.FetchFlags, imap.FetchUid, sec.FetchItem()}, ch)
			n := 0
			for m := range ch {
				n++
				var b []byte
				for _, l := range m.Body {
					b, _ = io.ReadAll(l)
				}
				t.Logf("%s %s/%s %v uid=%d flags=%v body=%q", tag, a, mi.Name, mi.Attributes, m.Uid, m.Flags, string(b))
			}
			t.Logf("%s %s/%s %v n=%d err=%v", tag, a, mi.Name, mi.Attributes, n, err)
			mb.Close()
		}
		u.Logout()
	}
}

func TestProbe(t *testing.T) {
	dir := t.TempDir()
	m, err := imapsql.New("storage.imapsql", "local", nil, []string{"sqlite3", filepath.Join(dir, "db.sqlite")})
	if err != nil {
		t.Fatal(err)
	}
	st := m.(*imapsql.Storage)
	err = st.Init(config.NewMap(nil, node("storage.imapsql", nil,
		node("msg_store", []string{"fs", filepath.Join(dir, "blobs")}),
		node("delivery_normalize", []string{os.Getenv("PROBE_NORM")}),
	)))
	if err != nil {
		t.Fatal(err)
	}
	defer st.Close()
	for _, a := range []string{"alice@example.org", "bob@example.org"} {
		if err := st.CreateIMAPAcct(a); err != nil {
			t.Fatal(err)
		}
	}
	ctx := context.Background()
	{
		c1, e1 := st.Back.DB.Conn(ctx)
		c2, e2 := st.Back.DB.Conn(ctx)
		t.Log("warm", e1, e2)
		c1.PingContext(ctx)
		c2.PingContext(ctx)
		c1.Close()
		c2.Close()
	}
	meta := &module.MsgMetadata{ID: "m1", Quarantine: os.Getenv("PROBE_Q") != ""}
	d, err := st.Start(ctx, meta, "sender@example.net")
	if err != nil {
		t.Fatal(err)
	}
	for _, r := range strings.Split(os.Getenv("PROBE_RCPTS"), ",") {
		err := d.AddRcpt(ctx, r, smtp.RcptOptions{})
		t.Logf("AddRcpt %q -> %v", r, err)
	}
	if os.Getenv("PROBE_DEL") != "" {
		t.Log("delete", st.DeleteIMAPAcct(os.Getenv("PROBE_DEL")))
	}
	hdr := textproto.Header{}
	hdr.Add("Subject", "hello")
	hdr.Add("From", "<sender@example.net>")
	err = d.Body(ctx, hdr, buffer.MemoryBuffer{Slice: []byte("body m1\r\n")})
	t.Log("Body ->", err)
	dumpAll(t, st, "after-body")
	ents, _ := os.ReadDir(filepath.Join(dir, "blobs"))
	t.Log("blobs:", len(ents))
	if os.Getenv("PROBE_ABORT") != "" {
		t.Log("Abort ->", d.Abort(ctx))
	} else {
		t.Log("Commit ->", d.Commit(ctx))
	}
	dumpAll(t, st, "final")
	ents, _ = os.ReadDir(filepath.Join(dir, "blobs"))
	t.Log("blobs:", len(ents))
	fmt.Println()
}
