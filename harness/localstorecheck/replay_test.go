// Package localstorecheck replays TLC-generated behaviours of LocalStore.tla on
// the real IMAP storage module (internal/storage/imapsql over a real sqlite
// database and a real file-system message store, the real imap_filter group,
// optionally the real imap.filter.command) and records NDJSON traces.
//
// Input  (VERIF_IN):  one JSON object per line {"id":N,"cfg":{...},"hist":[...],"fkind":"scripted"|"command"}
// Output (VERIF_OUT): NDJSON events, trace number "t" = id.  After every call on
// the delivery the content of every mailbox of every account is read back
// through the IMAP backend API ("snap").
package localstorecheck

import (
	"bufio"
	"bytes"
	"context"
	"encoding/hex"
	"encoding/json"
	"errors"
	"fmt"
	"io"
	"os"
	"path/filepath"
	"sort"
	"strings"
	"sync"
	"testing"

	"github.com/emersion/go-imap"
	"github.com/emersion/go-imap/backend"
	"github.com/emersion/go-message/textproto"
	"github.com/emersion/go-smtp"
	"github.com/foxcpp/maddy/framework/buffer"
	"github.com/foxcpp/maddy/framework/config"
	"github.com/foxcpp/maddy/framework/exterrors"
	"github.com/foxcpp/maddy/framework/log"
	"github.com/foxcpp/maddy/framework/module"
	_ "github.com/foxcpp/maddy/internal/imap_filter"
	_ "github.com/foxcpp/maddy/internal/imap_filter/command"
	_ "github.com/foxcpp/maddy/internal/storage/blob/fs"
	"github.com/foxcpp/maddy/internal/storage/imapsql"
	_ "github.com/foxcpp/maddy/internal/table"
	"github.com/foxcpp/maddy/verifharness/vtrace"
)

// ---- the abstract names of the specification and their concrete spellings ----

var addrText = map[string]string{
	"a": "alice@example.org", "aC": "ALICE@Example.ORG", "aW": "ａｌｉｃｅ@example.org",
	"b": "bob@пример.example", "bC": "Bob@ПРИМЕР.example", "bA": "bob@xn--e1afmkfd.example",
	"u": "nobody@example.org", "x": "al ice@example.org",
	"s": "sales@example.org", "sC": "Sales@example.org",
	"g": "ghost@example.org", "f": "flaky@example.org",
}

var acctName = map[string]string{"a": "alice@example.org", "b": "bob@пример.example", "u": "nobody@example.org"}

func acctID(name string) string {
	l := strings.ToLower(name)
	for id, n := range acctName {
		if n == l {
			return id
		}
	}
	return "other"
}

func addrID(text string) string {
	for id, t := range addrText {
		if t == text {
			return id
		}
	}
	return "other"
}

type outRec struct {
	err    bool
	folder string
	flags  []string
}

var outRecs = map[string]outRec{
	"e": {err: true}, "n": {}, "nF": {flags: []string{"$A"}}, "w": {folder: "Work"},
	"wF": {folder: "Work", flags: []string{"$A"}}, "x": {folder: "Nope"},
	"r": {folder: "Archive", flags: []string{"$B"}},
}

const mailFrom = "sender@example.net"

// ---- behaviours -------------------------------------------------------------

type Msg struct {
	List []string `json:"list"`
	Quar bool     `json:"quar"`
}

type Cfg struct {
	Norm     string `json:"norm"`
	DMap     bool   `json:"dmap"`
	NF       int    `json:"nf"`
	JBox     string `json:"jbox"`
	JunkName string `json:"junkName"`
	Watch    bool   `json:"watch"` // an IMAP session has INBOX of account a selected
	Msgs     []Msg  `json:"msgs"`
}

type Step struct {
	A     string              `json:"a"`
	Msg   int                 `json:"msg"`
	Quar  bool                `json:"quar"`
	Ad    string              `json:"ad"`
	Acct  string              `json:"acct"`
	Outs  []map[string]string `json:"outs"`
	Fault int                 `json:"fault"`
}

type Behaviour struct {
	ID    int    `json:"id"`
	Cfg   Cfg    `json:"cfg"`
	Hist  []Step `json:"hist"`
	FKind string `json:"fkind"` // "scripted" (default) or "command": the real imap.filter.command over a shell script
	// harness-only dimensions of the storage configuration (the statement does not depend on them)
	Limit bool   `json:"limit"` // appendlimit far below the message size ("does not affect messages added when using module as a delivery target")
	Comp  string `json:"comp"`  // compression: "", "lz4", "zstd"
}

// ---- scripted environment (registered as maddy modules) ------------------------

// world is the scripted environment of the behaviour being replayed (behaviours run
// sequentially in one process).
var world struct {
	mu       sync.Mutex
	outs     []map[string]string // what filter i answers for account id
	quar     bool
	calls    []vtrace.Ev
	blobN    int  // blob-store Create calls since the last arm
	blobFail int  // fail the k-th Create (0 = never)
	fired    bool // the scripted blob-store failure happened
}

type scriptedFilter struct {
	inst string
	idx  int
}

func (f *scriptedFilter) Name() string         { return "imap.filter.verif_scripted" }
func (f *scriptedFilter) InstanceName() string { return f.inst }
func (f *scriptedFilter) Init(cfg *config.Map) error {
	_, err := cfg.Process()
	return err
}

func answerFor(idx int, acct string) string {
	if world.quar || idx > len(world.outs) {
		// not expected to be asked: make a wrong call visible in the mailbox too
		return "wF"
	}
	if id, ok := world.outs[idx-1][acct]; ok {
		return id
	}
	return "wF"
}

func (f *scriptedFilter) IMAPFilter(accountName string, rcptTo string, meta *module.MsgMetadata, hdr textproto.Header, body buffer.Buffer) (string, []string, error) {
	world.mu.Lock()
	defer world.mu.Unlock()
	acct := acctID(accountName)
	world.calls = append(world.calls, vtrace.Ev{"f": f.idx, "acct": acct, "ad": addrID(rcptTo)})
	o := outRecs[answerFor(f.idx, acct)]
	if o.err {
		return "", nil, errors.New("scripted filter failure")
	}
	return o.folder, append([]string(nil), o.flags...), nil
}

type faultyBlobs struct {
	module.BlobStore
	mod module.Module
}

func (b *faultyBlobs) Name() string         { return "storage.blob.verif_faulty" }
func (b *faultyBlobs) InstanceName() string { return "" }
func (b *faultyBlobs) Init(cfg *config.Map) error {
	return b.mod.Init(cfg)
}
func (b *faultyBlobs) Create(ctx context.Context, key string, size int64) (module.Blob, error) {
	world.mu.Lock()
	world.blobN++
	fail := world.blobFail != 0 && world.blobN == world.blobFail
	world.mu.Unlock()
	if fail {
		world.mu.Lock()
		world.fired = true
		world.mu.Unlock()
		return nil, errors.New("scripted blob store failure (disk full)")
	}
	return b.BlobStore.Create(ctx, key, size)
}

// flakyTable is the delivery_map of behaviours that contain a failing lookup.
type flakyTable struct{ m map[string]string }

func (t *flakyTable) Name() string               { return "table.verif_flaky" }
func (t *flakyTable) InstanceName() string       { return "" }
func (t *flakyTable) Init(cfg *config.Map) error { return nil }
func (t *flakyTable) Lookup(ctx context.Context, key string) (string, bool, error) {
	if key == addrText["f"] {
		return "", false, exterrors.WithTemporary(errors.New("scripted table failure (database is down)"), true)
	}
	v, ok := t.m[key]
	return v, ok, nil
}

var deliveryMap = map[string]string{
	"alice@example.org":  "alice@example.org",
	"bob@пример.example": "bob@пример.example",
	"nobody@example.org": "nobody@example.org",
	"sales@example.org":  "alice@example.org",
	"ghost@example.org":  "ghost@example.org",
}

func init() {
	log.DefaultLogger.Out = log.NopOutput{}
	module.Register("imap.filter.verif_scripted", func(_, inst string, _, args []string) (module.Module, error) {
		idx := 1
		if len(args) == 1 && args[0] == "2" {
			idx = 2
		}
		return &scriptedFilter{inst: inst, idx: idx}, nil
	})
	module.Register("storage.blob.verif_faulty", func(_, inst string, _, args []string) (module.Module, error) {
		newFS := module.Get("storage.blob.fs")
		m, err := newFS("storage.blob.fs", inst, nil, args)
		if err != nil {
			return nil, err
		}
		return &faultyBlobs{BlobStore: m.(module.BlobStore), mod: m}, nil
	})
	module.Register("table.verif_flaky", func(_, inst string, _, args []string) (module.Module, error) {
		return &flakyTable{m: deliveryMap}, nil
	})
}

// ---- building the storage ---------------------------------------------------------

func node(name string, args []string, ch ...config.Node) config.Node {
	return config.Node{Name: name, Args: args, Children: ch}
}

type env struct {
	st      *imapsql.Storage
	dir     string
	blobDir string
	cmdDir  string // command filter: plan + call log live here
	fkind   string
}

const filterScript = `#!/bin/sh
# $1 filter number, $2 account name, $3 envelope recipient; the answer is prepared by the harness
d="$(dirname "$0")"
hn=$(printf %s "$2" | od -An -v -tx1 | tr -d ' \n')
hr=$(printf %s "$3" | od -An -v -tx1 | tr -d ' \n')
cat > /dev/null
echo "$1 $hn $hr" >> "$d/calls"
if [ -f "$d/plan/$1_$hn.out" ]; then
  cat "$d/plan/$1_$hn.out"
  exit "$(cat "$d/plan/$1_$hn.rc")"
fi
printf 'Work\n$A\n'
exit 0
`

func (e *env) hasFlaky(c Cfg) bool {
	for _, m := range c.Msgs {
		for _, a := range m.List {
			if a == "f" {
				return true
			}
		}
	}
	return false
}

func newEnv(t testing.TB, b Behaviour, root string) *env {
	e := &env{dir: root, blobDir: filepath.Join(root, "blobs"), cmdDir: filepath.Join(root, "cmd"), fkind: b.FKind}
	c := b.Cfg
	m, err := imapsql.New("storage.imapsql", "local_mailboxes", nil, []string{"sqlite3", filepath.Join(root, "imapsql.db")})
	if err != nil {
		t.Fatalf("imapsql.New: %v", err)
	}
	e.st = m.(*imapsql.Storage)
	e.st.Log = log.Logger{Name: "imapsql", Out: log.NopOutput{}}
	nodes := []config.Node{
		node("msg_store", []string{"verif_faulty", e.blobDir}),
		node("delivery_normalize", []string{c.Norm}),
	}
	if c.Norm == "precis_casefold_email" && b.ID%2 == 0 {
		nodes = nodes[:1] // the documented default
	}
	if b.Limit {
		nodes = append(nodes, node("appendlimit", []string{"100b"}))
	}
	if b.Comp != "" {
		nodes = append(nodes, node("compression", []string{b.Comp}))
	}
	if c.JunkName != "Junk" {
		nodes = append(nodes, node("junk_mailbox", []string{c.JunkName}))
	}
	if c.DMap {
		if e.hasFlaky(c) {
			nodes = append(nodes, node("delivery_map", []string{"verif_flaky"}))
		} else {
			var ents []config.Node
			keys := make([]string, 0, len(deliveryMap))
			for k := range deliveryMap {
				keys = append(keys, k)
			}
			sort.Strings(keys)
			for _, k := range keys {
				ents = append(ents, node("entry", []string{k, deliveryMap[k]}))
			}
			nodes = append(nodes, node("delivery_map", []string{"static"}, ents...))
		}
	}
	if c.NF > 0 {
		var fl []config.Node
		if e.fkind == "command" {
			if err := os.MkdirAll(filepath.Join(e.cmdDir, "plan"), 0o755); err != nil {
				t.Fatal(err)
			}
			script := filepath.Join(e.cmdDir, "filter.sh")
			if err := os.WriteFile(script, []byte(filterScript), 0o755); err != nil {
				t.Fatal(err)
			}
			for i := 1; i <= c.NF; i++ {
				fl = append(fl, node("command", []string{script, fmt.Sprint(i), "{account_name}", "{rcpt_to}"}))
			}
		} else {
			for i := 1; i <= c.NF; i++ {
				fl = append(fl, node("verif_scripted", []string{fmt.Sprint(i)}))
			}
		}
		nodes = append(nodes, node("imap_filter", nil, fl...))
	}
	if err := e.st.Init(config.NewMap(nil, node("storage.imapsql", nil, nodes...))); err != nil {
		t.Fatalf("imapsql Init: %v", err)
	}
	// Reads must not need a new database connection while a delivery transaction is open
	// (opening one re-runs the journal_mode pragma, which waits for the writer).
	e.st.Back.DB.SetMaxIdleConns(8)
	ctx := context.Background()
	var conns []interface{ Close() error }
	for i := 0; i < 5; i++ {
		cn, err := e.st.Back.DB.Conn(ctx)
		if err != nil {
			t.Fatalf("db conn: %v", err)
		}
		if err := cn.PingContext(ctx); err != nil {
			t.Fatalf("db ping: %v", err)
		}
		conns = append(conns, cn)
	}
	for _, cn := range conns {
		cn.Close()
	}
	for _, id := range []string{"a", "b"} {
		if err := e.st.CreateIMAPAcct(acctName[id]); err != nil {
			t.Fatalf("create account: %v", err)
		}
		u, err := e.st.GetIMAPAcct(acctName[id])
		if err != nil {
			t.Fatalf("get account: %v", err)
		}
		for _, f := range []string{"Work", "Archive"} {
			if err := u.CreateMailbox(f); err != nil {
				t.Fatalf("create mailbox: %v", err)
			}
		}
		if c.JBox == "special" && id == "a" {
			sp, ok := u.(interface {
				CreateMailboxSpecial(name, attr string) error
			})
			if !ok {
				t.Fatalf("backend user cannot create special-use mailboxes")
			}
			if err := sp.CreateMailboxSpecial("Spam", imap.JunkAttr); err != nil {
				t.Fatalf("create special mailbox: %v", err)
			}
		}
		if c.JBox == "plain" {
			if err := u.CreateMailbox(c.JunkName); err != nil {
				t.Fatalf("create mailbox: %v", err)
			}
		}
		u.Logout()
	}
	return e
}

// ---- the watching IMAP session ------------------------------------------------------------

// watcher is an IMAP session that has INBOX of account a selected: told is the number of
// messages the backend has announced to it (the EXISTS responses a client would get).
type watcher struct {
	mu   sync.Mutex
	told int
	user interface{ Logout() error }
	mbox interface {
		Poll(expunge bool) error
		Close() error
	}
}

func (w *watcher) SendUpdate(upd backend.Update) error {
	if mu, ok := upd.(*backend.MailboxUpdate); ok && mu.MailboxStatus != nil {
		if _, has := mu.Items[imap.StatusMessages]; has {
			w.mu.Lock()
			w.told = int(mu.Messages)
			w.mu.Unlock()
		}
	}
	return nil
}

func (e *env) watch(t testing.TB) *watcher {
	w := &watcher{}
	u, err := e.st.GetIMAPAcct(acctName["a"])
	if err != nil {
		t.Fatalf("watcher: %v", err)
	}
	status, mb, err := u.GetMailbox("INBOX", true, w)
	if err != nil {
		t.Fatalf("watcher: select INBOX: %v", err)
	}
	w.told = int(status.Messages)
	w.user, w.mbox = u, mb
	return w
}

// poll is what the session does between two commands (NOOP / IDLE wake-up)
func (w *watcher) poll() int {
	if w == nil {
		return 0
	}
	w.mbox.Poll(true)
	w.mu.Lock()
	defer w.mu.Unlock()
	return w.told
}

// ---- reading the mailboxes back ---------------------------------------------------------

func header(msg string) textproto.Header {
	// parsed from raw bytes (as the SMTP endpoint does), so folding and spacing are kept as received
	raw := "Received: from client.example.net (client.example.net [192.0.2.1])\r\n" +
		"\tby mx.example.org (envelope-sender <" + mailFrom + ">) with ESMTPS id " + msg + ";\r\n" +
		"\tThu, 01 Jan 1970 00:00:00 +0000\r\n" +
		"Received: from inner.example.net by client.example.net; Thu, 01 Jan 1970 00:00:00 +0000\r\n" +
		"From: \"Sender, The\" <" + mailFrom + ">\r\n" +
		"To:   Undisclosed recipients:;\r\n" +
		"Subject: =?utf-8?q?Gr=C3=BC=C3=9Fe?=\r\n " + msg + "\r\n" +
		"X-Verif-Msg: " + msg + "\r\n" +
		"X-Raw-Utf8: caf\xc3\xa9\r\n" +
		"\r\n"
	h, err := textproto.ReadHeader(bufio.NewReader(strings.NewReader(raw)))
	if err != nil {
		panic(err)
	}
	return h
}

func bodyOf(msg string) []byte {
	var b bytes.Buffer
	b.WriteString("This is " + msg + ".\r\n.\r\n..leading dots\r\nFrom the start of a line\r\n")
	b.WriteString("caf\xc3\xa9 \xff\xfe raw bytes\r\n")
	b.WriteString(strings.Repeat("x", 1200) + "\r\n")
	b.WriteString("last line without terminator")
	return b.Bytes()
}

func headerBytes(h textproto.Header) []byte {
	var b bytes.Buffer
	if err := textproto.WriteHeader(&b, h); err != nil {
		panic(err)
	}
	return b.Bytes()
}

type rec struct {
	Acct  string   `json:"acct"`
	Mbox  string   `json:"mbox"`
	Msg   string   `json:"msg"`
	Dt    string   `json:"dt"`
	Hdr   bool     `json:"hdr"`
	Body  bool     `json:"body"`
	Rp    bool     `json:"rp"`
	Flags []string `json:"flags"`
	N     int      `json:"n"`
}

func classify(raw []byte) rec {
	r := rec{Msg: "?", Dt: "none", Flags: []string{}}
	br := bufio.NewReader(bytes.NewReader(raw))
	h, err := textproto.ReadHeader(br)
	if err != nil {
		return r
	}
	rest, _ := io.ReadAll(br)
	if v := h.Get("X-Verif-Msg"); v != "" {
		r.Msg = v
	}
	dts := h.Values("Delivered-To")
	if len(dts) == 1 {
		r.Dt = acctID(dts[0])
	} else if len(dts) > 1 {
		r.Dt = "many"
	}
	rps := h.Values("Return-Path")
	r.Rp = len(rps) == 1 && rps[0] == "<"+mailFrom+">"
	h.Del("Delivered-To")
	h.Del("Return-Path")
	r.Hdr = bytes.Equal(headerBytes(h), headerBytes(header(r.Msg)))
	r.Body = bytes.Equal(rest, bodyOf(r.Msg))
	return r
}

// snapshot reads every mailbox of every account through the backend API.
func (e *env) snapshot() ([]rec, error) {
	accts, err := e.st.ListIMAPAccts()
	if err != nil {
		return nil, fmt.Errorf("list accounts: %w", err)
	}
	sort.Strings(accts)
	count := map[string]*rec{}
	var order []string
	for _, a := range accts {
		u, err := e.st.GetIMAPAcct(a)
		if err != nil {
			return nil, fmt.Errorf("get account %s: %w", a, err)
		}
		mboxes, err := u.ListMailboxes(false)
		if err != nil {
			return nil, fmt.Errorf("list mailboxes %s: %w", a, err)
		}
		for _, mi := range mboxes {
			_, mb, err := u.GetMailbox(mi.Name, true, nil)
			if err != nil {
				return nil, fmt.Errorf("get mailbox %s/%s: %w", a, mi.Name, err)
			}
			ch := make(chan *imap.Message, 64)
			ss := new(imap.SeqSet)
			ss.AddRange(1, 0)
			sec, _ := imap.ParseBodySectionName("BODY.PEEK[]")
			var lerr error
			done := make(chan struct{})
			go func() {
				lerr = mb.ListMessages(true, ss, []imap.FetchItem{imap.FetchFlags, imap.FetchUid, sec.FetchItem()}, ch)
				close(done)
			}()
			for m := range ch {
				var raw []byte
				for _, l := range m.Body {
					raw, _ = io.ReadAll(l)
				}
				r := classify(raw)
				r.Acct = acctID(a)
				r.Mbox = mi.Name
				for _, f := range m.Flags {
					if !strings.HasPrefix(f, "\\") {
						r.Flags = append(r.Flags, f)
					}
				}
				sort.Strings(r.Flags)
				r.N = 1
				k, _ := json.Marshal(r)
				if c, ok := count[string(k)]; ok {
					c.N++
				} else {
					rc := r
					count[string(k)] = &rc
					order = append(order, string(k))
				}
			}
			<-done
			mb.Close()
			if lerr != nil {
				return nil, fmt.Errorf("list messages %s/%s: %w", a, mi.Name, lerr)
			}
		}
		u.Logout()
	}
	out := []rec{}
	for _, k := range order {
		out = append(out, *count[k])
	}
	return out, nil
}

// orphans counts the blobs in the message store no stored message refers to.
func (e *env) orphans() (int, error) {
	rows, err := e.st.Back.DB.Query(`SELECT extBodyKey FROM msgs`)
	if err != nil {
		return 0, err
	}
	defer rows.Close()
	ref := map[string]bool{}
	for rows.Next() {
		var k *string
		if err := rows.Scan(&k); err != nil {
			return 0, err
		}
		if k != nil {
			ref[*k] = true
		}
	}
	ents, err := os.ReadDir(e.blobDir)
	if err != nil {
		return 0, err
	}
	n := 0
	for _, en := range ents {
		if !ref[en.Name()] {
			n++
		}
	}
	return n, nil
}

func resClass(err error) string {
	if err == nil {
		return "ok"
	}
	if code, ok := exterrors.Fields(err)["smtp_code"].(int); ok {
		if code/100 == 5 {
			return "perm"
		}
		if code/100 == 4 {
			return "temp"
		}
	}
	if exterrors.IsTemporary(err) {
		return "temp"
	}
	return "unspec"
}

// ---- command filter plumbing ---------------------------------------------------------

func hexOf(s string) string { return hex.EncodeToString([]byte(s)) }

// spellings of an account name a filter may be called with
func spellings(acct string) []string {
	var out []string
	for id, t := range addrText {
		base := id[:1]
		if base == acct {
			out = append(out, t)
		}
	}
	out = append(out, acctName[acct])
	if acct == "a" {
		out = append(out, "ALICE@example.org")
	}
	if acct == "b" {
		out = append(out, "Bob@пример.example")
	}
	return out
}

func (e *env) armCommandPlan(outs []map[string]string) error {
	plan := filepath.Join(e.cmdDir, "plan")
	os.RemoveAll(plan)
	if err := os.MkdirAll(plan, 0o755); err != nil {
		return err
	}
	os.Remove(filepath.Join(e.cmdDir, "calls"))
	for i, per := range outs {
		for acct, id := range per {
			o := outRecs[id]
			var sb strings.Builder
			rc := "0"
			if o.err {
				rc = "3"
			} else if o.folder != "" || len(o.flags) > 0 {
				sb.WriteString(o.folder + "\n")
				for _, f := range o.flags {
					sb.WriteString(f + "\n")
				}
			}
			for _, sp := range spellings(acct) {
				base := filepath.Join(plan, fmt.Sprintf("%d_%s", i+1, hexOf(sp)))
				if err := os.WriteFile(base+".out", []byte(sb.String()), 0o644); err != nil {
					return err
				}
				if err := os.WriteFile(base+".rc", []byte(rc), 0o644); err != nil {
					return err
				}
			}
		}
	}
	return nil
}

func (e *env) commandCalls() ([]vtrace.Ev, error) {
	raw, err := os.ReadFile(filepath.Join(e.cmdDir, "calls"))
	if os.IsNotExist(err) {
		return nil, nil
	}
	if err != nil {
		return nil, err
	}
	var out []vtrace.Ev
	for _, line := range strings.Split(strings.TrimSpace(string(raw)), "\n") {
		p := strings.Split(line, " ")
		if len(p) != 3 {
			return nil, fmt.Errorf("bad call line %q", line)
		}
		n, _ := hex.DecodeString(p[1])
		r, _ := hex.DecodeString(p[2])
		idx := 1
		if p[0] == "2" {
			idx = 2
		}
		out = append(out, vtrace.Ev{"f": idx, "acct": acctID(string(n)), "ad": addrID(string(r))})
	}
	return out, nil
}

// ---- replay -----------------------------------------------------------------------------

func runBehaviour(t *testing.T, b Behaviour, w io.Writer) {
	root, err := os.MkdirTemp(os.Getenv("VERIF_TMP"), "ls")
	if err != nil {
		t.Fatal(err)
	}
	defer os.RemoveAll(root)
	tr := vtrace.New(w, b.ID)
	e := newEnv(t, b, root)
	defer e.st.Close()
	ctx := context.Background()

	msgs := make([]interface{}, 0, len(b.Cfg.Msgs))
	for _, m := range b.Cfg.Msgs {
		msgs = append(msgs, map[string]interface{}{"list": m.List, "quar": m.Quar})
	}
	tr.Emit("Cfg", vtrace.Ev{"norm": b.Cfg.Norm, "dmap": b.Cfg.DMap, "nf": b.Cfg.NF, "jbox": b.Cfg.JBox,
		"junkName": b.Cfg.JunkName, "watch": b.Cfg.Watch, "msgs": msgs, "fkind": e.fkind, "limit": b.Limit, "comp": b.Comp})
	var wt *watcher
	if b.Cfg.Watch {
		wt = e.watch(t)
		defer func() {
			wt.mbox.Close()
			wt.user.Logout()
		}()
	}

	snap := func() []rec {
		s, err := e.snapshot()
		if err != nil {
			t.Fatalf("behaviour %d: cannot read the mailboxes back: %v", b.ID, err)
		}
		return s
	}

	emit := func(name string, ev vtrace.Ev) {
		ev["told"] = wt.poll()
		tr.Emit(name, ev)
	}
	var d module.Delivery
	var curMsg string
	for _, s := range b.Hist {
		switch s.A {
		case "Start":
			curMsg = fmt.Sprintf("m%d", s.Msg)
			world.mu.Lock()
			world.outs, world.quar, world.calls, world.blobN, world.blobFail = nil, s.Quar, nil, 0, 0
			world.mu.Unlock()
			meta := &module.MsgMetadata{ID: curMsg, Quarantine: s.Quar, OriginalFrom: mailFrom}
			var err error
			d, err = e.st.Start(ctx, meta, mailFrom)
			if err != nil {
				t.Fatalf("behaviour %d: Start failed: %v", b.ID, err)
			}
			emit("Start", vtrace.Ev{"msg": s.Msg, "quar": s.Quar, "snap": snap()})
		case "AddRcpt":
			err := d.AddRcpt(ctx, addrText[s.Ad], smtp.RcptOptions{})
			ev := vtrace.Ev{"ad": s.Ad, "res": resClass(err), "snap": snap()}
			if err != nil {
				ev["err"] = err.Error()
				if code, ok := exterrors.Fields(err)["smtp_code"].(int); ok {
					ev["code"] = code
				}
			}
			emit("AddRcpt", ev)
		case "Delete":
			if err := e.st.DeleteIMAPAcct(acctName[s.Acct]); err != nil {
				t.Fatalf("behaviour %d: cannot delete account: %v", b.ID, err)
			}
			emit("Delete", vtrace.Ev{"acct": s.Acct, "snap": snap()})
		case "Login":
			// the owner of the mailbox logs in over IMAP with another spelling of the name
			u, err := e.st.GetOrCreateIMAPAcct("Nobody@Example.ORG")
			if err == nil {
				u.Logout()
			}
			emit("Login", vtrace.Ev{"acct": s.Acct, "res": resClass(err), "snap": snap()})
		case "Body":
			world.mu.Lock()
			world.outs, world.calls, world.blobN, world.blobFail, world.fired = s.Outs, nil, 0, s.Fault, false
			world.mu.Unlock()
			if e.fkind == "command" && b.Cfg.NF > 0 {
				if err := e.armCommandPlan(s.Outs); err != nil {
					t.Fatal(err)
				}
			}
			err := d.Body(ctx, header(curMsg), buffer.MemoryBuffer{Slice: bodyOf(curMsg)})
			world.mu.Lock()
			calls := world.calls
			world.blobFail = 0
			fault := 0
			if world.fired {
				fault = s.Fault // the position whose write was really made to fail (0: never reached)
			}
			world.mu.Unlock()
			if e.fkind == "command" && b.Cfg.NF > 0 {
				var cerr error
				calls, cerr = e.commandCalls()
				if cerr != nil {
					t.Fatal(cerr)
				}
			}
			if calls == nil {
				calls = []vtrace.Ev{}
			}
			outs := make([]interface{}, 0, len(s.Outs))
			for _, o := range s.Outs {
				outs = append(outs, o)
			}
			res := "ok"
			ev := vtrace.Ev{"outs": outs, "fault": fault, "asked": s.Fault, "calls": calls}
			if err != nil {
				res = "fail"
				ev["err"] = err.Error()
			}
			ev["res"] = res
			ev["snap"] = snap()
			emit("Body", ev)
		case "Commit":
			err := d.Commit(ctx)
			ev := vtrace.Ev{"res": "ok", "snap": snap()}
			if err != nil {
				ev["res"] = "fail"
				ev["err"] = err.Error()
			}
			emit("Commit", ev)
			d = nil
		case "Abort":
			err := d.Abort(ctx)
			ev := vtrace.Ev{"res": "ok", "snap": snap()}
			if err != nil {
				ev["res"] = "fail"
				ev["err"] = err.Error()
			}
			emit("Abort", ev)
			d = nil
		case "End":
			n, err := e.orphans()
			if err != nil {
				t.Fatalf("behaviour %d: cannot inspect the message store: %v", b.ID, err)
			}
			tr.Emit("End", vtrace.Ev{"orphans": n})
		default:
			t.Fatalf("behaviour %d: unknown step %q", b.ID, s.A)
		}
	}
}

func TestReplay(t *testing.T) {
	in, out := os.Getenv("VERIF_IN"), os.Getenv("VERIF_OUT")
	if in == "" || out == "" {
		t.Skip("VERIF_IN / VERIF_OUT not set")
	}
	f, err := os.Open(in)
	if err != nil {
		t.Fatal(err)
	}
	defer f.Close()
	of, err := os.Create(out)
	if err != nil {
		t.Fatal(err)
	}
	defer of.Close()
	w := bufio.NewWriter(of)
	defer w.Flush()
	sc := bufio.NewScanner(f)
	sc.Buffer(make([]byte, 1<<20), 1<<26)
	n := 0
	for sc.Scan() {
		var b Behaviour
		if err := json.Unmarshal(sc.Bytes(), &b); err != nil {
			t.Fatalf("bad behaviour line: %v", err)
		}
		runBehaviour(t, b, w)
		n++
	}
	t.Logf("replayed %d behaviours", n)
}
