package proxyprotocheck

// Extension X17: every row of spec/ProxyProto.tla is one connection to a
// listener set up by maddy's real code.
//
//	layer "raw":  the configuration text is parsed by maddy's parser and handed
//	              to proxy_protocol.ProxyProtocolDirective; NewListener wraps an
//	              in-memory listener whose peers report arbitrary TCP / UNIX
//	              addresses; the accepted connection is used like go-smtp and
//	              go-imap use it (RemoteAddr, Read until EOF).
//	layers "smtp" / "smtps" / "imap": see sock_test.go (real endpoint on loopback).
//
// Input:  {"id":N,"in":{"layer","mode","trust":[..],"form","tls","peer","hdr","split"}}
// Output: {"t":N,"seq":1,"e":"Row","in":..,"out":{"cfgerr","served","addr","stream","panic","next"}}

import (
	"bufio"
	"bytes"
	"crypto/ecdsa"
	"crypto/elliptic"
	"crypto/rand"
	"crypto/tls"
	"crypto/x509"
	"crypto/x509/pkix"
	"encoding/binary"
	"encoding/json"
	"encoding/pem"
	"errors"
	"fmt"
	"io"
	"math/big"
	"net"
	"os"
	"path/filepath"
	"strings"
	"sync"
	"testing"
	"time"

	parser "github.com/foxcpp/maddy/framework/cfgparser"
	"github.com/foxcpp/maddy/framework/config"
	"github.com/foxcpp/maddy/framework/log"
	"github.com/foxcpp/maddy/internal/proxy_protocol"
	_ "github.com/foxcpp/maddy/internal/tls"
	"github.com/foxcpp/maddy/verifharness/vtrace"
)

type RowIn struct {
	Layer string   `json:"layer"`
	Mode  string   `json:"mode"`
	Trust []string `json:"trust"`
	Form  string   `json:"form"`
	TLS   bool     `json:"tls"`
	Peer  string   `json:"peer"`
	Hdr   string   `json:"hdr"`
	Split string   `json:"split"`
}

type RowItem struct {
	ID int   `json:"id"`
	In RowIn `json:"in"`
}

type RowOut struct {
	Cfgerr  bool   `json:"cfgerr"`
	Served  bool   `json:"served"`
	Addr    string `json:"addr"`
	Stream  string `json:"stream"`
	Panic   bool   `json:"panic"`
	Next    bool   `json:"next"`
	Timeout bool   `json:"timeout,omitempty"`
	Msg     string `json:"msg,omitempty"`
}

// ---- the vocabulary of the spec ------------------------------------------------------------------

var entryText = map[string]string{
	"e4s": "192.0.2.10", "e4n": "192.0.2.0/24", "e6s": "2001:db8:1::10", "e6n": "2001:db8:1::/48",
	"elo": "127.0.0.1", "eln": "127.0.0.0/31",
}

var peerAddr = map[string]net.Addr{
	"p4a":  &net.TCPAddr{IP: net.ParseIP("192.0.2.10"), Port: 40001},
	"p4b":  &net.TCPAddr{IP: net.ParseIP("192.0.2.77"), Port: 40002},
	"p4c":  &net.TCPAddr{IP: net.ParseIP("198.51.100.5"), Port: 40003},
	"p6a":  &net.TCPAddr{IP: net.ParseIP("2001:db8:1::10"), Port: 40004},
	"p6b":  &net.TCPAddr{IP: net.ParseIP("2001:db8:1::77"), Port: 40005},
	"p6c":  &net.TCPAddr{IP: net.ParseIP("2001:db8:2::5"), Port: 40006},
	"p6d":  &net.TCPAddr{IP: net.ParseIP("2001:dead::1"), Port: 40007},
	"unix": &net.UnixAddr{Name: "", Net: "unix"},
}

var (
	ann4    = net.ParseIP("203.0.113.9").To4()
	dst4    = net.ParseIP("198.51.100.1").To4()
	ann6    = net.ParseIP("2001:db8:ffff::9")
	dst6    = net.ParseIP("2001:db8:ffff::1")
	annPort = 4321
	v2sig   = []byte{0x0D, 0x0A, 0x0D, 0x0A, 0x00, 0x0D, 0x0A, 0x51, 0x55, 0x49, 0x54, 0x0A}
)

const payloadText = "EHLO client.verif.test\r\nMAIL FROM:<a@verif.test>\r\nQUIT\r\n"

func v2(verCmd, fam byte, body []byte) []byte {
	b := append([]byte{}, v2sig...)
	b = append(b, verCmd, fam)
	b = binary.BigEndian.AppendUint16(b, uint16(len(body)))
	return append(b, body...)
}

func v2addr(src, dst net.IP) []byte {
	b := append([]byte{}, src...)
	b = append(b, dst...)
	b = binary.BigEndian.AppendUint16(b, uint16(annPort))
	return binary.BigEndian.AppendUint16(b, 25)
}

// headerBytes returns the bytes the peer sends before the payload and the
// position of the cuts "sig", "mid", "addr".
func headerBytes(kind string) []byte {
	switch kind {
	case "none":
		return nil
	case "garbage":
		return []byte("\r\n\r\n\x00\r\nQUIX\n\x21\x11\x00\x0c")
	case "v1tcp4":
		return []byte("PROXY TCP4 203.0.113.9 198.51.100.1 4321 25\r\n")
	case "v1tcp6":
		return []byte("PROXY TCP6 2001:db8:ffff::9 2001:db8:ffff::1 4321 25\r\n")
	case "v1unk":
		return []byte("PROXY UNKNOWN\r\n")
	case "v1unkx":
		return []byte("PROXY UNKNOWN 2001:db8:ffff::9 2001:db8:ffff::1 4321 25\r\n")
	case "v2tcp4":
		return v2(0x21, 0x11, v2addr(ann4, dst4))
	case "v2tcp6":
		return v2(0x21, 0x21, v2addr(ann6, dst6))
	case "v2tlv4":
		return v2(0x21, 0x11, append(v2addr(ann4, dst4), 0x04, 0x00, 0x04, 0, 0, 0, 0))
	case "v2local":
		return v2(0x20, 0x00, nil)
	case "v2unspec":
		return v2(0x21, 0x00, nil)
	case "trunc1":
		return []byte("PROXY TCP4 203.0.")
	case "trunc2":
		return v2(0x21, 0x11, v2addr(ann4, dst4))[:14]
	case "v1short":
		return []byte("PROXY\r\n")
	case "v1space":
		return []byte("PROXY \r\n")
	case "v1badproto":
		return []byte("PROXY TCP5 203.0.113.9 198.51.100.1 4321 25\r\n")
	case "v1badip":
		return []byte("PROXY TCP4 203.0.113.999 198.51.100.1 4321 25\r\n")
	case "v1badport":
		return []byte("PROXY TCP4 203.0.113.9 198.51.100.1 99999 25\r\n")
	case "v1fewaddr":
		return []byte("PROXY TCP4 203.0.113.9\r\n")
	case "v1lf":
		return []byte("PROXY TCP4 203.0.113.9 198.51.100.1 4321 25\n")
	case "v2badver":
		return v2(0x11, 0x11, v2addr(ann4, dst4))
	case "v2badcmd":
		return v2(0x22, 0x11, v2addr(ann4, dst4))
	case "v2shortaddr":
		return v2(0x21, 0x11, []byte{203, 0, 113, 9})
	}
	panic("unknown header kind " + kind)
}

func isTrunc(kind string) bool { return kind == "trunc1" || kind == "trunc2" }

func cutAt(kind, split string) int {
	switch split {
	case "sig":
		return 3
	case "mid":
		if strings.HasPrefix(kind, "v2") {
			return 14
		}
		return 12
	case "addr":
		return 18
	}
	return 0
}

// ---- material --------------------------------------------------------------------------------------

var (
	matOnce          sync.Once
	certPath, keyPath string
	matErr           error
)

func material() (string, string, error) {
	matOnce.Do(func() {
		dir := os.Getenv("VERIF_TMP")
		if dir == "" {
			dir = os.TempDir()
		}
		k, err := ecdsa.GenerateKey(elliptic.P256(), rand.Reader)
		if err != nil {
			matErr = err
			return
		}
		tmpl := &x509.Certificate{
			SerialNumber: big.NewInt(17), Subject: pkix.Name{Organization: []string{"X17"}},
			NotBefore: time.Now().Add(-time.Hour), NotAfter: time.Now().Add(48 * time.Hour),
			KeyUsage: x509.KeyUsageDigitalSignature, ExtKeyUsage: []x509.ExtKeyUsage{x509.ExtKeyUsageServerAuth},
			DNSNames: []string{"mx.verif.test"},
		}
		der, err := x509.CreateCertificate(rand.Reader, tmpl, tmpl, &k.PublicKey, k)
		if err != nil {
			matErr = err
			return
		}
		kb, err := x509.MarshalECPrivateKey(k)
		if err != nil {
			matErr = err
			return
		}
		certPath = filepath.Join(dir, fmt.Sprintf("x17-%d-cert.pem", os.Getpid()))
		keyPath = filepath.Join(dir, fmt.Sprintf("x17-%d-key.pem", os.Getpid()))
		if matErr = os.WriteFile(certPath, pem.EncodeToMemory(&pem.Block{Type: "CERTIFICATE", Bytes: der}), 0o644); matErr != nil {
			return
		}
		matErr = os.WriteFile(keyPath, pem.EncodeToMemory(&pem.Block{Type: "EC PRIVATE KEY", Bytes: kb}), 0o600)
	})
	return certPath, keyPath, matErr
}

func cleanupMaterial() {
	if certPath != "" {
		os.Remove(certPath)
		os.Remove(keyPath)
	}
}

// directiveText renders the proxy_protocol directive of a row ("" = no directive).
func directiveText(in RowIn, indent string) (string, error) {
	if in.Mode == "none" {
		return "", nil
	}
	var ents []string
	for _, e := range in.Trust {
		t, ok := entryText[e]
		if !ok {
			return "", fmt.Errorf("unknown trust entry %q", e)
		}
		ents = append(ents, t)
	}
	var body []string
	head := "proxy_protocol"
	if in.Form == "args" {
		if len(ents) > 0 {
			head += " " + strings.Join(ents, " ")
		}
	} else if len(ents) > 0 {
		body = append(body, "trust "+strings.Join(ents, " "))
	}
	if in.TLS {
		c, k, err := material()
		if err != nil {
			return "", err
		}
		body = append(body, "tls file "+c+" "+k)
	}
	if len(body) == 0 && in.Form == "args" {
		return indent + head + "\n", nil
	}
	s := indent + head + " {\n"
	for _, l := range body {
		s += indent + "    " + l + "\n"
	}
	return s + indent + "}\n", nil
}

// ---- in-memory network -----------------------------------------------------------------------------

type addrConn struct {
	net.Conn
	remote, local net.Addr
}

func (c *addrConn) RemoteAddr() net.Addr { return c.remote }
func (c *addrConn) LocalAddr() net.Addr  { return c.local }

type memListener struct {
	ch     chan net.Conn
	closed chan struct{}
	once   sync.Once
}

func newMemListener() *memListener {
	return &memListener{ch: make(chan net.Conn), closed: make(chan struct{})}
}

func (l *memListener) Accept() (net.Conn, error) {
	select {
	case c := <-l.ch:
		return c, nil
	case <-l.closed:
		return nil, net.ErrClosed
	}
}
func (l *memListener) Close() error   { l.once.Do(func() { close(l.closed) }); return nil }
func (l *memListener) Addr() net.Addr { return &net.TCPAddr{IP: net.IPv4(192, 0, 2, 1), Port: 25} }

// dial hands the listener the server end of a pipe whose peer reports `remote`.
func (l *memListener) dial(remote net.Addr) (net.Conn, error) {
	cl, srv := net.Pipe()
	select {
	case l.ch <- &addrConn{Conn: srv, remote: remote, local: l.Addr()}:
		return cl, nil
	case <-l.closed:
		return nil, net.ErrClosed
	case <-time.After(10 * time.Second):
		return nil, errors.New("listener does not accept")
	}
}

// prefixConn puts `prefix` in front of the first write (header and first
// TLS record / payload in one segment).
type prefixConn struct {
	net.Conn
	prefix []byte
}

func (c *prefixConn) Write(b []byte) (int, error) {
	if c.prefix != nil {
		p := append(c.prefix, b...)
		n := len(c.prefix)
		c.prefix = nil
		w, err := c.Conn.Write(p)
		if w < n {
			return 0, err
		}
		return w - n, err
	}
	return c.Conn.Write(b)
}

type connResult struct {
	addr     net.Addr
	data     []byte
	err      error
	panicked bool
	pmsg     string
}

// serveRaw accepts connections and uses each like go-smtp / go-imap do: one
// goroutine per connection, RemoteAddr, Read until EOF. A panic is caught here
// only to be recorded; the servers have no recover around their first read.
func serveRaw(ln net.Listener, results chan<- connResult) {
	for {
		c, err := ln.Accept()
		if err != nil {
			return
		}
		go func() {
			var res connResult
			defer func() {
				if p := recover(); p != nil {
					res.panicked = true
					res.pmsg = fmt.Sprint(p)
				}
				c.Close()
				results <- res
			}()
			c.SetDeadline(time.Now().Add(20 * time.Second))
			res.addr = c.RemoteAddr()
			res.data, res.err = io.ReadAll(c)
			if res.addr == nil || res.err != nil {
				return
			}
			res.addr = c.RemoteAddr()
		}()
	}
}

// clientSend plays the peer: header bytes cut as the row says, then the payload
// (inside TLS when the block has a tls directive), then close.
func clientSend(cl net.Conn, hdr []byte, kind, split string, payload []byte, useTLS bool) {
	defer cl.Close()
	cl.SetDeadline(time.Now().Add(20 * time.Second))
	var conn net.Conn = cl
	switch {
	case len(hdr) == 0:
	case split == "whole":
		conn = &prefixConn{Conn: cl, prefix: hdr}
	case split == "sep":
		if _, err := cl.Write(hdr); err != nil {
			return
		}
	default:
		k := cutAt(kind, split)
		if k <= 0 || k >= len(hdr) {
			k = len(hdr) / 2
		}
		if _, err := cl.Write(hdr[:k]); err != nil {
			return
		}
		if _, err := cl.Write(hdr[k:]); err != nil {
			return
		}
	}
	if isTrunc(kind) {
		return
	}
	if useTLS {
		tc := tls.Client(conn, &tls.Config{InsecureSkipVerify: true, MaxVersion: tls.VersionTLS12})
		if err := tc.Handshake(); err != nil {
			return
		}
		if _, err := tc.Write(payload); err != nil {
			return
		}
		tc.Close()
		return
	}
	if len(payload) > 0 || conn != cl {
		conn.Write(payload)
	}
}

func classifyAddr(got, real net.Addr) string {
	if got == nil {
		return "other"
	}
	if got.Network() == real.Network() && got.String() == real.String() {
		return "real"
	}
	if ta, ok := got.(*net.TCPAddr); ok && ta.Port == annPort && (ta.IP.Equal(ann4) || ta.IP.Equal(ann6)) {
		return "ann"
	}
	return "other"
}

func classifyStream(data, hdr, payload []byte) string {
	if bytes.Equal(data, payload) {
		return "payload"
	}
	if bytes.Equal(data, append(append([]byte{}, hdr...), payload...)) {
		return "all"
	}
	return "other"
}

func parseDirective(text string) (*proxy_protocol.ProxyProtocol, error) {
	nodes, err := parser.Read(strings.NewReader(text), "x17.conf")
	if err != nil {
		return nil, err
	}
	if len(nodes) != 1 {
		return nil, fmt.Errorf("%d nodes", len(nodes))
	}
	v, err := proxy_protocol.ProxyProtocolDirective(config.NewMap(nil, config.Node{}), nodes[0])
	if err != nil {
		return nil, err
	}
	p, ok := v.(*proxy_protocol.ProxyProtocol)
	if !ok || p == nil {
		return nil, fmt.Errorf("directive returned %T", v)
	}
	return p, nil
}

func runRawRow(in RowIn) RowOut {
	out := RowOut{Addr: "real", Stream: "na"}
	text, err := directiveText(in, "")
	if err != nil {
		out.Timeout, out.Msg = true, "material: "+err.Error()
		return out
	}
	mem := newMemListener()
	var ln net.Listener = mem
	if in.Mode != "none" {
		p, err := parseDirective(text)
		if err != nil {
			out.Cfgerr, out.Msg = true, err.Error()
			return out
		}
		ln = proxy_protocol.NewListener(mem, p, log.Logger{Out: log.NopOutput{}})
	}
	defer ln.Close()
	results := make(chan connResult, 4)
	go serveRaw(ln, results)

	real, ok := peerAddr[in.Peer]
	if !ok {
		out.Timeout, out.Msg = true, "unknown peer "+in.Peer
		return out
	}
	one := func(kind, split string) (connResult, []byte, []byte, bool) {
		hdr := headerBytes(kind)
		payload := []byte(payloadText)
		if isTrunc(kind) {
			payload = nil
		}
		cl, err := mem.dial(real)
		if err != nil {
			return connResult{err: err}, hdr, payload, false
		}
		go clientSend(cl, hdr, kind, split, payload, in.TLS && in.Mode != "none")
		select {
		case r := <-results:
			return r, hdr, payload, true
		case <-time.After(40 * time.Second):
			return connResult{}, hdr, payload, false
		}
	}
	r, hdr, payload, done := one(in.Hdr, in.Split)
	if !done {
		out.Timeout, out.Msg = true, fmt.Sprintf("no result for the connection: %v", r.err)
		return out
	}
	out.Panic = r.panicked
	if r.panicked {
		out.Msg = r.pmsg
	}
	if !r.panicked {
		out.Addr = classifyAddr(r.addr, real)
		out.Served = r.err == nil
		if out.Served {
			out.Stream = classifyStream(r.data, hdr, payload)
		} else {
			out.Msg = r.err.Error()
		}
	}
	// a later, well-formed connection of the same peer
	nk := "v1tcp4"
	if in.Mode == "none" {
		nk = "none"
	}
	r2, _, p2, done2 := one(nk, "sep")
	out.Next = done2 && !r2.panicked && r2.err == nil && bytes.Equal(r2.data, p2)
	if !done2 {
		out.Msg += " | next connection: no result"
	}
	return out
}

func TestReplay(t *testing.T) {
	inPath, outPath := os.Getenv("VERIF_IN"), os.Getenv("VERIF_OUT")
	if inPath == "" || outPath == "" {
		t.Skip("VERIF_IN / VERIF_OUT not set")
	}
	fin, err := os.Open(inPath)
	if err != nil {
		t.Fatal(err)
	}
	defer fin.Close()
	fout, err := os.Create(outPath)
	if err != nil {
		t.Fatal(err)
	}
	defer fout.Close()
	w := bufio.NewWriter(fout)
	defer w.Flush()
	defer cleanupMaterial()
	sc := bufio.NewScanner(fin)
	sc.Buffer(make([]byte, 1<<20), 1<<24)
	for sc.Scan() {
		line := bytes.TrimSpace(sc.Bytes())
		if len(line) == 0 {
			continue
		}
		var it RowItem
		if err := json.Unmarshal(line, &it); err != nil {
			t.Fatalf("bad input line: %v", err)
		}
		var out RowOut
		switch it.In.Layer {
		case "raw":
			out = runRawRow(it.In)
		case "smtp", "smtps", "imap":
			out = runSockRow(t, it.In)
		default:
			t.Fatalf("unknown layer %q", it.In.Layer)
		}
		if it.In.Trust == nil {
			it.In.Trust = []string{}
		}
		tr := vtrace.New(w, it.ID)
		tr.Emit("Row", vtrace.Ev{"in": it.In, "out": out})
	}
	if err := sc.Err(); err != nil {
		t.Fatal(err)
	}
}
