package proxyprotocheck

// Socket layers of X17: the real SMTP endpoint (New -> Init -> setConfig ->
// setupListeners) listening on a loopback port, the directive inside the
// endpoint's configuration text. Peers are 127.0.0.1 and 127.0.0.2 (the client
// binds its local address). The address judged is the one the session hands to
// the message pipeline: a check module registered by the harness records
// MsgMetadata.Conn.RemoteAddr when the first RCPT TO starts the delivery.
//
//	"smtp":  tcp:// endpoint, tls off
//	"smtps": tls:// endpoint (implicit TLS). setupListeners wraps the TLS
//	         listener with the PROXY listener, so the header travels inside TLS.

import (
	"bufio"
	"context"
	"crypto/tls"
	"fmt"
	"net"
	"strings"
	"sync"
	"testing"
	"time"

	"github.com/emersion/go-message/textproto"
	parser "github.com/foxcpp/maddy/framework/cfgparser"
	"github.com/foxcpp/maddy/framework/buffer"
	"github.com/foxcpp/maddy/framework/config"
	"github.com/foxcpp/maddy/framework/log"
	"github.com/foxcpp/maddy/framework/module"
	smtpendp "github.com/foxcpp/maddy/internal/endpoint/smtp"
)

type addrCheck struct {
	mu   sync.Mutex
	seen []net.Addr
}

func (c *addrCheck) Name() string               { return "x17addr" }
func (c *addrCheck) InstanceName() string       { return "x17addr" }
func (c *addrCheck) Init(cfg *config.Map) error { return nil }
func (c *addrCheck) CheckStateForMsg(ctx context.Context, m *module.MsgMetadata) (module.CheckState, error) {
	c.mu.Lock()
	defer c.mu.Unlock()
	if m.Conn != nil {
		c.seen = append(c.seen, m.Conn.RemoteAddr)
	} else {
		c.seen = append(c.seen, nil)
	}
	return addrCheckState{}, nil
}
func (c *addrCheck) take() []net.Addr {
	c.mu.Lock()
	defer c.mu.Unlock()
	s := c.seen
	c.seen = nil
	return s
}

type addrCheckState struct{}

func (addrCheckState) CheckConnection(context.Context) module.CheckResult { return module.CheckResult{} }
func (addrCheckState) CheckSender(context.Context, string) module.CheckResult {
	return module.CheckResult{}
}
func (addrCheckState) CheckRcpt(context.Context, string) module.CheckResult {
	return module.CheckResult{}
}
func (addrCheckState) CheckBody(context.Context, textproto.Header, buffer.Buffer) module.CheckResult {
	return module.CheckResult{}
}
func (addrCheckState) Close() error { return nil }

var (
	theCheck  = &addrCheck{}
	checkOnce sync.Once
)

func freePort() (int, error) {
	l, err := net.Listen("tcp", "127.0.0.1:0")
	if err != nil {
		return 0, err
	}
	defer l.Close()
	return l.Addr().(*net.TCPAddr).Port, nil
}

type smtpClient struct {
	c net.Conn
	r *bufio.Reader
}

func (s *smtpClient) reply() (int, error) {
	for {
		s.c.SetReadDeadline(time.Now().Add(20 * time.Second))
		l, err := s.r.ReadString('\n')
		if err != nil {
			return 0, err
		}
		l = strings.TrimRight(l, "\r\n")
		if len(l) < 4 {
			return 0, fmt.Errorf("short reply %q", l)
		}
		if l[3] == ' ' {
			code := 0
			fmt.Sscanf(l[:3], "%d", &code)
			return code, nil
		}
	}
}

func (s *smtpClient) cmd(line string) (int, error) {
	s.c.SetWriteDeadline(time.Now().Add(20 * time.Second))
	if _, err := s.c.Write([]byte(line + "\r\n")); err != nil {
		return 0, err
	}
	return s.reply()
}

// session connects from peer, sends the header and speaks SMTP up to MAIL FROM.
// It returns whether every step was answered 2xx and the client's own address.
func sockSession(port int, peer net.IP, hdr []byte, implicitTLS bool) (bool, net.Addr, string) {
	d := net.Dialer{LocalAddr: &net.TCPAddr{IP: peer}, Timeout: 10 * time.Second}
	raw, err := d.Dial("tcp", fmt.Sprintf("127.0.0.1:%d", port))
	if err != nil {
		return false, nil, "dial: " + err.Error()
	}
	defer raw.Close()
	real := raw.LocalAddr()
	var c net.Conn = raw
	if implicitTLS {
		tc := tls.Client(raw, &tls.Config{InsecureSkipVerify: true})
		raw.SetDeadline(time.Now().Add(20 * time.Second))
		if err := tc.Handshake(); err != nil {
			return false, real, "handshake: " + err.Error()
		}
		raw.SetDeadline(time.Time{})
		c = tc
	}
	if len(hdr) > 0 {
		c.SetWriteDeadline(time.Now().Add(20 * time.Second))
		if _, err := c.Write(hdr); err != nil {
			return false, real, "header: " + err.Error()
		}
	}
	s := &smtpClient{c: c, r: bufio.NewReader(c)}
	if code, err := s.reply(); err != nil || code != 220 {
		return false, real, fmt.Sprintf("greeting: %d %v", code, err)
	}
	if code, err := s.cmd("EHLO client.verif.test"); err != nil || code != 250 {
		return false, real, fmt.Sprintf("EHLO: %d %v", code, err)
	}
	if code, err := s.cmd("MAIL FROM:<a@verif.test>"); err != nil || code != 250 {
		return false, real, fmt.Sprintf("MAIL: %d %v", code, err)
	}
	// the delivery (and with it the pipeline's view of the connection) starts at the first RCPT
	if code, err := s.cmd("RCPT TO:<b@verif.test>"); err != nil || code == 0 {
		return false, real, fmt.Sprintf("RCPT: %d %v", code, err)
	}
	s.cmd("QUIT")
	return true, real, ""
}

func runSockRow(t *testing.T, in RowIn) RowOut {
	out := RowOut{Addr: "real", Stream: "na"}
	infra := func(msg string) RowOut {
		out.Timeout, out.Msg = true, msg
		return out
	}
	checkOnce.Do(func() {
		module.Register("check.x17addr", func(_, _ string, _, _ []string) (module.Module, error) { return theCheck, nil })
	})
	theCheck.take()
	dir, err := directiveText(in, "")
	if err != nil {
		return infra("material: " + err.Error())
	}
	c, k, err := material()
	if err != nil {
		return infra("material: " + err.Error())
	}
	port, err := freePort()
	if err != nil {
		return infra("no loopback port: " + err.Error())
	}
	scheme, tlsLine := "tcp", "tls off\n"
	if in.Layer == "smtps" {
		scheme, tlsLine = "tls", "tls file "+c+" "+k+"\n"
	}
	text := "hostname mx.verif.test\n" + tlsLine + dir +
		"check {\n    x17addr\n}\nreject 550 5.7.1 \"X17 takes no mail\"\n"
	nodes, err := parser.Read(strings.NewReader(text), "x17-endpoint.conf")
	if err != nil {
		return infra("harness configuration text does not parse: " + err.Error())
	}
	mod, err := smtpendp.New("smtp", []string{fmt.Sprintf("%s://127.0.0.1:%d", scheme, port)})
	if err != nil {
		return infra("smtp.New: " + err.Error())
	}
	endp := mod.(*smtpendp.Endpoint)
	endp.Log = log.Logger{Out: log.NopOutput{}}
	if err := endp.Init(config.NewMap(map[string]interface{}{}, config.Node{Children: nodes})); err != nil {
		if strings.Contains(err.Error(), "address already in use") {
			return infra("port taken: " + err.Error())
		}
		out.Cfgerr, out.Msg = true, err.Error()
		endp.Close()
		return out
	}
	defer endp.Close()

	peer := net.IPv4(127, 0, 0, 1)
	if in.Peer == "lo2" {
		peer = net.IPv4(127, 0, 0, 2)
	}
	hdr := headerBytes(in.Hdr)
	ok, real, msg := sockSession(port, peer, hdr, in.Layer == "smtps")
	if real == nil {
		return infra(msg)
	}
	out.Served, out.Msg = ok, msg
	seen := theCheck.take()
	if len(seen) > 0 {
		out.Addr = classifyAddr(seen[len(seen)-1], real)
	}
	if ok {
		out.Stream = "payload"
		if len(seen) != 1 {
			return infra(fmt.Sprintf("the address check saw %d deliveries", len(seen)))
		}
	}
	var nh []byte
	if in.Mode != "none" {
		nh = headerBytes("v1tcp4")
	}
	ok2, _, msg2 := sockSession(port, peer, nh, in.Layer == "smtps")
	out.Next = ok2
	if !ok2 {
		out.Msg += " | next: " + msg2
	}
	theCheck.take()
	return out
}
