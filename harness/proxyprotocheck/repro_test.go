package proxyprotocheck

// Stand-alone reproductions of the extension findings X17-F1..F3 against the
// real code (no TLC needed):
//
//	cd /verif/harness && VERIF_REPRO=1 go1.26 test -tags verif -run 'TestX17F' -v ./proxyprotocheck
//
// They FAIL on a tree that has the defect.

import (
	"fmt"
	"net"
	"os"
	"os/exec"
	"strings"
	"testing"
	"time"

	parser "github.com/foxcpp/maddy/framework/cfgparser"
	"github.com/foxcpp/maddy/framework/config"
	"github.com/foxcpp/maddy/framework/log"
	smtpendp "github.com/foxcpp/maddy/internal/endpoint/smtp"
)

func needRepro(t *testing.T) {
	if os.Getenv("VERIF_REPRO") == "" {
		t.Skip("VERIF_REPRO not set")
	}
}

// X17-F1: `trust 2001:db8:1::10` trusts 2001:db8::/32.
func TestX17F1(t *testing.T) {
	needRepro(t)
	out := runRawRow(RowIn{Layer: "raw", Mode: "on", Trust: []string{"e6s"}, Form: "block", Peer: "p6c", Hdr: "v1tcp4", Split: "sep"})
	if out.Addr != "real" {
		t.Errorf("trust list [2001:db8:1::10], peer 2001:db8:2::5 announced 203.0.113.9: the session's source address is %q (%+v)", out.Addr, out)
	}
}

// X17-F3: a v2 header cut by TCP inside its address block.
func TestX17F3(t *testing.T) {
	needRepro(t)
	out := runRawRow(RowIn{Layer: "raw", Mode: "on", Trust: []string{"e4s"}, Form: "args", Peer: "p4a", Hdr: "v2tcp4", Split: "addr"})
	if !out.Served || out.Addr != "ann" || out.Stream != "payload" {
		t.Errorf("trusted proxy, v2 header in two segments (18 + 10 bytes): %+v", out)
	}
	out = runRawRow(RowIn{Layer: "raw", Mode: "on", Trust: []string{"e4s"}, Form: "args", Peer: "p4a", Hdr: "v2tcp4", Split: "mid"})
	if !out.Served || out.Addr != "ann" || out.Stream != "payload" {
		t.Errorf("trusted proxy, v2 header in two segments (14 + 14 bytes): %+v", out)
	}
}

// X17-F2: the seven bytes "PROXY\r\n" from a peer outside the trust list kill
// the process: the real SMTP endpoint runs in a child process.
func TestX17F2(t *testing.T) {
	needRepro(t)
	if os.Getenv("X17_F2_CHILD") != "" {
		port := os.Getenv("X17_F2_CHILD")
		text := "hostname mx.verif.test\ntls off\nproxy_protocol 127.0.0.1\nreject 550 5.7.1 \"no mail\"\n"
		nodes, err := parser.Read(strings.NewReader(text), "x17-f2.conf")
		if err != nil {
			t.Fatal(err)
		}
		mod, err := smtpendp.New("smtp", []string{"tcp://127.0.0.1:" + port})
		if err != nil {
			t.Fatal(err)
		}
		endp := mod.(*smtpendp.Endpoint)
		endp.Log = log.Logger{Out: log.NopOutput{}}
		if err := endp.Init(config.NewMap(map[string]interface{}{}, config.Node{Children: nodes})); err != nil {
			t.Fatal(err)
		}
		fmt.Println("X17-F2-CHILD-LISTENING")
		time.Sleep(20 * time.Second)
		fmt.Println("X17-F2-CHILD-SURVIVED")
		return
	}
	port, err := freePort()
	if err != nil {
		t.Fatal(err)
	}
	cmd := exec.Command(os.Args[0], "-test.run", "^TestX17F2$", "-test.v")
	cmd.Env = append(os.Environ(), fmt.Sprintf("X17_F2_CHILD=%d", port))
	var sb strings.Builder
	cmd.Stdout, cmd.Stderr = &sb, &sb
	if err := cmd.Start(); err != nil {
		t.Fatal(err)
	}
	done := make(chan error, 1)
	go func() { done <- cmd.Wait() }()
	var c net.Conn
	for i := 0; i < 100; i++ {
		d := net.Dialer{LocalAddr: &net.TCPAddr{IP: net.IPv4(127, 0, 0, 2)}, Timeout: time.Second}
		if c, err = d.Dial("tcp", fmt.Sprintf("127.0.0.1:%d", port)); err == nil {
			break
		}
		time.Sleep(100 * time.Millisecond)
	}
	if c == nil {
		cmd.Process.Kill()
		t.Fatalf("child does not listen: %v\n%s", err, sb.String())
	}
	c.Write([]byte("PROXY\r\n")) // from 127.0.0.2, which is not in the trust list
	select {
	case werr := <-done:
		if strings.Contains(sb.String(), "index out of range") {
			t.Errorf("the server process died (%v) after an untrusted peer sent \"PROXY\\r\\n\":\n%s", werr, firstLines(sb.String(), 12))
		} else {
			t.Fatalf("child ended unexpectedly: %v\n%s", werr, sb.String())
		}
	case <-time.After(5 * time.Second):
		cmd.Process.Kill()
		<-done
	}
	c.Close()
}

func firstLines(s string, n int) string {
	l := strings.Split(s, "\n")
	if len(l) > n {
		l = l[:n]
	}
	return strings.Join(l, "\n")
}
