// Package dnsblcheck runs the rows of spec/Dnsbl.tla (printed by TLC) through
// the real check.dnsbl module of maddy and records what it did.
//
// For every row the module is configured from configuration text (module
// arguments = inline lists, list blocks, thresholds, check_early) inside a real
// message pipeline (internal/msgpipeline), in the top-level check block or in
// the check block of a source / destination block.  The module is created by
// the registered factory of check.dnsbl (NewDNSBL); the only thing the harness
// changes is the resolver (export shim VerifSetResolver, before Init).
//
//   - level "pipeline": the connection is announced with RunEarlyChecks exactly as
//     internal/endpoint/smtp does at EHLO (ConnState with Hostname, RemoteAddr),
//     then one message goes through Start / AddRcpt / Body / Commit to a recording
//     target.  action = SMTP error class of the refusal or the quarantine flag the
//     target saw; stage = where the refusal happened.
//   - level "module": the configured module's decision function is called with
//     (client address, EHLO name, MAIL FROM) (shim VerifCheckLists = checkLists).
//
// The scripted resolver serves the row's zone (names computed by the TLA+
// specification, answers of the row) and records every query.
//
// Input  (VERIF_IN):  {"id":N,"in":{...row of Dnsbl.tla...},"zone":[{"name","ans"}]}
// Output (VERIF_OUT): {"t":id,"seq":1,"e":"Begin"} (written before the row runs)
//
//	{"t":id,"seq":2,"e":"Row","in":...,"out":{...}}
package dnsblcheck

import (
	"bufio"
	"context"
	"encoding/json"
	"errors"
	"fmt"
	"net"
	"os"
	"sort"
	"strings"
	"sync"
	"testing"
	"testing/synctest"

	"github.com/emersion/go-message/textproto"
	"github.com/emersion/go-smtp"
	"github.com/foxcpp/maddy/framework/address"
	"github.com/foxcpp/maddy/framework/buffer"
	parser "github.com/foxcpp/maddy/framework/cfgparser"
	"github.com/foxcpp/maddy/framework/config"
	"github.com/foxcpp/maddy/framework/exterrors"
	"github.com/foxcpp/maddy/framework/log"
	"github.com/foxcpp/maddy/framework/module"
	"github.com/foxcpp/maddy/internal/check/dnsbl"
	"github.com/foxcpp/maddy/internal/msgpipeline"
	"golang.org/x/net/idna"
)

// ---- rows ---------------------------------------------------------------------

type IntOpt struct {
	Given bool `json:"given"`
	V     int  `json:"v"`
}

type Net struct {
	IP   []int `json:"ip"`
	Bits int   `json:"bits"`
}

type Answer struct {
	K     string  `json:"k"`
	Addrs [][]int `json:"addrs"`
	Txt   string  `json:"txt"`
}

type List struct {
	Form  string `json:"form"`
	Zone  string `json:"zone"`
	V4    string `json:"v4"`
	V6    string `json:"v6"`
	Ehlo  string `json:"ehlo"`
	Mf    string `json:"mf"`
	Score IntOpt `json:"score"`
	Resp  struct {
		Given bool  `json:"given"`
		Nets  []Net `json:"nets"`
	} `json:"resp"`
}

type In struct {
	Tab    string `json:"tab"`
	Level  string `json:"level"`
	Place  string `json:"place"`
	Early  bool   `json:"early"`
	Q      IntOpt `json:"q"`
	R      IntOpt `json:"r"`
	Lists  []List `json:"lists"`
	Client struct {
		Fam string `json:"fam"`
		Oct []int  `json:"oct"`
	} `json:"client"`
	Ehlo struct {
		Kind  string `json:"kind"`
		Name  string `json:"name"`
		Canon string `json:"canon"`
	} `json:"ehlo"`
	Group  bool   `json:"group"`
	Second string `json:"second"`
	Mf     struct {
		Local string `json:"local"`
		Dom   string `json:"dom"`
		Canon string `json:"canon"`
		UTF8  bool   `json:"utf8"`
	} `json:"mf"`
}

type ZoneEnt struct {
	Name string `json:"name"`
	Ans  Answer `json:"ans"`
}

type Row struct {
	ID   int       `json:"id"`
	In   In        `json:"in"`
	Zone []ZoneEnt `json:"zone"`
}

// ---- scripted resolver -----------------------------------------------------------

type Query struct {
	T string `json:"t"`
	Q string `json:"q"`
}

type rowEnv struct {
	zone map[string]Answer
	mu   sync.Mutex
	init bool // Init's RFC 5782 self-test is still running
	qs   []Query
	raw  []string
	self []Query
	mod  *dnsbl.DNSBL
}

// canonical form of a DNS name: lower case, A-labels, no trailing dot
func canon(name string) string {
	n := strings.ToLower(strings.TrimSuffix(name, "."))
	if a, err := idna.Punycode.ToASCII(n); err == nil {
		n = a
	}
	return strings.ToLower(n)
}

func (e *rowEnv) lookup(t, name string) Answer {
	c := canon(name)
	e.mu.Lock()
	defer e.mu.Unlock()
	if e.init {
		e.self = append(e.self, Query{t, c})
		return Answer{K: "nx"}
	}
	e.qs = append(e.qs, Query{t, c})
	e.raw = append(e.raw, t+" "+name)
	a, ok := e.zone[c]
	if !ok {
		return Answer{K: "nx"}
	}
	return a
}

func notFound(name string) error {
	return &net.DNSError{Err: "no such host", Name: name, Server: "scripted", IsNotFound: true}
}

func tempFail(name string) error {
	return &net.DNSError{Err: "server misbehaving", Name: name, Server: "scripted", IsTemporary: true}
}

func ipOf(o []int) net.IP {
	ip := make(net.IP, len(o))
	for i, b := range o {
		ip[i] = byte(b)
	}
	return ip
}

var errNotScripted = errors.New("dnsblcheck: lookup not scripted")

func (e *rowEnv) LookupAddr(context.Context, string) ([]string, error) { return nil, errNotScripted }
func (e *rowEnv) LookupMX(context.Context, string) ([]*net.MX, error)  { return nil, errNotScripted }

func (e *rowEnv) LookupIPAddr(_ context.Context, host string) ([]net.IPAddr, error) {
	a := e.lookup("addr", host)
	switch a.K {
	case "addrs":
		res := make([]net.IPAddr, 0, len(a.Addrs))
		for _, o := range a.Addrs {
			res = append(res, net.IPAddr{IP: ipOf(o)})
		}
		return res, nil
	case "temp":
		return nil, tempFail(host)
	default:
		return nil, notFound(host)
	}
}

func (e *rowEnv) LookupHost(_ context.Context, host string) ([]string, error) {
	a := e.lookup("addr", host)
	switch a.K {
	case "addrs":
		res := make([]string, 0, len(a.Addrs))
		for _, o := range a.Addrs {
			res = append(res, ipOf(o).String())
		}
		return res, nil
	case "temp":
		return nil, tempFail(host)
	default:
		return nil, notFound(host)
	}
}

func (e *rowEnv) LookupTXT(_ context.Context, name string) ([]string, error) {
	a := e.lookup("txt", name)
	if a.K != "addrs" {
		return nil, notFound(name)
	}
	switch a.Txt {
	case "one":
		return []string{"listed, see https://bl.test/query"}, nil
	case "fail":
		return nil, tempFail(name)
	default:
		return nil, notFound(name)
	}
}

// ---- configuration text of a row ----------------------------------------------------

func yn(b *strings.Builder, ind, name, v string) {
	if v != "absent" {
		fmt.Fprintf(b, "%s%s %s\n", ind, name, v)
	}
}

func checkBlock(in In, ind string) string {
	var b strings.Builder
	b.WriteString(ind + "check {\n")
	b.WriteString(ind + "    verif_dnsbl")
	for _, l := range in.Lists {
		if l.Form == "inline" {
			b.WriteString(" " + l.Zone)
		}
	}
	b.WriteString(" {\n")
	i2 := ind + "        "
	b.WriteString(i2 + "debug no\n")
	if in.Early {
		b.WriteString(i2 + "check_early yes\n")
	}
	if in.Q.Given {
		fmt.Fprintf(&b, "%squarantine_threshold %d\n", i2, in.Q.V)
	}
	if in.R.Given {
		fmt.Fprintf(&b, "%sreject_threshold %d\n", i2, in.R.V)
	}
	type blk struct{ zones, body string }
	var blocks []blk
	for _, l := range in.Lists {
		if l.Form != "block" {
			continue
		}
		i3 := i2 + "    "
		var lb strings.Builder
		yn(&lb, i3, "client_ipv4", l.V4)
		yn(&lb, i3, "client_ipv6", l.V6)
		yn(&lb, i3, "ehlo", l.Ehlo)
		yn(&lb, i3, "mailfrom", l.Mf)
		if l.Resp.Given {
			lb.WriteString(i3 + "responses")
			for _, n := range l.Resp.Nets {
				if n.Bits == 32 {
					fmt.Fprintf(&lb, " %s", ipOf(n.IP))
				} else {
					fmt.Fprintf(&lb, " %s/%d", ipOf(n.IP), n.Bits)
				}
			}
			lb.WriteString("\n")
		}
		if l.Score.Given {
			fmt.Fprintf(&lb, "%sscore %d\n", i3, l.Score.V)
		}
		// "Using multiple arguments is equivalent to specifying the same
		// configuration separately for each list."
		merged := false
		if in.Group {
			for k := range blocks {
				if blocks[k].body == lb.String() {
					blocks[k].zones += " " + l.Zone
					merged = true
					break
				}
			}
		}
		if !merged {
			blocks = append(blocks, blk{l.Zone, lb.String()})
		}
	}
	for _, bk := range blocks {
		if bk.body == "" {
			b.WriteString(i2 + bk.zones + " { }\n")
		} else {
			b.WriteString(i2 + bk.zones + " {\n" + bk.body + i2 + "}\n")
		}
	}
	b.WriteString(ind + "    }\n" + ind + "}\n")
	return b.String()
}

const rcptAddr = "rcpt@rcpt.test"

func pipelineCfg(in In) string {
	tgt := "deliver_to &verif_dnsbl_target\n"
	switch in.Place {
	case "global":
		return checkBlock(in, "") + tgt
	case "source":
		return "source " + in.Mf.Canon + " {\n" + checkBlock(in, "    ") + "    " + tgt + "}\n" +
			"default_source {\n    " + tgt + "}\n"
	case "destination":
		return "destination rcpt.test {\n" + checkBlock(in, "    ") + "    " + tgt + "}\n" +
			"default_destination {\n    " + tgt + "}\n"
	}
	panic("unknown place " + in.Place)
}

// ---- recording target ----------------------------------------------------------------

type seen struct {
	body, committed bool
	quarantine      bool
}

type tgt struct {
	mu   sync.Mutex
	msgs map[string]*seen
}

func (t *tgt) Init(*config.Map) error { return nil }
func (t *tgt) Name() string           { return "verif_dnsbl_target" }
func (t *tgt) InstanceName() string   { return "verif_dnsbl_target" }
func (t *tgt) get(id string) *seen {
	t.mu.Lock()
	defer t.mu.Unlock()
	s := t.msgs[id]
	if s == nil {
		s = &seen{}
		t.msgs[id] = s
	}
	return s
}
func (t *tgt) take(id string) *seen {
	t.mu.Lock()
	defer t.mu.Unlock()
	s := t.msgs[id]
	delete(t.msgs, id)
	return s
}
func (t *tgt) Start(_ context.Context, m *module.MsgMetadata, _ string) (module.Delivery, error) {
	return &tgtDelivery{t: t, m: m}, nil
}

type tgtDelivery struct {
	t *tgt
	m *module.MsgMetadata
}

func (d *tgtDelivery) AddRcpt(context.Context, string, smtp.RcptOptions) error { return nil }
func (d *tgtDelivery) Body(context.Context, textproto.Header, buffer.Buffer) error {
	s := d.t.get(d.m.ID)
	s.body = true
	s.quarantine = d.m.Quarantine
	return nil
}
func (d *tgtDelivery) Abort(context.Context) error { return nil }
func (d *tgtDelivery) Commit(context.Context) error {
	s := d.t.get(d.m.ID)
	s.committed = true
	s.quarantine = s.quarantine || d.m.Quarantine
	return nil
}

// ---- the world ---------------------------------------------------------------------------

var (
	cur      *rowEnv // the row being run (rows run one after the other)
	theTgt   = &tgt{msgs: map[string]*seen{}}
	regOnce  sync.Once
	nopLog   = log.Logger{Out: log.NopOutput{}}
	hdrBytes = "From: <a@sender.test>\r\nTo: <rcpt@rcpt.test>\r\nSubject: verif\r\nMessage-Id: <1@verif.test>\r\n\r\n"
)

func register() {
	regOnce.Do(func() {
		log.DefaultLogger.Out = log.NopOutput{}
		// the real module under another configuration name: created by the real
		// constructor, initialised by the real Init with the real configuration
		// tree; only the resolver is replaced (before Init)
		module.Register("check.verif_dnsbl", func(modName, instName string, aliases, inlineArgs []string) (module.Module, error) {
			m, err := dnsbl.NewDNSBL(modName, instName, aliases, inlineArgs)
			if err != nil {
				return nil, err
			}
			bl := m.(*dnsbl.DNSBL)
			bl.VerifSetResolver(cur)
			cur.mod = bl
			return bl, nil
		})
		module.RegisterInstance(theTgt, nil)
	})
}

func header() textproto.Header {
	h, err := textproto.ReadHeader(bufio.NewReader(strings.NewReader(hdrBytes)))
	if err != nil {
		panic(err)
	}
	return h
}

type out struct {
	Action     string   `json:"action"`
	Action2    string   `json:"action2"`
	Stage2     string   `json:"stage2"`
	Stage      string   `json:"stage"`
	Code       int      `json:"code"`
	Ench       string   `json:"ench"`
	Msg        string   `json:"msg"`
	CheckName  string   `json:"checkName"`
	Err        string   `json:"err"`
	Quarantine bool     `json:"quarantine"`
	Delivered  bool     `json:"delivered"`
	Queries    []Query  `json:"queries"`
	Raw        []string `json:"raw"`
	SelfTest   []Query  `json:"selftest"`
	Parsed     []string `json:"parsed"`
	Panic      string   `json:"panic"`
	Cfg        string   `json:"cfg"`
}

func classify(o *out, err error) {
	o.Err = err.Error()
	var se *exterrors.SMTPError
	if errors.As(err, &se) {
		o.Code = se.Code
		o.Ench = fmt.Sprintf("%d.%d.%d", se.EnhancedCode[0], se.EnhancedCode[1], se.EnhancedCode[2])
		o.Msg = se.Message
		o.CheckName = se.CheckName
	}
	temp := exterrors.IsTemporary(err)
	switch {
	case o.Code >= 500 && o.Code < 600 && !temp && strings.HasPrefix(o.Ench, "5."):
		o.Action = "permreject"
	case o.Code >= 400 && o.Code < 500 && temp && strings.HasPrefix(o.Ench, "4."):
		o.Action = "tempreject"
	default:
		o.Action = fmt.Sprintf("incoherent-error-%d-%s-temp-%v", o.Code, o.Ench, temp)
	}
}

func uniq(qs []Query) []Query {
	m := map[Query]bool{}
	res := []Query{}
	for _, q := range qs {
		if !m[q] {
			m[q] = true
			res = append(res, q)
		}
	}
	sort.Slice(res, func(i, j int) bool {
		if res[i].Q != res[j].Q {
			return res[i].Q < res[j].Q
		}
		return res[i].T < res[j].T
	})
	return res
}

func clientIP(in In) net.IP {
	switch in.Client.Fam {
	case "v4":
		return ipOf(in.Client.Oct) // 4 bytes
	case "mapped":
		return net.IPv4(byte(in.Client.Oct[0]), byte(in.Client.Oct[1]), byte(in.Client.Oct[2]), byte(in.Client.Oct[3])) // ::ffff:a.b.c.d
	default:
		return ipOf(in.Client.Oct)
	}
}

func mailFromOf(t *testing.T, in In) string {
	if in.Mf.Dom == "" {
		return ""
	}
	dom := in.Mf.Dom
	if in.Mf.UTF8 {
		u, err := idna.ToUnicode(dom)
		if err != nil || u == dom {
			t.Fatalf("row wants a U-label spelling of %q: %v", dom, err)
		}
		dom = u
	}
	if canon(dom) != in.Mf.Canon {
		t.Fatalf("canonical form of %q is %q, the row says %q", dom, canon(dom), in.Mf.Canon)
	}
	return in.Mf.Local + "@" + dom
}

func runRow(t *testing.T, r Row) (o out) {
	in := r.In
	env := &rowEnv{zone: map[string]Answer{}, init: true}
	for _, z := range r.Zone {
		if canon(z.Name) != z.Name {
			t.Fatalf("row %d: zone name %q is not canonical", r.ID, z.Name)
		}
		env.zone[z.Name] = z.Ans
	}
	if in.Ehlo.Name != "" && canon(in.Ehlo.Name) != in.Ehlo.Canon {
		t.Fatalf("row %d: canonical form of %q is %q, the row says %q", r.ID, in.Ehlo.Name, canon(in.Ehlo.Name), in.Ehlo.Canon)
	}
	cur = env
	o.Queries, o.Raw, o.SelfTest, o.Parsed = []Query{}, []string{}, []Query{}, []string{}
	o.Stage, o.Action2, o.Stage2 = "none", "n/a", "none"
	defer func() {
		if e := recover(); e != nil {
			o.Panic = fmt.Sprint(e)
			o.Action = "panic"
		}
	}()

	// the pipeline with the module configured from text
	o.Cfg = pipelineCfg(in)
	nodes, err := parser.Read(strings.NewReader(o.Cfg), "verif-dnsbl.conf")
	if err != nil {
		t.Fatalf("row %d: configuration text does not parse: %v\n%s", r.ID, err, o.Cfg)
	}
	pipe, err := msgpipeline.New(map[string]interface{}{}, nodes)
	if err != nil {
		// every configuration of the tables is a documented one
		o.Action = "config-refused"
		o.Err = err.Error()
		return o
	}
	pipe.Hostname = "mx.verif.test"
	pipe.Log = nopLog
	pipe.Resolver = env
	if env.mod == nil {
		t.Fatalf("row %d: the pipeline did not create the module", r.ID)
	}
	// Init started the RFC 5782 self-test of every list in the background: let it finish
	synctest.Wait()
	env.mu.Lock()
	env.init = false
	o.SelfTest = uniq(env.self)
	env.mu.Unlock()
	for _, l := range env.mod.VerifLists() {
		nets := []string{}
		for _, n := range l.Responses {
			nets = append(nets, n.String())
		}
		o.Parsed = append(o.Parsed, fmt.Sprintf("%s v4=%v v6=%v ehlo=%v mailfrom=%v score=%d responses=%v",
			l.Zone, l.ClientIPv4, l.ClientIPv6, l.EHLO, l.MAILFROM, l.ScoreAdj, nets))
	}

	ctx := context.Background()
	ip := clientIP(in)
	from := mailFromOf(t, in)
	finish := func() {
		env.mu.Lock()
		o.Queries = uniq(env.qs)
		o.Raw = append(o.Raw, env.raw...)
		env.mu.Unlock()
	}
	defer finish()

	if in.Level == "module" {
		res := env.mod.VerifCheckLists(ctx, ip, in.Ehlo.Name, from)
		switch {
		case res.Reject && res.Quarantine:
			o.Action = "reject-and-quarantine"
		case res.Reject:
			if res.Reason == nil {
				o.Action = "reject-without-reason"
			} else {
				classify(&o, res.Reason)
			}
		case res.Quarantine:
			o.Action, o.Quarantine = "quarantine", true
		default:
			o.Action = "none"
		}
		return o
	}

	// as internal/endpoint/smtp: newSession + NewSession
	connState := module.ConnState{
		Proto:      "ESMTP",
		Hostname:   in.Ehlo.Name,
		LocalAddr:  &net.TCPAddr{IP: net.IPv4(198, 51, 100, 1), Port: 25},
		RemoteAddr: &net.TCPAddr{IP: ip, Port: 40000 + r.ID%20000},
	}
	if err := pipe.RunEarlyChecks(ctx, &connState); err != nil {
		o.Stage = "conn"
		classify(&o, err)
		return o
	}
	// as Session.startDelivery, for each message of the connection
	sendMsg(t, r, pipe, &connState, from, 1, &o)
	if in.Second != "none" {
		from2 := from
		if in.Second == "null" {
			from2 = ""
		}
		var o2 out
		o2.Stage = "none"
		sendMsg(t, r, pipe, &connState, from2, 2, &o2)
		o.Action2, o.Stage2 = o2.Action, o2.Stage
	}
	return o
}

// sendMsg sends one message over the announced connection and records the
// outcome in o (action, stage, SMTP error).
func sendMsg(t *testing.T, r Row, pipe *msgpipeline.MsgPipeline, connState *module.ConnState, from string, n int, o *out) {
	ctx := context.Background()
	id := fmt.Sprintf("row%d-%d", r.ID, n)
	meta := &module.MsgMetadata{ID: id, Conn: connState, SMTPOpts: smtp.MailOptions{UTF8: r.In.Mf.UTF8}, OriginalFrom: from}
	cleanFrom := from
	if from != "" {
		var err error
		cleanFrom, err = address.CleanDomain(from)
		if err != nil {
			t.Fatalf("row %d: CleanDomain(%q): %v", r.ID, from, err)
		}
	}
	d, err := pipe.Start(ctx, meta, cleanFrom)
	if err != nil {
		o.Stage = "mail"
		classify(o, err)
		return
	}
	refused := func(stage string, err error) {
		_ = d.Abort(ctx)
		o.Stage = stage
		classify(o, err)
		if s := theTgt.take(id); s != nil && s.committed {
			o.Action = "refused-but-delivered"
		}
	}
	if err := d.AddRcpt(ctx, rcptAddr, smtp.RcptOptions{}); err != nil {
		refused("rcpt", err)
		return
	}
	if err := d.Body(ctx, header(), buffer.MemoryBuffer{Slice: []byte("hello\r\n")}); err != nil {
		refused("body", err)
		return
	}
	if err := d.Commit(ctx); err != nil {
		t.Fatalf("row %d: Commit: %v", r.ID, err)
	}
	s := theTgt.take(id)
	if s == nil || !s.body || !s.committed {
		o.Action = "lost"
		return
	}
	o.Delivered = true
	o.Quarantine = s.quarantine
	if o.Quarantine {
		o.Action = "quarantine"
	} else {
		o.Action = "none"
	}
}

func TestReplay(t *testing.T) {
	inPath, outPath := os.Getenv("VERIF_IN"), os.Getenv("VERIF_OUT")
	if inPath == "" || outPath == "" {
		t.Skip("VERIF_IN / VERIF_OUT not set")
	}
	data, err := os.ReadFile(inPath)
	if err != nil {
		t.Fatal(err)
	}
	of, err := os.Create(outPath)
	if err != nil {
		t.Fatal(err)
	}
	defer of.Close()
	register()
	emit := func(v map[string]interface{}) {
		b, err := json.Marshal(v)
		if err != nil {
			t.Fatal(err)
		}
		// unbuffered: a crash of the code under test leaves the Begin line of its row behind
		if _, err := of.Write(append(b, '\n')); err != nil {
			t.Fatal(err)
		}
	}
	n := 0
	synctest.Test(t, func(t *testing.T) {
		for _, line := range strings.Split(string(data), "\n") {
			if strings.TrimSpace(line) == "" {
				continue
			}
			var r Row
			if err := json.Unmarshal([]byte(line), &r); err != nil {
				t.Fatalf("bad row: %v", err)
			}
			var generic struct {
				In json.RawMessage `json:"in"`
			}
			_ = json.Unmarshal([]byte(line), &generic)
			emit(map[string]interface{}{"t": r.ID, "seq": 1, "e": "Begin"})
			o := runRow(t, r)
			emit(map[string]interface{}{"t": r.ID, "seq": 2, "e": "Row", "in": generic.In, "out": o})
			n++
		}
		synctest.Wait()
	})
	t.Logf("ran %d rows", n)
}
