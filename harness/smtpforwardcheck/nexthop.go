package smtpforwardcheck

// A scripted next hop for one configured endpoint of target.smtp / target.lmtp:
// a raw line-based SMTP/LMTP server on a loopback TCP socket (tcp://), with
// implicit TLS (tls://) or on a unix socket (unix://).  `Out` says how the
// endpoint behaves while the connection is set up, `Plan` which reply AUTH,
// MAIL, every RCPT, DATA and the final dot get.  Every accepted connection and
// every received command is recorded BEFORE the reply is written, so the order
// of the events is the causal order.  After QUIT (221) the next hop keeps the
// connection and waits for the target to close it: a connection the target
// leaves open is counted by WaitClosed.

import (
	"bufio"
	"crypto/ecdsa"
	"crypto/elliptic"
	"crypto/rand"
	"crypto/tls"
	"crypto/x509"
	"crypto/x509/pkix"
	"encoding/base64"
	"encoding/pem"
	"fmt"
	"math/big"
	"net"
	"os"
	"path/filepath"
	"strings"
	"sync"
	"time"

	"github.com/foxcpp/maddy/verifharness/vtrace"
)

const (
	cfgUser = "relayuser"
	cfgPass = "relay-secret"
	srcUser = "alice@example.org"
	srcPass = "alice-secret"
)

// PKI: a root the target is told to trust, and one it is not.
type PKI struct {
	RootFile string
	Good     tls.Certificate
	Bad      tls.Certificate
}

func newCA(cn string) (*x509.Certificate, *ecdsa.PrivateKey, []byte, error) {
	key, err := ecdsa.GenerateKey(elliptic.P256(), rand.Reader)
	if err != nil {
		return nil, nil, nil, err
	}
	tpl := &x509.Certificate{SerialNumber: big.NewInt(1), Subject: pkix.Name{CommonName: cn},
		NotBefore: time.Now().Add(-time.Hour), NotAfter: time.Now().Add(24 * time.Hour),
		IsCA: true, BasicConstraintsValid: true, KeyUsage: x509.KeyUsageCertSign | x509.KeyUsageDigitalSignature}
	der, err := x509.CreateCertificate(rand.Reader, tpl, tpl, &key.PublicKey, key)
	if err != nil {
		return nil, nil, nil, err
	}
	c, err := x509.ParseCertificate(der)
	return c, key, der, err
}

func newLeaf(ca *x509.Certificate, caKey *ecdsa.PrivateKey) (tls.Certificate, error) {
	key, err := ecdsa.GenerateKey(elliptic.P256(), rand.Reader)
	if err != nil {
		return tls.Certificate{}, err
	}
	tpl := &x509.Certificate{SerialNumber: big.NewInt(2), Subject: pkix.Name{CommonName: "127.0.0.1"},
		NotBefore: time.Now().Add(-time.Hour), NotAfter: time.Now().Add(24 * time.Hour),
		KeyUsage: x509.KeyUsageDigitalSignature, ExtKeyUsage: []x509.ExtKeyUsage{x509.ExtKeyUsageServerAuth},
		IPAddresses: []net.IP{net.IPv4(127, 0, 0, 1)}, DNSNames: []string{"localhost"}}
	der, err := x509.CreateCertificate(rand.Reader, tpl, ca, &key.PublicKey, caKey)
	if err != nil {
		return tls.Certificate{}, err
	}
	return tls.Certificate{Certificate: [][]byte{der}, PrivateKey: key}, nil
}

func NewPKI(rootFile string) (*PKI, error) {
	ca1, k1, der1, err := newCA("x20 trusted root")
	if err != nil {
		return nil, err
	}
	ca2, k2, _, err := newCA("x20 unknown root")
	if err != nil {
		return nil, err
	}
	good, err := newLeaf(ca1, k1)
	if err != nil {
		return nil, err
	}
	bad, err := newLeaf(ca2, k2)
	if err != nil {
		return nil, err
	}
	if err := os.WriteFile(rootFile, pem.EncodeToMemory(&pem.Block{Type: "CERTIFICATE", Bytes: der1}), 0o600); err != nil {
		return nil, err
	}
	return &PKI{RootFile: rootFile, Good: good, Bad: bad}, nil
}

type HopConfig struct {
	Ep       int
	Scheme   string // tcp | tls | unix
	Out      string
	LMTP     bool
	Plan     Plan
	Hostname string // the name the target is configured to announce
	PKI      *PKI
	Dir      string
	Tag      string
	Tr       *vtrace.Tracer
}

type NextHop struct {
	cfg   HopConfig
	l     net.Listener
	url   string
	mu    sync.Mutex
	conns []net.Conn
	open  int
	done  chan struct{} // signalled whenever a handler ends
	infra string
}

func NewNextHop(cfg HopConfig) (*NextHop, error) {
	h := &NextHop{cfg: cfg, done: make(chan struct{}, 64)}
	var err error
	if cfg.Scheme == "unix" {
		path := filepath.Join(cfg.Dir, cfg.Tag+".sock")
		os.Remove(path)
		h.url = "unix://" + path
		if cfg.Out == "refuse" {
			return h, nil
		}
		h.l, err = net.Listen("unix", path)
	} else {
		h.l, err = net.Listen("tcp", "127.0.0.1:0")
		if err == nil {
			h.url = cfg.Scheme + "://" + h.l.Addr().String()
			if cfg.Out == "refuse" {
				h.l.Close()
				h.l = nil
				return h, nil
			}
		}
	}
	if err != nil {
		return nil, err
	}
	go h.serve()
	return h, nil
}

func (h *NextHop) URL() string { return h.url }

func (h *NextHop) InfraErr() string {
	h.mu.Lock()
	defer h.mu.Unlock()
	return h.infra
}

func (h *NextHop) serve() {
	for {
		c, err := h.l.Accept()
		if err != nil {
			return
		}
		h.mu.Lock()
		h.conns = append(h.conns, c)
		h.open++
		h.mu.Unlock()
		go func() {
			h.handle(c)
			h.mu.Lock()
			h.open--
			h.mu.Unlock()
			select {
			case h.done <- struct{}{}:
			default:
			}
		}()
	}
}

// WaitClosed waits until every accepted connection is over (closed by the target, or by the script)
// and returns the number of connections the target still holds open.
func (h *NextHop) WaitClosed(d time.Duration) int {
	deadline := time.Now().Add(d)
	for {
		h.mu.Lock()
		n := h.open
		h.mu.Unlock()
		if n == 0 {
			return 0
		}
		left := time.Until(deadline)
		if left <= 0 {
			return n
		}
		select {
		case <-h.done:
		case <-time.After(left):
		}
	}
}

func (h *NextHop) Shutdown() {
	if h.l != nil {
		h.l.Close()
	}
	h.mu.Lock()
	for _, c := range h.conns {
		c.Close()
	}
	h.mu.Unlock()
	if h.cfg.Scheme == "unix" {
		os.Remove(strings.TrimPrefix(h.url, "unix://"))
	}
}

func (h *NextHop) emit(e string, f vtrace.Ev) {
	if f == nil {
		f = vtrace.Ev{}
	}
	f["ep"] = h.cfg.Ep
	h.cfg.Tr.Emit(e, f)
}

func (h *NextHop) srv(verb string, tlsOn bool, a, r string) {
	h.emit("Srv", vtrace.Ev{"verb": verb, "tls": tlsOn, "a": a, "r": r})
}

// drain waits for the target to close its end.
func drain(c net.Conn) {
	buf := make([]byte, 512)
	for {
		if _, err := c.Read(buf); err != nil {
			return
		}
	}
}

func (h *NextHop) tlsServer(raw net.Conn) (*tls.Conn, error) {
	cert := h.cfg.PKI.Good
	if h.cfg.Out == "badcert" {
		cert = h.cfg.PKI.Bad
	}
	tc := tls.Server(raw, &tls.Config{Certificates: []tls.Certificate{cert}})
	raw.SetDeadline(time.Now().Add(30 * time.Second))
	err := tc.Handshake()
	raw.SetDeadline(time.Time{})
	return tc, err
}

func (h *NextHop) handle(raw net.Conn) {
	defer raw.Close()
	out := h.cfg.Out
	plan := h.cfg.Plan
	h.emit("Conn", nil)

	var c net.Conn = raw
	tlsOn := false
	if h.cfg.Scheme == "tls" {
		if out == "hsfail" {
			return // closed instead of a ServerHello
		}
		tc, err := h.tlsServer(raw)
		if err != nil {
			return // bad certificate refused by the client, or the client did not speak TLS
		}
		c, tlsOn = tc, true
	}
	switch out {
	case "gdrop":
		return
	case "g4":
		fmt.Fprintf(c, "421 4.3.2 nexthop%d not available\r\n", h.cfg.Ep)
		drain(c)
		return
	case "g5":
		fmt.Fprintf(c, "554 5.3.2 nexthop%d does not accept mail\r\n", h.cfg.Ep)
		drain(c)
		return
	}
	fmt.Fprintf(c, "220 nexthop%d.test.invalid ready\r\n", h.cfg.Ep)
	rd := bufio.NewReader(c)
	nrcpt, nacc := 0, 0
	for {
		line, err := rd.ReadString('\n')
		if err != nil {
			return
		}
		line = strings.TrimRight(line, "\r\n")
		verb, arg := line, ""
		if i := strings.IndexByte(line, ' '); i >= 0 {
			verb, arg = line[:i], strings.TrimSpace(line[i+1:])
		}
		verb = strings.ToUpper(verb)
		switch verb {
		case "EHLO", "LHLO", "HELO":
			a := "other"
			if arg == h.cfg.Hostname {
				a = "cfg"
			} else if arg == "localhost" {
				a = "local"
			}
			h.srv(verb, tlsOn, a, "ok")
			lines := []string{fmt.Sprintf("nexthop%d.test.invalid", h.cfg.Ep), "8BITMIME", "ENHANCEDSTATUSCODES", "PIPELINING"}
			if !tlsOn && out != "notls" {
				lines = append(lines, "STARTTLS")
			}
			if plan.AuthR != "noauth" {
				lines = append(lines, "AUTH PLAIN EXTERNAL")
			}
			for i, l := range lines {
				sep := "-"
				if i == len(lines)-1 {
					sep = " "
				}
				fmt.Fprintf(c, "250%s%s\r\n", sep, l)
			}
		case "STARTTLS":
			if out == "stls4" {
				h.srv(verb, tlsOn, "", "t4")
				fmt.Fprintf(c, "454 4.7.0 TLS not available\r\n")
				continue
			}
			h.srv(verb, tlsOn, "", "ok")
			fmt.Fprintf(c, "220 2.0.0 go ahead\r\n")
			if out == "hsfail" {
				return
			}
			tc, err := h.tlsServer(raw)
			if err != nil {
				return
			}
			c, tlsOn = tc, true
			rd = bufio.NewReader(c)
		case "AUTH":
			a := "other"
			f := strings.Fields(arg)
			if len(f) >= 1 && strings.ToUpper(f[0]) == "EXTERNAL" {
				a = "ext"
			} else if len(f) >= 2 && strings.ToUpper(f[0]) == "PLAIN" {
				if dec, err := base64.StdEncoding.DecodeString(f[1]); err == nil {
					p := strings.Split(string(dec), "\x00")
					if len(p) == 3 && p[0] == "" {
						switch {
						case p[1] == cfgUser && p[2] == cfgPass:
							a = "cfg"
						case p[1] == srcUser && p[2] == srcPass:
							a = "src"
						}
					}
				}
			}
			h.srv(verb, tlsOn, a, plan.AuthR)
			switch plan.AuthR {
			case "ok":
				fmt.Fprintf(c, "235 2.7.0 authenticated\r\n")
			case "rej4":
				fmt.Fprintf(c, "454 4.7.0 temporary authentication failure\r\n")
			case "noauth":
				fmt.Fprintf(c, "502 5.5.1 command not implemented\r\n")
			default:
				fmt.Fprintf(c, "535 5.7.8 authentication credentials invalid\r\n")
			}
		case "MAIL":
			h.srv(verb, tlsOn, "", plan.MailR)
			switch plan.MailR {
			case "ok":
				fmt.Fprintf(c, "250 2.1.0 ok\r\n")
			case "t4":
				fmt.Fprintf(c, "451 4.3.0 try later\r\n")
			case "p5":
				fmt.Fprintf(c, "550 5.7.1 sender refused\r\n")
			default: // drop
				return
			}
		case "RCPT":
			r := "ok"
			if nrcpt < len(plan.Rcpts) {
				r = plan.Rcpts[nrcpt]
			}
			nrcpt++
			h.srv(verb, tlsOn, "", r)
			switch r {
			case "t4":
				fmt.Fprintf(c, "451 4.2.1 mailbox busy\r\n")
			case "p5":
				fmt.Fprintf(c, "550 5.1.1 no such user\r\n")
			default:
				nacc++
				fmt.Fprintf(c, "250 2.1.5 ok\r\n")
			}
		case "DATA":
			if plan.BodyR == "d4" {
				h.srv(verb, tlsOn, "", "t4")
				fmt.Fprintf(c, "451 4.3.0 not now\r\n")
				continue
			}
			h.srv(verb, tlsOn, "", "ok")
			fmt.Fprintf(c, "354 go ahead\r\n")
			for {
				l, err := rd.ReadString('\n')
				if err != nil {
					return
				}
				if l == ".\r\n" {
					break
				}
			}
			r, text := "ok", "250 2.0.0 queued"
			if plan.BodyR == "dot5" {
				r, text = "p5", "554 5.6.0 content refused"
			}
			h.srv("BODY", tlsOn, "", r)
			n := 1
			if h.cfg.LMTP {
				n = nacc
			}
			for i := 0; i < n; i++ {
				fmt.Fprintf(c, "%s\r\n", text)
			}
		case "QUIT":
			h.srv(verb, tlsOn, "", "ok")
			fmt.Fprintf(c, "221 2.0.0 bye\r\n")
			drain(c)
			return
		case "*": // the client cancels a refused SASL exchange
			fmt.Fprintf(c, "501 5.0.0 authentication cancelled\r\n")
		case "RSET", "NOOP":
			fmt.Fprintf(c, "250 2.0.0 ok\r\n")
		default:
			h.mu.Lock()
			h.infra = fmt.Sprintf("next hop %d received a command the script does not know: %q", h.cfg.Ep, line)
			h.mu.Unlock()
			fmt.Fprintf(c, "500 5.5.1 unknown command\r\n")
		}
	}
}
