package smtpforwardcheck

// Extension X20: behaviours of spec/SmtpForward.tla (printed by TLC) are run
// through the real target.smtp / target.lmtp module - built from configuration
// nodes exactly as maddy's configuration loader would - against scripted next
// hops (nexthop.go) on loopback TCP, implicit-TLS and unix sockets.  Every
// connection a next hop accepted, every command it received (with the state
// of the channel and the class of the name / credentials it carried) and the
// class of every result the target returned is recorded; TLC validates the
// events against spec/SmtpForwardTrace.tla.
//
// Input  (VERIF_IN):  {"id":N,"cfg":{kind,stls,rtls,auth,src,schs,outs},"steps":[{a,r}...]}
// Output (VERIF_OUT): Cfg, Start, Conn*, Srv*, Ret*, End(open)

import (
	"bufio"
	"context"
	"encoding/json"
	"fmt"
	"os"
	"path/filepath"
	"testing"
	"time"

	"github.com/emersion/go-message/textproto"
	"github.com/emersion/go-smtp"
	"github.com/foxcpp/maddy/framework/buffer"
	"github.com/foxcpp/maddy/framework/config"
	"github.com/foxcpp/maddy/framework/exterrors"
	"github.com/foxcpp/maddy/framework/module"
	smtp_downstream "github.com/foxcpp/maddy/internal/target/smtp"
	"github.com/foxcpp/maddy/verifharness/vtrace"
)

type Cfg struct {
	Kind string   `json:"kind"`
	Stls string   `json:"stls"`
	Rtls string   `json:"rtls"`
	Auth string   `json:"auth"`
	Src  string   `json:"src"`
	Schs []string `json:"schs"`
	Outs []string `json:"outs"`
}

type Step struct {
	A string `json:"a"`
	R string `json:"r"`
}

type Behaviour struct {
	ID    int    `json:"id"`
	Cfg   Cfg    `json:"cfg"`
	Steps []Step `json:"steps"`
}

type Plan struct {
	AuthR string
	MailR string
	Rcpts []string
	BodyR string // "" = no body
	Abort bool
}

const harnessBudget = 90 * time.Second

var leaksSeen int

func planOf(b Behaviour) Plan {
	p := Plan{AuthR: "ok", MailR: "ok"}
	for _, s := range b.Steps {
		switch s.A {
		case "auth":
			p.AuthR = s.R
		case "mail":
			p.MailR = s.R
		case "rcpt":
			p.Rcpts = append(p.Rcpts, s.R)
		case "body":
			p.BodyR = s.R
		case "abort":
			p.Abort = true
		}
	}
	return p
}

func classOf(err error) string {
	switch {
	case err == nil:
		return "ok"
	case exterrors.IsTemporary(err):
		return "temp"
	}
	return "perm"
}

type nullStatus struct{}

func (nullStatus) SetStatus(string, error) {}

func runBehaviour(t *testing.T, b Behaviour, out *bufio.Writer, pki *PKI) {
	start := time.Now()
	tr := vtrace.New(out, b.ID)
	plan := planOf(b)
	c := b.Cfg
	tmp := os.Getenv("VERIF_TMP")
	if tmp == "" {
		tmp = t.TempDir()
	}

	hostname := "client.example.org"
	localName := b.ID%2 == 1
	if localName {
		hostname = "fwd.example.org"
	}

	tr.Emit("Cfg", vtrace.Ev{"kind": c.Kind, "stls": c.Stls, "rtls": c.Rtls, "auth": c.Auth, "src": c.Src,
		"schs": c.Schs, "outs": c.Outs})

	hops := make([]*NextHop, len(c.Schs))
	urls := make([]string, len(c.Schs))
	for i := range c.Schs {
		h, err := NewNextHop(HopConfig{Ep: i + 1, Scheme: c.Schs[i], Out: c.Outs[i], LMTP: c.Kind == "lmtp", Plan: plan,
			Hostname: hostname, PKI: pki, Dir: tmp, Tag: fmt.Sprintf("b%d-e%d", b.ID, i+1), Tr: tr})
		if err != nil {
			t.Fatalf("HARNESS behaviour %d: next hop %d: %v", b.ID, i+1, err)
		}
		hops[i] = h
		urls[i] = h.URL()
	}
	defer func() {
		for _, h := range hops {
			h.Shutdown()
		}
	}()

	// the configuration block, as the loader hands it to Init
	var inline []string
	var children []config.Node
	if b.ID%3 == 0 {
		inline = urls // deliver_to smtp URL URL
	} else if b.ID%3 == 1 {
		children = append(children, config.Node{Name: "targets", Args: urls})
	} else {
		inline = urls[:1]
		if len(urls) > 1 {
			children = append(children, config.Node{Name: "targets", Args: urls[1:]})
		}
	}
	switch c.Stls {
	case "yes", "no":
		children = append(children, config.Node{Name: "starttls", Args: []string{c.Stls}})
	case "ayes":
		if b.ID%2 == 0 {
			children = append(children, config.Node{Name: "attempt_starttls"})
		} else {
			children = append(children, config.Node{Name: "attempt_starttls", Args: []string{"yes"}})
		}
	case "ano":
		children = append(children, config.Node{Name: "attempt_starttls", Args: []string{"no"}})
	}
	if c.Rtls == "yes" {
		children = append(children, config.Node{Name: "require_tls", Args: []string{"yes"}})
	}
	switch c.Auth {
	case "off":
		if b.ID%2 == 0 {
			children = append(children, config.Node{Name: "auth", Args: []string{"off"}})
		}
	case "plain":
		children = append(children, config.Node{Name: "auth", Args: []string{"plain", cfgUser, cfgPass}})
	case "forward", "external":
		children = append(children, config.Node{Name: "auth", Args: []string{c.Auth}})
	}
	children = append(children,
		config.Node{Name: "tls_client", Children: []config.Node{{Name: "root_ca", Args: []string{pki.RootFile}}}},
		config.Node{Name: "connect_timeout", Args: []string{"20s"}},
		config.Node{Name: "command_timeout", Args: []string{"20s"}},
		config.Node{Name: "submission_timeout", Args: []string{"20s"}},
		config.Node{Name: "debug", Args: []string{"no"}},
	)
	globals := map[string]interface{}{"hostname": "client.example.org"}
	if localName {
		children = append(children, config.Node{Name: "hostname", Args: []string{hostname}})
	}
	mod, err := smtp_downstream.NewDownstream("target."+c.Kind, "verif", nil, inline)
	if err != nil {
		t.Fatalf("HARNESS behaviour %d: NewDownstream: %v", b.ID, err)
	}
	if err := mod.Init(config.NewMap(globals, config.Node{Children: children})); err != nil {
		t.Fatalf("HARNESS behaviour %d: Init: %v", b.ID, err)
	}
	tgt := mod.(module.DeliveryTarget)

	meta := &module.MsgMetadata{ID: fmt.Sprintf("x20-%d", b.ID), OriginalFrom: "sender@example.org", SMTPOpts: smtp.MailOptions{}}
	switch c.Src {
	case "auth":
		meta.Conn = &module.ConnState{AuthUser: srcUser, AuthPassword: srcPass}
	case "nopass":
		meta.Conn = &module.ConnState{AuthUser: srcUser}
	case "anon":
		meta.Conn = &module.ConnState{}
	}

	ctx, cancel := context.WithTimeout(context.Background(), harnessBudget)
	defer cancel()

	tr.Emit("Start", nil)
	d, err := tgt.Start(ctx, meta, "sender@example.org")
	tr.Emit("Ret", vtrace.Ev{"c": "start", "cls": classOf(err), "err": errText(err)})
	if err == nil {
		for i, r := range plan.Rcpts {
			_ = r
			err := d.AddRcpt(ctx, fmt.Sprintf("rcpt%d@example.net", i+1), smtp.RcptOptions{})
			tr.Emit("Ret", vtrace.Ev{"c": "rcpt", "cls": classOf(err), "err": errText(err)})
		}
		if plan.Abort || plan.BodyR == "" {
			d.Abort(ctx)
			tr.Emit("Ret", vtrace.Ev{"c": "abort", "cls": "ok", "err": ""})
		} else {
			hdr := textproto.Header{}
			hdr.Add("Subject", "x20")
			body := buffer.MemoryBuffer{Slice: []byte("hello\r\n")}
			if pd, ok := d.(module.PartialDelivery); ok {
				pd.BodyNonAtomic(ctx, nullStatus{}, hdr, body)
			} else {
				d.Body(ctx, hdr, body)
			}
			tr.Emit("Ret", vtrace.Ev{"c": "body", "cls": "ok", "err": ""})
			err := d.Commit(ctx)
			tr.Emit("Ret", vtrace.Ev{"c": "commit", "cls": classOf(err), "err": errText(err)})
		}
	}

	// every connection a next hop accepted must have been closed by the target by now
	wait := 6 * time.Second
	if leaksSeen >= 3 {
		wait = 300 * time.Millisecond
	}
	deadline := time.Now().Add(wait)
	open := 0
	for _, h := range hops {
		open += h.WaitClosed(time.Until(deadline))
	}
	if open > 0 {
		leaksSeen++
	}
	tr.Emit("End", vtrace.Ev{"open": open})
	for _, h := range hops {
		if e := h.InfraErr(); e != "" {
			t.Fatalf("HARNESS behaviour %d: %s", b.ID, e)
		}
	}
	if time.Since(start) > harnessBudget || ctx.Err() != nil {
		t.Fatalf("HARNESS-TIMEOUT behaviour %d took %v", b.ID, time.Since(start))
	}
}

func errText(err error) string {
	if err == nil {
		return ""
	}
	s := err.Error()
	if len(s) > 120 {
		s = s[:120]
	}
	return s
}

func TestReplay(t *testing.T) {
	in, out := os.Getenv("VERIF_IN"), os.Getenv("VERIF_OUT")
	if in == "" || out == "" {
		t.Skip("VERIF_IN / VERIF_OUT not set")
	}
	f, err := os.Open(in)
	if err != nil {
		t.Fatal(err)
	}
	defer f.Close()
	of, err := os.Create(out)
	if err != nil {
		t.Fatal(err)
	}
	defer of.Close()
	wr := bufio.NewWriter(of)
	defer wr.Flush()
	tmp := os.Getenv("VERIF_TMP")
	if tmp == "" {
		tmp = t.TempDir()
	}
	pki, err := NewPKI(filepath.Join(tmp, "root.pem"))
	if err != nil {
		t.Fatalf("HARNESS pki: %v", err)
	}
	sc := bufio.NewScanner(f)
	sc.Buffer(make([]byte, 1<<20), 1<<26)
	n := 0
	for sc.Scan() {
		if len(sc.Bytes()) == 0 {
			continue
		}
		var b Behaviour
		if err := json.Unmarshal(sc.Bytes(), &b); err != nil {
			t.Fatalf("bad behaviour line: %v", err)
		}
		runBehaviour(t, b, wr, pki)
		n++
	}
	t.Logf("replayed %d behaviours", n)
}
