package smtpforwardcheck

// Stand-alone reproductions of the findings of extension X20 against the real
// target.smtp / target.lmtp (no TLC involved):
//
//	cd /verif/harness && go1.26 test -tags verif -run 'TestReproX20' -v ./smtpforwardcheck
//
// Each test prints the recorded events and fails while the defect is present.

import (
	"bufio"
	"bytes"
	"encoding/json"
	"path/filepath"
	"testing"
)

func reproRun(t *testing.T, b Behaviour) []map[string]interface{} {
	pki, err := NewPKI(filepath.Join(t.TempDir(), "root.pem"))
	if err != nil {
		t.Fatal(err)
	}
	t.Setenv("VERIF_TMP", t.TempDir())
	var buf bytes.Buffer
	w := bufio.NewWriter(&buf)
	runBehaviour(t, b, w, pki)
	w.Flush()
	var evs []map[string]interface{}
	for _, line := range bytes.Split(bytes.TrimSpace(buf.Bytes()), []byte("\n")) {
		var e map[string]interface{}
		if err := json.Unmarshal(line, &e); err != nil {
			t.Fatal(err)
		}
		t.Logf("%s", line)
		evs = append(evs, e)
	}
	return evs
}

// X20-F1: target.lmtp tcp://... { require_tls yes; auth plain user pass } - the way smtp.md:83-86 tells the
// administrator to protect the credentials - sends AUTH PLAIN and the message in clear text.
func TestReproX20F1(t *testing.T) {
	evs := reproRun(t, Behaviour{ID: 2, Cfg: Cfg{Kind: "lmtp", Stls: "dflt", Rtls: "yes", Auth: "plain", Src: "auth",
		Schs: []string{"tcp"}, Outs: []string{"up"}},
		Steps: []Step{{A: "start"}, {A: "auth", R: "ok"}, {A: "mail", R: "ok"}, {A: "rcpt", R: "ok"}, {A: "body", R: "ok"}}})
	for _, e := range evs {
		if e["e"] == "Srv" && e["verb"] == "AUTH" && e["tls"] == false {
			t.Errorf("X20-F1: AUTH PLAIN with the configured password arrived over a clear-text channel although require_tls yes is set")
		}
	}
}

// X20-F2: target.smtp tls://host:465 with the default configuration (starttls yes) can never deliver:
// STARTTLS is demanded inside the implicit-TLS session.
func TestReproX20F2(t *testing.T) {
	evs := reproRun(t, Behaviour{ID: 3, Cfg: Cfg{Kind: "smtp", Stls: "dflt", Rtls: "none", Auth: "off", Src: "auth",
		Schs: []string{"tls"}, Outs: []string{"up"}},
		Steps: []Step{{A: "start"}, {A: "mail", R: "ok"}, {A: "rcpt", R: "ok"}, {A: "body", R: "ok"}}})
	for _, e := range evs {
		if e["e"] == "Ret" && e["c"] == "start" && e["cls"] != "ok" {
			t.Errorf("X20-F2: Start failed against a working implicit-TLS next hop: %v", e["err"])
		}
	}
}
