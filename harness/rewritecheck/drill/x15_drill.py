#!/usr/bin/env python3
"""Mutation drill for X15: realistic breaking edits applied one at a time to a scratch worktree of /repo
(/tmp/x15wt), `go test` of the touched package, then `VERIF_REPO=/tmp/x15wt bin/check X15 --tier quick`.
Usage: x15_drill.py [M1 M2 ...]   (default: all); results -> drill_results.json next to this file.
The worktree is created if missing and left at HEAD; remove it with
`git -C /repo worktree remove --force /tmp/x15wt`."""
import json
import os
import subprocess
import sys
import time

WT = "/tmp/x15wt"
HERE = os.path.dirname(os.path.abspath(__file__))
VERIF = os.path.dirname(os.path.dirname(os.path.dirname(HERE)))
ENV = dict(os.environ, GOFLAGS="-mod=mod", GOPROXY="off", GOSUMDB="off", GOTOOLCHAIN="local")

RA = "internal/modify/replace_addr.go"
GR = "internal/modify/group.go"
CH = "internal/table/chain.go"
SQ = "internal/table/sql_query.go"
ST = "internal/table/sql_table.go"
MP = "internal/msgpipeline/msgpipeline.go"

# id: (file, old, new, package to test, part of the check that must see it, description)
MUT = {
    "M1": (RA, "replacements, err := r.table.LookupMulti(ctx, normAddr)", "replacements, err := r.table.LookupMulti(ctx, val)",
           "./internal/modify/", "rewrite", "the whole address is looked up as typed (not normalised)"),
    "M2": (RA, "\tif r.replaceRcpt {\n\t\treturn r.rewrite(ctx, rcptTo)\n\t}",
           "\tif r.replaceRcpt {\n\t\tfirst, err := r.rewrite(ctx, rcptTo)\n\t\tif err != nil {\n\t\t\treturn first, err\n\t\t}\n"
           "\t\tout := []string{}\n\t\tfor _, a := range first {\n\t\t\tmore, err := r.rewrite(ctx, a)\n\t\t\tif err != nil {\n\t\t\t\treturn more, err\n\t\t\t}\n"
           "\t\t\tout = append(out, more...)\n\t\t}\n\t\treturn out, nil\n\t}",
           "./internal/modify/", "rewrite", "replacements are looked up again (applied recursively)"),
    "M3": (RA, "\treplacements, err = r.table.LookupMulti(ctx, mbox)\n\tif err != nil {\n\t\treturn []string{val}, err\n\t}",
           "\treplacements, err = r.table.LookupMulti(ctx, mbox)\n\tif err != nil {\n\t\treturn []string{val}, nil\n\t}",
           "./internal/modify/", "rewrite", "a failing local-part lookup is ignored: delivered to the unrewritten address"),
    "M4": (GR, "\t\t\tintermediateResult = append(intermediateResult, partResult_multi...)",
           "\t\t\tintermediateResult = partResult_multi", "./internal/modify/", "rewrite",
           "modifier group keeps only the expansion of the last address"),
    "M5": (GR, "\t\tmailFrom, err = state.RewriteSender(ctx, mailFrom)\n\t\tif err != nil {\n\t\t\treturn \"\", err\n\t\t}\n\t}",
           "\t\tmailFrom, err = state.RewriteSender(ctx, mailFrom)\n\t\tif err != nil {\n\t\t\treturn \"\", err\n\t\t}\n\t\tbreak\n\t}",
           "./internal/modify/", "rewrite", "only the first modifier of a group rewrites the sender"),
    "M6": (CH, "\t\t\t\tnewResult = append(newResult, val...)", "\t\t\t\tnewResult = append(val, newResult...)",
           "./internal/table/", "chain", "table.chain prepends the values of later keys (order not preserved)"),
    "M7": (SQ, "\t\tif _, err := s.set.Exec(args...); err != nil {\n\t\t\treturn fmt.Errorf(\"%s: add %s: %w\", s.modName, k, err)\n\t\t}\n\t\treturn nil",
           "\t\treturn fmt.Errorf(\"%s: add %s: %w\", s.modName, k, err)",
           "./internal/table/", "sql", "SetKey does not fall back to the set query: an existing key cannot be changed"),
    "M8": (ST, "lookupQuery = fmt.Sprintf(\"SELECT %s FROM %s WHERE %s = :key\", valueColumn, tableName, keyColumn)",
           "lookupQuery = fmt.Sprintf(\"SELECT %s FROM %s WHERE %s LIKE :key\", valueColumn, tableName, keyColumn)",
           "./internal/table/", "sql", "sql_table looks keys up with LIKE (wildcards and letter case become syntax)"),
    "M9": (SQ, "\tfor rows.Next() {\n\t\tvar key string", "\tif rows.Next() {\n\t\tvar key string",
           "./internal/table/", "sql", "Keys() returns the first key only"),
    "M10": (MP, "\t\ttempTo, err = dd.sourceModifiersState.RewriteRcpt(ctx, to)",
            "\t\ttempTo, err = dd.sourceModifiersState.RewriteRcpt(ctx, originalTo)",
            "./internal/msgpipeline/", "rewrite", "source-scope modifiers see the client's address, not the result of the pipeline-scope modifiers"),
    "M11": (MP, "\tnewSender, err := rcptModifiersState.RewriteSender(ctx, dd.sourceAddr)\n\tif err == nil && newSender != dd.sourceAddr {",
            "\tnewSender, err := rcptModifiersState.RewriteSender(ctx, dd.sourceAddr)\n\tif err == nil && newSender != dd.sourceAddr {\n\t\tdd.sourceAddr = newSender",
            "./internal/msgpipeline/", "rewrite", "a replace_sender in a destination block changes the sender"),
    "M12": (RA, "\t\tfor _, replacement := range replacements {\n\t\t\tif !address.Valid(replacement) {\n\t\t\t\treturn []string{\"\"}, fmt.Errorf(\"refusing to replace recipient with the invalid address %s\", replacement)\n\t\t\t}\n\t\t}\n\t\treturn replacements, nil",
            "\t\treturn replacements, nil", "./internal/modify/", "rewrite",
            "replacements found under the whole address are not validated"),
    "M13": (CH, "\t\t\t\t\tif s.optional[i] {\n\t\t\t\t\t\tcontinue STEP\n\t\t\t\t\t}\n\t\t\t\t\treturn []string{}, nil\n\t\t\t\t}\n\t\t\t\tnewResult = append(newResult, val...)",
            "\t\t\t\t\tcontinue STEP\n\t\t\t\t}\n\t\t\t\tnewResult = append(newResult, val...)",
            "./internal/table/", "chain", "a value missing from a required step is passed on (step treated as optional_step)"),
}


def sh(cmd, **kw):
    return subprocess.run(cmd, stdout=subprocess.PIPE, stderr=subprocess.STDOUT, text=True, env=ENV, **kw)


def main():
    ids = sys.argv[1:] or sorted(MUT, key=lambda x: int(x[1:]))
    full = os.environ.get("X15_DRILL_FULL", "").split(",")
    if not os.path.isdir(WT):
        r = sh(["git", "-C", "/repo", "worktree", "add", "--detach", WT, "HEAD"])
        if r.returncode != 0:
            sys.exit(r.stdout)
    before = set(os.listdir(os.path.join(VERIF, "replays")))
    resf = os.path.join(HERE, "drill_results.json")
    results = json.load(open(resf)) if os.path.exists(resf) else {}
    for mid in ids:
        path, old, new, pkg, part, desc = MUT[mid]
        p = os.path.join(WT, path)
        orig = open(p).read()
        if orig.count(old) != 1:
            print(mid, "edit does not apply (%d matches)" % orig.count(old))
            results[mid] = {"desc": desc, "error": "edit does not apply"}
            continue
        try:
            open(p, "w").write(orig.replace(old, new))
            b = sh(["go", "build", pkg], cwd=WT)
            if b.returncode != 0:
                results[mid] = {"desc": desc, "error": "does not compile: " + b.stdout[-400:]}
                print(mid, "does not compile", b.stdout[-400:])
                continue
            # TestFileReload* of internal/table are timing-flaky under load (X01.md section 6) and can hang for 10 minutes
            t = sh(["go", "test", "-count=1", "-timeout", "300s", "-skip", "TestFileReload", pkg], cwd=WT)
            env = dict(ENV, VERIF_REPO=WT)
            if mid not in full and "all" not in full:
                env["X15_ONLY"] = part
            t0 = time.time()
            c = subprocess.run([os.path.join(VERIF, "bin/check"), "X15", "--tier", "quick"], stdout=subprocess.PIPE,
                               stderr=subprocess.STDOUT, text=True, env=env, cwd=VERIF)
            lines = [l for l in c.stdout.splitlines() if l.startswith("VIOLATION") or l.startswith("INFRA")]
            preds = sorted(set(w.strip(":,") for l in lines for w in l.split("#", 1)[-1].split() if w[:1].isupper() and
                               any(w.strip(":,").startswith(x) for x in ("Invalid", "Full", "Local", "Missing", "Table", "Stack", "Null",
                                   "Malformed", "Sender", "Rcpt", "Envelope", "Chain", "Lookup", "Keys", "Mutation", "Crashed", "Config", "Reopen", "Doc"))))
            verdict = "VIOLATION" if c.returncode == 1 else ("exit %d" % c.returncode)
            results[mid] = {"desc": desc, "file": path, "go_test": "pass" if t.returncode == 0 else "fails",
                            "check": verdict, "exit": c.returncode, "lines": len(lines), "predicates": preds,
                            "scope": "whole check" if "X15_ONLY" not in env else "part " + part, "wall_s": round(time.time() - t0)}
            print(mid, desc, "| go test:", results[mid]["go_test"], "| X15:", verdict, preds, "%ds" % results[mid]["wall_s"], flush=True)
            if c.returncode != 1:
                print(c.stdout[-1500:])
        finally:
            open(p, "w").write(orig)
        json.dump(results, open(resf, "w"), indent=1, sort_keys=True)
    # replays written by drills are artefacts of the scratch tree, not of /repo
    for f in set(os.listdir(os.path.join(VERIF, "replays"))) - before:
        if f.startswith("X15-"):
            os.remove(os.path.join(VERIF, "replays", f))


if __name__ == "__main__":
    main()
