package rewritecheck

// TestRows runs the rows of spec/Rewrite.tla:
//   fam "mod"   one address through a modifier group (`modify { ... }`) built
//               from configuration text by modconfig.GroupFromNode, the way
//               msgpipeline builds its groups;
//   fam "pipe"  an envelope through a real msgpipeline.MsgPipeline built by
//               msgpipeline.New from configuration text with `modify` blocks at
//               pipeline / source / destination scope and recording targets;
//   fam "doc"   a configuration example of the documentation is loaded.
// TestChain runs the rows of spec/TableChain.tla through the real table.chain.
//
// Input (VERIF_IN): {"id":N,"in":{...}}; output: {"t":N,"seq":1,"e":"Row","in":{...},"out":{...}}

import (
	"bufio"
	"context"
	"encoding/json"
	"errors"
	"fmt"
	"io"
	"os"
	"path/filepath"
	"strings"
	"testing"

	"github.com/emersion/go-message/textproto"
	"github.com/emersion/go-smtp"
	"github.com/foxcpp/maddy/framework/buffer"
	parser "github.com/foxcpp/maddy/framework/cfgparser"
	"github.com/foxcpp/maddy/framework/config"
	modconfig "github.com/foxcpp/maddy/framework/config/module"
	"github.com/foxcpp/maddy/framework/log"
	"github.com/foxcpp/maddy/framework/module"
	smtpep "github.com/foxcpp/maddy/internal/endpoint/smtp"
	"github.com/foxcpp/maddy/internal/modify"
	"github.com/foxcpp/maddy/internal/msgpipeline"
	_ "github.com/foxcpp/maddy/internal/table"
	"github.com/foxcpp/maddy/verifharness/vtrace"
)

type Entry struct {
	Key Str   `json:"key"`
	Vs  []Str `json:"vs"`
}

type Tab struct {
	K    string   `json:"k"`
	Impl string   `json:"impl"`
	E    []Entry  `json:"e"`
	Fail []Str    `json:"fail"`
	From string   `json:"from"`
	To   []string `json:"to"`
	Opt  bool     `json:"opt"`
}

type Mod struct {
	M string `json:"m"`
	T Tab    `json:"t"`
}

type RowIn struct {
	Fam   string `json:"fam"`
	Who   string `json:"who"`
	Addr  Str    `json:"addr"`
	Mods  []Mod  `json:"mods"`
	G     []Mod  `json:"g"`
	S     []Mod  `json:"s"`
	D     []Mod  `json:"d"`
	From  Str    `json:"from"`
	Rcpts []Str  `json:"rcpts"`
	Doc   string `json:"doc"`
}

type rowLine struct {
	ID int             `json:"id"`
	In json.RawMessage `json:"in"`
}

func workDir() string {
	if d := os.Getenv("VERIF_TMP"); d != "" {
		return d
	}
	return os.TempDir()
}

// env holds what one row registered / created.
type env struct {
	id      int
	n       int
	closers []io.Closer
	files   []string
	names   []string
}

func (e *env) cleanup() {
	for _, c := range e.closers {
		c.Close()
	}
	for _, f := range e.files {
		os.Remove(f)
	}
}

func (e *env) fresh() string {
	e.n++
	name := fmt.Sprintf("x15r%dt%d", e.id, e.n)
	e.names = append(e.names, name)
	return name
}

func spellAll(vs []Str) []string {
	out := make([]string, len(vs))
	for i, v := range vs {
		out[i] = Spell(v)
	}
	return out
}

func quoteAll(ss []string) string {
	out := make([]string, len(ss))
	for i, s := range ss {
		out[i] = cfgQuote(s)
	}
	return strings.Join(out, " ")
}

// register adds a top-level configuration block to the instance registry the
// way maddy.go does (factory + RegisterInstance with the block's config map);
// GetInstance (called for the first &name reference) runs Init.
func (e *env) register(blockText string) (module.Module, error) {
	nodes, err := parser.Read(strings.NewReader(blockText), "x15-block.conf")
	if err != nil {
		return nil, err
	}
	blk := nodes[0]
	factory := module.Get(blk.Name)
	if factory == nil {
		return nil, fmt.Errorf("no module %s", blk.Name)
	}
	inst, err := factory(blk.Name, blk.Args[0], nil, blk.Args[1:])
	if err != nil {
		return nil, err
	}
	delete(module.Initialized, blk.Args[0])
	module.RegisterInstance(inst, config.NewMap(nil, blk))
	if _, err := module.GetInstance(blk.Args[0]); err != nil {
		return nil, err
	}
	if c, ok := inst.(io.Closer); ok {
		e.closers = append(e.closers, c)
	}
	return inst, nil
}

const sqlAliasBlock = `table.sql_query %s {
    driver sqlite3
    dsn %s
    named_args yes
    init "CREATE TABLE IF NOT EXISTS aliases (address TEXT NOT NULL, alias TEXT NOT NULL)"
    lookup "SELECT alias FROM aliases WHERE address = :key ORDER BY rowid"
    add "INSERT INTO aliases(address, alias) VALUES(:key, :value)"
    list "SELECT DISTINCT address FROM aliases"
    set "UPDATE aliases SET alias = :value WHERE address = :key"
    del "DELETE FROM aliases WHERE address = :key"
}
`

// tableRef renders the table argument(s) of a directive: either an inline
// definition (returned as header + body lines) or a reference to an instance
// registered for this row.
func (e *env) tableRef(t Tab) (head string, body []string, err error) {
	switch {
	case t.K == "map" && t.Impl == "static":
		for _, en := range t.E {
			body = append(body, "entry "+cfgQuote(Spell(en.Key))+" "+quoteAll(spellAll(en.Vs)))
		}
		return "static", body, nil
	case t.K == "map" && t.Impl == "file":
		name := e.fresh()
		path := filepath.Join(workDir(), name+".aliases")
		var sb strings.Builder
		sb.WriteString("# aliases of row " + name + "\n")
		for _, en := range t.E {
			sb.WriteString(Spell(en.Key) + ": " + strings.Join(spellAll(en.Vs), " , ") + "\n")
		}
		if err := os.WriteFile(path, []byte(sb.String()), 0o600); err != nil {
			return "", nil, err
		}
		e.files = append(e.files, path)
		if _, err := e.register(fmt.Sprintf("table.file %s {\n    file %s\n}\n", name, cfgQuote(path))); err != nil {
			return "", nil, err
		}
		return "&" + name, nil, nil
	case t.K == "map" && t.Impl == "sql":
		name := e.fresh()
		path := filepath.Join(workDir(), name+".db")
		e.files = append(e.files, path)
		inst, err := e.register(fmt.Sprintf(sqlAliasBlock, name, cfgQuote(path)))
		if err != nil {
			return "", nil, err
		}
		mt := inst.(module.MutableTable)
		for _, en := range t.E {
			for _, v := range en.Vs {
				if err := mt.SetKey(Spell(en.Key), Spell(v)); err != nil {
					return "", nil, err
				}
			}
		}
		return "&" + name, nil, nil
	case t.K == "map" && t.Impl == "scripted":
		name := e.fresh()
		st := &scriptTable{name: name, m: map[string][]string{}, fail: map[string]bool{}}
		for _, en := range t.E {
			st.m[Spell(en.Key)] = spellAll(en.Vs)
		}
		for _, k := range t.Fail {
			st.fail[Spell(k)] = true
		}
		module.RegisterInstance(st, nil)
		module.Initialized[name] = true
		return "&" + name, nil, nil
	case t.K == "dommap":
		re := "(.+)@" + strings.ReplaceAll(spellD[t.From], ".", "[.]")
		repl := make([]string, len(t.To))
		for i, d := range t.To {
			repl[i] = "$1@" + spellD[d]
		}
		return "regexp " + cfgQuote(re) + " " + quoteAll(repl), nil, nil
	case t.K == "lpdom":
		step := "email_localpart"
		if t.Opt {
			step = "email_localpart_optional"
		}
		doms := make([]string, len(t.To))
		for i, d := range t.To {
			doms[i] = spellD[d]
		}
		return "chain", []string{"step " + step, "step email_with_domain " + strings.Join(doms, " ")}, nil
	case t.K == "const":
		return "regexp " + cfgQuote("(.*)") + " " + cfgQuote(Spell(t.E[0].Vs[0])), nil, nil
	}
	return "", nil, fmt.Errorf("unknown table kind %s/%s", t.K, t.Impl)
}

func (e *env) modifyBlock(ind string, mods []Mod) (string, error) {
	if len(mods) == 0 {
		return "", nil
	}
	var sb strings.Builder
	sb.WriteString(ind + "modify {\n")
	for _, m := range mods {
		head, body, err := e.tableRef(m.T)
		if err != nil {
			return "", err
		}
		if body == nil {
			sb.WriteString(ind + "    " + m.M + " " + head + "\n")
			continue
		}
		sb.WriteString(ind + "    " + m.M + " " + head + " {\n")
		for _, l := range body {
			sb.WriteString(ind + "        " + l + "\n")
		}
		sb.WriteString(ind + "    }\n")
	}
	sb.WriteString(ind + "}\n")
	return sb.String(), nil
}

type modOut struct {
	Res  string   `json:"res"`
	Out  []Str    `json:"out"`
	Raw  []string `json:"raw"`
	Err  string   `json:"err,omitempty"`
	Text string   `json:"text,omitempty"`
}

func loadGroup(text string) (g *modify.Group, err error) {
	defer func() {
		if r := recover(); r != nil {
			g, err = nil, fmt.Errorf("PANIC: %v", r)
		}
	}()
	nodes, err := parser.Read(strings.NewReader(text), "x15.conf")
	if err != nil {
		return nil, err
	}
	// as msgpipeline's parseModifiersGroup does
	var mg *modify.Group
	if err := modconfig.GroupFromNode("modifiers", nodes[0].Args, nodes[0], nil, &mg); err != nil {
		return nil, err
	}
	return mg, nil
}

func runMod(e *env, in RowIn) (out modOut) {
	out.Out, out.Raw = []Str{}, []string{}
	text, err := e.modifyBlock("", in.Mods)
	if err != nil {
		out.Res, out.Err = "harness", err.Error()
		return
	}
	out.Text = text
	g, err := loadGroup(text)
	if err != nil {
		out.Res, out.Err = "loaderr", err.Error()
		if strings.HasPrefix(out.Err, "PANIC") {
			out.Res = "panic"
		}
		return
	}
	defer func() {
		if r := recover(); r != nil {
			out = modOut{Res: "panic", Out: []Str{}, Raw: []string{}, Err: fmt.Sprint(r), Text: text}
		}
	}()
	ctx := context.Background()
	st, err := g.ModStateForMsg(ctx, &module.MsgMetadata{ID: fmt.Sprintf("x15r%d", e.id)})
	if err != nil {
		out.Res, out.Err = "err", err.Error()
		return
	}
	defer st.Close()
	var res []string
	if in.Who == "sender" {
		var v string
		v, err = st.RewriteSender(ctx, Spell(in.Addr))
		res = []string{v}
	} else {
		res, err = st.RewriteRcpt(ctx, Spell(in.Addr))
	}
	if err != nil {
		out.Res, out.Err = "err", err.Error()
		return
	}
	out.Res = "ok"
	for _, v := range res {
		out.Out = append(out.Out, Unspell(v))
		out.Raw = append(out.Raw, v)
	}
	return
}

// ---- pipeline rows ------------------------------------------------------------

type cmdOut struct {
	Res  string  `json:"res"`
	Code int     `json:"code"`
	Tmp  bool    `json:"tmp"`
	Err  string  `json:"err,omitempty"`
	Dl   []dlOut `json:"dl"`
}

type dlOut struct {
	T   string `json:"t"`
	A   Str    `json:"a"`
	Raw string `json:"raw"`
}

type pipeOut struct {
	Load    string   `json:"load"`
	LoadErr string   `json:"loaderr,omitempty"`
	Text    string   `json:"text,omitempty"`
	Mail    cmdOut   `json:"mail"`
	From    Str      `json:"from"`
	FromRaw []string `json:"fromraw"`
	Rc      []cmdOut `json:"rc"`
	Fin     string   `json:"fin"`
}

func classify(id, cmd string, err error) cmdOut {
	if err == nil {
		return cmdOut{Res: "ok", Dl: []dlOut{}}
	}
	o := cmdOut{Res: "err", Err: err.Error(), Dl: []dlOut{}}
	// the reply the SMTP endpoint makes of this error
	w := smtpep.VerifWrapErr(id, false, cmd, err)
	var se *smtp.SMTPError
	if errors.As(w, &se) {
		o.Code = se.Code
		o.Tmp = se.Code/100 == 4
	}
	return o
}

func loadPipe(text string) (p *msgpipeline.MsgPipeline, err error) {
	defer func() {
		if r := recover(); r != nil {
			p, err = nil, fmt.Errorf("PANIC: %v", r)
		}
	}()
	nodes, err := parser.Read(strings.NewReader(text), "x15.conf")
	if err != nil {
		return nil, err
	}
	p, err = msgpipeline.New(nil, nodes)
	if err != nil {
		return nil, err
	}
	p.Log = log.Logger{Out: log.NopOutput{}}
	p.Hostname = "mx.verif.test"
	return p, nil
}

func runPipe(e *env, in RowIn) (out pipeOut) {
	out.Rc, out.FromRaw = []cmdOut{}, []string{}
	out.Mail = cmdOut{Res: "none", Dl: []dlOut{}}
	out.Fin = "none"
	rec := &recorder{cur: -1}
	for _, n := range []string{"T1", "T2"} {
		module.RegisterInstance(&recTarget{name: n, rec: rec}, nil)
		module.Initialized[n] = true
	}
	g, err1 := e.modifyBlock("", in.G)
	s, err2 := e.modifyBlock("    ", in.S)
	d, err3 := e.modifyBlock("        ", in.D)
	for _, err := range []error{err1, err2, err3} {
		if err != nil {
			out.Load, out.LoadErr = "harness", err.Error()
			return
		}
	}
	text := g + "default_source {\n" + s +
		"    destination " + spellD["b"] + " {\n" + d + "        deliver_to &T1\n    }\n" +
		"    default_destination {\n        deliver_to &T2\n    }\n}\n"
	out.Text = text
	p, err := loadPipe(text)
	if err != nil {
		out.Load, out.LoadErr = "loaderr", err.Error()
		if strings.HasPrefix(out.LoadErr, "PANIC") {
			out.Load = "panic"
		}
		return
	}
	out.Load = "ok"
	defer func() {
		if r := recover(); r != nil {
			out.Load, out.LoadErr = "panic", fmt.Sprint(r)
		}
	}()
	ctx := context.Background()
	from := Spell(in.From)
	id := fmt.Sprintf("x15r%d", e.id)
	meta := &module.MsgMetadata{ID: id, OriginalFrom: from, SMTPOpts: smtp.MailOptions{UTF8: true}}
	dl, err := p.Start(ctx, meta, from)
	out.Mail = classify(id, "MAIL", err)
	if err != nil {
		return
	}
	accepted := 0
	for i, r := range in.Rcpts {
		rec.mu.Lock()
		rec.cur = i
		rec.mu.Unlock()
		err := dl.AddRcpt(ctx, Spell(r), smtp.RcptOptions{})
		out.Rc = append(out.Rc, classify(id, "RCPT", err))
		if err == nil {
			accepted++
		}
	}
	rec.mu.Lock()
	rec.cur = -1
	rec.mu.Unlock()
	if accepted > 0 {
		hdr := textproto.Header{}
		hdr.Add("Subject", "verif")
		out.Fin = "commit"
		if err := dl.Body(ctx, hdr, buffer.MemoryBuffer{Slice: []byte("hello\r\n")}); err != nil {
			out.Fin = "body-failed: " + err.Error()
			dl.Abort(ctx)
		} else if err := dl.Commit(ctx); err != nil {
			out.Fin = "commit-failed: " + err.Error()
		}
	} else {
		out.Fin = "abort"
		dl.Abort(ctx)
	}
	rec.mu.Lock()
	defer rec.mu.Unlock()
	for _, c := range rec.calls {
		if c.byRcpt >= 0 && c.byRcpt < len(out.Rc) {
			out.Rc[c.byRcpt].Dl = append(out.Rc[c.byRcpt].Dl, dlOut{T: c.target, A: Unspell(c.to), Raw: c.to})
		}
	}
	out.FromRaw = append(out.FromRaw, rec.froms...)
	out.From = Str{"", ""}
	for i, f := range rec.froms {
		u := Unspell(f)
		if i > 0 && u != out.From {
			u = Str{"?", "?"}
		}
		out.From = u
	}
	return
}

// ---- documentation examples -----------------------------------------------------

// docBlock returns the fenced code block of a documentation file (of the
// repository under test: $VERIF_DOCS_REPO) that contains marker.
func docBlock(file, marker string) (string, error) {
	root := os.Getenv("VERIF_DOCS_REPO")
	if root == "" {
		root = "/repo"
	}
	raw, err := os.ReadFile(filepath.Join(root, file))
	if err != nil {
		return "", err
	}
	parts := strings.Split(string(raw), "```")
	for i := 1; i < len(parts); i += 2 {
		if strings.Contains(parts[i], marker) {
			return strings.TrimPrefix(parts[i], "\n"), nil
		}
	}
	return "", fmt.Errorf("%s has no example containing %q", file, marker)
}

// docText: the documentation's own examples, read from the documentation.
func docText(doc string) (kind, text string, err error) {
	aliases := filepath.Join(workDir(), "x15-doc-aliases")
	os.WriteFile(aliases, []byte("cat: dog\n"), 0o600)
	switch doc {
	case "envelope":
		kind = "modify"
		text, err = docBlock("docs/reference/modifiers/envelope.md", "replace_rcpt static")
	case "chain-strip":
		kind = "table"
		text, err = docBlock("docs/reference/table/chain.md", "step file /etc/maddy/emails")
	case "chain-aliases":
		kind = "table"
		text, err = docBlock("docs/reference/table/chain.md", "optional_step file")
	case "ewd-chain":
		kind = "modify"
		text, err = docBlock("docs/reference/table/email_with_domain.md", "replace_rcpt chain")
	case "localpart":
		kind = "table"
		text, err = docBlock("docs/reference/table/email_localpart.md", "table.email_localpart")
	default:
		err = fmt.Errorf("unknown documentation example %q", doc)
	}
	text = strings.ReplaceAll(text, "/etc/maddy/aliases", aliases)
	text = strings.ReplaceAll(text, "/etc/maddy/emails", aliases)
	return
}

func runDoc(in RowIn) (out map[string]interface{}) {
	kind, text, derr := docText(in.Doc)
	out = map[string]interface{}{"res": "ok", "text": text}
	if derr != nil {
		out["res"], out["err"] = "harness", derr.Error()
		return
	}
	defer func() {
		if r := recover(); r != nil {
			out["res"], out["err"] = "panic", fmt.Sprint(r)
		}
	}()
	var err error
	switch kind {
	case "modify":
		_, err = loadGroup(text)
	case "table":
		var nodes []config.Node
		nodes, err = parser.Read(strings.NewReader(text), "x15-doc.conf")
		if err == nil && len(nodes) != 1 {
			err = fmt.Errorf("the example parses into %d blocks", len(nodes))
		}
		if err == nil {
			var tbl module.Table
			// a top-level `table.chain { }` block: module name in the directive name
			err = modconfig.ModuleFromNode("table", append([]string{nodes[0].Name}, nodes[0].Args...), nodes[0], nil, &tbl)
		}
	}
	if err != nil {
		if out["res"] == "ok" {
			out["res"] = "loaderr"
		}
		out["err"] = err.Error()
	}
	return
}

// ---- chain rows -------------------------------------------------------------------

type ChEntry struct {
	K  string   `json:"k"`
	Vs []string `json:"vs"`
}

type ChTab struct {
	Impl string    `json:"impl"`
	E    []ChEntry `json:"e"`
	Fail []string  `json:"fail"`
}

type ChStep struct {
	Opt bool  `json:"opt"`
	T   ChTab `json:"t"`
}

type ChainIn struct {
	Steps []ChStep `json:"steps"`
	Key   string   `json:"key"`
}

type chainOut struct {
	Res  string   `json:"res"`
	Vs   []string `json:"vs"`
	Val  string   `json:"val"`
	Ok   bool     `json:"ok"`
	Err  string   `json:"err,omitempty"`
	Text string   `json:"text,omitempty"`
}

func runChain(e *env, in ChainIn) (out chainOut) {
	out.Vs = []string{}
	var sb strings.Builder
	sb.WriteString("x15 chain {\n")
	for _, st := range in.Steps {
		dir := "step"
		if st.Opt {
			dir = "optional_step"
		}
		switch st.T.Impl {
		case "static":
			sb.WriteString("    " + dir + " static {\n")
			for _, en := range st.T.E {
				sb.WriteString("        entry " + cfgQuote(en.K) + " " + quoteAll(en.Vs) + "\n")
			}
			sb.WriteString("    }\n")
		case "identity":
			sb.WriteString("    " + dir + " identity\n")
		case "multi", "single":
			name := e.fresh()
			t := &scriptTable{name: name, m: map[string][]string{}, fail: map[string]bool{}}
			for _, en := range st.T.E {
				t.m[en.K] = en.Vs
			}
			for _, k := range st.T.Fail {
				t.fail[k] = true
			}
			if st.T.Impl == "multi" {
				module.RegisterInstance(t, nil)
			} else {
				module.RegisterInstance(singleOnly{t}, nil)
			}
			module.Initialized[name] = true
			sb.WriteString("    " + dir + " &" + name + "\n")
		default:
			out.Res, out.Err = "harness", "unknown table "+st.T.Impl
			return
		}
	}
	sb.WriteString("}\n")
	out.Text = sb.String()
	defer func() {
		if r := recover(); r != nil {
			out = chainOut{Res: "panic", Vs: []string{}, Err: fmt.Sprint(r), Text: sb.String()}
		}
	}()
	nodes, err := parser.Read(strings.NewReader(out.Text), "x15-chain.conf")
	if err != nil {
		out.Res, out.Err = "loaderr", err.Error()
		return
	}
	var tbl module.Table
	if err := modconfig.ModuleFromNode("table", nodes[0].Args, nodes[0], nil, &tbl); err != nil {
		out.Res, out.Err = "loaderr", err.Error()
		return
	}
	mt, ok := tbl.(module.MultiTable)
	if !ok {
		out.Res, out.Err = "loaderr", "table.chain is not a MultiTable"
		return
	}
	ctx := context.Background()
	vs, err := mt.LookupMulti(ctx, in.Key)
	switch {
	case err != nil:
		out.Res, out.Err = "err", err.Error()
	case len(vs) == 0:
		out.Res = "notfound"
	default:
		out.Res = "ok"
		out.Vs = vs
	}
	v, found, lerr := tbl.Lookup(ctx, in.Key)
	if lerr == nil {
		out.Val, out.Ok = v, found
	}
	if (lerr != nil) != (err != nil) {
		out.Err += fmt.Sprintf(" [Lookup err=%v, LookupMulti err=%v]", lerr, err)
		out.Res = "ok" // reported through LookupDisagreesWithMulti
		out.Ok = !out.Ok
	}
	return
}

// ---- drivers ------------------------------------------------------------------------

func forEachLine(t *testing.T, f func(id int, raw json.RawMessage, tr *vtrace.Tracer)) {
	in, outp := os.Getenv("VERIF_IN"), os.Getenv("VERIF_OUT")
	if in == "" || outp == "" {
		t.Skip("VERIF_IN / VERIF_OUT not set")
	}
	fi, err := os.Open(in)
	if err != nil {
		t.Fatal(err)
	}
	defer fi.Close()
	of, err := os.Create(outp)
	if err != nil {
		t.Fatal(err)
	}
	defer of.Close()
	w := bufio.NewWriter(of)
	defer w.Flush()
	sc := bufio.NewScanner(fi)
	sc.Buffer(make([]byte, 1<<20), 1<<26)
	n := 0
	for sc.Scan() {
		var l rowLine
		if err := json.Unmarshal(sc.Bytes(), &l); err != nil {
			t.Fatalf("bad row: %v", err)
		}
		f(l.ID, l.In, vtrace.New(w, l.ID))
		n++
	}
	t.Logf("replayed %d rows", n)
}

func TestRows(t *testing.T) {
	forEachLine(t, func(id int, raw json.RawMessage, tr *vtrace.Tracer) {
		var in RowIn
		if err := json.Unmarshal(raw, &in); err != nil {
			t.Fatalf("bad row %d: %v", id, err)
		}
		e := &env{id: id}
		var out interface{}
		switch in.Fam {
		case "mod":
			o := runMod(e, in)
			if o.Res == "harness" {
				t.Fatalf("row %d: %s", id, o.Err)
			}
			out = o
		case "pipe":
			o := runPipe(e, in)
			if o.Load == "harness" {
				t.Fatalf("row %d: %s", id, o.LoadErr)
			}
			out = o
		case "doc":
			o := runDoc(in)
			if o["res"] == "harness" {
				t.Fatalf("row %d: %v", id, o["err"])
			}
			out = o
		default:
			t.Fatalf("row %d: unknown family %q", id, in.Fam)
		}
		e.cleanup()
		tr.Emit("Row", vtrace.Ev{"in": raw, "out": out})
	})
}

func TestChain(t *testing.T) {
	forEachLine(t, func(id int, raw json.RawMessage, tr *vtrace.Tracer) {
		var in ChainIn
		if err := json.Unmarshal(raw, &in); err != nil {
			t.Fatalf("bad row %d: %v", id, err)
		}
		e := &env{id: id}
		o := runChain(e, in)
		if o.Res == "harness" {
			t.Fatalf("row %d: %s", id, o.Err)
		}
		e.cleanup()
		tr.Emit("Row", vtrace.Ev{"in": raw, "out": o})
	})
}
