package rewritecheck

import (
	"context"
	"errors"
	"sync"

	"github.com/emersion/go-message/textproto"
	"github.com/emersion/go-smtp"
	"github.com/foxcpp/maddy/framework/buffer"
	"github.com/foxcpp/maddy/framework/config"
	"github.com/foxcpp/maddy/framework/module"
)

var errScripted = errors.New("verif: scripted table lookup failure")

// scriptTable is a table instance whose lookups fail for chosen keys and
// otherwise answer from a fixed map.  With multi == false it is wrapped in
// singleOnly so that it does not implement module.MultiTable.
type scriptTable struct {
	name string
	m    map[string][]string
	fail map[string]bool
}

func (t *scriptTable) Init(*config.Map) error { return nil }
func (t *scriptTable) Name() string           { return "verif_table" }
func (t *scriptTable) InstanceName() string   { return t.name }

func (t *scriptTable) Lookup(ctx context.Context, key string) (string, bool, error) {
	if t.fail[key] {
		return "", false, errScripted
	}
	v := t.m[key]
	if len(v) == 0 {
		return "", false, nil
	}
	return v[0], true, nil
}

func (t *scriptTable) LookupMulti(ctx context.Context, key string) ([]string, error) {
	if t.fail[key] {
		return nil, errScripted
	}
	return t.m[key], nil
}

// singleOnly hides LookupMulti.
type singleOnly struct{ t *scriptTable }

func (s singleOnly) Init(*config.Map) error { return nil }
func (s singleOnly) Name() string           { return "verif_table1" }
func (s singleOnly) InstanceName() string   { return s.t.name }
func (s singleOnly) Lookup(ctx context.Context, key string) (string, bool, error) {
	return s.t.Lookup(ctx, key)
}

// ---- recording delivery targets T1 / T2 ---------------------------------------

type recorder struct {
	mu    sync.Mutex
	cur   int
	calls []recCall
	froms []string
}

type recCall struct {
	target string
	to     string
	byRcpt int
}

type recTarget struct {
	name string
	rec  *recorder
}

func (t *recTarget) Init(*config.Map) error { return nil }
func (t *recTarget) Name() string           { return "verif_rec" }
func (t *recTarget) InstanceName() string   { return t.name }

func (t *recTarget) Start(ctx context.Context, msgMeta *module.MsgMetadata, mailFrom string) (module.Delivery, error) {
	t.rec.mu.Lock()
	defer t.rec.mu.Unlock()
	t.rec.froms = append(t.rec.froms, mailFrom)
	return &recDelivery{t: t}, nil
}

type recDelivery struct{ t *recTarget }

func (d *recDelivery) AddRcpt(ctx context.Context, to string, _ smtp.RcptOptions) error {
	r := d.t.rec
	r.mu.Lock()
	defer r.mu.Unlock()
	r.calls = append(r.calls, recCall{target: d.t.name, to: to, byRcpt: r.cur})
	return nil
}

func (d *recDelivery) Body(ctx context.Context, h textproto.Header, b buffer.Buffer) error { return nil }
func (d *recDelivery) Commit(ctx context.Context) error                                   { return nil }
func (d *recDelivery) Abort(ctx context.Context) error                                    { return nil }
