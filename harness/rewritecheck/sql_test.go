package rewritecheck

// TestReplay runs behaviours of spec/SqlTable.tla - histories of SetKey /
// RemoveKey / Lookup / LookupMulti / Keys / close-and-reopen - on the real
// table.sql_table / table.sql_query over a sqlite3 database file, each built
// from a configuration block by the module's registered factory + Init, and
// records every call with its result.
//
// Input (VERIF_IN): {"id":N,"cfg":"T|TC|QN|QD|QP","pal":"<palette>","hist":[{"a":"Set","k":"s1","v":"s2"},...]}
// Output events: Cfg, one per call (e = Set | Remove | Lookup | LookupMulti | Keys | Reopen), End.

import (
	"bufio"
	"context"
	"encoding/json"
	"fmt"
	"io"
	"os"
	"path/filepath"
	"sort"
	"strings"
	"testing"

	parser "github.com/foxcpp/maddy/framework/cfgparser"
	"github.com/foxcpp/maddy/framework/config"
	"github.com/foxcpp/maddy/framework/module"
	"github.com/foxcpp/maddy/verifharness/vtrace"
)

type sqlOp struct {
	A string `json:"a"`
	K string `json:"k"`
	V string `json:"v"`
}

type sqlBeh struct {
	ID   int     `json:"id"`
	Cfg  string  `json:"cfg"`
	Pal  string  `json:"pal"`
	Hist []sqlOp `json:"hist"`
}

// the queries of docs/reference/table/sql_query.md ("'add' query gets :key, :value named arguments ...")
const sqlQueryBlock = `table.sql_query x15 {
    driver sqlite3
    dsn %s
%s    init "CREATE TABLE IF NOT EXISTS t (key TEXT PRIMARY KEY NOT NULL, value TEXT NOT NULL)"
    lookup "SELECT value FROM t WHERE key = %s"
    add "INSERT INTO t(key, value) VALUES(%s, %s)"
    list "SELECT key FROM t"
    set "UPDATE t SET value = %s WHERE key = %s"
    del "DELETE FROM t WHERE key = %s"
}
`

func sqlBlock(cfg, db string) (string, error) {
	q := cfgQuote(db)
	switch cfg {
	case "T":
		return "table.sql_table x15 {\n    driver sqlite3\n    dsn " + q + "\n    table_name creds\n}\n", nil
	case "TC":
		return "table.sql_table x15 {\n    driver sqlite3\n    dsn " + q +
			"\n    table_name aliases_2\n    key_column address\n    value_column target\n}\n", nil
	case "QN":
		return fmt.Sprintf(sqlQueryBlock, q, "    named_args yes\n", ":key", ":key", ":value", ":value", ":key", ":key"), nil
	case "QD": // no named_args line: the documented default is yes
		return fmt.Sprintf(sqlQueryBlock, q, "", ":key", ":key", ":value", ":value", ":key", ":key"), nil
	case "QP":
		return fmt.Sprintf(sqlQueryBlock, q, "    named_args no\n", "?1", "?1", "?2", "?2", "?1", "?1"), nil
	}
	return "", fmt.Errorf("unknown configuration %q", cfg)
}

// openSQL builds the module the way a top-level block is: registered factory, then Init with the block.
func openSQL(cfg, db string) (module.MutableTable, error) {
	text, err := sqlBlock(cfg, db)
	if err != nil {
		return nil, err
	}
	nodes, err := parser.Read(strings.NewReader(text), "x15-sql.conf")
	if err != nil {
		return nil, err
	}
	blk := nodes[0]
	factory := module.Get(blk.Name)
	if factory == nil {
		return nil, fmt.Errorf("no module %s", blk.Name)
	}
	inst, err := factory(blk.Name, blk.Args[0], nil, blk.Args[1:])
	if err != nil {
		return nil, err
	}
	if err := inst.Init(config.NewMap(nil, blk)); err != nil {
		return nil, err
	}
	mt, ok := inst.(module.MutableTable)
	if !ok {
		return nil, fmt.Errorf("%s is not a module.MutableTable", blk.Name)
	}
	return mt, nil
}

func resOf(err error) string {
	if err != nil {
		return "err"
	}
	return "ok"
}

func errText(err error) string {
	if err == nil {
		return ""
	}
	s := err.Error()
	if len(s) > 300 {
		s = s[:300]
	}
	return s
}

func runSQL(b sqlBeh, w *bufio.Writer, t *testing.T) {
	tr := vtrace.New(w, b.ID)
	dir := filepath.Join(workDir(), fmt.Sprintf("x15sql%d", b.ID))
	if err := os.MkdirAll(dir, 0o700); err != nil {
		t.Fatal(err)
	}
	defer os.RemoveAll(dir)
	db := filepath.Join(dir, "table.db")
	tr.Emit("Cfg", vtrace.Ev{"cfg": b.Cfg, "pal": b.Pal})
	tbl, err := openSQL(b.Cfg, db)
	if err != nil {
		t.Fatalf("behaviour %d: cannot open the table (%s): %v", b.ID, b.Cfg, err)
	}
	defer func() {
		if c, ok := tbl.(io.Closer); ok && tbl != nil {
			c.Close()
		}
	}()
	ctx := context.Background()
	call := func(op sqlOp) {
		ev := vtrace.Ev{}
		name := op.A
		func() {
			defer func() {
				if r := recover(); r != nil {
					ev["res"], ev["err"] = "panic", fmt.Sprint(r)
				}
			}()
			switch op.A {
			case "Set":
				ev["k"], ev["v"] = op.K, op.V
				err := tbl.SetKey(palSpell(b.Pal, op.K), palSpell(b.Pal, op.V))
				ev["res"], ev["err"] = resOf(err), errText(err)
			case "Remove":
				ev["k"] = op.K
				err := tbl.RemoveKey(palSpell(b.Pal, op.K))
				ev["res"], ev["err"] = resOf(err), errText(err)
			case "Lookup":
				ev["k"] = op.K
				v, ok, err := tbl.Lookup(ctx, palSpell(b.Pal, op.K))
				ev["res"], ev["err"], ev["ok"], ev["val"] = resOf(err), errText(err), ok && err == nil, ""
				if ok && err == nil {
					ev["val"] = palUnspell(b.Pal, v)
				}
			case "LookupMulti":
				ev["k"] = op.K
				vs, err := tbl.(module.MultiTable).LookupMulti(ctx, palSpell(b.Pal, op.K))
				toks := []string{}
				for _, v := range vs {
					toks = append(toks, palUnspell(b.Pal, v))
				}
				ev["res"], ev["err"], ev["vs"] = resOf(err), errText(err), toks
			case "Keys":
				ks, err := tbl.Keys()
				toks := []string{}
				for _, k := range ks {
					toks = append(toks, palUnspell(b.Pal, k))
				}
				sort.Strings(toks)
				ev["res"], ev["err"], ev["ks"] = resOf(err), errText(err), toks
			case "Reopen":
				var err error
				if c, ok := tbl.(io.Closer); ok {
					err = c.Close()
				}
				if err == nil {
					var nt module.MutableTable
					nt, err = openSQL(b.Cfg, db)
					if err == nil {
						tbl = nt
					}
				}
				ev["res"], ev["err"] = resOf(err), errText(err)
			default:
				t.Fatalf("behaviour %d: unknown call %q", b.ID, op.A)
			}
		}()
		if ev["err"] == "" {
			delete(ev, "err")
		}
		tr.Emit(name, ev)
	}
	for _, op := range b.Hist {
		call(op)
	}
	// a complete probe of the table at the end of every behaviour
	call(sqlOp{A: "Keys"})
	for _, k := range []string{"s1", "s2", "s3"} {
		call(sqlOp{A: "Lookup", K: k})
		call(sqlOp{A: "LookupMulti", K: k})
	}
	tr.Emit("End", nil)
}

func TestReplay(t *testing.T) {
	in, outp := os.Getenv("VERIF_IN"), os.Getenv("VERIF_OUT")
	if in == "" || outp == "" {
		t.Skip("VERIF_IN / VERIF_OUT not set")
	}
	fi, err := os.Open(in)
	if err != nil {
		t.Fatal(err)
	}
	defer fi.Close()
	of, err := os.Create(outp)
	if err != nil {
		t.Fatal(err)
	}
	defer of.Close()
	w := bufio.NewWriter(of)
	defer w.Flush()
	sc := bufio.NewScanner(fi)
	sc.Buffer(make([]byte, 1<<20), 1<<26)
	n := 0
	for sc.Scan() {
		var b sqlBeh
		if err := json.Unmarshal(sc.Bytes(), &b); err != nil {
			t.Fatalf("bad behaviour: %v", err)
		}
		runSQL(b, w, t)
		n++
	}
	t.Logf("replayed %d behaviours", n)
}
