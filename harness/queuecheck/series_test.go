package queuecheck

import (
	"bufio"
	"context"
	"encoding/json"
	"net"
	"os"
	"strings"
	"sync"
	"testing"
	"testing/synctest"
	"time"

	"github.com/emersion/go-message/textproto"
	"github.com/emersion/go-smtp"
	"github.com/foxcpp/go-mockdns"
	"github.com/foxcpp/maddy/framework/buffer"
	"github.com/foxcpp/maddy/framework/log"
	"github.com/foxcpp/maddy/framework/module"
	"github.com/foxcpp/maddy/internal/smtpconn/pool"
	"github.com/foxcpp/maddy/internal/target/queue"
	"github.com/foxcpp/maddy/internal/target/remote"
	"github.com/foxcpp/maddy/verifharness/scripted"
	"github.com/foxcpp/maddy/verifharness/vtrace"
)

// C01 variant (c): a SERIES of messages through ONE queue on ONE spool directory over ONE downstream
// that keeps state between messages.  Every member of a series is a complete behaviour of Queue.tla
// (printed by TLC); the members are addressed to the SAME mailboxes and have different per-recipient
// outcomes.  Each message is recorded as its own trace and validated by TLC against QueueTrace.tla
// exactly like a single message: in the design the messages of a queue are independent instances of
// the per-message state machine (Queue.tla has no variable shared between messages), so the history
// shape "k messages, one downstream" is a harness-side composition - what it adds is that nothing a
// message left behind in the queue or in the downstream may change the outcome of the next one.
//
//	fwd "remote"    the real remote-MX target with its connection pool (conn_reuse_limit as in the default
//	                configuration) against one scripted next hop; the messages follow each other (the next one is
//	                accepted when the spool entry of the previous one is gone), so a connection an earlier message
//	                returned to the pool serves the later ones.  Per-recipient plans whose MAIL succeeds.
//	fwd "scripted"  scripted target and bounce target in a synctest bubble; ALL messages are accepted before the
//	                first attempt runs, their attempts and retries interleave on the fake clock (max_parallelism 1).
//	                Target calls are attributed by the message ID the queue passes, reports by the attempt running.
type SeriesCfg struct {
	Fwd    string `json:"fwd"`
	Bounce bool   `json:"bounce"`
	Mt     int    `json:"mt"`
	Idn    bool   `json:"idn"`   // IDN recipients; remote: the hop then does not advertise SMTPUTF8 (addresses converted for the wire)
	Enh    *bool  `json:"enh"`   // false: no enhanced status codes (remote: hop without ENHANCEDSTATUSCODES)
	Temp   string `json:"temp"`  // "421": temporary failures carry 421
	Reuse  int    `json:"reuse"` // remote: conn_reuse_limit (0 = 10, the default of the configuration)
	// Restart (scripted): the queue is stopped cleanly and a new one started on the same spool after the
	// first round of attempts
	Restart bool `json:"restart"`
}

type Series struct {
	ID      int         `json:"id"`
	Cfg     SeriesCfg   `json:"cfg"`
	Members []Behaviour `json:"members"`
}

// bounceMux hands every report to the bounce target of the message whose attempt is running.
type bounceMux struct {
	mu  sync.Mutex
	cur *scripted.Bounce
}

func (m *bounceMux) set(b *scripted.Bounce) { m.mu.Lock(); m.cur = b; m.mu.Unlock() }
func (m *bounceMux) Start(ctx context.Context, meta *module.MsgMetadata, from string) (module.Delivery, error) {
	m.mu.Lock()
	b := m.cur
	m.mu.Unlock()
	return b.Start(ctx, meta, from)
}

// targetMux dispatches Start to the scripted target of the message (the queue passes "<id>-<time>" as ID).
type targetMux struct {
	mu   sync.Mutex
	tgts map[string]*scripted.Target
	bn   map[string]*scripted.Bounce
	bm   *bounceMux
}

func (m *targetMux) Start(ctx context.Context, meta *module.MsgMetadata, from string) (module.Delivery, error) {
	key := meta.ID
	if i := strings.LastIndexByte(key, '-'); i >= 0 {
		key = key[:i]
	}
	m.mu.Lock()
	t := m.tgts[key]
	if b := m.bn[key]; b != nil && m.bm != nil {
		m.bm.set(b)
	}
	m.mu.Unlock()
	if t == nil {
		return nil, scripted.ErrFor("perm", "unknown message "+meta.ID)
	}
	return t.Start(ctx, meta, from)
}

func msgFiles(dir, id string) []string {
	var out []string
	for _, f := range spoolFiles(dir) {
		if strings.HasPrefix(f, id+".") {
			out = append(out, f)
		}
	}
	return out
}

func submit(t *testing.T, q module.DeliveryTarget, b Behaviour, tr *vtrace.Tracer, from string) module.Delivery {
	ctx := context.Background()
	meta := &module.MsgMetadata{ID: "msg" + itoa(b.ID), OriginalFrom: from, SMTPOpts: smtp.MailOptions{UTF8: b.Cfg.Utf8}}
	d, err := q.Start(ctx, meta, from)
	if err != nil {
		t.Fatal(err)
	}
	seen := map[string]bool{}
	distinct := []string{}
	for _, r := range b.Cfg.List {
		if err := d.AddRcpt(ctx, addr(r), smtp.RcptOptions{}); err != nil {
			t.Fatal(err)
		}
		if !seen[r] {
			seen[r] = true
			distinct = append(distinct, r)
		}
	}
	hdr := textproto.Header{}
	hdr.Add("Subject", "verif-subject-"+itoa(b.ID))
	hdr.Add("From", "<sender@example.com>")
	if err := d.Body(ctx, hdr, buffer.MemoryBuffer{Slice: []byte("hello\r\n.dot\r\n")}); err != nil {
		t.Fatal(err)
	}
	tr.Emit("QAccept", vtrace.Ev{"rcpts": distinct})
	return d
}

func seriesCfgEv(s Series, b Behaviour, k int) vtrace.Ev {
	enh := s.Cfg.Enh == nil || *s.Cfg.Enh
	return vtrace.Ev{"partial": b.Cfg.Partial, "bounce": s.Cfg.Bounce, "nullSender": b.Cfg.NullSender,
		"mt": s.Cfg.Mt, "list": b.Cfg.List, "rw": []string{}, "utf8": b.Cfg.Utf8, "chain": false,
		"idn": s.Cfg.Idn, "errtext": "", "enh": enh, "series": s.ID, "pos": k, "fwd": s.Cfg.Fwd,
		"reuse": s.Cfg.Reuse, "restart": s.Cfg.Restart}
}

func senderFor(b Behaviour) string {
	if b.Cfg.NullSender {
		return ""
	}
	return "sender@example.com"
}

func runSeriesRemote(t *testing.T, s Series, w *bufio.Writer) {
	dir, err := os.MkdirTemp(workDir(), "spool")
	if err != nil {
		t.Fatal(err)
	}
	defer os.RemoveAll(dir)
	useIdn = s.Cfg.Idn
	hopTempCode = "451"
	if s.Cfg.Temp == "421" {
		hopTempCode = "421"
	}
	hopNoEnh = s.Cfg.Enh != nil && !*s.Cfg.Enh
	defer func() { useIdn = false; hopTempCode = "451"; hopNoEnh = false }()
	// one next hop per process and SMTPUTF8 setting (listening sockets are a shared resource of the machine)
	h := seriesHop(t, !s.Cfg.Idn)
	h.mu.Lock()
	h.na = true
	h.mu.Unlock()
	dialFailed := false
	mxHost := "hop.example.org."
	reuse := s.Cfg.Reuse
	if reuse == 0 {
		reuse = 10
	}
	rt := remote.VerifRemoteNewTarget(remote.VerifRemoteConfig{
		Hostname: "mx.example.org",
		Resolver: &mockdns.Resolver{Zones: map[string]mockdns.Zone{
			"example.org.":          {MX: []net.MX{{Host: mxHost, Pref: 10}}},
			"xn--e1afmkfd.example.": {MX: []net.MX{{Host: mxHost, Pref: 10}}},
			"пример.example.":       {MX: []net.MX{{Host: mxHost, Pref: 10}}},
			mxHost:                  {A: []string{"127.0.0.1"}},
		}},
		Dialer: func(ctx context.Context, network, _ string) (net.Conn, error) {
			// the loopback connection itself is not part of the plan: a dial that fails because the machine ran out
			// of ephemeral ports is retried, and if it keeps failing the series is not decided (Stuck -> exit 2)
			var d net.Dialer
			var c net.Conn
			var err error
			for i := 0; i < 100; i++ {
				if c, err = d.DialContext(ctx, "tcp4", h.l.Addr().String()); err == nil {
					return c, nil
				}
				time.Sleep(20 * time.Millisecond)
			}
			dialFailed = true
			return nil, err
		},
		Pool:           pool.Config{MaxKeys: 100, MaxConnsPerKey: 5, MaxConnLifetimeSec: 150, StaleKeyLifetimeSec: 300},
		ConnReuseLimit: reuse, ConnectTimeout: 30 * time.Second, CommandTimeout: 30 * time.Second,
		SubmissionTimeout: 30 * time.Second, Log: log.Logger{Out: log.NopOutput{}},
	})
	defer rt.Close()
	bm := &bounceMux{}
	var bounce module.DeliveryTarget
	if s.Cfg.Bounce {
		bounce = bm
	}
	qlog := log.Logger{Out: log.NopOutput{}}
	if os.Getenv("VERIF_DEBUG") != "" {
		qlog = log.Logger{Out: log.WriterOutput(os.Stderr, false), Debug: true, Name: "queue"}
	}
	q, err := queue.VerifNewQueue(queue.VerifConfig{
		Location: dir, Target: rt, Bounce: bounce, MaxTries: s.Cfg.Mt, MaxParallelism: 1,
		InitialRetryTime: time.Millisecond, RetryTimeScale: 1, PostInitDelay: 0,
		Hostname: "mx.example.org", AutogenMsgDomain: "example.org", Log: qlog,
	})
	if err != nil {
		t.Fatal(err)
	}
	defer q.Close()
	for k, b := range s.Members {
		tr := vtrace.New(w, b.ID)
		tr.Emit("Cfg", seriesCfgEv(s, b, k))
		h.set(tr, PlanOf(b.Hist), idOf)
		from := senderFor(b)
		bm.set(&scripted.Bounce{Tr: tr, ID: reportID, Sender: from, OrigSubject: "verif-subject-" + itoa(b.ID)})
		d := submit(t, q, b, tr, from)
		if err := d.Commit(context.Background()); err != nil {
			t.Fatal(err)
		}
		id := "msg" + itoa(b.ID)
		deadline := time.Now().Add(40 * time.Second)
		broken := func() bool {
			for _, f := range msgFiles(dir, id) {
				if strings.HasSuffix(f, ".meta_broken") {
					return true
				}
			}
			return false
		}
		for len(msgFiles(dir, id)) != 0 && !broken() && time.Now().Before(deadline) {
			time.Sleep(time.Millisecond)
		}
		files := msgFiles(dir, id)
		if dialFailed {
			tr.Emit("Stuck", vtrace.Ev{"files": []string{"(the harness could not connect to its own next hop)"}})
			return
		}
		if len(files) != 0 && !broken() {
			tr.Emit("Stuck", vtrace.Ev{"files": append([]string{}, files...)})
			return
		}
		tr.Emit("Quiesced", vtrace.Ev{"spoolEmpty": len(files) == 0, "files": append([]string{}, files...)})
	}
}

var (
	seriesHopMu sync.Mutex
	seriesHops  = map[bool]*hop{}
)

func seriesHop(t *testing.T, utf8 bool) *hop {
	seriesHopMu.Lock()
	defer seriesHopMu.Unlock()
	if h := seriesHops[utf8]; h != nil {
		return h
	}
	var h *hop
	var err error
	for i := 0; i < 100; i++ {
		if h, err = newHop(false, utf8); err == nil {
			seriesHops[utf8] = h
			return h
		}
		time.Sleep(50 * time.Millisecond)
	}
	t.Fatal(err)
	return nil
}

func runSeriesScripted(t *testing.T, s Series, w *bufio.Writer) {
	dir, err := os.MkdirTemp(workDir(), "spool")
	if err != nil {
		t.Fatal(err)
	}
	defer os.RemoveAll(dir)
	useIdn = s.Cfg.Idn
	scripted.ErrShape = ""
	if s.Cfg.Temp == "421" {
		scripted.ErrShape = "421"
	}
	if s.Cfg.Enh != nil && !*s.Cfg.Enh {
		scripted.ErrShape = "noenh"
	}
	defer func() { useIdn = false; scripted.ErrShape = "" }()
	synctest.Test(t, func(t *testing.T) {
		bm := &bounceMux{}
		mux := &targetMux{tgts: map[string]*scripted.Target{}, bn: map[string]*scripted.Bounce{}}
		var bounce module.DeliveryTarget
		if s.Cfg.Bounce {
			bounce = bm
			mux.bm = bm
		}
		mk := func() *queue.Queue {
			q, err := queue.VerifNewQueue(queue.VerifConfig{
				Location: dir, Target: mux, Bounce: bounce, MaxTries: s.Cfg.Mt, MaxParallelism: 1,
				InitialRetryTime: retryDelay, RetryTimeScale: 1, PostInitDelay: 0,
				Hostname: "mx.example.org", AutogenMsgDomain: "example.org",
				Log: log.Logger{Out: log.NopOutput{}},
			})
			if err != nil {
				t.Fatal(err)
			}
			return q
		}
		q := mk()
		trs := make([]*vtrace.Tracer, len(s.Members))
		ds := make([]module.Delivery, len(s.Members))
		for k, b := range s.Members {
			tr := vtrace.New(w, b.ID)
			trs[k] = tr
			tr.Emit("Cfg", seriesCfgEv(s, b, k))
			id := "msg" + itoa(b.ID)
			mux.tgts[id] = &scripted.Target{Tr: tr, Plan: PlanOf(b.Hist), Partial: b.Cfg.Partial, ID: idOf}
			from := senderFor(b)
			mux.bn[id] = &scripted.Bounce{Tr: tr, ID: reportID, Fail: BouncePlanOf(b.Hist), Sender: from,
				OrigSubject: "verif-subject-" + itoa(b.ID)}
			ds[k] = submit(t, q, b, tr, from)
		}
		// all messages are in the spool before the first attempt of any of them
		for k := range s.Members {
			if err := ds[k].Commit(context.Background()); err != nil {
				t.Fatal(err)
			}
		}
		maxMt := s.Cfg.Mt
		for i := 0; i < maxMt+3; i++ {
			synctest.Wait()
			if len(spoolFiles(dir)) == 0 {
				break
			}
			if i == 0 && s.Cfg.Restart {
				q.Close()
				q = mk()
			}
			time.Sleep(2 * retryDelay)
		}
		synctest.Wait()
		for k, b := range s.Members {
			files := msgFiles(dir, "msg"+itoa(b.ID))
			trs[k].Emit("Quiesced", vtrace.Ev{"spoolEmpty": len(files) == 0, "files": append([]string{}, files...)})
		}
		q.Close()
	})
}

func TestReplaySeries(t *testing.T) {
	in, out := os.Getenv("VERIF_IN"), os.Getenv("VERIF_OUT")
	if in == "" || out == "" {
		t.Skip("VERIF_IN / VERIF_OUT not set")
	}
	f, err := os.Open(in)
	if err != nil {
		t.Fatal(err)
	}
	defer f.Close()
	of, err := os.Create(out)
	if err != nil {
		t.Fatal(err)
	}
	defer of.Close()
	w := bufio.NewWriter(of)
	defer w.Flush()
	sc := bufio.NewScanner(f)
	sc.Buffer(make([]byte, 1<<20), 1<<26)
	for sc.Scan() {
		var s Series
		if err := json.Unmarshal(sc.Bytes(), &s); err != nil {
			t.Fatalf("bad series line: %v", err)
		}
		if s.Cfg.Fwd == "remote" {
			runSeriesRemote(t, s, w)
		} else {
			runSeriesScripted(t, s, w)
		}
	}
}
