package queuecheck

import (
	"bufio"
	"bytes"
	"context"
	"encoding/json"
	"fmt"
	"io"
	"math/rand"
	"os"
	"path/filepath"
	"reflect"
	"sort"
	"strings"
	"sync"
	"syscall"
	"testing"
	"testing/synctest"
	"time"

	"github.com/emersion/go-message/textproto"
	"github.com/emersion/go-smtp"
	"github.com/foxcpp/maddy/framework/buffer"
	"github.com/foxcpp/maddy/framework/exterrors"
	"github.com/foxcpp/maddy/framework/log"
	"github.com/foxcpp/maddy/framework/module"
	"github.com/foxcpp/maddy/internal/target/queue"
	"github.com/foxcpp/maddy/verifharness/scripted"
	"github.com/foxcpp/maddy/verifharness/vtrace"
)

// C10 replay: behaviours of Spool.tla on the real queue.
// Input: {"id":N,"msg":{hdr,body,sender,utf8,reqtls,tlsov,omap,auth},"hist":[{"a":"Accept"},{"a":"Crash"}?,{"a":"Attempt","d":[..]},{"a":"Restart"},...,{"a":"End"}]}
//
// The source's body buffer is only valid until the transaction is over (queueDelivery.Body says so):
// as soon as Commit has returned the harness overwrites the memory buffer / overwrites and removes the
// file buffer it handed to Body, and only then lets the first attempt's Start go on (the first
// incarnation's target is gated), so the order does not depend on goroutine scheduling.
// "Crash" (right after Accept): while the first attempt is still held at the gate the spool directory
// is copied (= what an abrupt stop leaves), the first incarnation is abandoned (its attempt fails
// without reaching the recording target) and a new queue is started on the copy: the first hand-over
// then comes from the disk.

type MsgShape struct {
	Hdr    string `json:"hdr"`
	Body   string `json:"body"`
	Sender string `json:"sender"`
	Utf8   bool   `json:"utf8"`
	Reqtls bool   `json:"reqtls"`
	Tlsov  bool   `json:"tlsov"`
	Omap   bool   `json:"omap"`
	Auth   string `json:"auth"`
}

type PStep struct {
	A string   `json:"a"`
	D []string `json:"d"`
	P []string `json:"p"` // recipients that fail permanently in this attempt (a failure report is generated)
}

type PBehaviour struct {
	// CaseVar: r1/r2 differ only by the letter case of the local part (harness-only dimension)
	CaseVar bool `json:"caseVar"`
	// RcptAlpha (harness-only): "" | "idn" (recipients in an internationalized domain) | "uni" (non-ASCII
	// local parts; only on SMTPUTF8 messages)
	RcptAlpha string `json:"rcptAlpha"`
	// OrigFrom (harness-only): the message reached the queue with a rewritten sender, i.e. the
	// metadata's OriginalFrom differs from the MAIL FROM the queue is given (and has to hand on)
	OrigFrom bool     `json:"origFrom"`
	ID      int      `json:"id"`
	Msg     MsgShape `json:"msg"`
	Hist    []PStep  `json:"hist"`
}

const taintUser = "verif-taint-user-7f3a9c"
const taintPass = "verif-taint-password-51e8d2"

func hdrBytes(shape string, m MsgShape, rng *rand.Rand) []byte {
	tag := fmt.Sprintf("%08x", rng.Uint32())
	var b bytes.Buffer
	switch shape {
	case "envlike":
		// fields that spell envelope information differently from the envelope. The SMTP endpoint sets
		// the TLS-Required override iff the top-most TLS-Required field says "No"; the header agrees with
		// the accepted flag under that rule, and has a second field that says the opposite.
		top, low := "no-thanks", "No"
		if m.Tlsov {
			top, low = "No", "no-thanks"
		}
		b.WriteString("Received: from client.example (client.example [192.0.2.1]) by mx.example.org with ESMTPS\r\n" +
			"\tfor <someone-else@example.net>; Thu, 1 Oct 2026 10:00:00 +0000\r\n" +
			"TLS-Required: " + top + "\r\n" +
			"Return-Path: <bounces+" + tag + "@lists.example.net>\r\n" +
			"Delivered-To: elsewhere@example.net\r\n" +
			"X-Original-To: elsewhere@example.net\r\n" +
			"Sender: <header-sender@example.net>\r\n" +
			"From: Header From <header-from@example.net>\r\n" +
			"To: undisclosed-recipients:;\r\n" +
			"Cc: third@example.net, r1@example.net\r\n" +
			"Bcc: hidden@example.net\r\n" +
			"tls-required: " + low + "\r\n" +
			"Require-TLS: yes\r\nX-SMTPUTF8: yes\r\n" +
			"Subject: envelope-like fields " + tag + "\r\n")
	case "plain":
		b.WriteString("Subject: hello " + tag + "\r\nFrom: <a@b.example>\r\nTo: <c@d.example>\r\n")
	case "folded":
		b.WriteString("Subject: hello\r\n\tfolded  continuation " + tag + "\r\n   more   spaces   \r\nX-A:v\r\nX-B:    lead\r\n")
	case "dup":
		b.WriteString("Received: from a by b\r\nReceived: from b by c " + tag + "\r\nX-Dup: 1\r\nX-Dup: 2\r\nx-dup: 3\r\nX-DUP: 1\r\n")
	case "8bit":
		b.WriteString("Subject: caf\xe9 \xff\xfe raw " + tag + "\r\nX-Utf: \xd0\xbf\xd1\x80\xd0\xb8\xd0\xb2\xd0\xb5\xd1\x82\r\nX-Ctl: a\x01b\x7f\r\n")
	case "long":
		b.WriteString("X-Long: ")
		for i := 0; i < 40; i++ {
			b.WriteString(strings.Repeat("v", 900) + tag + "\r\n ")
		}
		b.WriteString("end\r\nSubject: after long\r\n")
	case "huge":
		for i := 0; i < 1200; i++ {
			fmt.Fprintf(&b, "X-Huge-%d: %s%s\r\n", i, tag, strings.Repeat("h", 980))
		}
		b.WriteString("Subject: last field after more than a mebibyte\r\n")
	case "emptyval":
		b.WriteString("X-Empty:\r\nX-Sp: \r\nSubject: x " + tag + "\r\nX-Tab:\t\r\n")
	default:
		panic("unknown header shape " + shape)
	}
	b.WriteString("\r\n")
	return b.Bytes()
}

func bodyBytes(shape string, rng *rand.Rand) []byte {
	switch shape {
	case "small":
		return []byte(fmt.Sprintf("hello %08x\r\n.\r\n..dots\r\n \r\ntrailing space \r\n\r\n\r\n", rng.Uint32()))
	case "empty":
		return []byte{}
	case "binary":
		b := make([]byte, 4096)
		rng.Read(b)
		copy(b[100:], []byte("\x00\n\r\r\n.\r\n\xff"))
		return b
	case "large":
		b := make([]byte, 1500*1024)
		rng.Read(b)
		return b
	case "faulty": // handed to the queue in a buffer whose reader fails half-way
		b := make([]byte, 512*1024)
		rng.Read(b)
		return b
	}
	panic("unknown body shape " + shape)
}

func senderAddr(shape string) string {
	switch shape {
	case "null":
		return ""
	case "ascii":
		return "sender@example.com"
	case "idn":
		return "отправитель@пример.example"
	case "idndom":
		return "sender@пример.example"
	case "quoted":
		return "\"quoted sender\\\"x\"@example.com"
	}
	panic("unknown sender shape " + shape)
}

func serializeHdr(h textproto.Header) []byte {
	var b bytes.Buffer
	textproto.WriteHeader(&b, h)
	return b.Bytes()
}

type pTarget struct {
	tr      *vtrace.Tracer
	mu      sync.Mutex
	att     int
	plan    [][]string // delivered ids per attempt
	perm    [][]string // permanently failed ids per attempt
	wantHdr []byte
	wantBdy []byte
	shape   MsgShape
	omap    map[string]string
}

type pDelivery struct {
	t     *pTarget
	att   int
	env   vtrace.Ev
	rcpts []string
}

func (t *pTarget) Start(ctx context.Context, m *module.MsgMetadata, from string) (module.Delivery, error) {
	t.mu.Lock()
	t.att++
	att := t.att
	t.mu.Unlock()
	sender := t.shape.Sender
	if from != senderAddr(t.shape.Sender) {
		sender = "other:" + from
	}
	omap := len(m.OriginalRcpts) != 0
	if t.shape.Omap && !reflect.DeepEqual(m.OriginalRcpts, t.omap) {
		omap = false
	}
	env := vtrace.Ev{"sender": sender, "utf8": m.SMTPOpts.UTF8, "reqtls": m.SMTPOpts.RequireTLS,
		"tlsov": m.TLSRequireOverride, "omap": omap, "auth": t.shape.Auth}
	return &pDelivery{t: t, att: att, env: env}, nil
}

func (d *pDelivery) AddRcpt(ctx context.Context, rcptTo string, _ smtp.RcptOptions) error {
	d.rcpts = append(d.rcpts, idOf(rcptTo))
	return nil
}

func (d *pDelivery) Body(ctx context.Context, h textproto.Header, b buffer.Buffer) error {
	panic("the queue must use BodyNonAtomic on a PartialDelivery")
}

func (d *pDelivery) BodyNonAtomic(ctx context.Context, c module.StatusCollector, h textproto.Header, b buffer.Buffer) {
	hdr, body := d.t.shape.Hdr, d.t.shape.Body
	got := serializeHdr(h)
	if !bytes.Equal(got, d.t.wantHdr) {
		hdr = fmt.Sprintf("changed(len %d -> %d, first diff at %d)", len(d.t.wantHdr), len(got), firstDiff(got, d.t.wantHdr))
	}
	r, err := b.Open()
	if err != nil {
		body = "unreadable: " + err.Error()
	} else {
		data, _ := io.ReadAll(r)
		r.Close()
		if !bytes.Equal(data, d.t.wantBdy) {
			body = fmt.Sprintf("changed(len %d -> %d, first diff at %d)", len(d.t.wantBdy), len(data), firstDiff(data, d.t.wantBdy))
		}
	}
	m := vtrace.Ev{"hdr": hdr, "body": body}
	for k, v := range d.env {
		m[k] = v
	}
	rc := append([]string{}, d.rcpts...)
	sort.Strings(rc)
	d.t.tr.Emit("Hand", vtrace.Ev{"att": d.att, "m": m, "rcpts": rc})
	var deliver []string
	if d.att-1 < len(d.t.plan) {
		deliver = d.t.plan[d.att-1]
	} else {
		deliver = d.rcpts // beyond the plan everything is delivered
	}
	ok := map[string]bool{}
	for _, x := range deliver {
		ok[x] = true
	}
	perm := map[string]bool{}
	if d.att-1 < len(d.t.perm) {
		for _, x := range d.t.perm[d.att-1] {
			perm[x] = true
		}
	}
	for _, r := range d.rcpts {
		if perm[r] {
			c.SetStatus(addr(r), &exterrors.SMTPError{Code: 550, EnhancedCode: exterrors.EnhancedCode{5, 1, 1},
				Message: "scripted permanent failure", TargetName: "scripted"})
		} else if !ok[r] {
			c.SetStatus(addr(r), &tempErr{})
		}
	}
}

func (d *pDelivery) permOf() []string {
	out := []string{}
	if d.att-1 < len(d.t.perm) {
		for _, x := range d.t.perm[d.att-1] {
			for _, r := range d.rcpts {
				if r == x {
					out = append(out, x)
				}
			}
		}
	}
	sort.Strings(out)
	return out
}

// faultyBuf is an upstream body buffer whose reader fails with an I/O error half-way.
type faultyBuf struct{ data []byte }

type faultyReader struct {
	r    *bytes.Reader
	left int
}

func (f *faultyReader) Read(p []byte) (int, error) {
	if f.left <= 0 {
		return 0, syscall.EIO
	}
	if len(p) > f.left {
		p = p[:f.left]
	}
	n, err := f.r.Read(p)
	f.left -= n
	return n, err
}
func (f *faultyReader) Close() error { return nil }
func (b faultyBuf) Open() (io.ReadCloser, error) {
	return &faultyReader{r: bytes.NewReader(b.data), left: len(b.data) / 2}, nil
}
func (b faultyBuf) Len() int      { return len(b.data) }
func (b faultyBuf) Remove() error { return nil }

type tempErr struct{}

func (*tempErr) Error() string   { return "scripted temporary failure" }
func (*tempErr) Temporary() bool { return true }

func firstDiff(a, b []byte) int {
	n := len(a)
	if len(b) < n {
		n = len(b)
	}
	for i := 0; i < n; i++ {
		if a[i] != b[i] {
			return i
		}
	}
	return n
}

func (d *pDelivery) Commit(ctx context.Context) error {
	var deliver []string
	if d.att-1 < len(d.t.plan) {
		for _, x := range d.t.plan[d.att-1] {
			for _, r := range d.rcpts {
				if r == x {
					deliver = append(deliver, x)
				}
			}
		}
	} else {
		deliver = append(deliver, d.rcpts...)
	}
	sort.Strings(deliver)
	if deliver == nil {
		deliver = []string{}
	}
	d.t.tr.Emit("Delivered", vtrace.Ev{"att": d.att, "d": deliver, "p": d.permOf()})
	return nil
}

func (d *pDelivery) Abort(ctx context.Context) error {
	d.t.tr.Emit("Delivered", vtrace.Ev{"att": d.att, "d": []string{}, "p": d.permOf()})
	return nil
}

// gatedTarget is the target of the first incarnation: its first Start waits until the harness has
// invalidated the source's buffer; once the incarnation is abandoned (Crash) every Start fails
// without reaching the recording target.
type gatedTarget struct {
	inner *pTarget
	gate  chan struct{}
	mu    sync.Mutex
	dead  bool
}

func (g *gatedTarget) Start(ctx context.Context, m *module.MsgMetadata, from string) (module.Delivery, error) {
	<-g.gate
	g.mu.Lock()
	dead := g.dead
	g.mu.Unlock()
	if dead {
		return nil, &tempErr{}
	}
	return g.inner.Start(ctx, m, from)
}

func (g *gatedTarget) abandon() {
	g.mu.Lock()
	g.dead = true
	g.mu.Unlock()
}

func copySpool(t *testing.T, from, to string) {
	ents, err := os.ReadDir(from)
	if err != nil {
		t.Fatal(err)
	}
	for _, e := range ents {
		data, err := os.ReadFile(filepath.Join(from, e.Name()))
		if err != nil {
			t.Fatal(err)
		}
		if err := os.WriteFile(filepath.Join(to, e.Name()), data, 0o600); err != nil {
			t.Fatal(err)
		}
	}
}

func scanTaint(dir string) (bool, []string) {
	var where []string
	filepath.Walk(dir, func(p string, fi os.FileInfo, err error) error {
		if err != nil || fi.IsDir() {
			return nil
		}
		data, err := os.ReadFile(p)
		if err == nil && (bytes.Contains(data, []byte(taintUser)) || bytes.Contains(data, []byte(taintPass))) {
			where = append(where, filepath.Base(p))
		}
		return nil
	})
	if where == nil {
		where = []string{}
	}
	return len(where) > 0, where
}

func runPreserve(t *testing.T, b PBehaviour, w *bufio.Writer, seed int64) {
	caseVar = b.CaseVar
	useIdn, uniLocal = !b.CaseVar && b.RcptAlpha == "idn", !b.CaseVar && b.RcptAlpha == "uni" && b.Msg.Utf8
	defer func() { caseVar, useIdn, uniLocal = false, false, false }()
	dir, err := os.MkdirTemp(workDir(), "spool")
	if err != nil {
		t.Fatal(err)
	}
	defer os.RemoveAll(dir)
	bufDir, err := os.MkdirTemp(workDir(), "buf")
	if err != nil {
		t.Fatal(err)
	}
	defer os.RemoveAll(bufDir)
	rng := rand.New(rand.NewSource(seed*7919 + int64(b.ID)))
	rawHdr := hdrBytes(b.Msg.Hdr, b.Msg, rng)
	hdr, err := textproto.ReadHeader(bufio.NewReader(bytes.NewReader(rawHdr)))
	if err != nil {
		t.Fatalf("harness header does not parse: %v", err)
	}
	body := bodyBytes(b.Msg.Body, rng)
	rcpts := []string{"r1", "r2"}
	synctest.Test(t, func(t *testing.T) {
		tr := vtrace.New(w, b.ID)
		tr.Emit("Cfg", vtrace.Ev{"msg": b.Msg, "rcpts": rcpts})
		tgt := &pTarget{tr: tr, shape: b.Msg, wantHdr: serializeHdr(hdr), wantBdy: body}
		for _, s := range b.Hist {
			if s.A == "Attempt" {
				d := append([]string{}, s.D...)
				tgt.plan = append(tgt.plan, d)
				tgt.perm = append(tgt.perm, append([]string{}, s.P...))
			}
		}
		// a bounce pipeline is configured (reports are generated for permanently failed recipients);
		// what the reports look like is C18's business
		bnc := &scripted.Bounce{Tr: vtrace.New(nil, b.ID), ID: idOf}
		first := &gatedTarget{inner: tgt, gate: make(chan struct{})}
		var curTarget module.DeliveryTarget = first
		mk := func() *queue.Queue {
			q, err := queue.VerifNewQueue(queue.VerifConfig{
				Location: dir, Target: curTarget, Bounce: bnc, MaxTries: 12, MaxParallelism: 1,
				InitialRetryTime: retryDelay, RetryTimeScale: 1, PostInitDelay: 0,
				Hostname: "mx.example.org", AutogenMsgDomain: "example.org",
				Log: log.Logger{Out: log.NopOutput{}},
			})
			if err != nil {
				t.Fatal(err)
			}
			return q
		}
		scan := func() {
			tainted, where := scanTaint(dir)
			tr.Emit("Scan", vtrace.Ev{"tainted": tainted, "where": where})
		}
		q := mk()
		from := senderAddr(b.Msg.Sender)
		ctx := context.Background()
		meta := &module.MsgMetadata{ID: "msg" + itoa(b.ID), OriginalFrom: from,
			SMTPOpts: smtp.MailOptions{UTF8: b.Msg.Utf8, RequireTLS: b.Msg.Reqtls}}
		if b.OrigFrom && from != "" {
			meta.OriginalFrom = "original-sender@example.net"
		}
		if b.Msg.Omap {
			meta.OriginalRcpts = map[string]string{addr("r1"): "orig-r1@example.org", addr("r2"): "\"o r\"@example.org"}
			tgt.omap = map[string]string{addr("r1"): "orig-r1@example.org", addr("r2"): "\"o r\"@example.org"}
		}
		switch b.Msg.Auth {
		case "auth-trace", "auth-notrace":
			meta.Conn = &module.ConnState{Hostname: "client.example", Proto: "ESMTPSA",
				AuthUser: taintUser, AuthPassword: taintPass}
			meta.DontTraceSender = b.Msg.Auth == "auth-notrace"
		}
		d, err := q.Start(ctx, meta, from)
		if err != nil {
			t.Fatal(err)
		}
		for _, r := range rcpts {
			if err := d.AddRcpt(ctx, addr(r), smtp.RcptOptions{}); err != nil {
				t.Fatal(err)
			}
		}
		// the SMTP endpoint sets the override on the metadata object it passed to Start
		// when it parses "TLS-Required: No" from the body, i.e. after Start
		if b.Msg.Tlsov {
			meta.TLSRequireOverride = true
		}
		srcSlice := append([]byte{}, body...)
		var buf buffer.Buffer = buffer.MemoryBuffer{Slice: srcSlice}
		if b.Msg.Body == "large" {
			fb, err := buffer.BufferInFile(bytes.NewReader(body), bufDir)
			if err != nil {
				t.Fatal(err)
			}
			buf = fb
		}
		if b.Msg.Body == "faulty" {
			buf = faultyBuf{data: body}
		}
		if err := d.Body(ctx, hdr, buf); err != nil {
			if b.Msg.Body != "faulty" {
				t.Fatal(err)
			}
			// the queue refused the message it could not read completely
			tr.Emit("AcceptRefused", vtrace.Ev{"err": err.Error()})
			d.Abort(ctx)
			scan()
			tr.Emit("End", vtrace.Ev{"files": append([]string{}, spoolFiles(dir)...)})
			q.Close()
			return
		}
		tr.Emit("Accept", nil)
		if err := d.Commit(ctx); err != nil {
			t.Fatal(err)
		}
		// the transaction is over: the source reuses its memory buffer, the endpoint removes its file buffer
		for i := range srcSlice {
			srcSlice[i] = 'X'
		}
		if fb, ok := buf.(buffer.FileBuffer); ok {
			os.WriteFile(fb.Path, bytes.Repeat([]byte("gone "), len(body)/5), 0o600)
			fb.Remove()
		}
		if len(b.Hist) > 1 && b.Hist[1].A == "Crash" {
			// abrupt stop before the first attempt got anywhere: the restarted queue works from the disk
			snap, err := os.MkdirTemp(workDir(), "snap")
			if err != nil {
				t.Fatal(err)
			}
			defer os.RemoveAll(snap)
			copySpool(t, dir, snap)
			first.abandon()
			close(first.gate)
			synctest.Wait()
			q.Close()
			dir = snap
			curTarget = tgt
			tr.Emit("Restart", vtrace.Ev{"crash": true})
			q = mk()
			synctest.Wait()
			time.Sleep(retryDelay + retryDelay/2) // the reloaded entry becomes due one retry delay after its acceptance
		} else {
			close(first.gate)
			curTarget = tgt
		}
		synctest.Wait() // the first attempt runs right away
		scan()
		first1 := true
		for _, s := range b.Hist {
			switch s.A {
			case "Attempt":
				if first1 {
					first1 = false // already happened after Commit
					continue
				}
				if !hasMeta(dir) {
					continue
				}
				time.Sleep(retryDelay + retryDelay/2) // exactly one retry becomes due
				synctest.Wait()
				scan()
			case "Restart":
				if !hasMeta(dir) {
					continue // nothing is queued any more
				}
				q.Close()
				tr.Emit("Restart", vtrace.Ev{"crash": false})
				q = mk()
				synctest.Wait()
				scan()
			}
		}
		// let whatever is still pending be delivered
		for i := 0; i < 6 && hasMeta(dir); i++ {
			time.Sleep(retryDelay + retryDelay/2)
			synctest.Wait()
		}
		scan()
		tr.Emit("End", vtrace.Ev{"files": append([]string{}, spoolFiles(dir)...)})
		q.Close()
	})
}

func TestPreserve(t *testing.T) {
	in, out := os.Getenv("VERIF_IN"), os.Getenv("VERIF_OUT")
	if in == "" || out == "" {
		t.Skip("VERIF_IN / VERIF_OUT not set")
	}
	var seed int64 = 1
	fmt.Sscan(os.Getenv("VERIF_SEED"), &seed)
	f, err := os.Open(in)
	if err != nil {
		t.Fatal(err)
	}
	defer f.Close()
	of, err := os.Create(out)
	if err != nil {
		t.Fatal(err)
	}
	defer of.Close()
	w := bufio.NewWriter(of)
	defer w.Flush()
	sc := bufio.NewScanner(f)
	sc.Buffer(make([]byte, 1<<20), 1<<26)
	for sc.Scan() {
		var b PBehaviour
		if err := json.Unmarshal(sc.Bytes(), &b); err != nil {
			t.Fatalf("bad behaviour line: %v", err)
		}
		runPreserve(t, b, w, seed)
	}
}
