// Package queuecheck replays TLC-generated behaviours of Queue.tla on the real
// queue (internal/target/queue) and records NDJSON traces.
//
// Input  (VERIF_IN):  one JSON object per line {"id":N,"cfg":{...},"hist":[...]}
// Output (VERIF_OUT): NDJSON events, trace number "t" = id.
package queuecheck

import (
	"bufio"
	"context"
	"encoding/json"
	"os"
	"strings"
	"testing"
	"testing/synctest"
	"time"

	"github.com/emersion/go-message/textproto"
	"github.com/emersion/go-smtp"
	"github.com/foxcpp/maddy/framework/buffer"
	"github.com/foxcpp/maddy/framework/log"
	"github.com/foxcpp/maddy/framework/module"
	"github.com/foxcpp/maddy/internal/target/queue"
	"github.com/foxcpp/maddy/verifharness/scripted"
	"github.com/foxcpp/maddy/verifharness/vtrace"
)

type Cfg struct {
	Partial    bool     `json:"partial"`
	Bounce     bool     `json:"bounce"`
	NullSender bool     `json:"nullSender"`
	Mt         int      `json:"mt"`
	List       []string `json:"list"`
}

type Step struct {
	A     string            `json:"a"`
	R     string            `json:"r"`
	Res   string            `json:"res"`
	St    map[string]string `json:"st"`
	Rcpts []string          `json:"rcpts"`
}

type Behaviour struct {
	ID   int    `json:"id"`
	Cfg  Cfg    `json:"cfg"`
	Hist []Step `json:"hist"`
}

// PlanOf turns the environment choices of a behaviour into a fault plan.
func PlanOf(h []Step) []scripted.AttemptPlan {
	var plan []scripted.AttemptPlan
	cur := -1
	for _, s := range h {
		switch s.A {
		case "TStart":
			plan = append(plan, scripted.AttemptPlan{Start: s.Res})
			cur++
		case "TAddRcpt":
			plan[cur].Rcpt = append(plan[cur].Rcpt, scripted.RcptRes{R: s.R, Res: s.Res})
		case "TBody":
			plan[cur].Body = s.Res
		case "TBodyNA":
			plan[cur].Status = s.St
		case "TCommit":
			plan[cur].Commit = s.Res
		}
	}
	return plan
}

const dom = "@example.org"

func addr(id string) string { return id + dom }
func idOf(a string) string  { return strings.TrimSuffix(a, dom) }

const retryDelay = time.Minute

func spoolFiles(dir string) []string {
	ents, _ := os.ReadDir(dir)
	var out []string
	for _, e := range ents {
		out = append(out, e.Name())
	}
	return out
}

func runBehaviour(t *testing.T, b Behaviour, w *bufio.Writer) {
	dir, err := os.MkdirTemp(workDir(), "spool")
	if err != nil {
		t.Fatal(err)
	}
	defer os.RemoveAll(dir)
	synctest.Test(t, func(t *testing.T) {
		tr := vtrace.New(w, b.ID)
		tr.Emit("Cfg", vtrace.Ev{"partial": b.Cfg.Partial, "bounce": b.Cfg.Bounce,
			"nullSender": b.Cfg.NullSender, "mt": b.Cfg.Mt, "list": b.Cfg.List})
		tgt := &scripted.Target{Tr: tr, Plan: PlanOf(b.Hist), Partial: b.Cfg.Partial, ID: idOf}
		var bounce module.DeliveryTarget
		if b.Cfg.Bounce {
			bounce = &scripted.Bounce{Tr: tr, ID: idOf}
		}
		q, err := queue.VerifNewQueue(queue.VerifConfig{
			Location: dir, Target: tgt, Bounce: bounce, MaxTries: b.Cfg.Mt, MaxParallelism: 1,
			InitialRetryTime: retryDelay, RetryTimeScale: 1, PostInitDelay: 0,
			Hostname: "mx.example.org", AutogenMsgDomain: "example.org",
			Log: log.Logger{Out: log.NopOutput{}},
		})
		if err != nil {
			t.Fatal(err)
		}
		from := "sender@example.com"
		if b.Cfg.NullSender {
			from = ""
		}
		ctx := context.Background()
		meta := &module.MsgMetadata{ID: "msg" + itoa(b.ID), OriginalFrom: from, SMTPOpts: smtp.MailOptions{}}
		d, err := q.Start(ctx, meta, from)
		if err != nil {
			t.Fatal(err)
		}
		seen := map[string]bool{}
		distinct := []string{}
		for _, r := range b.Cfg.List {
			if err := d.AddRcpt(ctx, addr(r), smtp.RcptOptions{}); err != nil {
				t.Fatal(err)
			}
			if !seen[r] {
				seen[r] = true
				distinct = append(distinct, r)
			}
		}
		hdr := textproto.Header{}
		hdr.Add("Subject", "verif")
		hdr.Add("From", "<sender@example.com>")
		if err := d.Body(ctx, hdr, buffer.MemoryBuffer{Slice: []byte("hello\r\n")}); err != nil {
			t.Fatal(err)
		}
		tr.Emit("QAccept", vtrace.Ev{"rcpts": distinct})
		if err := d.Commit(ctx); err != nil {
			t.Fatal(err)
		}
		for i := 0; i < b.Cfg.Mt+3; i++ {
			synctest.Wait()
			if len(spoolFiles(dir)) == 0 {
				break
			}
			time.Sleep(2 * retryDelay)
		}
		synctest.Wait()
		files := spoolFiles(dir)
		tr.Emit("Quiesced", vtrace.Ev{"spoolEmpty": len(files) == 0, "files": append([]string{}, files...)})
		q.Close()
	})
}

func itoa(i int) string {
	b, _ := json.Marshal(i)
	return string(b)
}

func workDir() string {
	if d := os.Getenv("VERIF_TMP"); d != "" {
		return d
	}
	return os.TempDir()
}

func TestReplay(t *testing.T) {
	in, out := os.Getenv("VERIF_IN"), os.Getenv("VERIF_OUT")
	if in == "" || out == "" {
		t.Skip("VERIF_IN / VERIF_OUT not set")
	}
	f, err := os.Open(in)
	if err != nil {
		t.Fatal(err)
	}
	defer f.Close()
	of, err := os.Create(out)
	if err != nil {
		t.Fatal(err)
	}
	defer of.Close()
	w := bufio.NewWriter(of)
	defer w.Flush()
	sc := bufio.NewScanner(f)
	sc.Buffer(make([]byte, 1<<20), 1<<26)
	n := 0
	for sc.Scan() {
		var b Behaviour
		if err := json.Unmarshal(sc.Bytes(), &b); err != nil {
			t.Fatalf("bad behaviour line: %v", err)
		}
		runBehaviour(t, b, w)
		n++
	}
	t.Logf("replayed %d behaviours", n)
}
