// Package queuecheck replays TLC-generated behaviours of Queue.tla on the real
// queue (internal/target/queue) and records NDJSON traces.
//
// Input  (VERIF_IN):  one JSON object per line {"id":N,"cfg":{...},"hist":[...]}
// Output (VERIF_OUT): NDJSON events, trace number "t" = id.
package queuecheck

import (
	"bufio"
	"context"
	"encoding/json"
	"os"
	"strings"
	"sync"
	"testing"
	"testing/synctest"
	"time"

	"github.com/emersion/go-message/textproto"
	"github.com/emersion/go-smtp"
	"github.com/foxcpp/maddy/framework/buffer"
	"github.com/foxcpp/maddy/framework/config"
	"github.com/foxcpp/maddy/framework/log"
	"github.com/foxcpp/maddy/framework/module"
	_ "github.com/foxcpp/maddy/internal/modify"
	"github.com/foxcpp/maddy/internal/msgpipeline"
	_ "github.com/foxcpp/maddy/internal/table"
	"github.com/foxcpp/maddy/internal/target/queue"
	"github.com/foxcpp/maddy/verifharness/scripted"
	"github.com/foxcpp/maddy/verifharness/vtrace"
)

type Cfg struct {
	Partial    bool     `json:"partial"`
	Bounce     bool     `json:"bounce"`
	NullSender bool     `json:"nullSender"`
	Mt         int      `json:"mt"`
	List       []string `json:"list"`
	Rw         []string `json:"rw"`      // recipients that reach the queue rewritten (effective != original)
	Utf8       bool     `json:"utf8"`    // SMTPUTF8 message
	Chain      bool     `json:"chain"`   // the bounce pipeline routes into a second real queue
	ErrText    string   `json:"errtext"` // "", "multiline", "nonascii": text of the scripted SMTP errors
	Idn        bool     `json:"idn"`     // recipients live in an internationalized domain
	Fwd        string   `json:"fwd"`     // variant (b): "" = target.smtp/target.lmtp, "remote" = the real remote-MX target
	// RestartFirst: the process is stopped (cleanly) after the message was accepted and before its
	// first attempt; every attempt then works from what a restarted queue reads back from the spool
	RestartFirst bool `json:"restartFirst"`
	// CaseVar: the recipients differ only by the letter case of the local part
	CaseVar bool `json:"caseVar"`
	// Front: "" = the harness puts the message into the queue itself and fills OriginalRcpts for the rewritten
	// recipients; "global" | "source" | "dest" = the message comes through a real msgpipeline whose replace_rcpt
	// modifier in that scope does the rewriting (the pipeline then owns the original-recipient map)
	Front string `json:"front"`
	// MidData (variant (b)): 8 MiB body, a scripted unclassified body failure resets the connection mid-transfer
	MidData bool `json:"midData"`
	// UniLocal: non-ASCII local parts (only with Utf8)
	UniLocal bool `json:"uniLocal"`
	// ErrShape: "", "421", "nested" (scripted.ErrShape); variant (b): "421" = the hop answers temporary failures with 421
	ErrShape string `json:"errshape"`
	// Sts (variant (b), remote): "wild" = wildcard MTA-STS policy and an A-label MX host,
	// "nil" = the policy cache returns neither a policy nor an error
	Sts string `json:"sts"`
	// Enh: do the scripted failures carry an enhanced status code (absent = yes)? false = ErrShape "noenh"
	// (variant (b): the next hop does not do ENHANCEDSTATUSCODES). A dimension of Queue.tla (cfg.enh).
	Enh *bool `json:"enh"`
	// UniForm (with UniLocal): spelling class of the non-ASCII local parts, see uniForms (forms_test.go)
	UniForm string `json:"uniForm"`
	// SenderForm: "" = sender@example.com; else a spelling class of senderForms (forms_test.go; SMTPUTF8 only)
	SenderForm string `json:"senderForm"`
	// HdrForm: shape of the original message's header, see origHeader (forms_test.go)
	HdrForm string `json:"hdrForm"`
}

func (c Cfg) enh() bool { return c.Enh == nil || *c.Enh }

type Step struct {
	A     string            `json:"a"`
	R     string            `json:"r"`
	Res   string            `json:"res"`
	St    map[string]string `json:"st"`
	Rcpts []string          `json:"rcpts"`
	Stage string            `json:"stage"`
}

// BouncePlanOf scripts how each report hand-over ends.
func BouncePlanOf(h []Step) []scripted.BouncePlan {
	var out []scripted.BouncePlan
	for _, s := range h {
		if s.A != "Dsn" {
			continue
		}
		var p scripted.BouncePlan
		switch s.Stage {
		case "start":
			p.Start = "temp"
		case "rcpt":
			p.Rcpt = "perm"
		case "body":
			p.Body = "temp"
		case "commit":
			p.Commit = "unspec"
		}
		out = append(out, p)
	}
	return out
}

type Behaviour struct {
	ID   int    `json:"id"`
	Cfg  Cfg    `json:"cfg"`
	Hist []Step `json:"hist"`
}

// PlanOf turns the environment choices of a behaviour into a fault plan.
func PlanOf(h []Step) []scripted.AttemptPlan {
	var plan []scripted.AttemptPlan
	cur := -1
	for _, s := range h {
		switch s.A {
		case "TStart":
			plan = append(plan, scripted.AttemptPlan{Start: s.Res})
			cur++
		case "TAddRcpt":
			plan[cur].Rcpt = append(plan[cur].Rcpt, scripted.RcptRes{R: s.R, Res: s.Res})
		case "TBody":
			plan[cur].Body = s.Res
		case "TBodyNA":
			plan[cur].Status = s.St
		case "TCommit":
			plan[cur].Commit = s.Res
		}
	}
	return plan
}

const dom = "@example.org"
const idnDomU = "@пример.example"
const idnDomA = "@xn--e1afmkfd.example"

var useIdn bool // set per behaviour (behaviours run sequentially in a process)

// caseVar: the recipients' mailboxes differ only by the letter case of the local part
// (local parts are case-sensitive, RFC 5321 2.4: they are different recipients)
var caseVar bool
var caseLocals = map[string]string{"r1": "rcpt", "r2": "Rcpt", "r3": "RCPT"}

// uniLocal: the recipients' local parts are not ASCII (SMTPUTF8 messages only)
var uniLocal bool
var uniLocals = map[string]string{"r1": "\u0442\u0435\u0441\u04421", "r2": "\u0442\u0435\u0441\u04422", "r3": "\u00fcser3"}

func local(id string) string {
	if caseVar {
		if l, ok := caseLocals[id]; ok {
			return l
		}
	}
	if uniLocal {
		if l, ok := uniLocals[id]; ok {
			return l
		}
	}
	return id
}

func unlocal(l string) string {
	if caseVar {
		for id, v := range caseLocals {
			if v == l {
				return id
			}
		}
	}
	if uniLocal {
		for id, v := range uniLocals {
			if v == l {
				return id
			}
		}
	}
	return l
}

func addr(id string) string {
	if useIdn {
		return local(id) + idnDomU
	}
	return local(id) + dom
}

// effAddr is the address a rewritten recipient has inside the queue.
func effAddr(id string) string {
	if useIdn {
		return local(id) + "-eff" + idnDomU
	}
	return local(id) + "-eff" + dom
}

func stripDom(a string) string {
	for _, d := range []string{dom, idnDomU, idnDomA} {
		if strings.HasSuffix(a, d) {
			return strings.TrimSuffix(a, d)
		}
	}
	return a
}

// idOf maps an address seen at the target boundary to the abstract recipient.
func idOf(a string) string { return unlocal(strings.TrimSuffix(stripDom(a), "-eff")) }

// reportID maps an address listed in a failure report: the address the client supplied
// gives the recipient id, the effective (rewritten) one is marked "eff:".
func reportID(a string) string {
	a = stripDom(a)
	if strings.HasSuffix(a, "-eff") {
		return "eff:" + unlocal(strings.TrimSuffix(a, "-eff"))
	}
	if strings.HasSuffix(a, "-mid") { // the intermediate address of a two-step rewrite (nested pipelines)
		return "eff:" + unlocal(strings.TrimSuffix(a, "-mid"))
	}
	return unlocal(a)
}

// ---- a real msgpipeline in front of the queue (Cfg.Front) ----
var (
	frontMu   sync.Mutex
	frontTgt  module.DeliveryTarget
	frontOnce sync.Once
)

type frontProxy struct{ inst string }

func (p *frontProxy) Name() string               { return "verifq" }
func (p *frontProxy) InstanceName() string       { return p.inst }
func (p *frontProxy) Init(cfg *config.Map) error { return nil }
func (p *frontProxy) Start(ctx context.Context, m *module.MsgMetadata, from string) (module.Delivery, error) {
	frontMu.Lock()
	t := frontTgt
	frontMu.Unlock()
	return t.Start(ctx, m, from)
}

func frontPipeline(t *testing.T, q module.DeliveryTarget, scope string, rw map[string]bool) module.DeliveryTarget {
	frontOnce.Do(func() {
		module.Register("target.verifq", func(_, inst string, _, _ []string) (module.Module, error) {
			return &frontProxy{inst: inst}, nil
		})
	})
	frontMu.Lock()
	frontTgt = q
	frontMu.Unlock()
	var entries []config.Node
	for _, r := range []string{"r1", "r2", "r3"} {
		if rw[r] {
			entries = append(entries, config.Node{Name: "entry", Args: []string{addr(r), effAddr(r)}})
		}
	}
	mod := config.Node{Name: "modify", Children: []config.Node{
		{Name: "replace_rcpt", Args: []string{"static"}, Children: entries}}}
	deliver := config.Node{Name: "deliver_to", Args: []string{"verifq", "Q"}}
	var nodes []config.Node
	switch scope {
	case "global":
		nodes = []config.Node{mod, {Name: "default_source", Children: []config.Node{
			{Name: "default_destination", Children: []config.Node{deliver}}}}}
	case "source":
		nodes = []config.Node{{Name: "default_source", Children: []config.Node{mod,
			{Name: "default_destination", Children: []config.Node{deliver}}}}}
	default:
		nodes = []config.Node{{Name: "default_source", Children: []config.Node{
			{Name: "default_destination", Children: []config.Node{mod, deliver}}}}}
	}
	p, err := msgpipeline.New(map[string]interface{}{"hostname": "mx.example.org"}, nodes)
	if err != nil {
		t.Fatalf("front pipeline: %v", err)
	}
	p.Log = log.Logger{Out: log.NopOutput{}}
	return p
}

const retryDelay = time.Minute

func spoolFiles(dir string) []string {
	ents, _ := os.ReadDir(dir)
	var out []string
	for _, e := range ents {
		out = append(out, e.Name())
	}
	return out
}

func runBehaviour(t *testing.T, b Behaviour, w *bufio.Writer) {
	dir, err := os.MkdirTemp(workDir(), "spool")
	if err != nil {
		t.Fatal(err)
	}
	defer os.RemoveAll(dir)
	useIdn = b.Cfg.Idn
	caseVar = b.Cfg.CaseVar
	switch b.Cfg.ErrText {
	case "multiline":
		scripted.MsgSuffix = "\r\nsecond line\nthird line"
	case "nonascii":
		scripted.MsgSuffix = " \u2014 \u043e\u0448\u0438\u0431\u043a\u0430"
	default:
		scripted.MsgSuffix = ""
	}
	scripted.ErrShape = b.Cfg.ErrShape
	if !b.Cfg.enh() {
		scripted.ErrShape = "noenh"
	}
	uniLocal = b.Cfg.UniLocal && b.Cfg.Utf8
	defer setUniForm(b.Cfg.UniForm)()
	defer func() { scripted.MsgSuffix = ""; scripted.ErrShape = ""; useIdn = false; caseVar = false; uniLocal = false }()
	synctest.Test(t, func(t *testing.T) {
		tr := vtrace.New(w, b.ID)
		rw := map[string]bool{}
		for _, r := range b.Cfg.Rw {
			rw[r] = true
		}
		tr.Emit("Cfg", vtrace.Ev{"partial": b.Cfg.Partial, "bounce": b.Cfg.Bounce,
			"nullSender": b.Cfg.NullSender, "mt": b.Cfg.Mt, "list": b.Cfg.List,
			"rw": append([]string{}, b.Cfg.Rw...), "utf8": b.Cfg.Utf8, "chain": b.Cfg.Chain,
			"idn": b.Cfg.Idn, "errtext": b.Cfg.ErrText, "enh": b.Cfg.enh()})
		tgt := &scripted.Target{Tr: tr, Plan: PlanOf(b.Hist), Partial: b.Cfg.Partial, ID: idOf}
		var bounce module.DeliveryTarget
		from := senderOf(b.Cfg)
		if b.Cfg.NullSender {
			from = ""
		}
		var q2 *queue.Queue
		if b.Cfg.Bounce {
			bn := &scripted.Bounce{Tr: tr, ID: reportID, Fail: BouncePlanOf(b.Hist), Sender: from,
				OrigSubject: "verif-subject-" + itoa(b.ID)}
			if b.Cfg.HdrForm != "" {
				_, bn.OrigFields = origHeader(b.Cfg.HdrForm, b.Cfg.Utf8, "verif-subject-"+itoa(b.ID))
			}
			if b.Cfg.Chain {
				// the bounce pipeline ends in a second real queue whose own target rejects everything;
				// that queue must never produce a report about a report
				dir2, err := os.MkdirTemp(workDir(), "spool2")
				if err != nil {
					t.Fatal(err)
				}
				defer os.RemoveAll(dir2)
				silent := vtrace.New(nil, b.ID)
				t2 := &scripted.Target{Tr: silent, Plan: []scripted.AttemptPlan{{Start: "perm"}, {Start: "perm"}, {Start: "perm"}}}
				b2 := &reportSink{tr: tr}
				q2, err = queue.VerifNewQueue(queue.VerifConfig{
					Location: dir2, Target: t2, Bounce: b2, MaxTries: 2, MaxParallelism: 1,
					InitialRetryTime: retryDelay, RetryTimeScale: 1, PostInitDelay: 0,
					Hostname: "mx.example.org", AutogenMsgDomain: "example.org",
					Log: log.Logger{Out: log.NopOutput{}},
				})
				if err != nil {
					t.Fatal(err)
				}
				bn.Next = q2
			}
			bounce = bn
		}
		q, err := queue.VerifNewQueue(queue.VerifConfig{
			Location: dir, Target: tgt, Bounce: bounce, MaxTries: b.Cfg.Mt, MaxParallelism: 1,
			InitialRetryTime: retryDelay, RetryTimeScale: 1, PostInitDelay: 0,
			Hostname: "mx.example.org", AutogenMsgDomain: "example.org",
			Log: log.Logger{Out: log.NopOutput{}},
		})
		if err != nil {
			t.Fatal(err)
		}
		ctx := context.Background()
		meta := &module.MsgMetadata{ID: "msg" + itoa(b.ID), OriginalFrom: from,
			SMTPOpts: smtp.MailOptions{UTF8: b.Cfg.Utf8}, OriginalRcpts: map[string]string{}}
		var entry module.DeliveryTarget = q
		front := b.Cfg.Front
		if len(rw) == 0 || b.Cfg.NullSender {
			front = ""
		}
		if strings.HasPrefix(front, "reroute") {
			entry = nestedFront(t, q, front, rw) // nested pipelines between the rewriting one and the queue (front_nest_test.go)
			meta.OriginalRcpts = nil
		} else if front != "" {
			entry = frontPipeline(t, q, front, rw)
			meta.OriginalRcpts = nil
		}
		d, err := entry.Start(ctx, meta, from)
		if err != nil {
			t.Fatal(err)
		}
		seen := map[string]bool{}
		distinct := []string{}
		for _, r := range b.Cfg.List {
			a := addr(r)
			if rw[r] && front == "" {
				a = effAddr(r)
				meta.OriginalRcpts[a] = addr(r)
			}
			if err := d.AddRcpt(ctx, a, smtp.RcptOptions{}); err != nil {
				t.Fatal(err)
			}
			if !seen[r] {
				seen[r] = true
				distinct = append(distinct, r)
			}
		}
		hdr := textproto.Header{}
		hdr.Add("Subject", "verif-subject-"+itoa(b.ID))
		hdr.Add("From", "<sender@example.com>")
		if b.Cfg.HdrForm != "" {
			hdr, _ = origHeader(b.Cfg.HdrForm, b.Cfg.Utf8, "verif-subject-"+itoa(b.ID))
		}
		if err := d.Body(ctx, hdr, buffer.MemoryBuffer{Slice: []byte("hello\r\n")}); err != nil {
			t.Fatal(err)
		}
		tr.Emit("QAccept", vtrace.Ev{"rcpts": distinct})
		if b.Cfg.RestartFirst {
			// shut the queue down first: Commit on a stopped queue leaves the message in the spool
			// without scheduling it; a new queue on the same directory picks it up
			q.Close()
			if err := d.Commit(ctx); err != nil {
				t.Fatal(err)
			}
			q2, err := queue.VerifNewQueue(queue.VerifConfig{
				Location: dir, Target: tgt, Bounce: bounce, MaxTries: b.Cfg.Mt, MaxParallelism: 1,
				InitialRetryTime: retryDelay, RetryTimeScale: 1, PostInitDelay: 0,
				Hostname: "mx.example.org", AutogenMsgDomain: "example.org",
				Log: log.Logger{Out: log.NopOutput{}},
			})
			if err != nil {
				t.Fatal(err)
			}
			q = q2
			time.Sleep(2 * retryDelay)
		} else if err := d.Commit(ctx); err != nil {
			t.Fatal(err)
		}
		for i := 0; i < b.Cfg.Mt+3; i++ {
			synctest.Wait()
			if len(spoolFiles(dir)) == 0 {
				break
			}
			time.Sleep(2 * retryDelay)
		}
		synctest.Wait()
		files := spoolFiles(dir)
		tr.Emit("Quiesced", vtrace.Ev{"spoolEmpty": len(files) == 0, "files": append([]string{}, files...)})
		q.Close()
		if q2 != nil {
			q2.Close()
		}
	})
}

// reportSink is the bounce target of the second queue in chain mode: anything arriving
// here is a report about a report.
type reportSink struct{ tr *vtrace.Tracer }

func (s *reportSink) Start(ctx context.Context, m *module.MsgMetadata, from string) (module.Delivery, error) {
	s.tr.Emit("Dsn2", vtrace.Ev{"from": from})
	return nil, scripted.ErrFor("perm", "report sink")
}

func itoa(i int) string {
	b, _ := json.Marshal(i)
	return string(b)
}

func workDir() string {
	if d := os.Getenv("VERIF_TMP"); d != "" {
		return d
	}
	return os.TempDir()
}

func TestReplay(t *testing.T) {
	in, out := os.Getenv("VERIF_IN"), os.Getenv("VERIF_OUT")
	if in == "" || out == "" {
		t.Skip("VERIF_IN / VERIF_OUT not set")
	}
	f, err := os.Open(in)
	if err != nil {
		t.Fatal(err)
	}
	defer f.Close()
	of, err := os.Create(out)
	if err != nil {
		t.Fatal(err)
	}
	defer of.Close()
	w := bufio.NewWriter(of)
	defer w.Flush()
	sc := bufio.NewScanner(f)
	sc.Buffer(make([]byte, 1<<20), 1<<26)
	n := 0
	for sc.Scan() {
		var b Behaviour
		if err := json.Unmarshal(sc.Bytes(), &b); err != nil {
			t.Fatalf("bad behaviour line: %v", err)
		}
		runBehaviour(t, b, w)
		n++
	}
	t.Logf("replayed %d behaviours", n)
}
