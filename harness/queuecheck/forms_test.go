package queuecheck

import (
	"strings"

	"github.com/emersion/go-message/textproto"
)

// Harness-only data dimensions of the address SPELLING (Queue.tla is independent of how an address is
// spelled: a recipient is an identity there; what the model fixes is that a report lists the failed
// recipients "under the addresses the sender used", i.e. byte for byte).  Local parts are opaque to
// everyone but the final host (RFC 5321 2.3.11, RFC 6531 3.2), so every one of these spellings is a
// different, valid mailbox of an SMTPUTF8 message and must come back unchanged in Final-Recipient:
//
//	""       NFC, Cyrillic / Latin-1 letters                           (the original uniLocals)
//	"nfd"    canonically DEcomposed letters (e + U+0301 ...): NFC would change the bytes
//	"compat" compatibility characters (ligature, full-width, circled digit): NFKC / IDNA mapping would
//	"upper"  mailboxes that differ only by the case of a NON-ASCII letter: case folding would merge them
//	"mixed"  one decomposed, one composed spelling of the SAME letters: normalising merges the two mailboxes
var uniForms = map[string]map[string]string{
	"nfd":    {"r1": "rené", "r2": "üser2", "r3": "йr3"},
	"compat": {"r1": "ﬁrst", "r2": "ｒtwo", "r3": "①x"},
	"upper":  {"r1": "Üser", "r2": "üser", "r3": "ÜSER"},
	"mixed":  {"r1": "rené", "r2": "rené", "r3": "RENÉ"},
}

// setUniForm selects the spelling class for the running behaviour (behaviours run sequentially in a
// process); the returned function restores the default.
func setUniForm(form string) func() {
	m, ok := uniForms[form]
	if !ok {
		return func() {}
	}
	old := uniLocals
	uniLocals = m
	return func() { uniLocals = old }
}

// senderForms: spellings of the envelope sender of an SMTPUTF8 message (the report must go to exactly it)
var senderForms = map[string]string{
	"uni": "отправитель@example.com",
	"nfd": "sénder@example.com",
	"idn": "sender@пример.example",
}

func senderOf(c Cfg) string {
	if c.Utf8 {
		if s, ok := senderForms[c.SenderForm]; ok {
			return s
		}
	}
	return "sender@example.com"
}

// hdrForms: shapes of the ORIGINAL message's header (harness-only data dimension: Queue.tla says the report
// carries the header of the failed message, whatever it is).  Every field listed must be found in the header
// part of the report (scripted.Bounce.OrigFields).
//
//	""        Subject, From
//	"many"    a realistic trace: several Received fields (repeated field name), a folded long field, Message-ID, Date
//	"long"    one field of 900 characters without white space (must be carried, however it is folded)
//	"encoded" RFC 2047 encoded words
//	"utf8"    raw UTF-8 in Subject and From (only in an SMTPUTF8 message; otherwise like "encoded")
func origHeader(form string, utf8 bool, subject string) (textproto.Header, [][2]string) {
	fields := [][2]string{{"Subject", subject}, {"From", "<sender@example.com>"}}
	switch form {
	case "many":
		fields = append(fields,
			[2]string{"Received", "from a.example (a.example [192.0.2.1]) by b.example with ESMTPS id 1; Thu, 1 Oct 2026 10:00:00 +0000"},
			[2]string{"Received", "from b.example (b.example [192.0.2.2]) by c.example with ESMTPS id 2; Thu, 1 Oct 2026 10:00:01 +0000"},
			[2]string{"Received", "from c.example (c.example [192.0.2.3]) by mx.example.org with ESMTPS id 3; Thu, 1 Oct 2026 10:00:02 +0000"},
			[2]string{"Message-ID", "<verif-" + subject + "@example.com>"},
			[2]string{"Date", "Thu, 1 Oct 2026 10:00:00 +0000"},
			[2]string{"To", "a@example.org, b@example.org, c@example.org, d@example.org, e@example.org, f@example.org, g@example.org, h@example.org"},
			[2]string{"X-Verif", "kept"}, [2]string{"X-Verif", "kept twice"})
	case "long":
		fields = append(fields, [2]string{"X-Long", strings.Repeat("0123456789", 90)})
	case "encoded", "utf8":
		if form == "utf8" && utf8 {
			fields = append(fields, [2]string{"X-Subject-Raw", "пример темы — 例"}, [2]string{"Reply-To", "отправитель <sender@example.com>"})
		} else {
			fields = append(fields, [2]string{"X-Subject-Enc", "=?utf-8?b?0L/RgNC40LzQtdGA?= =?utf-8?q?t=C3=A9ma?="})
		}
	}
	h := textproto.Header{}
	for _, f := range fields {
		h.Add(f[0], f[1])
	}
	return h, fields
}
