package queuecheck

import (
	"bufio"
	"bytes"
	"context"
	"encoding/json"
	"errors"
	"io"
	"net"
	"os"
	"strings"
	"sync"
	"testing"
	"time"

	"github.com/emersion/go-message/textproto"
	"github.com/emersion/go-smtp"
	"github.com/foxcpp/go-mockdns"
	"github.com/foxcpp/maddy/framework/buffer"
	"github.com/foxcpp/maddy/framework/log"
	"github.com/foxcpp/maddy/framework/module"
	"github.com/foxcpp/maddy/internal/smtpconn/pool"
	"github.com/foxcpp/maddy/internal/target/queue"
	"github.com/foxcpp/maddy/internal/target/remote"
	"github.com/foxcpp/maddy/verifharness/scripted"
	"github.com/foxcpp/maddy/verifharness/vtrace"
)

// C01 variant (d): WHERE an unclassified failure of the body stage happens.
//
// Queue.tla knows one unclassified result of the body stage (TBody "unspec" / TBodyNA with every accepted
// recipient "unspec"): the transfer ended without the next hop giving an answer.  Variant (b) realises it on the
// server's side only (the hop hangs up after the final dot).  Here the same environment choice of a TLC behaviour is
// realised at the other points between "354" and the final dot, on the CLIENT's side of the real
// remote-MX / target.smtp / target.lmtp code (Behaviour.bodyFault).  The model is independent of the point - to the
// queue all of them are "the body stage failed without a classification for every accepted recipient" - so this is a
// harness-only data dimension; the property predicates stay the ones of QueueObs.tla evaluated by TLC on the trace.
//
//	open     the spooled body cannot be opened (nothing of the body stage reaches the wire)
//	read0    the first read of the spooled body fails (I/O error right after 354)
//	readmid  reading fails in the middle of a body larger than any buffer (part of it is on the wire already)
//	readend  everything is read, the reader then reports an I/O error instead of EOF
//	reset    the hop resets the connection while the client is still writing a body larger than any socket buffer
//	wr0      the client's socket fails on the first write after 354 (small body: when the final dot is flushed)
//	wrmid    the client's socket fails after 64 KiB of a large body                      (wr*: remote-MX only, its dialer)
//
// The T* events are logged by the next hop (ground truth: what the server got and answered).  A transaction whose
// data stream ends before the final dot, or that is given up after accepted recipients without DATA, is logged as
// body stage "unspec" + TAbort: the server did not get a message.  Because the client hangs up without a reply in
// these cases, the interposed target waits (bfHop.idle) until the hop has logged the end of the transaction before the
// queue's Abort/Commit returns and before the next attempt starts - the order of events is never left to the scheduler.
type bfBehaviour struct {
	Behaviour
	Fault string `json:"bodyFault"`
}

var errBF = errors.New("verif: scripted I/O error while reading the spooled body")

// bodyUnspec: does the plan of this attempt say "unclassified failure of the body stage for every accepted recipient"?
func bodyUnspec(p scripted.AttemptPlan) bool {
	if p.Body == "unspec" {
		return true
	}
	if len(p.Status) == 0 {
		return false
	}
	for _, v := range p.Status {
		if v != "unspec" {
			return false
		}
	}
	return true
}

type bfHop struct {
	l     net.Listener
	lmtp  bool
	mu    sync.Mutex
	cond  *sync.Cond
	tr    *vtrace.Tracer
	plan  []scripted.AttemptPlan
	na    bool
	fault string
	noU8  bool // the hop does not advertise SMTPUTF8 (internationalized recipients of a non-SMTPUTF8 message: the client converts)
	att   int
	open  int // transactions begun (MAIL accepted) whose end the hop has not logged yet
	wg    sync.WaitGroup
}

func newBFHop(lmtp bool) (*bfHop, error) {
	l, err := net.Listen("tcp4", "127.0.0.1:0")
	if err != nil {
		return nil, err
	}
	h := &bfHop{l: l, lmtp: lmtp}
	h.cond = sync.NewCond(&h.mu)
	go func() {
		for {
			c, err := h.l.Accept()
			if err != nil {
				return
			}
			h.wg.Add(1)
			go func() {
				defer h.wg.Done()
				defer c.Close()
				h.handle(c)
			}()
		}
	}()
	return h, nil
}

// idle waits until every transaction the hop accepted has been logged to its end.
func (h *bfHop) idle(d time.Duration) bool {
	deadline := time.Now().Add(d)
	tm := time.AfterFunc(d, func() { h.mu.Lock(); h.cond.Broadcast(); h.mu.Unlock() })
	defer tm.Stop()
	h.mu.Lock()
	defer h.mu.Unlock()
	for h.open != 0 {
		if !time.Now().Before(deadline) {
			return false
		}
		h.cond.Wait()
	}
	return true
}

func (h *bfHop) handle(c net.Conn) {
	c.SetDeadline(time.Now().Add(60 * time.Second))
	rd := bufio.NewReader(c)
	wr := func(s string) bool { _, err := c.Write([]byte(s + "\r\n")); return err == nil }
	if !wr("220 hop.example ready") {
		return
	}
	var (
		plan  scripted.AttemptPlan
		att   int
		inTxn bool
		acc   []string
		used  []bool
		tr    *vtrace.Tracer
		na    bool
		fault string
	)
	end := func() {
		if inTxn {
			inTxn = false
			h.mu.Lock()
			if h.tr == tr { // (a connection left over from an earlier behaviour does not count for the current one)
				h.open--
			}
			h.cond.Broadcast()
			h.mu.Unlock()
		}
	}
	// the body stage of the running transaction ended without the hop having got a message
	noMsg := func() {
		if !inTxn {
			return
		}
		if len(acc) > 0 {
			if na || h.lmtp {
				st := map[string]interface{}{}
				for _, r := range acc {
					st[r] = "unspec"
				}
				tr.Emit("TBodyNA", vtrace.Ev{"att": att, "st": st})
			} else {
				tr.Emit("TBody", vtrace.Ev{"att": att, "res": "unspec"})
			}
		}
		tr.Emit("TAbort", vtrace.Ev{"att": att})
		end()
	}
	defer noMsg()
	for {
		line, err := rd.ReadString('\n')
		if err != nil {
			return
		}
		line = strings.TrimRight(line, "\r\n")
		verb, arg := line, ""
		if i := strings.IndexByte(line, ' '); i >= 0 {
			verb, arg = line[:i], line[i+1:]
		}
		switch strings.ToUpper(verb) {
		case "EHLO", "LHLO":
			h.mu.Lock()
			u8 := "250-SMTPUTF8\r\n"
			if h.noU8 {
				u8 = ""
			}
			h.mu.Unlock()
			if !wr("250-hop.example\r\n250-8BITMIME\r\n" + u8 + "250 ENHANCEDSTATUSCODES") {
				return
			}
		case "MAIL":
			noMsg() // (a MAIL inside a transaction does not happen with the clients at hand)
			h.mu.Lock()
			h.att++
			att = h.att
			plan = scripted.AttemptPlan{}
			if att-1 < len(h.plan) {
				plan = h.plan[att-1]
			}
			tr, na, fault = h.tr, h.na, h.fault
			h.mu.Unlock()
			res := plan.Start
			if res == "" {
				res = "ok"
			}
			tr.Emit("TStart", vtrace.Ev{"att": att, "res": res})
			if res == "unspec" {
				return
			}
			if res == "ok" {
				h.mu.Lock()
				h.open++
				h.mu.Unlock()
				inTxn, acc, used = true, nil, make([]bool, len(plan.Rcpt))
			}
			if !wr(code(res)) {
				return
			}
		case "RCPT":
			if !inTxn {
				wr("503 5.5.1 MAIL first")
				continue
			}
			r := idOf(argAddr(arg))
			res := "ok"
			for i, pr := range plan.Rcpt {
				if !used[i] && pr.R == r {
					used[i] = true
					if pr.Res != "" {
						res = pr.Res
					}
					break
				}
			}
			if res == "unspec" {
				res = "temp"
			}
			tr.Emit("TAddRcpt", vtrace.Ev{"att": att, "r": r, "res": res})
			if res == "ok" {
				acc = append(acc, r)
			}
			if !wr(code(res)) {
				return
			}
		case "DATA":
			if !inTxn || len(acc) == 0 {
				wr("503 5.5.1 RCPT first")
				continue
			}
			if !wr("354 go ahead") {
				return
			}
			if fault == "reset" && bodyUnspec(plan) {
				io.CopyN(io.Discard, rd, 16<<10)
				noMsg()
				if tc, ok := c.(*net.TCPConn); ok {
					tc.SetLinger(0)
				}
				return
			}
			for {
				l, err := rd.ReadString('\n')
				if err != nil {
					return // (noMsg: the stream ended before the final dot)
				}
				if l == ".\r\n" {
					break
				}
			}
			// The hop has a complete message.  In an attempt whose unclassified failure is realised on the client's side
			// the hop itself is healthy: should the client have terminated the stream after all (what it sent of the
			// message, then the final dot), the hop does what a server does with a complete DATA - it takes the message.
			healthy := fault != "reset" && bodyUnspec(plan)
			st := map[string]interface{}{}
			dropAt := -1
			if !h.lmtp {
				res := plan.Body
				if res == "" || healthy {
					res = "ok"
				}
				if na && res == "ok" && !healthy {
					// a per-recipient plan over an SMTP hop: the first scripted non-ok status is the result of DATA
					for _, r := range acc {
						if s := plan.Status[r]; s != "" && s != "ok" {
							res = s
							break
						}
					}
				}
				for _, r := range acc {
					st[r] = res
				}
				if na {
					tr.Emit("TBodyNA", vtrace.Ev{"att": att, "st": st})
				} else {
					tr.Emit("TBody", vtrace.Ev{"att": att, "res": res})
				}
				if res == "ok" {
					tr.Emit("TCommit", vtrace.Ev{"att": att, "res": "ok"})
				} else {
					tr.Emit("TAbort", vtrace.Ev{"att": att})
				}
				end()
				if res == "unspec" {
					return
				}
				if !wr(code(res)) {
					return
				}
				continue
			}
			// LMTP: one reply per accepted recipient; a drop leaves the rest unanswered
			anyOK := false
			for i, r := range acc {
				res := plan.Status[r]
				if res == "" || healthy {
					res = "ok"
				}
				if dropAt >= 0 {
					res = "unspec"
				} else if res == "unspec" {
					dropAt = i
				}
				st[r] = res
				anyOK = anyOK || res == "ok"
			}
			tr.Emit("TBodyNA", vtrace.Ev{"att": att, "st": st})
			if anyOK {
				tr.Emit("TCommit", vtrace.Ev{"att": att, "res": "ok"})
			} else {
				tr.Emit("TAbort", vtrace.Ev{"att": att})
			}
			end()
			for i, r := range acc {
				if i == dropAt {
					return
				}
				if !wr(code(st[r].(string))) {
					return
				}
			}
		case "RSET":
			noMsg()
			if !wr("250 2.0.0 reset") {
				return
			}
		case "NOOP":
			if !wr("250 2.0.0 ok") {
				return
			}
		case "QUIT":
			noMsg()
			wr("221 2.0.0 bye")
			return
		default:
			if !wr("500 5.5.1 unknown command") {
				return
			}
		}
	}
}

// ---- the spooled body as the downstream sees it ----

type bfBuffer struct {
	buffer.Buffer
	fault string
}

type bfReader struct {
	io.ReadCloser
	left int  // bytes handed out before the error (-1: all of them)
	end  bool // report the error instead of EOF
}

func (b bfBuffer) Open() (io.ReadCloser, error) {
	if b.fault == "open" {
		return nil, errBF
	}
	r, err := b.Buffer.Open()
	if err != nil {
		return nil, err
	}
	switch b.fault {
	case "read0":
		return &bfReader{ReadCloser: r, left: 0}, nil
	case "readmid":
		return &bfReader{ReadCloser: r, left: b.Buffer.Len() / 2}, nil
	case "readend":
		return &bfReader{ReadCloser: r, left: -1, end: true}, nil
	}
	return r, nil
}

func (r *bfReader) Read(p []byte) (int, error) {
	if r.left == 0 {
		return 0, errBF
	}
	if r.left > 0 && len(p) > r.left {
		p = p[:r.left]
	}
	n, err := r.ReadCloser.Read(p)
	if r.left > 0 {
		r.left -= n
	}
	if err == io.EOF && r.end {
		err = errBF
	}
	return n, err
}

// ---- the client's socket (remote-MX: its dialer) ----

type bfConn struct {
	net.Conn
	now   func() bool // is the running attempt one whose plan says "body stage: unclassified failure"?
	after int         // bytes that still get through after "354"
	mu    sync.Mutex
	armed bool // "354" was the last thing read
	left  int
	tail  []byte
}

func (c *bfConn) Read(p []byte) (int, error) {
	n, err := c.Conn.Read(p)
	c.mu.Lock()
	if n > 0 {
		c.tail = append(c.tail, p[:n]...)
		if len(c.tail) > 64 {
			c.tail = c.tail[len(c.tail)-64:]
		}
		// (the server says nothing after 354 until it has the final dot: 354 is the end of what was read)
		i := bytes.LastIndex(c.tail, []byte("\n354 "))
		c.armed = i >= 0 && bytes.IndexByte(c.tail[i+1:], '\n') == len(c.tail)-i-2
		if c.armed {
			c.left = c.after
		}
	}
	c.mu.Unlock()
	return n, err
}

func (c *bfConn) Write(p []byte) (int, error) {
	c.mu.Lock()
	armed, left := c.armed, c.left
	c.mu.Unlock()
	if !armed || !c.now() {
		return c.Conn.Write(p)
	}
	if left <= 0 {
		return 0, &net.OpError{Op: "write", Net: "tcp", Err: errors.New("verif: scripted failure of the socket")}
	}
	if len(p) > left {
		n, _ := c.Conn.Write(p[:left])
		c.mu.Lock()
		c.left = 0
		c.mu.Unlock()
		return n, &net.OpError{Op: "write", Net: "tcp", Err: errors.New("verif: scripted failure of the socket")}
	}
	n, err := c.Conn.Write(p)
	c.mu.Lock()
	c.left -= n
	c.mu.Unlock()
	return n, err
}

// ---- the interposed target: hands the downstream the failing body, keeps the event order ----

type bfTarget struct {
	inner module.DeliveryTarget
	h     *bfHop
	fault string
	plan  []scripted.AttemptPlan
	mu    sync.Mutex
	att   int
	stuck bool
}

// faultNow: does the plan of the running attempt say "unclassified failure of the body stage"?
func (t *bfTarget) faultNow() bool {
	t.mu.Lock()
	defer t.mu.Unlock()
	return t.att >= 1 && t.att-1 < len(t.plan) && bodyUnspec(t.plan[t.att-1])
}

func (t *bfTarget) wait() {
	if !t.h.idle(20 * time.Second) {
		t.mu.Lock()
		t.stuck = true
		t.mu.Unlock()
	}
}

type bfDelivery struct {
	module.Delivery
	t   *bfTarget
	att int
}

type bfPartial struct {
	*bfDelivery
	pd module.PartialDelivery
}

func (t *bfTarget) Start(ctx context.Context, m *module.MsgMetadata, from string) (module.Delivery, error) {
	t.wait()
	t.mu.Lock()
	t.att++
	att := t.att
	t.mu.Unlock()
	d, err := t.inner.Start(ctx, m, from)
	if err != nil {
		return nil, err
	}
	bd := &bfDelivery{Delivery: d, t: t, att: att}
	if pd, ok := d.(module.PartialDelivery); ok {
		return &bfPartial{bfDelivery: bd, pd: pd}, nil
	}
	return bd, nil
}

func (d *bfDelivery) body(b buffer.Buffer) buffer.Buffer {
	if d.att-1 < len(d.t.plan) && bodyUnspec(d.t.plan[d.att-1]) {
		switch d.t.fault {
		case "open", "read0", "readmid", "readend":
			return bfBuffer{Buffer: b, fault: d.t.fault}
		}
	}
	return b
}

func (d *bfDelivery) Body(ctx context.Context, hdr textproto.Header, b buffer.Buffer) error {
	return d.Delivery.Body(ctx, hdr, d.body(b))
}

func (d *bfPartial) BodyNonAtomic(ctx context.Context, sc module.StatusCollector, hdr textproto.Header, b buffer.Buffer) {
	d.pd.BodyNonAtomic(ctx, sc, hdr, d.body(b))
}

func (d *bfDelivery) Abort(ctx context.Context) error {
	err := d.Delivery.Abort(ctx)
	d.t.wait()
	return err
}

func (d *bfDelivery) Commit(ctx context.Context) error {
	err := d.Delivery.Commit(ctx)
	d.t.wait()
	return err
}

func bfBig(f string) bool { return f == "readmid" || f == "reset" || f == "wrmid" }

func runBodyFault(t *testing.T, b bfBehaviour, w *bufio.Writer, hops map[bool]*bfHop, downs map[bool]module.DeliveryTarget) {
	dir, err := os.MkdirTemp(workDir(), "spool")
	if err != nil {
		t.Fatal(err)
	}
	defer os.RemoveAll(dir)
	// Cfg.Idn (harness-only, as in variant (b)): the recipients live in an internationalized domain, the message is not
	// SMTPUTF8 and the hop does not do SMTPUTF8 - the client has to convert the addresses for the wire while the
	// queue's status keys stay the addresses it handed over
	useIdn, caseVar, uniLocal, hopTempCode, hopNoEnh = b.Cfg.Idn, false, false, "451", false
	defer func() { useIdn = false }()
	tr := vtrace.New(w, b.ID)
	tr.Emit("Cfg", vtrace.Ev{"partial": b.Cfg.Partial, "bounce": b.Cfg.Bounce, "nullSender": b.Cfg.NullSender,
		"mt": b.Cfg.Mt, "list": b.Cfg.List, "rw": []string{}, "utf8": false, "chain": false,
		"idn": b.Cfg.Idn, "errtext": "", "real": true, "fwd": b.Cfg.Fwd, "sts": "", "enh": true, "bodyFault": b.Fault})
	isRemote := b.Cfg.Fwd == "remote"
	lmtp := b.Cfg.Partial && !isRemote
	h := hops[lmtp]
	plan := PlanOf(b.Hist)
	h.mu.Lock()
	h.tr, h.plan, h.att, h.na, h.fault, h.open, h.noU8 = tr, plan, 0, isRemote, b.Fault, 0, b.Cfg.Idn
	h.mu.Unlock()
	tgt := &bfTarget{h: h, fault: b.Fault, plan: plan}
	var inner module.DeliveryTarget = downs[lmtp]
	if isRemote {
		mxHost := "hop.example.org."
		rt := remote.VerifRemoteNewTarget(remote.VerifRemoteConfig{
			Hostname: "mx.example.org",
			Resolver: &mockdns.Resolver{Zones: map[string]mockdns.Zone{
				"example.org.":          {MX: []net.MX{{Host: mxHost, Pref: 10}}},
				"xn--e1afmkfd.example.": {MX: []net.MX{{Host: mxHost, Pref: 10}}},
				"пример.example.":       {MX: []net.MX{{Host: mxHost, Pref: 10}}},
				mxHost:                  {A: []string{"127.0.0.1"}},
			}},
			Dialer: func(ctx context.Context, network, _ string) (net.Conn, error) {
				var d net.Dialer
				c, err := d.DialContext(ctx, "tcp4", h.l.Addr().String())
				if err != nil {
					return nil, err
				}
				switch b.Fault {
				case "wr0":
					return &bfConn{Conn: c, now: tgt.faultNow, after: 0}, nil
				case "wrmid":
					return &bfConn{Conn: c, now: tgt.faultNow, after: 64 << 10}, nil
				}
				return c, nil
			},
			Pool:           pool.Config{MaxKeys: 100, MaxConnsPerKey: 5, MaxConnLifetimeSec: 150, StaleKeyLifetimeSec: 300},
			ConnReuseLimit: 1, ConnectTimeout: 30 * time.Second, CommandTimeout: 30 * time.Second,
			SubmissionTimeout: 30 * time.Second, Log: log.Logger{Out: log.NopOutput{}},
		})
		defer rt.Close()
		inner = rt
	}
	tgt.inner = inner
	from := "sender@example.com"
	if b.Cfg.NullSender {
		from = ""
	}
	var bounce module.DeliveryTarget
	if b.Cfg.Bounce {
		bounce = &scripted.Bounce{Tr: tr, ID: reportID, Sender: from, OrigSubject: "verif-subject-" + itoa(b.ID)}
	}
	qlog := log.Logger{Out: log.NopOutput{}}
	if os.Getenv("VERIF_DEBUG") != "" {
		qlog = log.Logger{Out: log.WriterOutput(os.Stderr, false), Debug: true, Name: "queue"}
	}
	q, err := queue.VerifNewQueue(queue.VerifConfig{
		Location: dir, Target: tgt, Bounce: bounce, MaxTries: b.Cfg.Mt, MaxParallelism: 1,
		InitialRetryTime: time.Millisecond, RetryTimeScale: 1, PostInitDelay: 0,
		Hostname: "mx.example.org", AutogenMsgDomain: "example.org", Log: qlog,
	})
	if err != nil {
		t.Fatal(err)
	}
	ctx := context.Background()
	meta := &module.MsgMetadata{ID: "msg" + itoa(b.ID), OriginalFrom: from, SMTPOpts: smtp.MailOptions{}}
	d, err := q.Start(ctx, meta, from)
	if err != nil {
		t.Fatal(err)
	}
	seen := map[string]bool{}
	distinct := []string{}
	for _, r := range b.Cfg.List {
		if err := d.AddRcpt(ctx, addr(r), smtp.RcptOptions{}); err != nil {
			t.Fatal(err)
		}
		if !seen[r] {
			seen[r] = true
			distinct = append(distinct, r)
		}
	}
	hdr := textproto.Header{}
	hdr.Add("Subject", "verif-subject-"+itoa(b.ID))
	hdr.Add("From", "<sender@example.com>")
	body := []byte("hello\r\n.dot\r\n")
	if bfBig(b.Fault) {
		body = append(body, bytes.Repeat([]byte("0123456789abcdef0123456789abcdef0123456789abcdef0123456789abcd\r\n"), 8<<20/64)...)
	}
	if err := d.Body(ctx, hdr, buffer.MemoryBuffer{Slice: body}); err != nil {
		t.Fatal(err)
	}
	tr.Emit("QAccept", vtrace.Ev{"rcpts": distinct})
	if err := d.Commit(ctx); err != nil {
		t.Fatal(err)
	}
	deadline := time.Now().Add(40 * time.Second)
	broken := func() bool {
		for _, f := range spoolFiles(dir) {
			if strings.HasSuffix(f, ".meta_broken") {
				return true
			}
		}
		return false
	}
	for len(spoolFiles(dir)) != 0 && !broken() && time.Now().Before(deadline) {
		time.Sleep(2 * time.Millisecond)
	}
	q.Close() // waits for the in-flight attempt, if any
	tgt.wait()
	files := spoolFiles(dir)
	tgt.mu.Lock()
	stuck := tgt.stuck
	tgt.mu.Unlock()
	if stuck {
		// the hop never saw the end of a transaction the client had given up: the order of the events is not defined
		tr.Emit("Stuck", vtrace.Ev{"files": append([]string{"(transaction left open on the next hop)"}, files...)})
		return
	}
	if len(files) != 0 {
		if broken() {
			tr.Emit("Quiesced", vtrace.Ev{"spoolEmpty": false, "files": append([]string{}, files...)})
			return
		}
		tr.Emit("Stuck", vtrace.Ev{"files": append([]string{}, files...)})
		return
	}
	tr.Emit("Quiesced", vtrace.Ev{"spoolEmpty": true, "files": []string{}})
}

func TestReplayBodyFault(t *testing.T) {
	in, out := os.Getenv("VERIF_IN"), os.Getenv("VERIF_OUT")
	if in == "" || out == "" {
		t.Skip("VERIF_IN / VERIF_OUT not set")
	}
	f, err := os.Open(in)
	if err != nil {
		t.Fatal(err)
	}
	defer f.Close()
	of, err := os.Create(out)
	if err != nil {
		t.Fatal(err)
	}
	defer of.Close()
	w := bufio.NewWriter(of)
	defer w.Flush()
	hops := map[bool]*bfHop{}
	downs := map[bool]module.DeliveryTarget{}
	for _, lmtp := range []bool{false, true} {
		h, err := newBFHop(lmtp)
		if err != nil {
			t.Fatal(err)
		}
		defer h.l.Close()
		hops[lmtp] = h
		downs[lmtp] = mkDown(t, lmtp, h.l.Addr().String())
	}
	sc := bufio.NewScanner(f)
	sc.Buffer(make([]byte, 1<<20), 1<<26)
	for sc.Scan() {
		var b bfBehaviour
		if err := json.Unmarshal(sc.Bytes(), &b); err != nil {
			t.Fatalf("bad behaviour line: %v", err)
		}
		runBodyFault(t, b, w, hops, downs)
	}
}
