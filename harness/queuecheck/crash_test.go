package queuecheck

import (
	"bufio"
	"bytes"
	"context"
	"encoding/json"
	"io"
	"math/rand"
	"os"
	"strconv"
	"strings"
	"syscall"
	"testing"
	"testing/synctest"
	"time"

	"github.com/emersion/go-message/textproto"
	"github.com/emersion/go-smtp"
	"github.com/foxcpp/maddy/framework/buffer"
	"github.com/foxcpp/maddy/framework/log"
	"github.com/foxcpp/maddy/framework/module"
	"github.com/foxcpp/maddy/internal/target/queue"
	"github.com/foxcpp/maddy/verifharness/scripted"
	"github.com/foxcpp/maddy/verifharness/vos"
	"github.com/foxcpp/maddy/verifharness/vtrace"
)

// Crash replay (C02). Requires the vos overlay (queue.go's "os" import swapped).
//
// Input: scenarios {"id":N,"cfg":{"partial":..,"list":[..]},"hist":[...],"upstream":"commit"|"abort"|"refuse"|"abort0",
// "shape":..,"src":..}.
// For every scenario: a crash-free run learns the mutating file operations; then one run per
// selected crash point (before op k, torn write k, ordered/strong snapshot), the recovery
// incarnation runs on the snapshot; depth 2 repeats that inside the recovery run.
//
// Message shape (model: cfg.body = "data" | "empty"): "small" (default), "empty" (header-only mail, the
// body file has length zero), "bare" (no header field and no body), "multi" (the body copy takes
// several writes). Refusal (model: StoreFail(op) in the history, upstream "refuse"): the store fails
// at the named step - an I/O error injected by the vos shim into that file operation, or a source
// buffer that cannot be opened / whose reader fails half-way - Body returns the error and the source
// aborts, as every source does; "abort0" = the source aborts without ever calling Body.
// Harness-only dimension (the model does not depend on where the body bytes come from): src = the
// kind of buffer the source hands over - "mem" (default), "file" (a file buffer the source removes
// when the transaction is over), "lenover" / "lenzero" (a buffer whose Len() disagrees with what its
// reader yields: a stale length hint, a stat failure). Whatever the scenario says, when Body returns
// an error the harness aborts the transaction: the verdict is about what the restarted queue does then.
// Two more harness-only dimensions: addr = the recipients' address alphabet ("" ASCII, "case" = they differ
// only by the letter case of the local part, "uni" = non-ASCII local parts in an SMTPUTF8 message, "idn" =
// an internationalized domain; they end up in the JSON meta-data file) and stray = the spool directory
// holds entries that belong to no message of this run (a sub-directory, a text file, the quarantined
// .meta_broken and a left-over .meta.new of other messages): the start-up scan has to step over them.

type CrashSpec struct {
	K        int    `json:"k"`
	Torn     bool   `json:"torn"`
	Strength string `json:"strength"`
}

type Scenario struct {
	ID       int    `json:"id"`
	Cfg      Cfg    `json:"cfg"`
	Hist     []Step `json:"hist"`
	Upstream string `json:"upstream"`
	Shape    string `json:"shape"`
	Src      string `json:"src"`
	Addr     string `json:"addr"`
	Stray    bool   `json:"stray"`
	// explicit crash list (replay mode); empty = enumerate
	Crashes []CrashSpec `json:"crashes"`
}

// crashMsg is the message of a shape: header and body bytes.
func crashMsg(shape, subject string) (textproto.Header, []byte) {
	hdr := textproto.Header{}
	if shape != "bare" {
		hdr.Add("Subject", subject)
		hdr.Add("From", "<sender@example.com>")
	}
	switch shape {
	case "empty", "bare":
		return hdr, []byte{}
	case "multi":
		return hdr, bytes.Repeat([]byte("0123456789abcdefghijklmnopqrstuvwxyz 0123456789abcdefghijklmn\r\n"), 70*1024/64)
	}
	return hdr, []byte(crashBody)
}

func bodyKind(shape string) string {
	if shape == "empty" || shape == "bare" {
		return "empty"
	}
	return "data"
}

func failOpOf(h []Step) string {
	for _, s := range h {
		if s.A == "StoreFail" {
			return s.Res
		}
	}
	return ""
}

// oddBuf is a source buffer that misbehaves: Open fails, the reader fails after failAt bytes
// (failAt >= 0), or Len() reports something else than the number of bytes the reader yields.
type oddBuf struct {
	data    []byte
	openErr bool
	failAt  int
	lenRep  int
	onFail  func(op string)
}

type oddReader struct {
	b    *oddBuf
	r    *bytes.Reader
	left int
}

func (r *oddReader) Read(p []byte) (int, error) {
	if r.b.failAt >= 0 {
		if r.left <= 0 {
			if r.b.onFail != nil {
				r.b.onFail("read")
			}
			return 0, syscall.EIO
		}
		if len(p) > r.left {
			p = p[:r.left]
		}
	}
	n, err := r.r.Read(p)
	r.left -= n
	return n, err
}
func (r *oddReader) Close() error { return nil }
func (b *oddBuf) Open() (io.ReadCloser, error) {
	if b.openErr {
		if b.onFail != nil {
			b.onFail("open")
		}
		return nil, &os.PathError{Op: "open", Path: "source-buffer", Err: syscall.EIO}
	}
	return &oddReader{b: b, r: bytes.NewReader(b.data), left: b.failAt}, nil
}
func (b *oddBuf) Len() int      { return b.lenRep }
func (b *oddBuf) Remove() error { return nil }

// sourceBuf builds the buffer the source hands to Body.
func sourceBuf(t *testing.T, src, failOp string, body []byte, onFail func(op string)) buffer.Buffer {
	switch {
	case failOp == "open:src":
		return &oddBuf{data: body, openErr: true, failAt: -1, lenRep: len(body), onFail: onFail}
	case failOp == "read:src":
		return &oddBuf{data: body, failAt: len(body) / 2, lenRep: len(body), onFail: onFail}
	case src == "lenover":
		return &oddBuf{data: body, failAt: -1, lenRep: len(body) + 4096}
	case src == "lenzero":
		return &oddBuf{data: body, failAt: -1, lenRep: 0}
	case src == "file":
		d, err := os.MkdirTemp(workDir(), "srcbuf")
		if err != nil {
			t.Fatal(err)
		}
		fb, err := buffer.BufferInFile(bytes.NewReader(body), d)
		if err != nil {
			t.Fatal(err)
		}
		return fb
	}
	return buffer.MemoryBuffer{Slice: append([]byte{}, body...)}
}

// dropSource is what a source does with its buffer once the transaction is over.
func dropSource(b buffer.Buffer) {
	if fb, ok := b.(buffer.FileBuffer); ok {
		fb.Remove()
		os.Remove(fb.Path[:strings.LastIndexByte(fb.Path, '/')])
	}
}

const crashMt = 2
const crashBody = "hello\r\nworld\r\n"

type runResult struct {
	ops     [][]vos.Op // mutating ops per incarnation
	crashed []bool
}

// strayEntries puts things into the spool that belong to no message the queue knows.
func strayEntries(t *testing.T, dir string) {
	if err := os.Mkdir(dir+"/lost+found", 0o700); err != nil {
		t.Fatal(err)
	}
	for name, data := range map[string]string{
		"00README.txt":        "spool of the verification harness\n",
		"0000old.meta_broken": "{\"MsgMeta\":{\"ID\":\"0000old\"},\"From\":\"x@example.org\",\"To\":[\"y@example.org\"]}\n",
		"0001old.meta.new":    "{\"MsgMeta\":{\"ID\":\"0001old\"},\"Fr",
		"zzzz.tmp":            "",
	} {
		if err := os.WriteFile(dir+"/"+name, []byte(data), 0o600); err != nil {
			t.Fatal(err)
		}
	}
}

func runCrash(t *testing.T, sc Scenario, crashes []CrashSpec, tno int, w *bufio.Writer) runResult {
	var res runResult
	caseVar, uniLocal, useIdn = sc.Addr == "case", sc.Addr == "uni", sc.Addr == "idn"
	defer func() { caseVar, uniLocal, useIdn = false, false, false }()
	tr := vtrace.New(w, tno)
	cr := make([]map[string]interface{}, 0, len(crashes))
	for _, c := range crashes {
		cr = append(cr, map[string]interface{}{"k": c.K, "torn": c.Torn, "strength": c.Strength})
	}
	tr.Emit("Cfg", vtrace.Ev{"partial": sc.Cfg.Partial, "list": sc.Cfg.List, "mt": crashMt,
		"upstream": sc.Upstream, "crashes": cr, "scenario": sc.ID,
		"body": bodyKind(sc.Shape), "shape": sc.Shape, "src": sc.Src, "addr": sc.Addr, "stray": sc.Stray})
	plan := PlanOf(sc.Hist)
	wantHdr, wantBody := crashMsg(sc.Shape, "verif crash")
	wantHdrBytes := serializeHdr(wantHdr)
	failOp := failOpOf(sc.Hist)
	dir, err := os.MkdirTemp(workDir(), "spool")
	if err != nil {
		t.Fatal(err)
	}
	dirs := []string{dir}
	defer func() {
		for _, d := range dirs {
			os.RemoveAll(d)
		}
	}()
	if sc.Stray {
		strayEntries(t, dir)
	}
	att := 0
	bounceN := 0
	for inc := 0; ; inc++ {
		ctl := &vos.Controller{Dir: dir}
		if inc < len(crashes) {
			snap, err := os.MkdirTemp(workDir(), "snap")
			if err != nil {
				t.Fatal(err)
			}
			dirs = append(dirs, snap)
			ctl.CrashAt, ctl.Torn, ctl.Strength, ctl.SnapDir = crashes[inc].K, crashes[inc].Torn, crashes[inc].Strength, snap
		}
		var ops []vos.Op
		ctl.OnOp = func(o vos.Op) {
			ops = append(ops, o)
			if o.Op == "call" {
				return
			}
			tr.Emit("Fs", vtrace.Ev{"op": o.Op, "file": o.File, "n": o.N})
		}
		ctl.OnCrash = func(k int, o vos.Op) {
			tr.Emit("Crash", vtrace.Ev{"k": k, "torn": o.Torn, "strength": ctl.Strength,
				"at": o.Op + ":" + o.File})
		}
		if inc == 0 && failOp != "" && !strings.HasSuffix(failOp, ":src") {
			ctl.FailOp = failOp // an I/O error in that step of the store chain
			if failOp == "write:body" && sc.Shape == "multi" {
				ctl.FailNth = 2
			}
			ctl.OnFail = func(o vos.Op) { tr.Emit("FsErr", vtrace.Ev{"op": o.Op, "file": o.File}) }
		}
		vos.Register(ctl)
		tgt := &scripted.Target{Tr: tr, Plan: plan, Partial: sc.Cfg.Partial, ID: idOf,
			InspectBody: func(_ int, hdr textproto.Header, body buffer.Buffer) vtrace.Ev {
				ok := bytes.Equal(serializeHdr(hdr), wantHdrBytes)
				if r, err := body.Open(); err == nil {
					b, _ := io.ReadAll(r)
					r.Close()
					ok = ok && bytes.Equal(b, wantBody)
				} else {
					ok = false
				}
				return vtrace.Ev{"intact": ok}
			},
			OnCall: func(op string) { ctl.Point("call:" + op) }}
		tgt.SetAtt(att)
		bnc := &scripted.Bounce{Tr: tr, ID: idOf, OnCall: func() { ctl.Point("call:bounce") }}
		_ = bounceN
		synctest.Test(t, func(t *testing.T) {
			if inc > 0 {
				tr.Emit("Restart", nil)
			}
			q, err := queue.VerifPrepare(queue.VerifConfig{
				Location: dir, Target: tgt, Bounce: bnc, MaxTries: crashMt, MaxParallelism: 1,
				InitialRetryTime: schedOf(sc.ID).init, RetryTimeScale: schedOf(sc.ID).scale, PostInitDelay: schedOf(sc.ID).pid,
				Hostname: "mx.example.org", AutogenMsgDomain: "example.org",
				Log: log.Logger{Out: log.NopOutput{}},
			})
			if err != nil {
				t.Fatal(err)
			}
			started := make(chan struct{})
			go func() { // the start-up scan may hit the crash point (Goexit)
				defer close(started)
				if err := q.VerifStart(1); err != nil {
					t.Error(err)
				}
			}()
			<-started
			if ctl.Crashed() {
				if q.VerifStarted() {
					q.Close()
				}
				return
			}
			if inc == 0 {
				done := make(chan struct{})
				go func() {
					defer close(done)
					ctx := context.Background()
					meta := &module.MsgMetadata{ID: "msg" + strconv.Itoa(sc.ID), OriginalFrom: "sender@example.com",
						SMTPOpts: smtp.MailOptions{UTF8: sc.Addr == "uni"}}
					d, err := q.Start(ctx, meta, "sender@example.com")
					if err != nil {
						t.Error(err)
						return
					}
					for _, r := range sc.Cfg.List {
						if err := d.AddRcpt(ctx, addr(r), smtp.RcptOptions{}); err != nil {
							t.Error(err)
							return
						}
					}
					if sc.Upstream == "abort0" { // the transaction ends before the source ever called Body
						tr.Emit("QAbort", nil)
						err := d.Abort(ctx)
						tr.Emit("QAbortRet", vtrace.Ev{"err": err != nil})
						return
					}
					hdr := wantHdr.Copy()
					buf := sourceBuf(t, sc.Src, failOp, wantBody, func(op string) {
						tr.Emit("FsErr", vtrace.Ev{"op": op, "file": "src"})
					})
					defer dropSource(buf)
					tr.Emit("QBody", nil)
					berr := d.Body(ctx, hdr, buf)
					tr.Emit("QBodyRet", vtrace.Ev{"err": berr != nil})
					if berr != nil { // refused: the source aborts the transaction and tells its client
						tr.Emit("QAbort", nil)
						err := d.Abort(ctx)
						tr.Emit("QAbortRet", vtrace.Ev{"err": err != nil})
						return
					}
					if sc.Upstream == "abort" {
						tr.Emit("QAbort", nil)
						actx := ctx
						if sc.ID%2 == 0 { // a source may well abort because its own context ended
							c2, cancel := context.WithCancel(ctx)
							cancel()
							actx = c2
						}
						err := d.Abort(actx) // an error from Abort is only ever logged by sources
						tr.Emit("QAbortRet", vtrace.Ev{"err": err != nil})
					} else {
						tr.Emit("QCommit", nil)
						if err := d.Commit(ctx); err != nil {
							t.Error(err)
						}
					}
				}()
				<-done
			}
			for i := 0; i < crashMt+4; i++ {
				synctest.Wait()
				if ctl.Crashed() || !hasMeta(dir) {
					break
				}
				time.Sleep(30 * retryDelay)
			}
			synctest.Wait()
			if !ctl.Crashed() && inc < len(crashes) && crashes[inc].K == -1 {
				ctl.StopNow() // the stop comes after the queue went quiet
			}
			q.Close()
		})
		vos.Unregister(ctl)
		att = tgt.Att()
		res.ops = append(res.ops, ops)
		res.crashed = append(res.crashed, ctl.Crashed())
		if !ctl.Crashed() {
			tr.Emit("Final", vtrace.Ev{"files": append([]string{}, spoolFiles(dir)...)})
			break
		}
		dir = ctl.SnapDir
	}
	return res
}

// retrySched is the retry schedule a run's queue is configured with. The spool design
// (QueueDisk.tla) is independent of it - "attempted again after restart" has no clock in the model -
// so it is a harness-only data dimension: every third scenario runs with the stock schedule of
// NewQueue (15 min x 1.25^(n-1), 10 s after start-up), which the configuration cannot change, the
// others with the flat one-minute schedule. The fake clock of the bubble makes both free; the
// observation window per incarnation (crashMt+4 sleeps of 30 minutes) covers every delay the
// documented formula can produce for up to crashMt attempts in either.
type retrySched struct {
	init  time.Duration
	scale float64
	pid   time.Duration
}

func schedOf(id int) retrySched {
	if id%3 == 0 {
		return retrySched{15 * time.Minute, 1.25, 10 * time.Second}
	}
	return retrySched{retryDelay, 1, 0}
}

func hasMeta(dir string) bool {
	for _, f := range spoolFiles(dir) {
		if len(f) > 5 && f[len(f)-5:] == ".meta" {
			return true
		}
	}
	return false
}

// points enumerates crash specs for an incarnation whose crash-free run performed ops.
func points(ops []vos.Op) []CrashSpec {
	var out []CrashSpec
	for _, o := range ops {
		for _, s := range []string{"ordered", "strong"} {
			out = append(out, CrashSpec{K: o.N, Strength: s})
			if o.Op == "call" {
				break // the disk strength is irrelevant: nothing is in flight inside a peer call
			}
			if o.Op == "write" && o.Len > 1 {
				out = append(out, CrashSpec{K: o.N, Torn: true, Strength: s})
			}
		}
	}
	// the stop comes after everything went quiet (K = -1)
	out = append(out, CrashSpec{K: -1, Strength: "ordered"}, CrashSpec{K: -1, Strength: "strong"})
	return out
}

func pick(rng *rand.Rand, ps []CrashSpec, n int) []CrashSpec {
	if n <= 0 || len(ps) <= n {
		return ps
	}
	rng.Shuffle(len(ps), func(i, j int) { ps[i], ps[j] = ps[j], ps[i] })
	return ps[:n]
}

func TestCrash(t *testing.T) {
	in, out := os.Getenv("VERIF_IN"), os.Getenv("VERIF_OUT")
	if in == "" || out == "" {
		t.Skip("VERIF_IN / VERIF_OUT not set")
	}
	n1, _ := strconv.Atoi(os.Getenv("VERIF_CRASH_N1")) // crash points per scenario (0 = all)
	n2, _ := strconv.Atoi(os.Getenv("VERIF_CRASH_N2")) // depth-2 points per depth-1 point (0 = none, -1 = all)
	seed, _ := strconv.ParseInt(os.Getenv("VERIF_SEED"), 10, 64)
	f, err := os.Open(in)
	if err != nil {
		t.Fatal(err)
	}
	defer f.Close()
	of, err := os.Create(out)
	if err != nil {
		t.Fatal(err)
	}
	defer of.Close()
	w := bufio.NewWriter(of)
	defer w.Flush()
	sc := bufio.NewScanner(f)
	sc.Buffer(make([]byte, 1<<20), 1<<26)
	runs := 0
	for sc.Scan() {
		var s Scenario
		if err := json.Unmarshal(sc.Bytes(), &s); err != nil {
			t.Fatalf("bad scenario line: %v", err)
		}
		rng := rand.New(rand.NewSource(seed*1000003 + int64(s.ID)))
		tno := s.ID * 100000
		next := func() int { tno++; return tno }
		if len(s.Crashes) > 0 { // replay of one stored run
			runCrash(t, s, s.Crashes, next(), w)
			runs++
			continue
		}
		base := runCrash(t, s, nil, next(), w)
		runs++
		for _, p1 := range pick(rng, points(base.ops[0]), n1) {
			r1 := runCrash(t, s, []CrashSpec{p1}, next(), w)
			runs++
			if n2 == 0 || len(r1.ops) < 2 {
				continue
			}
			k2 := n2
			if n2 < 0 {
				k2 = 0
			}
			for _, p2 := range pick(rng, points(r1.ops[1]), k2) {
				runCrash(t, s, []CrashSpec{p1, p2}, next(), w)
				runs++
			}
		}
	}
	t.Logf("%d runs", runs)
}
