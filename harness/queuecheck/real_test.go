package queuecheck

import (
	"bufio"
	"bytes"
	"context"
	"encoding/json"
	"fmt"
	"io"
	"net"
	"os"
	"strings"
	"sync"
	"testing"
	"time"

	"github.com/emersion/go-message/textproto"
	"github.com/emersion/go-smtp"
	"github.com/foxcpp/go-mockdns"
	"github.com/foxcpp/go-mtasts"
	"github.com/foxcpp/maddy/framework/buffer"
	"github.com/foxcpp/maddy/framework/config"
	"github.com/foxcpp/maddy/framework/log"
	"github.com/foxcpp/maddy/framework/module"
	"github.com/foxcpp/maddy/internal/smtpconn/pool"
	"github.com/foxcpp/maddy/internal/target/queue"
	"github.com/foxcpp/maddy/internal/target/remote"
	tsmtp "github.com/foxcpp/maddy/internal/target/smtp"
	"github.com/foxcpp/maddy/verifharness/scripted"
	"github.com/foxcpp/maddy/verifharness/vtrace"
)

// C01 variant (b): the real queue over the real target.smtp / target.lmtp forwarder talking
// to a scripted, misbehaving next hop. The fault plan of the behaviour is realised as SMTP
// replies and dropped connections; the T* events are logged by the next hop itself (what the
// server accepted / answered is the ground truth), in the vocabulary of QueueTrace.tla.
//
//   Start   ok/temp/perm -> reply to MAIL 250/451/550,  unspec -> connection dropped at MAIL
//   Rcpt    ok/temp/perm -> reply to RCPT,              unspec -> realised as temp (451)
//   Body    (SMTP)  reply after the final dot,          unspec -> dropped before the reply
//   Status  (LMTP)  one reply per accepted recipient,   unspec -> dropped before that reply
//   Commit  has no SMTP counterpart (the final-dot reply commits): always ok

type hop struct {
	l    net.Listener
	lmtp bool
	utf8 bool
	na   bool // log the final-dot result per recipient (TBodyNA): the client is a PartialDelivery
	mid  bool // a scripted unclassified body failure resets the connection in the MIDDLE of the transfer
	tr   *vtrace.Tracer
	plan []scripted.AttemptPlan
	id   func(string) string
	mu   sync.Mutex
	att  int
	wg   sync.WaitGroup
	nc   int // connections accepted so far (TStart logs which one a transaction ran on and how many it had seen)
}

func newHop(lmtp, utf8 bool) (*hop, error) {
	l, err := net.Listen("tcp4", "127.0.0.1:0")
	if err != nil {
		return nil, err
	}
	h := &hop{l: l, lmtp: lmtp, utf8: utf8}
	go h.serve()
	return h, nil
}

func (h *hop) set(tr *vtrace.Tracer, plan []scripted.AttemptPlan, id func(string) string) {
	h.mu.Lock()
	h.tr, h.plan, h.id, h.att = tr, plan, id, 0
	h.mu.Unlock()
}

func (h *hop) serve() {
	for {
		c, err := h.l.Accept()
		if err != nil {
			return
		}
		h.wg.Add(1)
		go func() {
			defer h.wg.Done()
			defer c.Close()
			h.handle(c)
		}()
	}
}

var hopTempCode = "451" // per behaviour (sequential)

// hopNoEnh: the next hop does not do ENHANCEDSTATUSCODES - its replies carry a basic code and a text only
// (Cfg.Enh = false; per behaviour / per series, sequential)
var hopNoEnh bool

func code(res string) string {
	if hopNoEnh {
		switch res {
		case "temp":
			return hopTempCode + " scripted temporary failure"
		case "perm":
			return "550 scripted permanent failure"
		}
		return "250 ok"
	}
	switch res {
	case "temp":
		return hopTempCode + " 4.3.0 scripted temporary failure"
	case "perm":
		return "550 5.1.1 scripted permanent failure"
	}
	return "250 2.0.0 ok"
}

func argAddr(arg string) string {
	i, j := strings.IndexByte(arg, '<'), strings.IndexByte(arg, '>')
	if i < 0 || j < i {
		return arg
	}
	return arg[i+1 : j]
}

func (h *hop) handle(c net.Conn) {
	c.SetDeadline(time.Now().Add(60 * time.Second))
	rd := bufio.NewReader(c)
	wr := func(s string) bool { _, err := c.Write([]byte(s + "\r\n")); return err == nil }
	if !wr("220 hop.example ready") {
		return
	}
	h.mu.Lock()
	h.nc++
	cid, txns := h.nc, 0
	h.mu.Unlock()
	var (
		plan  scripted.AttemptPlan
		att   int
		inTxn bool
		acc   []string // accepted recipient ids in order
		used  []bool
	)
	h.mu.Lock()
	tr, id := h.tr, h.id
	h.mu.Unlock()
	for {
		line, err := rd.ReadString('\n')
		if err != nil {
			return
		}
		line = strings.TrimRight(line, "\r\n")
		verb, arg := line, ""
		if i := strings.IndexByte(line, ' '); i >= 0 {
			verb, arg = line[:i], line[i+1:]
		}
		switch strings.ToUpper(verb) {
		case "EHLO", "LHLO":
			ext := "250-hop.example\r\n250-8BITMIME\r\n"
			if h.utf8 {
				ext += "250-SMTPUTF8\r\n"
			}
			last := "250 ENHANCEDSTATUSCODES"
			if hopNoEnh {
				last = "250 PIPELINING"
			}
			if !wr(ext + last) {
				return
			}
		case "MAIL":
			h.mu.Lock()
			h.att++
			att = h.att
			plan = scripted.AttemptPlan{}
			if att-1 < len(h.plan) {
				plan = h.plan[att-1]
			}
			// a connection the client keeps between messages (the pool of target.remote) serves the
			// message the hop is set up for NOW
			tr, id = h.tr, h.id
			h.mu.Unlock()
			res := plan.Start
			if res == "" {
				res = "ok"
			}
			txns++
			tr.Emit("TStart", vtrace.Ev{"att": att, "res": res, "conn": cid, "txn": txns})
			if res == "unspec" {
				return // drop
			}
			if !wr(code(res)) {
				return
			}
			inTxn, acc, used = res == "ok", nil, make([]bool, len(plan.Rcpt))
		case "RCPT":
			if !inTxn {
				wr("503 5.5.1 MAIL first")
				continue
			}
			r := id(argAddr(arg))
			res := "ok"
			for i, pr := range plan.Rcpt {
				if !used[i] && pr.R == r {
					used[i] = true
					if pr.Res != "" {
						res = pr.Res
					}
					break
				}
			}
			if res == "unspec" {
				res = "temp"
			}
			tr.Emit("TAddRcpt", vtrace.Ev{"att": att, "r": r, "res": res})
			if res == "ok" {
				acc = append(acc, r)
			}
			if !wr(code(res)) {
				return
			}
		case "DATA":
			if !inTxn || len(acc) == 0 {
				wr("503 5.5.1 RCPT first")
				continue
			}
			if !wr("354 go ahead") {
				return
			}
			h.mu.Lock()
			mid, naMid := h.mid, h.na
			h.mu.Unlock()
			if mid && !h.lmtp && plan.Body == "unspec" {
				// the connection is reset while the client is still sending (the message is bigger than
				// any socket buffer): the transfer fails in the middle, not at the final dot
				io.CopyN(io.Discard, rd, 16<<10)
				if naMid {
					st := map[string]interface{}{}
					for _, r := range acc {
						st[r] = "unspec"
					}
					tr.Emit("TBodyNA", vtrace.Ev{"att": att, "st": st})
				} else {
					tr.Emit("TBody", vtrace.Ev{"att": att, "res": "unspec"})
				}
				tr.Emit("TAbort", vtrace.Ev{"att": att})
				if tc, ok := c.(*net.TCPConn); ok {
					tc.SetLinger(0)
				}
				return
			}
			for {
				l, err := rd.ReadString('\n')
				if err != nil {
					return
				}
				if l == ".\r\n" {
					break
				}
			}
			inTxn = false
			if !h.lmtp {
				res := plan.Body
				if res == "" {
					res = "ok"
				}
				h.mu.Lock()
				na := h.na
				h.mu.Unlock()
				if na && res == "ok" {
					// a per-recipient plan over an SMTP hop: the first scripted non-ok status is the
					// result of the whole DATA command
					for _, r := range acc {
						if st := plan.Status[r]; st != "" && st != "ok" {
							res = st
							break
						}
					}
				}
				if na {
					st := map[string]interface{}{}
					for _, r := range acc {
						st[r] = res
					}
					tr.Emit("TBodyNA", vtrace.Ev{"att": att, "st": st})
				} else {
					tr.Emit("TBody", vtrace.Ev{"att": att, "res": res})
				}
				if res == "ok" {
					tr.Emit("TCommit", vtrace.Ev{"att": att, "res": "ok"})
				} else {
					tr.Emit("TAbort", vtrace.Ev{"att": att})
				}
				if res == "unspec" {
					return
				}
				if !wr(code(res)) {
					return
				}
				continue
			}
			// LMTP: one reply per accepted recipient; a drop leaves the rest unanswered
			st := map[string]interface{}{}
			dropAt := -1
			for i, r := range acc {
				res := plan.Status[r]
				if res == "" {
					res = "ok"
				}
				if dropAt >= 0 {
					res = "unspec"
				} else if res == "unspec" {
					dropAt = i
				}
				st[r] = res
			}
			anyOK := false
			for _, v := range st {
				if v == "ok" {
					anyOK = true
				}
			}
			tr.Emit("TBodyNA", vtrace.Ev{"att": att, "st": st})
			if anyOK {
				tr.Emit("TCommit", vtrace.Ev{"att": att, "res": "ok"})
			} else {
				tr.Emit("TAbort", vtrace.Ev{"att": att})
			}
			for i, r := range acc {
				if i == dropAt {
					return
				}
				if !wr(code(st[r].(string))) {
					return
				}
			}
		case "RSET":
			if inTxn {
				tr.Emit("TAbort", vtrace.Ev{"att": att})
			}
			inTxn = false
			if !wr("250 2.0.0 reset") {
				return
			}
		case "NOOP":
			if !wr("250 2.0.0 ok") {
				return
			}
		case "QUIT":
			if inTxn {
				tr.Emit("TAbort", vtrace.Ev{"att": att})
			}
			wr("221 2.0.0 bye")
			return
		default:
			if !wr("500 5.5.1 unknown command") {
				return
			}
		}
	}
}

// hopKey: LMTP?, does the next hop advertise SMTPUTF8? (an IDN recipient of a non-SMTPUTF8 message goes
// to a hop without SMTPUTF8, so the forwarder has to convert the address for the wire)
type hopKey struct{ lmtp, utf8 bool }

func runReal(t *testing.T, b Behaviour, w *bufio.Writer, hops map[hopKey]*hop, downs map[hopKey]module.DeliveryTarget) {
	dir, err := os.MkdirTemp(workDir(), "spool")
	if err != nil {
		t.Fatal(err)
	}
	defer os.RemoveAll(dir)
	useIdn = b.Cfg.Idn
	caseVar = b.Cfg.CaseVar
	uniLocal = b.Cfg.UniLocal && b.Cfg.Utf8
	hopTempCode = "451"
	if b.Cfg.ErrShape == "421" {
		hopTempCode = "421"
	}
	hopNoEnh = !b.Cfg.enh()
	defer setUniForm(b.Cfg.UniForm)()
	defer func() { useIdn = false; caseVar = false; uniLocal = false; hopTempCode = "451"; hopNoEnh = false }()
	tr := vtrace.New(w, b.ID)
	tr.Emit("Cfg", vtrace.Ev{"partial": b.Cfg.Partial, "bounce": b.Cfg.Bounce, "nullSender": b.Cfg.NullSender,
		"mt": b.Cfg.Mt, "list": b.Cfg.List, "rw": []string{}, "utf8": b.Cfg.Utf8, "chain": false,
		"idn": b.Cfg.Idn, "errtext": "", "real": true, "fwd": b.Cfg.Fwd, "sts": b.Cfg.Sts, "enh": b.Cfg.enh()})
	hk := hopKey{b.Cfg.Partial && b.Cfg.Fwd != "remote", !b.Cfg.Idn || b.Cfg.Utf8}
	h := hops[hk]
	h.set(tr, PlanOf(b.Hist), idOf)
	h.mu.Lock()
	h.na = b.Cfg.Fwd == "remote"
	h.mid = b.Cfg.MidData
	h.mu.Unlock()
	var tgt module.DeliveryTarget = downs[hk]
	if b.Cfg.Fwd == "remote" {
		// the real remote-MX target: MX lookup through a mock resolver, every dial lands on the hop
		mxHost := "hop.example.org."
		var policies []module.MXAuthPolicy
		if b.Cfg.Sts == "nil" {
			// the policy cache answers "neither a policy nor an error" (go-mtasts does when it fetched a policy
			// but could not write its cache file and had nothing cached)
			policies = []module.MXAuthPolicy{remote.VerifRemoteMTASTSPolicy(
				func(context.Context, string) (*mtasts.Policy, error) { return nil, nil },
				log.Logger{Out: log.NopOutput{}})}
		}
		if b.Cfg.Sts == "wild" {
			// the recipient domains publish an MTA-STS policy (testing mode: the hop speaks no TLS) with a wildcard pattern, and the MX
			// the DNS names is an internationalized host in A-label form that the pattern covers
			mxHost = "xn--bcher-kva.de."
			policies = []module.MXAuthPolicy{remote.VerifRemoteMTASTSPolicy(
				func(context.Context, string) (*mtasts.Policy, error) {
					return &mtasts.Policy{Mode: mtasts.ModeTesting, MaxAge: 86400, MX: []string{"*.de"}}, nil
				}, log.Logger{Out: log.NopOutput{}})}
		}
		rt := remote.VerifRemoteNewTarget(remote.VerifRemoteConfig{
			Hostname: "mx.example.org",
			Policies: policies,
			Resolver: &mockdns.Resolver{Zones: map[string]mockdns.Zone{
				"example.org.":          {MX: []net.MX{{Host: mxHost, Pref: 10}}},
				"xn--e1afmkfd.example.": {MX: []net.MX{{Host: mxHost, Pref: 10}}},
				"пример.example.":       {MX: []net.MX{{Host: mxHost, Pref: 10}}},
				mxHost:                  {A: []string{"127.0.0.1"}},
			}},
			Dialer: func(ctx context.Context, network, _ string) (net.Conn, error) {
				var d net.Dialer
				return d.DialContext(ctx, "tcp4", h.l.Addr().String())
			},
			Pool:           pool.Config{MaxKeys: 100, MaxConnsPerKey: 5, MaxConnLifetimeSec: 150, StaleKeyLifetimeSec: 300},
			ConnReuseLimit: 1, ConnectTimeout: 30 * time.Second, CommandTimeout: 30 * time.Second,
			SubmissionTimeout: 30 * time.Second, Log: log.Logger{Out: log.NopOutput{}},
		})
		defer rt.Close()
		tgt = rt
	}
	from := "sender@example.com"
	if b.Cfg.NullSender {
		from = ""
	}
	var bounce module.DeliveryTarget
	if b.Cfg.Bounce {
		bounce = &scripted.Bounce{Tr: tr, ID: reportID, Sender: from, OrigSubject: "verif-subject-" + itoa(b.ID)}
	}
	qlog := log.Logger{Out: log.NopOutput{}}
	if os.Getenv("VERIF_DEBUG") != "" { // the queue's own log on stderr (for looking at a replayed behaviour)
		qlog = log.Logger{Out: log.WriterOutput(os.Stderr, false), Debug: true, Name: "queue"}
	}
	q, err := queue.VerifNewQueue(queue.VerifConfig{
		Location: dir, Target: tgt, Bounce: bounce, MaxTries: b.Cfg.Mt, MaxParallelism: 1,
		InitialRetryTime: time.Millisecond, RetryTimeScale: 1, PostInitDelay: 0,
		Hostname: "mx.example.org", AutogenMsgDomain: "example.org", Log: qlog,
	})
	if err != nil {
		t.Fatal(err)
	}
	ctx := context.Background()
	meta := &module.MsgMetadata{ID: "msg" + itoa(b.ID), OriginalFrom: from, SMTPOpts: smtp.MailOptions{UTF8: b.Cfg.Utf8}}
	d, err := q.Start(ctx, meta, from)
	if err != nil {
		t.Fatal(err)
	}
	seen := map[string]bool{}
	distinct := []string{}
	for _, r := range b.Cfg.List {
		if err := d.AddRcpt(ctx, addr(r), smtp.RcptOptions{}); err != nil {
			t.Fatal(err)
		}
		if !seen[r] {
			seen[r] = true
			distinct = append(distinct, r)
		}
	}
	hdr := textproto.Header{}
	hdr.Add("Subject", "verif-subject-"+itoa(b.ID))
	hdr.Add("From", "<sender@example.com>")
	body := []byte("hello\r\n.dot\r\n")
	if b.Cfg.MidData {
		body = append(body, bytes.Repeat([]byte("0123456789abcdef0123456789abcdef0123456789abcdef0123456789abcd\r\n"), 8<<20/64)...)
	}
	if err := d.Body(ctx, hdr, buffer.MemoryBuffer{Slice: body}); err != nil {
		t.Fatal(err)
	}
	tr.Emit("QAccept", vtrace.Ev{"rcpts": distinct})
	if err := d.Commit(ctx); err != nil {
		t.Fatal(err)
	}
	deadline := time.Now().Add(40 * time.Second)
	broken := func() bool {
		for _, f := range spoolFiles(dir) {
			if strings.HasSuffix(f, ".meta_broken") {
				return true
			}
		}
		return false
	}
	for len(spoolFiles(dir)) != 0 && !broken() && time.Now().Before(deadline) {
		time.Sleep(2 * time.Millisecond)
	}
	q.Close() // waits for the in-flight attempt, if any
	files := spoolFiles(dir)
	if len(files) != 0 {
		for _, f := range files {
			if strings.HasSuffix(f, ".meta_broken") {
				// the queue itself gave the entry up (its panic handler): that is an outcome, not a time-out
				tr.Emit("Quiesced", vtrace.Ev{"spoolEmpty": false, "files": append([]string{}, files...)})
				return
			}
		}
		tr.Emit("Stuck", vtrace.Ev{"files": append([]string{}, files...)})
		return
	}
	tr.Emit("Quiesced", vtrace.Ev{"spoolEmpty": true, "files": []string{}})
}

func mkDown(t *testing.T, lmtp bool, addr string) module.DeliveryTarget {
	name := "target.smtp"
	if lmtp {
		name = "target.lmtp"
	}
	mod, err := tsmtp.NewDownstream(name, "verif_"+name, nil, nil)
	if err != nil {
		t.Fatal(err)
	}
	err = mod.Init(config.NewMap(nil, config.Node{Children: []config.Node{
		{Name: "targets", Args: []string{"tcp://" + addr}},
		{Name: "hostname", Args: []string{"mx.example.org"}},
		{Name: "attempt_starttls", Args: []string{"no"}},
		{Name: "require_tls", Args: []string{"no"}},
	}}))
	if err != nil {
		t.Fatal(err)
	}
	return mod.(module.DeliveryTarget)
}

func TestReplayReal(t *testing.T) {
	in, out := os.Getenv("VERIF_IN"), os.Getenv("VERIF_OUT")
	if in == "" || out == "" {
		t.Skip("VERIF_IN / VERIF_OUT not set")
	}
	f, err := os.Open(in)
	if err != nil {
		t.Fatal(err)
	}
	defer f.Close()
	of, err := os.Create(out)
	if err != nil {
		t.Fatal(err)
	}
	defer of.Close()
	w := bufio.NewWriter(of)
	defer w.Flush()
	hops := map[hopKey]*hop{}
	downs := map[hopKey]module.DeliveryTarget{}
	for _, lmtp := range []bool{false, true} {
		for _, utf8 := range []bool{false, true} {
			h, err := newHop(lmtp, utf8)
			if err != nil {
				t.Fatal(err)
			}
			defer h.l.Close()
			hops[hopKey{lmtp, utf8}] = h
			downs[hopKey{lmtp, utf8}] = mkDown(t, lmtp, h.l.Addr().String())
		}
	}
	sc := bufio.NewScanner(f)
	sc.Buffer(make([]byte, 1<<20), 1<<26)
	for sc.Scan() {
		var b Behaviour
		if err := json.Unmarshal(sc.Bytes(), &b); err != nil {
			t.Fatalf("bad behaviour line: %v", err)
		}
		runReal(t, b, w, hops, downs)
	}
	_ = fmt.Sprint
}
