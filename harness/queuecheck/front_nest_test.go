package queuecheck

import (
	"strings"
	"testing"

	"github.com/foxcpp/maddy/framework/config"
	"github.com/foxcpp/maddy/framework/log"
	"github.com/foxcpp/maddy/framework/module"
	"github.com/foxcpp/maddy/internal/msgpipeline"
)

// Nested pipelines in front of the queue (Cfg.Front = "reroute-*").  Queue.tla is independent of HOW a
// recipient came to be rewritten (cfg.rw only says which recipients reach the queue under another
// address), so this is a harness-only dimension of the configuration in front of the queue: the message
// metadata object - and with it the original-recipient map the report must use - is shared by the outer
// pipeline, every nested one (`reroute { }`) and the queue.
//
//	reroute-outer   outer pipeline rewrites (destination scope), a plain nested pipeline delivers to the queue
//	reroute-outer2  the same with two plain nested pipelines in a row
//	reroute-inner   outer pipeline is plain, the nested one rewrites (its global scope)
//	reroute-split   r1 is rewritten by the outer pipeline, the other recipients by the nested one
//	reroute-chain   two-step rewrite: outer a -> a-mid, nested a-mid -> a-eff; the report must still name a

func midAddr(id string) string {
	if useIdn {
		return local(id) + "-mid" + idnDomU
	}
	return local(id) + "-mid" + dom
}

func replaceNode(pairs [][2]string) config.Node {
	var entries []config.Node
	for _, p := range pairs {
		entries = append(entries, config.Node{Name: "entry", Args: []string{p[0], p[1]}})
	}
	return config.Node{Name: "modify", Children: []config.Node{
		{Name: "replace_rcpt", Args: []string{"static"}, Children: entries}}}
}

func nestedFront(t *testing.T, q module.DeliveryTarget, shape string, rw map[string]bool) module.DeliveryTarget {
	// registers target.verifq and points it at q
	_ = frontPipeline(t, q, "dest", map[string]bool{})
	deliver := config.Node{Name: "deliver_to", Args: []string{"verifq", "Q"}}
	var outerPairs, innerPairs [][2]string
	for _, r := range []string{"r1", "r2", "r3"} {
		if !rw[r] {
			continue
		}
		switch shape {
		case "reroute-inner":
			innerPairs = append(innerPairs, [2]string{addr(r), effAddr(r)})
		case "reroute-split":
			if r == "r1" {
				outerPairs = append(outerPairs, [2]string{addr(r), effAddr(r)})
			} else {
				innerPairs = append(innerPairs, [2]string{addr(r), effAddr(r)})
			}
		case "reroute-chain":
			outerPairs = append(outerPairs, [2]string{addr(r), midAddr(r)})
			innerPairs = append(innerPairs, [2]string{midAddr(r), effAddr(r)})
		default: // reroute-outer, reroute-outer2
			outerPairs = append(outerPairs, [2]string{addr(r), effAddr(r)})
		}
	}
	inner := []config.Node{deliver}
	if len(innerPairs) > 0 {
		inner = []config.Node{replaceNode(innerPairs), deliver}
	}
	if shape == "reroute-outer2" {
		inner = []config.Node{{Name: "reroute", Children: inner}}
	}
	dest := []config.Node{{Name: "reroute", Children: inner}}
	if len(outerPairs) > 0 {
		dest = append([]config.Node{replaceNode(outerPairs)}, dest...)
	}
	nodes := []config.Node{{Name: "default_source", Children: []config.Node{
		{Name: "default_destination", Children: dest}}}}
	p, err := msgpipeline.New(map[string]interface{}{"hostname": "mx.example.org"}, nodes)
	if err != nil {
		t.Fatalf("nested front pipeline (%s): %v", shape, err)
	}
	p.Log = log.Logger{Out: log.NopOutput{}}
	_ = strings.TrimSpace
	return p
}
