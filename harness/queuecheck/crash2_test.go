package queuecheck

import (
	"bufio"
	"context"
	"encoding/json"
	"io"
	"math/rand"
	"os"
	"strconv"
	"strings"
	"sync"
	"testing"
	"testing/synctest"
	"time"

	"github.com/emersion/go-message/textproto"
	"github.com/emersion/go-smtp"
	"github.com/foxcpp/maddy/framework/buffer"
	"github.com/foxcpp/maddy/framework/log"
	"github.com/foxcpp/maddy/framework/module"
	"github.com/foxcpp/maddy/internal/target/queue"
	"github.com/foxcpp/maddy/verifharness/scripted"
	"github.com/foxcpp/maddy/verifharness/vos"
	"github.com/foxcpp/maddy/verifharness/vtrace"
)

// Two messages in one spool (C02: "1-3 messages, concurrent accept + retry"): message A is
// accepted and has its first attempt, then message B is accepted while A waits for its retry;
// the crash points range over the mutating file operations of both. The model is per message
// (spool files of different messages are independent), so each message gets its own trace
// (t = run*10 + 1|2); Crash / Restart / Final are written to both.

type Scenario2 struct {
	ID      int         `json:"id"`
	A       Scenario    `json:"a"`
	B       Scenario    `json:"b"`
	Crashes []CrashSpec `json:"crashes"`
}

type lockedWriter struct {
	mu sync.Mutex
	w  io.Writer
}

func (l *lockedWriter) Write(p []byte) (int, error) {
	l.mu.Lock()
	defer l.mu.Unlock()
	return l.w.Write(p)
}

type muxTarget struct{ byKey map[string]*scripted.Target }

func keyOf(id string) string {
	if strings.Contains(id, "xa") && !strings.Contains(id, "xab") {
		return "a"
	}
	return "b"
}

func (m *muxTarget) Start(ctx context.Context, meta *module.MsgMetadata, from string) (module.Delivery, error) {
	return m.byKey[keyOf(meta.ID)].Start(ctx, meta, from)
}

// muxBounce finds the message a report belongs to from the report's recipient (the senders differ).
type muxBounce struct {
	byTo map[string]*scripted.Bounce
}

type muxBounceDelivery struct {
	m    *muxBounce
	meta *module.MsgMetadata
	from string
	d    module.Delivery
}

func (m *muxBounce) Start(ctx context.Context, meta *module.MsgMetadata, from string) (module.Delivery, error) {
	return &muxBounceDelivery{m: m, meta: meta, from: from}, nil
}

func (d *muxBounceDelivery) AddRcpt(ctx context.Context, to string, o smtp.RcptOptions) error {
	if d.d == nil {
		b := d.m.byTo[to]
		if b == nil {
			for _, x := range d.m.byTo {
				b = x
			}
		}
		dd, err := b.Start(ctx, d.meta, d.from)
		if err != nil {
			return err
		}
		d.d = dd
	}
	return d.d.AddRcpt(ctx, to, o)
}

func (d *muxBounceDelivery) Body(ctx context.Context, h textproto.Header, b buffer.Buffer) error {
	return d.d.Body(ctx, h, b)
}

func (d *muxBounceDelivery) Commit(ctx context.Context) error { return d.d.Commit(ctx) }

func (d *muxBounceDelivery) Abort(ctx context.Context) error {
	if d.d == nil {
		return nil
	}
	return d.d.Abort(ctx)
}

// body2: the two messages of a pair have different bodies; an "empty"/"bare" shape is a header-only message
func body2(shape, k string) string {
	if bodyKind(shape) == "empty" {
		return ""
	}
	return crashBody + k
}

func runCrash2(t *testing.T, sc Scenario2, crashes []CrashSpec, run int, w io.Writer) runResult {
	var res runResult
	lw := &lockedWriter{w: w}
	trs := map[string]*vtrace.Tracer{"a": vtrace.New(lw, run*10+1), "b": vtrace.New(lw, run*10+2)}
	scs := map[string]Scenario{"a": sc.A, "b": sc.B}
	ids := map[string]string{"a": "m" + strconv.Itoa(sc.ID) + "xa", "b": "m" + strconv.Itoa(sc.ID) + "xb"}
	if sc.ID%2 == 1 { // the start-up scan goes through the spool in name order: let B come first on odd pairs
		ids["a"] = "n" + strconv.Itoa(sc.ID) + "xa"
	}
	if sc.ID%3 == 0 { // A's identifier is a proper prefix of B's: every file name of A is a prefix of one of B
		ids["b"] = ids["a"] + "b"
	}
	senders := map[string]string{"a": "sender-a@example.com", "b": "sender-b@example.com"}
	started := map[string]bool{}
	var stMu sync.Mutex
	cr := make([]map[string]interface{}, 0, len(crashes))
	for _, c := range crashes {
		cr = append(cr, map[string]interface{}{"k": c.K, "torn": c.Torn, "strength": c.Strength})
	}
	begin := func(k string) {
		stMu.Lock()
		defer stMu.Unlock()
		if !started[k] {
			started[k] = true
			trs[k].Emit("Cfg", vtrace.Ev{"partial": scs[k].Cfg.Partial, "list": scs[k].Cfg.List, "mt": crashMt,
				"upstream": scs[k].Upstream, "crashes": cr, "scenario": sc.ID, "msg": k, "two": true,
				"body": bodyKind(scs[k].Shape), "shape": scs[k].Shape})
		}
	}
	shared := func(e string, f vtrace.Ev) {
		stMu.Lock()
		defer stMu.Unlock()
		for _, k := range []string{"a", "b"} {
			if started[k] {
				trs[k].Emit(e, f)
			}
		}
	}
	dir, err := os.MkdirTemp(workDir(), "spool")
	if err != nil {
		t.Fatal(err)
	}
	dirs := []string{dir}
	defer func() {
		for _, d := range dirs {
			os.RemoveAll(d)
		}
	}()
	att := map[string]int{}
	for inc := 0; ; inc++ {
		ctl := &vos.Controller{Dir: dir}
		if inc < len(crashes) {
			snap, err := os.MkdirTemp(workDir(), "snap")
			if err != nil {
				t.Fatal(err)
			}
			dirs = append(dirs, snap)
			ctl.CrashAt, ctl.Torn, ctl.Strength, ctl.SnapDir = crashes[inc].K, crashes[inc].Torn, crashes[inc].Strength, snap
		}
		var ops []vos.Op
		ctl.OnOp = func(o vos.Op) {
			ops = append(ops, o)
			if o.Op == "call" {
				return
			}
			k := keyOf(o.Name)
			stMu.Lock()
			ok := started[k]
			stMu.Unlock()
			if ok {
				trs[k].Emit("Fs", vtrace.Ev{"op": o.Op, "file": o.File, "n": o.N})
			}
		}
		ctl.OnCrash = func(k int, o vos.Op) {
			// a torn write concerns only the message whose file was being written
			stMu.Lock()
			for _, key := range []string{"a", "b"} {
				if started[key] {
					trs[key].Emit("Crash", vtrace.Ev{"k": k, "torn": o.Torn && keyOf(o.Name) == key,
						"strength": ctl.Strength, "at": o.Op + ":" + o.File})
				}
			}
			stMu.Unlock()
		}
		vos.Register(ctl)
		mt := &muxTarget{byKey: map[string]*scripted.Target{}}
		mb := &muxBounce{byTo: map[string]*scripted.Bounce{}}
		for _, k := range []string{"a", "b"} {
			k := k
			tg := &scripted.Target{Tr: trs[k], Plan: PlanOf(scs[k].Hist), Partial: scs[k].Cfg.Partial, ID: idOf,
				OnCall: func(op string) { ctl.Point("call:" + op) },
				InspectBody: func(_ int, hdr textproto.Header, body buffer.Buffer) vtrace.Ev {
					ok := hdr.Get("Subject") == "verif crash "+k
					if r, err := body.Open(); err == nil {
						b, _ := io.ReadAll(r)
						r.Close()
						ok = ok && string(b) == body2(scs[k].Shape, k)
					} else {
						ok = false
					}
					return vtrace.Ev{"intact": ok}
				}}
			tg.SetAtt(att[k])
			mt.byKey[k] = tg
			mb.byTo[senders[k]] = &scripted.Bounce{Tr: trs[k], ID: idOf, OnCall: func() { ctl.Point("call:bounce") }}
		}
		synctest.Test(t, func(t *testing.T) {
			if inc > 0 {
				shared("Restart", nil)
			}
			q, err := queue.VerifPrepare(queue.VerifConfig{
				Location: dir, Target: mt, Bounce: mb, MaxTries: crashMt, MaxParallelism: 1,
				InitialRetryTime: schedOf(sc.ID).init, RetryTimeScale: schedOf(sc.ID).scale, PostInitDelay: schedOf(sc.ID).pid,
				Hostname: "mx.example.org", AutogenMsgDomain: "example.org",
				Log: log.Logger{Out: log.NopOutput{}},
			})
			if err != nil {
				t.Fatal(err)
			}
			st := make(chan struct{})
			go func() {
				defer close(st)
				if err := q.VerifStart(1); err != nil {
					t.Error(err)
				}
			}()
			<-st
			if ctl.Crashed() {
				if q.VerifStarted() {
					q.Close()
				}
				return
			}
			accept := func(k string) {
				done := make(chan struct{})
				go func() {
					defer close(done)
					ctx := context.Background()
					s := scs[k]
					meta := &module.MsgMetadata{ID: ids[k], OriginalFrom: senders[k], SMTPOpts: smtp.MailOptions{}}
					d, err := q.Start(ctx, meta, senders[k])
					if err != nil {
						t.Error(err)
						return
					}
					for _, r := range s.Cfg.List {
						if err := d.AddRcpt(ctx, addr(r), smtp.RcptOptions{}); err != nil {
							t.Error(err)
							return
						}
					}
					hdr := textproto.Header{}
					hdr.Add("Subject", "verif crash "+k)
					begin(k)
					trs[k].Emit("QBody", nil)
					berr := d.Body(ctx, hdr, buffer.MemoryBuffer{Slice: []byte(body2(s.Shape, k))})
					trs[k].Emit("QBodyRet", vtrace.Ev{"err": berr != nil})
					if berr != nil { // refused: the source aborts
						trs[k].Emit("QAbort", nil)
						err := d.Abort(ctx)
						trs[k].Emit("QAbortRet", vtrace.Ev{"err": err != nil})
						return
					}
					if s.Upstream == "abort" {
						trs[k].Emit("QAbort", nil)
						err := d.Abort(ctx)
						trs[k].Emit("QAbortRet", vtrace.Ev{"err": err != nil})
					} else {
						trs[k].Emit("QCommit", nil)
						if err := d.Commit(ctx); err != nil {
							t.Error(err)
						}
					}
				}()
				<-done
			}
			if inc == 0 {
				accept("a")
				synctest.Wait() // A's first attempt has run; its retry (if any) waits for the clock
				if !ctl.Crashed() {
					accept("b")
				}
			}
			for i := 0; i < 2*crashMt+6; i++ {
				synctest.Wait()
				if ctl.Crashed() || !hasMeta(dir) {
					break
				}
				time.Sleep(30 * retryDelay)
			}
			synctest.Wait()
			if !ctl.Crashed() && inc < len(crashes) && crashes[inc].K == -1 {
				ctl.StopNow()
			}
			q.Close()
		})
		vos.Unregister(ctl)
		for _, k := range []string{"a", "b"} {
			att[k] = mt.byKey[k].Att()
		}
		res.ops = append(res.ops, ops)
		res.crashed = append(res.crashed, ctl.Crashed())
		if !ctl.Crashed() {
			shared("Final", vtrace.Ev{"files": append([]string{}, spoolFiles(dir)...)})
			break
		}
		dir = ctl.SnapDir
	}
	return res
}

func TestCrash2(t *testing.T) {
	in, out := os.Getenv("VERIF_IN"), os.Getenv("VERIF_OUT")
	if in == "" || out == "" {
		t.Skip("VERIF_IN / VERIF_OUT not set")
	}
	n1, _ := strconv.Atoi(os.Getenv("VERIF_CRASH_N1"))
	n2, _ := strconv.Atoi(os.Getenv("VERIF_CRASH_N2"))
	seed, _ := strconv.ParseInt(os.Getenv("VERIF_SEED"), 10, 64)
	f, err := os.Open(in)
	if err != nil {
		t.Fatal(err)
	}
	defer f.Close()
	of, err := os.Create(out)
	if err != nil {
		t.Fatal(err)
	}
	defer of.Close()
	w := bufio.NewWriter(of)
	defer w.Flush()
	sc := bufio.NewScanner(f)
	sc.Buffer(make([]byte, 1<<20), 1<<26)
	for sc.Scan() {
		var s Scenario2
		if err := json.Unmarshal(sc.Bytes(), &s); err != nil {
			t.Fatalf("bad scenario line: %v", err)
		}
		rng := rand.New(rand.NewSource(seed*1000003 + int64(s.ID)))
		run := s.ID * 10000
		next := func() int { run++; return run }
		if len(s.Crashes) > 0 {
			runCrash2(t, s, s.Crashes, next(), w)
			continue
		}
		base := runCrash2(t, s, nil, next(), w)
		// what two messages in one spool add over one is what a half-removed entry of one message does to
		// the recovery of the other: a stop before every unlink is always tried, the other points are sampled
		var sel []CrashSpec
		seen := map[CrashSpec]bool{}
		for _, o := range base.ops[0] {
			if o.Op == "remove" {
				c := CrashSpec{K: o.N, Strength: "ordered"}
				sel, seen[c] = append(sel, c), true
			}
		}
		for _, c := range pick(rng, points(base.ops[0]), n1) {
			if !seen[c] {
				sel, seen[c] = append(sel, c), true
			}
		}
		for _, p1 := range sel {
			r1 := runCrash2(t, s, []CrashSpec{p1}, next(), w)
			if n2 == 0 || len(r1.ops) < 2 {
				continue
			}
			for _, p2 := range pick(rng, points(r1.ops[1]), n2) {
				runCrash2(t, s, []CrashSpec{p1, p2}, next(), w)
			}
		}
	}
}
