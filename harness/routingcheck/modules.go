package routingcheck

import (
	"context"
	"errors"
	"sync"

	"github.com/emersion/go-message/textproto"
	"github.com/emersion/go-smtp"
	"github.com/foxcpp/maddy/framework/buffer"
	"github.com/foxcpp/maddy/framework/config"
	"github.com/foxcpp/maddy/framework/module"
)

// Recorder collects what every recording target saw during one envelope.
type Recorder struct {
	mu   sync.Mutex
	cur  int // index of the RCPT command being processed (-1 outside)
	Dels []*RecDelivery
	Calls []RecCall // every AddRcpt seen by any target, in global call order
}

// RecCall is one AddRcpt call on a recording target.
type RecCall struct {
	Target string
	To     string
	ByRcpt int // index of the envelope recipient being processed (-1 outside RCPT)
}

// RecDelivery is one Start()ed delivery on a recording target.
type RecDelivery struct {
	Target  string
	From    string
	Rcpts   []string
	ByRcpt  []int // index of the envelope recipient being processed at AddRcpt time
	NBody   int
	NCommit int
	NAbort  int
	Late    int // calls after Commit/Abort
	rec     *Recorder
}

// RecTarget is a module.DeliveryTarget registered as instance T1/T2/T3.
type RecTarget struct {
	name string
	rec  *Recorder
}

func (t *RecTarget) Init(*config.Map) error { return nil }
func (t *RecTarget) Name() string           { return "verif_rec" }
func (t *RecTarget) InstanceName() string   { return t.name }

func (t *RecTarget) Start(ctx context.Context, msgMeta *module.MsgMetadata, mailFrom string) (module.Delivery, error) {
	t.rec.mu.Lock()
	defer t.rec.mu.Unlock()
	d := &RecDelivery{Target: t.name, From: mailFrom, rec: t.rec}
	t.rec.Dels = append(t.rec.Dels, d)
	return d, nil
}

func (d *RecDelivery) closed() bool { return d.NCommit+d.NAbort > 0 }

func (d *RecDelivery) AddRcpt(ctx context.Context, to string, _ smtp.RcptOptions) error {
	d.rec.mu.Lock()
	defer d.rec.mu.Unlock()
	if d.closed() {
		d.Late++
	}
	d.Rcpts = append(d.Rcpts, to)
	d.ByRcpt = append(d.ByRcpt, d.rec.cur)
	d.rec.Calls = append(d.rec.Calls, RecCall{Target: d.Target, To: to, ByRcpt: d.rec.cur})
	return nil
}

func (d *RecDelivery) Body(ctx context.Context, h textproto.Header, b buffer.Buffer) error {
	d.rec.mu.Lock()
	defer d.rec.mu.Unlock()
	if d.closed() {
		d.Late++
	}
	d.NBody++
	return nil
}

func (d *RecDelivery) Commit(ctx context.Context) error {
	d.rec.mu.Lock()
	defer d.rec.mu.Unlock()
	if d.closed() {
		d.Late++
	}
	d.NCommit++
	return nil
}

func (d *RecDelivery) Abort(ctx context.Context) error {
	d.rec.mu.Lock()
	defer d.rec.mu.Unlock()
	if d.closed() {
		d.Late++
	}
	d.NAbort++
	return nil
}

// State of a delivery at the end of the envelope.
func (d *RecDelivery) State() string {
	switch {
	case d.Late > 0:
		return "late-call"
	case d.NBody == 1 && d.NCommit == 1 && d.NAbort == 0:
		return "committed"
	case d.NCommit == 0 && d.NAbort == 1:
		return "aborted"
	case d.NCommit == 0 && d.NAbort == 0:
		return "open"
	}
	return "mixed"
}

// ScriptTable is a module.Table for source_in / destination_in whose lookups
// fail for chosen keys (a transient table error) and otherwise answer from a
// fixed key set.
type ScriptTable struct {
	name  string
	keys  map[string]bool
	fail  map[string]bool
	Calls int
}

func (t *ScriptTable) Init(*config.Map) error { return nil }
func (t *ScriptTable) Name() string           { return "verif_table" }
func (t *ScriptTable) InstanceName() string   { return t.name }

func (t *ScriptTable) Lookup(ctx context.Context, key string) (string, bool, error) {
	t.Calls++
	if t.fail[key] {
		return "", false, errScripted
	}
	if t.keys[key] {
		return "1", true, nil
	}
	return "", false, nil
}

var errScripted = errors.New("verif: scripted table lookup failure")
