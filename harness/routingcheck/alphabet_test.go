package routingcheck

import "testing"

// TestAlphabetShape is a self-test of the harness, not a statement about maddy:
// every alphabet must have exactly the spelling structure Routing.tla assumes
// (LSp / DSp: which variants of one name are the same string), otherwise Unspell
// would name an observed address differently from the model.
func TestAlphabetShape(t *testing.T) {
	for i, ab := range Alphabets {
		for _, l := range []string{"l1", "l2", "l3", "lx"} {
			sp := map[string]string{}
			for _, v := range Variants {
				sp[v] = ab.spellLocal(l, v)
			}
			ascii := l != "l1"
			eq := [][2]string{{"lower", "alabel"}, {"upper", "ALABEL"}}
			ne := [][2]string{{"lower", "upper"}, {"lower", "nfc"}, {"upper", "nfc"}}
			if ascii {
				eq = append(eq, [2]string{"lower", "nfd"})
			} else {
				ne = append(ne, [2]string{"lower", "nfd"}, [2]string{"upper", "nfd"}, [2]string{"nfc", "nfd"})
			}
			for _, p := range eq {
				if sp[p[0]] != sp[p[1]] {
					t.Errorf("alphabet %d local %s: %s and %s must be one string: %q %q", i, l, p[0], p[1], sp[p[0]], sp[p[1]])
				}
			}
			for _, p := range ne {
				if sp[p[0]] == sp[p[1]] {
					t.Errorf("alphabet %d local %s: %s and %s must differ: %q", i, l, p[0], p[1], sp[p[0]])
				}
			}
		}
		for _, d := range []string{"d1", "d2", "d3", "dx"} {
			sp := map[string]string{}
			for _, v := range Variants {
				sp[v] = ab.spellDomain(d, v)
			}
			ascii := d == "d2" || d == "dx"
			var eq, ne [][2]string
			ne = [][2]string{{"lower", "upper"}, {"lower", "nfc"}, {"upper", "nfc"}}
			if ascii {
				eq = [][2]string{{"lower", "nfd"}, {"lower", "alabel"}, {"upper", "ALABEL"}}
			} else {
				for a := 0; a < len(Variants); a++ {
					for b := a + 1; b < len(Variants); b++ {
						ne = append(ne, [2]string{Variants[a], Variants[b]})
					}
				}
			}
			for _, p := range eq {
				if sp[p[0]] != sp[p[1]] {
					t.Errorf("alphabet %d domain %s: %s and %s must be one string: %q %q", i, d, p[0], p[1], sp[p[0]], sp[p[1]])
				}
			}
			for _, p := range ne {
				if sp[p[0]] == sp[p[1]] {
					t.Errorf("alphabet %d domain %s: %s and %s must differ: %q", i, d, p[0], p[1], sp[p[0]])
				}
			}
		}
		// the reverse map is injective on canonical variants
		cur = ab
		for s, a := range ab.reverse {
			if ab.spell(a) != s {
				t.Errorf("alphabet %d: Unspell(%q) = %v spells %q", i, s, a, ab.spell(a))
			}
		}
	}
	cur = Alphabets[0]
}
