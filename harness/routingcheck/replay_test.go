package routingcheck

import (
	"bufio"
	"io"
	"path/filepath"
	"context"
	"encoding/json"
	"errors"
	"fmt"
	"os"
	"strings"
	"sync"
	"testing"

	"github.com/emersion/go-message/textproto"
	"github.com/emersion/go-smtp"
	"github.com/foxcpp/maddy/framework/buffer"
	parser "github.com/foxcpp/maddy/framework/cfgparser"
	"github.com/foxcpp/maddy/framework/config"
	"github.com/foxcpp/maddy/framework/exterrors"
	"github.com/foxcpp/maddy/framework/log"
	"github.com/foxcpp/maddy/framework/module"
	_ "github.com/foxcpp/maddy/internal/modify"
	"github.com/foxcpp/maddy/internal/msgpipeline"
	"github.com/foxcpp/maddy/internal/table"
	"github.com/foxcpp/maddy/verifharness/vtrace"
)

// ---- input rows (printed by TLC from spec/Routing.tla) ---------------------

type MapEntry struct {
	K Addr   `json:"k"`
	V []Addr `json:"v"`
}

// Node is one directive of the pipeline configuration tree.
type Node struct {
	D     string     `json:"d"`
	Rules []Addr     `json:"rules,omitempty"` // source / destination
	Keys  []Addr     `json:"keys,omitempty"`  // source_in / destination_in (table contents)
	Tk    string     `json:"tk,omitempty"`    // table module: static | file | regexp | regexp_repl | scripted
	Fail  []Addr     `json:"fail,omitempty"`  // scripted table: keys whose lookup fails
	Code  int        `json:"code,omitempty"`  // reject (0 = bare "reject")
	Tgt   string     `json:"tgt,omitempty"`   // deliver_to
	Map   []MapEntry `json:"map,omitempty"`   // modify { replace_rcpt static { entry k v... } }
	C     []Node     `json:"c,omitempty"`
}

type Env struct {
	S Addr   `json:"s"`
	R []Addr `json:"r"`
}

type Row struct {
	ID   int    `json:"id"`
	Ab   int    `json:"ab"` // alphabet of the row (harness-only data dimension, see alphabet.go)
	Cfg  []Node `json:"cfg"`
	Envs []Env  `json:"envs"`
}

// rowRaw keeps the input exactly as TLC printed it (echoed into the event).
type rowRaw struct {
	Cfg  json.RawMessage `json:"cfg"`
	Envs json.RawMessage `json:"envs"`
}

// ---- configuration text ------------------------------------------------------

type builder struct {
	sb     strings.Builder
	tables  []*tableDef
	prefix  string
	files   []string
	closers map[string]io.Closer // file tables (a reloader goroutine each) by instance name
}

type tableDef struct {
	name string
	kind string
	keys []string
	fail []string
}

func (b *builder) line(ind int, s string) {
	b.sb.WriteString(strings.Repeat("    ", ind))
	b.sb.WriteString(s)
	b.sb.WriteString("\n")
}

func spellAll(as []Addr) string {
	out := make([]string, len(as))
	for i, a := range as {
		out[i] = Spell(a)
	}
	return strings.Join(out, " ")
}

func rejectArgs(code int) string {
	switch {
	case code == 0:
		return "reject"
	case code/100 == 4:
		return fmt.Sprintf("reject %d 4.7.0 \"verif reject %d\"", code, code)
	default:
		return fmt.Sprintf("reject %d 5.7.0 \"verif reject %d\"", code, code)
	}
}

func (b *builder) nodes(ind int, ns []Node) {
	for _, n := range ns {
		switch n.D {
		case "source", "destination":
			b.line(ind, n.D+" "+spellAll(n.Rules)+" {")
			b.nodes(ind+1, n.C)
			b.line(ind, "}")
		case "source_in", "destination_in":
			t := &tableDef{name: fmt.Sprintf("%stbl%d", b.prefix, len(b.tables)+1), kind: n.Tk}
			for _, k := range n.Keys {
				t.keys = append(t.keys, Spell(k))
			}
			for _, k := range n.Fail {
				t.fail = append(t.fail, Spell(k))
			}
			switch n.Tk {
			case "identity":
				// catch-all: table.identity answers for every key (Routing.tla: CatchAll)
				b.line(ind, n.D+" identity {")
			case "regexp_all":
				// catch-all: a pattern every key matches, the empty key (null sender) included
				b.line(ind, n.D+` regexp ".*" {`)
			case "regexp", "regexp_repl":
				// the documented match-check form (docs/reference/table/regexp.md), inline
				alts := make([]string, len(t.keys))
				for i, k := range t.keys {
					alts[i] = strings.ReplaceAll(k, ".", "[.]")
				}
				arg := `"(` + strings.Join(alts, "|") + `)"`
				if n.Tk == "regexp_repl" {
					arg += ` "listed"`
				}
				b.line(ind, n.D+" regexp "+arg+" {")
			default:
				b.tables = append(b.tables, t)
				b.line(ind, n.D+" &"+t.name+" {")
			}
			b.nodes(ind+1, n.C)
			b.line(ind, "}")
		case "default_source", "default_destination", "reroute":
			b.line(ind, n.D+" {")
			b.nodes(ind+1, n.C)
			b.line(ind, "}")
		case "reject":
			b.line(ind, rejectArgs(n.Code))
		case "deliver_to":
			b.line(ind, "deliver_to &"+n.Tgt)
		case "modify":
			b.line(ind, "modify {")
			b.line(ind+1, "replace_rcpt static {")
			for _, e := range n.Map {
				b.line(ind+2, "entry "+Spell(e.K)+" "+spellAll(e.V))
			}
			b.line(ind+1, "}")
			b.line(ind, "}")
		default:
			b.line(ind, "verif_unknown_directive_"+n.D)
		}
	}
}

// ---- running one row ---------------------------------------------------------

var targetNames = []string{"T1", "T2", "T3"}

type rcptOut struct {
	Code int      `json:"code"`
	Ench string   `json:"ench"`
	Dl   []dlPair `json:"dl"`
}

type dlPair struct {
	T string `json:"t"`
	A Addr   `json:"a"`
}

type delOut struct {
	T    string `json:"t"`
	From Addr   `json:"from"`
	Rc   []Addr `json:"rc"`
	St   string `json:"st"`
}

type envOut struct {
	Mail int       `json:"mail"`
	Rc   []rcptOut `json:"rc"`
	Tg   []delOut  `json:"tg"`
	Fin  string    `json:"fin"` // "commit" | "abort" | "none" and its error code if any
	Path string    `json:"path"` // "atomic" (Body) | "nonatomic" (BodyNonAtomic)
	FinC int       `json:"finc"`
}

// statusRec is the module.StatusCollector of the non-atomic path: first failure status.
type statusRec struct {
	mu  sync.Mutex
	n   int
	err error
}

func (s *statusRec) SetStatus(rcptTo string, err error) {
	s.mu.Lock()
	defer s.mu.Unlock()
	s.n++
	if err != nil && s.err == nil {
		s.err = err
	}
}

func smtpCode(err error) (int, string) {
	if err == nil {
		return 0, ""
	}
	var se *exterrors.SMTPError
	if errors.As(err, &se) {
		return se.Code, fmt.Sprintf("%d.%d.%d", se.EnhancedCode[0], se.EnhancedCode[1], se.EnhancedCode[2])
	}
	return 999, "" // an error that is not an SMTP reply
}

func registerInstances(b *builder, rec *Recorder) {
	for _, n := range targetNames {
		module.RegisterInstance(&RecTarget{name: n, rec: rec}, nil)
		module.Initialized[n] = true
	}
	for _, t := range b.tables {
		delete(module.Initialized, t.name)
		switch t.kind {
		case "scripted":
			st := &ScriptTable{name: t.name, keys: map[string]bool{}, fail: map[string]bool{}}
			for _, k := range t.keys {
				st.keys[k] = true
			}
			for _, k := range t.fail {
				st.fail[k] = true
			}
			module.RegisterInstance(st, nil)
		case "file":
			path := filepath.Join(workDir(), t.name+".aliases")
			var sb strings.Builder
			for _, k := range t.keys {
				sb.WriteString(k + ": 1\n")
			}
			if err := os.WriteFile(path, []byte(sb.String()), 0o600); err != nil {
				panic(err)
			}
			mod, err := table.NewFile(table.FileModName, t.name, nil, []string{path})
			if err != nil {
				panic(err)
			}
			b.files = append(b.files, path)
			if b.closers == nil {
				b.closers = map[string]io.Closer{}
			}
			b.closers[t.name] = mod.(io.Closer)
			module.RegisterInstance(mod, config.NewMap(nil, config.Node{Name: "table.file", Args: []string{t.name}}))
		default:
			mod, err := table.NewStatic(t.name, t.name, nil, nil)
			if err != nil {
				panic(err)
			}
			blk := config.Node{Name: "table.static", Args: []string{t.name}}
			for _, k := range t.keys {
				blk.Children = append(blk.Children, config.Node{Name: "entry", Args: []string{k, "1"}})
			}
			module.RegisterInstance(mod, config.NewMap(nil, blk))
		}
	}
}

func workDir() string {
	if d := os.Getenv("VERIF_TMP"); d != "" {
		return d
	}
	return os.TempDir()
}

func loadRow(text string) (p *msgpipeline.MsgPipeline, errText string) {
	defer func() {
		if r := recover(); r != nil {
			p, errText = nil, fmt.Sprintf("PANIC: %v", r)
		}
	}()
	nodes, err := parser.Read(strings.NewReader(text), "verif.conf")
	if err != nil {
		return nil, "PARSE: " + err.Error()
	}
	p, err = msgpipeline.New(nil, nodes)
	if err != nil {
		return nil, err.Error()
	}
	p.Log = log.Logger{Out: log.NopOutput{}}
	p.Hostname = "mx.verif.test"
	return p, ""
}

func runEnv(p *msgpipeline.MsgPipeline, rec *Recorder, rowID, k int, e Env) (out envOut) {
	rec.mu.Lock()
	rec.Dels = nil
	rec.Calls = nil
	rec.cur = -1
	rec.mu.Unlock()
	out.Rc = []rcptOut{}
	out.Tg = []delOut{}
	out.Fin = "none"
	out.Path = "atomic"
	ctx := context.Background()
	from := Spell(e.S)
	meta := &module.MsgMetadata{ID: fmt.Sprintf("r%de%d", rowID, k), OriginalFrom: from, SMTPOpts: smtp.MailOptions{UTF8: true}}
	d, err := p.Start(ctx, meta, from)
	out.Mail, _ = smtpCode(err)
	if err == nil {
		accepted := 0
		for i, r := range e.R {
			rec.mu.Lock()
			rec.cur = i
			rec.mu.Unlock()
			err := d.AddRcpt(ctx, Spell(r), smtp.RcptOptions{})
			code, ench := smtpCode(err)
			out.Rc = append(out.Rc, rcptOut{Code: code, Ench: ench, Dl: []dlPair{}})
			if err == nil {
				accepted++
			}
		}
		rec.mu.Lock()
		rec.cur = -1
		rec.mu.Unlock()
		if accepted > 0 {
			hdr := textproto.Header{}
			hdr.Add("Subject", "verif")
			hdr.Add("From", "<"+from+">")
			out.Fin = "commit"
			// HARNESS-ONLY DATA DIMENSION: the two ways a message source hands over the body.
			// Every second envelope takes the per-recipient path of LMTP and the queue
			// (module.PartialDelivery.BodyNonAtomic, then always Commit) instead of Body; the
			// model has one hand-over step and the same clause for both (EnvViol NotHandedOver:
			// every delivery that got a recipient is committed).
			if pd, ok := d.(module.PartialDelivery); ok && (rowID+k)%2 == 1 {
				out.Path = "nonatomic"
				sc := &statusRec{}
				pd.BodyNonAtomic(ctx, sc, hdr, buffer.MemoryBuffer{Slice: []byte("hello\r\n")})
				if sc.err != nil {
					out.FinC, _ = smtpCode(sc.err)
					out.Fin = "body-failed"
				}
				if err := d.Commit(ctx); err != nil && out.Fin == "commit" {
					out.FinC, _ = smtpCode(err)
					out.Fin = "commit-failed"
				}
			} else if err := d.Body(ctx, hdr, buffer.MemoryBuffer{Slice: []byte("hello\r\n")}); err != nil {
				out.FinC, _ = smtpCode(err)
				out.Fin = "body-failed"
				d.Abort(ctx)
			} else if err := d.Commit(ctx); err != nil {
				out.FinC, _ = smtpCode(err)
				out.Fin = "commit-failed"
			}
		} else {
			out.Fin = "abort"
			if err := d.Abort(ctx); err != nil {
				out.FinC, _ = smtpCode(err)
			}
		}
	}
	rec.mu.Lock()
	defer rec.mu.Unlock()
	// attribution of every AddRcpt seen by a target to the envelope recipient
	// being processed, in global call order (deliveries are appended in Start
	// order, calls inside one delivery in call order; the per-recipient lists
	// are rebuilt from the per-call recipient index)
	for _, del := range rec.Dels {
		do := delOut{T: del.Target, From: Unspell(del.From), Rc: []Addr{}, St: del.State()}
		for j, a := range del.Rcpts {
			do.Rc = append(do.Rc, Unspell(a))
			if i := del.ByRcpt[j]; i < 0 || i >= len(out.Rc) {
				do.St = "rcpt-outside-RCPT"
			}
		}
		out.Tg = append(out.Tg, do)
	}
	for _, c := range rec.Calls {
		if c.ByRcpt >= 0 && c.ByRcpt < len(out.Rc) {
			out.Rc[c.ByRcpt].Dl = append(out.Rc[c.ByRcpt].Dl, dlPair{T: c.Target, A: Unspell(c.To)})
		}
	}
	return out
}

func runRow(row Row, raw rowRaw, w *bufio.Writer) {
	tr := vtrace.New(w, row.ID)
	UseAlphabet(row.Ab)
	b := &builder{prefix: fmt.Sprintf("r%d", row.ID)}
	b.nodes(0, row.Cfg)
	text := b.sb.String()
	rec := &Recorder{cur: -1}
	registerInstances(b, rec)
	p, errText := loadRow(text)
	load := "ok"
	res := []envOut{}
	if p == nil {
		load = "error"
		if strings.HasPrefix(errText, "PANIC") || strings.HasPrefix(errText, "PARSE") {
			load = "broken"
		}
	} else {
		for k, e := range row.Envs {
			res = append(res, runEnv(p, rec, row.ID, k, e))
		}
	}
	for name, c := range b.closers {
		if module.Initialized[name] { // Init started the reloader; Close blocks otherwise
			c.Close()
		}
	}
	for _, f := range b.files {
		os.Remove(f)
	}
	tr.Emit("Row", vtrace.Ev{
		"in":   raw,
		"out":  map[string]interface{}{"load": load, "res": res},
		"text": text, "loaderr": errText, "ab": row.Ab,
	})
}

func TestReplay(t *testing.T) {
	in, out := os.Getenv("VERIF_IN"), os.Getenv("VERIF_OUT")
	if in == "" || out == "" {
		t.Skip("VERIF_IN / VERIF_OUT not set")
	}
	// harness self-test: the alphabets have the spelling structure the model assumes
	if TestAlphabetShape(t); t.Failed() {
		t.FailNow()
	}
	f, err := os.Open(in)
	if err != nil {
		t.Fatal(err)
	}
	defer f.Close()
	of, err := os.Create(out)
	if err != nil {
		t.Fatal(err)
	}
	defer of.Close()
	w := bufio.NewWriter(of)
	defer w.Flush()
	sc := bufio.NewScanner(f)
	sc.Buffer(make([]byte, 1<<20), 1<<26)
	n := 0
	for sc.Scan() {
		var row Row
		if err := json.Unmarshal(sc.Bytes(), &row); err != nil {
			t.Fatalf("bad row: %v", err)
		}
		var raw rowRaw
		if err := json.Unmarshal(sc.Bytes(), &raw); err != nil {
			t.Fatalf("bad row: %v", err)
		}
		runRow(row, raw, w)
		n++
	}
	t.Logf("replayed %d rows", n)
}
