// Package dmarccheck runs the rows of spec/Dmarc.tla (printed by TLC) through
// the real DMARC code of maddy and records what it answered:
//
//   - internal/dmarc: ExtractFromDomain, FetchRecord, EvaluateAlignment and
//     Verifier.FetchRecord/Apply with a scripted resolver;
//   - the real message pipeline (internal/msgpipeline, built from configuration
//     text "dmarc yes; check { verif_dmarc }; deliver_to &verif_dmarc_target") with a scripted check that
//     returns the row's SPF/DKIM results and a recording target: the action is
//     the SMTP error class returned by Body or the quarantine flag the target sees.
//
// Input  (VERIF_IN):  {"id":N,"in":{...row of Dmarc.tla...},"zone":[{"name","ans"}]}
// Output (VERIF_OUT): {"t":id,"seq":1,"e":"Row","in":...,"out":{...}}
// The first event of a shard (t = 0) is "OrgTable": what the real public suffix
// list says about the model's lower-case names (checked against the spec constant).
package dmarccheck

import (
	"bufio"
	"context"
	"crypto/ed25519"
	"crypto/rand"
	"encoding/base64"
	"encoding/json"
	"errors"
	"fmt"
	"net"
	"os"
	"strings"
	"sync"
	"testing"
	"time"

	"github.com/emersion/go-message/textproto"
	"github.com/emersion/go-msgauth/authres"
	"github.com/emersion/go-msgauth/dkim"
	"github.com/emersion/go-smtp"
	"github.com/foxcpp/maddy/framework/buffer"
	parser "github.com/foxcpp/maddy/framework/cfgparser"
	"github.com/foxcpp/maddy/framework/config"
	"github.com/foxcpp/maddy/framework/exterrors"
	"github.com/foxcpp/maddy/framework/log"
	"github.com/foxcpp/maddy/framework/module"
	dkimcheck "github.com/foxcpp/maddy/internal/check/dkim"
	"github.com/foxcpp/maddy/internal/dmarc"
	"github.com/foxcpp/maddy/internal/msgpipeline"
	"github.com/foxcpp/maddy/verifharness/vtrace"
	"golang.org/x/net/publicsuffix"
)

type DK struct {
	V string `json:"v"`
	D string `json:"d"`
}

type In struct {
	Tab   string `json:"tab"`
	Shape string `json:"shape"`
	From  string `json:"from"`
	From2 string `json:"from2"`
	Dkim  []DK   `json:"dkim"`
	Spf   struct {
		V    string `json:"v"`
		Mf   string `json:"mf"`   // MAIL FROM domain, "" = null reverse-path
		Helo string `json:"helo"` // HELO domain (client-chosen)
	} `json:"spf"`
	Order string `json:"order"`
	Adkim string `json:"adkim"`
	Aspf  string `json:"aspf"`
	P     string `json:"p"`
	Sp    string `json:"sp"`
	Pct   string `json:"pct"`
	Ldom  string `json:"ldom"`
	Lorg  string `json:"lorg"`
	Slow  bool   `json:"slow"` // the policy lookup is unanswered until a source-block check runs
	Real  string `json:"real"` // "no" | "unsigned" | "valid" | "broken": DKIM results from the real check.dkim
	// Cq: a cooperating check of the same pipeline quarantines the message: "no" | "sender" (pipeline-wide
	// check block, sender stage) | "body" (source block, body stage) | "meta" (the message is handed to the
	// pipeline already flagged: MsgMetadata.Quarantine set by the message source)
	Cq string `json:"cq"`
	// Path: "atomic" (Body) | "na" (BodyNonAtomic, a status per recipient)
	Path string `json:"path"`
}

type ZoneEnt struct {
	Name string `json:"name"`
	Ans  string `json:"ans"`
}

type Row struct {
	ID   int       `json:"id"`
	In   In        `json:"in"`
	Zone []ZoneEnt `json:"zone"`
}

// ---- scripted resolver -----------------------------------------------------

type rowKey struct{}

type rowEnv struct {
	zone map[string]string // lower-case "_dmarc.<name>" -> answer kind
	txt  string
	// DKIM key record of real-message rows: <selector>._domainkey.<keyDomain>
	keyDomain string
	keyTXT    string
	mu        sync.Mutex
	queries   []string

	// gate for "slow" rows: _dmarc queries made by the pipeline are answered only
	// after a check of the source block has run (released), like a slow DNS server
	gated    bool
	gate     chan struct{}
	gateOnce sync.Once
	infra    string
}

func (e *rowEnv) release() { e.gateOnce.Do(func() { close(e.gate) }) }

// holdCap bounds a wait that can only expire if the harness itself is wrong.
const holdCap = 20 * time.Second

func canceled(name string) error {
	return &net.DNSError{Err: "operation was canceled", Name: name, Server: "scripted"}
}

type resolver struct{}

var errNotScripted = errors.New("dmarccheck: lookup not scripted")

func (resolver) LookupAddr(context.Context, string) ([]string, error) { return nil, errNotScripted }
func (resolver) LookupHost(context.Context, string) ([]string, error) { return nil, errNotScripted }
func (resolver) LookupMX(context.Context, string) ([]*net.MX, error)  { return nil, errNotScripted }
func (resolver) LookupIPAddr(context.Context, string) ([]net.IPAddr, error) {
	return nil, errNotScripted
}

func (resolver) LookupTXT(ctx context.Context, name string) ([]string, error) {
	env, _ := ctx.Value(rowKey{}).(*rowEnv)
	if env == nil {
		return nil, errNotScripted
	}
	key := strings.ToLower(strings.TrimSuffix(name, ".")) // DNS names are case-insensitive
	env.mu.Lock()
	env.queries = append(env.queries, name)
	gated := env.gated
	env.mu.Unlock()
	// like a real resolver: a query whose context is gone fails
	if ctx.Err() != nil {
		return nil, canceled(name)
	}
	if strings.HasSuffix(key, "._domainkey."+strings.ToLower(env.keyDomain)) && env.keyTXT != "" {
		return []string{env.keyTXT}, nil
	}
	if gated && strings.HasPrefix(key, "_dmarc.") {
		select {
		case <-env.gate:
		case <-ctx.Done():
			return nil, canceled(name)
		case <-time.After(holdCap):
			env.mu.Lock()
			env.infra = "gated _dmarc query was never released (no source-block check ran?)"
			env.mu.Unlock()
		}
		if ctx.Err() != nil {
			return nil, canceled(name)
		}
	}
	ans, ok := env.zone[key]
	if !ok {
		ans = "nxdomain"
	}
	switch ans {
	case "record":
		return []string{env.txt}, nil
	case "recjunk":
		return []string{"v=spf1 -all", env.txt, "some unrelated text"}, nil
	case "junk":
		return []string{"v=spf1 -all"}, nil
	case "multiple":
		return []string{env.txt, "v=DMARC1; p=none"}, nil
	case "none":
		return nil, nil
	case "servfail":
		return nil, &net.DNSError{Err: "server misbehaving", Name: name, Server: "scripted", IsTemporary: true}
	default:
		return nil, &net.DNSError{Err: "no such host", Name: name, Server: "scripted", IsNotFound: true}
	}
}

func recordText(in In) string {
	parts := []string{"v=DMARC1"}
	if in.P != "absent" {
		parts = append(parts, "p="+in.P)
	}
	if in.Sp != "absent" {
		parts = append(parts, "sp="+in.Sp)
	}
	parts = append(parts, "adkim="+in.Adkim, "aspf="+in.Aspf)
	if in.Pct != "absent" {
		parts = append(parts, "pct="+in.Pct)
	}
	return strings.Join(parts, "; ")
}

func envOf(r Row) *rowEnv {
	env := &rowEnv{zone: map[string]string{}, txt: recordText(r.In), gate: make(chan struct{})}
	for _, z := range r.Zone {
		env.zone["_dmarc."+strings.ToLower(z.Name)] = z.Ans
	}
	return env
}

// ---- message of a row --------------------------------------------------------

func headerOf(in In) textproto.Header {
	var b strings.Builder
	b.WriteString("Subject: verif\r\nTo: <rcpt@rcpt.invalid>\r\n")
	switch in.Shape {
	case "one":
		b.WriteString("From: Author <author@" + in.From + ">\r\n")
	case "nofield":
	case "emptygroup":
		b.WriteString("From: undisclosed-authors:;\r\n")
	case "twoaddr":
		b.WriteString("From: A <a@" + in.From + ">, B <b@" + in.From2 + ">\r\n")
	case "plainlist":
		b.WriteString("From: a@" + in.From + ", b@" + in.From2 + "\r\n")
	case "threeaddr":
		b.WriteString("From: \"Chief, Exec\" <ceo@" + in.From + ">, intern@" + in.From2 + ", Third <c@" + in.From + ">\r\n")
	case "dupaddr":
		b.WriteString("From: a@" + in.From + ", A <a@" + in.From + ">\r\n")
	case "twofields":
		b.WriteString("From: A <a@" + in.From + ">\r\nFrom: B <b@" + in.From2 + ">\r\n")
	case "grouptwo":
		b.WriteString("From: team: a@" + in.From + ", b@" + in.From2 + ";\r\n")
	default:
		panic("unknown shape " + in.Shape)
	}
	b.WriteString("Message-Id: <1@verif.invalid>\r\n\r\n")
	h, err := textproto.ReadHeader(bufio.NewReader(strings.NewReader(b.String())))
	if err != nil {
		panic(err)
	}
	return h
}

func resultsOf(in In) []authres.Result {
	var dk []authres.Result
	for _, d := range in.Dkim {
		dk = append(dk, &authres.DKIMResult{Value: authres.ResultValue(d.V), Domain: d.D, Identifier: ""})
	}
	// as check.spf fills it: both names are always present in the entry
	spf := &authres.SPFResult{Value: authres.ResultValue(in.Spf.V), From: in.Spf.Mf, Helo: in.Spf.Helo}
	if in.Order == "spf_first" {
		return append([]authres.Result{spf}, dk...)
	}
	return append(dk, spf)
}

// ---- scripted check and recording target, referenced from the pipeline config ----

type check struct{ rows sync.Map } // msg ID -> []authres.Result

func (c *check) Init(*config.Map) error { return nil }
func (c *check) Name() string           { return "verif_dmarc_check" }
func (c *check) InstanceName() string   { return "verif_dmarc_check" }
func (c *check) CheckStateForMsg(_ context.Context, m *module.MsgMetadata) (module.CheckState, error) {
	v, ok := c.rows.Load(m.ID)
	if !ok {
		return nil, fmt.Errorf("no row for message %s", m.ID)
	}
	return &checkState{res: v.([]authres.Result)}, nil
}

type checkState struct{ res []authres.Result }

func (s *checkState) CheckConnection(context.Context) module.CheckResult { return module.CheckResult{} }
func (s *checkState) CheckSender(context.Context, string) module.CheckResult {
	return module.CheckResult{}
}
func (s *checkState) CheckRcpt(context.Context, string) module.CheckResult {
	return module.CheckResult{}
}
func (s *checkState) CheckBody(context.Context, textproto.Header, buffer.Buffer) module.CheckResult {
	return module.CheckResult{AuthResult: s.res}
}
func (s *checkState) Close() error { return nil }

// gateCheck sits in the source block: when its CheckBody runs the pipeline-wide body
// checks have returned; it lets the row's slow _dmarc query be answered.
type gateCheck struct{ envs sync.Map } // msg ID -> *rowEnv

func (c *gateCheck) Init(*config.Map) error { return nil }
func (c *gateCheck) Name() string           { return "verif_dmarc_gate" }
func (c *gateCheck) InstanceName() string   { return "verif_dmarc_gate" }
func (c *gateCheck) CheckStateForMsg(_ context.Context, m *module.MsgMetadata) (module.CheckState, error) {
	v, _ := c.envs.Load(m.ID)
	env, _ := v.(*rowEnv)
	return &gateState{env: env}, nil
}

type gateState struct{ env *rowEnv }

func (s *gateState) CheckConnection(context.Context) module.CheckResult { return module.CheckResult{} }
func (s *gateState) CheckSender(context.Context, string) module.CheckResult {
	return module.CheckResult{}
}
func (s *gateState) CheckRcpt(context.Context, string) module.CheckResult {
	return module.CheckResult{}
}
func (s *gateState) CheckBody(context.Context, textproto.Header, buffer.Buffer) module.CheckResult {
	if s.env != nil {
		s.env.release()
	}
	return module.CheckResult{}
}
func (s *gateState) Close() error { return nil }

// coopCheck is the second, cooperating component: a check that asks for the message to be
// quarantined (what check.spf does by default for an SPF fail), at the stage the row names.
// One instance sits in the pipeline-wide check block (stage "sender"), one in the source
// block (stage "body"); for rows without such a check both answer nothing.
type coopCheck struct {
	stage string
	rows  sync.Map // msg ID -> cq of the row
}

func (c *coopCheck) Init(*config.Map) error { return nil }
func (c *coopCheck) Name() string           { return "verif_dmarc_coop_" + c.stage }
func (c *coopCheck) InstanceName() string   { return "verif_dmarc_coop_" + c.stage }
func (c *coopCheck) CheckStateForMsg(_ context.Context, m *module.MsgMetadata) (module.CheckState, error) {
	v, _ := c.rows.Load(m.ID)
	cq, _ := v.(string)
	return &coopState{on: cq == c.stage, stage: c.stage}, nil
}

type coopState struct {
	on    bool
	stage string
}

func (s *coopState) res(stage string) module.CheckResult {
	if !s.on || stage != s.stage {
		return module.CheckResult{}
	}
	return module.CheckResult{Quarantine: true, Reason: &exterrors.SMTPError{Code: 550,
		EnhancedCode: exterrors.EnhancedCode{5, 7, 23}, Message: "cooperating check failed", CheckName: "verif_dmarc_coop"}}
}
func (s *coopState) CheckConnection(context.Context) module.CheckResult     { return s.res("conn") }
func (s *coopState) CheckSender(context.Context, string) module.CheckResult { return s.res("sender") }
func (s *coopState) CheckRcpt(context.Context, string) module.CheckResult   { return s.res("rcpt") }
func (s *coopState) CheckBody(context.Context, textproto.Header, buffer.Buffer) module.CheckResult {
	return s.res("body")
}
func (s *coopState) Close() error { return nil }

type naCollector struct {
	mu sync.Mutex
	st map[string][]error
}

func (c *naCollector) SetStatus(rcpt string, err error) {
	c.mu.Lock()
	defer c.mu.Unlock()
	c.st[rcpt] = append(c.st[rcpt], err)
}

type seen struct {
	body, committed, aborted bool
	quarantine               bool
	authResHdr               string
}

type tgt struct {
	mu   sync.Mutex
	msgs map[string]*seen
}

func (t *tgt) Init(*config.Map) error { return nil }
func (t *tgt) Name() string           { return "verif_dmarc_target" }
func (t *tgt) InstanceName() string   { return "verif_dmarc_target" }
func (t *tgt) get(id string) *seen {
	t.mu.Lock()
	defer t.mu.Unlock()
	s := t.msgs[id]
	if s == nil {
		s = &seen{}
		t.msgs[id] = s
	}
	return s
}
func (t *tgt) take(id string) *seen {
	t.mu.Lock()
	defer t.mu.Unlock()
	s := t.msgs[id]
	delete(t.msgs, id)
	return s
}
func (t *tgt) Start(_ context.Context, m *module.MsgMetadata, _ string) (module.Delivery, error) {
	return &tgtDelivery{t: t, m: m}, nil
}

type tgtDelivery struct {
	t *tgt
	m *module.MsgMetadata
}

func (d *tgtDelivery) AddRcpt(context.Context, string, smtp.RcptOptions) error { return nil }
func (d *tgtDelivery) Body(_ context.Context, h textproto.Header, _ buffer.Buffer) error {
	s := d.t.get(d.m.ID)
	s.body = true
	s.quarantine = d.m.Quarantine
	s.authResHdr = h.Get("Authentication-Results")
	return nil
}
func (d *tgtDelivery) Abort(context.Context) error { d.t.get(d.m.ID).aborted = true; return nil }
func (d *tgtDelivery) Commit(context.Context) error {
	s := d.t.get(d.m.ID)
	s.committed = true
	s.quarantine = s.quarantine || d.m.Quarantine
	return nil
}

// pipeline-wide check with the row's results; a source block with one more check (the
// gate) so that body checks run in two groups, as with any per-source configuration
const pipelineCfg = `
dmarc yes
check {
    verif_dmarc
    verif_dmarc_coop_sender
}
default_source {
    check {
        verif_dmarc_gate
        verif_dmarc_coop_body
    }
    deliver_to &verif_dmarc_target
}
`

// real-message rows: SPF from the scripted check, DKIM from the real check.dkim with
// its default configuration (no directives)
const realPipelineCfg = `
dmarc yes
check {
    verif_dmarc
    verif_realdkim
}
deliver_to &verif_dmarc_target
`

type world struct {
	chk      *check
	coopS    *coopCheck
	coopB    *coopCheck
	gate     *gateCheck
	tgt      *tgt
	pipe     *msgpipeline.MsgPipeline
	realPipe *msgpipeline.MsgPipeline
	realDkim *dkimcheck.Check
	key      ed25519.PrivateKey
	keyTXT   string
	sigs     map[string]string
}

func newWorld(t *testing.T) *world {
	w := &world{chk: &check{}, gate: &gateCheck{}, tgt: &tgt{msgs: map[string]*seen{}}, sigs: map[string]string{},
		coopS: &coopCheck{stage: "sender"}, coopB: &coopCheck{stage: "body"}}
	pub, priv, err := ed25519.GenerateKey(rand.Reader)
	if err != nil {
		t.Fatal(err)
	}
	w.key = priv
	w.keyTXT = "v=DKIM1; k=ed25519; p=" + base64.StdEncoding.EncodeToString(pub)
	module.Register("check.verif_dmarc", func(_, _ string, _, _ []string) (module.Module, error) {
		return w.chk, nil
	})
	module.Register("check.verif_dmarc_gate", func(_, _ string, _, _ []string) (module.Module, error) {
		return w.gate, nil
	})
	module.Register("check.verif_dmarc_coop_sender", func(_, _ string, _, _ []string) (module.Module, error) {
		return w.coopS, nil
	})
	module.Register("check.verif_dmarc_coop_body", func(_, _ string, _, _ []string) (module.Module, error) {
		return w.coopB, nil
	})
	// the real module from its own constructor; only the resolver is replaced
	module.Register("check.verif_realdkim", func(_, instName string, _, inlineArgs []string) (module.Module, error) {
		m, err := dkimcheck.New("check.dkim", instName, nil, inlineArgs)
		if err != nil {
			return nil, err
		}
		dkimcheck.VerifSetResolver(m.(*dkimcheck.Check), resolver{})
		w.realDkim = m.(*dkimcheck.Check)
		return m, nil
	})
	module.RegisterInstance(w.tgt, nil)
	mk := func(cfg string) *msgpipeline.MsgPipeline {
		nodes, err := parser.Read(strings.NewReader(cfg), "verif-dmarc.conf")
		if err != nil {
			t.Fatal(err)
		}
		p, err := msgpipeline.New(map[string]interface{}{}, nodes)
		if err != nil {
			t.Fatalf("pipeline config: %v", err)
		}
		p.Resolver = resolver{}
		p.Hostname = "mx.verif.invalid"
		p.Log = log.Logger{Out: log.NopOutput{}}
		return p
	}
	w.pipe = mk(pipelineCfg)
	w.realPipe = mk(realPipelineCfg)
	if w.realDkim == nil {
		t.Fatal("real check.dkim was not instantiated")
	}
	return w
}

const (
	realBody    = "hello\r\n"
	realBodyAlt = "hello, this is not the signed body\r\n"
	selector    = "verif"
)

// realHeader returns the header of the row's real message: unsigned, or carrying a real
// ed25519 DKIM-Signature by domain d over the actual body (valid) or another body (broken).
func (w *world) realHeader(t *testing.T, in In) textproto.Header {
	base := "From: Author <author@" + in.From + ">\r\nSubject: verif\r\nTo: <rcpt@rcpt.invalid>\r\n" +
		"Date: Thu, 01 Oct 2026 00:00:00 +0000\r\nMessage-Id: <1@verif.invalid>\r\n"
	sig := ""
	if in.Real != "unsigned" {
		d := in.Dkim[0].D
		k := in.Real + "|" + d + "|" + in.From
		if f, ok := w.sigs[k]; ok {
			sig = f
		} else {
			body := realBody
			if in.Real == "broken" {
				body = realBodyAlt
			}
			sg, err := dkim.NewSigner(&dkim.SignOptions{Domain: d, Selector: selector, Signer: w.key,
				HeaderCanonicalization: dkim.CanonicalizationRelaxed, BodyCanonicalization: dkim.CanonicalizationRelaxed,
				HeaderKeys: []string{"From", "Subject", "To", "Date"}})
			if err != nil {
				t.Fatal(err)
			}
			if _, err := sg.Write([]byte(base + "\r\n" + body)); err != nil {
				t.Fatal(err)
			}
			if err := sg.Close(); err != nil {
				t.Fatal(err)
			}
			sig = sg.Signature()
			w.sigs[k] = sig
		}
	}
	h, err := textproto.ReadHeader(bufio.NewReader(strings.NewReader(sig + base + "\r\n")))
	if err != nil {
		t.Fatal(err)
	}
	return h
}

func spfOnly(rs []authres.Result) []authres.Result {
	var o []authres.Result
	for _, r := range rs {
		if _, ok := r.(*authres.SPFResult); ok {
			o = append(o, r)
		}
	}
	return o
}

// ---- one row -------------------------------------------------------------------

type out struct {
	// Verifier.FetchRecord + Apply
	Verdict string `json:"verdict"`
	Policy  string `json:"policy"`
	Reason  string `json:"reason"`
	// the pipeline
	Action     string `json:"action"`
	SMTPCode   int    `json:"smtpCode"`
	PipeErr    string `json:"pipeErr"`
	Quarantine bool   `json:"quarantine"`
	Delivered  bool   `json:"delivered"`
	AuthRes    string `json:"authRes"`
	// pieces
	FromOK      bool     `json:"fromOK"`
	FromDomain  string   `json:"fromDomain"`
	PolicyDom   string   `json:"policyDomain"`
	RecFound    bool     `json:"recFound"`
	FetchErr    string   `json:"fetchErr"`
	EvalVerdict string   `json:"evalVerdict"`
	DKIMAligned bool     `json:"dkimAligned"`
	SPFAligned  bool     `json:"spfAligned"`
	Queries     []string `json:"queries"`
	Panic       string   `json:"panic"`
	RealDKIM    []string `json:"realDkim"` // what the real check.dkim reported (value/domain)
	Infra       string   `json:"infra"`    // harness-side trouble: says nothing about maddy
}

func runRow(t *testing.T, w *world, r Row) (o out) {
	in := r.In
	env := envOf(r)
	ctx := context.WithValue(context.Background(), rowKey{}, env)
	results := resultsOf(in)
	defer func() {
		if e := recover(); e != nil {
			o.Panic = fmt.Sprint(e)
			o.Verdict, o.Action = "panic", "panic"
		}
	}()
	o.RealDKIM = []string{}
	hdrOf := func() textproto.Header { return headerOf(in) }
	body := buffer.MemoryBuffer{Slice: []byte("hello\r\n")}
	pipe := w.pipe
	pipeResults := results
	if in.Real != "" && in.Real != "no" {
		// DKIM results come from the real check.dkim run on the real message
		hdrOf = func() textproto.Header { return w.realHeader(t, in) }
		body = buffer.MemoryBuffer{Slice: []byte(realBody)}
		pipe = w.realPipe
		if in.Real != "unsigned" {
			env.keyDomain, env.keyTXT = in.Dkim[0].D, w.keyTXT
		}
		st, err := w.realDkim.CheckStateForMsg(ctx, &module.MsgMetadata{ID: fmt.Sprintf("direct%d", r.ID)})
		if err != nil {
			t.Fatalf("row %d: check.dkim state: %v", r.ID, err)
		}
		cres := st.CheckBody(ctx, hdrOf(), body)
		st.Close()
		var dk []authres.Result
		for _, ar := range cres.AuthResult {
			if d, ok := ar.(*authres.DKIMResult); ok {
				dk = append(dk, d)
				o.RealDKIM = append(o.RealDKIM, string(d.Value)+"/"+d.Domain)
			}
		}
		spf := spfOnly(results)
		if in.Order == "spf_first" {
			results = append(append([]authres.Result{}, spf...), dk...)
		} else {
			results = append(dk, spf...)
		}
		pipeResults = spf // in the pipeline the real check adds its own results
	}

	// 1. the verifier
	v := dmarc.NewVerifier(resolver{})
	v.FetchRecord(ctx, hdrOf())
	ev, pol := v.Apply(results)
	v.Close()
	o.Verdict, o.Policy, o.Reason = string(ev.Authres.Value), string(pol), ev.Authres.Reason

	// 2. its pieces, for diagnosis
	dom, err := dmarc.ExtractFromDomain(hdrOf())
	o.FromOK, o.FromDomain = err == nil, dom
	if err == nil {
		pd, rec, ferr := dmarc.FetchRecord(ctx, resolver{}, dom)
		o.PolicyDom, o.RecFound = pd, rec != nil
		if ferr != nil {
			o.FetchErr = ferr.Error()
		}
		if rec != nil {
			e2 := dmarc.EvaluateAlignment(dom, rec, results)
			o.EvalVerdict, o.DKIMAligned, o.SPFAligned = string(e2.Authres.Value), e2.DKIMAligned, e2.SPFAligned
		}
	}
	env.mu.Lock()
	env.queries = nil
	env.mu.Unlock()

	// 3. the pipeline
	id := fmt.Sprintf("row%d", r.ID)
	w.chk.rows.Store(id, pipeResults)
	defer w.chk.rows.Delete(id)
	w.gate.envs.Store(id, env)
	defer w.gate.envs.Delete(id)
	if in.Cq != "" && in.Cq != "no" {
		w.coopS.rows.Store(id, in.Cq)
		defer w.coopS.rows.Delete(id)
		w.coopB.rows.Store(id, in.Cq)
		defer w.coopB.rows.Delete(id)
	}
	defer env.release() // never leave a lookup goroutine parked
	env.mu.Lock()
	env.gated = in.Slow
	env.mu.Unlock()
	mailFrom := ""
	if in.Spf.Mf != "" {
		mailFrom = "bounce@" + in.Spf.Mf
	}
	meta := &module.MsgMetadata{ID: id, DontTraceSender: true, SMTPOpts: smtp.MailOptions{},
		OriginalFrom: mailFrom, Quarantine: in.Cq == "meta"}
	d, err := pipe.Start(ctx, meta, meta.OriginalFrom)
	if err != nil {
		t.Fatalf("row %d: Start: %v", r.ID, err)
	}
	if err := d.AddRcpt(ctx, "rcpt@rcpt.invalid", smtp.RcptOptions{}); err != nil {
		t.Fatalf("row %d: AddRcpt: %v", r.ID, err)
	}
	var berr error
	if in.Path == "na" {
		// the per-recipient body path: the one recipient's status is the answer; like the LMTP
		// endpoint the driver commits whatever the status was
		col := &naCollector{st: map[string][]error{}}
		d.(module.PartialDelivery).BodyNonAtomic(ctx, col, hdrOf(), body)
		col.mu.Lock()
		sts := col.st["rcpt@rcpt.invalid"]
		nOther := len(col.st)
		col.mu.Unlock()
		if len(sts) > 1 || (len(sts) == 1 && nOther != 1) || (len(sts) == 0 && nOther != 0) {
			o.Action = fmt.Sprintf("incoherent-statuses-%d-%d", len(sts), nOther)
			_ = d.Abort(ctx)
			w.tgt.take(id)
			return o
		}
		if len(sts) == 1 {
			berr = sts[0]
		}
		if berr != nil {
			if err := d.Commit(ctx); err != nil {
				t.Fatalf("row %d: Commit after refused BodyNonAtomic: %v", r.ID, err)
			}
		}
	} else {
		berr = d.Body(ctx, hdrOf(), body)
		if berr != nil {
			_ = d.Abort(ctx)
		}
	}
	if berr != nil {
		o.PipeErr = berr.Error()
		var se *exterrors.SMTPError
		if errors.As(berr, &se) {
			o.SMTPCode = se.Code
		}
		switch {
		case o.SMTPCode >= 500 && o.SMTPCode < 600 && !exterrors.IsTemporary(berr):
			o.Action = "permreject"
		case o.SMTPCode >= 400 && o.SMTPCode < 500 && exterrors.IsTemporary(berr):
			o.Action = "tempreject"
		default:
			o.Action = fmt.Sprintf("incoherent-error-%d-temp-%v", o.SMTPCode, exterrors.IsTemporary(berr))
		}
	} else {
		if err := d.Commit(ctx); err != nil {
			t.Fatalf("row %d: Commit: %v", r.ID, err)
		}
	}
	s := w.tgt.take(id)
	if berr == nil {
		if s == nil || !s.body || !s.committed {
			o.Action = "lost"
		} else {
			o.Delivered = true
			o.Quarantine = s.quarantine || meta.Quarantine
			o.AuthRes = s.authResHdr
			if o.Quarantine {
				o.Action = "quarantine"
			} else {
				o.Action = "accept"
			}
		}
	} else if s != nil && s.body {
		o.Action = "refused-but-delivered"
	}
	env.mu.Lock()
	o.Queries = append([]string{}, env.queries...)
	o.Infra = env.infra
	env.mu.Unlock()
	return o
}

// the model's organizational-domain constant against the real list (lower-case names)
func orgTable() map[string]interface{} {
	names := []string{"victim.co.uk", "mail.victim.co.uk", "news.victim.co.uk", "attacker.co.uk",
		"co.uk", "example.com", "sub.example.com", "other.org"}
	tab := map[string]interface{}{}
	for _, n := range names {
		suffix, icann := publicsuffix.PublicSuffix(n)
		org, err := publicsuffix.EffectiveTLDPlusOne(n)
		if err != nil {
			org = n // a public suffix is its own organizational domain
		}
		tab[n] = map[string]interface{}{"org": org, "psuffix": suffix == n, "icann": icann}
	}
	return tab
}

func TestReplay(t *testing.T) {
	inPath, outPath := os.Getenv("VERIF_IN"), os.Getenv("VERIF_OUT")
	if inPath == "" || outPath == "" {
		t.Skip("VERIF_IN / VERIF_OUT not set")
	}
	f, err := os.Open(inPath)
	if err != nil {
		t.Fatal(err)
	}
	defer f.Close()
	of, err := os.Create(outPath)
	if err != nil {
		t.Fatal(err)
	}
	defer of.Close()
	wr := bufio.NewWriterSize(of, 1<<20)
	defer wr.Flush()

	vtrace.New(wr, 0).Emit("OrgTable", vtrace.Ev{"table": orgTable()})
	w := newWorld(t)
	sc := bufio.NewScanner(f)
	sc.Buffer(make([]byte, 1<<20), 1<<26)
	n := 0
	for sc.Scan() {
		var r Row
		if err := json.Unmarshal(sc.Bytes(), &r); err != nil {
			t.Fatalf("bad row: %v", err)
		}
		var generic struct {
			In json.RawMessage `json:"in"`
		}
		_ = json.Unmarshal(sc.Bytes(), &generic)
		o := runRow(t, w, r)
		vtrace.New(wr, r.ID).Emit("Row", vtrace.Ev{"in": generic.In, "out": o})
		n++
	}
	t.Logf("ran %d rows", n)
}
