package loader

import (
	_ "unsafe" // go:linkname

	"github.com/foxcpp/maddy"
)

// initModules is maddy.go's unexported initModules (endpoint initialisation and the unused-block test),
// reached through go:linkname so that the rows run the repository's own function, not a copy.
//
//go:linkname initModules github.com/foxcpp/maddy.initModules
func initModules(globals map[string]interface{}, endpoints, mods []maddy.ModInfo) error
