// Package loader binds spec/CfgMapReg.tla (X08, layers "r" and "l") to the module registry
// (framework/module), modconfig.ModuleFromNode and maddy.go's ReadGlobals / RegisterModules /
// initModules.  This file: the stub modules the configuration texts of layer "r" refer to.
package loader

import (
	"context"
	"fmt"

	"github.com/foxcpp/maddy/framework/config"
	modconfig "github.com/foxcpp/maddy/framework/config/module"
	"github.com/foxcpp/maddy/framework/module"
)

// rowState collects what the factories and Init functions see while one row runs.
type rowState struct {
	objs  []*base
	order []int
	uses  []int
}

var cur *rowState

// Thing is the interface the harness' own referencing directive ("use") asks for.
type Thing interface {
	module.Module
	IsThing()
}

type base struct {
	id       int
	fac      string // name the factory is registered under
	mod      string // name the factory was given
	inst     string
	aliases  []string
	args     []string
	inits    int
	val      string
	hostname string
	debug    bool
}

func (b *base) Name() string         { return b.mod }
func (b *base) InstanceName() string { return b.inst }
func (b *base) ID() int              { return b.id }

func (b *base) Init(cfg *config.Map) error {
	b.inits++
	if cur != nil {
		cur.order = append(cur.order, b.id)
	}
	var fail bool
	cfg.String("val", false, false, "dflt", &b.val)
	cfg.String("hostname", true, false, "", &b.hostname)
	cfg.Bool("debug", true, false, &b.debug)
	cfg.Bool("fail", false, false, &fail)
	cfg.Callback("dep", func(m *config.Map, node config.Node) error {
		var t Thing
		return modconfig.ModuleFromNode("verif", node.Args, node, m.Globals, &t)
	})
	if _, err := cfg.Process(); err != nil {
		return err
	}
	if fail {
		return fmt.Errorf("init failed: fail directive given")
	}
	return nil
}

// Stub implements every interface the referencing directives of the rows ask for.
type Stub struct{ base }

func (s *Stub) IsThing() {}
func (s *Stub) Lookup(ctx context.Context, k string) (string, bool, error) {
	return s.val, true, nil
}
func (s *Stub) Start(ctx context.Context, msgMeta *module.MsgMetadata, mailFrom string) (module.Delivery, error) {
	return nil, fmt.Errorf("verif stub: not a real target")
}
func (s *Stub) CheckStateForMsg(ctx context.Context, msgMeta *module.MsgMetadata) (module.CheckState, error) {
	return nil, fmt.Errorf("verif stub: not a real check")
}

// Plain implements module.Module only.
type Plain struct{ base }

func newBase(fac, modName, instName string, aliases, inlineArgs []string) base {
	b := base{fac: fac, mod: modName, inst: instName, aliases: append([]string{}, aliases...), args: append([]string{}, inlineArgs...)}
	if cur != nil {
		b.id = len(cur.objs) + 1
	}
	return b
}

func stubFactory(fac string) module.FuncNewModule {
	return func(modName, instName string, aliases, inlineArgs []string) (module.Module, error) {
		s := &Stub{newBase(fac, modName, instName, aliases, inlineArgs)}
		if cur != nil {
			cur.objs = append(cur.objs, &s.base)
		}
		return s, nil
	}
}

func plainFactory(fac string) module.FuncNewModule {
	return func(modName, instName string, aliases, inlineArgs []string) (module.Module, error) {
		p := &Plain{newBase(fac, modName, instName, aliases, inlineArgs)}
		if cur != nil {
			cur.objs = append(cur.objs, &p.base)
		}
		return p, nil
	}
}

// Endp is the endpoint whose block holds the referencing directives.
type Endp struct {
	name  string
	addrs []string
}

func (e *Endp) Name() string         { return e.name }
func (e *Endp) InstanceName() string { return e.name }

type ider interface{ ID() int }

func (e *Endp) Init(cfg *config.Map) error {
	record := func(v interface{}) {
		if i, ok := v.(ider); ok && cur != nil {
			cur.uses = append(cur.uses, i.ID())
		} else if cur != nil {
			cur.uses = append(cur.uses, -1)
		}
	}
	cfg.Callback("use", func(m *config.Map, node config.Node) error {
		var t Thing
		if err := modconfig.ModuleFromNode("verif", node.Args, node, m.Globals, &t); err != nil {
			return err
		}
		record(t)
		return nil
	})
	cfg.Callback("table", func(m *config.Map, node config.Node) error {
		v, err := modconfig.TableDirective(m, node)
		if err != nil {
			return err
		}
		record(v)
		return nil
	})
	cfg.Callback("target", func(m *config.Map, node config.Node) error {
		v, err := modconfig.DeliveryDirective(m, node)
		if err != nil {
			return err
		}
		record(v)
		return nil
	})
	cfg.Callback("check", func(m *config.Map, node config.Node) error {
		v, err := modconfig.MessageCheck(m.Globals, node.Args, node)
		if err != nil {
			return err
		}
		record(v)
		return nil
	})
	_, err := cfg.Process()
	return err
}

func init() {
	for _, n := range []string{"verif.stub", "table.verif_stub", "target.verif_stub", "check.verif_stub", "verif_gstub"} {
		module.Register(n, stubFactory(n))
	}
	for _, n := range []string{"verif.plain", "table.verif_plain"} {
		module.Register(n, plainFactory(n))
	}
	module.RegisterEndpoint("verif_endp", func(modName string, addrs []string) (module.Module, error) {
		return &Endp{name: modName, addrs: addrs}, nil
	})
}
