// Layer "l": one child process per configuration runs maddy's own entry point
// ("maddy --config FILE run": maddycli.Run -> maddy.Run -> moduleMain) on the text TLC rendered.
// The child listens on its own sd_notify socket: READY=1 means moduleMain finished loading; the child
// then reads the configured variables of the three instances of the row (reflection on the real
// module objects, Lookup on the table), reports and exits.  Without READY the exit code and the
// message of maddy's command line are the outcome.
package loader

import (
	"bytes"
	"context"
	"encoding/json"
	"fmt"
	"net"
	"os"
	"os/exec"
	"path/filepath"
	"reflect"
	"runtime/debug"
	"sort"
	"strconv"
	"strings"
	"testing"
	"time"

	maddycli "github.com/foxcpp/maddy/internal/cli"
	"github.com/foxcpp/maddy/framework/module"
	"github.com/urfave/cli/v2"
)

type LoadIn struct {
	Tab  string `json:"tab"`
	Stat string `json:"stat"`
}

type LoadErr struct {
	Is       bool     `json:"is"`
	Line     int      `json:"line"`
	Mentions []string `json:"mentions"`
}

type LoadOut struct {
	Crashed bool              `json:"crashed"`
	Err     LoadErr           `json:"err"`
	Smtp    map[string]string `json:"smtp"`
	Dkim    map[string]string `json:"dkim"`
	Static  [][]string        `json:"static"`
	Msg     string            `json:"msg"`
	Code    int               `json:"code"`
	Infra   string            `json:"infra"`
}

type childReport struct {
	Ready   bool              `json:"ready"`
	Code    int               `json:"code"`
	Msg     string            `json:"msg"`
	Smtp    map[string]string `json:"smtp"`
	Dkim    map[string]string `json:"dkim"`
	Static  map[string]string `json:"static"`
	Inspect string            `json:"inspect"` // reflection problems (a statement about the harness)
}

func field(v reflect.Value, path ...string) (reflect.Value, error) {
	for _, p := range path {
		for v.Kind() == reflect.Ptr || v.Kind() == reflect.Interface {
			v = v.Elem()
		}
		if v.Kind() != reflect.Struct {
			return v, fmt.Errorf("not a struct at %s", p)
		}
		v = v.FieldByName(p)
		if !v.IsValid() {
			return v, fmt.Errorf("no field %s", p)
		}
	}
	return v, nil
}

func ms(v reflect.Value) string {
	return strconv.FormatInt(v.Int()/int64(time.Millisecond), 10)
}

func action(v reflect.Value) string {
	switch {
	case v.FieldByName("Reject").Bool():
		return "reject"
	case v.FieldByName("Quarantine").Bool():
		return "quarantine"
	}
	return "ignore"
}

func inspect(keys []string, tblName string, rep *childReport) {
	var problems []string
	get := func(inst module.Module, path ...string) reflect.Value {
		v, err := field(reflect.ValueOf(inst), path...)
		if err != nil {
			problems = append(problems, fmt.Sprintf("%T: %v", inst, err))
			return reflect.Value{}
		}
		return v
	}
	if inst, err := module.GetInstance("fwd"); err == nil {
		rep.Smtp = map[string]string{}
		if v := get(inst, "hostname"); v.IsValid() {
			rep.Smtp["hostname"] = v.String()
		}
		if v := get(inst, "starttls"); v.IsValid() {
			rep.Smtp["starttls"] = strconv.FormatBool(v.Bool())
		}
		if v := get(inst, "log", "Debug"); v.IsValid() {
			rep.Smtp["debug"] = strconv.FormatBool(v.Bool())
		}
		for f, n := range map[string]string{"connect_timeout": "connectTimeout", "command_timeout": "commandTimeout", "submission_timeout": "submissionTimeout"} {
			if v := get(inst, n); v.IsValid() {
				rep.Smtp[f] = ms(v)
			}
		}
	} else {
		problems = append(problems, "fwd: "+err.Error())
	}
	if grp, err := module.GetInstance("inbound"); err == nil {
		rep.Dkim = map[string]string{}
		// the checks group holds its checks in L; the row has one: check.dkim
		var inst module.Module
		if l := get(grp, "L"); l.IsValid() && l.Len() == 1 {
			inst, _ = l.Index(0).Interface().(module.Module)
		}
		if inst == nil {
			problems = append(problems, "checks group does not hold one module")
			inst = grp
		}
		if v := get(inst, "failOpen"); v.IsValid() {
			rep.Dkim["fail_open"] = strconv.FormatBool(v.Bool())
		}
		if v := get(inst, "log", "Debug"); v.IsValid() {
			rep.Dkim["debug"] = strconv.FormatBool(v.Bool())
		}
		if v := get(inst, "noSigAction"); v.IsValid() {
			rep.Dkim["no_sig_action"] = action(v)
		}
		if v := get(inst, "brokenSigAction"); v.IsValid() {
			rep.Dkim["broken_sig_action"] = action(v)
		}
		if v := get(inst, "requiredFields"); v.IsValid() {
			var ks []string
			for _, k := range v.MapKeys() {
				ks = append(ks, k.String())
			}
			sort.Strings(ks)
			rep.Dkim["required_fields"] = strings.Join(ks, ",")
		}
	} else {
		problems = append(problems, "inbound: "+err.Error())
	}
	if len(keys) == 0 {
		// the table is defined inline: nothing to look up
	} else if inst, err := module.GetInstance(tblName); err == nil {
		rep.Static = map[string]string{}
		tbl, ok := inst.(module.Table)
		if !ok {
			problems = append(problems, "tbl is not a table")
		} else {
			for _, k := range keys {
				v, found, err := tbl.Lookup(context.Background(), k)
				switch {
				case err != nil:
					rep.Static[k] = "<error> " + err.Error()
				case !found:
					rep.Static[k] = "<none>"
				default:
					rep.Static[k] = v
				}
			}
		}
	} else {
		problems = append(problems, tblName+": "+err.Error())
	}
	rep.Inspect = strings.Join(problems, "; ")
}

// TestChild is the child process: it is maddy, started on X08_CHILD_CFG.
func TestChild(t *testing.T) {
	cfg, outPath := os.Getenv("X08_CHILD_CFG"), os.Getenv("X08_CHILD_OUT")
	if cfg == "" || outPath == "" {
		t.Skip("not a child")
	}
	debug.SetMaxStack(64 << 20)
	var keys []string
	json.Unmarshal([]byte(os.Getenv("X08_CHILD_KEYS")), &keys)
	rep := &childReport{}
	sock := filepath.Join(filepath.Dir(outPath), "n.sock")
	os.Remove(sock)
	conn, err := net.ListenUnixgram("unixgram", &net.UnixAddr{Name: sock, Net: "unixgram"})
	if err != nil {
		t.Fatalf("notify socket: %v", err)
	}
	defer conn.Close()
	os.Setenv("NOTIFY_SOCKET", sock)
	// READY=1 is sent by moduleMain after every block was initialised: the outcome of loading is known,
	// the child reports and leaves (maddy's shutdown path is not part of this property)
	write := func() {
		b, _ := json.Marshal(rep)
		tmp := outPath + ".tmp"
		if err := os.WriteFile(tmp, b, 0o644); err == nil {
			os.Rename(tmp, outPath)
		}
	}
	go func() {
		buf := make([]byte, 4096)
		for {
			n, _, err := conn.ReadFromUnix(buf)
			if err != nil {
				return
			}
			if strings.HasPrefix(string(buf[:n]), "READY=1") {
				rep.Ready = true
				inspect(keys, os.Getenv("X08_CHILD_TBL"), rep)
				write()
				os.Exit(0)
			}
		}
	}()
	var errOut bytes.Buffer
	cli.ErrWriter = &errOut
	os.Args = []string{"maddy", "--config", cfg, "run"}
	code := maddycli.RunWithoutExit()
	if rep.Ready {
		select {} // the reporting goroutine is about to leave
	}
	rep.Code = code
	rep.Msg = strings.TrimSpace(errOut.String())
	write()
}

func runLoad(it Item, keys []string, dir string) (out LoadOut) {
	out = LoadOut{Err: LoadErr{Mentions: []string{}}, Smtp: map[string]string{}, Dkim: map[string]string{}, Static: [][]string{}}
	for _, f := range []string{"starttls", "hostname", "connect_timeout", "command_timeout", "submission_timeout", "debug"} {
		out.Smtp[f] = ""
	}
	for _, f := range []string{"required_fields", "fail_open", "no_sig_action", "broken_sig_action", "debug"} {
		out.Dkim[f] = ""
	}
	if err := os.MkdirAll(dir, 0o755); err != nil {
		out.Infra = err.Error()
		return
	}
	text := strings.ReplaceAll(it.Text, "%T", dir)
	cfg := filepath.Join(dir, fileName)
	if err := os.WriteFile(cfg, []byte(text), 0o644); err != nil {
		out.Infra = err.Error()
		return
	}
	repPath := filepath.Join(dir, "report.json")
	kb, _ := json.Marshal(keys)
	ctx, cancel := context.WithTimeout(context.Background(), 120*time.Second)
	defer cancel()
	cmd := exec.CommandContext(ctx, os.Args[0], "-test.run", "^TestChild$", "-test.count", "1")
	var in LoadIn
	json.Unmarshal(it.In, &in)
	tbl := "tbl"
	if in.Stat == "unnamed" {
		tbl = "table.static"
	}
	cmd.Env = append(os.Environ(), "X08_CHILD_CFG="+cfg, "X08_CHILD_OUT="+repPath, "X08_CHILD_KEYS="+string(kb), "X08_CHILD_TBL="+tbl)
	var log bytes.Buffer
	cmd.Stdout, cmd.Stderr = &log, &log
	runErr := cmd.Run()
	if ctx.Err() != nil {
		out.Infra = "child timed out:\n" + tail(log.String())
		return
	}
	b, err := os.ReadFile(repPath)
	if err != nil {
		// no report: the process died inside maddy (panic, os.Exit, fatal error)
		if strings.Contains(log.String(), "panic:") || strings.Contains(log.String(), "fatal error:") {
			out.Crashed, out.Msg = true, tail(log.String())
			return
		}
		out.Infra = fmt.Sprintf("child left no report (%v):\n%s", runErr, tail(log.String()))
		return
	}
	var rep childReport
	if err := json.Unmarshal(b, &rep); err != nil {
		out.Infra = err.Error()
		return
	}
	out.Code, out.Msg = rep.Code, rep.Msg
	if rep.Ready {
		if rep.Inspect != "" {
			out.Infra = "cannot read the configured instances: " + rep.Inspect
			return
		}
		for k, v := range rep.Smtp {
			out.Smtp[k] = v
		}
		for k, v := range rep.Dkim {
			out.Dkim[k] = v
		}
		ks := make([]string, 0, len(rep.Static))
		for k := range rep.Static {
			ks = append(ks, k)
		}
		sort.Strings(ks)
		for _, k := range ks {
			out.Static = append(out.Static, []string{k, rep.Static[k]})
		}
		return
	}
	if rep.Code == 0 {
		out.Infra = "maddy returned 0 without READY:\n" + tail(log.String())
		return
	}
	if strings.Contains(rep.Msg, "listen ") || strings.Contains(rep.Msg, "bind:") || strings.Contains(rep.Msg, "too many open files") {
		// the environment refused a socket: says nothing about the configuration
		out.Infra = "maddy could not listen: " + rep.Msg
		return
	}
	out.Err.Is = true
	msg := strings.ReplaceAll(rep.Msg, dir+"/", "")
	if m := lineRe.FindStringSubmatch(msg); m != nil {
		out.Err.Line, _ = strconv.Atoi(m[1])
	}
	for _, n := range []string{"bogus", "fail_open", "command_timeout", "connect_timeout", "entry", "fwd", "inbound", "tbl", "nosuch", "spare",
		"target", "targets", "no_such_global_directive", "hostname"} {
		if mentionsWord(msg, n) {
			out.Err.Mentions = append(out.Err.Mentions, n)
		}
	}
	return
}

func tail(s string) string {
	if len(s) > 3000 {
		return s[len(s)-3000:]
	}
	return s
}
