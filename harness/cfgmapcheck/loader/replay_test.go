// Input  (VERIF_IN):  {"id":N,"in":{...row of CfgMapReg.tla...},"text":"<configuration text rendered by TLC>"}
// Output (VERIF_OUT): {"t":id,"seq":1,"e":"Begin"} (unbuffered, before the row runs) and
//                     {"t":id,"seq":2,"e":"Row","in":{...},"out":{panic,err{is,stage,line,mentions},objs,uses,order,msg}}
//
// Layer "r": "%U" in the text is replaced by a per-row prefix (maddy's instance registry is a
// process-wide table that is never emptied); the text is parsed by the real cfgparser and loaded with
// maddy.ReadGlobals, maddy.RegisterModules and maddy's initModules (go:linkname) - the steps of
// moduleMain between reading the file and waiting for signals.  The stub modules of stubs.go record
// which objects the factories made and which object every referencing directive received.
package loader

import (
	"bufio"
	"encoding/json"
	"fmt"
	"os"
	"path/filepath"
	"regexp"
	"runtime/debug"
	"strconv"
	"strings"
	"testing"

	"github.com/foxcpp/maddy"
	parser "github.com/foxcpp/maddy/framework/cfgparser"
	"github.com/foxcpp/maddy/framework/log"
)

const fileName = "x08.conf"

type RegBlock struct {
	Mod   string   `json:"mod"`
	Names []string `json:"names"`
}
type RegUse struct {
	Target string `json:"target"`
}
type RegIn struct {
	Tab    string     `json:"tab"`
	Blocks []RegBlock `json:"blocks"`
	Uses   []RegUse   `json:"uses"`
}

type Item struct {
	ID   int             `json:"id"`
	In   json.RawMessage `json:"in"`
	Text string          `json:"text"`
	Keys []string        `json:"keys"`
}

type ErrOut struct {
	Is       bool     `json:"is"`
	Stage    string   `json:"stage"`
	Line     int      `json:"line"`
	Mentions []string `json:"mentions"`
}

type ObjOut struct {
	Fac      string   `json:"fac"`
	Mod      string   `json:"mod"`
	Inst     string   `json:"inst"`
	Aliases  []string `json:"aliases"`
	Args     []string `json:"args"`
	Inits    int      `json:"inits"`
	Val      string   `json:"val"`
	Hostname string   `json:"hostname"`
	Debug    bool     `json:"debug"`
}

type Out struct {
	Panic bool     `json:"panic"`
	Err   ErrOut   `json:"err"`
	Objs  []ObjOut `json:"objs"`
	Uses  []int    `json:"uses"`
	Order []int    `json:"order"`
	Msg   string   `json:"msg"`
	Infra string   `json:"infra"`
}

var lineRe = regexp.MustCompile(regexp.QuoteMeta(fileName) + `:(\d+)`)

func isWordByte(b byte) bool {
	return b == '_' || (b >= '0' && b <= '9') || (b >= 'a' && b <= 'z') || (b >= 'A' && b <= 'Z')
}

func mentionsWord(msg, name string) bool {
	if name == "" {
		return false
	}
	for i := 0; i+len(name) <= len(msg); i++ {
		j := strings.Index(msg[i:], name)
		if j < 0 {
			return false
		}
		i += j
		before := i == 0 || !isWordByte(msg[i-1])
		after := i+len(name) == len(msg) || !isWordByte(msg[i+len(name)])
		if before && after {
			return true
		}
	}
	return false
}

// classify locates the message (first file:line in it) and lists the names of the row it contains:
// block names (searched with the row prefix, reported without), module spellings, directive names.
func classify(stage string, err error, prefix string, in RegIn) ErrOut {
	e := ErrOut{Is: true, Stage: stage, Mentions: []string{}}
	msg := err.Error()
	if m := lineRe.FindStringSubmatch(msg); m != nil {
		e.Line, _ = strconv.Atoi(m[1])
	}
	seen := map[string]bool{}
	add := func(sym, spelled string) {
		if !seen[sym] && mentionsWord(msg, spelled) {
			e.Mentions = append(e.Mentions, sym)
		}
		seen[sym] = true
	}
	for _, n := range []string{"A", "Aa", "B", "C", "Cc", "P", "Zz", "E"} {
		add(n, prefix+n)
	}
	for _, b := range in.Blocks {
		add(b.Mod, b.Mod)
	}
	for _, u := range in.Uses {
		if u.Target != "" && !seen[u.Target] {
			add(u.Target, u.Target)
		}
	}
	for _, d := range []string{"bogus", "fail", "val", "hostname", "dep"} {
		add(d, d)
	}
	return e
}

func runReg(it Item) (out Out) {
	out = Out{Err: ErrOut{Stage: "none", Mentions: []string{}}, Objs: []ObjOut{}, Uses: []int{}, Order: []int{}}
	var in RegIn
	if err := json.Unmarshal(it.In, &in); err != nil {
		out.Infra = err.Error()
		return
	}
	prefix := fmt.Sprintf("r%dx", it.ID)
	text := strings.ReplaceAll(it.Text, "%U", prefix)
	nodes, err := parser.Read(strings.NewReader(text), fileName)
	if err != nil {
		out.Infra = "the rendered text does not parse: " + err.Error()
		return
	}
	// a maddy process starts with debug logging off; the global "debug" directive switches the
	// process-wide default logger, whose state is also the directive's default
	log.DefaultLogger.Debug = false
	st := &rowState{}
	cur = st
	defer func() { cur = nil }()
	defer func() {
		if r := recover(); r != nil {
			out.Panic, out.Msg = true, fmt.Sprintf("panic: %v", r)
		}
	}()
	fail := func(stage string, err error) Out {
		out.Err, out.Msg = classify(stage, err, prefix, in), err.Error()
		return out
	}
	globals, modBlocks, err := maddy.ReadGlobals(nodes)
	if err != nil {
		return fail("globals", err)
	}
	endpoints, mods, err := maddy.RegisterModules(globals, modBlocks)
	if err != nil {
		return fail("register", err)
	}
	if err := initModules(globals, endpoints, mods); err != nil {
		stage := "init"
		if strings.HasPrefix(err.Error(), "Unused configuration block") {
			stage = "unused"
		}
		return fail(stage, err)
	}
	strip := func(s string) string { return strings.TrimPrefix(s, prefix) }
	for _, o := range st.objs {
		al := []string{}
		for _, a := range o.aliases {
			al = append(al, strip(a))
		}
		out.Objs = append(out.Objs, ObjOut{Fac: o.fac, Mod: o.mod, Inst: strip(o.inst), Aliases: al, Args: append([]string{}, o.args...),
			Inits: o.inits, Val: o.val, Hostname: o.hostname, Debug: o.debug})
	}
	out.Uses = append(out.Uses, st.uses...)
	out.Order = append(out.Order, st.order...)
	return out
}

func TestReplay(t *testing.T) {
	inPath, outPath := os.Getenv("VERIF_IN"), os.Getenv("VERIF_OUT")
	if inPath == "" || outPath == "" {
		t.Skip("VERIF_IN / VERIF_OUT not set")
	}
	fin, err := os.Open(inPath)
	if err != nil {
		t.Fatal(err)
	}
	defer fin.Close()
	fout, err := os.Create(outPath)
	if err != nil {
		t.Fatal(err)
	}
	defer fout.Close()
	// unbuffered: a crash of the code under test (a stack overflow cannot be recovered) leaves the Begin
	// line of its row behind; the stack limit is lowered so that runaway recursion ends quickly
	w := fout
	debug.SetMaxStack(64 << 20)
	sc := bufio.NewScanner(fin)
	sc.Buffer(make([]byte, 1<<20), 1<<26)
	for sc.Scan() {
		line := strings.TrimSpace(sc.Text())
		if line == "" {
			continue
		}
		var it Item
		if err := json.Unmarshal([]byte(line), &it); err != nil {
			t.Fatalf("bad input line: %v", err)
		}
		fmt.Fprintf(w, "{\"t\":%d,\"seq\":1,\"e\":\"Begin\"}\n", it.ID)
		var tab struct {
			Tab string `json:"tab"`
		}
		json.Unmarshal(it.In, &tab)
		var out interface{}
		if tab.Tab == "smtp" || tab.Tab == "dkim" || tab.Tab == "static" || tab.Tab == "defect" {
			o := runLoad(it, it.Keys, filepath.Join(os.Getenv("VERIF_TMP"), fmt.Sprintf("l%d", it.ID)))
			if o.Infra != "" {
				t.Fatalf("row %d: %s\n%s", it.ID, o.Infra, it.Text)
			}
			out = o
		} else {
			o := runReg(it)
			if o.Infra != "" {
				t.Fatalf("row %d: %s\n%s", it.ID, o.Infra, it.Text)
			}
			out = o
		}
		b, err := json.Marshal(map[string]interface{}{"t": it.ID, "seq": 2, "e": "Row", "in": it.In, "out": out})
		if err != nil {
			t.Fatal(err)
		}
		w.Write(append(b, '\n'))
	}
	if err := sc.Err(); err != nil {
		t.Fatal(err)
	}
}
