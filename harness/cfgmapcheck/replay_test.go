// Package cfgmapcheck binds spec/CfgMap.tla (X08, layer "m") to framework/config.Map.
//
// Input  (VERIF_IN):  {"id":N,"in":{...row of CfgMap.tla...},"text":"<configuration text rendered by TLC>"}
// Output (VERIF_OUT): {"t":id,"seq":1,"e":"Begin"} (written before the row runs) and
//
//	{"t":id,"seq":2,"e":"Row","in":{...},"out":{panic,err{is,level,line,cls,mentions},gvals,vals,gunknown,unknown,calls,msg}}
//
// The text is parsed by the real cfgparser; the global level is processed the way maddy.ReadGlobals
// does it (config.NewMap(nil, Node{Children: top-level nodes}), AllowUnknown) with the registrations of
// the row, its Values are handed to the module block's Map (config.NewMap(globals, block)) as
// maddy.RegisterModules does, and the module's registrations are processed.  Nothing here decides
// anything: values are only spelled canonically (CfgMap.tla header) and error messages are located
// (file:line prefix) and searched for the directive names of the row.
package cfgmapcheck

import (
	"bufio"
	"encoding/json"
	"fmt"
	"os"
	"regexp"
	"strconv"
	"strings"
	"testing"
	"time"

	parser "github.com/foxcpp/maddy/framework/cfgparser"
	"github.com/foxcpp/maddy/framework/config"
)

type Reg struct {
	Name     string   `json:"name"`
	Kind     string   `json:"kind"`
	Inherit  bool     `json:"inherit"`
	Required bool     `json:"required"`
	Def      []string `json:"def"`
}

type RowIn struct {
	Tab   string `json:"tab"`
	AU    bool   `json:"au"`
	GRegs []Reg  `json:"gregs"`
	Regs  []Reg  `json:"regs"`
}

type Item struct {
	ID   int             `json:"id"`
	In   json.RawMessage `json:"in"`
	Text string          `json:"text"`
}

type ErrOut struct {
	Is       bool     `json:"is"`
	Level    string   `json:"level"`
	Line     int      `json:"line"`
	Cls      string   `json:"cls"`
	Mentions []string `json:"mentions"`
}

type Call struct {
	Line int      `json:"line"`
	Args []string `json:"args"`
}

type Out struct {
	Panic    bool       `json:"panic"`
	Err      ErrOut     `json:"err"`
	GVals    [][]string `json:"gvals"`
	Vals     [][]string `json:"vals"`
	GUnknown []int      `json:"gunknown"`
	Unknown  []int      `json:"unknown"`
	Calls    []Call     `json:"calls"`
	Msg      string     `json:"msg"`
	ParseErr string     `json:"parse_err"`
}

const fileName = "x08.conf"

var enumAllowed = []string{"alpha", "beta", "gamma"}
var enumMapped = map[string]int{"alpha": 1, "beta": 2, "gamma": 3}

// slot holds the variable a registration stores into and spells its value.
type slot struct {
	render func() []string
}

func atoi64(s string) int64 {
	v, err := strconv.ParseInt(s, 10, 64)
	if err != nil {
		panic("harness: bad default " + s)
	}
	return v
}

func atou64(s string) uint64 {
	v, err := strconv.ParseUint(s, 10, 64)
	if err != nil {
		panic("harness: bad default " + s)
	}
	return v
}

func nonNil(s []string) []string {
	if s == nil {
		return []string{}
	}
	return s
}

// register adds the registration r to m exactly as a module would and returns the slot of its variable.
func register(m *config.Map, r Reg, calls *[]Call) *slot {
	d0 := ""
	if len(r.Def) > 0 {
		d0 = r.Def[0]
	}
	switch r.Kind {
	case "callback":
		m.Callback(r.Name, func(_ *config.Map, node config.Node) error {
			if len(node.Args) > 0 && node.Args[0] == "fail" {
				return config.NodeErr(node, "callback refused the directive")
			}
			*calls = append(*calls, Call{Line: node.Line, Args: nonNil(append([]string(nil), node.Args...))})
			return nil
		})
		return &slot{render: func() []string { return []string{} }}
	case "bool":
		def := d0 == "true"
		v := !def
		m.Bool(r.Name, r.Inherit, def, &v)
		return &slot{render: func() []string { return []string{strconv.FormatBool(v)} }}
	case "string":
		v := "<unset>"
		m.String(r.Name, r.Inherit, r.Required, d0, &v)
		return &slot{render: func() []string { return []string{v} }}
	case "custom":
		v := "<unset>"
		var defFn func() (interface{}, error)
		if !r.Required {
			defFn = func() (interface{}, error) { return d0, nil }
		}
		m.Custom(r.Name, r.Inherit, r.Required, defFn, func(_ *config.Map, node config.Node) (interface{}, error) {
			if len(node.Args) != 1 {
				return nil, config.NodeErr(node, "expected 1 argument")
			}
			if len(node.Children) != 0 {
				return nil, config.NodeErr(node, "can't declare block here")
			}
			if node.Args[0] == "fail" {
				return nil, config.NodeErr(node, "custom mapper refused the value")
			}
			return node.Args[0], nil
		}, &v)
		return &slot{render: func() []string { return []string{v} }}
	case "int":
		v := -99
		m.Int(r.Name, r.Inherit, r.Required, int(atoi64(d0)), &v)
		return &slot{render: func() []string { return []string{strconv.Itoa(v)} }}
	case "int64":
		v := int64(-99)
		m.Int64(r.Name, r.Inherit, r.Required, atoi64(d0), &v)
		return &slot{render: func() []string { return []string{strconv.FormatInt(v, 10)} }}
	case "int32":
		v := int32(-99)
		m.Int32(r.Name, r.Inherit, r.Required, int32(atoi64(d0)), &v)
		return &slot{render: func() []string { return []string{strconv.FormatInt(int64(v), 10)} }}
	case "uint":
		v := uint(99999)
		m.UInt(r.Name, r.Inherit, r.Required, uint(atou64(d0)), &v)
		return &slot{render: func() []string { return []string{strconv.FormatUint(uint64(v), 10)} }}
	case "uint32":
		v := uint32(99999)
		m.UInt32(r.Name, r.Inherit, r.Required, uint32(atou64(d0)), &v)
		return &slot{render: func() []string { return []string{strconv.FormatUint(uint64(v), 10)} }}
	case "uint64":
		v := uint64(99999)
		m.UInt64(r.Name, r.Inherit, r.Required, atou64(d0), &v)
		return &slot{render: func() []string { return []string{strconv.FormatUint(v, 10)} }}
	case "float":
		v := -99.5
		def, err := strconv.ParseFloat(d0, 64)
		if err != nil {
			panic("harness: bad float default")
		}
		m.Float(r.Name, r.Inherit, r.Required, def, &v)
		return &slot{render: func() []string { return []string{strconv.FormatFloat(v, 'g', -1, 64)} }}
	case "duration":
		v := time.Duration(-1)
		m.Duration(r.Name, r.Inherit, r.Required, time.Duration(atoi64(d0))*time.Millisecond, &v)
		return &slot{render: func() []string {
			if v%time.Millisecond != 0 {
				return []string{fmt.Sprintf("%d+%dns", v/time.Millisecond, v%time.Millisecond)}
			}
			return []string{strconv.FormatInt(int64(v/time.Millisecond), 10)}
		}}
	case "datasize":
		v := int64(-99)
		m.DataSize(r.Name, r.Inherit, r.Required, atoi64(d0), &v)
		return &slot{render: func() []string { return []string{strconv.FormatInt(v, 10)} }}
	case "enum":
		v := "<unset>"
		m.Enum(r.Name, r.Inherit, r.Required, enumAllowed, d0, &v)
		return &slot{render: func() []string { return []string{v} }}
	case "enummapped":
		v := -99
		config.EnumMapped(m, r.Name, r.Inherit, r.Required, enumMapped, int(atoi64(d0)), &v)
		return &slot{render: func() []string { return []string{strconv.Itoa(v)} }}
	case "stringlist":
		v := []string{"<unset>"}
		var def []string
		if len(r.Def) > 0 {
			def = append(def, r.Def...)
		}
		m.StringList(r.Name, r.Inherit, r.Required, def, &v)
		return &slot{render: func() []string { return nonNil(append([]string(nil), v...)) }}
	case "enumlist":
		v := []string{"<unset>"}
		var def []string
		if len(r.Def) > 0 {
			def = append(def, r.Def...)
		}
		m.EnumList(r.Name, r.Inherit, r.Required, enumAllowed, def, &v)
		return &slot{render: func() []string { return nonNil(append([]string(nil), v...)) }}
	case "enumlistmapped":
		v := []int{-99}
		var def []int
		for _, d := range r.Def {
			def = append(def, int(atoi64(d)))
		}
		config.EnumListMapped(m, r.Name, r.Inherit, r.Required, enumMapped, def, &v)
		return &slot{render: func() []string {
			out := []string{}
			for _, x := range v {
				out = append(out, strconv.Itoa(x))
			}
			return out
		}}
	}
	panic("harness: unknown kind " + r.Kind)
}

var locRe = regexp.MustCompile(`^` + regexp.QuoteMeta(fileName) + `:(\d+): (.*)$`)

func isWordByte(b byte) bool {
	return b == '_' || (b >= '0' && b <= '9') || (b >= 'a' && b <= 'z') || (b >= 'A' && b <= 'Z')
}

func mentionsWord(msg, name string) bool {
	for i := 0; i+len(name) <= len(msg); i++ {
		j := strings.Index(msg[i:], name)
		if j < 0 {
			return false
		}
		i += j
		before := i == 0 || !isWordByte(msg[i-1])
		after := i+len(name) == len(msg) || !isWordByte(msg[i+len(name)])
		if before && after {
			return true
		}
	}
	return false
}

func classify(level string, err error, names []string) ErrOut {
	e := ErrOut{Is: true, Level: level, Cls: "other", Mentions: []string{}}
	msg := err.Error()
	if m := locRe.FindStringSubmatch(strings.ReplaceAll(msg, "\n", " ")); m != nil {
		e.Line, _ = strconv.Atoi(m[1])
		msg = m[2]
	}
	switch {
	case strings.HasPrefix(msg, "unexpected directive: "):
		e.Cls = "unknown"
	case strings.HasPrefix(msg, "duplicate directive: "):
		e.Cls = "duplicate"
	case strings.HasPrefix(msg, "missing required directive: "):
		e.Cls = "missing"
	}
	// for the recognised wordings only the part after the colon names a directive
	hay := msg
	if e.Cls != "other" {
		hay = msg[strings.Index(msg, ": ")+2:]
	}
	seen := map[string]bool{}
	for _, n := range names {
		if !seen[n] && mentionsWord(hay, n) {
			e.Mentions = append(e.Mentions, n)
		}
		seen[n] = true
	}
	return e
}

// process runs Process on m; a panic inside the code under test is reported, not propagated.
func process(m *config.Map) (unknown []config.Node, err error, panicked interface{}) {
	defer func() {
		if r := recover(); r != nil {
			panicked = r
		}
	}()
	unknown, err = m.Process()
	return
}

func collectNames(nodes []config.Node, names *[]string) {
	for _, n := range nodes {
		*names = append(*names, n.Name)
		collectNames(n.Children, names)
	}
}

func runRow(it Item) Out {
	out := Out{Err: ErrOut{Level: "none", Cls: "none", Mentions: []string{}}, GVals: [][]string{}, Vals: [][]string{},
		GUnknown: []int{}, Unknown: []int{}, Calls: []Call{}}
	var in RowIn
	if err := json.Unmarshal(it.In, &in); err != nil {
		panic(err)
	}
	nodes, err := parser.Read(strings.NewReader(it.Text), fileName)
	if err != nil {
		out.ParseErr = err.Error()
		return out
	}
	var names []string
	for _, r := range in.GRegs {
		names = append(names, r.Name)
	}
	for _, r := range in.Regs {
		names = append(names, r.Name)
	}
	collectNames(nodes, &names)

	// global level (maddy.ReadGlobals)
	gm := config.NewMap(nil, config.Node{Children: nodes})
	var gslots []*slot
	for _, r := range in.GRegs {
		gslots = append(gslots, register(gm, r, &out.Calls))
	}
	gm.AllowUnknown()
	unknown, err, p := process(gm)
	if p != nil {
		out.Panic, out.Msg = true, fmt.Sprintf("global level: panic: %v", p)
		return out
	}
	if err != nil {
		out.Err, out.Msg = classify("global", err, names), err.Error()
		return out
	}
	for _, s := range gslots {
		out.GVals = append(out.GVals, s.render())
	}
	var block *config.Node
	for i := range unknown {
		out.GUnknown = append(out.GUnknown, unknown[i].Line)
		if unknown[i].Name == "verif_mod" && block == nil {
			block = &unknown[i]
		}
	}
	if block == nil {
		out.ParseErr = "module block not among the unknown top-level nodes"
		return out
	}

	// module level (maddy.RegisterModules: config.NewMap(globals, block))
	mm := config.NewMap(gm.Values, *block)
	var slots []*slot
	for _, r := range in.Regs {
		slots = append(slots, register(mm, r, &out.Calls))
	}
	if in.AU {
		mm.AllowUnknown()
	}
	unknown, err, p = process(mm)
	if p != nil {
		out.Panic, out.Msg = true, fmt.Sprintf("module level: panic: %v", p)
		return out
	}
	if err != nil {
		out.Err, out.Msg = classify("module", err, names), err.Error()
		return out
	}
	for _, s := range slots {
		out.Vals = append(out.Vals, s.render())
	}
	for _, n := range unknown {
		out.Unknown = append(out.Unknown, n.Line)
	}
	return out
}

func TestReplay(t *testing.T) {
	inPath, outPath := os.Getenv("VERIF_IN"), os.Getenv("VERIF_OUT")
	if inPath == "" || outPath == "" {
		t.Skip("VERIF_IN / VERIF_OUT not set")
	}
	fin, err := os.Open(inPath)
	if err != nil {
		t.Fatal(err)
	}
	defer fin.Close()
	fout, err := os.Create(outPath)
	if err != nil {
		t.Fatal(err)
	}
	defer fout.Close()
	w := bufio.NewWriterSize(fout, 1<<20)
	defer w.Flush()
	emit := func(v interface{}) {
		b, err := json.Marshal(v)
		if err != nil {
			t.Fatal(err)
		}
		w.Write(b)
		w.WriteByte('\n')
	}
	sc := bufio.NewScanner(fin)
	sc.Buffer(make([]byte, 1<<20), 1<<26)
	for sc.Scan() {
		line := strings.TrimSpace(sc.Text())
		if line == "" {
			continue
		}
		var it Item
		if err := json.Unmarshal([]byte(line), &it); err != nil {
			t.Fatalf("bad input line: %v", err)
		}
		out := runRow(it)
		if out.ParseErr != "" {
			t.Fatalf("row %d: the rendered text could not be used: %s\n%s", it.ID, out.ParseErr, it.Text)
		}
		emit(map[string]interface{}{"t": it.ID, "seq": 2, "e": "Row", "in": it.In, "out": out, "text": it.Text})
	}
	if err := sc.Err(); err != nil {
		t.Fatal(err)
	}
}
