package mxselectcheck

// Input  (VERIF_IN):  one JSON object per line, see Behaviour in world.go
// Output (VERIF_OUT): NDJSON events, trace number "t" = id:
//
//	Cfg{facts}                         first event
//	Start{m}                           Target.Start for delivery m
//	Rcpt{lp, dom}                      before AddRcpt
//	Q{dom, form, qt}                   DNS server: a question arrived (before it is answered)
//	Dial{host, out, c}                 dialer: the target dials a host; out = how that host behaves
//	Srv{st:mail|rcpt|data, host, c, r} MX host: command arrived (before it is answered)
//	Ret{lp, dom, cls, code}            AddRcpt returned
//	Body{} / BodyRet{st:[{lp,dom,cls}]} BodyNonAtomic called / returned (statuses as collected)
//	Fin{op}                            Commit / Abort returned
//	End{open}                          Target.Close returned; open = connections not closed by the target

import (
	"bufio"
	"bytes"
	"context"
	"encoding/json"
	"errors"
	"fmt"
	"os"
	"sort"
	"strings"
	"sync"
	"testing"
	"time"

	"github.com/emersion/go-message/textproto"
	"github.com/emersion/go-smtp"
	"github.com/foxcpp/go-mockdns"
	"github.com/foxcpp/maddy/framework/buffer"
	"github.com/foxcpp/maddy/framework/exterrors"
	"github.com/foxcpp/maddy/framework/log"
	"github.com/foxcpp/maddy/framework/module"
	"github.com/foxcpp/maddy/internal/smtpconn/pool"
	"github.com/foxcpp/maddy/internal/target/remote"
	"github.com/foxcpp/maddy/verifharness/vtrace"
)

const harnessBudget = 90 * time.Second // per behaviour; exceeding it is an infrastructure failure

func classOf(err error) (cls string, code int) {
	if err == nil {
		return "ok", 0
	}
	cls = "unspec"
	var t exterrors.TemporaryErr
	if errors.As(err, &t) {
		if t.Temporary() {
			cls = "temp"
		} else {
			cls = "perm"
		}
	}
	var se *exterrors.SMTPError
	if errors.As(err, &se) {
		code = se.Code
	}
	return cls, code
}

func errText(err error) string {
	if err == nil {
		return ""
	}
	s := err.Error()
	if len(s) > 200 {
		s = s[:200]
	}
	return s
}

type statusRec struct {
	mu sync.Mutex
	st []vtrace.Ev
	w  *world
}

func (s *statusRec) SetStatus(rcptTo string, err error) {
	r := s.w.rcptOf(rcptTo)
	cls, code := classOf(err)
	s.mu.Lock()
	s.st = append(s.st, vtrace.Ev{"lp": r.Lp, "dom": r.Dom, "cls": cls, "code": code, "err": errText(err)})
	s.mu.Unlock()
}

func factsEvent(facts map[string]Fact) vtrace.Ev {
	out := map[string]interface{}{}
	for d, f := range facts {
		recs := []interface{}{}
		for _, r := range f.Recs {
			recs = append(recs, map[string]interface{}{"pref": r.Pref, "host": r.Host, "up": r.Up})
		}
		out[d] = map[string]interface{}{"kind": f.Kind, "idn": f.Idn, "recs": recs}
	}
	return vtrace.Ev{"facts": out}
}

// runBehaviour executes b and writes its trace. A run that was disturbed by the harness's own
// infrastructure (an overloaded machine: a lookup timing out although the DNS server answers, a
// budget exceeded) says nothing about the code under test: its trace is thrown away and the
// behaviour is executed again; after three attempts the shard fails (exit 2 of the check).
func runBehaviour(t *testing.T, b Behaviour, out *bufio.Writer) {
	var err error
	for attempt := 0; attempt < 3; attempt++ {
		var buf bytes.Buffer
		if err = runWith(b, vtrace.New(&buf, b.ID)); err == nil {
			out.Write(buf.Bytes())
			return
		}
		t.Logf("behaviour %d, attempt %d: %v", b.ID, attempt+1, err)
	}
	t.Fatalf("HARNESS behaviour %d: %v", b.ID, err)
}

func runWith(b Behaviour, tr *vtrace.Tracer) error {
	start := time.Now()
	tr.Emit("Cfg", factsEvent(b.Facts))
	w, err := newWorld(tr, b.Facts)
	if err != nil {
		return fmt.Errorf("HARNESS behaviour %d: cannot build the world: %v", b.ID, err)
	}
	defer w.close()
	ext, err := remote.VerifRemoteExtResolver(w.dnsHost(), w.dnsPort())
	if err != nil {
		return fmt.Errorf("HARNESS behaviour %d: %v", b.ID, err)
	}
	nolog := log.Logger{Out: log.NopOutput{}}
	if os.Getenv("VERIF_DEBUG") != "" {
		nolog = log.Logger{Out: log.WriterOutput(os.Stderr, false), Debug: true, Name: "remote"}
	}
	tgt := remote.VerifRemoteNewTarget(remote.VerifRemoteConfig{
		Hostname:          "client.example.org",
		Resolver:          &mockdns.Resolver{}, // never used: the DNSSEC-aware resolver is present
		Dialer:            w.DialContext,
		ExtResolver:       ext,
		TLSConfig:         nil, // STARTTLS is C05's subject
		AllowSecOverride:  true,
		RelaxedREQUIRETLS: true,
		Pool: pool.Config{MaxKeys: 5000, MaxConnsPerKey: 5, MaxConnLifetimeSec: 150,
			StaleKeyLifetimeSec: 300},
		ConnReuseLimit:    10,
		ConnectTimeout:    20 * time.Second,
		CommandTimeout:    20 * time.Second,
		SubmissionTimeout: 20 * time.Second,
		Log:               nolog,
	})
	closed := false
	defer func() {
		if !closed {
			tgt.Close()
		}
	}()
	ctx, cancel := context.WithTimeout(context.Background(), harnessBudget)
	defer cancel()

	utf8 := false
	for _, f := range b.Facts {
		utf8 = utf8 || f.Idn
	}
	for di, d := range b.Delivs {
		from := fmt.Sprintf("m%d@sender.example.org", di+1)
		meta := &module.MsgMetadata{
			ID:           fmt.Sprintf("b%dm%d", b.ID, di+1),
			OriginalFrom: from,
			SMTPOpts:     smtp.MailOptions{UTF8: utf8},
		}
		tr.Emit("Start", vtrace.Ev{"m": di + 1})
		dl, err := tgt.Start(ctx, meta, from)
		if err != nil {
			return fmt.Errorf("HARNESS behaviour %d: Start failed: %v", b.ID, err)
		}
		w.mu.Lock()
		w.dot = d.Dot
		w.mu.Unlock()
		for si := range d.Steps {
			st := &d.Steps[si]
			addr := w.addrOf(st.To)
			tr.Emit("Rcpt", vtrace.Ev{"lp": st.To.Lp, "dom": st.To.Dom, "addr": addr})
			w.mu.Lock()
			w.step = st
			w.stepDials = 0
			w.used = make([]bool, len(st.Att))
			w.mu.Unlock()
			down := false
			if f, ok := b.Facts[st.To.Dom]; ok && f.Kind == "down" {
				down = true
				ext.Cfg.Port = w.closedPort() // the resolver is not running while this recipient is handled
			}
			t0 := time.Now()
			err := dl.AddRcpt(ctx, addr, smtp.RcptOptions{})
			took := time.Since(t0)
			if down {
				ext.Cfg.Port = w.dnsPort()
			}
			w.mu.Lock()
			w.step = nil
			w.mu.Unlock()
			cls, code := classOf(err)
			tr.Emit("Ret", vtrace.Ev{"lp": st.To.Lp, "dom": st.To.Dom, "cls": cls, "code": code, "err": errText(err),
				"ms": took.Milliseconds()})
			if f, ok := b.Facts[st.To.Dom]; err != nil && strings.Contains(err.Error(), "i/o timeout") &&
				!(ok && f.Kind == "timeout") {
				return fmt.Errorf("HARNESS-TIMEOUT behaviour %d: %v although nothing was scripted to time out", b.ID, err)
			}
		}
		if d.Body {
			tr.Emit("Body", vtrace.Ev{})
			pd, ok := dl.(module.PartialDelivery)
			if !ok {
				return fmt.Errorf("HARNESS behaviour %d: %T is not a PartialDelivery", b.ID, dl)
			}
			rec := &statusRec{w: w}
			hdr := textproto.Header{}
			hdr.Add("Subject", "verif")
			hdr.Add("From", "<sender@example.org>")
			pd.BodyNonAtomic(ctx, rec, hdr, buffer.MemoryBuffer{Slice: []byte("hello\r\n")})
			rec.mu.Lock()
			sts := append([]vtrace.Ev{}, rec.st...)
			rec.mu.Unlock()
			sort.Slice(sts, func(i, j int) bool {
				a, b := sts[i], sts[j]
				if a["dom"].(string) != b["dom"].(string) {
					return a["dom"].(string) < b["dom"].(string)
				}
				return a["lp"].(string) < b["lp"].(string)
			})
			list := []interface{}{}
			for _, s := range sts {
				list = append(list, map[string]interface{}(s))
			}
			tr.Emit("BodyRet", vtrace.Ev{"st": list})
		}
		if d.Fin == "abort" {
			err = dl.Abort(ctx)
		} else {
			err = dl.Commit(ctx)
		}
		if err != nil {
			return fmt.Errorf("HARNESS behaviour %d: %s failed: %v", b.ID, d.Fin, err)
		}
		tr.Emit("Fin", vtrace.Ev{"op": d.Fin})
	}
	tgt.Close()
	closed = true
	w.mu.Lock()
	open, infra := w.open, w.infraErr
	w.mu.Unlock()
	tr.Emit("End", vtrace.Ev{"open": open})
	if infra != "" {
		return fmt.Errorf("HARNESS behaviour %d: %s", b.ID, infra)
	}
	if time.Since(start) > harnessBudget || ctx.Err() != nil {
		return fmt.Errorf("HARNESS-TIMEOUT behaviour %d took %v", b.ID, time.Since(start))
	}
	return nil
}

func TestReplay(t *testing.T) {
	in, out := os.Getenv("VERIF_IN"), os.Getenv("VERIF_OUT")
	if in == "" || out == "" {
		t.Skip("VERIF_IN / VERIF_OUT not set")
	}
	f, err := os.Open(in)
	if err != nil {
		t.Fatal(err)
	}
	defer f.Close()
	of, err := os.Create(out)
	if err != nil {
		t.Fatal(err)
	}
	defer of.Close()
	wr := bufio.NewWriter(of)
	defer wr.Flush()
	sc := bufio.NewScanner(f)
	sc.Buffer(make([]byte, 1<<20), 1<<26)
	n := 0
	for sc.Scan() {
		var b Behaviour
		if err := json.Unmarshal(sc.Bytes(), &b); err != nil {
			t.Fatalf("bad behaviour line: %v", err)
		}
		runBehaviour(t, b, wr)
		n++
	}
	t.Logf("replayed %d behaviours", n)
}
