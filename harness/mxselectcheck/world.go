// Package mxselectcheck replays TLC-generated behaviours of spec/MxSelect.tla
// (extension X16: where target.remote delivers - MX discovery, candidate
// order, fall-back, outcome classification) on the real remote.Target and
// records NDJSON traces.
//
// The environment of one behaviour ("world"):
//   - a scripted DNS server on loopback UDP (miekg/dns) that the target's
//     DNSSEC-aware resolver (dns.ExtResolver, the production path on every
//     platform with /etc/resolv.conf) talks to: per recipient domain one of
//     MX records / null MX / no MX (implicit MX) / NXDOMAIN / SERVFAIL / no
//     answer (time-out); "resolver down" = the resolver's port is switched to a
//     reserved closed UDP port for the duration of that AddRcpt call;
//   - an injected dialer that maps host names (lower-cased, one trailing dot
//     removed) to scripted MX hosts listening on loopback TCP, or fails the
//     dial with the errors a real net.Dialer returns (ECONNREFUSED, the MX name
//     does not resolve: NXDOMAIN / temporary);
//   - scripted MX hosts: raw line-based SMTP servers whose behaviour per
//     connection is one of g4 / g5 (4xx / 5xx greeting), gdrop (connection
//     closed before the greeting), edrop (closed after EHLO), up (session
//     established); MAIL / RCPT / final-dot replies come from the plan.
//
// Every connection the dialer hands out is tracked: a connection that the code
// under test has not closed when the target has been closed is a leak (known
// without any waiting).
package mxselectcheck

import (
	"bufio"
	"context"
	"errors"
	"fmt"
	"net"
	"os"
	"strconv"
	"strings"
	"sync"
	"syscall"
	"time"

	"github.com/foxcpp/maddy/verifharness/vtrace"
	miekgdns "github.com/miekg/dns"
	"golang.org/x/net/idna"
)

// ---- behaviour format (built by lib/checks/x16.py from the history TLC printed) ----

type Rec struct {
	Pref int    `json:"pref"`
	Host string `json:"host"` // "h1".."h3"
	Up   bool   `json:"up"`   // published in upper case
}

type Fact struct {
	Kind string `json:"kind"` // mx | null | nomx | nx | servfail | timeout | down
	Idn  bool   `json:"idn"`  // the domain is an IDN (handed to the target in U-label form)
	Recs []Rec  `json:"recs"`
}

type Rcpt struct {
	Lp  string `json:"lp"`
	Dom string `json:"dom"` // "d1", "d2", "lit" (address literal), "none" (postmaster)
}

type Att struct {
	Host string `json:"host"`
	Out  string `json:"out"` // refuse | nohost | hserv | g4 | g5 | gdrop | edrop | up
}

type Step struct {
	To   Rcpt   `json:"to"`
	Att  []Att  `json:"att"`
	Mail string `json:"mail"` // "" | ok | m4 | m5 | mdrop
	Rcpt string `json:"rcpt"` // "" | ok | r4 | r5
}

type Deliv struct {
	Steps []Step            `json:"steps"`
	Body  bool              `json:"body"`
	Dot   map[string]string `json:"dot"` // domain -> ok | d4 | d5
	Fin   string            `json:"fin"` // commit | abort
}

type Behaviour struct {
	ID     int             `json:"id"`
	Facts  map[string]Fact `json:"facts"`
	Delivs []Deliv         `json:"delivs"`
}

// ---- names ----

var hostNames = map[string]string{
	"h1": "mx1.host.invalid",
	"h2": "mx2.host.invalid",
	"h3": aLabel("mx3.höst.invalid"), // an IDN host name as it is published (A-label)
}

// domain name as the message source hands it to the target: maddy's endpoints
// normalise recipient domains to U-labels, NFC, lower case (address.CleanDomain).
func domName(d string, f Fact) string {
	if f.Idn {
		return d + "é.invalid"
	}
	return d + ".invalid"
}

func aLabel(name string) string {
	a, err := idna.ToASCII(name)
	if err != nil {
		return name
	}
	return a
}

func normName(h string) string { return strings.ToLower(strings.TrimSuffix(h, ".")) }

func (w *world) addrOf(r Rcpt) string {
	switch r.Dom {
	case "lit":
		return r.Lp + "@[127.0.0.1]"
	case "none":
		return "postmaster"
	}
	return r.Lp + "@" + domName(r.Dom, w.facts[r.Dom])
}

// rcptOf maps an address as it appears on the wire (or as given) back to the model's recipient.
func (w *world) rcptOf(addr string) Rcpt {
	if strings.EqualFold(addr, "postmaster") {
		return Rcpt{Lp: "p", Dom: "none"}
	}
	i := strings.LastIndexByte(addr, '@')
	if i < 0 {
		return Rcpt{Lp: "?", Dom: "?"}
	}
	lp, dom := addr[:i], addr[i+1:]
	if dom == "[127.0.0.1]" {
		return Rcpt{Lp: lp, Dom: "lit"}
	}
	for d, f := range w.facts {
		n := domName(d, f)
		if strings.EqualFold(dom, n) || strings.EqualFold(dom, aLabel(n)) {
			return Rcpt{Lp: lp, Dom: d}
		}
	}
	return Rcpt{Lp: lp, Dom: "?"}
}

// ---- world ----

type world struct {
	tr    *vtrace.Tracer
	facts map[string]Fact

	mu        sync.Mutex
	step      *Step             // the AddRcpt call in progress (nil outside)
	used      []bool            // entries of step.Att already consumed
	dot       map[string]string // final-dot replies of the delivery in progress
	hosts     map[string]*mxHost
	names     map[string]string // normalised name -> host id ("h1", or "d1" for an implicit MX)
	open      int               // connections handed out and not yet closed by the code under test
	dialled   int
	stepDials int // connection attempts during the AddRcpt call in progress
	infraErr  string

	dnsPC      net.PacketConn
	dnsSrv     *miekgdns.Server
	closedSock *net.UDPConn // reserves a local UDP port that looks closed to everybody else
	questions  int
}

func (w *world) emit(e string, f vtrace.Ev) { w.tr.Emit(e, f) }

func newWorld(tr *vtrace.Tracer, facts map[string]Fact) (*world, error) {
	w := &world{tr: tr, facts: facts, hosts: map[string]*mxHost{}, names: map[string]string{}}
	for id, name := range hostNames {
		h, err := newMXHost(w, id)
		if err != nil {
			w.close()
			return nil, err
		}
		w.hosts[id] = h
		w.names[normName(name)] = id
	}
	for d, f := range facts {
		h, err := newMXHost(w, d) // the domain itself as a host (implicit MX)
		if err != nil {
			w.close()
			return nil, err
		}
		w.hosts[d] = h
		w.names[normName(aLabel(domName(d, f)))] = d
	}
	var err error
	for i := 0; i < 300; i++ {
		w.dnsPC, err = net.ListenPacket("udp4", "127.0.0.1:0")
		if err == nil {
			break
		}
		time.Sleep(100 * time.Millisecond)
	}
	if err != nil {
		w.close()
		return nil, err
	}
	started := make(chan struct{})
	w.dnsSrv = &miekgdns.Server{PacketConn: w.dnsPC, Handler: w, NotifyStartedFunc: func() { close(started) }}
	go w.dnsSrv.ActivateAndServe()
	<-started
	// A UDP socket connected to some other peer: its local port is taken, yet a datagram from
	// anybody else finds no socket and is answered with ICMP port unreachable.
	w.closedSock, err = net.DialUDP("udp4", &net.UDPAddr{IP: net.IPv4(127, 0, 0, 1)},
		&net.UDPAddr{IP: net.IPv4(127, 0, 0, 1), Port: 9})
	if err != nil {
		w.close()
		return nil, err
	}
	return w, nil
}

func (w *world) dnsHost() string { return w.dnsPC.LocalAddr().(*net.UDPAddr).IP.String() }
func (w *world) dnsPort() string { return strconv.Itoa(w.dnsPC.LocalAddr().(*net.UDPAddr).Port) }
func (w *world) closedPort() string {
	return strconv.Itoa(w.closedSock.LocalAddr().(*net.UDPAddr).Port)
}

func (w *world) close() {
	for _, h := range w.hosts {
		h.close()
	}
	if w.dnsSrv != nil {
		w.dnsSrv.Shutdown()
	}
	if w.closedSock != nil {
		w.closedSock.Close()
	}
}

func (w *world) infra(format string, a ...interface{}) {
	w.mu.Lock()
	if w.infraErr == "" {
		w.infraErr = fmt.Sprintf(format, a...)
	}
	w.mu.Unlock()
}

// ---- DNS ----

// classify names the domain a question refers to and the form of the name: "a" = the
// A-label (ASCII) form of the domain, "u" = the U-label octets put on the wire as they are.
func (w *world) classify(qname string) (dom, form string) {
	n := normName(qname)
	for d, f := range w.facts {
		u := domName(d, f)
		if n == normName(aLabel(u)) {
			return d, "a"
		}
		if f.Idn {
			// miekg/dns presents octets >= 0x80 as \DDD
			var sb strings.Builder
			for _, b := range []byte(strings.ToLower(u)) {
				if b >= 0x80 {
					fmt.Fprintf(&sb, "\\%03d", b)
				} else {
					sb.WriteByte(b)
				}
			}
			if n == sb.String() || n == strings.ToLower(u) {
				return d, "u"
			}
		}
	}
	return "?", "x"
}

func (w *world) ServeDNS(rw miekgdns.ResponseWriter, m *miekgdns.Msg) {
	reply := new(miekgdns.Msg)
	reply.SetReply(m)
	reply.RecursionAvailable = true
	if len(m.Question) != 1 {
		reply.Rcode = miekgdns.RcodeFormatError
		rw.WriteMsg(reply)
		return
	}
	q := m.Question[0]
	dom, form := w.classify(q.Name)
	w.mu.Lock()
	w.questions++
	w.mu.Unlock()
	w.emit("Q", vtrace.Ev{"dom": dom, "form": form, "qt": miekgdns.TypeToString[q.Qtype], "raw": q.Name})
	if form != "a" || q.Qtype != miekgdns.TypeMX {
		// the DNS knows IDN domains under their A-labels only; nothing but MX is published
		if form == "a" {
			rw.WriteMsg(reply) // NOERROR, no data
			return
		}
		reply.Rcode = miekgdns.RcodeNameError
		rw.WriteMsg(reply)
		return
	}
	f := w.facts[dom]
	hdr := miekgdns.RR_Header{Name: q.Name, Rrtype: miekgdns.TypeMX, Class: miekgdns.ClassINET, Ttl: 300}
	switch f.Kind {
	case "mx":
		for _, r := range f.Recs {
			name := hostNames[r.Host] + "."
			if r.Up {
				name = strings.ToUpper(name)
			}
			reply.Answer = append(reply.Answer, &miekgdns.MX{Hdr: hdr, Preference: uint16(r.Pref), Mx: name})
		}
	case "null":
		reply.Answer = append(reply.Answer, &miekgdns.MX{Hdr: hdr, Preference: 0, Mx: "."})
	case "nomx":
	case "nx":
		reply.Rcode = miekgdns.RcodeNameError
	case "servfail", "down":
		reply.Rcode = miekgdns.RcodeServerFailure
	case "timeout":
		return // no answer at all
	default:
		w.infra("unknown DNS situation %q", f.Kind)
		reply.Rcode = miekgdns.RcodeServerFailure
	}
	rw.WriteMsg(reply)
}

// ---- dialer ----

type trackedConn struct {
	net.Conn
	w    *world
	once sync.Once
}

func (c *trackedConn) Close() error {
	c.once.Do(func() {
		c.w.mu.Lock()
		c.w.open--
		c.w.mu.Unlock()
	})
	return c.Conn.Close()
}

func (w *world) DialContext(ctx context.Context, network, addr string) (net.Conn, error) {
	host, port, err := net.SplitHostPort(addr)
	if err != nil {
		host = addr
	}
	id, ok := w.names[normName(host)]
	if !ok {
		id = "?"
	}
	w.mu.Lock()
	out := "up"
	w.stepDials++
	if w.stepDials > maxDialsPerCall {
		// a runaway retry loop in the code under test must end: every further attempt is refused
		out = "refuse"
	} else if w.step != nil {
		for i, a := range w.step.Att {
			if !w.used[i] && a.Host == id {
				w.used[i] = true
				out = a.Out
				break
			}
		}
	}
	w.dialled++
	h := w.hosts[id]
	c := 0
	if h != nil && out != "refuse" && out != "nohost" && out != "hserv" {
		h.mu.Lock()
		h.conns++
		c = h.conns
		h.scripts[c] = out
		h.mu.Unlock()
	}
	w.mu.Unlock()
	if h == nil {
		w.emit("Dial", vtrace.Ev{"host": "?", "out": "nohost", "c": 0, "raw": host, "port": port})
		return nil, &net.OpError{Op: "dial", Net: network, Err: &net.DNSError{Err: "no such host", Name: host, IsNotFound: true}}
	}
	w.emit("Dial", vtrace.Ev{"host": id, "out": out, "c": c, "raw": host, "port": port})
	switch out {
	case "refuse":
		return nil, &net.OpError{Op: "dial", Net: network, Addr: h.l.Addr(),
			Err: os.NewSyscallError("connect", syscall.ECONNREFUSED)}
	case "nohost":
		return nil, &net.OpError{Op: "dial", Net: network, Err: &net.DNSError{Err: "no such host", Name: host, IsNotFound: true}}
	case "hserv":
		return nil, &net.OpError{Op: "dial", Net: network, Err: &net.DNSError{Err: "server misbehaving", Name: host,
			Server: "127.0.0.1:53", IsTemporary: true}}
	}
	var conn net.Conn
	for i := 0; i < 150; i++ { // ride out a momentarily exhausted ephemeral port range
		conn, err = (&net.Dialer{Timeout: 20 * time.Second}).DialContext(ctx, "tcp4", h.l.Addr().String())
		if err == nil {
			break
		}
		time.Sleep(100 * time.Millisecond)
	}
	if err != nil {
		w.infra("the harness could not connect to its own MX host %s: %v", id, err)
		return nil, err
	}
	w.mu.Lock()
	w.open++
	w.mu.Unlock()
	return &trackedConn{Conn: conn, w: w}, nil
}

// ---- scripted MX host ----

type mxHost struct {
	w  *world
	id string
	l  net.Listener

	mu       sync.Mutex
	conns    int            // connections handed out by the dialer
	accepted int            // connections accepted by the listener (same order: dials are sequential)
	scripts  map[int]string // connection number -> behaviour
	live     map[net.Conn]struct{}
	wg       sync.WaitGroup
}

func newMXHost(w *world, id string) (*mxHost, error) {
	var l net.Listener
	var err error
	for i := 0; i < 300; i++ {
		l, err = net.Listen("tcp4", "127.0.0.1:0")
		if err == nil {
			break
		}
		time.Sleep(100 * time.Millisecond)
	}
	if err != nil {
		return nil, err
	}
	h := &mxHost{w: w, id: id, l: l, scripts: map[int]string{}, live: map[net.Conn]struct{}{}}
	h.wg.Add(1)
	go h.serve()
	return h, nil
}

func (h *mxHost) close() {
	h.l.Close()
	h.mu.Lock()
	for c := range h.live {
		c.Close()
	}
	h.mu.Unlock()
	h.wg.Wait()
}

func (h *mxHost) serve() {
	defer h.wg.Done()
	for {
		c, err := h.l.Accept()
		if err != nil {
			return
		}
		h.mu.Lock()
		h.accepted++
		n := h.accepted
		out := h.scripts[n]
		h.live[c] = struct{}{}
		h.mu.Unlock()
		h.wg.Add(1)
		go func() {
			defer h.wg.Done()
			h.handle(c, n, out)
			c.Close()
			h.mu.Lock()
			delete(h.live, c)
			h.mu.Unlock()
		}()
	}
}

const ioTimeout = 60 * time.Second

// more connection attempts than any candidate list explains (3 records) by a wide margin
const maxDialsPerCall = 16

func (h *mxHost) handle(c net.Conn, n int, out string) {
	w := h.w
	r := bufio.NewReader(c)
	write := func(s string) bool {
		c.SetWriteDeadline(time.Now().Add(ioTimeout))
		_, err := c.Write([]byte(s))
		return err == nil
	}
	readLine := func() (string, bool) {
		c.SetReadDeadline(time.Now().Add(ioTimeout))
		line, err := r.ReadString('\n')
		if err != nil {
			return "", false
		}
		return strings.TrimRight(line, "\r\n"), true
	}
	drain := func() {
		for {
			if _, ok := readLine(); !ok {
				return
			}
		}
	}
	name := hostNames[h.id]
	if name == "" {
		name = h.id + ".invalid"
	}
	switch out {
	case "gdrop":
		return
	case "g4":
		write("421 4.3.2 " + name + " is busy, try again later\r\n")
		drain()
		return
	case "g5":
		write("554 5.3.2 " + name + " does not accept mail here\r\n")
		drain()
		return
	case "":
		w.infra("host %s accepted connection %d that the dialer did not hand out", h.id, n)
		return
	}
	if !write("220 " + name + " ESMTP scripted\r\n") {
		return
	}
	inTxn := false
	var rcpts []Rcpt
	for {
		line, ok := readLine()
		if !ok {
			return
		}
		verb, arg := line, ""
		if i := strings.IndexByte(line, ' '); i >= 0 {
			verb, arg = line[:i], line[i+1:]
		}
		switch strings.ToUpper(verb) {
		case "EHLO":
			if out == "edrop" {
				return
			}
			if !write("250-" + name + "\r\n250-8BITMIME\r\n250-ENHANCEDSTATUSCODES\r\n250-SMTPUTF8\r\n250 HELP\r\n") {
				return
			}
		case "HELO":
			if out == "edrop" {
				return
			}
			if !write("250 " + name + "\r\n") {
				return
			}
		case "MAIL":
			w.mu.Lock()
			rep := "ok"
			if w.step != nil && w.step.Mail != "" {
				rep = w.step.Mail
			}
			w.mu.Unlock()
			w.emit("Srv", vtrace.Ev{"st": "mail", "host": h.id, "c": n, "r": rep, "arg": arg})
			inTxn, rcpts = false, nil
			switch rep {
			case "mdrop":
				return
			case "m4":
				ok = write("451 4.7.1 greylisted, try again later\r\n")
			case "m5":
				ok = write("550 5.7.1 sender refused\r\n")
			default:
				inTxn = true
				ok = write("250 2.1.0 sender ok\r\n")
			}
			if !ok {
				return
			}
		case "RCPT":
			if !inTxn {
				if !write("503 5.5.1 MAIL first\r\n") {
					return
				}
				continue
			}
			addr := arg
			if i, j := strings.Index(arg, "<"), strings.Index(arg, ">"); i >= 0 && j > i {
				addr = arg[i+1 : j]
			}
			to := w.rcptOf(addr)
			w.mu.Lock()
			rep := "ok"
			if w.step != nil && w.step.Rcpt != "" {
				rep = w.step.Rcpt
			}
			w.mu.Unlock()
			w.emit("Srv", vtrace.Ev{"st": "rcpt", "host": h.id, "c": n, "lp": to.Lp, "dom": to.Dom, "r": rep, "arg": arg})
			switch rep {
			case "r4":
				ok = write("451 4.2.1 mailbox busy\r\n")
			case "r5":
				ok = write("550 5.1.1 no such user\r\n")
			default:
				rcpts = append(rcpts, to)
				ok = write("250 2.1.5 recipient ok\r\n")
			}
			if !ok {
				return
			}
		case "DATA":
			if !inTxn || len(rcpts) == 0 {
				if !write("503 5.5.1 RCPT first\r\n") {
					return
				}
				continue
			}
			if !write("354 go ahead\r\n") {
				return
			}
			for {
				l, ok := readLine()
				if !ok {
					return
				}
				if l == "." {
					break
				}
			}
			w.mu.Lock()
			rep := "ok"
			if len(rcpts) > 0 {
				if d, ok := w.dot[rcpts[0].Dom]; ok && d != "" {
					rep = d
				}
			}
			w.mu.Unlock()
			list := []interface{}{}
			for _, x := range rcpts {
				list = append(list, map[string]interface{}{"lp": x.Lp, "dom": x.Dom})
			}
			w.emit("Srv", vtrace.Ev{"st": "data", "host": h.id, "c": n, "rcpts": list, "r": rep})
			switch rep {
			case "d4":
				ok = write("451 4.3.0 try again later\r\n")
			case "d5":
				ok = write("554 5.6.0 message refused\r\n")
			default:
				ok = write("250 2.0.0 queued\r\n")
			}
			if !ok {
				return
			}
			inTxn, rcpts = false, nil
		case "RSET":
			inTxn, rcpts = false, nil
			if !write("250 2.0.0 reset\r\n") {
				return
			}
		case "NOOP":
			if !write("250 2.0.0 ok\r\n") {
				return
			}
		case "QUIT":
			write("221 2.0.0 bye\r\n")
			return
		default:
			if !write("500 5.5.1 unknown command\r\n") {
				return
			}
		}
	}
}

var errHarness = errors.New("mxselectcheck: harness failure")
