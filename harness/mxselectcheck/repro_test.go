package mxselectcheck

// Stand-alone reproductions of the findings of extension X16 on the real remote.Target
// (in /verif/harness: go1.26 test -tags verif -run 'TestRepro' -v ./mxselectcheck).
// They only print what happens; the verdicts are the business of bin/check X16.

import (
	"encoding/json"
	"fmt"
	"testing"

	"github.com/foxcpp/maddy/verifharness/vtrace"
)

func reproRun(t *testing.T, src string) []vtrace.Ev {
	var b Behaviour
	if err := json.Unmarshal([]byte(src), &b); err != nil {
		t.Fatal(err)
	}
	b.ID = 1
	tr := vtrace.New(nil, 1)
	tr.Keep = true
	if err := runWith(b, tr); err != nil {
		t.Fatal(err)
	}
	for _, e := range tr.Evs {
		switch e["e"] {
		case "Rcpt":
			fmt.Printf("AddRcpt(%v)\n", e["addr"])
		case "Q":
			fmt.Printf("     DNS server got the question %v %q (form %v of domain %v)\n", e["qt"], e["raw"], e["form"], e["dom"])
		case "Dial":
			fmt.Printf("     dial %v (host %v) -> the host behaves %q\n", e["raw"], e["host"], e["out"])
		case "Srv":
			fmt.Printf("     host %v connection %v got %v %v-> reply %v\n", e["host"], e["c"], e["st"], e["arg"], e["r"])
		case "Ret":
			fmt.Printf("  => class=%v code=%v  %v\n", e["cls"], e["code"], e["err"])
		}
	}
	return tr.Evs
}

// X16-F1: two MX candidates, the first refuses the connection, the second closes it before the
// greeting: AddRcpt fails with 550 (permanent), the queue would bounce the message.
func TestReproF1(t *testing.T) {
	reproRun(t, `{"facts":{"d1":{"kind":"mx","idn":false,"recs":[{"pref":10,"host":"h1","up":false},{"pref":20,"host":"h2","up":false}]}},
 "delivs":[{"steps":[{"to":{"lp":"a","dom":"d1"},"att":[{"host":"h1","out":"refuse"},{"host":"h2","out":"gdrop"}],"mail":"","rcpt":""}],
 "body":false,"dot":{},"fin":"abort"}]}`)
}

// X16-F2: the DNS resolver is not running (its UDP port is closed): 554 (permanent).
func TestReproF2(t *testing.T) {
	reproRun(t, `{"facts":{"d1":{"kind":"down","idn":false,"recs":[]}},
 "delivs":[{"steps":[{"to":{"lp":"a","dom":"d1"},"att":[],"mail":"","rcpt":""}],"body":false,"dot":{},"fin":"abort"}]}`)
}

// X16-F3: recipient in an IDN domain (U-label form, as the endpoints hand it over) that publishes
// an MX record under its A-label: the question carries the raw UTF-8 octets, NXDOMAIN, 554.
func TestReproF3(t *testing.T) {
	reproRun(t, `{"facts":{"d1":{"kind":"mx","idn":true,"recs":[{"pref":10,"host":"h1","up":false}]}},
 "delivs":[{"steps":[{"to":{"lp":"a","dom":"d1"},"att":[{"host":"h1","out":"up"}],"mail":"ok","rcpt":"ok"}],
 "body":true,"dot":{"d1":"ok"},"fin":"commit"}]}`)
}
