package smtpconncheck

import (
	"encoding/json"
	"fmt"
	"os"
	"testing"

	"github.com/foxcpp/maddy/verifharness/vtrace"
)

func TestProbe(t *testing.T) {
	src := os.Getenv("PROBE")
	if src == "" {
		t.Skip()
	}
	var bs []Beh
	if err := json.Unmarshal([]byte(src), &bs); err != nil {
		t.Fatal(err)
	}
	for i := range bs {
		tr := vtrace.New(nil, i+1)
		tr.Keep = true
		run(t, &bs[i], tr)
		for _, e := range tr.Evs {
			b, _ := json.Marshal(e)
			fmt.Println(string(b))
		}
		fmt.Println("----")
	}
}
