// Package smtpconncheck drives maddy's SMTP/LMTP client (internal/smtpconn.C over
// the go-smtp client) with the call sequences and server behaviours printed by
// TLC from spec/SmtpClient.tla and records what the client did on both sides:
// at its API (calls and their results) and on the wire (what the scripted
// server received, in which order, and what it answered).
package smtpconncheck

import (
	"io"
	"net"
	"os"
	"sync"
	"time"
)

// memConn is one end of an in-memory, buffered, full-duplex byte stream with the
// error behaviour of a TCP connection: writes never block (socket buffer), a
// read after the peer closed returns io.EOF once the buffer is drained, a read
// or write after the local Close fails with *net.OpError{net.ErrClosed}, an
// expired deadline fails with *net.OpError{os.ErrDeadlineExceeded} (Timeout()
// is true).  Everything it blocks on is a channel or a timer, so inside a
// testing/synctest bubble a blocked read is "durably blocked" and the fake
// clock advances to the next deadline.
type memConn struct {
	name string
	rd   *pipeHalf // peer -> us
	wr   *pipeHalf // us -> peer

	mu      sync.Mutex
	closed  bool
	rdl     time.Time
	wdl     time.Time
	wake    chan struct{} // closed and replaced when deadlines / closed change
	written int           // bytes written by this end (harness bookkeeping)
}

type pipeHalf struct {
	mu      sync.Mutex
	buf     []byte
	wclosed bool          // the writing end closed
	rclosed bool          // the reading end closed (writes are discarded)
	wake    chan struct{} // closed and replaced on every change
}

func newHalf() *pipeHalf { return &pipeHalf{wake: make(chan struct{})} }

func (h *pipeHalf) signal() {
	close(h.wake)
	h.wake = make(chan struct{})
}

// memPipe returns the two ends of a fresh connection.
func memPipe() (client, server *memConn) {
	a, b := newHalf(), newHalf()
	client = &memConn{name: "client", rd: b, wr: a, wake: make(chan struct{})}
	server = &memConn{name: "server", rd: a, wr: b, wake: make(chan struct{})}
	return client, server
}

type memAddr string

func (a memAddr) Network() string { return "tcp" }
func (a memAddr) String() string  { return string(a) }

func (c *memConn) opErr(op string, err error) error {
	return &net.OpError{Op: op, Net: "tcp", Source: c.LocalAddr(), Addr: c.RemoteAddr(), Err: err}
}

func (c *memConn) Read(p []byte) (int, error) {
	for {
		c.mu.Lock()
		closed, dl, cwake := c.closed, c.rdl, c.wake
		c.mu.Unlock()
		if closed {
			return 0, c.opErr("read", net.ErrClosed)
		}
		c.rd.mu.Lock()
		if len(c.rd.buf) > 0 {
			n := copy(p, c.rd.buf)
			c.rd.buf = c.rd.buf[n:]
			c.rd.mu.Unlock()
			return n, nil
		}
		if c.rd.wclosed {
			c.rd.mu.Unlock()
			return 0, io.EOF
		}
		hwake := c.rd.wake
		c.rd.mu.Unlock()
		if len(p) == 0 {
			return 0, nil
		}
		var tc <-chan time.Time
		var tm *time.Timer
		if !dl.IsZero() {
			d := time.Until(dl)
			if d <= 0 {
				return 0, c.opErr("read", os.ErrDeadlineExceeded)
			}
			tm = time.NewTimer(d)
			tc = tm.C
		}
		select {
		case <-hwake:
		case <-cwake:
		case <-tc:
		}
		if tm != nil {
			tm.Stop()
		}
	}
}

func (c *memConn) Write(p []byte) (int, error) {
	c.mu.Lock()
	closed, dl := c.closed, c.wdl
	c.mu.Unlock()
	if closed {
		return 0, c.opErr("write", net.ErrClosed)
	}
	if !dl.IsZero() && time.Until(dl) <= 0 {
		return 0, c.opErr("write", os.ErrDeadlineExceeded)
	}
	c.wr.mu.Lock()
	if !c.wr.rclosed {
		c.wr.buf = append(c.wr.buf, p...)
	}
	c.wr.signal()
	c.wr.mu.Unlock()
	c.mu.Lock()
	c.written += len(p)
	c.mu.Unlock()
	return len(p), nil
}

func (c *memConn) Close() error {
	c.mu.Lock()
	if c.closed {
		c.mu.Unlock()
		return c.opErr("close", net.ErrClosed)
	}
	c.closed = true
	close(c.wake)
	c.wake = make(chan struct{})
	c.mu.Unlock()
	c.wr.mu.Lock()
	c.wr.wclosed = true
	c.wr.signal()
	c.wr.mu.Unlock()
	c.rd.mu.Lock()
	c.rd.rclosed = true
	c.rd.buf = nil
	c.rd.signal()
	c.rd.mu.Unlock()
	return nil
}

// IsClosed reports whether this end was closed locally.
func (c *memConn) IsClosed() bool {
	c.mu.Lock()
	defer c.mu.Unlock()
	return c.closed
}

func (c *memConn) LocalAddr() net.Addr  { return memAddr("127.0.0.1:" + c.name) }
func (c *memConn) RemoteAddr() net.Addr { return memAddr("127.0.0.2:" + c.name) }

func (c *memConn) setDL(r, w *time.Time) {
	c.mu.Lock()
	if r != nil {
		c.rdl = *r
	}
	if w != nil {
		c.wdl = *w
	}
	close(c.wake)
	c.wake = make(chan struct{})
	c.mu.Unlock()
}

func (c *memConn) SetDeadline(t time.Time) error      { c.setDL(&t, &t); return nil }
func (c *memConn) SetReadDeadline(t time.Time) error  { c.setDL(&t, nil); return nil }
func (c *memConn) SetWriteDeadline(t time.Time) error { c.setDL(nil, &t); return nil }
