package smtpconncheck

import (
	"bufio"
	"crypto/tls"
	"fmt"
	"net"
	"strings"
	"sync"
	"time"
)

// wireServer is a raw line-based SMTP/LMTP server for one connection that
// answers every reply slot (greeting, each command, each reply after the final
// dot) with the next reply kind of the script installed for the client call in
// progress.  It never enforces anything by itself except command sequencing
// (503 for a command RFC 5321 does not allow in the server's state, so that a
// client that gets the order wrong is still answered) and it records what it
// received.
//
// Reply kinds:
//
//	ok     the normal positive reply of the slot (220 / 250+extensions / 354 / 221)
//	t4     451 4.3.0            t4n   450 without enhanced code
//	p5     550 5.1.1            p5n   550 without enhanced code
//	p5m    554 5.0.0 multi-line p552  552 5.3.4
//	e500   500 5.5.2 (command not recognised)   e502  502 5.5.1
//	okm    positive reply spread over several lines (not for the hello commands)
//	drop   the connection is closed instead of the reply
//	garb   a line that is not an SMTP reply (it carries no token)
//	lok / lp5   "ok" / "p5" written only after the client's time-out has passed
//	extra  (after the final dot, LMTP) one reply more than there are recipients
//
// Every reply carries a unique token "r<id>" in its text so that the harness
// can tell which reply a client error was built from.
//
// The reader goroutine logs each command when it is received and decides its
// reply; a writer goroutine writes the replies in order (sleeping for the late
// ones), so a command sent while an earlier reply is still outstanding is
// logged when it is sent.
type wireServer struct {
	c        net.Conn
	raw      *memConn
	r        *bufio.Reader
	lmtp     bool
	ext      []string // advertised before STARTTLS; STARTTLS is dropped once TLS is on
	tlsCfg   *tls.Config
	emit     func(f map[string]interface{})
	lateCmd  time.Duration
	lateDot  time.Duration
	expected func(payload []byte) bool

	mu     sync.Mutex
	script []string
	nextID int

	// protocol state as the server sees it
	phase  string // "greeted" (waiting for hello), "ready", "mail", "rcpt"
	nacc   int
	tlsOn  bool
	jobs   chan job
	wdone  chan struct{}
	done   chan struct{}
	idle   chan struct{} // writer signals "queue drained"
	queued int
}

// clientName is the host name the client under test is configured with.
const clientName = "mx.client.example"

type job struct {
	text  string
	delay time.Duration
	drop  bool
}

func (s *wireServer) SetScript(rs []string) {
	s.mu.Lock()
	s.script = append([]string{}, rs...)
	s.mu.Unlock()
}

func (s *wireServer) next() (string, int) {
	s.mu.Lock()
	defer s.mu.Unlock()
	k := "ok"
	if len(s.script) > 0 {
		k = s.script[0]
		s.script = s.script[1:]
	}
	s.nextID++
	return k, s.nextID
}

func (s *wireServer) newID() int {
	s.mu.Lock()
	defer s.mu.Unlock()
	s.nextID++
	return s.nextID
}

// replyText renders reply kind k for a slot whose positive reply is (code, text).
func replyText(k string, id int, okCode int, okLines []string) string {
	tok := fmt.Sprintf("r%d", id)
	base := k
	if k == "lok" {
		base = "ok"
	} else if k == "lp5" {
		base = "p5"
	}
	switch base {
	case "ok", "extra":
		var sb strings.Builder
		for i, l := range okLines {
			sep := "-"
			if i == len(okLines)-1 {
				sep = " "
			}
			if i == 0 {
				l = l + " " + tok
			}
			sb.WriteString(fmt.Sprintf("%d%s%s\r\n", okCode, sep, l))
		}
		return sb.String()
	case "okm":
		return fmt.Sprintf("%d-2.0.0 %s first\r\n%d-2.0.0 second\r\n%d 2.0.0 third\r\n", okCode, tok, okCode, okCode)
	case "t4":
		return "451 4.3.0 " + tok + " scripted temporary\r\n"
	case "t4n":
		return "450 " + tok + " scripted temporary\r\n"
	case "p5":
		return "550 5.1.1 " + tok + " scripted permanent\r\n"
	case "p5n":
		return "550 " + tok + " scripted permanent\r\n"
	case "p5m":
		return "554-5.0.0 " + tok + " scripted\r\n554-5.0.0 permanent\r\n554 5.0.0 failure\r\n"
	case "p552":
		return "552 5.3.4 " + tok + " scripted too much\r\n"
	case "e500":
		return "500 5.5.2 " + tok + " not recognised\r\n"
	case "e502":
		return "502 5.5.1 " + tok + " not implemented\r\n"
	case "seq":
		return "503 5.5.1 " + tok + " bad sequence of commands\r\n"
	case "garb":
		return "garbage line\r\n"
	}
	return "554 5.0.0 " + tok + " unknown reply kind " + k + "\r\n"
}

func (s *wireServer) enqueue(k, text string, dot bool) {
	j := job{text: text}
	if k == "drop" {
		j = job{drop: true}
	}
	if k == "lok" || k == "lp5" {
		j.delay = s.lateCmd
		if dot {
			j.delay = s.lateDot
		}
	}
	s.mu.Lock()
	s.queued++
	s.mu.Unlock()
	s.jobs <- j
}

func (s *wireServer) writer() {
	defer close(s.wdone)
	for j := range s.jobs {
		if j.delay > 0 {
			time.Sleep(j.delay)
		}
		if j.drop {
			s.c.Close()
		} else {
			s.c.Write([]byte(j.text))
		}
		s.mu.Lock()
		s.queued--
		if s.queued == 0 {
			close(s.idle)
			s.idle = make(chan struct{})
		}
		s.mu.Unlock()
	}
}

func (s *wireServer) drain() {
	for {
		s.mu.Lock()
		q, ch := s.queued, s.idle
		s.mu.Unlock()
		if q == 0 {
			return
		}
		<-ch
	}
}

func (s *wireServer) ev(f map[string]interface{}) {
	base := map[string]interface{}{"k": "", "verb": "", "hn": "", "par": []string{}, "ak": "", "an": 0, "id": 0, "r": "",
		"tls": s.tlsOn, "full": false, "i": 0}
	for k, v := range f {
		base[k] = v
	}
	s.emit(base)
}

func (s *wireServer) extLines() []string {
	lines := []string{"scripted.invalid"}
	for _, e := range s.ext {
		if e == "STARTTLS" && s.tlsOn {
			continue
		}
		if e == "SIZE" {
			e = "SIZE 10000000"
		}
		lines = append(lines, e)
	}
	return lines
}

// serve runs the connection; it returns when the connection is over.
func (s *wireServer) serve() {
	defer close(s.done)
	s.jobs = make(chan job, 64)
	s.wdone = make(chan struct{})
	s.idle = make(chan struct{})
	go s.writer()
	defer func() {
		close(s.jobs)
		<-s.wdone
		s.c.Close()
	}()
	s.r = bufio.NewReader(s.c)

	k, id := s.next()
	s.ev(map[string]interface{}{"k": "greet", "id": id, "r": k})
	s.enqueue(k, replyText(k, id, 220, []string{"scripted.invalid ESMTP"}), false)
	if k == "ok" || k == "lok" || k == "okm" {
		s.phase = "greeted"
	} else {
		s.phase = "refused"
	}
	for {
		line, err := s.r.ReadString('\n')
		if err != nil {
			return
		}
		line = strings.TrimRight(line, "\r\n")
		verb, arg := line, ""
		if i := strings.IndexByte(line, ' '); i >= 0 {
			verb, arg = line[:i], line[i+1:]
		}
		verb = strings.ToUpper(verb)
		ak, an, par := "", 0, []string{}
		if verb == "MAIL" || verb == "RCPT" {
			var rest string
			ak, an, rest = parseAddr(arg)
			for _, p := range strings.Fields(rest) {
				if i := strings.IndexByte(p, '='); i >= 0 && strings.ToUpper(p[:i]) == "SIZE" {
					p = "SIZE"
				}
				par = append(par, strings.ToUpper(p))
			}
		}
		// sequencing a real server would enforce; the scripted reply is used otherwise
		inOrder := true
		switch verb {
		case "MAIL":
			inOrder = s.phase == "ready"
		case "RCPT":
			inOrder = s.phase == "mail" || s.phase == "rcpt"
		case "DATA":
			inOrder = s.phase == "rcpt"
		case "STARTTLS":
			inOrder = !s.tlsOn && s.tlsCfg != nil
		case "EHLO", "LHLO", "HELO", "RSET", "NOOP", "QUIT":
		default:
			inOrder = false
		}
		var k string
		var id int
		if inOrder {
			k, id = s.next()
		} else {
			k, id = "seq", s.newID()
		}
		hn := ""
		if verb == "EHLO" || verb == "LHLO" || verb == "HELO" {
			switch arg {
			case "localhost":
				hn = "local"
			case clientName:
				hn = "name"
			default:
				hn = "other"
			}
		}
		s.ev(map[string]interface{}{"k": "cmd", "verb": verb, "hn": hn, "par": par, "ak": ak, "an": an, "id": id, "r": k})
		pos := k == "ok" || k == "lok" || k == "okm"
		switch verb {
		case "EHLO", "LHLO":
			s.enqueue(k, replyText(k, id, 250, s.extLines()), false)
			if pos {
				s.phase, s.nacc = "ready", 0
			}
		case "HELO":
			s.enqueue(k, replyText(k, id, 250, []string{"scripted.invalid"}), false)
			if pos {
				s.phase, s.nacc = "ready", 0
			}
		case "STARTTLS":
			s.enqueue(k, replyText(k, id, 220, []string{"2.0.0 go ahead"}), false)
			if pos {
				s.drain()
				tc := tls.Server(s.raw, s.tlsCfg)
				tc.SetDeadline(time.Now().Add(10 * time.Minute))
				if err := tc.Handshake(); err != nil {
					return
				}
				tc.SetDeadline(time.Time{})
				s.c = tc
				s.r = bufio.NewReader(tc)
				s.tlsOn = true
				s.phase = "greeted"
			}
		case "MAIL":
			s.enqueue(k, replyText(k, id, 250, []string{"2.1.0 sender ok"}), false)
			if pos {
				s.phase, s.nacc = "mail", 0
			}
		case "RCPT":
			s.enqueue(k, replyText(k, id, 250, []string{"2.1.5 recipient ok"}), false)
			if pos {
				s.phase = "rcpt"
				s.nacc++
			}
		case "RSET":
			s.enqueue(k, replyText(k, id, 250, []string{"2.0.0 reset"}), false)
			if pos && s.phase != "greeted" && s.phase != "refused" {
				s.phase, s.nacc = "ready", 0
			}
		case "NOOP":
			s.enqueue(k, replyText(k, id, 250, []string{"2.0.0 ok"}), false)
		case "QUIT":
			s.enqueue(k, replyText(k, id, 221, []string{"2.0.0 bye"}), false)
			if pos {
				s.enqueue("drop", "", false)
			}
		case "DATA":
			s.enqueue(k, replyText(k, id, 354, []string{"go ahead"}), false)
			if !pos {
				break
			}
			var payload []byte
			for {
				l, err := s.r.ReadString('\n')
				if err != nil {
					return
				}
				l = strings.TrimRight(l, "\r\n")
				if l == "." {
					break
				}
				if strings.HasPrefix(l, ".") {
					l = l[1:]
				}
				payload = append(payload, l...)
				payload = append(payload, '\r', '\n')
			}
			s.ev(map[string]interface{}{"k": "content", "full": s.expected(payload)})
			n := 1
			if s.lmtp {
				n = s.nacc
			}
			for i := 1; i <= n; i++ {
				dk, did := s.next()
				extra := dk == "extra"
				s.ev(map[string]interface{}{"k": "dot", "id": did, "r": dk, "i": i})
				s.enqueue(dk, replyText(dk, did, 250, []string{"2.0.0 delivered"}), true)
				if dk == "drop" {
					break
				}
				if extra {
					xid := s.newID()
					s.ev(map[string]interface{}{"k": "dot", "id": xid, "r": "ok", "i": i + 1})
					s.enqueue("ok", replyText("ok", xid, 250, []string{"2.0.0 delivered"}), true)
				}
			}
			s.phase, s.nacc = "ready", 0
		default:
			s.enqueue(k, replyText(k, id, 250, []string{"2.0.0 ok"}), false)
		}
	}
}

// Addresses: local part x<n> (ASCII) or ü<n> (non-ASCII), domain example.invalid,
// é.invalid (U-label) or xn--9ca.invalid (its A-label).
func mkAddr(kind string, n int) string {
	switch kind {
	case "asc":
		return fmt.Sprintf("x%d@example.invalid", n)
	case "idn":
		return fmt.Sprintf("x%d@é.invalid", n)
	case "ace":
		return fmt.Sprintf("x%d@xn--9ca.invalid", n)
	case "nl":
		return fmt.Sprintf("ü%d@example.invalid", n)
	}
	return "other@other.invalid"
}

func classifyAddr(a string) (string, int) {
	for _, k := range []string{"asc", "idn", "ace", "nl"} {
		for n := 0; n <= 9; n++ {
			if mkAddr(k, n) == a {
				return k, n
			}
		}
	}
	return "other", 0
}

func parseAddr(arg string) (kind string, n int, rest string) {
	i := strings.Index(arg, "<")
	j := strings.Index(arg, ">")
	if i < 0 || j < i {
		return "other", 0, ""
	}
	kind, n = classifyAddr(arg[i+1 : j])
	return kind, n, strings.TrimSpace(arg[j+1:])
}
