package smtpconncheck

import (
	"bufio"
	"bytes"
	"context"
	"crypto/tls"
	"encoding/json"
	"errors"
	"fmt"
	"io"
	"net"
	"os"
	"regexp"
	"strconv"
	"strings"
	"sync"
	"syscall"
	"testing"
	"testing/synctest"
	"time"

	"github.com/emersion/go-message/textproto"
	"github.com/emersion/go-smtp"
	"github.com/foxcpp/maddy/framework/config"
	"github.com/foxcpp/maddy/framework/exterrors"
	"github.com/foxcpp/maddy/framework/log"
	"github.com/foxcpp/maddy/internal/smtpconn"
	"github.com/foxcpp/maddy/verifharness/scripted"
	"github.com/foxcpp/maddy/verifharness/vtrace"
)

// ---- behaviours (printed by TLC from spec/SmtpClient.tla) -----------------------

// Args is the uniform argument record of a call; irrelevant fields keep their
// zero value.
type Args struct {
	Lmtp bool   `json:"lmtp"` // Connect: ConnectLMTP
	Tls  bool   `json:"tls"`  // Connect: starttls required
	Dial string `json:"dial"` // Connect: "ok" | "fail"
	Ak   string `json:"ak"`   // Mail / Rcpt: address kind "asc" | "idn" | "nl"
	An   int    `json:"an"`   // Rcpt: recipient number
	Utf8 bool   `json:"utf8"` // Mail: SMTPUTF8 requested
	Rtls bool   `json:"rtls"` // Mail: REQUIRETLS requested
	Size bool   `json:"size"` // Mail: SIZE given
	Body string `json:"body"` // Data: "ok" | "fail" (the body reader fails half-way)
}

type Step struct {
	C  string   `json:"c"`
	A  Args     `json:"a"`
	Rs []string `json:"rs"` // reply kinds for the reply slots of this call, in order
}

type Cfg struct {
	Lmtp bool     `json:"lmtp"`
	Ext  []string `json:"ext"`
	Extn string   `json:"extn"` // name of the extension set in the specification
	Cert string   `json:"cert"` // "valid" | "bad"
}

type Beh struct {
	ID    int    `json:"id"`
	Cfg   Cfg    `json:"cfg"`
	Steps []Step `json:"steps"`
}

const (
	cmdTimeout = 300 * time.Second
	subTimeout = 720 * time.Second
	lateCmd    = 360 * time.Second
	lateDot    = 780 * time.Second
	sentinel   = "END-OF-BODY"
	mxHost     = "mx.example.invalid"
)

// lastDataErr keeps the error of the latest Data call (used by the stand-alone reproductions).
var lastDataErr error

var tokRe = regexp.MustCompile(`\br(\d+)\b`)

func tokensOf(s string) []int {
	var out []int
	for _, m := range tokRe.FindAllStringSubmatch(s, -1) {
		n, _ := strconv.Atoi(m[1])
		dup := false
		for _, x := range out {
			dup = dup || x == n
		}
		if !dup {
			out = append(out, n)
		}
	}
	return out
}

// classOf maps an error to (class, code, reply id): class "ok" | "temp" | "perm" |
// "unspec" (no Temporary() annotation anywhere in the chain).
func classOf(err error) (cls string, code int, id int) {
	if err == nil {
		return "ok", 0, 0
	}
	cls = "unspec"
	var t exterrors.TemporaryErr
	if errors.As(err, &t) {
		if t.Temporary() {
			cls = "temp"
		} else {
			cls = "perm"
		}
	}
	var se *exterrors.SMTPError
	var ge *smtp.SMTPError
	text := err.Error()
	if errors.As(err, &se) {
		code = se.Code
		text += " " + se.Message
	} else if errors.As(err, &ge) {
		code = ge.Code
		text += " " + ge.Message
	}
	if ids := tokensOf(text); len(ids) == 1 {
		id = ids[0]
	}
	return cls, code, id
}

type failReader struct {
	first []byte
	done  bool
}

func (f *failReader) Read(p []byte) (int, error) {
	if !f.done {
		f.done = true
		return copy(p, f.first), nil
	}
	return 0, errors.New("scripted: body source failed")
}

type driver struct {
	tr     *vtrace.Tracer
	b      *Beh
	c      *smtpconn.C
	certs  *scripted.SMTPCerts
	mu     sync.Mutex
	srv    *wireServer
	cli    *memConn
	srvs   []*wireServer
	nextID int
	script []string
}

func expectedPayload(p []byte) bool {
	return bytes.HasPrefix(p, []byte("Subject: x06\r\n")) && bytes.HasSuffix(p, []byte(sentinel+"\r\n"))
}

func (d *driver) dial(ctx context.Context, network, addr string) (net.Conn, error) {
	d.mu.Lock()
	defer d.mu.Unlock()
	script := d.script
	d.script = nil
	if len(script) > 0 && script[0] == "dialfail" {
		return nil, &net.OpError{Op: "dial", Net: network, Addr: memAddr(addr), Err: os.NewSyscallError("connect", syscall.ECONNREFUSED)}
	}
	cl, sv := memPipe()
	s := &wireServer{c: sv, raw: sv, lmtp: d.b.Cfg.Lmtp, ext: d.b.Cfg.Ext, lateCmd: lateCmd, lateDot: lateDot,
		expected: expectedPayload, done: make(chan struct{}), nextID: d.nextID}
	if d.srv != nil {
		s.nextID = d.srv.lastID()
	}
	s.emit = func(f map[string]interface{}) { d.tr.Emit("Srv", f) }
	for _, e := range d.b.Cfg.Ext {
		if e == "STARTTLS" {
			class := "valid"
			if d.b.Cfg.Cert == "bad" {
				class = "selfsigned"
			}
			leaf, err := d.certs.Leaf(mxHost, class)
			if err != nil {
				return nil, err
			}
			s.tlsCfg = &tls.Config{Certificates: []tls.Certificate{*leaf}}
		}
	}
	s.SetScript(script)
	d.srv, d.cli = s, cl
	d.srvs = append(d.srvs, s)
	go s.serve()
	return cl, nil
}

func (s *wireServer) lastID() int {
	s.mu.Lock()
	defer s.mu.Unlock()
	return s.nextID
}

type result struct {
	err    error
	didTLS bool
	sts    []map[string]interface{}
	panicV interface{}
	local  string
}

func (d *driver) call(st Step) (res result) {
	ctx := context.Background()
	defer func() {
		if v := recover(); v != nil {
			res.panicV = v
		}
	}()
	c := d.c
	switch st.C {
	case "Connect":
		endp := config.Endpoint{Scheme: "tcp", Host: mxHost, Port: "25"}
		tlsCfg := &tls.Config{RootCAs: d.certs.Pool}
		if st.A.Lmtp {
			res.didTLS, res.err = c.ConnectLMTP(ctx, endp, st.A.Tls, tlsCfg)
		} else {
			res.didTLS, res.err = c.Connect(ctx, endp, st.A.Tls, tlsCfg)
		}
	case "Mail":
		opts := smtp.MailOptions{UTF8: st.A.Utf8, RequireTLS: st.A.Rtls}
		if st.A.Size {
			opts.Size = 4321
		}
		res.err = c.Mail(ctx, mkAddr(st.A.Ak, 0), opts)
	case "Rcpt":
		res.err = c.Rcpt(ctx, mkAddr(st.A.Ak, st.A.An), smtp.RcptOptions{})
	case "Data", "LData":
		hdr := textproto.Header{}
		hdr.Add("Subject", "x06")
		text := "first line\r\n.leading dot\r\n" + strings.Repeat("filler line of the body\r\n", 40) + sentinel + "\r\n"
		var body io.Reader = strings.NewReader(text)
		if st.A.Body == "fail" {
			body = &failReader{first: []byte(text[:200])}
		}
		if st.C == "Data" {
			res.err = c.Data(ctx, hdr, body)
		} else {
			res.err = c.LMTPData(ctx, hdr, body, func(rcpt string, serr *smtp.SMTPError) {
				k, n := classifyAddr(rcpt)
				var e error
				if serr != nil {
					e = serr
				}
				cls, code, id := classOf(e)
				res.sts = append(res.sts, map[string]interface{}{"ak": k, "an": n, "cls": cls, "code": code, "id": id})
			})
		}
	case "Reset":
		// what remote's mxConn.Usable does before a connection is reused
		if c.Client() == nil {
			res.local = "notconnected"
			res.err = errors.New("harness: not connected")
		} else {
			res.err = c.Client().Reset()
		}
	case "Noop":
		res.err = c.Noop()
	case "Close":
		res.err = c.Close()
	case "DirectClose":
		res.err = c.DirectClose()
	default:
		panic("harness: unknown call " + st.C)
	}
	return res
}

// run executes one behaviour inside a synctest bubble.
func run(t *testing.T, b *Beh, tr *vtrace.Tracer) {
	synctest.Test(t, func(t *testing.T) {
		runInBubble(b, tr)
	})
}

func runInBubble(b *Beh, tr *vtrace.Tracer) {
	certs, err := scripted.NewSMTPCerts()
	if err != nil {
		panic(err)
	}
	d := &driver{tr: tr, b: b, certs: certs}
	c := smtpconn.New()
	c.Log = log.Logger{Out: log.NopOutput{}}
	c.Dialer = d.dial
	c.Hostname = clientName
	c.CommandTimeout = cmdTimeout
	c.SubmissionTimeout = subTimeout
	c.ConnectTimeout = cmdTimeout
	d.c = c
	ext := b.Cfg.Ext
	if ext == nil {
		ext = []string{}
	}
	tr.Emit("Cfg", vtrace.Ev{"lmtp": b.Cfg.Lmtp, "ext": ext, "extn": b.Cfg.Extn, "cert": b.Cfg.Cert})
	// The call sequence of a behaviour was chosen by TLC for the results the
	// specification predicts.  When the code under test answers differently the
	// driver keeps to the targets' call language (variable tp of the
	// specification) the way a target would: calls that are not allowed after what
	// actually happened are skipped (after a failed Mail / Reset / Data only Close,
	// no Data without an accepted recipient, ...).
	ts := "new"
	nok, nclose := 0, 0
	allowed := func(c string) bool {
		switch c {
		case "Connect":
			return ts == "new"
		case "Mail":
			return ts == "idle"
		case "Rcpt":
			return ts == "txn"
		case "Data", "LData":
			return ts == "txn" && nok >= 1
		case "Reset":
			return (ts == "txn" || ts == "sentok") && !b.Cfg.Lmtp
		case "Noop", "DirectClose":
			return ts == "idle" || (ts == "new" && nclose >= 1)
		case "Close":
			return ts != "new" || nclose >= 1
		}
		return false
	}
	after := func(c string, ok bool) {
		switch c {
		case "Connect":
			if ok {
				ts = "idle"
			}
		case "Mail":
			ts, nok = "must", 0
			if ok {
				ts = "txn"
			}
		case "Rcpt":
			if ok {
				nok++
			}
		case "Data", "LData":
			ts = "sent"
			if ok && !b.Cfg.Lmtp {
				ts = "sentok"
			}
		case "Reset":
			ts = "must"
			if ok {
				ts = "idle"
			}
		case "Noop":
			if !ok && ts != "new" {
				ts = "must"
			}
		case "Close", "DirectClose":
			ts = "new"
			nclose++
		}
	}
	steps := append([]Step{}, b.Steps...)
	for i := 0; i <= len(steps); i++ {
		if i == len(steps) {
			// a target always ends with Close (Commit / Abort)
			if ts == "new" {
				break
			}
			steps = append(steps, Step{C: "Close", Rs: []string{"ok"}})
		}
		st := steps[i]
		if !allowed(st.C) {
			continue
		}
		rs := st.Rs
		if rs == nil {
			rs = []string{}
		}
		tr.Emit("Call", vtrace.Ev{"c": st.C, "a": st.A, "rs": rs})
		if st.C == "Connect" {
			d.mu.Lock()
			d.script = st.Rs
			if st.A.Dial == "fail" {
				d.script = []string{"dialfail"}
			}
			d.mu.Unlock()
		} else if d.srv != nil {
			d.srv.SetScript(st.Rs)
		}
		start := time.Now()
		done := make(chan result, 1)
		go func() { done <- d.call(st) }()
		var res result
		hung := false
		select {
		case res = <-done:
		case <-time.After(6 * time.Hour):
			hung = true
		}
		dur := int(time.Since(start) / time.Second)
		synctest.Wait()
		cls, code, id := classOf(res.err)
		if st.C == "Data" {
			lastDataErr = res.err
		}
		sts := res.sts
		if sts == nil {
			sts = []map[string]interface{}{}
		}
		open := false
		d.mu.Lock()
		if d.cli != nil {
			open = !d.cli.IsClosed()
		}
		d.mu.Unlock()
		errText := ""
		if res.err != nil {
			errText = res.err.Error()
		}
		var tlsErr smtpconn.TLSError
		tr.Emit("Ret", vtrace.Ev{"c": st.C, "cls": cls, "code": code, "id": id, "sts": sts,
			"panic": res.panicV != nil, "hung": hung, "dur": dur, "connected": c.Client() != nil, "open": open,
			"tlserr": errors.As(res.err, &tlsErr), "didtls": res.didTLS, "err": errText, "pv": fmt.Sprint(res.panicV)})
		if hung {
			break
		}
		after(st.C, res.err == nil && res.panicV == nil)
	}
	// tear down: whatever the client left open is closed by the harness
	d.mu.Lock()
	cli := d.cli
	srvs := d.srvs
	d.mu.Unlock()
	open := cli != nil && !cli.IsClosed()
	if cli != nil {
		cli.Close()
	}
	for _, s := range srvs {
		s.raw.Close()
		<-s.done
	}
	tr.Emit("End", vtrace.Ev{"open": open})
}

// ---- TestReplay -------------------------------------------------------------------

func TestReplay(t *testing.T) {
	in, out := os.Getenv("VERIF_IN"), os.Getenv("VERIF_OUT")
	if in == "" || out == "" {
		t.Skip("VERIF_IN / VERIF_OUT not set")
	}
	fi, err := os.Open(in)
	if err != nil {
		t.Fatal(err)
	}
	defer fi.Close()
	fo, err := os.Create(out)
	if err != nil {
		t.Fatal(err)
	}
	defer fo.Close()
	w := bufio.NewWriter(fo)
	defer w.Flush()
	sc := bufio.NewScanner(fi)
	sc.Buffer(make([]byte, 1<<20), 1<<26)
	for sc.Scan() {
		line := bytes.TrimSpace(sc.Bytes())
		if len(line) == 0 {
			continue
		}
		var b Beh
		if err := json.Unmarshal(line, &b); err != nil {
			t.Fatalf("bad behaviour: %v", err)
		}
		tr := vtrace.New(w, b.ID)
		run(t, &b, tr)
	}
	if err := sc.Err(); err != nil {
		t.Fatal(err)
	}
}
