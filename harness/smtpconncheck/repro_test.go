package smtpconncheck

// Stand-alone reproductions of the findings of extension X06 on the real code
// (go1.26 test -tags verif -run 'TestRepro' -v ./smtpconncheck in /verif/harness).
// They only print what happens; the verdicts are the business of bin/check X06.

import (
	"encoding/json"
	"errors"
	"fmt"
	"testing"

	"github.com/emersion/go-smtp"
	smtpep "github.com/foxcpp/maddy/internal/endpoint/smtp"
	"github.com/foxcpp/maddy/verifharness/vtrace"
)

func reproRun(t *testing.T, src string) []vtrace.Ev {
	var b Beh
	if err := json.Unmarshal([]byte(src), &b); err != nil {
		t.Fatal(err)
	}
	tr := vtrace.New(nil, 1)
	tr.Keep = true
	run(t, &b, tr)
	for _, e := range tr.Evs {
		switch e["e"] {
		case "Call":
			fmt.Printf("CALL %v %v\n", e["c"], e["rs"])
		case "Srv":
			fmt.Printf("     next hop got %-5v %-8v %v%v -> reply r%v kind %v\n", e["k"], e["verb"], e["ak"], e["an"], e["id"], e["r"])
		case "Ret":
			fmt.Printf("  => class=%v code=%v built-from-reply=r%v waited=%vs panic=%v Client()!=nil:%v conn-open:%v  %v\n",
				e["cls"], e["code"], e["id"], e["dur"], e["panic"], e["connected"], e["open"], e["err"])
		}
	}
	return tr.Evs
}

// X06-F1: RCPT 1 is answered (250) after command_timeout; everything after it is shifted by one:
// recipient 2 (refused with 550) is reported accepted, recipient 3 (accepted) gets 2's 550, DATA
// fails permanently with recipient 3's "250".
func TestReproF1(t *testing.T) {
	evs := reproRun(t, `{"id":1,"cfg":{"lmtp":false,"ext":["SMTPUTF8","8BITMIME"],"extn":"utf8","cert":"valid"},"steps":[
 {"c":"Connect","a":{"dial":"ok"},"rs":["ok","ok"]},
 {"c":"Mail","a":{"ak":"asc"},"rs":["ok"]},
 {"c":"Rcpt","a":{"ak":"asc","an":1},"rs":["lok"]},
 {"c":"Rcpt","a":{"ak":"asc","an":2},"rs":["p5"]},
 {"c":"Rcpt","a":{"ak":"asc","an":3},"rs":["ok"]},
 {"c":"Data","a":{"body":"ok"},"rs":["ok","ok"]},
 {"c":"Close","a":{},"rs":["ok"]}]}`)
	// what the SMTP endpoint answers its own client when Body fails with the error Data returned
	for _, e := range evs {
		if e["e"] == "Ret" && e["c"] == "Data" {
			var se *smtp.SMTPError
			if errors.As(smtpep.VerifWrapErr("", false, "DATA", lastDataErr), &se) {
				fmt.Printf("endpoint/smtp would answer its client's DATA with: %d %v %s\n", se.Code, se.EnhancedCode, se.Message)
			}
		}
	}
}

// X06-F2: LHLO refused with 500, the LMTP client goes on with HELO.
func TestReproF2(t *testing.T) {
	reproRun(t, `{"id":1,"cfg":{"lmtp":true,"ext":[],"extn":"none","cert":"valid"},"steps":[
 {"c":"Connect","a":{"dial":"ok","lmtp":true},"rs":["ok","e500","ok"]},
 {"c":"Mail","a":{"ak":"asc"},"rs":["ok"]},
 {"c":"Close","a":{},"rs":["ok"]}]}`)
}

// X06-F3 / F4: Close after Close; Close whose QUIT is refused.
func TestReproF3F4(t *testing.T) {
	reproRun(t, `{"id":1,"cfg":{"lmtp":false,"ext":[],"extn":"none","cert":"valid"},"steps":[
 {"c":"Connect","a":{"dial":"ok"},"rs":["ok","ok"]},
 {"c":"Close","a":{},"rs":["t4"]},
 {"c":"Connect","a":{"dial":"ok"},"rs":["ok","ok"]},
 {"c":"Close","a":{},"rs":["ok"]},
 {"c":"Close","a":{},"rs":[]}]}`)
}
