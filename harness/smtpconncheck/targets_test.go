package smtpconncheck

// Second slice of X06: the rows of spec/SmtpClientTargets.tla (printed by TLC)
// are run through the real delivery targets - target.smtp, target.lmtp and
// target.remote, which are the users of internal/smtpconn - against the shared
// scripted.SMTPServer on loopback TCP.  What every next hop received, in order
// and per connection, is recorded in the event vocabulary of the client slice
// (Srv / k = "cmd" | "content") so that TLC folds the same SmtpClientObs
// operators over it (spec/SmtpClientTargetsTrace.tla).
//
// Input  (VERIF_IN):  {"id":N,"row":{kind,rcpts:[{hop,r}],data,dot,commit},"data1":bool,"data2":bool}
// Output (VERIF_OUT): Cfg, Srv*, End(data1, data2, saw1, saw2)

import (
	"bufio"
	"bytes"
	"context"
	"encoding/json"
	"fmt"
	"net"
	"os"
	"strings"
	"sync"
	"testing"
	"time"

	"github.com/emersion/go-message/textproto"
	"github.com/emersion/go-smtp"
	"github.com/foxcpp/maddy/framework/buffer"
	"github.com/foxcpp/maddy/framework/config"
	"github.com/foxcpp/maddy/framework/log"
	"github.com/foxcpp/maddy/framework/module"
	"github.com/foxcpp/maddy/internal/smtpconn/pool"
	"github.com/foxcpp/maddy/internal/target/remote"
	smtp_downstream "github.com/foxcpp/maddy/internal/target/smtp"
	"github.com/foxcpp/maddy/verifharness/scripted"
	"github.com/foxcpp/maddy/verifharness/vtrace"
)

type TRcpt struct {
	Hop int    `json:"hop"`
	R   string `json:"r"`
}

type TRow struct {
	Kind   string  `json:"kind"`
	Rcpts  []TRcpt `json:"rcpts"`
	Data   string  `json:"data"`
	Dot    string  `json:"dot"`
	Commit bool    `json:"commit"`
}

type TIn struct {
	ID    int  `json:"id"`
	Row   TRow `json:"row"`
	Data1 bool `json:"data1"`
	Data2 bool `json:"data2"`
}

const harnessBudget = 120 * time.Second

type hopResolver struct{}

func hopOfDomain(name string) int {
	if strings.HasPrefix(strings.ToLower(name), "example2.") {
		return 2
	}
	return 1
}

func (hopResolver) LookupMX(ctx context.Context, name string) ([]*net.MX, error) {
	return []*net.MX{{Host: fmt.Sprintf("mx%d.test.invalid.", hopOfDomain(name)), Pref: 10}}, nil
}
func (hopResolver) LookupAddr(ctx context.Context, addr string) ([]string, error) { return nil, nil }
func (hopResolver) LookupHost(ctx context.Context, host string) ([]string, error) {
	return []string{"127.0.0.1"}, nil
}
func (hopResolver) LookupTXT(ctx context.Context, name string) ([]string, error) { return nil, nil }
func (hopResolver) LookupIPAddr(ctx context.Context, host string) ([]net.IPAddr, error) {
	return []net.IPAddr{{IP: net.IPv4(127, 0, 0, 1)}}, nil
}

func sreply(r string, perm int) scripted.SMTPReply {
	switch r {
	case "t4":
		return scripted.SMTPReply{Code: 451}
	case "p5":
		return scripted.SMTPReply{Code: perm}
	}
	return scripted.SMTPReply{}
}

var hops = map[string]*scripted.SMTPServer{}

func hopServer(t *testing.T, hop int, lmtp bool, emit func(string, map[string]interface{})) *scripted.SMTPServer {
	key := fmt.Sprintf("%d/%v", hop, lmtp)
	srv := hops[key]
	if srv == nil {
		var err error
		srv, err = scripted.NewSMTPServer(scripted.SMTPServerConfig{Name: fmt.Sprintf("h%d", hop),
			Hostname: fmt.Sprintf("mx%d.test.invalid", hop), LMTP: lmtp})
		if err != nil {
			t.Fatal(err)
		}
		hops[key] = srv
	}
	if !srv.WaitIdle(20 * time.Second) {
		t.Fatalf("HARNESS-TIMEOUT next hop %s still has open connections", key)
	}
	srv.Reconfigure(func(c *scripted.SMTPServerConfig) { c.Emit = emit })
	return srv
}

type nullStatus struct{}

func (nullStatus) SetStatus(string, error) {}

func runTargetRow(t *testing.T, in TIn, out *bufio.Writer) {
	start := time.Now()
	row := in.Row
	tr := vtrace.New(out, in.ID)
	lmtp := row.Kind == "lmtp"
	tr.Emit("Cfg", vtrace.Ev{"kind": row.Kind, "lmtp": lmtp, "ext": []string{"8BITMIME", "ENHANCEDSTATUSCODES", "SMTPUTF8", "HELP"}})
	ctx, cancel := context.WithTimeout(context.Background(), harnessBudget)
	defer cancel()
	nolog := log.Logger{Out: log.NopOutput{}}

	var mu sync.Mutex
	saw := map[int]bool{}
	snet := scripted.NewSMTPNet()
	servers := map[int]*scripted.SMTPServer{}
	nhops := 1
	if row.Kind == "remote" {
		nhops = 2
	}
	for h := 1; h <= nhops; h++ {
		h := h
		emit := func(e string, f map[string]interface{}) {
			conn := fmt.Sprintf("h%d-%v", h, f["conn"])
			switch e {
			case "SrvCmd":
				verb, _ := f["verb"].(string)
				arg, _ := f["arg"].(string)
				code, _ := f["code"].(int)
				par := []string{}
				if verb == "MAIL" || verb == "RCPT" {
					_, _, rest := parseAddr(arg)
					for _, p := range strings.Fields(rest) {
						if i := strings.IndexByte(p, '='); i >= 0 && strings.ToUpper(p[:i]) == "SIZE" {
							p = "SIZE"
						}
						par = append(par, strings.ToUpper(p))
					}
				}
				r := "ok"
				switch {
				case code < 0:
					r = "drop"
				case code == 503:
					r = "seq"
				case code/100 == 4:
					r = "t4"
				case code/100 == 5:
					r = "p5"
				}
				if verb == "DATA" {
					mu.Lock()
					saw[h] = true
					mu.Unlock()
				}
				tr.Emit("Srv", vtrace.Ev{"conn": conn, "k": "cmd", "verb": verb, "hn": "", "par": par, "ak": "asc", "an": 0, "id": 0,
					"r": r, "tls": false, "full": false, "i": 0})
			case "SrvData":
				n, _ := f["bytes"].(int)
				tr.Emit("Srv", vtrace.Ev{"conn": conn, "k": "content", "verb": "", "hn": "", "par": []string{}, "ak": "", "an": 0, "id": 0,
					"r": "", "tls": false, "full": n == len(targetPayload()), "i": 0})
			}
		}
		srv := hopServer(t, h, lmtp, emit)
		script := scripted.SMTPTxn{Data: sreply(row.Data, 554), Dot: sreply(row.Dot, 554)}
		for _, rc := range row.Rcpts {
			if rc.Hop == h {
				script.Rcpt = append(script.Rcpt, sreply(rc.R, 550))
				if lmtp {
					script.LMTPDot = append(script.LMTPDot, sreply(row.Dot, 554))
				}
			}
		}
		srv.SetSelect(func(from string, n int) *scripted.SMTPTxn { s := script; return &s })
		servers[h] = srv
		snet.Add(fmt.Sprintf("mx%d.test.invalid", h), srv)
	}

	var tgt module.DeliveryTarget
	closeTgt := func() {}
	switch row.Kind {
	case "remote":
		rt := remote.VerifRemoteNewTarget(remote.VerifRemoteConfig{
			Hostname: "client.example.org",
			Resolver: hopResolver{},
			Dialer:   snet.DialContext,
			Pool: pool.Config{MaxKeys: 5000, MaxConnsPerKey: 5, MaxConnLifetimeSec: 150,
				StaleKeyLifetimeSec: 300},
			ConnReuseLimit:    10,
			RelaxedREQUIRETLS: true,
			ConnectTimeout:    20 * time.Second,
			CommandTimeout:    20 * time.Second,
			SubmissionTimeout: 20 * time.Second,
			Log:               nolog,
		})
		closeTgt = func() { rt.Close() }
		tgt = rt
	case "smtp", "lmtp":
		mod, err := smtp_downstream.NewDownstream("target."+row.Kind, "verif", nil, []string{"tcp://" + servers[1].Addr()})
		if err != nil {
			t.Fatal(err)
		}
		err = mod.Init(config.NewMap(map[string]interface{}{"hostname": "client.example.org"}, config.Node{
			Children: []config.Node{
				{Name: "starttls", Args: []string{"no"}},
				{Name: "connect_timeout", Args: []string{"20s"}},
				{Name: "command_timeout", Args: []string{"20s"}},
				{Name: "submission_timeout", Args: []string{"20s"}},
			},
		}))
		if err != nil {
			t.Fatal(err)
		}
		tgt = mod.(module.DeliveryTarget)
	default:
		t.Fatalf("unknown kind %q", row.Kind)
	}

	meta := &module.MsgMetadata{ID: fmt.Sprintf("r%d", in.ID), OriginalFrom: "x0@sender.invalid", SMTPOpts: smtp.MailOptions{}}
	d, err := tgt.Start(ctx, meta, "x0@sender.invalid")
	if err != nil {
		t.Fatalf("row %d: Start failed: %v", in.ID, err)
	}
	accepted := 0
	for i, rc := range row.Rcpts {
		dom := "example.invalid"
		if rc.Hop == 2 {
			dom = "example2.invalid"
		}
		if err := d.AddRcpt(ctx, fmt.Sprintf("x%d@%s", i+1, dom), smtp.RcptOptions{}); err == nil {
			accepted++
		}
	}
	if accepted == 0 || !row.Commit {
		d.Abort(ctx)
	} else {
		hdr := textproto.Header{}
		hdr.Add("Subject", "x06")
		body := buffer.MemoryBuffer{Slice: targetBody()}
		if pd, ok := d.(module.PartialDelivery); ok {
			pd.BodyNonAtomic(ctx, nullStatus{}, hdr, body)
		} else {
			d.Body(ctx, hdr, body)
		}
		d.Commit(ctx)
	}
	closeTgt()
	for _, srv := range servers {
		if !srv.WaitIdle(20 * time.Second) {
			t.Fatalf("HARNESS-TIMEOUT row %d: next hop still has open connections", in.ID)
		}
	}
	mu.Lock()
	s1, s2 := saw[1], saw[2]
	mu.Unlock()
	tr.Emit("End", vtrace.Ev{"data1": in.Data1, "data2": in.Data2, "saw1": s1, "saw2": s2})
	if snet.TimedOut || time.Since(start) > harnessBudget || ctx.Err() != nil {
		t.Fatalf("HARNESS-TIMEOUT row %d took %v", in.ID, time.Since(start))
	}
}

func targetBody() []byte {
	return []byte("first line\r\n.leading dot\r\n" + sentinel + "\r\n")
}

func targetPayload() []byte {
	return append([]byte("Subject: x06\r\n\r\n"), targetBody()...)
}

func TestReplayTargets(t *testing.T) {
	in, out := os.Getenv("VERIF_IN"), os.Getenv("VERIF_OUT")
	if in == "" || out == "" {
		t.Skip("VERIF_IN / VERIF_OUT not set")
	}
	fi, err := os.Open(in)
	if err != nil {
		t.Fatal(err)
	}
	defer fi.Close()
	fo, err := os.Create(out)
	if err != nil {
		t.Fatal(err)
	}
	defer fo.Close()
	w := bufio.NewWriter(fo)
	defer w.Flush()
	sc := bufio.NewScanner(fi)
	sc.Buffer(make([]byte, 1<<20), 1<<26)
	for sc.Scan() {
		line := bytes.TrimSpace(sc.Bytes())
		if len(line) == 0 {
			continue
		}
		var r TIn
		if err := json.Unmarshal(line, &r); err != nil {
			t.Fatalf("bad row: %v", err)
		}
		runTargetRow(t, r, w)
	}
	for _, s := range hops {
		s.Close()
	}
}
