// Package simplecheckscheck runs the rows of spec/SimpleChecks.tla and the
// behaviours of spec/CmdCheck.tla (both printed by TLC) through the real
// require_tls / require_matching_rdns / require_mx_record checks and the real
// check.command module of maddy, and records what they did (extension X14).
//
// Simple checks ("sub":"simple"), one Row event per row:
//
//   - level "module": the module is created through maddy's registry under its
//     documented name and initialised from a configuration block
//     (modconfig.MessageCheck, what a check block does); the four stage methods
//     of its per-message state are called once each.
//   - level "pipeline": the check is written in the check block of a real
//     msgpipeline built from configuration text; one message goes through
//     Start / AddRcpt / Body / Commit to a recording target.
//
// DNS is a go-mockdns resolver serving the row's zone (MX of the sender's
// domain, PTR of the client address) behind a recorder; the reverse lookup is
// done by the SMTP endpoint's own fetchRDNSName (export shim VerifFetchRDNS),
// the check's resolver is replaced through the shim VerifSetResolver.
//
// check.command ("sub":"cmd"): the module is configured from configuration
// text inside a real msgpipeline; the command is this test binary (see
// helper_test.go), which records its argv and stdin.  Events: Cfg, one Pipe
// per pipeline command (answer + the executions that happened during it), End.
//
// Input  (VERIF_IN):  {"id":N,"sub":"simple","in":{...}} | {"id":N,"sub":"cmd","sc":{...}}
// Output (VERIF_OUT): NDJSON events, trace number "t" = id.
package simplecheckscheck

import (
	"bufio"
	"bytes"
	"context"
	"crypto/tls"
	"encoding/json"
	"errors"
	"fmt"
	"io"
	"net"
	"os"
	"path/filepath"
	"strings"
	"sync"
	"testing"
	"time"

	"github.com/emersion/go-message/textproto"
	"github.com/emersion/go-smtp"
	"github.com/foxcpp/go-mockdns"
	"github.com/foxcpp/maddy/framework/address"
	"github.com/foxcpp/maddy/framework/buffer"
	parser "github.com/foxcpp/maddy/framework/cfgparser"
	"github.com/foxcpp/maddy/framework/config"
	modconfig "github.com/foxcpp/maddy/framework/config/module"
	"github.com/foxcpp/maddy/framework/exterrors"
	"github.com/foxcpp/maddy/framework/future"
	"github.com/foxcpp/maddy/framework/log"
	"github.com/foxcpp/maddy/framework/module"
	"github.com/foxcpp/maddy/internal/check"
	_ "github.com/foxcpp/maddy/internal/check/command"
	_ "github.com/foxcpp/maddy/internal/check/dns"
	_ "github.com/foxcpp/maddy/internal/check/requiretls"
	smtpendp "github.com/foxcpp/maddy/internal/endpoint/smtp"
	"github.com/foxcpp/maddy/internal/msgpipeline"
	"github.com/foxcpp/maddy/verifharness/vtrace"
	"golang.org/x/net/idna"
)

// ---- log capture -------------------------------------------------------------------------

type logCap struct {
	mu    sync.Mutex
	lines []string
}

func (l *logCap) Write(_ time.Time, debug bool, msg string) {
	if debug {
		return
	}
	l.mu.Lock()
	if len(msg) > 600 {
		msg = msg[:600]
	}
	l.lines = append(l.lines, msg)
	l.mu.Unlock()
}
func (l *logCap) Close() error { return nil }
func (l *logCap) take() []string {
	l.mu.Lock()
	defer l.mu.Unlock()
	r := l.lines
	l.lines = nil
	return r
}

// ---- recording target --------------------------------------------------------------------

type seenMsg struct {
	hdr        []byte
	body       bool
	committed  bool
	quarantine bool
	rcpts      []string
}

type tgt struct {
	mu   sync.Mutex
	msgs map[string]*seenMsg
}

func (t *tgt) Init(*config.Map) error { return nil }
func (t *tgt) Name() string           { return "x14_target" }
func (t *tgt) InstanceName() string   { return "x14_target" }
func (t *tgt) get(id string) *seenMsg {
	t.mu.Lock()
	defer t.mu.Unlock()
	s := t.msgs[id]
	if s == nil {
		s = &seenMsg{rcpts: []string{}}
		t.msgs[id] = s
	}
	return s
}
func (t *tgt) take(id string) *seenMsg {
	t.mu.Lock()
	defer t.mu.Unlock()
	s := t.msgs[id]
	delete(t.msgs, id)
	return s
}
func (t *tgt) Start(_ context.Context, m *module.MsgMetadata, _ string) (module.Delivery, error) {
	return &tgtDelivery{t: t, m: m}, nil
}

type tgtDelivery struct {
	t *tgt
	m *module.MsgMetadata
}

func (d *tgtDelivery) AddRcpt(_ context.Context, r string, _ smtp.RcptOptions) error {
	s := d.t.get(d.m.ID)
	s.rcpts = append(s.rcpts, r)
	return nil
}
func (d *tgtDelivery) Body(_ context.Context, h textproto.Header, _ buffer.Buffer) error {
	s := d.t.get(d.m.ID)
	var b bytes.Buffer
	_ = textproto.WriteHeader(&b, h)
	s.hdr = b.Bytes()
	s.body = true
	s.quarantine = d.m.Quarantine
	return nil
}
func (d *tgtDelivery) Abort(context.Context) error { return nil }
func (d *tgtDelivery) Commit(context.Context) error {
	s := d.t.get(d.m.ID)
	s.committed = true
	s.quarantine = s.quarantine || d.m.Quarantine
	return nil
}

// ---- the world -----------------------------------------------------------------------------

var (
	theTgt   = &tgt{msgs: map[string]*seenMsg{}}
	theLog   = &logCap{}
	regOnce  sync.Once
	tmpDir   string
	selfExe  string
	origPath string
	// the resolver the next stateless check created through the x14_ wrapper gets
	curResolver *recResolver
)

var simpleChecks = []string{"require_tls", "require_matching_rdns", "require_mx_record"}

func register(t *testing.T) {
	regOnce.Do(func() {
		log.DefaultLogger.Out = theLog
		module.RegisterInstance(theTgt, nil)
		tmpDir = os.Getenv("VERIF_TMP")
		if tmpDir == "" {
			tmpDir = os.TempDir()
		}
		var err error
		selfExe, err = os.Executable()
		if err != nil {
			t.Fatal(err)
		}
		origPath = os.Getenv("PATH")
		// the real modules under a second configuration name: created by the factory
		// maddy registered under the documented name, initialised by their own Init
		// from the real configuration tree; only the resolver is replaced
		for _, name := range simpleChecks {
			name := name
			module.Register("check.x14_"+name, func(_, instName string, aliases, inlineArgs []string) (module.Module, error) {
				f := module.Get("check." + name)
				if f == nil {
					f = module.Get(name)
				}
				if f == nil {
					return nil, fmt.Errorf("x14: no module registered under %s", name)
				}
				m, err := f(name, instName, aliases, inlineArgs)
				if err != nil {
					return nil, err
				}
				if !check.VerifSetResolver(m, curResolver, theLog) {
					return nil, fmt.Errorf("x14: %s is not a stateless check", name)
				}
				return m, nil
			})
		}
	})
}

// ---- DNS ----------------------------------------------------------------------------------------

type Query struct {
	T     string `json:"t"`
	Q     string `json:"q"`
	ASCII bool   `json:"ascii"`
}

// recResolver serves a go-mockdns zone like a real resolver would: names exist
// in ASCII only (a non-ASCII query name is answered "no such host", which is
// what Go's resolver does without asking anybody), and - flavour "go" - an
// answer without records is a "no such host" error.
type recResolver struct {
	inner   *mockdns.Resolver
	flavour string
	mu      sync.Mutex
	qs      []Query
}

func isASCII(s string) bool {
	for i := 0; i < len(s); i++ {
		if s[i] >= 0x80 {
			return false
		}
	}
	return true
}

func canonName(name string) string {
	n := strings.ToLower(strings.TrimSuffix(name, "."))
	if !isASCII(n) {
		if a, err := idna.ToASCII(n); err == nil {
			n = strings.ToLower(a)
		}
	}
	return n
}

func nxErr(name string) error {
	return &net.DNSError{Err: "no such host", Name: name, Server: "x14", IsNotFound: true}
}

func (r *recResolver) note(t, name string) bool {
	r.mu.Lock()
	r.qs = append(r.qs, Query{t, canonName(name), isASCII(name)})
	r.mu.Unlock()
	return isASCII(name)
}
func (r *recResolver) queries() []Query {
	r.mu.Lock()
	defer r.mu.Unlock()
	return append([]Query{}, r.qs...)
}

func (r *recResolver) LookupAddr(ctx context.Context, addr string) ([]string, error) {
	r.note("PTR", addr)
	names, err := r.inner.LookupAddr(ctx, addr)
	if err == nil && len(names) == 0 && r.flavour == "go" {
		return nil, nxErr(addr)
	}
	return names, err
}
func (r *recResolver) LookupMX(ctx context.Context, name string) ([]*net.MX, error) {
	if !r.note("MX", name) {
		return nil, nxErr(name)
	}
	mx, err := r.inner.LookupMX(ctx, name)
	if err == nil && len(mx) == 0 && r.flavour == "go" {
		return nil, nxErr(name)
	}
	return mx, err
}
func (r *recResolver) LookupHost(ctx context.Context, host string) ([]string, error) {
	if !r.note("A", host) {
		return nil, nxErr(host)
	}
	return r.inner.LookupHost(ctx, host)
}
func (r *recResolver) LookupTXT(ctx context.Context, name string) ([]string, error) {
	if !r.note("TXT", name) {
		return nil, nxErr(name)
	}
	return r.inner.LookupTXT(ctx, name)
}
func (r *recResolver) LookupIPAddr(ctx context.Context, host string) ([]net.IPAddr, error) {
	if !r.note("A", host) {
		return nil, nxErr(host)
	}
	return r.inner.LookupIPAddr(ctx, host)
}

func dnsFail(k string) error {
	if k == "temp" {
		return &net.DNSError{Err: "server misbehaving", Server: "x14", IsTemporary: true}
	}
	return &net.DNSError{Err: "server misbehaving", Server: "x14"}
}

// ---- rows of SimpleChecks.tla -------------------------------------------------------------------

type Dom struct {
	Name   string `json:"name"`
	Canon  string `json:"canon"`
	UCanon string `json:"ucanon"`
	UTF8   bool   `json:"utf8"`
	Dot    bool   `json:"dot"`
}

// spelled returns the domain as the peer writes it.
func (d Dom) spelled(t *testing.T) string {
	n := d.Name
	if d.UTF8 {
		u, err := idna.ToUnicode(strings.ToLower(n))
		if err != nil || u == n {
			t.Fatalf("row wants a U-label spelling of %q: %v", n, err)
		}
		n = u
	}
	if d.Dot {
		n += "."
	}
	if n != "" && !strings.HasPrefix(n, "[") && canonName(n) != d.Canon {
		t.Fatalf("canonical form of %q is %q, the row says %q", n, canonName(n), d.Canon)
	}
	return n
}

type SimpleIn struct {
	Tab   string `json:"tab"`
	Check string `json:"check"`
	Level string `json:"level"`
	Place string `json:"place"`
	Fa    struct {
		Given bool   `json:"given"`
		Act   string `json:"act"`
	} `json:"fa"`
	Conn struct {
		Kind string `json:"kind"`
		TLS  bool   `json:"tls"`
		Helo Dom    `json:"helo"`
		Ptr  struct {
			K     string `json:"k"`
			Names []Dom  `json:"names"`
		} `json:"ptr"`
	} `json:"conn"`
	From struct {
		Kind  string `json:"kind"`
		Local string `json:"local"`
		Dom   Dom    `json:"dom"`
	} `json:"from"`
	Mx struct {
		K     string   `json:"k"`
		Hosts []string `json:"hosts"`
	} `json:"mx"`
	Res   string `json:"res"`
	NRcpt int    `json:"nrcpt"`
}

type SimpleOut struct {
	Failed  bool     `json:"failed"`
	Act     string   `json:"act"`
	Stage   string   `json:"stage"`
	Others  []string `json:"others"`
	Code    int      `json:"code"`
	Temp    bool     `json:"temp"`
	Enchc   int      `json:"enchc"`
	Queries []Query  `json:"queries"`
	// not part of the verdict
	Msg   string   `json:"msg"`
	Cfg   string   `json:"cfg"`
	PtrQ  []Query  `json:"ptrq"`
	Log   []string `json:"log"`
	Panic string   `json:"panic"`
	Note  string   `json:"note"`
}

func clientAddr(kind string) net.Addr {
	switch kind {
	case "tcp4":
		return &net.TCPAddr{IP: net.IPv4(192, 0, 2, 7).To4(), Port: 41014}
	case "tcp6":
		return &net.TCPAddr{IP: net.ParseIP("2001:db8::7"), Port: 41014}
	case "unix":
		return &net.UnixAddr{Name: "/run/x14/client.sock", Net: "unix"}
	}
	return nil
}

func reasonOf(o *SimpleOut, err error) {
	var se *exterrors.SMTPError
	if errors.As(err, &se) {
		o.Code = se.Code
		o.Enchc = int(se.EnhancedCode[0])
		o.Msg = se.Message
	}
	o.Temp = exterrors.IsTemporary(err)
}

func simpleFrom(t *testing.T, in SimpleIn) string {
	switch in.From.Kind {
	case "null":
		return ""
	case "addr":
		return in.From.Local + "@" + in.From.Dom.spelled(t)
	}
	return in.From.Local
}

func simpleCheckBlock(in SimpleIn, ind string) string {
	var b strings.Builder
	b.WriteString(ind + "check {\n" + ind + "    x14_" + in.Check + " {\n")
	if in.Fa.Given {
		b.WriteString(ind + "        fail_action " + in.Fa.Act + "\n")
	}
	b.WriteString(ind + "    }\n" + ind + "}\n")
	return b.String()
}

const deliver = "deliver_to &x14_target\n"

func simplePipelineCfg(in SimpleIn) string {
	switch in.Place {
	case "global":
		return simpleCheckBlock(in, "") + deliver
	case "source":
		return "source " + in.From.Dom.Canon + " {\n" + simpleCheckBlock(in, "    ") + "    " + deliver + "}\n" +
			"default_source {\n    " + deliver + "}\n"
	case "destination":
		return "destination rcpt.test {\n" + simpleCheckBlock(in, "    ") + "    " + deliver + "}\n" +
			"default_destination {\n    " + deliver + "}\n"
	}
	panic("unknown place " + in.Place)
}

func plainHeader() textproto.Header {
	h, err := textproto.ReadHeader(bufio.NewReader(strings.NewReader("From: <a@sender.test>\r\nSubject: verif\r\n\r\n")))
	if err != nil {
		panic(err)
	}
	return h
}

func runSimple(t *testing.T, id int, in SimpleIn) (o SimpleOut) {
	o.Others, o.Queries, o.PtrQ, o.Log = []string{}, []Query{}, []Query{}, []string{}
	o.Act, o.Stage = "none", "none"
	theLog.take()
	defer func() {
		if e := recover(); e != nil {
			o.Panic = fmt.Sprint(e)
			o.Act = "panic"
		}
		for _, l := range theLog.take() {
			if len(o.Log) < 6 {
				o.Log = append(o.Log, l)
			}
		}
	}()
	ctx := context.Background()

	// the zone: MX of the sender's domain, PTR of the client address (ASCII names only, as in the DNS)
	zones := map[string]mockdns.Zone{}
	if in.From.Kind == "addr" {
		name := in.From.Dom.Canon + "."
		switch in.Mx.K {
		case "mx":
			z := mockdns.Zone{A: []string{"192.0.2.10"}}
			for k, h := range in.Mx.Hosts {
				z.MX = append(z.MX, net.MX{Host: h, Pref: uint16(10 * (k + 1))})
			}
			zones[name] = z
		case "nomx":
			zones[name] = mockdns.Zone{A: []string{"192.0.2.10"}}
		case "temp", "perm":
			zones[name] = mockdns.Zone{Err: dnsFail(in.Mx.K)}
		case "nx":
		default:
			t.Fatalf("row %d: unknown mx kind %q", id, in.Mx.K)
		}
	}
	remote := clientAddr(in.Conn.Kind)
	if tcp, ok := remote.(*net.TCPAddr); ok {
		arpa, err := reverseName(tcp.IP)
		if err != nil {
			t.Fatal(err)
		}
		switch in.Conn.Ptr.K {
		case "names":
			z := mockdns.Zone{}
			for _, n := range in.Conn.Ptr.Names {
				z.PTR = append(z.PTR, n.spelled(t))
			}
			zones[arpa] = z
		case "empty":
			zones[arpa] = mockdns.Zone{}
		case "temp", "perm":
			zones[arpa] = mockdns.Zone{Err: dnsFail(in.Conn.Ptr.K)}
		case "nx", "off":
		default:
			t.Fatalf("row %d: unknown ptr kind %q", id, in.Conn.Ptr.K)
		}
	}
	endpRes := &recResolver{inner: &mockdns.Resolver{Zones: zones}, flavour: in.Res}
	chkRes := &recResolver{inner: &mockdns.Resolver{Zones: zones}, flavour: in.Res}

	// the session, as internal/endpoint/smtp fills it in
	var conn *module.ConnState
	if in.Conn.Kind != "nil" {
		conn = &module.ConnState{
			Proto:      "ESMTP",
			Hostname:   in.Conn.Helo.spelled(t),
			LocalAddr:  &net.TCPAddr{IP: net.IPv4(198, 51, 100, 1), Port: 25},
			RemoteAddr: remote,
		}
		if in.Conn.TLS {
			conn.Proto = "ESMTPS"
			conn.TLS = tls.ConnectionState{HandshakeComplete: true, Version: tls.VersionTLS13, CipherSuite: tls.TLS_AES_128_GCM_SHA256}
		}
		if in.Conn.Ptr.K != "off" {
			// the endpoint's own reverse lookup
			conn.RDNSName = smtpendp.VerifFetchRDNS(ctx, endpRes, remote)
		}
	}
	o.PtrQ = endpRes.queries()
	from := simpleFrom(t, in)
	meta := &module.MsgMetadata{ID: fmt.Sprintf("x14row%d", id), Conn: conn, OriginalFrom: from,
		SMTPOpts: smtp.MailOptions{UTF8: !isASCII(from)}}
	rcpts := []string{"r1@rcpt.test", "r2@rcpt.test"}[:in.NRcpt]
	defer func() { o.Queries = chkRes.queries() }()

	if in.Level == "module" {
		block := "x14 {\n"
		if in.Fa.Given {
			block += "    fail_action " + in.Fa.Act + "\n"
		}
		block += "}\n"
		o.Cfg = in.Check + " " + strings.TrimPrefix(block, "x14 ")
		nodes, err := parser.Read(strings.NewReader(block), "x14.conf")
		if err != nil || len(nodes) != 1 {
			t.Fatalf("row %d: configuration block does not parse: %v", id, err)
		}
		// what a check block does with the line "<name> { ... }"
		chk, err := modconfig.MessageCheck(map[string]interface{}{}, []string{in.Check}, nodes[0])
		if err != nil {
			o.Act, o.Note = "config-refused", err.Error()
			return o
		}
		if !check.VerifSetResolver(chk, chkRes, theLog) {
			t.Fatalf("row %d: %s is not a stateless check", id, in.Check)
		}
		st, err := chk.CheckStateForMsg(ctx, meta)
		if err != nil {
			o.Act, o.Note = "state-refused", err.Error()
			return o
		}
		defer st.Close()
		results := []struct {
			stage string
			res   module.CheckResult
		}{
			{"conn", st.CheckConnection(ctx)},
			{"sender", st.CheckSender(ctx, from)},
			{"rcpt", st.CheckRcpt(ctx, rcpts[0])},
			{"body", st.CheckBody(ctx, plainHeader(), buffer.MemoryBuffer{Slice: []byte("hello\r\n")})},
		}
		for _, r := range results {
			empty := r.res.Reason == nil && !r.res.Reject && !r.res.Quarantine && len(r.res.AuthResult) == 0 && r.res.Header.Len() == 0
			if empty {
				continue
			}
			if o.Stage != "none" || r.res.Reason == nil {
				// a second answer, or an action without a reason
				o.Others = append(o.Others, r.stage)
				continue
			}
			o.Stage = r.stage
			o.Failed = true
			reasonOf(&o, r.res.Reason)
			switch {
			case r.res.Reject && r.res.Quarantine:
				o.Act = "reject+quarantine"
			case r.res.Reject:
				o.Act = "reject"
			case r.res.Quarantine:
				o.Act = "quarantine"
			}
		}
		return o
	}

	// ---- pipeline level
	o.Cfg = simplePipelineCfg(in)
	nodes, err := parser.Read(strings.NewReader(o.Cfg), "x14.conf")
	if err != nil {
		t.Fatalf("row %d: configuration text does not parse: %v\n%s", id, err, o.Cfg)
	}
	curResolver = chkRes
	pipe, err := msgpipeline.New(map[string]interface{}{}, nodes)
	if err != nil {
		o.Act, o.Note = "config-refused", err.Error()
		return o
	}
	pipe.Hostname = "mx.verif.test"
	pipe.Log = log.Logger{Out: theLog}
	pipe.Resolver = chkRes

	// as Session.startDelivery
	cleanFrom := from
	if from != "" {
		cleanFrom, err = address.CleanDomain(from)
		if err != nil {
			t.Fatalf("row %d: CleanDomain(%q): %v", id, from, err)
		}
	}
	refused := func(stage string, err error) {
		o.Failed, o.Act, o.Stage = true, "reject", stage
		reasonOf(&o, err)
	}
	d, err := pipe.Start(ctx, meta, cleanFrom)
	if err != nil {
		refused("mail", err)
		return o
	}
	accepted := 0
	for _, r := range rcpts {
		if err := d.AddRcpt(ctx, r, smtp.RcptOptions{}); err != nil {
			if o.Act != "reject" {
				refused("rcpt", err)
			}
			continue
		}
		accepted++
	}
	if accepted == 0 {
		_ = d.Abort(ctx)
		theTgt.take(meta.ID)
		return o
	}
	if o.Act == "reject" {
		o.Note = "some recipients refused, others accepted"
	}
	if err := d.Body(ctx, plainHeader(), buffer.MemoryBuffer{Slice: []byte("hello\r\n")}); err != nil {
		_ = d.Abort(ctx)
		theTgt.take(meta.ID)
		if o.Act != "reject" {
			refused("body", err)
		}
		return o
	}
	if err := d.Commit(ctx); err != nil {
		t.Fatalf("row %d: Commit: %v", id, err)
	}
	s := theTgt.take(meta.ID)
	if s == nil || !s.body || !s.committed {
		o.Act = "lost"
		return o
	}
	if o.Act == "reject" {
		o.Act = "reject-partly"
		return o
	}
	// the runner's report of a failure that does not refuse
	for _, l := range theLog.take() {
		if len(o.Log) < 6 {
			o.Log = append(o.Log, l)
		}
		if strings.HasPrefix(l, "quarantined\t") || strings.HasPrefix(l, "no check action\t") {
			o.Failed = true
		}
	}
	if s.quarantine {
		o.Act = "quarantine"
		if !o.Failed {
			o.Note = "quarantined without a report"
			o.Failed = true
		}
	}
	return o
}

func reverseName(ip net.IP) (string, error) {
	if v4 := ip.To4(); v4 != nil {
		return fmt.Sprintf("%d.%d.%d.%d.in-addr.arpa.", v4[3], v4[2], v4[1], v4[0]), nil
	}
	v6 := ip.To16()
	if v6 == nil {
		return "", fmt.Errorf("bad address %v", ip)
	}
	const hexd = "0123456789abcdef"
	var b strings.Builder
	for i := 15; i >= 0; i-- {
		b.WriteByte(hexd[v6[i]&0xf])
		b.WriteByte('.')
		b.WriteByte(hexd[v6[i]>>4])
		b.WriteByte('.')
	}
	b.WriteString("ip6.arpa.")
	return b.String(), nil
}

// ---- scenarios of CmdCheck.tla ----------------------------------------------------------------------

type Piece struct {
	K string `json:"k"`
	V string `json:"v"`
}

type Scenario struct {
	Tab   string `json:"tab"`
	RunOn string `json:"runOn"`
	Codes []struct {
		Code int    `json:"code"`
		Act  string `json:"act"`
		Rc   int    `json:"rc"`
	} `json:"codes"`
	Args [][]Piece `json:"args"`
	Conn struct {
		Kind string `json:"kind"`
		IP   string `json:"ip"`
		Helo string `json:"helo"`
		Auth string `json:"auth"`
		Rdns struct {
			K string `json:"k"`
			V string `json:"v"`
		} `json:"rdns"`
	} `json:"conn"`
	MsgID string   `json:"msgid"`
	From  string   `json:"from"`
	Rcpts []string `json:"rcpts"`
	Msg   struct {
		Hdr  []string `json:"hdr"`
		Body string   `json:"body"`
	} `json:"msg"`
	Beh []struct {
		Stdin string `json:"stdin"`
		Out   string `json:"out"`
		Err   string `json:"err"`
		Exit  int    `json:"exit"`
	} `json:"beh"`
	Start string `json:"start"`
}

const bigBodyLen = 1 << 20

func bigBody() []byte {
	line := []byte("0123456789abcdefghijklmnopqrstuvwxyz0123456789ABCDEFGHIJKLMNOPQRSTUVWXYZ-+#=*\r\n")
	b := make([]byte, 0, bigBodyLen)
	for len(b)+len(line) <= bigBodyLen {
		b = append(b, line...)
	}
	for len(b) < bigBodyLen {
		b = append(b, 'x')
	}
	return b
}

func bodyBytes(kind string) []byte {
	switch kind {
	case "small":
		return []byte("hello\r\nworld\r\n")
	case "empty", "unreadable":
		return []byte{}
	case "nocrlf":
		return []byte("no line end")
	case "barelf":
		return []byte("one\ntwo\n")
	case "dots":
		return []byte(".\r\n..\r\n.leading\r\n")
	case "big":
		return bigBody()
	}
	panic("unknown body kind " + kind)
}

// a body whose Open fails: a local I/O error of the server
type brokenBuffer struct{}

func (brokenBuffer) Open() (io.ReadCloser, error) { return nil, errors.New("x14: spool file unreadable") }
func (brokenBuffer) Len() int                     { return 7 }
func (brokenBuffer) Remove() error                { return nil }

// stdinText splits what the command got on stdin the way CmdCheckObs.tla names it.
func stdinText(b []byte) map[string]string {
	hdr, body := "", string(b)
	if i := bytes.Index(b, []byte("\r\n\r\n")); i >= 0 {
		hdr, body = string(b[:i+4]), string(b[i+4:])
	} else if bytes.HasPrefix(b, []byte("\r\n")) {
		hdr, body = "\r\n", string(b[2:])
	}
	if len(body) > 4096 {
		if bytes.Equal([]byte(body), bigBody()) {
			body = fmt.Sprintf("big:%d", len(body))
		} else {
			body = fmt.Sprintf("other:%d", len(body))
		}
	}
	return map[string]string{"hdr": hdr, "body": body}
}

// splitFields cuts header bytes (without the final empty line) into fields, folding kept.
func splitFields(b []byte) []string {
	res := []string{}
	start := 0
	for i := 0; i+1 < len(b); i++ {
		if b[i] == '\r' && b[i+1] == '\n' {
			if i+2 < len(b) && (b[i+2] == ' ' || b[i+2] == '\t') {
				continue
			}
			res = append(res, string(b[start:i+2]))
			start = i + 2
		}
	}
	if start < len(b) {
		res = append(res, string(b[start:]))
	}
	return res
}

func quoteArg(s string) string {
	return `"` + strings.ReplaceAll(s, `"`, `\"`) + `"`
}

type cmdRun struct {
	t       *testing.T
	id      int
	sc      Scenario
	tr      *vtrace.Tracer
	dir     string
	lastN    int
	pending  []string // log lines not yet attributed
	seenRcpt map[string]bool
}

func (c *cmdRun) runOn() string {
	if c.sc.RunOn == "absent" {
		return "body"
	}
	return c.sc.RunOn
}

// due reports whether the command is to be executed during the pipeline command call.
func (c *cmdRun) due(call string) bool {
	switch call {
	case "mail":
		return c.runOn() == "conn" || c.runOn() == "sender"
	case "rcpt":
		return c.runOn() == "rcpt"
	}
	return c.runOn() == "body"
}

func replyOf(err error) map[string]interface{} {
	if err == nil {
		return map[string]interface{}{"k": "ok", "code": 0, "temp": false, "enchc": 0}
	}
	r := map[string]interface{}{"k": "rej", "code": 0, "temp": exterrors.IsTemporary(err), "enchc": 0, "msg": err.Error()}
	var se *exterrors.SMTPError
	if errors.As(err, &se) {
		r["code"] = se.Code
		r["enchc"] = int(se.EnhancedCode[0])
	}
	return r
}

// observe emits the Pipe event of one pipeline command: its answer and the
// executions of the command that happened during it.
func (c *cmdRun) observe(call, arg string, err error) {
	recs, rerr := readRecs(c.dir)
	if rerr != nil {
		c.t.Fatalf("scenario %d: %v", c.id, rerr)
	}
	runs := []map[string]interface{}{}
	left, stalled := 0, 0
	for _, r := range recs {
		if r.N <= c.lastN {
			continue
		}
		c.lastN = r.N
		runs = append(runs, map[string]interface{}{"n": r.N, "argv": r.Argv, "read": r.StdinOK, "stdin": stdinText(r.Stdin),
			"done": r.Done, "pid": r.Pid})
		if r.Stalled {
			stalled++
		}
		if l, _ := procLeft(r.Pid); l {
			left++
		}
	}
	// The check runner reports a recovered panic of a check after it has released
	// the waiting command (wg.Done before log.Printf): where the command was due
	// and visibly did not run, wait for the report.
	lines := append(c.pending, theLog.take()...)
	c.pending = nil
	hasPanic := func() bool {
		for _, l := range lines {
			if strings.Contains(l, "panic during check execution") {
				return true
			}
		}
		return false
	}
	// (a repeated recipient that is silently skipped is the other known reason for a
	// missing execution: a short wait is enough there)
	wait := 10000
	if call == "rcpt" && c.seenRcpt[arg] {
		wait = 300
	}
	if call == "rcpt" {
		c.seenRcpt[arg] = true
	}
	if c.due(call) && len(runs) == 0 && err == nil && c.sc.Start != "gone" {
		for i := 0; i < wait && !hasPanic(); i++ {
			time.Sleep(time.Millisecond)
			lines = append(lines, theLog.take()...)
		}
	}
	panics := 0
	notes := []string{}
	for _, l := range lines {
		if strings.Contains(l, "panic during check execution") {
			panics++
		}
		if len(notes) < 3 {
			if len(l) > 300 {
				l = l[:300]
			}
			notes = append(notes, l)
		}
	}
	c.tr.Emit("Pipe", vtrace.Ev{"call": call, "arg": arg, "reply": replyOf(err), "runs": runs, "panics": panics,
		"left": left, "stalled": stalled, "log": notes})
}

func runCmd(t *testing.T, id int, sc Scenario, raw json.RawMessage, w io.Writer) {
	tr := vtrace.New(w, id)
	tr.Emit("Cfg", vtrace.Ev{"sc": raw})
	theLog.take()
	c := &cmdRun{t: t, id: id, sc: sc, tr: tr, dir: filepath.Join(tmpDir, fmt.Sprintf("x14-%d", id)), seenRcpt: map[string]bool{}}
	if err := os.MkdirAll(c.dir, 0o755); err != nil {
		t.Fatal(err)
	}
	defer os.RemoveAll(c.dir)
	end := func(cfgerr, delivered, quarantine bool, added, rcpts []string, note string) {
		tr.Emit("End", vtrace.Ev{"cfgerr": cfgerr, "delivered": delivered, "quarantine": quarantine, "added": added, "rcpts": rcpts, "note": note})
	}

	// the behaviour file of the helper
	bf := BehFile{Dir: c.dir}
	for _, b := range sc.Beh {
		// Only "bigtrail" can stay blocked for a reason other than a slow machine; everything else gets a
		// give-up time far beyond any scheduling delay.
		stall := 100
		if b.Out == "bigtrail" {
			stall = stallSeconds()
		}
		bf.Runs = append(bf.Runs, Beh{Stdin: b.Stdin, Out: b.Out, Err: b.Err, Exit: b.Exit, StallS: stall})
	}
	bfRaw, _ := json.Marshal(bf)
	behPath := filepath.Join(c.dir, "beh.json")
	if err := os.WriteFile(behPath, bfRaw, 0o644); err != nil {
		t.Fatal(err)
	}

	// the command
	cmdPath := filepath.Join(c.dir, "x14cmd")
	cmdName := cmdPath
	switch sc.Start {
	case "ok", "gone":
		if err := os.Symlink(selfExe, cmdPath); err != nil {
			t.Fatal(err)
		}
	case "path":
		cmdName = fmt.Sprintf("x14cmd-%d", id)
		if err := os.Symlink(selfExe, filepath.Join(c.dir, cmdName)); err != nil {
			t.Fatal(err)
		}
		os.Setenv("PATH", c.dir+string(os.PathListSeparator)+origPath)
		defer os.Setenv("PATH", origPath)
	case "absent":
	default:
		t.Fatalf("scenario %d: unknown start %q", id, sc.Start)
	}

	// configuration text
	var cfg strings.Builder
	cfg.WriteString("check {\n    command " + quoteArg(cmdName) + " " + helperFlag + " " + quoteArg(behPath))
	for _, arg := range sc.Args {
		s := ""
		for _, p := range arg {
			if p.K == "ph" {
				s += "{" + p.V + "}"
			} else {
				s += p.V
			}
		}
		cfg.WriteString(" " + quoteArg(s))
	}
	cfg.WriteString(" {\n")
	if sc.RunOn != "absent" {
		cfg.WriteString("        run_on " + sc.RunOn + "\n")
	}
	for _, cd := range sc.Codes {
		fmt.Fprintf(&cfg, "        code %d %s", cd.Code, cd.Act)
		if cd.Rc != 0 {
			fmt.Fprintf(&cfg, " %d", cd.Rc)
		}
		cfg.WriteString("\n")
	}
	cfg.WriteString("    }\n}\n" + deliver)
	nodes, err := parser.Read(strings.NewReader(cfg.String()), "x14.conf")
	if err != nil {
		t.Fatalf("scenario %d: configuration text does not parse: %v\n%s", id, err, cfg.String())
	}
	pipe, err := msgpipeline.New(map[string]interface{}{}, nodes)
	if err != nil {
		end(true, false, false, []string{}, []string{}, err.Error())
		return
	}
	pipe.Hostname = "mx.verif.test"
	pipe.Log = log.Logger{Out: theLog}
	if sc.Start == "gone" {
		if err := os.Remove(cmdPath); err != nil {
			t.Fatal(err)
		}
	}

	// the session
	var conn *module.ConnState
	if sc.Conn.Kind != "nil" {
		conn = &module.ConnState{Proto: "ESMTP", Hostname: sc.Conn.Helo, AuthUser: sc.Conn.Auth,
			LocalAddr: &net.TCPAddr{IP: net.IPv4(198, 51, 100, 1), Port: 25}}
		switch sc.Conn.Kind {
		case "tcp4", "tcp6":
			ip := net.ParseIP(sc.Conn.IP)
			if ip == nil {
				t.Fatalf("scenario %d: bad address %q", id, sc.Conn.IP)
			}
			if v4 := ip.To4(); v4 != nil && sc.Conn.Kind == "tcp4" {
				ip = v4
			}
			conn.RemoteAddr = &net.TCPAddr{IP: ip, Port: 41014}
		case "unix":
			conn.RemoteAddr = &net.UnixAddr{Name: "/run/x14/client.sock", Net: "unix"}
		default:
			t.Fatalf("scenario %d: unknown connection kind %q", id, sc.Conn.Kind)
		}
		switch sc.Conn.Rdns.K {
		case "name":
			conn.RDNSName = future.New()
			conn.RDNSName.Set(sc.Conn.Rdns.V, nil)
		case "none":
			conn.RDNSName = future.New()
			conn.RDNSName.Set(nil, nil)
		case "fail":
			conn.RDNSName = future.New()
			conn.RDNSName.Set(nil, dnsFail("temp"))
		case "nil":
		default:
			t.Fatalf("scenario %d: unknown rdns kind %q", id, sc.Conn.Rdns.K)
		}
	}

	// the message
	hdrText := strings.Join(sc.Msg.Hdr, "") + "\r\n"
	hdr, err := textproto.ReadHeader(bufio.NewReader(strings.NewReader(hdrText)))
	if err != nil {
		t.Fatalf("scenario %d: header does not parse: %v", id, err)
	}
	var body buffer.Buffer = buffer.MemoryBuffer{Slice: bodyBytes(sc.Msg.Body)}
	if sc.Msg.Body == "unreadable" {
		body = brokenBuffer{}
	}

	ctx := context.Background()
	meta := &module.MsgMetadata{ID: sc.MsgID, Conn: conn, OriginalFrom: sc.From}
	// every pipeline command under a watchdog: a command that never answers is not a verdict of this harness
	guarded := func(what string, f func() error) error {
		done := make(chan error, 1)
		go func() { done <- f() }()
		select {
		case err := <-done:
			return err
		case <-time.After(120 * time.Second):
			t.Fatalf("scenario %d: %s did not return within 120 s", id, what)
			return nil
		}
	}
	var d module.Delivery
	err = guarded("Start", func() error {
		var e error
		d, e = pipe.Start(ctx, meta, sc.From)
		return e
	})
	c.observe("mail", sc.From, err)
	if err != nil {
		end(false, false, false, []string{}, []string{}, "")
		return
	}
	accepted := 0
	for _, r := range sc.Rcpts {
		r := r
		err := guarded("AddRcpt", func() error { return d.AddRcpt(ctx, r, smtp.RcptOptions{}) })
		c.observe("rcpt", r, err)
		if err == nil {
			accepted++
		}
	}
	if accepted == 0 {
		_ = d.Abort(ctx)
		theTgt.take(meta.ID)
		end(false, false, false, []string{}, []string{}, "")
		return
	}
	err = guarded("Body", func() error { return d.Body(ctx, hdr, body) })
	c.observe("body", "", err)
	if err != nil {
		_ = d.Abort(ctx)
		theTgt.take(meta.ID)
		end(false, false, false, []string{}, []string{}, "")
		return
	}
	if err := d.Commit(ctx); err != nil {
		t.Fatalf("scenario %d: Commit: %v", id, err)
	}
	s := theTgt.take(meta.ID)
	if s == nil || !s.body || !s.committed {
		end(false, false, false, []string{}, []string{}, "lost")
		return
	}
	// the header the target got = added fields + the original header
	got := bytes.TrimSuffix(s.hdr, []byte("\r\n"))
	orig := []byte(strings.Join(sc.Msg.Hdr, ""))
	added := []string{}
	note := ""
	if bytes.HasSuffix(got, orig) {
		added = splitFields(got[:len(got)-len(orig)])
	} else {
		added = []string{"?original header not intact"}
		note = string(got)
		if len(note) > 400 {
			note = note[:400]
		}
	}
	end(false, true, s.quarantine, added, s.rcpts, note)
}

func stallSeconds() int {
	if os.Getenv("VERIF_TIER") == "thorough" {
		return 15
	}
	return 10
}

// ---- TestReplay ---------------------------------------------------------------------------------------

func TestReplay(t *testing.T) {
	inPath, outPath := os.Getenv("VERIF_IN"), os.Getenv("VERIF_OUT")
	if inPath == "" || outPath == "" {
		t.Skip("VERIF_IN / VERIF_OUT not set")
	}
	data, err := os.ReadFile(inPath)
	if err != nil {
		t.Fatal(err)
	}
	of, err := os.Create(outPath)
	if err != nil {
		t.Fatal(err)
	}
	defer of.Close()
	register(t)
	emit := func(v map[string]interface{}) {
		b, err := json.Marshal(v)
		if err != nil {
			t.Fatal(err)
		}
		// unbuffered: a crash of the code under test leaves the Begin line of its row behind
		if _, err := of.Write(append(b, '\n')); err != nil {
			t.Fatal(err)
		}
	}
	n := 0
	for _, line := range strings.Split(string(data), "\n") {
		if strings.TrimSpace(line) == "" {
			continue
		}
		var item struct {
			ID  int             `json:"id"`
			Sub string          `json:"sub"`
			In  json.RawMessage `json:"in"`
			Sc  json.RawMessage `json:"sc"`
		}
		if err := json.Unmarshal([]byte(line), &item); err != nil {
			t.Fatalf("bad input line: %v", err)
		}
		switch item.Sub {
		case "simple":
			var in SimpleIn
			if err := json.Unmarshal(item.In, &in); err != nil {
				t.Fatalf("row %d: %v", item.ID, err)
			}
			emit(map[string]interface{}{"t": item.ID, "seq": 1, "e": "Begin"})
			o := runSimple(t, item.ID, in)
			emit(map[string]interface{}{"t": item.ID, "seq": 2, "e": "Row", "in": item.In, "out": o})
		case "cmd":
			var sc Scenario
			if err := json.Unmarshal(item.Sc, &sc); err != nil {
				t.Fatalf("scenario %d: %v", item.ID, err)
			}
			runCmd(t, item.ID, sc, item.Sc, of)
		default:
			t.Fatalf("item %d: unknown sub %q", item.ID, item.Sub)
		}
		n++
	}
	t.Logf("ran %d items", n)
}
