package simplecheckscheck

// The external command run by check.command in the rows of spec/CmdCheck.tla is
// this test binary itself, started as
//
//	<test binary> --x14-helper <behaviour file> <the configured arguments...>
//
// TestMain diverts to helperMain before the testing package parses anything, so
// whatever the configured arguments expand to (leading dashes, quotes, line
// breaks) reaches the helper untouched.  The helper records exactly what it was
// given (argv, every byte of stdin, its pid) in the directory named by the
// behaviour file and then behaves as the behaviour file says (what to write to
// stdout / stderr, whether to read stdin, how to end).

import (
	"encoding/json"
	"fmt"
	"io"
	"os"
	"path/filepath"
	"sort"
	"strings"
	"syscall"
	"testing"
	"time"
)

const helperFlag = "--x14-helper"

// Beh is the behaviour of one execution of the helper.
type Beh struct {
	Stdin  string `json:"stdin"`  // "read": read stdin to the end first; "ignore": never read it; "late": write stdout first, then read
	Out    string `json:"out"`    // kind of stdout content, see stdoutBytes
	Err    string `json:"err"`    // "" or "text": something on stderr
	Exit   int    `json:"exit"`   // exit status; -9: the helper kills itself with SIGKILL
	StallS int    `json:"stalls"` // how long a blocked stdout write is waited on before the helper gives up
}

// BehFile is the behaviour file: the record directory and one behaviour per
// execution (the last one repeats).
type BehFile struct {
	Dir  string `json:"dir"`
	Runs []Beh  `json:"runs"`
}

// Rec is what one execution of the helper recorded.
type Rec struct {
	N       int      `json:"n"`
	Pid     int      `json:"pid"`
	Argv    []string `json:"argv"`
	Stdin   []byte   `json:"stdin"`
	StdinOK bool     `json:"stdinok"` // stdin was read to EOF without error
	Stalled bool     `json:"stalled"` // a write to stdout stayed blocked for StallS seconds: nobody reads it
	Wrote   int      `json:"wrote"`
	Done    bool     `json:"done"` // the helper reached its end (second write of the record)
}

func TestMain(m *testing.M) {
	if len(os.Args) >= 3 && os.Args[1] == helperFlag {
		os.Exit(helperMain(os.Args[2], os.Args[3:]))
	}
	os.Exit(m.Run())
}

const (
	hdr1        = "X-Verif-Scan: clean\r\n"
	hdr2        = "X-Verif-Scan: clean\r\nX-Verif-Score: 1.5\r\n"
	hdrFolded   = "X-Verif-Report: line one\r\n\tline two\r\n"
	bigTrailLen = 1 << 20
)

// stdoutBytes returns the bytes the helper writes to stdout for an output kind:
// the documented shapes (nothing; a valid RFC 5322 header) and others.
func stdoutBytes(kind string) []byte {
	switch kind {
	case "empty":
		return nil
	case "hdr1":
		return []byte(hdr1)
	case "hdr1end": // a header closed by the empty line
		return []byte(hdr1 + "\r\n")
	case "hdr2":
		return []byte(hdr2)
	case "hdrlf": // bare LF line ends
		return []byte("X-Verif-Scan: clean\n")
	case "folded":
		return []byte(hdrFolded)
	case "nocolon": // not a header: a line without a colon
		return []byte("scan failed cannot connect to daemon\n")
	case "binary":
		return []byte("\x00\x01\x02\xff\xfe garbage \x00\r\n\x00\r\n")
	case "trail": // a header, the empty line and something after it
		return []byte(hdr1 + "\r\nscanned 1 message\r\n")
	case "bigtrail": // a header, the empty line and far more than a pipe holds
		return append([]byte(hdr1+"\r\n"), []byte(strings.Repeat("0123456789abcdef0123456789abcde\n", bigTrailLen/32))...)
	case "bighdr": // a valid header that is larger than a pipe holds: 40 fields of 2 KB
		var b strings.Builder
		for i := 1; i <= 40; i++ {
			fmt.Fprintf(&b, "X-Verif-Big-%d: %s\r\n", i, strings.Repeat("0123456789", 199))
		}
		return []byte(b.String())
	}
	panic("unknown stdout kind " + kind)
}

func helperMain(behPath string, args []string) int {
	raw, err := os.ReadFile(behPath)
	if err != nil {
		fmt.Fprintln(os.Stderr, "x14 helper:", err)
		return 97
	}
	var bf BehFile
	if err := json.Unmarshal(raw, &bf); err != nil || len(bf.Runs) == 0 {
		fmt.Fprintln(os.Stderr, "x14 helper: bad behaviour file", err)
		return 97
	}
	// executions of one message are sequential: the next free number is ours
	n := 1
	for ; ; n++ {
		lock, err := os.OpenFile(filepath.Join(bf.Dir, fmt.Sprintf("lock-%03d", n)), os.O_CREATE|os.O_EXCL|os.O_WRONLY, 0o644)
		if err == nil {
			lock.Close()
			break
		}
		if !os.IsExist(err) || n > 500 {
			fmt.Fprintln(os.Stderr, "x14 helper:", err)
			return 97
		}
	}
	beh := bf.Runs[len(bf.Runs)-1]
	if n <= len(bf.Runs) {
		beh = bf.Runs[n-1]
	}
	rec := Rec{N: n, Pid: os.Getpid(), Argv: append([]string{}, args...), Stdin: []byte{}}
	// the record is replaced atomically: the helper may be killed at any moment
	recPath := filepath.Join(bf.Dir, fmt.Sprintf("run-%03d.json", n))
	save := func() {
		b, _ := json.Marshal(rec)
		tmp := recPath + ".tmp"
		if err := os.WriteFile(tmp, b, 0o644); err == nil {
			os.Rename(tmp, recPath)
		}
	}
	save()
	readIn := func() {
		b, err := io.ReadAll(os.Stdin)
		rec.Stdin, rec.StdinOK = b, err == nil
		if rec.Stdin == nil {
			rec.Stdin = []byte{}
		}
		save()
	}
	writeOut := func() {
		out := stdoutBytes(beh.Out)
		if len(out) == 0 {
			return
		}
		stall := time.Duration(beh.StallS) * time.Second
		if stall == 0 {
			stall = 20 * time.Second
		}
		// a write that stays blocked means nobody drains the pipe: give up instead of
		// hanging for ever (the record says so)
		done := make(chan int, 1)
		go func() {
			w := 0
			for w < len(out) {
				k, err := os.Stdout.Write(out[w:])
				w += k
				if err != nil {
					break
				}
			}
			done <- w
		}()
		select {
		case w := <-done:
			rec.Wrote = w
		case <-time.After(stall):
			rec.Stalled = true
		}
		save()
	}
	if beh.Stdin == "read" {
		readIn()
	}
	writeOut()
	if beh.Stdin == "late" {
		readIn()
	}
	if beh.Err != "" {
		fmt.Fprintln(os.Stderr, "x14 helper: diagnostic on stderr")
	}
	rec.Done = true
	save()
	if beh.Exit == -9 {
		syscall.Kill(os.Getpid(), syscall.SIGKILL)
		time.Sleep(10 * time.Second)
	}
	return beh.Exit
}

// readRecs returns the records of dir in execution order.
func readRecs(dir string) ([]Rec, error) {
	ents, err := os.ReadDir(dir)
	if err != nil {
		return nil, err
	}
	names := []string{}
	for _, e := range ents {
		if strings.HasPrefix(e.Name(), "run-") && strings.HasSuffix(e.Name(), ".json") {
			names = append(names, e.Name())
		}
	}
	sort.Strings(names)
	recs := []Rec{}
	for _, n := range names {
		b, err := os.ReadFile(filepath.Join(dir, n))
		if err != nil {
			return nil, err
		}
		var r Rec
		if err := json.Unmarshal(b, &r); err != nil {
			return nil, fmt.Errorf("%s: %v (%q)", n, err, b)
		}
		recs = append(recs, r)
	}
	return recs, nil
}

// procLeft reports whether the process entry of pid still exists as a child of
// this process (running or a zombie): the parent has not waited for it.
func procLeft(pid int) (bool, string) {
	b, err := os.ReadFile(fmt.Sprintf("/proc/%d/stat", pid))
	if err != nil {
		return false, ""
	}
	s := string(b)
	i := strings.LastIndexByte(s, ')')
	if i < 0 || i+2 >= len(s) {
		return true, "?"
	}
	f := strings.Fields(s[i+2:]) // state ppid ...
	if len(f) >= 2 && f[1] != fmt.Sprint(os.Getpid()) {
		return false, "" // the pid was given to somebody else's process: ours is gone
	}
	return true, f[0]
}
