module github.com/foxcpp/maddy/verifharness

go 1.26.8

require (
	github.com/emersion/go-imap v1.2.2-0.20220928192137-6fac715be9cf
	github.com/emersion/go-message v0.18.2
	github.com/emersion/go-milter v0.4.1
	github.com/emersion/go-msgauth v0.6.8
	github.com/emersion/go-sasl v0.0.0-20241020182733-b788ff22d5a6
	github.com/emersion/go-smtp v0.21.3
	github.com/foxcpp/go-imap-mess v0.0.0-20230108134257-b7ec3a649613
	github.com/foxcpp/go-mockdns v1.1.0
	github.com/foxcpp/go-mtasts v0.0.0-20240130093538-1438da2e5932
	github.com/foxcpp/maddy v0.0.0
	github.com/miekg/dns v1.1.63
	github.com/urfave/cli/v2 v2.27.5
	golang.org/x/crypto v0.32.0
	golang.org/x/net v0.34.0
	golang.org/x/text v0.21.0
)

require (
	blitiri.com.ar/go/spf v1.5.1 // indirect
	filippo.io/edwards25519 v1.1.0 // indirect
	github.com/Azure/go-ntlmssp v0.0.0-20221128193559-754e69321358 // indirect
	github.com/G-Core/gcore-dns-sdk-go v0.2.9 // indirect
	github.com/GehirnInc/crypt v0.0.0-20230320061759-8cc1b52080c5 // indirect
	github.com/beorn7/perks v1.0.1 // indirect
	github.com/c0va23/go-proxyprotocol v0.9.1 // indirect
	github.com/caddyserver/certmagic v0.21.7 // indirect
	github.com/caddyserver/zerossl v0.1.3 // indirect
	github.com/cespare/xxhash/v2 v2.3.0 // indirect
	github.com/cpuguy83/go-md2man/v2 v2.0.6 // indirect
	github.com/digitalocean/godo v1.134.0 // indirect
	github.com/dustin/go-humanize v1.0.1 // indirect
	github.com/emersion/go-imap-compress v0.0.0-20201103190257-14809af1d1b9 // indirect
	github.com/emersion/go-imap-sortthread v1.2.0 // indirect
	github.com/fatih/color v1.18.0 // indirect
	github.com/foxcpp/go-dovecot-sasl v0.0.0-20200522223722-c4699d7a24bf // indirect
	github.com/foxcpp/go-imap-i18nlevel v0.0.0-20200208001533-d6ec88553005 // indirect
	github.com/foxcpp/go-imap-namespace v0.0.0-20200802091432-08496dd8e0ed // indirect
	github.com/foxcpp/go-imap-sql v0.5.1-0.20250124140007-8da5567429d5 // indirect
	github.com/fsnotify/fsnotify v1.8.0 // indirect
	github.com/go-asn1-ber/asn1-ber v1.5.7 // indirect
	github.com/go-ini/ini v1.67.0 // indirect
	github.com/go-ldap/ldap/v3 v3.4.10 // indirect
	github.com/go-sql-driver/mysql v1.8.1 // indirect
	github.com/goccy/go-json v0.10.4 // indirect
	github.com/google/go-querystring v1.1.0 // indirect
	github.com/google/uuid v1.6.0 // indirect
	github.com/hashicorp/go-cleanhttp v0.5.2 // indirect
	github.com/hashicorp/go-hclog v1.6.3 // indirect
	github.com/hashicorp/go-retryablehttp v0.7.7 // indirect
	github.com/hashicorp/hcl v1.0.0 // indirect
	github.com/josharian/intern v1.0.0 // indirect
	github.com/klauspost/compress v1.17.11 // indirect
	github.com/klauspost/cpuid/v2 v2.2.9 // indirect
	github.com/lib/pq v1.10.9 // indirect
	github.com/libdns/cloudflare v0.1.1 // indirect
	github.com/libdns/digitalocean v0.0.0-20230728223659-4f9064657aea // indirect
	github.com/libdns/gandi v1.0.3 // indirect
	github.com/libdns/gcore v0.0.0-20250127070537-4a9d185c9d20 // indirect
	github.com/libdns/hetzner v0.0.1 // indirect
	github.com/libdns/libdns v0.2.2 // indirect
	github.com/libdns/namecheap v0.0.0-20211109042440-fc7440785c8e // indirect
	github.com/libdns/vultr v1.0.0 // indirect
	github.com/magiconair/properties v1.8.9 // indirect
	github.com/mailru/easyjson v0.9.0 // indirect
	github.com/mattn/go-colorable v0.1.14 // indirect
	github.com/mattn/go-isatty v0.0.20 // indirect
	github.com/mattn/go-sqlite3 v1.14.24 // indirect
	github.com/mholt/acmez/v3 v3.0.1 // indirect
	github.com/minio/md5-simd v1.1.2 // indirect
	github.com/minio/minio-go/v7 v7.0.84 // indirect
	github.com/mitchellh/mapstructure v1.5.0 // indirect
	github.com/munnerz/goautoneg v0.0.0-20191010083416-a7dc8b61c822 // indirect
	github.com/netauth/netauth v0.6.2 // indirect
	github.com/netauth/protocol v0.0.0-20210918062754-7fee492ffcbd // indirect
	github.com/pelletier/go-toml/v2 v2.2.3 // indirect
	github.com/pierrec/lz4 v2.6.1+incompatible // indirect
	github.com/prometheus/client_golang v1.20.5 // indirect
	github.com/prometheus/client_model v0.6.1 // indirect
	github.com/prometheus/common v0.62.0 // indirect
	github.com/prometheus/procfs v0.15.1 // indirect
	github.com/rs/xid v1.6.0 // indirect
	github.com/russross/blackfriday/v2 v2.1.0 // indirect
	github.com/sagikazarmark/slog-shim v0.1.0 // indirect
	github.com/spf13/afero v1.12.0 // indirect
	github.com/spf13/cast v1.7.1 // indirect
	github.com/spf13/pflag v1.0.5 // indirect
	github.com/spf13/viper v1.19.0 // indirect
	github.com/subosito/gotenv v1.6.0 // indirect
	github.com/vultr/govultr/v3 v3.14.1 // indirect
	github.com/xrash/smetrics v0.0.0-20240521201337-686a1a2994c1 // indirect
	github.com/zeebo/blake3 v0.2.4 // indirect
	go.uber.org/multierr v1.11.0 // indirect
	go.uber.org/zap v1.27.0 // indirect
	go.uber.org/zap/exp v0.3.0 // indirect
	golang.org/x/oauth2 v0.25.0 // indirect
	golang.org/x/sync v0.10.0 // indirect
	golang.org/x/sys v0.29.0 // indirect
	golang.org/x/time v0.9.0 // indirect
	google.golang.org/genproto/googleapis/rpc v0.0.0-20250124145028-65684f501c47 // indirect
	google.golang.org/grpc v1.70.0 // indirect
	google.golang.org/protobuf v1.36.4 // indirect
	gopkg.in/ini.v1 v1.67.0 // indirect
	gopkg.in/yaml.v3 v3.0.1 // indirect
)

replace github.com/foxcpp/maddy => /repo

replace github.com/emersion/go-imap => github.com/foxcpp/go-imap v1.0.0-beta.1.0.20220623182312-df940c324887

replace github.com/emersion/go-smtp => github.com/foxcpp/go-smtp v1.21.4-0.20250124171104-c8519ae4fb23

replace github.com/libdns/gandi => github.com/foxcpp/libdns-gandi v1.0.4-0.20240127130558-4782f9d5ce3e
