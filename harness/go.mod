module github.com/foxcpp/maddy/verifharness

go 1.26.8

require (
	github.com/emersion/go-message v0.18.2
	github.com/emersion/go-milter v0.4.1
	github.com/emersion/go-msgauth v0.6.8
	github.com/emersion/go-sasl v0.0.0-20241020182733-b788ff22d5a6
	github.com/emersion/go-smtp v0.21.3
	github.com/foxcpp/go-mockdns v1.1.0
	github.com/foxcpp/go-mtasts v0.0.0-20240130093538-1438da2e5932
	github.com/foxcpp/maddy v0.0.0
	github.com/miekg/dns v1.1.63
	golang.org/x/crypto v0.32.0
	golang.org/x/net v0.34.0
	golang.org/x/text v0.21.0
)

require (
	blitiri.com.ar/go/spf v1.5.1 // indirect
	github.com/beorn7/perks v1.0.1 // indirect
	github.com/c0va23/go-proxyprotocol v0.9.1 // indirect
	github.com/cespare/xxhash/v2 v2.3.0 // indirect
	github.com/emersion/go-imap v1.2.2-0.20220928192137-6fac715be9cf // indirect
	github.com/google/uuid v1.6.0 // indirect
	github.com/lib/pq v1.10.9 // indirect
	github.com/mattn/go-sqlite3 v1.14.24 // indirect
	github.com/munnerz/goautoneg v0.0.0-20191010083416-a7dc8b61c822 // indirect
	github.com/prometheus/client_golang v1.20.5 // indirect
	github.com/prometheus/client_model v0.6.1 // indirect
	github.com/prometheus/common v0.62.0 // indirect
	github.com/prometheus/procfs v0.15.1 // indirect
	go.uber.org/multierr v1.11.0 // indirect
	go.uber.org/zap v1.27.0 // indirect
	golang.org/x/sync v0.10.0 // indirect
	golang.org/x/sys v0.29.0 // indirect
	google.golang.org/protobuf v1.36.4 // indirect
)

replace github.com/foxcpp/maddy => /repo

replace github.com/emersion/go-imap => github.com/foxcpp/go-imap v1.0.0-beta.1.0.20220623182312-df940c324887

replace github.com/emersion/go-smtp => github.com/foxcpp/go-smtp v1.21.4-0.20250124171104-c8519ae4fb23

replace github.com/libdns/gandi => github.com/foxcpp/libdns-gandi v1.0.4-0.20240127130558-4782f9d5ce3e
