// Package vsched is a yield-point scheduler for code instrumented by
// harness/cmd/instrument. It must be used inside a testing/synctest bubble.
//
// Every instrumented goroutine parks on its own gate channel at every yield
// point. The controller (the bubble's root goroutine) releases exactly one
// parked goroutine and calls synctest.Wait(), which returns when that goroutine
// reached its next yield, finished, or is durably blocked inside a channel
// operation. So exactly one instrumented goroutine makes progress at a time
// and the interleaving is fully determined by the sequence of choices.
//
// Blocking operations (send, receive, select, WaitGroup.Wait) are routed
// through this package: the goroutine first tries the operation without
// blocking; when that is impossible it marks itself Blocked and blocks for
// real (durably, so synctest.Wait returns). When another goroutine's step (or
// a clock advance) wakes it, it immediately re-parks at an "after" yield, and
// the controller then runs it on to its next ordinary yield as part of the
// same step (in goroutine-id order). Hence the outcome of a step is a
// deterministic function of the state and the choice.
//
// select is executed by trying the cases one at a time in an order chosen by
// the controller (Sched.SelOrder), so Go's pseudo-random choice between ready
// cases never decides anything.
//
// With no active scheduler (or on a goroutine the scheduler does not know)
// every function of the package degrades to the plain Go operation.
package vsched

import (
	"cmp"
	"fmt"
	"reflect"
	"runtime"
	"runtime/debug"
	"slices"
	"sort"
	"strconv"
	"sync"
	"sync/atomic"
	"testing/synctest"
	"time"
)

type State int

const (
	Parked  State = iota // waiting on its gate at a yield point
	Running              // released by the controller
	Blocked              // durably blocked inside a real operation
	Done                 // function returned, panicked or was aborted
)

func (s State) String() string {
	return [...]string{"parked", "running", "blocked", "done"}[s]
}

// G is one goroutine known to the scheduler.
type G struct {
	ID     int
	Name   string
	s      *Sched
	gate   chan struct{}
	state  State
	kind   string // yield kind it is parked at / operation it is blocked in
	after  bool   // parked at an "after" yield (just woke from a blocking op)
	native bool   // blocked in an operation vsched cannot abort
	Steps  int
	Panic  interface{}
	exit   bool
	wgDone func()
}

func (g *G) State() State { g.s.mu.Lock(); defer g.s.mu.Unlock(); return g.state }
func (g *G) Kind() string { g.s.mu.Lock(); defer g.s.mu.Unlock(); return g.kind }

// Sched is one scheduler instance; at most one is active per process.
type Sched struct {
	mu      sync.Mutex
	gs      []*G
	byGoid  map[int64]*G
	abort   chan struct{}
	aborted bool
	nAuto   int
	// OnPanic is called (on the panicking goroutine, after it was marked Done)
	// for every panic that reached the top of a scheduled goroutine.
	OnPanic func(g *G, v interface{}, stack string)
	// SelOrder returns the order in which the n cases of a select are tried.
	// nil: source order.
	SelOrder func(g *G, n int) []int
	// OnSpawn lets the harness name goroutines started by instrumented code.
	OnSpawn func(g *G)
}

var active atomic.Pointer[Sched]

// New creates a scheduler and makes it the active one. Call inside a bubble.
func New() *Sched {
	s := &Sched{byGoid: map[int64]*G{}, abort: make(chan struct{})}
	active.Store(s)
	return s
}

func goid() int64 {
	var buf [64]byte
	n := runtime.Stack(buf[:], false)
	// "goroutine 123 ["
	b := buf[10:n]
	i := 0
	for i < len(b) && b[i] >= '0' && b[i] <= '9' {
		i++
	}
	id, _ := strconv.ParseInt(string(b[:i]), 10, 64)
	return id
}

func cur() *G {
	s := active.Load()
	if s == nil {
		return nil
	}
	id := goid()
	s.mu.Lock()
	g := s.byGoid[id]
	s.mu.Unlock()
	return g
}

func (s *Sched) isAborted() bool {
	s.mu.Lock()
	defer s.mu.Unlock()
	return s.aborted
}

func (s *Sched) newG(name string) *G {
	s.mu.Lock()
	g := &G{ID: len(s.gs), s: s, gate: make(chan struct{}), state: Parked, kind: "start"}
	if name == "" {
		s.nAuto++
		name = "a" + strconv.Itoa(s.nAuto)
	}
	g.Name = name
	s.gs = append(s.gs, g)
	s.mu.Unlock()
	if s.OnSpawn != nil {
		s.OnSpawn(g)
	}
	return g
}

func (g *G) run(f func()) {
	s := g.s
	id := goid()
	s.mu.Lock()
	s.byGoid[id] = g
	s.mu.Unlock()
	defer func() {
		r := recover()
		s.mu.Lock()
		g.state = Done
		g.after = false
		delete(s.byGoid, id)
		if r != nil {
			g.Panic = r
		}
		ab := s.aborted
		s.mu.Unlock()
		if r != nil && !ab && s.OnPanic != nil {
			s.OnPanic(g, r, string(debug.Stack()))
		}
	}()
	g.park("start", false)
	f()
}

// Go is what the instrumenter turns a `go` statement into.
func Go(f func()) {
	s := active.Load()
	if s == nil || s.isAborted() {
		go f()
		return
	}
	g := s.newG("")
	go g.run(f)
}

// Spawn starts a named goroutine from the controller; it is parked at "start".
func (s *Sched) Spawn(name string, f func()) *G {
	g := s.newG(name)
	go g.run(f)
	synctest.Wait()
	return g
}

func (g *G) doExit() {
	if g.exit {
		return
	}
	g.exit = true
	runtime.Goexit()
}

func (g *G) park(kind string, after bool) {
	s := g.s
	s.mu.Lock()
	if s.aborted {
		s.mu.Unlock()
		return
	}
	g.state = Parked
	g.kind = kind
	g.after = after
	s.mu.Unlock()
	select {
	case <-g.gate:
	case <-s.abort:
		g.doExit()
	}
}

// Yield parks the calling goroutine until the controller releases it.
func Yield(kind string) {
	if g := cur(); g != nil {
		g.park(kind, false)
	}
}

func (g *G) block(kind string, native bool) {
	g.s.mu.Lock()
	g.state = Blocked
	g.kind = kind
	g.native = native
	g.s.mu.Unlock()
}

func (g *G) woke() {
	g.s.mu.Lock()
	ab := g.s.aborted
	g.native = false
	g.s.mu.Unlock()
	if ab {
		return
	}
	g.park("after", true)
}

// ---------------------------------------------------------------- channels

func conv(v interface{}, t reflect.Type) reflect.Value {
	if v == nil {
		return reflect.Zero(t)
	}
	rv := reflect.ValueOf(v)
	if rv.Type() != t {
		rv = rv.Convert(t)
	}
	return rv
}

// blockingSelect blocks in reflect.Select. A blocked sender woken by close()
// panics; it must re-park first like every other woken goroutine, so that
// several goroutines woken by one close() run on one at a time, in id order.
func (g *G) blockingSelect(cs []reflect.SelectCase) (int, reflect.Value, bool) {
	defer func() {
		if r := recover(); r != nil {
			g.woke()
			panic(r)
		}
	}()
	return reflect.Select(cs)
}

// SortedKeys is what the instrumenter turns `range m` over a map into, so that
// Go's randomised iteration order never decides the order of events.
func SortedKeys[K cmp.Ordered, V any](m map[K]V) []K {
	ks := make([]K, 0, len(m))
	for k := range m {
		ks = append(ks, k)
	}
	slices.Sort(ks)
	return ks
}

// Send is `ch <- v`.
func Send(ch interface{}, v interface{}) {
	rc := reflect.ValueOf(ch)
	val := conv(v, rc.Type().Elem())
	g := cur()
	if g == nil {
		rc.Send(val)
		return
	}
	g.park("send", false)
	if rc.TrySend(val) {
		return
	}
	if g.s.isAborted() {
		g.doExit()
		return
	}
	g.block("send", false)
	chosen, _, _ := g.blockingSelect([]reflect.SelectCase{
		{Dir: reflect.SelectSend, Chan: rc, Send: val},
		{Dir: reflect.SelectRecv, Chan: reflect.ValueOf(g.s.abort)},
	})
	if chosen == 1 {
		g.doExit()
		return
	}
	g.woke()
}

// Recv2 is `v, ok := <-ch`.
func Recv2[T any](ch <-chan T) (v T, ok bool) {
	g := cur()
	if g == nil {
		v, ok = <-ch
		return
	}
	g.park("recv", false)
	select {
	case v, ok = <-ch:
		return
	default:
	}
	if g.s.isAborted() {
		g.doExit()
		return
	}
	g.block("recv", false)
	select {
	case v, ok = <-ch:
	case <-g.s.abort:
		g.doExit()
		return
	}
	g.woke()
	return
}

// Recv is `<-ch`.
func Recv[T any](ch <-chan T) T {
	v, _ := Recv2(ch)
	return v
}

// Sel is a select statement in execution.
type Sel struct {
	cases []reflect.SelectCase
	def   bool
	fill  []func(v reflect.Value, ok bool)
}

func NewSelect(hasDefault bool) *Sel { return &Sel{def: hasDefault} }

// RC holds the result of a receive case.
type RC[T any] struct {
	V  T
	Ok bool
}

func RecvCase[T any](s *Sel, ch <-chan T) *RC[T] {
	rc := &RC[T]{}
	s.cases = append(s.cases, reflect.SelectCase{Dir: reflect.SelectRecv, Chan: reflect.ValueOf(ch)})
	s.fill = append(s.fill, func(v reflect.Value, ok bool) {
		rc.Ok = ok
		if v.IsValid() && v.CanInterface() {
			if x, isT := v.Interface().(T); isT { // a nil interface value stays the zero T
				rc.V = x
			}
		}
	})
	return rc
}

func SendCase(s *Sel, ch interface{}, v interface{}) {
	rc := reflect.ValueOf(ch)
	s.cases = append(s.cases, reflect.SelectCase{Dir: reflect.SelectSend, Chan: rc, Send: conv(v, rc.Type().Elem())})
	s.fill = append(s.fill, nil)
}

func (s *Sel) done(k int, v reflect.Value, ok bool) int {
	if s.fill[k] != nil {
		s.fill[k](v, ok)
	}
	return k
}

func valid(c reflect.SelectCase) bool { return c.Chan.IsValid() && !c.Chan.IsNil() }

// Do executes the select and returns the index of the chosen case (-1: default).
func (s *Sel) Do() int {
	n := len(s.cases)
	g := cur()
	if g == nil {
		cs := s.cases
		if s.def {
			cs = append(append([]reflect.SelectCase{}, cs...), reflect.SelectCase{Dir: reflect.SelectDefault})
		}
		k, v, ok := reflect.Select(cs)
		if k == n {
			return -1
		}
		return s.done(k, v, ok)
	}
	g.park("select", false)
	order := make([]int, n)
	for i := range order {
		order[i] = i
	}
	if g.s.SelOrder != nil && n > 1 {
		if o := g.s.SelOrder(g, n); len(o) == n {
			order = o
		}
	}
	for _, k := range order {
		if !valid(s.cases[k]) {
			continue
		}
		c, v, ok := reflect.Select([]reflect.SelectCase{s.cases[k], {Dir: reflect.SelectDefault}})
		if c == 0 {
			return s.done(k, v, ok)
		}
	}
	if s.def {
		return -1
	}
	if g.s.isAborted() {
		g.doExit()
		return -1
	}
	g.block("select", false)
	cs := append(append([]reflect.SelectCase{}, s.cases...),
		reflect.SelectCase{Dir: reflect.SelectRecv, Chan: reflect.ValueOf(g.s.abort)})
	k, v, ok := g.blockingSelect(cs)
	if k == n {
		g.doExit()
		return -1
	}
	g.woke()
	return s.done(k, v, ok)
}

// WgWait is `wg.Wait()`; done is wg.Done, used only to free the goroutine at
// tear-down.
func WgWait(wait func(), done func()) {
	g := cur()
	if g == nil {
		wait()
		return
	}
	g.park("wgwait", false)
	if g.s.isAborted() {
		return
	}
	g.s.mu.Lock()
	g.wgDone = done
	g.s.mu.Unlock()
	g.block("wgwait", true)
	wait()
	g.s.mu.Lock()
	g.wgDone = nil
	ab := g.s.aborted
	g.s.mu.Unlock()
	if ab {
		g.doExit()
		return
	}
	// wait() may have returned at once; re-parking is harmless either way
	g.woke()
}

// ---------------------------------------------------------------- controller

// Gs returns all goroutines in creation order.
func (s *Sched) Gs() []*G {
	s.mu.Lock()
	defer s.mu.Unlock()
	return append([]*G{}, s.gs...)
}

func (s *Sched) ByName(name string) *G {
	s.mu.Lock()
	defer s.mu.Unlock()
	for _, g := range s.gs {
		if g.Name == name {
			return g
		}
	}
	return nil
}

// Runnable returns the goroutines parked at an ordinary yield, in id order.
func (s *Sched) Runnable() []*G {
	s.mu.Lock()
	defer s.mu.Unlock()
	var out []*G
	for _, g := range s.gs {
		if g.state == Parked {
			out = append(out, g)
		}
	}
	return out
}

// Unfinished returns goroutines that are not Done.
func (s *Sched) Unfinished() []*G {
	s.mu.Lock()
	defer s.mu.Unlock()
	var out []*G
	for _, g := range s.gs {
		if g.state != Done {
			out = append(out, g)
		}
	}
	return out
}

func (s *Sched) settle() {
	synctest.Wait()
	// a goroutine released into uninstrumented blocking code is still "running"
	s.mu.Lock()
	for _, g := range s.gs {
		if g.state == Running {
			g.state = Blocked
			g.native = true
			g.kind = "native"
		}
	}
	s.mu.Unlock()
	for {
		var next *G
		s.mu.Lock()
		for _, g := range s.gs {
			if g.state == Parked && g.after {
				next = g
				break
			}
		}
		if next != nil {
			next.state = Running
			next.after = false
		}
		s.mu.Unlock()
		if next == nil {
			return
		}
		next.gate <- struct{}{}
		synctest.Wait()
		s.mu.Lock()
		for _, g := range s.gs {
			if g.state == Running {
				g.state = Blocked
				g.native = true
				g.kind = "native"
			}
		}
		s.mu.Unlock()
	}
}

// Step releases g (which must be runnable) and waits until everything settled.
// It reports false when g was not runnable (the choice is skipped).
func (s *Sched) Step(g *G) bool {
	s.mu.Lock()
	if g == nil || g.state != Parked || s.aborted {
		s.mu.Unlock()
		return false
	}
	g.state = Running
	g.Steps++
	s.mu.Unlock()
	g.gate <- struct{}{}
	s.settle()
	return true
}

// Sleep advances the bubble's fake clock by d and lets woken goroutines settle.
func (s *Sched) Sleep(d time.Duration) {
	time.Sleep(d)
	s.settle()
}

// Settle waits for quiescence (use after the controller itself did something).
func (s *Sched) Settle() { s.settle() }

// Describe lists the unfinished goroutines as "name:state:kind".
func (s *Sched) Describe() []string {
	s.mu.Lock()
	defer s.mu.Unlock()
	var out []string
	for _, g := range s.gs {
		if g.state != Done {
			out = append(out, fmt.Sprintf("%s:%s:%s", g.Name, g.state, g.kind))
		}
	}
	sort.Strings(out)
	return out
}

// Shutdown aborts every goroutine still alive (parked ones exit through
// runtime.Goexit, so deferred functions run but recover() sees nil) and
// deactivates the scheduler. It returns the names of goroutines it could not
// free (blocked in uninstrumented code).
func (s *Sched) Shutdown() []string {
	s.mu.Lock()
	if !s.aborted {
		s.aborted = true
		close(s.abort)
	}
	s.mu.Unlock()
	synctest.Wait()
	for i := 0; i < 64; i++ {
		var fn func()
		s.mu.Lock()
		for _, g := range s.gs {
			if g.state != Done && g.wgDone != nil {
				fn = g.wgDone
				break
			}
		}
		s.mu.Unlock()
		if fn == nil {
			break
		}
		func() {
			defer func() { recover() }()
			fn()
		}()
		synctest.Wait()
	}
	var stuck []string
	s.mu.Lock()
	for _, g := range s.gs {
		if g.state != Done {
			stuck = append(stuck, g.Name)
		}
	}
	s.mu.Unlock()
	active.CompareAndSwap(s, nil)
	return stuck
}

// Current returns the scheduler's record of the calling goroutine (nil if unknown).
func Current() *G { return cur() }
