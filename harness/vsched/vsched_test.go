package vsched

import (
	"fmt"
	"reflect"
	"sync"
	"testing"
	"testing/synctest"
	"time"
)

// A goroutine released into a blocking send is seen as Blocked; when the
// receiver's step wakes it, it runs on to its NEXT yield and no further.
func TestBlockWakeRepark(t *testing.T) {
	synctest.Test(t, func(t *testing.T) {
		s := New()
		ch := make(chan int)
		var log []string
		snd := s.Spawn("snd", func() {
			Send(ch, 7)
			log = append(log, "sent")
			Yield("x")
			log = append(log, "past-x")
		})
		rcv := s.Spawn("rcv", func() {
			v := Recv(ch)
			log = append(log, fmt.Sprint("got", v))
		})
		s.Step(snd) // start -> parked at "send"
		if snd.State() != Parked || snd.Kind() != "send" {
			t.Fatalf("snd: %v %v", snd.State(), snd.Kind())
		}
		s.Step(snd) // tries, nobody receives: blocked for real
		if snd.State() != Blocked {
			t.Fatalf("snd should be blocked: %v", snd.State())
		}
		if s.Step(snd) {
			t.Fatal("a blocked goroutine must not be steppable")
		}
		if r := s.Runnable(); len(r) != 1 || r[0] != rcv {
			t.Fatalf("runnable: %v", r)
		}
		s.Step(rcv) // start -> parked at "recv"
		s.Step(rcv) // receives; wakes snd, which must stop at Yield("x")
		if rcv.State() != Done {
			t.Fatalf("rcv: %v", rcv.State())
		}
		if snd.State() != Parked || snd.Kind() != "x" {
			t.Fatalf("snd after wake: %v %v", snd.State(), snd.Kind())
		}
		if !reflect.DeepEqual(log, []string{"got7", "sent"}) {
			t.Fatalf("log %v", log)
		}
		s.Step(snd)
		if snd.State() != Done || log[len(log)-1] != "past-x" {
			t.Fatalf("snd: %v %v", snd.State(), log)
		}
		if st := s.Shutdown(); len(st) != 0 {
			t.Fatal(st)
		}
	})
}

// select: the controller's order decides between ready cases; a blocked
// select is woken by the clock and re-parks.
func TestSelectOrderAndTimer(t *testing.T) {
	synctest.Test(t, func(t *testing.T) {
		s := New()
		a, b := make(chan int, 1), make(chan int, 1)
		a <- 1
		b <- 2
		first := 1
		s.SelOrder = func(g *G, n int) []int { return []int{first, 1 - first} }
		got := -1
		g := s.Spawn("g", func() {
			sel := NewSelect(false)
			ca := RecvCase(sel, a)
			cb := RecvCase(sel, b)
			switch sel.Do() {
			case 0:
				got = ca.V
			case 1:
				got = cb.V
			}
			tm := time.NewTimer(5 * time.Second)
			sel2 := NewSelect(false)
			RecvCase(sel2, tm.C)
			sel2.Do()
			Yield("after-timer")
		})
		s.Step(g)
		s.Step(g)
		if got != 2 {
			t.Fatalf("order ignored: got %d", got)
		}
		s.Step(g) // second select: nothing ready -> blocked
		if g.State() != Blocked {
			t.Fatalf("want blocked, got %v/%v", g.State(), g.Kind())
		}
		s.Sleep(4 * time.Second)
		if g.State() != Blocked {
			t.Fatal("woke early")
		}
		s.Sleep(time.Second)
		if g.State() != Parked || g.Kind() != "after-timer" {
			t.Fatalf("after timer: %v %v", g.State(), g.Kind())
		}
		s.Shutdown()
	})
}

// panics are captured per goroutine; a send on a closed channel panics as in Go;
// a deadlock shows as "nothing runnable, something unfinished"; Shutdown frees
// everything, including a WaitGroup waiter, and runs deferred functions.
func TestPanicDeadlockShutdown(t *testing.T) {
	synctest.Test(t, func(t *testing.T) {
		s := New()
		var panics []string
		s.OnPanic = func(g *G, v interface{}, _ string) { panics = append(panics, g.Name+": "+fmt.Sprint(v)) }
		ch := make(chan int)
		close(ch)
		p := s.Spawn("p", func() { Send(ch, 1) })
		never := make(chan int)
		deferred := false
		d := s.Spawn("d", func() {
			defer func() { deferred = true }()
			Recv(never)
		})
		var wg sync.WaitGroup
		wg.Add(1)
		w := s.Spawn("w", func() { WgWait(wg.Wait, wg.Done) })
		for _, g := range []*G{p, p, d, d, w, w} {
			s.Step(g)
		}
		if len(panics) != 1 || panics[0] != "p: send on closed channel" {
			t.Fatalf("panics: %v", panics)
		}
		if len(s.Runnable()) != 0 || len(s.Unfinished()) != 2 {
			t.Fatalf("deadlock not visible: %v", s.Describe())
		}
		if st := s.Shutdown(); len(st) != 0 {
			t.Fatalf("stuck: %v", st)
		}
		if !deferred {
			t.Fatal("deferred function of an aborted goroutine did not run")
		}
	})
}

// goroutines started by instrumented code (Go) are scheduled too; without a
// scheduler everything degrades to plain Go.
func TestGoAndPassThrough(t *testing.T) {
	ch := make(chan int, 1)
	Send(ch, 3)
	if Recv(ch) != 3 {
		t.Fatal("pass-through")
	}
	synctest.Test(t, func(t *testing.T) {
		s := New()
		n := 0
		g := s.Spawn("g", func() {
			Go(func() { Yield("k"); n++ })
			Yield("y")
		})
		s.Step(g)
		gs := s.Gs()
		if len(gs) != 2 || gs[1].State() != Parked || gs[1].Kind() != "start" {
			t.Fatalf("child: %v", s.Describe())
		}
		s.Step(gs[1])
		s.Step(gs[1])
		if n != 1 || gs[1].State() != Done {
			t.Fatal("child did not run under control")
		}
		s.Shutdown()
	})
}
