// Package remotecheck replays TLC-generated behaviours of Remote.tla (C05) and
// RcptStatus.tla (C09) on the real outbound delivery code
// (internal/target/remote, internal/target/smtp, internal/smtpconn) against
// scripted SMTP/LMTP servers on loopback TCP, a go-mockdns server with AD-bit
// control on loopback UDP and an injected MTA-STS fetch, and records NDJSON
// traces.
//
// Input  (VERIF_IN):  one JSON object per line {"id":N,"cfg":{...},"msgs":[...]}
// Output (VERIF_OUT): NDJSON events, trace number "t" = id.
package remotecheck

import (
	"bufio"
	"context"
	"crypto/tls"
	"encoding/json"
	"errors"
	"fmt"
	"net"
	"os"
	"strconv"
	"strings"
	"sync"
	"testing"
	"time"

	"github.com/emersion/go-message/textproto"
	"github.com/emersion/go-smtp"
	"github.com/foxcpp/go-mockdns"
	"github.com/foxcpp/go-mtasts"
	"github.com/foxcpp/maddy/framework/buffer"
	"github.com/foxcpp/maddy/framework/exterrors"
	"github.com/foxcpp/maddy/framework/log"
	"github.com/foxcpp/maddy/framework/module"
	"github.com/foxcpp/maddy/internal/smtpconn/pool"
	"github.com/foxcpp/maddy/internal/target/remote"
	"github.com/foxcpp/maddy/verifharness/scripted"
	"github.com/foxcpp/maddy/verifharness/vtrace"
	miekgdns "github.com/miekg/dns"
)

// ---- behaviour format (Remote.tla, ToJson([cfg |-> cfg, msgs |-> hist])) ----

type MXFacts struct {
	Stls     string `json:"stls"`
	Cert     string `json:"cert"`
	StsMatch bool   `json:"stsMatch"`
	Tlsa     string `json:"tlsa"`
	Slow     bool   `json:"slow"`
	Cn       string `json:"cn"`    // "no" | "sec" | "half" | "insec": the MX name is a CNAME
	TlsaC    string `json:"tlsaC"` // TLSA outcome under the canonical name
	Quit     string `json:"quit"`  // how the MX answers QUIT: "" | bye | busy | silent | drop
}

type Cfg struct {
	Pols     []string  `json:"pols"`
	MinTLS   int       `json:"minTLS"`
	MinMX    int       `json:"minMX"`
	Override bool      `json:"override"`
	Sts      string    `json:"sts"`
	AdMX     bool      `json:"adMX"`
	DNS      string    `json:"dns"`
	MX       []MXFacts `json:"mx"`
	// the resolver list of the DNSSEC-aware stub resolver (resolvers_test.go); absent = one loopback resolver
	Res []ResFacts `json:"res"`
}

type Msg struct {
	ReqTLS bool `json:"reqtls"`
	TLSNo  bool `json:"tlsno"`
	Quar   bool `json:"quar"`
	// the MX refuses MAIL FROM of this message (451), the session stays healthy
	MailFail bool `json:"mailfail"`
	// the quarantine flag is raised between AddRcpt and the body call
	QLate bool `json:"qlate"`
	// the body is handed over through PartialDelivery.BodyNonAtomic
	NA bool `json:"na"`
	// the message has an earlier recipient in another domain (other.invalid) whose MX is fully
	// authenticated but does not offer the REQUIRETLS extension
	Pre bool `json:"pre"`
	// the message has an earlier recipient in another domain whose MX lookup fails while its MTA-STS
	// lookup is unanswered (stsgate_test.go): "" | no | none | testing | match
	Late string `json:"late"`
}

func lateOf(m Msg) string {
	if m.Late == "" {
		return "no"
	}
	return m.Late
}

type Behaviour struct {
	ID   int   `json:"id"`
	Cfg  Cfg   `json:"cfg"`
	Msgs []Msg `json:"msgs"`
}

const domain = "example.invalid"
const otherDomain = "other.invalid"
const otherMX = "mxo.other.invalid"

func mxHost(i int) string { return "mx" + strconv.Itoa(i) + "." + domain }

var certs *scripted.SMTPCerts

func theCerts(t *testing.T) *scripted.SMTPCerts {
	if certs == nil {
		var err error
		certs, err = scripted.NewSMTPCerts()
		if err != nil {
			t.Fatal(err)
		}
	}
	return certs
}

func has(l []string, s string) bool {
	for _, x := range l {
		if x == s {
			return true
		}
	}
	return false
}

func tlsaRR(usage, selector, mtype uint8, data string) []miekgdns.TLSA {
	return []miekgdns.TLSA{{Usage: usage, Selector: selector, MatchingType: mtype, Certificate: data}}
}

// Class of an error as the caller of the delivery target sees it.
func class(err error) string {
	if err == nil {
		return "ok"
	}
	if exterrors.IsTemporary(err) {
		return "temp"
	}
	return "perm"
}

const harnessBudget = 60 * time.Second // per behaviour; exceeding it is an infrastructure failure

// world is the scripted environment of one behaviour.
type world struct {
	net     *scripted.SMTPNet
	servers []*scripted.SMTPServer
	dns     *scripted.DNSServer
	dnsStop func()
	gate    *dnsGate
	sts     *stsGate
	msgs    []Msg
	tgt     *remote.Target
}

func (w *world) close() {
	if w.tgt != nil {
		w.tgt.Close()
	}
	for _, s := range w.servers {
		s.Close()
	}
	if w.gate != nil {
		w.gate.reset()
	}
	if w.sts != nil {
		w.sts.reset()
	}
	if w.dnsStop != nil {
		w.dnsStop()
	}
}

func buildWorld(t *testing.T, c Cfg, tr *vtrace.Tracer) *world {
	cs := theCerts(t)
	w := &world{net: scripted.NewSMTPNet(), sts: newStsGate()}
	zones := map[string]scripted.DNSZone{}
	domZone := scripted.DNSZone{AD: c.AdMX}
	if c.DNS == "servfail" {
		domZone.ServFail = true
	}
	var stsMX []string
	for idx, f := range c.MX {
		i := idx + 1
		host := mxHost(i)
		sc := scripted.SMTPServerConfig{
			Name:     "mx" + strconv.Itoa(i),
			Hostname: host,
			Emit: func(e string, f map[string]interface{}) {
				f["mx"] = i
				tr.Emit(e, vtrace.Ev(f))
			},
		}
		if f.Quit != "" && f.Quit != "bye" {
			sc.QuitMode = f.Quit
		}
		switch f.Stls {
		case "offered":
		case "stripped":
			sc.NoSTARTTLS = true
		case "cmdfail":
			sc.STARTTLSCode = 454
		case "hsfail":
			sc.BreakHandshake = true
		default:
			t.Fatalf("unknown stls class %q", f.Stls)
		}
		leaf, err := cs.Leaf(host, f.Cert)
		if err != nil {
			t.Fatal(err)
		}
		sc.TLS = &tls.Config{Certificates: []tls.Certificate{*leaf}}
		sc.CertClass = f.Cert
		srv, err := scripted.NewSMTPServer(sc)
		if err != nil {
			t.Fatal(err)
		}
		w.servers = append(w.servers, srv)
		w.net.Add(host, srv)
		srv.SetSelect(func(from string, n int) *scripted.SMTPTxn {
			// sender "m<k>@sender.example.org" identifies message k of the history
			k := 0
			for _, ch := range strings.TrimPrefix(from, "m") {
				if ch < '0' || ch > '9' {
					break
				}
				k = k*10 + int(ch-'0')
			}
			if k >= 1 && k <= len(w.msgs) && w.msgs[k-1].MailFail {
				return &scripted.SMTPTxn{Mail: scripted.SMTPReply{Code: 451, Enh: "4.7.1"}}
			}
			return nil
		})
		domZone.MX = append(domZone.MX, net.MX{Host: host + ".", Pref: uint16(10 * i)})
		tlsaZone := func(class string) (scripted.DNSZone, bool) {
			switch class {
			case "none":
				return scripted.DNSZone{AD: true}, true
			case "ee_match":
				return scripted.DNSZone{AD: true, TLSA: tlsaRR(3, 1, 1, scripted.SPKISHA256(leaf.Leaf))}, true
			case "ta_match":
				return scripted.DNSZone{AD: true, TLSA: tlsaRR(2, 1, 1, scripted.SPKISHA256(cs.CA))}, true
			case "mismatch":
				return scripted.DNSZone{AD: true, TLSA: tlsaRR(3, 1, 1,
					"00000000000000000000000000000000000000000000000000000000deadbeef")}, true
			case "unusable":
				// PKIX-EE (usage 1) is not usable for SMTP (RFC 7672 3.1.3)
				return scripted.DNSZone{AD: true, TLSA: tlsaRR(1, 1, 1, scripted.SPKISHA256(leaf.Leaf))}, true
			case "servfail":
				return scripted.DNSZone{AD: true, ServFail: true}, true
			}
			t.Fatalf("unknown tlsa class %q", class)
			return scripted.DNSZone{}, false
		}
		// a TLSA RRset that is not DNSSEC-authenticated must be ignored whatever it says
		insecureRRset := scripted.DNSZone{AD: false, TLSA: tlsaRR(3, 1, 1,
			"00000000000000000000000000000000000000000000000000000000deadbeef")}
		tname := "_25._tcp." + host + "."
		switch f.Cn {
		case "", "no":
			zones[host+"."] = scripted.DNSZone{AD: f.Tlsa != "insecure", A: []string{"127.0.0.1"}}
			if f.Tlsa != "insecure" {
				zones[tname], _ = tlsaZone(f.Tlsa)
			}
		case "sec", "half", "insec":
			canon := "cn" + strconv.Itoa(i) + "." + domain + "."
			zones[host+"."] = scripted.DNSZone{CNAME: canon, AD: f.Cn == "sec", ADCNAME: f.Cn != "insec"}
			zones[canon] = scripted.DNSZone{AD: f.Cn == "sec", A: []string{"127.0.0.1"}}
			cname := "_25._tcp." + canon
			if f.TlsaC == "insecure" {
				zones[cname] = insecureRRset
			} else {
				zones[cname], _ = tlsaZone(f.TlsaC)
			}
			if f.Tlsa == "insecure" {
				zones[tname] = insecureRRset
			} else {
				zones[tname], _ = tlsaZone(f.Tlsa)
			}
		default:
			t.Fatalf("unknown cn class %q", f.Cn)
		}
		if f.StsMatch {
			stsMX = append(stsMX, host)
		}
	}
	zones[domain+"."] = domZone

	// the other recipient domain of "pre" messages: authenticated in every respect (AD, MTA-STS match,
	// valid certificate, no TLSA), but its MX does not offer REQUIRETLS. Its server events carry mx = 0
	// and are not part of the trace handed to the specification.
	{
		oleaf, err := cs.Leaf(otherMX, "valid")
		if err != nil {
			t.Fatal(err)
		}
		osrv, err := scripted.NewSMTPServer(scripted.SMTPServerConfig{
			Name: "mxo", Hostname: otherMX, NoREQUIRETLS: true, CertClass: "valid",
			TLS: &tls.Config{Certificates: []tls.Certificate{*oleaf}},
			Emit: func(e string, f map[string]interface{}) {
				f["mx"] = 0
				tr.Emit(e, vtrace.Ev(f))
			},
		})
		if err != nil {
			t.Fatal(err)
		}
		w.servers = append(w.servers, osrv)
		w.net.Add(otherMX, osrv)
		zones[otherDomain+"."] = scripted.DNSZone{AD: true, MX: []net.MX{{Host: otherMX + ".", Pref: 10}}}
		zones[otherMX+"."] = scripted.DNSZone{AD: true, A: []string{"127.0.0.1"}}
		zones["_25._tcp."+otherMX+"."] = scripted.DNSZone{AD: true}
	}

	// the earlier recipient domain of "late" messages: its MX lookup fails
	zones[lateDomainSF+"."] = scripted.DNSZone{ServFail: true}

	rw, err := newResolverWorld(zones, c.Res)
	if err != nil {
		t.Fatal(err)
	}
	dnsSrv := rw.base
	w.dns = dnsSrv
	w.dnsStop = rw.close
	slow := map[int]bool{}
	for idx, f := range c.MX {
		slow[idx+1] = f.Slow
	}
	w.gate = newDNSGate(slow)
	dnsSrv.Gate = w.gate.gate
	ext := rw.ext

	nolog := log.Logger{Out: log.NopOutput{}}
	if os.Getenv("VERIF_DEBUG") != "" {
		nolog = log.Logger{Out: log.WriterOutput(os.Stderr, false), Debug: true, Name: "remote"}
	}
	var pols []module.MXAuthPolicy
	for _, name := range remote.VerifRemotePolicyOrder {
		switch {
		case name == "mtasts" && has(c.Pols, "mtasts"):
			sts := c.Sts
			pols = append(pols, &stsPolicyWrap{gate: w.sts, tr: tr, inner: remote.VerifRemoteMTASTSPolicy(func(ctx context.Context, d string) (*mtasts.Policy, error) {
				w.sts.wait(ctx, d)
				if isLateDomain(d) {
					// what the earlier recipient domain of a "late" message publishes
					switch w.sts.lateKind() {
					case "testing":
						return &mtasts.Policy{Mode: mtasts.ModeTesting, MX: []string{"mx." + d}, MaxAge: 3600}, nil
					case "match": // an enforce-mode policy listing the MX candidates of the other domain
						var all []string
						for i := range c.MX {
							all = append(all, mxHost(i+1))
						}
						return &mtasts.Policy{Mode: mtasts.ModeEnforce, MX: all, MaxAge: 3600}, nil
					}
					return nil, errors.New("no MTA-STS policy published")
				}
				if d == otherDomain {
					return &mtasts.Policy{Mode: mtasts.ModeTesting, MX: []string{otherMX}, MaxAge: 3600}, nil
				}
				if d != domain {
					return nil, errors.New("wrong domain in MTA-STS lookup")
				}
				mode := mtasts.ModeTesting
				switch sts {
				case "none":
					return nil, errors.New("no MTA-STS policy published")
				case "enforce":
					mode = mtasts.ModeEnforce
				}
				mx := stsMX
				if len(mx) == 0 {
					mx = []string{"nomatch." + domain}
				}
				return &mtasts.Policy{Mode: mode, MX: mx, MaxAge: 3600}, nil
			}, nolog)})
		case name == "dane" && has(c.Pols, "dane"):
			pols = append(pols, &danePolicyWrap{inner: remote.VerifRemoteDANEPolicy(ext, nolog), gate: w.gate, tr: tr})
		case name == "dnssec" && has(c.Pols, "dnssec"):
			pols = append(pols, remote.VerifRemoteDNSSECPolicy())
		case name == "local_policy" && has(c.Pols, "local"):
			pols = append(pols, remote.VerifRemoteLocalPolicy(module.TLSLevel(c.MinTLS), module.MXLevel(c.MinMX)))
		}
	}

	w.tgt = remote.VerifRemoteNewTarget(remote.VerifRemoteConfig{
		Hostname:          "client.example.org",
		Resolver:          &mockdns.Resolver{},
		Dialer:            w.net.DialContext,
		ExtResolver:       ext,
		TLSConfig:         &tls.Config{RootCAs: cs.Pool},
		Policies:          pols,
		AllowSecOverride:  c.Override,
		RelaxedREQUIRETLS: true,
		Pool: pool.Config{MaxKeys: 5000, MaxConnsPerKey: 5, MaxConnLifetimeSec: 150,
			StaleKeyLifetimeSec: 300},
		ConnReuseLimit:    10,
		ConnectTimeout:    20 * time.Second,
		CommandTimeout:    20 * time.Second,
		SubmissionTimeout: 20 * time.Second,
		Log:               nolog,
	})
	return w
}

func cfgEvent(c Cfg) vtrace.Ev {
	mx := []interface{}{}
	for _, f := range c.MX {
		mx = append(mx, map[string]interface{}{"stls": f.Stls, "cert": f.Cert, "stsMatch": f.StsMatch, "tlsa": f.Tlsa, "slow": f.Slow,
			"cn": cnOf(f), "tlsaC": tlsaCOf(f), "quit": quitOf(f)})
	}
	pols := append([]string{}, c.Pols...)
	return vtrace.Ev{"pols": pols, "minTLS": c.MinTLS, "minMX": c.MinMX, "override": c.Override,
		"sts": c.Sts, "adMX": c.AdMX, "dns": c.DNS, "mx": mx, "res": resEvent(c.Res)}
}

func quitOf(f MXFacts) string {
	if f.Quit == "" {
		return "bye"
	}
	return f.Quit
}

func cnOf(f MXFacts) string {
	if f.Cn == "" {
		return "no"
	}
	return f.Cn
}

func tlsaCOf(f MXFacts) string {
	if f.TlsaC == "" {
		return "insecure"
	}
	return f.TlsaC
}

func testHeader() textproto.Header {
	hdr := textproto.Header{}
	hdr.Add("Subject", "verif")
	hdr.Add("From", "<sender@example.org>")
	return hdr
}

func runBehaviour(t *testing.T, b Behaviour, out *bufio.Writer) {
	start := time.Now()
	tr := vtrace.New(out, b.ID)
	tr.Emit("Cfg", cfgEvent(b.Cfg))
	w := buildWorld(t, b.Cfg, tr)
	w.msgs = b.Msgs
	defer w.close()
	ctx, cancel := context.WithTimeout(context.Background(), harnessBudget)
	defer cancel()
	for i, m := range b.Msgs {
		from := fmt.Sprintf("m%d@sender.example.org", i+1)
		meta := &module.MsgMetadata{
			ID:                 fmt.Sprintf("b%dm%d", b.ID, i+1),
			OriginalFrom:       from,
			SMTPOpts:           smtp.MailOptions{RequireTLS: m.ReqTLS},
			TLSRequireOverride: m.TLSNo,
			Quarantine:         m.Quar,
		}
		w.gate.reset()
		w.sts.startMsg(lateOf(m))
		tr.Emit("Msg", vtrace.Ev{"m": i + 1, "reqtls": m.ReqTLS, "tlsno": m.TLSNo, "quar": m.Quar,
			"mailfail": m.MailFail, "qlate": m.QLate, "na": m.NA, "pre": m.Pre, "late": lateOf(m)})
		d, err := w.tgt.Start(ctx, meta, from)
		if err != nil {
			t.Fatalf("behaviour %d: Start failed: %v", b.ID, err)
		}
		if m.Pre {
			perr := d.AddRcpt(ctx, "rcpt@"+otherDomain, smtp.RcptOptions{})
			tr.Emit("Pre", vtrace.Ev{"res": class(perr), "err": errText(perr)})
		}
		if lateOf(m) != "no" {
			// the earlier recipient domain whose MX lookup fails; its MTA-STS lookup stays unanswered
			lerr := d.AddRcpt(ctx, "rcpt@"+lateDomainFor(m.Late), smtp.RcptOptions{})
			tr.Emit("LatePre", vtrace.Ev{"res": class(lerr), "err": errText(lerr)})
			if lerr == nil && !m.Quar {
				t.Fatalf("behaviour %d: the recipient in %s was accepted", b.ID, lateDomainFor(m.Late))
			}
		}
		err = d.AddRcpt(ctx, "rcpt@"+domain, smtp.RcptOptions{})
		w.sts.drain()
		if serr := w.net.Settle(); serr != nil {
			t.Fatalf("HARNESS-TIMEOUT behaviour %d: %v", b.ID, serr)
		}
		tr.Emit("Ret", vtrace.Ev{"op": "addrcpt", "res": class(err), "err": errText(err)})
		if err != nil {
			d.Abort(ctx)
			continue
		}
		if m.QLate {
			// what msgpipeline's checkRunner.applyResults does after a body-stage check
			meta.Quarantine = true
			tr.Emit("Quar", vtrace.Ev{})
		}
		body := buffer.MemoryBuffer{Slice: []byte("hello\r\n")}
		if m.NA {
			pd, ok := d.(module.PartialDelivery)
			if !ok {
				t.Fatalf("behaviour %d: %T is not a PartialDelivery", b.ID, d)
			}
			rec := &naStatus{}
			pd.BodyNonAtomic(ctx, rec, testHeader(), body)
			err = rec.first()
		} else {
			err = d.Body(ctx, testHeader(), body)
		}
		tr.Emit("Ret", vtrace.Ev{"op": "body", "res": class(err), "err": errText(err), "na": m.NA})
		if err != nil {
			d.Abort(ctx)
			continue
		}
		if err := d.Commit(ctx); err != nil {
			t.Fatalf("behaviour %d: Commit failed: %v", b.ID, err)
		}
	}
	w.tgt.Close()
	w.tgt = nil
	if err := w.net.Settle(); err != nil {
		t.Fatalf("HARNESS-TIMEOUT behaviour %d: %v", b.ID, err)
	}
	tr.Emit("End", vtrace.Ev{})
	if w.net.TimedOut || w.gate.TimedOut() || w.sts.TimedOut() || time.Since(start) > harnessBudget || ctx.Err() != nil {
		t.Fatalf("HARNESS-TIMEOUT behaviour %d took %v", b.ID, time.Since(start))
	}
}

// naStatus collects the per-recipient results of BodyNonAtomic (one recipient here).
type naStatus struct {
	mu   sync.Mutex
	errs []error
}

func (n *naStatus) SetStatus(rcptTo string, err error) {
	n.mu.Lock()
	defer n.mu.Unlock()
	n.errs = append(n.errs, err)
}

func (n *naStatus) first() error {
	n.mu.Lock()
	defer n.mu.Unlock()
	for _, e := range n.errs {
		if e != nil {
			return e
		}
	}
	return nil
}

func errText(err error) string {
	if err == nil {
		return ""
	}
	s := err.Error()
	if len(s) > 160 {
		s = s[:160]
	}
	return s
}

// eachBehaviour calls fn for every input line with the trace writer.
func eachBehaviour(t *testing.T, fn func(line []byte, w *bufio.Writer)) int {
	in, out := os.Getenv("VERIF_IN"), os.Getenv("VERIF_OUT")
	if in == "" || out == "" {
		t.Skip("VERIF_IN / VERIF_OUT not set")
	}
	f, err := os.Open(in)
	if err != nil {
		t.Fatal(err)
	}
	defer f.Close()
	of, err := os.Create(out)
	if err != nil {
		t.Fatal(err)
	}
	defer of.Close()
	w := bufio.NewWriter(of)
	defer w.Flush()
	sc := bufio.NewScanner(f)
	sc.Buffer(make([]byte, 1<<20), 1<<26)
	n := 0
	for sc.Scan() {
		fn(sc.Bytes(), w)
		n++
	}
	return n
}

func TestReplay(t *testing.T) {
	n := eachBehaviour(t, func(line []byte, w *bufio.Writer) {
		var b Behaviour
		if err := json.Unmarshal(line, &b); err != nil {
			t.Fatalf("bad behaviour line: %v", err)
		}
		runBehaviour(t, b, w)
	})
	t.Logf("replayed %d behaviours", n)
}
