package remotecheck

// Outstanding TLSA lookups (environment fact mx[i].slow).
//
// mx_auth.dane starts the TLSA lookup for an MX in a goroutine (PrepareConn) and
// waits for it in CheckConn. Whether that lookup is still unanswered when the
// client has already moved on to the next MX is an environment choice (DNS
// latency). A wrapper around the policy's delivery object (it sees PrepareConn
// and CheckConn and can observe the lookup futures through the export shim) and
// a gate in the scripted DNS server decide it without sleeping:
//
//   - MX not slow, nothing outstanding: right after PrepareConn the wrapper waits
//     until the lookup has delivered its result; the lookup is never outstanding
//     when the client moves on.
//   - MX j slow: every DNS answer about MX j is held. It is released when the
//     client itself starts waiting for it (CheckConn for MX j), or when the
//     client has moved on, i.e. PrepareConn for the next MX i has returned from
//     the policy. In the latter case the answers about MX i are held in turn
//     until the lookup for MX j has stored its result SOMEWHERE - in its own
//     future or in the one just created for MX i - and the wrapper logs which
//     (event Lookup{mx: i, cross}); then the answers about MX i are released.
//     Where the late result goes is decided by the code under test; the trace
//     records it and the specification accepts cross = true only as the named
//     deviation.
//
// No outcome depends on a timer; holdCap only bounds a wait that would mean the
// harness logic itself is wrong (reported as a harness time-out, exit 2).

import (
	"context"
	"crypto/tls"
	"strings"
	"sync"
	"time"

	"github.com/foxcpp/maddy/framework/module"
	"github.com/foxcpp/maddy/internal/target/remote"
	"github.com/foxcpp/maddy/verifharness/scripted"
	"github.com/foxcpp/maddy/verifharness/vtrace"
)

const holdCap = 15 * time.Second

type dnsGate struct {
	mu       sync.Mutex
	slow     map[int]bool
	holds    map[int]chan struct{}
	timedOut bool
}

func newDNSGate(slow map[int]bool) *dnsGate {
	return &dnsGate{slow: slow, holds: map[int]chan struct{}{}}
}

// hold makes the DNS server withhold every answer about MX i until release(i).
func (g *dnsGate) hold(i int) {
	g.mu.Lock()
	defer g.mu.Unlock()
	if _, ok := g.holds[i]; !ok {
		g.holds[i] = make(chan struct{})
	}
}

func (g *dnsGate) release(i int) {
	g.mu.Lock()
	defer g.mu.Unlock()
	if ch, ok := g.holds[i]; ok {
		close(ch)
		delete(g.holds, i)
	}
}

// reset releases everything (start of a message: new policy delivery objects; end of a behaviour).
func (g *dnsGate) reset() {
	g.mu.Lock()
	defer g.mu.Unlock()
	for i, ch := range g.holds {
		close(ch)
		delete(g.holds, i)
	}
}

func (g *dnsGate) TimedOut() bool {
	g.mu.Lock()
	defer g.mu.Unlock()
	return g.timedOut
}

func mxOfName(name string) int {
	// "mx2.example.invalid." / "_25._tcp.mx2.example.invalid."
	name = strings.TrimPrefix(name, "_25._tcp.")
	if !strings.HasPrefix(name, "mx") && !strings.HasPrefix(name, "cn") { // cnN = canonical name of mxN
		return 0
	}
	n := 0
	for _, c := range name[2:] {
		if c < '0' || c > '9' {
			break
		}
		n = n*10 + int(c-'0')
	}
	return n
}

// gate is the scripted DNS server's Gate callback.
func (g *dnsGate) gate(q scripted.DNSQuery) {
	i := mxOfName(q.Name)
	if i == 0 {
		return
	}
	g.mu.Lock()
	ch := g.holds[i]
	g.mu.Unlock()
	if ch == nil {
		return
	}
	select {
	case <-ch:
	case <-time.After(holdCap):
		g.mu.Lock()
		g.timedOut = true
		g.mu.Unlock()
	}
}

// ---- wrapper around mx_auth.dane ----

type danePolicyWrap struct {
	inner module.MXAuthPolicy
	gate  *dnsGate
	tr    *vtrace.Tracer
}

func (p *danePolicyWrap) Weight() int { return p.inner.Weight() }
func (p *danePolicyWrap) Start(m *module.MsgMetadata) module.DeliveryMXAuthPolicy {
	return &daneDeliveryWrap{inner: p.inner.Start(m), gate: p.gate, tr: p.tr, pending: map[int]remote.VerifRemoteFuture{}}
}

type daneDeliveryWrap struct {
	inner module.DeliveryMXAuthPolicy
	gate  *dnsGate
	tr    *vtrace.Tracer
	// lookups of slow MXs that were started and that CheckConn has not waited for
	pending map[int]remote.VerifRemoteFuture
}

func (d *daneDeliveryWrap) PrepareDomain(ctx context.Context, domain string) {
	d.inner.PrepareDomain(ctx, domain)
}

// waitAny returns when one of the futures has a result.
func waitAny(ctx context.Context, futs ...remote.VerifRemoteFuture) {
	wctx, cancel := context.WithCancel(ctx)
	defer cancel()
	done := make(chan struct{}, len(futs))
	n := 0
	for _, f := range futs {
		if f == nil {
			continue
		}
		n++
		go func(f remote.VerifRemoteFuture) {
			f.GetContext(wctx)
			done <- struct{}{}
		}(f)
	}
	if n == 0 {
		return
	}
	<-done
}

// isSet reports whether the future has a result (without waiting).
func isSet(f remote.VerifRemoteFuture) bool {
	dead, cancel := context.WithCancel(context.Background())
	cancel()
	_, err := f.GetContext(dead)
	return err != context.Canceled
}

func (d *daneDeliveryWrap) PrepareConn(ctx context.Context, mx string) {
	i := mxOfName(strings.ToLower(mx))
	outstanding := len(d.pending) > 0
	if outstanding || d.gate.slow[i] {
		// slow: the answers stay outstanding until the client waits for them or has moved on;
		// outstanding: this MX's own answers wait until the late ones have landed
		d.gate.hold(i)
	}
	d.inner.PrepareConn(ctx, mx)
	fut := remote.VerifRemoteDANEFuture(d.inner)
	if fut == nil {
		d.gate.release(i)
		return
	}
	cctx, cancel := context.WithTimeout(ctx, holdCap)
	defer cancel()
	if outstanding {
		var futs []remote.VerifRemoteFuture
		for j, f := range d.pending {
			d.gate.release(j) // the client has moved on: the late answers arrive now
			futs = append(futs, f)
			delete(d.pending, j)
		}
		waitAny(cctx, append(futs, fut)...)
		d.tr.Emit("Lookup", vtrace.Ev{"mx": i, "cross": isSet(fut)})
		if !d.gate.slow[i] {
			d.gate.release(i)
		}
	}
	if d.gate.slow[i] {
		d.pending[i] = fut // nobody waits for it unless CheckConn for this MX is reached
		return
	}
	fut.GetContext(cctx)
	if cctx.Err() != nil {
		d.gate.mu.Lock()
		d.gate.timedOut = true
		d.gate.mu.Unlock()
	}
}

func (d *daneDeliveryWrap) CheckMX(ctx context.Context, l module.MXLevel, domain, mx string, dnssec bool) (module.MXLevel, error) {
	return d.inner.CheckMX(ctx, l, domain, mx, dnssec)
}

func (d *daneDeliveryWrap) CheckConn(ctx context.Context, ml module.MXLevel, tl module.TLSLevel, domain, mx string, st tls.ConnectionState) (module.TLSLevel, error) {
	i := mxOfName(strings.ToLower(mx))
	// the client itself waits for this MX's lookup now
	delete(d.pending, i)
	d.gate.release(i)
	return d.inner.CheckConn(ctx, ml, tl, domain, mx, st)
}

func (d *daneDeliveryWrap) Reset(m *module.MsgMetadata) { d.inner.Reset(m) }
