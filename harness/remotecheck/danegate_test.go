package remotecheck

// Deterministic ordering of concurrent TLSA lookups (environment fact mx[i].slow).
//
// mx_auth.dane starts the TLSA lookup for an MX asynchronously in PrepareConn
// and waits for it in CheckConn. Whether the lookup for MX j is still
// unanswered when the client has already moved on to the next MX is an
// environment choice (DNS latency). The harness decides it without sleeping:
//
//   - MX not slow: the wrapper around the policy's delivery object waits, right
//     after PrepareConn, until the lookup has delivered its result; the lookup can
//     never be outstanding when the client moves on.
//   - MX j slow: the DNS server holds every answer about MX j until it sees a
//     query about another MX (the client has moved on) - or, when the client
//     itself waits for that answer in CheckConn, until holdMax expires.
//     Answers about the MX the client moved on to are then held in turn until
//     the wrapper has seen that MX's future filled (with the correct code that
//     is only possible through these very answers, so holdMax bounds the wait).
//
// The fall-back holdMax only bounds how long the code under test is kept
// waiting for an answer it legitimately needs; it never decides an outcome.

import (
	"context"
	"crypto/tls"
	"strings"
	"sync"
	"time"

	"github.com/foxcpp/maddy/framework/module"
	"github.com/foxcpp/maddy/internal/target/remote"
	"github.com/foxcpp/maddy/verifharness/scripted"
)

const holdMax = 400 * time.Millisecond

type dnsGate struct {
	mu       sync.Mutex
	slow     map[int]bool
	release  map[int]chan struct{} // slow MX -> closed when the client has moved on
	victim   map[int]chan struct{} // MX whose answers wait for its future to be filled
	released map[int]bool
}

func newDNSGate(slow map[int]bool) *dnsGate {
	g := &dnsGate{slow: slow}
	g.reset()
	return g
}

// reset is called at the start of every message (new policy delivery objects).
func (g *dnsGate) reset() {
	g.mu.Lock()
	defer g.mu.Unlock()
	for _, ch := range g.release {
		select {
		case <-ch:
		default:
			close(ch)
		}
	}
	for _, ch := range g.victim {
		select {
		case <-ch:
		default:
			close(ch)
		}
	}
	g.release = map[int]chan struct{}{}
	g.victim = map[int]chan struct{}{}
	g.released = map[int]bool{}
	for i, s := range g.slow {
		if s {
			g.release[i] = make(chan struct{})
		}
	}
}

func mxOfName(name string) int {
	// "mx2.example.invalid." / "_25._tcp.mx2.example.invalid."
	name = strings.TrimPrefix(name, "_25._tcp.")
	if !strings.HasPrefix(name, "mx") {
		return 0
	}
	n := 0
	for _, c := range name[2:] {
		if c < '0' || c > '9' {
			break
		}
		n = n*10 + int(c-'0')
	}
	return n
}

func (g *dnsGate) gate(q scripted.DNSQuery) {
	i := mxOfName(q.Name)
	if i == 0 {
		return
	}
	g.mu.Lock()
	var wait chan struct{}
	// a query about MX i shows that the client has moved on from every other MX
	for j, ch := range g.release {
		if j != i && !g.released[j] {
			g.released[j] = true
			close(ch)
			if _, ok := g.victim[i]; !ok && !g.slow[i] {
				g.victim[i] = make(chan struct{})
			}
		}
	}
	own := g.slow[i] && !g.released[i]
	if own {
		wait = g.release[i]
	} else if ch, ok := g.victim[i]; ok {
		wait = ch
	}
	g.mu.Unlock()
	if wait != nil {
		select {
		case <-wait:
		case <-time.After(holdMax):
			if own { // the client itself is waiting for this answer: no longer outstanding
				g.mu.Lock()
				if !g.released[i] {
					g.released[i] = true
					close(g.release[i])
				}
				g.mu.Unlock()
			}
		}
	}
}

// filled is called by the wrapper when the future of MX i has a result.
func (g *dnsGate) filled(i int) {
	g.mu.Lock()
	defer g.mu.Unlock()
	if ch, ok := g.victim[i]; ok {
		select {
		case <-ch:
		default:
			close(ch)
		}
	}
}

// ---- wrapper around mx_auth.dane ----

type danePolicyWrap struct {
	inner module.MXAuthPolicy
	gate  *dnsGate
}

func (p *danePolicyWrap) Weight() int { return p.inner.Weight() }
func (p *danePolicyWrap) Start(m *module.MsgMetadata) module.DeliveryMXAuthPolicy {
	return &daneDeliveryWrap{inner: p.inner.Start(m), gate: p.gate}
}

type daneDeliveryWrap struct {
	inner module.DeliveryMXAuthPolicy
	gate  *dnsGate
}

func (d *daneDeliveryWrap) PrepareDomain(ctx context.Context, domain string) {
	d.inner.PrepareDomain(ctx, domain)
}

func (d *daneDeliveryWrap) PrepareConn(ctx context.Context, mx string) {
	d.inner.PrepareConn(ctx, mx)
	i := mxOfName(strings.ToLower(mx))
	if d.gate.slow[i] {
		return // the answer is outstanding when the client moves on
	}
	wctx, cancel := context.WithTimeout(ctx, 4*holdMax)
	remote.VerifRemoteDANEAwait(wctx, d.inner)
	cancel()
	d.gate.filled(i)
}

func (d *daneDeliveryWrap) CheckMX(ctx context.Context, l module.MXLevel, domain, mx string, dnssec bool) (module.MXLevel, error) {
	return d.inner.CheckMX(ctx, l, domain, mx, dnssec)
}

func (d *daneDeliveryWrap) CheckConn(ctx context.Context, ml module.MXLevel, tl module.TLSLevel, domain, mx string, st tls.ConnectionState) (module.TLSLevel, error) {
	return d.inner.CheckConn(ctx, ml, tl, domain, mx, st)
}

func (d *daneDeliveryWrap) Reset(m *module.MsgMetadata) { d.inner.Reset(m) }
