package remotecheck

// C09, inbound side: replays behaviours of RcptStatusEndp.tla on the real LMTP
// endpoint (internal/endpoint/smtp built from configuration nodes: real go-smtp
// LMTP server, real Session, real msgpipeline) in front of a scripted partial
// delivery target, speaking raw LMTP over an in-memory connection, and records
// what is visible on the client side of the socket: the class of the reply to
// every RCPT TO and the per-recipient replies that follow the message content
// (the address each names, its class, in the order they were written).
//
// Input:  {"id":N,"cfg":{"bdat":b},"steps":[{"a":"Txn","st":{..}},{"a":"Rcpt","m":..,"s":..,"res":..},
//                                            {"a":"Data"}|{"a":"Rset"} ...]}

import (
	"bufio"
	"encoding/json"
	"fmt"
	"io"
	"net"
	"os"
	"strconv"
	"strings"
	"testing"
	"time"

	"context"
	"github.com/foxcpp/maddy/framework/config"
	"github.com/foxcpp/maddy/framework/log"
	smtpendp "github.com/foxcpp/maddy/internal/endpoint/smtp"
	"github.com/foxcpp/maddy/verifharness/scripted"
	"sync"

	"github.com/emersion/go-message/textproto"
	"github.com/emersion/go-smtp"
	"github.com/foxcpp/maddy/framework/buffer"
	"github.com/foxcpp/maddy/framework/module"
	"github.com/foxcpp/maddy/verifharness/vtrace"
)

type EStep struct {
	A   string            `json:"a"`
	M   string            `json:"m"`
	S   string            `json:"s"`
	Res string            `json:"res"`
	St  map[string]string `json:"st"`
}

type EBehaviour struct {
	ID  int `json:"id"`
	Cfg struct {
		Bdat bool `json:"bdat"`
	} `json:"cfg"`
	Steps []EStep `json:"steps"`
}

// Concrete addresses (harness-level concretisation of mailbox x spelling): "u" and "w"
// live in an ASCII domain (spellings differ in the case of the domain), "v" in an
// internationalized one (normalised form: U-label; the other spellings are A-labels).
var endpAddrs = map[string]map[string]string{
	"u": {"n": "u@lmtp.invalid", "a": "u@LMTP.INVALID", "b": "u@Lmtp.Invalid"},
	"v": {"n": "v@é.invalid", "a": "v@xn--9ca.invalid", "b": "v@XN--9CA.Invalid"},
	"w": {"n": "w@lmtp.invalid", "a": "w@LMTP.INVALID", "b": "w@lmtp.Invalid"},
}

func endpTok(addr string) (m, s string) {
	for m, sp := range endpAddrs {
		for s, a := range sp {
			if a == addr {
				return m, s
			}
		}
	}
	return "other", "other"
}

// the target is handed the normalised address
func endpID(addr string) string {
	for m, sp := range endpAddrs {
		if sp["n"] == addr {
			return m
		}
	}
	return "other"
}

type pipeListener struct {
	ch     chan net.Conn
	closed chan struct{}
}

func newPipeListener() *pipeListener {
	return &pipeListener{ch: make(chan net.Conn, 1), closed: make(chan struct{})}
}
func (l *pipeListener) Accept() (net.Conn, error) {
	select {
	case c := <-l.ch:
		return c, nil
	case <-l.closed:
		return nil, net.ErrClosed
	}
}
func (l *pipeListener) Close() error {
	select {
	case <-l.closed:
	default:
		close(l.closed)
	}
	return nil
}
func (l *pipeListener) Addr() net.Addr { return &net.UnixAddr{Name: "verif-lmtp", Net: "unix"} }

type lmtpReply struct {
	code int
	text string // first line, after the code
}

// lmtpClient: a reader goroutine parses replies into a channel so that writes never
// wait for the server to drain its own output (net.Pipe is unbuffered).
type lmtpClient struct {
	c       net.Conn
	replies chan lmtpReply
}

func newLMTPClient(c net.Conn) *lmtpClient {
	cl := &lmtpClient{c: c, replies: make(chan lmtpReply, 256)}
	go func() {
		defer close(cl.replies)
		r := bufio.NewReader(c)
		first := ""
		for {
			line, err := r.ReadString('\n')
			if err != nil {
				return
			}
			line = strings.TrimRight(line, "\r\n")
			if len(line) < 4 {
				continue
			}
			if first == "" {
				first = line[4:]
			}
			if line[3] == '-' {
				continue
			}
			code, _ := strconv.Atoi(line[:3])
			cl.replies <- lmtpReply{code: code, text: first}
			first = ""
		}
	}()
	return cl
}

const lmtpBudget = 30 * time.Second

// read returns the next reply; ok = false when the server closed the connection.
func (cl *lmtpClient) read(t *testing.T, id int) (lmtpReply, bool) {
	select {
	case r, ok := <-cl.replies:
		return r, ok
	case <-time.After(lmtpBudget):
		t.Fatalf("HARNESS-TIMEOUT behaviour %d: no reply from the LMTP endpoint", id)
	}
	return lmtpReply{}, false
}

func (cl *lmtpClient) send(s string) error {
	cl.c.SetWriteDeadline(time.Now().Add(lmtpBudget))
	_, err := io.WriteString(cl.c, s)
	return err
}

func codeClass(code int) string {
	switch code / 100 {
	case 2:
		return "ok"
	case 4:
		return "temp"
	}
	return "perm"
}

// the address a per-recipient reply names: "<addr> text" after the enhanced code
func replyAddr(text string) (string, bool) {
	f := strings.SplitN(text, " ", 2)
	if len(f) == 2 && strings.Count(f[0], ".") == 2 {
		text = f[1]
	}
	if !strings.HasPrefix(text, "<") {
		return "", false
	}
	i := strings.Index(text, ">")
	if i < 0 {
		return "", false
	}
	return text[1:i], true
}

func runEndpBehaviour(t *testing.T, b EBehaviour, w io.Writer) {
	tr := vtrace.New(w, b.ID)
	tr.Emit("Cfg", vtrace.Ev{"bdat": b.Cfg.Bdat})

	// fault plans of the target, one per transaction; the transaction is identified by its
	// sender (t<k>@src.invalid), not by counting Start calls: whether the pipeline starts the
	// target's delivery at MAIL or at the first routed RCPT is its own business
	var plans []endpPlan
	for _, s := range b.Steps {
		switch s.A {
		case "Txn":
			st := map[string]string{}
			for k, v := range s.St {
				st[k] = v
			}
			plans = append(plans, endpPlan{status: st})
		case "Rcpt":
			if s.M != "w" && len(plans) > 0 {
				p := &plans[len(plans)-1]
				p.rcpt = append(p.rcpt, [2]string{s.M, s.Res})
			}
		}
	}
	tgt := &endpTarget{tr: tr, plans: plans}
	setEndpTarget(tgt)

	mod, err := smtpendp.New("lmtp", nil)
	if err != nil {
		t.Fatal(err)
	}
	endp := mod.(*smtpendp.Endpoint)
	endp.Log = log.Logger{Out: log.NopOutput{}}
	if os.Getenv("VERIF_DEBUG") != "" {
		endp.Log = log.Logger{Out: log.WriterOutput(os.Stderr, false), Debug: true, Name: "lmtp"}
	}
	node := func(name string, args []string, children ...config.Node) config.Node {
		return config.Node{Name: name, Args: args, Children: children}
	}
	nodes := []config.Node{
		node("hostname", []string{"mx.verif.test"}),
		node("tls", []string{"off"}),
		node("destination", []string{endpAddrs["w"]["n"]}, node("reject", []string{"550", "5.1.1", "no such user"})),
		node("default_destination", nil, node("deliver_to", []string{"verifendp"})),
	}
	if err := endp.Init(config.NewMap(map[string]interface{}{}, config.Node{Children: nodes})); err != nil {
		t.Fatalf("behaviour %d: endpoint init: %v", b.ID, err)
	}
	l := newPipeListener()
	served := make(chan error, 1)
	go func() { served <- endp.VerifSessionServe(l) }()
	cside, sside := net.Pipe()
	l.ch <- sside
	cl := newLMTPClient(cside)
	defer func() {
		cside.Close()
		l.Close()
		endp.Close()
		select {
		case <-served:
		case <-time.After(lmtpBudget):
			t.Fatalf("HARNESS-TIMEOUT behaviour %d: the endpoint does not shut down", b.ID)
		}
	}()

	closed := false
	expect := func(what string, want int) bool {
		r, ok := cl.read(t, b.ID)
		if !ok {
			closed = true
			return false
		}
		if r.code/100 != want {
			t.Fatalf("behaviour %d: %s answered %d %s", b.ID, what, r.code, r.text)
		}
		return true
	}
	if expect("greeting", 2) {
		cl.send("LHLO client.verif.test\r\n")
		expect("LHLO", 2)
	}

	body := "From: <sender@src.invalid>\r\nSubject: verif\r\n\r\nhello\r\n"
	accepted := 0
	txn := 0
	for _, s := range b.Steps {
		if closed {
			break
		}
		switch s.A {
		case "Txn":
			accepted = 0
			// SMTPUTF8 is asked for whenever the transaction may carry a non-ASCII address
			txn++
			cl.send(fmt.Sprintf("MAIL FROM:<t%d@src.invalid> SMTPUTF8\r\n", txn))
			if !expect("MAIL", 2) {
				break
			}
			st := map[string]interface{}{}
			for k, v := range s.St {
				st[k] = v
			}
			tr.Emit("Txn", vtrace.Ev{"st": st})
		case "Rcpt":
			addr := endpAddrs[s.M][s.S]
			if addr == "" {
				t.Fatalf("behaviour %d: unknown mailbox/spelling %s/%s", b.ID, s.M, s.S)
			}
			cl.send("RCPT TO:<" + addr + ">\r\n")
			r, ok := cl.read(t, b.ID)
			if !ok {
				closed = true
				break
			}
			if r.code/100 == 2 {
				accepted++
			}
			tr.Emit("Rcpt", vtrace.Ev{"m": s.M, "s": s.S, "res": codeClass(r.code), "code": r.code, "addr": addr})
		case "Rset":
			cl.send("RSET\r\n")
			if expect("RSET", 2) {
				tr.Emit("Rset", vtrace.Ev{})
			}
		case "Data":
			if accepted == 0 {
				// nothing was accepted where the behaviour expected it: DATA would be out of sequence
				cl.send("RSET\r\n")
				if expect("RSET", 2) {
					tr.Emit("Rset", vtrace.Ev{"instead": "data"})
				}
				break
			}
			if b.Cfg.Bdat {
				cl.send(fmt.Sprintf("BDAT %d LAST\r\n%s", len(body), body))
			} else {
				cl.send("DATA\r\n")
				r, ok := cl.read(t, b.ID)
				if !ok {
					closed = true
					break
				}
				if r.code != 354 {
					tr.Emit("DataRefused", vtrace.Ev{"code": r.code, "text": r.text})
					break
				}
				cl.send(body + ".\r\n")
			}
			// The per-recipient replies are followed by the reply to a NOOP, which names no
			// address: everything before it (or before the connection is closed) is a reply
			// of the transaction.
			cl.send("NOOP\r\n")
			reps := []interface{}{}
			for {
				r, ok := cl.read(t, b.ID)
				if !ok {
					closed = true
					break
				}
				addr, named := replyAddr(r.text)
				if !named {
					break
				}
				m, sp := endpTok(addr)
				reps = append(reps, map[string]interface{}{"m": m, "s": sp, "v": codeClass(r.code), "code": r.code, "addr": addr})
			}
			tr.Emit("Replies", vtrace.Ev{"reps": reps})
			accepted = 0
		}
	}
	if closed {
		tr.Emit("Closed", vtrace.Ev{})
	} else {
		cl.send("QUIT\r\n")
		cl.read(t, b.ID)
	}
	tr.Emit("End", vtrace.Ev{"open": tgt.openCount()})
}

func TestReplayLmtpEndp(t *testing.T) {
	in, out := os.Getenv("VERIF_IN"), os.Getenv("VERIF_OUT")
	if in == "" || out == "" {
		t.Skip("VERIF_IN / VERIF_OUT not set")
	}
	f, err := os.Open(in)
	if err != nil {
		t.Fatal(err)
	}
	defer f.Close()
	of, err := os.Create(out)
	if err != nil {
		t.Fatal(err)
	}
	defer of.Close()
	sc := bufio.NewScanner(f)
	sc.Buffer(make([]byte, 1<<20), 1<<26)
	n := 0
	for sc.Scan() {
		var b EBehaviour
		if err := json.Unmarshal(sc.Bytes(), &b); err != nil {
			t.Fatalf("bad behaviour line: %v", err)
		}
		runEndpBehaviour(t, b, of)
		n++
	}
	t.Logf("replayed %d behaviours", n)
}

// ---- the scripted partial delivery target behind the endpoint's pipeline ----

type endpPlan struct {
	rcpt   [][2]string       // (mailbox, result) of the AddRcpt calls, consumed in order per mailbox
	status map[string]string // mailbox -> result reported by BodyNonAtomic
}

type endpTarget struct {
	tr    *vtrace.Tracer
	plans []endpPlan
	mu    sync.Mutex
	open  int
}

var (
	endpMu   sync.Mutex
	endpCur  *endpTarget
	endpOnce sync.Once
)

func setEndpTarget(t *endpTarget) {
	endpOnce.Do(func() {
		module.Register("target.verifendp", func(modName, instName string, aliases, inlineArgs []string) (module.Module, error) {
			endpMu.Lock()
			defer endpMu.Unlock()
			return endpCur, nil
		})
	})
	endpMu.Lock()
	endpCur = t
	endpMu.Unlock()
}

func (t *endpTarget) Name() string               { return "verifendp" }
func (t *endpTarget) InstanceName() string       { return "verifendp" }
func (t *endpTarget) Init(cfg *config.Map) error { return nil }
func (t *endpTarget) openCount() int {
	t.mu.Lock()
	defer t.mu.Unlock()
	return t.open
}

type endpDelivery struct {
	t      *endpTarget
	k      int
	plan   endpPlan
	used   []bool
	acc    []string // mailbox ids, one per accepted AddRcpt, in order
	addrs  []string
	closed bool
}

func (t *endpTarget) Start(ctx context.Context, msgMeta *module.MsgMetadata, mailFrom string) (module.Delivery, error) {
	k := 0
	if strings.HasPrefix(mailFrom, "t") {
		for _, ch := range mailFrom[1:] {
			if ch < '0' || ch > '9' {
				break
			}
			k = k*10 + int(ch-'0')
		}
	}
	d := &endpDelivery{t: t, k: k}
	if k >= 1 && k <= len(t.plans) {
		d.plan = t.plans[k-1]
	}
	d.used = make([]bool, len(d.plan.rcpt))
	t.mu.Lock()
	t.open++
	t.mu.Unlock()
	t.tr.Emit("Tgt", vtrace.Ev{"op": "start", "txn": k})
	return d, nil
}

func (d *endpDelivery) AddRcpt(ctx context.Context, rcptTo string, _ smtp.RcptOptions) error {
	m := endpID(rcptTo)
	res := "ok"
	for i, pr := range d.plan.rcpt {
		if !d.used[i] && pr[0] == m {
			d.used[i] = true
			res = pr[1]
			break
		}
	}
	d.t.tr.Emit("Tgt", vtrace.Ev{"op": "rcpt", "txn": d.k, "m": m, "addr": rcptTo, "res": res})
	if err := scripted.ErrFor(res, "verifendp AddRcpt"); err != nil {
		return err
	}
	d.acc = append(d.acc, m)
	d.addrs = append(d.addrs, rcptTo)
	return nil
}

func (d *endpDelivery) status(m string) string {
	if v := d.plan.status[m]; v != "" {
		return v
	}
	return "ok"
}

func (d *endpDelivery) Body(ctx context.Context, header textproto.Header, body buffer.Buffer) error {
	d.t.tr.Emit("Tgt", vtrace.Ev{"op": "body", "txn": d.k})
	for _, m := range d.acc {
		if err := scripted.ErrFor(d.status(m), "verifendp Body"); err != nil {
			return err
		}
	}
	return nil
}

// one result per accepted AddRcpt call, under the address it was given, in order
func (d *endpDelivery) BodyNonAtomic(ctx context.Context, c module.StatusCollector, header textproto.Header, body buffer.Buffer) {
	d.t.tr.Emit("Tgt", vtrace.Ev{"op": "bodyNA", "txn": d.k, "n": len(d.acc)})
	for i, m := range d.acc {
		c.SetStatus(d.addrs[i], scripted.ErrFor(d.status(m), "verifendp BodyNonAtomic"))
	}
}

func (d *endpDelivery) close() {
	if !d.closed {
		d.closed = true
		d.t.mu.Lock()
		d.t.open--
		d.t.mu.Unlock()
	}
}

func (d *endpDelivery) Commit(ctx context.Context) error {
	d.t.tr.Emit("Tgt", vtrace.Ev{"op": "commit", "txn": d.k})
	d.close()
	return nil
}

func (d *endpDelivery) Abort(ctx context.Context) error {
	d.t.tr.Emit("Tgt", vtrace.Ev{"op": "abort", "txn": d.k})
	d.close()
	return nil
}
