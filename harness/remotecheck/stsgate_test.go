package remotecheck

// Outstanding MTA-STS policy lookups (message fact msg.late of Remote.tla).
//
// mx_auth.mtasts starts the policy lookup for a recipient domain in a goroutine
// (PrepareDomain) and waits for it in CheckMX.  One delivery object serves ALL
// recipient domains of a message.  When the MX lookup of a domain fails, nobody
// waits for its policy lookup, which may therefore still be unanswered when
// PrepareDomain runs for the next recipient domain - an environment choice (the
// latency of a policy host).  As for the TLSA lookups (danegate_test.go) a wrapper
// around the policy's delivery object and a gate in the injected policy fetch
// decide it without sleeping:
//
//   - the fetch for the "late" domain is held;
//   - when PrepareDomain for the next domain has returned from the policy, the
//     fetch for THAT domain is held in turn, the late fetch is released, and the
//     wrapper waits until its result has been stored somewhere - in the future it
//     was started for, or in the one just created for the next domain - and logs
//     which (event StsLookup{cross}); then the next domain's fetch is released;
//   - a late fetch nobody overtook is released when AddRcpt has returned.
//
// Where the late result goes is decided by the code under test.

import (
	"context"
	"crypto/tls"
	"sync"

	"github.com/foxcpp/maddy/framework/module"
	"github.com/foxcpp/maddy/internal/target/remote"
	"github.com/foxcpp/maddy/verifharness/vtrace"
)

// the earlier recipient domains of a "late" message: the MX lookup of the first does not
// exist (NXDOMAIN), that of the second fails (SERVFAIL)
const lateDomainNX = "late.invalid"
const lateDomainSF = "late2.invalid"

func isLateDomain(d string) bool { return d == lateDomainNX || d == lateDomainSF }

// lateDomainFor: which of the two a message uses (harness-level concretisation; the
// specification does not distinguish the two ways an MX lookup fails here).
func lateDomainFor(late string) string {
	if late == "testing" {
		return lateDomainSF
	}
	return lateDomainNX
}

type stsGate struct {
	mu       sync.Mutex
	holds    map[string]chan struct{}
	timedOut bool
	late     string // msg.late of the message in delivery
	cur      *stsDeliveryWrap
}

func newStsGate() *stsGate { return &stsGate{holds: map[string]chan struct{}{}} }

func (g *stsGate) hold(domain string) {
	g.mu.Lock()
	defer g.mu.Unlock()
	if _, ok := g.holds[domain]; !ok {
		g.holds[domain] = make(chan struct{})
	}
}

func (g *stsGate) release(domain string) {
	g.mu.Lock()
	defer g.mu.Unlock()
	if ch, ok := g.holds[domain]; ok {
		close(ch)
		delete(g.holds, domain)
	}
}

func (g *stsGate) reset() {
	g.mu.Lock()
	defer g.mu.Unlock()
	for d, ch := range g.holds {
		close(ch)
		delete(g.holds, d)
	}
}

func (g *stsGate) setTimedOut() {
	g.mu.Lock()
	g.timedOut = true
	g.mu.Unlock()
}

func (g *stsGate) TimedOut() bool {
	g.mu.Lock()
	defer g.mu.Unlock()
	return g.timedOut
}

func (g *stsGate) startMsg(late string) {
	g.reset()
	g.mu.Lock()
	g.late = late
	g.cur = nil
	g.mu.Unlock()
}

func (g *stsGate) lateKind() string {
	g.mu.Lock()
	defer g.mu.Unlock()
	return g.late
}

// wait is called by the injected policy fetch before it answers for domain.
func (g *stsGate) wait(ctx context.Context, domain string) {
	g.mu.Lock()
	ch := g.holds[domain]
	g.mu.Unlock()
	if ch == nil {
		return
	}
	cctx, cancel := context.WithTimeout(context.Background(), holdCap)
	defer cancel()
	select {
	case <-ch:
	case <-cctx.Done():
		g.setTimedOut()
	}
}

// drain: AddRcpt has returned; a late lookup that is still held answers now (into
// whatever future the code under test stores it in) and is waited for.
func (g *stsGate) drain() {
	g.mu.Lock()
	d := g.cur
	g.mu.Unlock()
	g.reset()
	if d == nil || d.pending == nil {
		return
	}
	cctx, cancel := context.WithTimeout(context.Background(), holdCap)
	defer cancel()
	waitAny(cctx, d.pending, remote.VerifRemoteMTASTSFuture(d.inner))
	if cctx.Err() != nil {
		g.setTimedOut()
	}
	d.pending = nil
}

type stsPolicyWrap struct {
	inner module.MXAuthPolicy
	gate  *stsGate
	tr    *vtrace.Tracer
}

func (p *stsPolicyWrap) Weight() int { return p.inner.Weight() }
func (p *stsPolicyWrap) Start(m *module.MsgMetadata) module.DeliveryMXAuthPolicy {
	d := &stsDeliveryWrap{inner: p.inner.Start(m), gate: p.gate, tr: p.tr}
	p.gate.mu.Lock()
	p.gate.cur = d
	p.gate.mu.Unlock()
	return d
}

type stsDeliveryWrap struct {
	inner module.DeliveryMXAuthPolicy
	gate  *stsGate
	tr    *vtrace.Tracer
	// the lookup of the late domain, started and not yet known to have answered
	pending remote.VerifRemoteFuture
}

func (d *stsDeliveryWrap) PrepareDomain(ctx context.Context, domain string) {
	switch {
	case isLateDomain(domain):
		d.gate.hold(domain)
		d.inner.PrepareDomain(ctx, domain)
		d.pending = remote.VerifRemoteMTASTSFuture(d.inner)
	case d.pending != nil:
		d.gate.hold(domain) // this domain's own answer waits until the late one has landed
		d.inner.PrepareDomain(ctx, domain)
		fut := remote.VerifRemoteMTASTSFuture(d.inner)
		d.gate.release(lateDomainNX)
		d.gate.release(lateDomainSF)
		cctx, cancel := context.WithTimeout(ctx, holdCap)
		waitAny(cctx, d.pending, fut)
		if cctx.Err() != nil {
			d.gate.setTimedOut()
		}
		cancel()
		d.tr.Emit("StsLookup", vtrace.Ev{"cross": fut != nil && isSet(fut)})
		d.pending = nil
		d.gate.release(domain)
	default:
		d.inner.PrepareDomain(ctx, domain)
	}
}

func (d *stsDeliveryWrap) PrepareConn(ctx context.Context, mx string) { d.inner.PrepareConn(ctx, mx) }

func (d *stsDeliveryWrap) CheckMX(ctx context.Context, l module.MXLevel, domain, mx string, dnssec bool) (module.MXLevel, error) {
	return d.inner.CheckMX(ctx, l, domain, mx, dnssec)
}

func (d *stsDeliveryWrap) CheckConn(ctx context.Context, ml module.MXLevel, tl module.TLSLevel, domain, mx string, st tls.ConnectionState) (module.TLSLevel, error) {
	return d.inner.CheckConn(ctx, ml, tl, domain, mx, st)
}

func (d *stsDeliveryWrap) Reset(m *module.MsgMetadata) { d.inner.Reset(m) }
