package remotecheck

// The resolver list of the DNSSEC-aware stub resolver (cfg.res of Remote.tla):
// which server of the list answers a query, and whether that server is one whose
// AD flag means anything (a loopback one), is an environment fact.  The harness
// starts one scripted DNS server per entry (same zone data, same port, different
// addresses; scripted.DNSResolverSet) and hands the real dns.ExtResolver the
// list.  Whether the code under test believes an AD flag is then read off what
// the MX servers saw, by the clauses of RemoteObs.

import (
	"github.com/foxcpp/maddy/framework/dns"
	"github.com/foxcpp/maddy/internal/target/remote"
	"github.com/foxcpp/maddy/verifharness/scripted"
)

type ResFacts struct {
	Loop bool     `json:"loop"`
	Fail []string `json:"fail"` // classes of queries the server fails: "MX", "HOST"
}

func defaultRes(rs []ResFacts) bool {
	return len(rs) == 0 || (len(rs) == 1 && rs[0].Loop && len(rs[0].Fail) == 0)
}

// resolverWorld is the DNS side of a behaviour.
type resolverWorld struct {
	base  *scripted.DNSServer // zone data, Gate
	ext   *dns.ExtResolver
	close func()
}

func newResolverWorld(zones map[string]scripted.DNSZone, rs []ResFacts) (*resolverWorld, error) {
	if defaultRes(rs) {
		// one resolver on 127.0.0.1 (what every behaviour without the dimension uses)
		srv, err := scripted.NewDNSServer(zones)
		if err != nil {
			return nil, err
		}
		ext, err := remote.VerifRemoteExtResolver(srv.Host(), srv.Port())
		if err != nil {
			srv.Close()
			return nil, err
		}
		return &resolverWorld{base: srv, ext: ext, close: srv.Close}, nil
	}
	var specs []scripted.DNSResolverSpec
	for _, r := range rs {
		specs = append(specs, scripted.DNSResolverSpec{Loopback: r.Loop, FailMX: has(r.Fail, "MX"), FailHost: has(r.Fail, "HOST")})
	}
	set, err := scripted.NewDNSResolverSet(zones, specs)
	if err != nil {
		return nil, err
	}
	ext, err := remote.VerifRemoteExtResolver(set.Addrs[0], set.Port)
	if err != nil {
		set.Close()
		return nil, err
	}
	ext.Cfg.Servers = append([]string{}, set.Addrs...)
	return &resolverWorld{base: set.Base, ext: ext, close: set.Close}, nil
}

func resEvent(rs []ResFacts) []interface{} {
	if len(rs) == 0 {
		rs = []ResFacts{{Loop: true}}
	}
	out := []interface{}{}
	for _, r := range rs {
		out = append(out, map[string]interface{}{"loop": r.Loop, "fail": append([]string{}, r.Fail...)})
	}
	return out
}
