package remotecheck

// C09, pipeline part: replays behaviours of PipeStatus.tla on the real
// msgpipeline (msgpipeline.New from configuration text, the real replace_rcpt
// modifier over a static table) in front of a scripted partial target and
// records which (address, result) pairs the pipeline hands to the
// StatusCollector passed to its BodyNonAtomic.

import (
	"bufio"
	"context"
	"encoding/json"
	"fmt"
	"strings"
	"testing"

	"github.com/emersion/go-smtp"
	"github.com/foxcpp/maddy/framework/buffer"
	parser "github.com/foxcpp/maddy/framework/cfgparser"
	"github.com/foxcpp/maddy/framework/log"
	"github.com/foxcpp/maddy/framework/module"
	_ "github.com/foxcpp/maddy/internal/modify"
	"github.com/foxcpp/maddy/internal/msgpipeline"
	_ "github.com/foxcpp/maddy/internal/table"
	"github.com/foxcpp/maddy/verifharness/scripted"
	"github.com/foxcpp/maddy/verifharness/vtrace"
)

type PCfg struct {
	Rw    map[string][]string `json:"rw"`
	Scope string              `json:"scope"` // whose modifiers hold the rewrite rules: global | source | dest
}

type PTxn struct {
	Rcpts []string `json:"rcpts"`
	St    PPlan    `json:"st"`
}

// PPlan: per-recipient results of a partial target, or the one Body result of an atomic target.
type PPlan struct {
	St     map[string]string `json:"st"`
	Atomic bool              `json:"atomic"`
	Body   string            `json:"body"`
}

type PBehaviour struct {
	ID  int  `json:"id"`
	Cfg PCfg `json:"cfg"`
	Txn PTxn `json:"txn"`
}

func pipeAddr(id string) string { return strings.ToLower(id) + "@pipe.invalid" }
func pipeID(a string) string {
	if strings.HasSuffix(a, "@pipe.invalid") && len(a) == len("a@pipe.invalid") {
		return strings.ToUpper(a[:1])
	}
	return "other"
}

func runPipeBehaviour(t *testing.T, b PBehaviour, out *bufio.Writer) {
	tr := vtrace.New(out, b.ID)
	if b.Cfg.Scope == "" {
		b.Cfg.Scope = "global"
	}
	tr.Emit("Cfg", vtrace.Ev{"rw": map[string]interface{}{"A": b.Cfg.Rw["A"], "B": b.Cfg.Rw["B"]}, "scope": b.Cfg.Scope})

	var sb strings.Builder
	entries := 0
	var tbl strings.Builder
	for _, x := range []string{"A", "B"} {
		rw := b.Cfg.Rw[x]
		if len(rw) == 1 && rw[0] == x {
			continue // identity: no table entry
		}
		tbl.WriteString("        entry " + pipeAddr(x))
		for _, e := range rw {
			tbl.WriteString(" " + pipeAddr(e))
		}
		tbl.WriteString("\n")
		entries++
	}
	modify := ""
	if entries > 0 {
		modify = "modify {\n    replace_rcpt static {\n" + tbl.String() + "    }\n}\n"
	}
	switch b.Cfg.Scope {
	case "global":
		sb.WriteString(modify + "deliver_to verifscripted T1\n")
	case "source": // sender@pipe.invalid matches the source block
		sb.WriteString("source pipe.invalid {\n" + modify + "deliver_to verifscripted T1\n}\n" +
			"default_source {\n    reject\n}\n")
	case "dest": // every recipient is routed to the destination block before its modifiers run
		sb.WriteString("destination pipe.invalid {\n" + modify + "deliver_to verifscripted T1\n}\n" +
			"default_destination {\n    reject\n}\n")
	default:
		t.Fatalf("unknown scope %q", b.Cfg.Scope)
	}

	tgt := &scripted.NamedTarget{TName: "T1", Tr: tr, Partial: !b.Txn.St.Atomic, ID: pipeID,
		Plan: []scripted.NPlan{{Status: b.Txn.St.St, Body: b.Txn.St.Body}}}
	scripted.SetNamed(tgt)
	nodes, err := parser.Read(strings.NewReader(sb.String()), "verif.conf")
	if err != nil {
		t.Fatalf("behaviour %d: config does not parse: %v\n%s", b.ID, err, sb.String())
	}
	p, err := msgpipeline.New(nil, nodes)
	if err != nil {
		t.Fatalf("behaviour %d: pipeline does not load: %v\n%s", b.ID, err, sb.String())
	}
	p.Log = log.Logger{Out: log.NopOutput{}}
	p.Hostname = "mx.verif.test"

	ctx := context.Background()
	from := "sender@pipe.invalid"
	meta := &module.MsgMetadata{ID: fmt.Sprintf("p%d", b.ID), OriginalFrom: from, SMTPOpts: smtp.MailOptions{}}
	tr.Emit("Txn", vtrace.Ev{"rcpts": b.Txn.Rcpts, "st": map[string]interface{}{
		"st": b.Txn.St.St, "atomic": b.Txn.St.Atomic, "body": b.Txn.St.Body}})
	d, err := p.Start(ctx, meta, from)
	if err != nil {
		t.Fatalf("behaviour %d: Start failed: %v", b.ID, err)
	}
	for _, id := range b.Txn.Rcpts {
		err := d.AddRcpt(ctx, pipeAddr(id), smtp.RcptOptions{})
		tr.Emit("Ret", vtrace.Ev{"op": "addrcpt", "r": id, "res": class(err), "err": errText(err)})
	}
	pd, ok := d.(module.PartialDelivery)
	if !ok {
		t.Fatalf("behaviour %d: pipeline delivery %T is not a PartialDelivery", b.ID, d)
	}
	rec := &recStatus{id: pipeID}
	pd.BodyNonAtomic(ctx, rec, testHeader(), buffer.MemoryBuffer{Slice: []byte("hello\r\n")})
	rec.mu.Lock()
	sts := append([]map[string]interface{}{}, rec.sts...)
	addrs := append([]string{}, rec.addrs...)
	rec.mu.Unlock()
	tr.Emit("Statuses", vtrace.Ev{"sts": sts, "addrs": addrs})
	d.Commit(ctx)
	tr.Emit("End", vtrace.Ev{})
}

func TestReplayPipe(t *testing.T) {
	n := eachBehaviour(t, func(line []byte, w *bufio.Writer) {
		var b PBehaviour
		if err := json.Unmarshal(line, &b); err != nil {
			t.Fatalf("bad behaviour line: %v", err)
		}
		runPipeBehaviour(t, b, w)
	})
	t.Logf("replayed %d behaviours", n)
}
