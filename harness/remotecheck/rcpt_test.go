package remotecheck

// C09, delivery-target part: replays behaviours of RcptStatus.tla on the real
// remote.Target ("remote") and target.lmtp ("lmtp") against scripted next hops
// and records which (address, result) pairs the targets hand to the
// StatusCollector passed to BodyNonAtomic.

import (
	"bufio"
	"bytes"
	"context"
	"encoding/json"
	"errors"
	"fmt"
	"io"
	"net"
	"strings"
	"sync"
	"testing"
	"time"

	"github.com/emersion/go-smtp"
	"github.com/foxcpp/maddy/framework/address"
	"github.com/foxcpp/maddy/framework/buffer"
	"github.com/foxcpp/maddy/framework/config"
	"github.com/foxcpp/maddy/framework/log"
	"github.com/foxcpp/maddy/framework/module"
	"github.com/foxcpp/maddy/internal/smtpconn/pool"
	"github.com/foxcpp/maddy/internal/target/remote"
	smtp_downstream "github.com/foxcpp/maddy/internal/target/smtp"
	"github.com/foxcpp/maddy/verifharness/scripted"
	"github.com/foxcpp/maddy/verifharness/vtrace"
)

// abstract address identities of RcptStatusObs.tla
var addrOfID = map[string]string{
	"a1":      "u1@example.invalid",
	"a2":      "u2@example.invalid",
	"cv":      "U1@example.invalid",
	"nl":      "ü@example.invalid",
	"idn":     "u3@é.invalid",
	"idn_ace": "u3@xn--9ca.invalid",
}

func idOfAddr(a string) string {
	for id, s := range addrOfID {
		if s == a {
			return id
		}
	}
	return "other"
}

type RPlan struct {
	Mail map[string]string `json:"mail"`
	Rcpt map[string]string `json:"rcpt"`
	Data map[string]string `json:"data"`
	St   map[string]string `json:"st"`
	Drop *int              `json:"drop"` // LMTP: answers sent before the connection breaks (absent or >= 3: no break)
	Src  string            `json:"src"`  // body source / transfer fault: "" | ok | noopen | readfail | reset
	Late int               `json:"late"` // list position whose RCPT reply is overdue (0 = none)
	// list position after whose AddRcpt the message is put in quarantine (MsgMetadata.Quarantine set as
	// a body-stage check would; 0 = never, = len(rcpts): between the last AddRcpt and the body step)
	Quar int `json:"quar"`
}

type RTxn struct {
	Rcpts []string `json:"rcpts"`
	Plan  RPlan    `json:"plan"`
}

type RCfg struct {
	Kind string `json:"kind"`
	UTF8 bool   `json:"utf8"`
}

type RBehaviour struct {
	ID   int    `json:"id"`
	Cfg  RCfg   `json:"cfg"`
	Txns []RTxn `json:"txns"`
}

// recording StatusCollector
type recStatus struct {
	mu    sync.Mutex
	sts   []map[string]interface{}
	addrs []string
	id    func(string) string // nil = idOfAddr
}

func (r *recStatus) SetStatus(rcptTo string, err error) {
	r.mu.Lock()
	defer r.mu.Unlock()
	id := idOfAddr
	if r.id != nil {
		id = r.id
	}
	r.sts = append(r.sts, map[string]interface{}{"k": id(rcptTo), "v": class(err)})
	r.addrs = append(r.addrs, rcptTo)
}

// resolver: every recipient domain has one MX, the scripted next hop of its domain class
type stubResolver struct{}

func domClass(name string) string {
	n := strings.ToLower(strings.TrimSuffix(name, "."))
	if n == "example.invalid" {
		return "D1"
	}
	return "D2"
}

func (stubResolver) LookupMX(ctx context.Context, name string) ([]*net.MX, error) {
	return []*net.MX{{Host: "mx-" + strings.ToLower(domClass(name)) + ".test.invalid.", Pref: 10}}, nil
}
func (stubResolver) LookupAddr(ctx context.Context, addr string) ([]string, error) { return nil, nil }
func (stubResolver) LookupHost(ctx context.Context, host string) ([]string, error) {
	return []string{"127.0.0.1"}, nil
}
func (stubResolver) LookupTXT(ctx context.Context, name string) ([]string, error) { return nil, nil }
func (stubResolver) LookupIPAddr(ctx context.Context, host string) ([]net.IPAddr, error) {
	return []net.IPAddr{{IP: net.IPv4(127, 0, 0, 1)}}, nil
}

func srcOf(p RPlan) string {
	if p.Src == "" {
		return "ok"
	}
	return p.Src
}

func dropOf(p RPlan) int {
	if p.Drop == nil {
		return 3
	}
	return *p.Drop
}

func replyFor(res string, tempCode, permCode int) scripted.SMTPReply {
	switch res {
	case "temp":
		return scripted.SMTPReply{Code: tempCode}
	case "perm":
		return scripted.SMTPReply{Code: permCode}
	}
	return scripted.SMTPReply{}
}

// scriptFor builds the next-hop script of domain class d (or of the single LMTP
// next hop) from a plan. Per-address replies are registered under the address as
// given and under its ASCII form.
// lateRcptOn tells which RCPT command (1-based) on the next hop of class d is the one for list
// position p.Late: the RCPT commands on one connection are the list's recipients of that class
// that the client can put on the wire.
func lateRcptOn(kind string, utf8 bool, rcpts []string, p RPlan, d string) int {
	if p.Late < 1 || p.Late > len(rcpts) {
		return 0
	}
	onWire := func(id string) bool { return utf8 || id != "nl" }
	class := func(id string) string {
		if kind == "lmtp" {
			return "D1"
		}
		return domClass(dom(addrOfID[id]))
	}
	if class(rcpts[p.Late-1]) != d || !onWire(rcpts[p.Late-1]) {
		return 0
	}
	n := 0
	for _, id := range rcpts[:p.Late] {
		if class(id) == d && onWire(id) {
			n++
		}
	}
	return n
}

func dom(a string) string { return a[strings.LastIndex(a, "@")+1:] }

// body sources
type failingBuffer struct {
	mode string
	data []byte
}

type failingReader struct {
	data []byte
	pos  int
}

func (r *failingReader) Read(p []byte) (int, error) {
	if r.pos >= len(r.data)/2 {
		return 0, errors.New("scripted: body source failed half-way")
	}
	n := copy(p, r.data[r.pos:len(r.data)/2])
	r.pos += n
	return n, nil
}
func (r *failingReader) Close() error { return nil }

func (b failingBuffer) Open() (io.ReadCloser, error) {
	switch b.mode {
	case "noopen":
		return nil, errors.New("scripted: body cannot be opened")
	case "readfail":
		return &failingReader{data: b.data}, nil
	}
	return io.NopCloser(bytes.NewReader(b.data)), nil
}
func (b failingBuffer) Len() int      { return len(b.data) }
func (b failingBuffer) Remove() error { return nil }

// wireTwins: the list holds two addresses that differ as given and may coincide on the wire (the
// IDN recipient as U-label and as A-label). The scripted next hop cannot tell them apart by
// address then, so their replies are scripted by position (RCPT command number on the wire /
// number among the accepted recipients) instead.
func wireTwins(rcpts []string) bool {
	u, a := false, false
	for _, id := range rcpts {
		u = u || id == "idn"
		a = a || id == "idn_ace"
	}
	return u && a
}

func hasID(rcpts []string, id string) bool {
	for _, x := range rcpts {
		if x == id {
			return true
		}
	}
	return false
}

func positional(sc *scripted.SMTPTxn, utf8 bool, rcpts []string, p RPlan) {
	for _, id := range []string{"idn", "idn_ace"} {
		forms := []string{addrOfID[id]}
		if ascii, err := address.ToASCII(addrOfID[id]); err == nil {
			forms = append(forms, ascii)
		}
		for _, f := range forms {
			delete(sc.RcptFor, f)
			delete(sc.LMTPDotFor, f)
		}
	}
	for _, id := range rcpts {
		if !utf8 && id == "nl" { // never reaches the wire
			continue
		}
		sc.Rcpt = append(sc.Rcpt, replyFor(p.Rcpt[id], 451, 550))
		if r, ok := p.Rcpt[id]; !ok || r == "ok" {
			sc.LMTPDot = append(sc.LMTPDot, replyFor(p.St[id], 451, 550))
		}
	}
}

func scriptFor(kind string, p RPlan, d string) *scripted.SMTPTxn {
	t := &scripted.SMTPTxn{RcptFor: map[string]scripted.SMTPReply{}, LMTPDotFor: map[string]scripted.SMTPReply{}}
	t.ResetInData = p.Src == "reset"
	t.Mail = replyFor(p.Mail[d], 451, 550)
	if kind == "lmtp" && p.Drop != nil && *p.Drop < 3 {
		t.LMTPDrop = *p.Drop + 1
	}
	switch p.Data[d] {
	case "temp":
		t.Data = scripted.SMTPReply{Code: 451}
	case "perm":
		t.Dot = scripted.SMTPReply{Code: 554}
		if kind == "lmtp" {
			t.Data = scripted.SMTPReply{Code: 554}
		}
	}
	for id, a := range addrOfID {
		if id == "idn_ace" {
			continue
		}
		forms := []string{a}
		if ascii, err := address.ToASCII(a); err == nil && ascii != a {
			forms = append(forms, ascii)
		}
		for _, f := range forms {
			if r, ok := p.Rcpt[id]; ok {
				t.RcptFor[f] = replyFor(r, 451, 550)
			}
			if r, ok := p.St[id]; ok {
				t.LMTPDotFor[f] = replyFor(r, 451, 550)
			}
		}
	}
	return t
}

func txnNo(from string) int {
	// "t<n>@sender.invalid"
	n := 0
	for _, c := range strings.TrimPrefix(from, "t") {
		if c < '0' || c > '9' {
			break
		}
		n = n*10 + int(c-'0')
	}
	return n
}

// next hops are reused between the behaviours of one process (thousands of
// listeners would exhaust the loopback port range); everything that differs
// between behaviours is reconfigured while the server is idle.
var nextHops = map[string]*scripted.SMTPServer{}

func nextHop(t *testing.T, d string, lmtp, noUTF8 bool, emit func(string, map[string]interface{})) *scripted.SMTPServer {
	key := fmt.Sprintf("%s/%v", d, lmtp)
	srv := nextHops[key]
	if srv == nil {
		var err error
		srv, err = scripted.NewSMTPServer(scripted.SMTPServerConfig{
			Name: strings.ToLower(d), Hostname: "mx-" + strings.ToLower(d) + ".test.invalid", LMTP: lmtp})
		if err != nil {
			t.Fatal(err)
		}
		nextHops[key] = srv
	}
	if !srv.WaitIdle(20 * time.Second) {
		t.Fatalf("HARNESS-TIMEOUT next hop %s still has open connections", key)
	}
	srv.Reconfigure(func(c *scripted.SMTPServerConfig) {
		c.NoSMTPUTF8 = noUTF8
		c.Emit = emit
	})
	return srv
}

func runRcptBehaviour(t *testing.T, b RBehaviour, out *bufio.Writer) {
	start := time.Now()
	tr := vtrace.New(out, b.ID)
	tr.Emit("Cfg", vtrace.Ev{"kind": b.Cfg.Kind, "utf8": b.Cfg.UTF8})
	ctx, cancel := context.WithTimeout(context.Background(), harnessBudget)
	defer cancel()
	nolog := log.Logger{Out: log.NopOutput{}}

	snet := scripted.NewSMTPNet()
	servers := map[string]*scripted.SMTPServer{}
	classes := []string{"D1", "D2"}
	if b.Cfg.Kind == "lmtp" {
		classes = []string{"D1"}
	}
	for _, d := range classes {
		d := d
		srv := nextHop(t, d, b.Cfg.Kind == "lmtp", !b.Cfg.UTF8, func(e string, f map[string]interface{}) { tr.Emit(e, vtrace.Ev(f)) })
		srv.SetSelect(func(from string, n int) *scripted.SMTPTxn {
			i := txnNo(from)
			if i < 1 || i > len(b.Txns) {
				return nil
			}
			sc := scriptFor(b.Cfg.Kind, b.Txns[i-1].Plan, d)
			sc.LateRcpt = lateRcptOn(b.Cfg.Kind, b.Cfg.UTF8, b.Txns[i-1].Rcpts, b.Txns[i-1].Plan, d)
			if b.Cfg.Kind == "lmtp" && wireTwins(b.Txns[i-1].Rcpts) {
				positional(sc, b.Cfg.UTF8, b.Txns[i-1].Rcpts, b.Txns[i-1].Plan)
			} else if hasID(b.Txns[i-1].Rcpts, "idn_ace") {
				// the A-label spelling is itself a recipient of this list (and the U-label one is not):
				// the replies scripted for it, not those of "idn", belong to that wire address
				pl := b.Txns[i-1].Plan
				if r, ok := pl.Rcpt["idn_ace"]; ok {
					sc.RcptFor[addrOfID["idn_ace"]] = replyFor(r, 451, 550)
				}
				if r, ok := pl.St["idn_ace"]; ok {
					sc.LMTPDotFor[addrOfID["idn_ace"]] = replyFor(r, 451, 550)
				}
			}
			return sc
		})
		servers[d] = srv
		snet.Add("mx-"+strings.ToLower(d)+".test.invalid", srv)
	}

	// a behaviour with an overdue reply is run with a short command time-out (the scripted next hop
	// withholds that reply until the client has moved on, so nothing else depends on the value)
	cmdTimeout := 20 * time.Second
	for _, tx := range b.Txns {
		if tx.Plan.Late > 0 {
			cmdTimeout = 700 * time.Millisecond
		}
	}
	var tgt module.DeliveryTarget
	closeTgt := func() {}
	defer func() {
		// every event of this behaviour is written before the next one starts
		closeTgt()
		for _, srv := range servers {
			if !srv.WaitIdle(20 * time.Second) {
				t.Fatalf("HARNESS-TIMEOUT behaviour %d: next hop still has open connections", b.ID)
			}
		}
	}()
	switch b.Cfg.Kind {
	case "remote":
		rt := remote.VerifRemoteNewTarget(remote.VerifRemoteConfig{
			Hostname: "client.example.org",
			Resolver: stubResolver{},
			Dialer:   snet.DialContext,
			Pool: pool.Config{MaxKeys: 5000, MaxConnsPerKey: 5, MaxConnLifetimeSec: 150,
				StaleKeyLifetimeSec: 300},
			ConnReuseLimit:    10,
			RelaxedREQUIRETLS: true,
			ConnectTimeout:    20 * time.Second,
			CommandTimeout:    cmdTimeout,
			SubmissionTimeout: 20 * time.Second,
			Log:               nolog,
		})
		closeTgt = func() { rt.Close() }
		tgt = rt
	case "lmtp":
		mod, err := smtp_downstream.NewDownstream("target.lmtp", "verif", nil, []string{"tcp://" + servers["D1"].Addr()})
		if err != nil {
			t.Fatal(err)
		}
		err = mod.Init(config.NewMap(map[string]interface{}{"hostname": "client.example.org"}, config.Node{
			Children: []config.Node{
				{Name: "connect_timeout", Args: []string{"20s"}},
				{Name: "command_timeout", Args: []string{cmdTimeout.String()}},
				{Name: "submission_timeout", Args: []string{"20s"}},
			},
		}))
		if err != nil {
			t.Fatal(err)
		}
		tgt = mod.(module.DeliveryTarget)
	default:
		t.Fatalf("unknown kind %q", b.Cfg.Kind)
	}

	for i, tx := range b.Txns {
		utf8 := false
		for _, id := range tx.Rcpts {
			if !address.IsASCII(addrOfID[id]) {
				utf8 = true
			}
		}
		from := fmt.Sprintf("t%d@sender.invalid", i+1)
		meta := &module.MsgMetadata{ID: fmt.Sprintf("b%dt%d", b.ID, i+1), OriginalFrom: from,
			SMTPOpts: smtp.MailOptions{UTF8: utf8}}
		tr.Emit("Txn", vtrace.Ev{"n": i + 1, "rcpts": tx.Rcpts, "plan": map[string]interface{}{
			"mail": tx.Plan.Mail, "rcpt": tx.Plan.Rcpt, "data": tx.Plan.Data, "st": tx.Plan.St, "drop": dropOf(tx.Plan), "src": srcOf(tx.Plan), "late": tx.Plan.Late, "quar": tx.Plan.Quar}})
		d, err := tgt.Start(ctx, meta, from)
		if b.Cfg.Kind == "lmtp" {
			tr.Emit("Ret", vtrace.Ev{"op": "start", "r": "", "res": class(err), "err": errText(err)})
		}
		if err != nil {
			if b.Cfg.Kind != "lmtp" {
				t.Fatalf("behaviour %d: Start failed: %v", b.ID, err)
			}
			continue
		}
		accepted := 0
		for pos, id := range tx.Rcpts {
			err := d.AddRcpt(ctx, addrOfID[id], smtp.RcptOptions{})
			tr.Emit("Ret", vtrace.Ev{"op": "addrcpt", "r": id, "res": class(err), "err": errText(err)})
			if err == nil {
				accepted++
			}
			if tx.Plan.Quar == pos+1 { // what a check of the body stage / a later stage of the pipeline does
				meta.Quarantine = true
			}
		}
		if accepted == 0 {
			d.Abort(ctx)
			tr.Emit("TxnEnd", vtrace.Ev{"how": "abort"})
			continue
		}
		pd, ok := d.(module.PartialDelivery)
		if !ok {
			t.Fatalf("behaviour %d: delivery object %T does not report per-recipient results", b.ID, d)
		}
		rec := &recStatus{}
		var body buffer.Buffer = buffer.MemoryBuffer{Slice: []byte("hello\r\n")}
		switch tx.Plan.Src {
		case "noopen", "readfail":
			body = failingBuffer{mode: tx.Plan.Src, data: bytes.Repeat([]byte("0123456789abcdef0123456789abcde\r\n"), 64)}
		case "reset": // large enough for the client to be still writing when the next hop resets
			body = failingBuffer{mode: "ok", data: bytes.Repeat([]byte("0123456789abcdef0123456789abcde\r\n"), 32*1024)}
		}
		func() {
			defer func() {
				if r := recover(); r != nil { // a panic reports nothing: the collected statuses stand
					tr.Emit("Panic", vtrace.Ev{"what": fmt.Sprint(r)})
				}
			}()
			pd.BodyNonAtomic(ctx, rec, testHeader(), body)
		}()
		rec.mu.Lock()
		sts := append([]map[string]interface{}{}, rec.sts...)
		addrs := append([]string{}, rec.addrs...)
		rec.mu.Unlock()
		tr.Emit("Statuses", vtrace.Ev{"sts": sts, "addrs": addrs})
		d.Commit(ctx)
		tr.Emit("TxnEnd", vtrace.Ev{"how": "commit"})
	}
	tr.Emit("End", vtrace.Ev{})
	if snet.TimedOut || time.Since(start) > harnessBudget || ctx.Err() != nil {
		t.Fatalf("HARNESS-TIMEOUT behaviour %d took %v", b.ID, time.Since(start))
	}
}

func TestReplayRcpt(t *testing.T) {
	n := eachBehaviour(t, func(line []byte, w *bufio.Writer) {
		var b RBehaviour
		if err := json.Unmarshal(line, &b); err != nil {
			t.Fatalf("bad behaviour line: %v", err)
		}
		runRcptBehaviour(t, b, w)
	})
	t.Logf("replayed %d behaviours", n)
}
