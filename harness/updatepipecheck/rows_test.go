package updatepipecheck

import (
	"bufio"
	"bytes"
	"encoding/hex"
	"encoding/json"
	"fmt"
	"os"
	"strings"
	"sync"
	"testing"
	"testing/synctest"
	"time"

	mess "github.com/foxcpp/go-imap-mess"
	"github.com/foxcpp/maddy/framework/log"
	"github.com/foxcpp/maddy/internal/updatepipe"
	"github.com/foxcpp/maddy/verifharness/updatepipecheck/unet"
	"github.com/foxcpp/maddy/verifharness/vtrace"
)

// The rows of spec/UpdatePipeSer.tla: one update through one path.

type RowIn struct {
	Path  string   `json:"path"`
	Type  int      `json:"type"`
	Key   string   `json:"key"`
	Seq   string   `json:"seq"`
	Flags []string `json:"flags"`
}

type Row struct {
	ID int   `json:"id"`
	In RowIn `json:"in"`
}

var nameOf = map[string]string{
	"plain":  "INBOX",
	"semi":   "a;b;;c",
	"space":  "Saved Mail  x",
	"utf8":   "Входящие/日本語/ü",
	"nl":     "line1\nline2",
	"crlf":   "a\r\nb",
	"dle":    "a\x10b\x10",
	"quote":  `q"uo\te'`,
	"digits": "12345",
	"empty":  "",
	"u2028":  "a\u2028b\u2029",
	"html":   "<a&b>",
	"tab":    "a\tb",
}

var numOf = map[string]uint64{"u0": 0, "u7": 7, "u2p53p1": 9007199254740993, "umax": 18446744073709551615}

var seqOf = map[string]string{"none": "", "one": "42", "set": "1:3,7,9:*"}

func nameTok(s string) string {
	for k, v := range nameOf {
		if v == s {
			return k
		}
	}
	return "?" + hex.EncodeToString([]byte(s))
}

func keyOf(tok string) (interface{}, error) {
	if n, ok := numOf[tok]; ok {
		return n, nil
	}
	if strings.HasPrefix(tok, "s:") {
		if v, ok := nameOf[tok[2:]]; ok {
			return v, nil
		}
	}
	return nil, fmt.Errorf("unknown key token %q", tok)
}

func keyTok(k interface{}) string {
	switch v := k.(type) {
	case uint64:
		for t, n := range numOf {
			if n == v {
				return t
			}
		}
		return fmt.Sprintf("?u:%d", v)
	case string:
		return "s:" + nameTok(v)
	}
	return fmt.Sprintf("?t:%T:%v", k, k)
}

func seqTok(s string) string {
	for k, v := range seqOf {
		if v == s {
			return k
		}
	}
	return "?" + hex.EncodeToString([]byte(s))
}

func outOf(u *mess.Update, lines int) map[string]interface{} {
	flags := []string{}
	for _, f := range u.NewFlags {
		flags = append(flags, nameTok(f))
	}
	return map[string]interface{}{"err": false, "type": int(u.Type), "key": keyTok(u.Key), "seq": seqTok(u.SeqSet),
		"flags": flags, "lines": lines}
}

func errOut(lines int) map[string]interface{} {
	return map[string]interface{}{"err": true, "type": 0, "key": "", "seq": "", "flags": []string{}, "lines": lines}
}

func runRow(t *testing.T, row Row) map[string]interface{} {
	key, err := keyOf(row.In.Key)
	if err != nil {
		t.Fatalf("row %d: %v", row.ID, err)
	}
	seq, ok := seqOf[row.In.Seq]
	if !ok {
		t.Fatalf("row %d: unknown seq token %q", row.ID, row.In.Seq)
	}
	var flags []string
	for _, f := range row.In.Flags {
		v, ok := nameOf[f]
		if !ok {
			t.Fatalf("row %d: unknown name token %q", row.ID, f)
		}
		flags = append(flags, v)
	}
	upd := mess.Update{Type: mess.UpdateType(row.In.Type), Key: key, SeqSet: seq, NewFlags: flags}

	switch row.In.Path {
	case "wire":
		line, err := updatepipe.VerifFormatUpdate("4711-0xc000123456", upd)
		if err != nil {
			return errOut(0)
		}
		lines := strings.Count(line, "\n")
		if !strings.HasSuffix(line, "\n") {
			lines = -1 // not a line at all
		}
		id, got, err := updatepipe.VerifParseUpdate(strings.TrimSuffix(line, "\n"))
		if err != nil || got == nil || id != "4711-0xc000123456" {
			return errOut(lines)
		}
		return outOf(got, lines)
	case "unix", "pubsub":
		var out map[string]interface{}
		synctest.Test(t, func(t *testing.T) {
			w := unet.New()
			unet.Set(w)
			defer unet.Set(nil)
			lg := log.Logger{Name: "x12", Out: log.FuncOutput(func(time.Time, bool, string) {}, func() error { return nil })}
			ch := make(chan mess.Update, 4)
			var lst, snd updatepipe.P
			var br *broker
			var lsess *session
			if row.In.Path == "unix" {
				lst = &updatepipe.UnixSockPipe{SockPath: sockPath, Log: lg}
				snd = &updatepipe.UnixSockPipe{SockPath: sockPath, Log: lg}
			} else {
				br = &broker{w: w, stop: make(chan struct{})}
				defer close(br.stop)
				lsess = br.newSession("s")
				lp := &updatepipe.PubSubPipe{PubSub: lsess, Log: lg}
				lst = lp
				snd = &updatepipe.PubSubPipe{PubSub: br.newSession("c"), Log: lg}
			}
			w.SetCur("s")
			if err := lst.Listen(ch); err != nil {
				t.Fatalf("row %d: Listen: %v", row.ID, err)
			}
			synctest.Wait()
			if row.In.Path == "pubsub" {
				lst.(*updatepipe.PubSubPipe).Subscribe(key)
			}
			w.SetCur("c")
			perr := snd.Push(upd)
			synctest.Wait()
			lines := 0
			if row.In.Path == "unix" {
				if c := w.LastConnBy("c"); c != nil {
					lines = c.Newlines()
				}
			} else {
				w.Locked(func() { lines = bytes.Count(lsess.last, []byte("\n")) })
			}
			select {
			case got := <-ch:
				out = outOf(&got, lines)
			default:
				out = errOut(lines)
			}
			_ = perr
			// clean-up
			w.SetCur("c")
			snd.Close()
			w.SetCur("s")
			lst.Close()
			synctest.Wait()
			w.Kill("s")
			w.Kill("c")
			if br != nil {
				for _, s := range br.sessions {
					s.Close()
				}
			}
			synctest.Wait()
		})
		return out
	}
	t.Fatalf("row %d: unknown path %q", row.ID, row.In.Path)
	return nil
}

func TestRows(t *testing.T) {
	in, outp := os.Getenv("VERIF_IN"), os.Getenv("VERIF_OUT")
	if in == "" || outp == "" {
		t.Skip("VERIF_IN / VERIF_OUT not set")
	}
	fin, err := os.Open(in)
	if err != nil {
		t.Fatal(err)
	}
	defer fin.Close()
	fout, err := os.Create(outp)
	if err != nil {
		t.Fatal(err)
	}
	defer fout.Close()
	w := bufio.NewWriter(fout)
	defer w.Flush()
	var mu sync.Mutex
	sc := bufio.NewScanner(fin)
	sc.Buffer(make([]byte, 1<<20), 1<<26)
	for sc.Scan() {
		if len(bytes.TrimSpace(sc.Bytes())) == 0 {
			continue
		}
		var row Row
		if err := json.Unmarshal(sc.Bytes(), &row); err != nil {
			t.Fatalf("bad row: %v", err)
		}
		out := runRow(t, row)
		tr := vtrace.New(lockedWriter{w, &mu}, row.ID)
		tr.Emit("Row", vtrace.Ev{"in": row.In, "out": out})
	}
	if err := sc.Err(); err != nil {
		t.Fatal(err)
	}
}
