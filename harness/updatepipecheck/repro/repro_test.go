// Package repro reproduces the findings of extension X12 on the unmodified code over REAL Unix sockets (no overlay,
// no shim):
//
//	cd /verif/harness && GOFLAGS=-mod=mod GOPROXY=off GOSUMDB=off GOTOOLCHAIN=local \
//	    go1.26 test -count=1 -v ./updatepipecheck/repro
//
// Each test passes when the defect is present and fails ("... is repaired") when it is not.
package repro

import (
	"bytes"
	"errors"
	"net"
	"os"
	"os/exec"
	"path/filepath"
	"strconv"
	"strings"
	"syscall"
	"testing"
	"time"

	mess "github.com/foxcpp/go-imap-mess"
	"github.com/foxcpp/maddy/framework/log"
	"github.com/foxcpp/maddy/internal/updatepipe"
)

func sockDir(t *testing.T) string {
	base := os.Getenv("VERIF_TMP")
	if base == "" {
		base = filepath.Join("..", "..", "..", ".work")
	}
	os.MkdirAll(base, 0o755)
	d, err := os.MkdirTemp(base, "x12r")
	if err != nil {
		t.Fatal(err)
	}
	t.Cleanup(func() { os.RemoveAll(d) })
	abs, _ := filepath.Abs(d)
	return abs
}

var quiet = log.Logger{Name: "x12", Out: log.NopOutput{}}

// X12-F1, the server's half: run in a child process because the defect ends the process.
func TestHelperServer(t *testing.T) {
	path := os.Getenv("X12_SOCK")
	if path == "" {
		t.Skip("helper")
	}
	srv := &updatepipe.UnixSockPipe{SockPath: path, Log: quiet}
	if err := srv.Listen(make(chan mess.Update, 32)); err != nil {
		t.Fatal(err)
	}
	os.Stdout.WriteString("LISTENING\n")
	time.Sleep(3 * time.Second)
	os.Stdout.WriteString("STILL-ALIVE\n")
	srv.Close()
}

func TestF1MalformedLineKillsTheServer(t *testing.T) {
	for _, line := range []string{"HELLO\n", "1-0x1;{not json\n", "\n", `1-0x1;{"Type":1,"Key":1,"SeqSet":"7","NewFl`} {
		path := filepath.Join(sockDir(t), "u.sock")
		cmd := exec.Command(os.Args[0], "-test.run", "^TestHelperServer$", "-test.v")
		cmd.Env = append(os.Environ(), "X12_SOCK="+path)
		var out bytes.Buffer
		cmd.Stdout, cmd.Stderr = &out, &out
		if err := cmd.Start(); err != nil {
			t.Fatal(err)
		}
		var c net.Conn
		var err error
		for i := 0; i < 100; i++ {
			if c, err = net.Dial("unix", path); err == nil {
				break
			}
			time.Sleep(50 * time.Millisecond)
		}
		if err != nil {
			cmd.Process.Kill()
			t.Fatalf("server did not come up: %v\n%s", err, out.String())
		}
		c.Write([]byte(line))
		c.Close()
		werr := cmd.Wait()
		o := out.String()
		if werr == nil || strings.Contains(o, "STILL-ALIVE") {
			t.Fatalf("line %q: the server survived - X12-F1 is repaired\n%s", line, o)
		}
		if !strings.Contains(o, "nil pointer dereference") || !strings.Contains(o, "readUpdates") {
			t.Fatalf("line %q: the server died, but not as described:\n%s", line, o)
		}
		t.Logf("line %q: server process ended with %v: panic: ... nil pointer dereference in (*UnixSockPipe).readUpdates", line, werr)
	}
}

func bigUpdate() mess.Update {
	var sb strings.Builder
	for i := 0; sb.Len() < 70000; i++ {
		if i > 0 {
			sb.WriteByte(',')
		}
		sb.WriteString(strconv.Itoa(100001 + 2*i))
	}
	return mess.Update{Type: mess.UpdRemoved, Key: uint64(1), SeqSet: sb.String()}
}

func TestF2LongUpdateStopsTheConnection(t *testing.T) {
	path := filepath.Join(sockDir(t), "u.sock")
	ch := make(chan mess.Update, 32)
	srv := &updatepipe.UnixSockPipe{SockPath: path, Log: quiet}
	if err := srv.Listen(ch); err != nil {
		t.Fatal(err)
	}
	defer srv.Close()
	cli := &updatepipe.UnixSockPipe{SockPath: path, Log: quiet}
	small := func(n int) mess.Update {
		return mess.Update{Type: mess.UpdNewMessage, Key: uint64(1), SeqSet: strconv.Itoa(n)}
	}
	if err := cli.Push(small(1)); err != nil {
		t.Fatal(err)
	}
	select {
	case u := <-ch:
		if u.SeqSet != "1" {
			t.Fatalf("got %+v", u)
		}
	case <-time.After(5 * time.Second):
		t.Fatal("control: an ordinary update did not arrive")
	}
	big := bigUpdate()
	if err := cli.Push(big); err != nil {
		t.Fatalf("Push of the long update: %v", err)
	}
	if err := cli.Push(small(2)); err != nil {
		t.Fatalf("Push after the long update: %v", err)
	}
	got := 0
	timeout := time.After(2 * time.Second)
loop:
	for {
		select {
		case <-ch:
			got++
		case <-timeout:
			break loop
		}
	}
	if got != 0 {
		t.Fatalf("%d update(s) arrived after the long one was pushed - X12-F2 is repaired", got)
	}
	t.Logf("Push returned nil for an update of %d bytes and for the next one; neither arrived within 2 s", len(big.SeqSet))
}

func TestF3StaleSocketBlocksListen(t *testing.T) {
	path := filepath.Join(sockDir(t), "u.sock")
	// what a server that died leaves behind: a socket file nobody listens on
	l, err := net.Listen("unix", path)
	if err != nil {
		t.Fatal(err)
	}
	l.(*net.UnixListener).SetUnlinkOnClose(false)
	l.Close()
	if _, err := net.Dial("unix", path); !errors.Is(err, syscall.ECONNREFUSED) {
		t.Fatalf("expected ECONNREFUSED on the stale socket, got %v", err)
	}
	srv := &updatepipe.UnixSockPipe{SockPath: path, Log: quiet}
	err = srv.Listen(make(chan mess.Update, 1))
	if err == nil {
		srv.Close()
		t.Fatal("Listen took the stale socket over - X12-F3 is repaired")
	}
	if !errors.Is(err, syscall.EADDRINUSE) {
		t.Fatalf("Listen failed, but not as described: %v", err)
	}
	t.Logf("Listen on a socket file nobody listens on: %v", err)
}
