// Package unet stands between internal/updatepipe and the operating system. It
// is swapped in through `go build -overlay` at check time: in generated copies
// of unix_pipe.go / pubsub_pipe.go, net.Listen becomes unet.Listen, net.Dial
// becomes unet.Dial, os.Remove becomes unet.Remove and every `go f(x)`
// statement becomes unet.Go(func() { f(x) }).
//
// With a World installed (Set) the three calls work on an in-memory model of
// one directory of Unix stream sockets:
//
//   - a path is either free, bound by a live listener, or a socket file left
//     behind by a process that died (bind fails with EADDRINUSE on any existing
//     file, connect fails with ENOENT without a file and with ECONNREFUSED on a
//     file nobody listens on, closing a listener unlinks its path - what
//     net.UnixListener does -, killing a process does not);
//   - connections are byte streams with an unbounded buffer; closing a listener
//     resets the connections it has not accepted; a write to a connection
//     whose peer is gone fails with EPIPE;
//   - every blocking operation blocks on a channel, so that inside a
//     testing/synctest bubble a blocked goroutine is durably blocked and
//     synctest.Wait() returns exactly when the pipes have nothing left to do;
//   - the goroutines of a pipe are parked before Accept hands out a
//     connection and before Read hands out the next line (or end of stream)
//     until the controller releases them (Release), so the test decides the
//     interleaving of the pipe goroutines with the calls of interface P, the
//     consumer and the environment. Read hands out one line at a time (a
//     stream socket may return any prefix of what is buffered).
//
// Go runs the goroutine with a recover: a panic in a pipe goroutine is what
// kills a maddy process (the goroutines of internal/updatepipe have no recover
// of their own); here it is recorded and the process is killed in the model
// world (Kill) instead of the test binary.
//
// Without a World every function is the plain operation.
package unet

import (
	"bytes"
	"errors"
	"fmt"
	"io"
	"net"
	"os"
	"runtime"
	"sort"
	"strconv"
	"sync"
	"syscall"
	"time"
)

// World is one directory of sockets plus the processes using it.
type World struct {
	mu    sync.Mutex
	cond  chan struct{} // closed and replaced on every state change
	gated bool

	Cur string // the process on whose behalf the controller is calling interface P right now

	files   map[string]*node
	conns   []*Conn // index = id-1
	owner   map[int64]string
	alive   map[string]int
	dead    map[string]bool
	parked  map[string]bool
	release map[string]bool
	panics  map[string]string
	dials   []string // results of the dials made since the last TakeDials
	lastBy  map[string]*Conn
	lastAcc map[string]int
}

type node struct {
	lis *Listener // the listener bound to the path (nil or closed: nobody listens)
}

var (
	curMu sync.Mutex
	cur   *World
)

func New() *World {
	return &World{cond: make(chan struct{}), files: map[string]*node{}, owner: map[int64]string{},
		alive: map[string]int{}, dead: map[string]bool{}, parked: map[string]bool{}, release: map[string]bool{},
		panics: map[string]string{}, lastBy: map[string]*Conn{}, lastAcc: map[string]int{}}
}

// Set installs w (nil = none).
func Set(w *World) { curMu.Lock(); cur = w; curMu.Unlock() }

func current() *World { curMu.Lock(); defer curMu.Unlock(); return cur }

func goid() int64 {
	var buf [64]byte
	b := buf[:runtime.Stack(buf[:], false)]
	b = bytes.TrimPrefix(b, []byte("goroutine "))
	if i := bytes.IndexByte(b, ' '); i > 0 {
		n, _ := strconv.ParseInt(string(b[:i]), 10, 64)
		return n
	}
	return -1
}

// changed wakes every waiter; call with w.mu held.
func (w *World) changed() {
	close(w.cond)
	w.cond = make(chan struct{})
}

// wait releases w.mu, blocks until the next state change, takes w.mu again.
func (w *World) wait() {
	c := w.cond
	w.mu.Unlock()
	<-c
	w.mu.Lock()
}

// proc tells which process the calling goroutine belongs to; call with w.mu held.
func (w *World) proc() string {
	if p, ok := w.owner[goid()]; ok {
		return p
	}
	return w.Cur
}

// SetGated switches parking on or off.
func (w *World) SetGated(on bool) {
	w.mu.Lock()
	w.gated = on
	w.changed()
	w.mu.Unlock()
}

// SetCur names the process the next calls of interface P are made for.
func (w *World) SetCur(p string) { w.mu.Lock(); w.Cur = p; w.mu.Unlock() }

// Parked tells whether a goroutine waits at gate key ("A:<proc>" accept, "R:<conn id>" read).
func (w *World) Parked(key string) bool { w.mu.Lock(); defer w.mu.Unlock(); return w.parked[key] }

// ParkedKeys lists the gates somebody waits at.
func (w *World) ParkedKeys() []string {
	w.mu.Lock()
	defer w.mu.Unlock()
	var ks []string
	for k, v := range w.parked {
		if v {
			ks = append(ks, k)
		}
	}
	sort.Strings(ks)
	return ks
}

// Release lets the goroutine parked at key go on.
func (w *World) Release(key string) {
	w.mu.Lock()
	w.release[key] = true
	w.changed()
	w.mu.Unlock()
}

// gate parks the caller at key until released; ok reports whether the wait should go on (false: give up,
// e.g. the listener was closed meanwhile). Call with w.mu held.
func (w *World) gate(key string, giveUp func() bool) bool {
	if !w.gated {
		return true
	}
	w.parked[key] = true
	w.changed()
	for !w.release[key] {
		if !w.gated {
			break
		}
		if giveUp() {
			delete(w.parked, key)
			w.changed()
			return false
		}
		w.wait()
	}
	delete(w.parked, key)
	delete(w.release, key)
	w.changed()
	return true
}

// Alive is the number of goroutines started through Go by proc that have not returned.
func (w *World) Alive(proc string) int { w.mu.Lock(); defer w.mu.Unlock(); return w.alive[proc] }

// Dead tells whether proc was killed.
func (w *World) Dead(proc string) bool { w.mu.Lock(); defer w.mu.Unlock(); return w.dead[proc] }

// Panicked returns the panic value text of proc ("" = none).
func (w *World) Panicked(proc string) string { w.mu.Lock(); defer w.mu.Unlock(); return w.panics[proc] }

// TakeDials returns and forgets the results of the dials made since the last call ("ok", "noent", "refused").
func (w *World) TakeDials() []string {
	w.mu.Lock()
	defer w.mu.Unlock()
	d := w.dials
	w.dials = nil
	return d
}

// LastAccepted returns the id of the connection proc's listener handed out last (0 = none).
func (w *World) LastAccepted(proc string) int {
	w.mu.Lock()
	defer w.mu.Unlock()
	return w.lastAcc[proc]
}

// LastConnBy returns the connection proc dialed last (nil = none).
func (w *World) LastConnBy(proc string) *Conn {
	w.mu.Lock()
	defer w.mu.Unlock()
	return w.lastBy[proc]
}

// SockState is "none" (no file), "live" (a file somebody listens on) or "stale".
func (w *World) SockState(path string) string {
	w.mu.Lock()
	defer w.mu.Unlock()
	n, ok := w.files[path]
	if !ok {
		return "none"
	}
	if n.lis != nil && !n.lis.closed {
		return "live"
	}
	return "stale"
}

// NewConnID reserves the next connection id (for media that are not sockets).
func (w *World) NewConnID() int {
	w.mu.Lock()
	defer w.mu.Unlock()
	w.conns = append(w.conns, nil)
	return len(w.conns)
}

// Kill is what the kernel does when a process dies: descriptors closed, socket files stay.
func (w *World) Kill(proc string) {
	w.mu.Lock()
	defer w.mu.Unlock()
	w.kill(proc)
}

func (w *World) kill(proc string) {
	w.dead[proc] = true
	for _, n := range w.files {
		if n.lis != nil && n.lis.proc == proc && !n.lis.closed {
			n.lis.closed = true
			for _, c := range n.lis.backlog {
				c.st = "dead"
			}
			n.lis.backlog = nil
		}
	}
	for _, c := range w.conns {
		if c == nil {
			continue
		}
		if c.to == proc && (c.st == "backlog" || c.st == "open") {
			c.st = "dead"
		}
		if c.from == proc {
			c.weof = true
		}
	}
	w.changed()
}

// ---- goroutines ---------------------------------------------------------------------------------

// Go is what the overlay turns a `go` statement of internal/updatepipe into.
func Go(f func()) {
	w := current()
	if w == nil {
		go f()
		return
	}
	w.mu.Lock()
	p := w.proc()
	w.alive[p]++
	w.mu.Unlock()
	go func() {
		id := goid()
		w.mu.Lock()
		w.owner[id] = p
		w.mu.Unlock()
		defer func() {
			r := recover()
			w.mu.Lock()
			delete(w.owner, id)
			w.alive[p]--
			if r != nil && !w.dead[p] {
				w.panics[p] = fmt.Sprint(r)
				w.kill(p)
			}
			w.changed()
			w.mu.Unlock()
		}()
		f()
	}()
}

// ---- the socket directory -----------------------------------------------------------------------

type addr string

func (a addr) Network() string { return "unix" }
func (a addr) String() string  { return string(a) }

func opErr(op, path string, call string, errno syscall.Errno) error {
	return &net.OpError{Op: op, Net: "unix", Addr: addr(path), Err: os.NewSyscallError(call, errno)}
}

// Listener is the listening end of a socket path.
type Listener struct {
	w       *World
	path    string
	proc    string
	closed  bool
	backlog []*Conn
}

// Listen is net.Listen for network "unix".
func Listen(network, path string) (net.Listener, error) {
	w := current()
	if w == nil || network != "unix" {
		return net.Listen(network, path)
	}
	w.mu.Lock()
	defer w.mu.Unlock()
	if _, ok := w.files[path]; ok {
		return nil, opErr("listen", path, "bind", syscall.EADDRINUSE)
	}
	l := &Listener{w: w, path: path, proc: w.proc()}
	w.files[path] = &node{lis: l}
	w.changed()
	return l, nil
}

func (l *Listener) Addr() net.Addr { return addr(l.path) }

func (l *Listener) gone() bool { return l.closed || l.w.dead[l.proc] }

func (l *Listener) Accept() (net.Conn, error) {
	w := l.w
	w.mu.Lock()
	defer w.mu.Unlock()
	for {
		if l.gone() {
			return nil, &net.OpError{Op: "accept", Net: "unix", Addr: addr(l.path), Err: net.ErrClosed}
		}
		if len(l.backlog) > 0 {
			if !w.gate("A:"+l.proc, func() bool { return l.gone() || len(l.backlog) == 0 }) {
				continue
			}
			if l.gone() || len(l.backlog) == 0 {
				continue
			}
			c := l.backlog[0]
			l.backlog = l.backlog[1:]
			c.st = "open"
			w.changed()
			w.lastAcc[l.proc] = c.id
			return &srvEnd{c}, nil
		}
		w.wait()
	}
}

// Close is net.UnixListener.Close: stop listening, unlink the path, reset what was not accepted.
func (l *Listener) Close() error {
	w := l.w
	w.mu.Lock()
	defer w.mu.Unlock()
	if l.closed {
		return &net.OpError{Op: "close", Net: "unix", Addr: addr(l.path), Err: net.ErrClosed}
	}
	l.closed = true
	if n, ok := w.files[l.path]; ok && n.lis == l {
		delete(w.files, l.path)
	}
	for _, c := range l.backlog {
		c.st = "reset"
		c.buf = nil
	}
	l.backlog = nil
	w.changed()
	return nil
}

// Remove is os.Remove.
func Remove(path string) error {
	w := current()
	if w == nil {
		return os.Remove(path)
	}
	w.mu.Lock()
	defer w.mu.Unlock()
	if _, ok := w.files[path]; !ok {
		return &os.PathError{Op: "remove", Path: path, Err: syscall.ENOENT}
	}
	// the name goes away; a listener bound to it keeps listening on a socket nobody can reach any more
	delete(w.files, path)
	w.changed()
	return nil
}

// Dial is net.Dial for network "unix".
func Dial(network, path string) (net.Conn, error) {
	w := current()
	if w == nil || network != "unix" {
		return net.Dial(network, path)
	}
	w.mu.Lock()
	defer w.mu.Unlock()
	n, ok := w.files[path]
	if !ok {
		w.dials = append(w.dials, "noent")
		return nil, opErr("dial", path, "connect", syscall.ENOENT)
	}
	if n.lis == nil || n.lis.closed {
		w.dials = append(w.dials, "refused")
		return nil, opErr("dial", path, "connect", syscall.ECONNREFUSED)
	}
	c := &Conn{w: w, id: len(w.conns) + 1, to: n.lis.proc, from: w.proc(), st: "backlog", path: path}
	w.conns = append(w.conns, c)
	n.lis.backlog = append(n.lis.backlog, c)
	w.dials = append(w.dials, "ok")
	w.lastBy[c.from] = c
	w.changed()
	return &cliEnd{c}, nil
}

// Conn is one connection: bytes flow from the dialing end to the accepting end.
type Conn struct {
	w        *World
	id       int
	to, from string
	path     string
	st       string // "backlog" | "open" | "done" (accepting end closed) | "reset" | "dead"
	buf      []byte // written, not yet handed out
	weof     bool   // the dialing end was closed
	pending  []byte // rest of the line being handed out
	lastLine []byte // the line handed out last
	eof      bool   // end of stream was handed out
	tail     bool   // the line handed out last was the unterminated rest of the stream
	inRead   bool
	wclosed  bool // the dialing end's own Close was called (local)
	nl       int  // line feeds written so far
}

func (c *Conn) ID() int    { return c.id }
func (c *Conn) To() string { return c.to }

// Newlines returns the number of line feeds written to the connection so far.
func (c *Conn) Newlines() int { c.w.mu.Lock(); defer c.w.mu.Unlock(); return c.nl }

// LastLine returns the line the accepting end was handed last, and whether end of stream was handed out.
func (c *Conn) LastLine() ([]byte, bool) {
	c.w.mu.Lock()
	defer c.w.mu.Unlock()
	return append([]byte(nil), c.lastLine...), c.eof
}

// ConnByID returns connection id (nil: not a socket connection).
func (w *World) ConnByID(id int) *Conn {
	w.mu.Lock()
	defer w.mu.Unlock()
	if id < 1 || id > len(w.conns) {
		return nil
	}
	return w.conns[id-1]
}

type cliEnd struct{ c *Conn }
type srvEnd struct{ c *Conn }

func (e *cliEnd) Write(b []byte) (int, error) {
	c := e.c
	c.w.mu.Lock()
	defer c.w.mu.Unlock()
	if c.wclosed {
		return 0, &net.OpError{Op: "write", Net: "unix", Addr: addr(c.path), Err: net.ErrClosed}
	}
	if c.st == "reset" || c.st == "dead" || c.st == "done" || c.w.dead[c.from] {
		return 0, &net.OpError{Op: "write", Net: "unix", Addr: addr(c.path), Err: os.NewSyscallError("write", syscall.EPIPE)}
	}
	c.buf = append(c.buf, b...)
	c.nl += bytes.Count(b, []byte("\n"))
	c.w.changed()
	return len(b), nil
}

func (e *cliEnd) Read(b []byte) (int, error) {
	// nothing ever flows back; block until the connection ends
	c := e.c
	c.w.mu.Lock()
	defer c.w.mu.Unlock()
	for !(c.wclosed || c.st == "reset" || c.st == "dead" || c.st == "done") {
		c.w.wait()
	}
	return 0, io.EOF
}

func (e *cliEnd) Close() error {
	c := e.c
	c.w.mu.Lock()
	defer c.w.mu.Unlock()
	if c.wclosed {
		return &net.OpError{Op: "close", Net: "unix", Addr: addr(c.path), Err: net.ErrClosed}
	}
	c.wclosed = true
	c.weof = true
	c.w.changed()
	return nil
}

// line returns the length of the next complete line in buf (incl. "\n"), the whole rest at end of stream, 0 = none yet.
func (c *Conn) line() int {
	if i := bytes.IndexByte(c.buf, '\n'); i >= 0 {
		return i + 1
	}
	if c.weof && len(c.buf) > 0 {
		return len(c.buf)
	}
	return 0
}

func (e *srvEnd) Read(b []byte) (int, error) {
	c := e.c
	w := c.w
	w.mu.Lock()
	defer w.mu.Unlock()
	if len(b) == 0 {
		return 0, nil
	}
	c.inRead = true
	defer func() { c.inRead = false }()
	for {
		if c.st != "open" || w.dead[c.to] {
			return 0, &net.OpError{Op: "read", Net: "unix", Addr: addr(c.path), Err: net.ErrClosed}
		}
		if len(c.pending) > 0 { // the rest of a line too long for the caller's buffer
			n := copy(b, c.pending)
			c.pending = c.pending[n:]
			return n, nil
		}
		if c.tail { // end of stream follows the unterminated rest at once: one step of the reader
			c.eof = true
			return 0, io.EOF
		}
		if n := c.line(); n > 0 || (c.weof && len(c.buf) == 0) {
			if !w.gate("R:"+strconv.Itoa(c.id), func() bool { return c.st != "open" || w.dead[c.to] }) {
				continue
			}
			n = c.line()
			if n == 0 {
				if c.weof && len(c.buf) == 0 {
					c.eof = true
					c.lastLine = nil
					return 0, io.EOF
				}
				continue
			}
			c.lastLine = append([]byte(nil), c.buf[:n]...)
			c.tail = c.buf[n-1] != '\n'
			c.pending = append([]byte(nil), c.buf[:n]...)
			c.buf = c.buf[n:]
			k := copy(b, c.pending)
			c.pending = c.pending[k:]
			return k, nil
		}
		w.wait()
	}
}

func (e *srvEnd) Write(b []byte) (int, error) { return len(b), nil }

func (e *srvEnd) Close() error {
	c := e.c
	c.w.mu.Lock()
	defer c.w.mu.Unlock()
	if c.st == "open" {
		c.st = "done"
	}
	c.w.changed()
	return nil
}

func (e *cliEnd) LocalAddr() net.Addr                { return addr("") }
func (e *cliEnd) RemoteAddr() net.Addr               { return addr(e.c.path) }
func (e *cliEnd) SetDeadline(t time.Time) error      { return nil }
func (e *cliEnd) SetReadDeadline(t time.Time) error  { return nil }
func (e *cliEnd) SetWriteDeadline(t time.Time) error { return nil }
func (e *srvEnd) LocalAddr() net.Addr                { return addr(e.c.path) }
func (e *srvEnd) RemoteAddr() net.Addr               { return addr("") }
func (e *srvEnd) SetDeadline(t time.Time) error      { return nil }
func (e *srvEnd) SetReadDeadline(t time.Time) error  { return nil }
func (e *srvEnd) SetWriteDeadline(t time.Time) error { return nil }

// ---- gates for media that are not sockets (the scripted PubSub broker) ---------------------------

// Gate parks the caller at key until released or giveUp() holds; false = gave up.
func (w *World) Gate(key string, giveUp func() bool) bool {
	w.mu.Lock()
	defer w.mu.Unlock()
	return w.gate(key, giveUp)
}

// WaitFor blocks until cond() holds (cond is evaluated with the world locked; every Changed() re-evaluates).
func (w *World) WaitFor(cond func() bool) {
	w.mu.Lock()
	defer w.mu.Unlock()
	for !cond() {
		w.wait()
	}
}

// Changed wakes every waiter (after a state change outside this package).
func (w *World) Changed() { w.mu.Lock(); w.changed(); w.mu.Unlock() }

// Locked runs f with the world locked.
func (w *World) Locked(f func()) { w.mu.Lock(); defer w.mu.Unlock(); f() }

// Classify classifies an error of Dial / Listen: "noent", "refused", "inuse", "err".
func Classify(err error) string {
	switch {
	case err == nil:
		return "ok"
	case errors.Is(err, os.ErrNotExist):
		return "noent"
	case errors.Is(err, syscall.ECONNREFUSED):
		return "refused"
	case errors.Is(err, syscall.EADDRINUSE):
		return "inuse"
	}
	return "err"
}
