package updatepipecheck

import (
	"bufio"
	"bytes"
	"context"
	"encoding/json"
	"errors"
	"fmt"
	"os"
	"sort"
	"sync"
	"testing"
	"testing/synctest"

	"github.com/foxcpp/maddy/framework/future"
	"github.com/foxcpp/maddy/framework/log"
	"github.com/foxcpp/maddy/verifharness/vsched"
	"github.com/foxcpp/maddy/verifharness/vtrace"
)

// TestFuture drives the real framework/future.Future - instrumented from the working tree by
// harness/cmd/instrument (a scheduling point before every Lock / RLock and before the select) - under
// harness/vsched with the schedules TLC generated from spec/Future.tla.
//
// Input: {"id":N,"cfg":{"Getters":[..],"CtxGetters":[..],"Setters":[..]},"hist":[{"a":"Step","g":"g1","pref":""},
// {"a":"Cancel","g":"g1"},...]}; output: Cfg, Step / Cancel (with the position of every goroutine and the results
// so far), End.

type FStep struct {
	A    string `json:"a"`
	G    string `json:"g"`
	Pref string `json:"pref"`
}

type FBehaviour struct {
	ID  int `json:"id"`
	Cfg struct {
		Getters    []string `json:"Getters"`
		CtxGetters []string `json:"CtxGetters"`
		Setters    []string `json:"Setters"`
	} `json:"cfg"`
	Hist []FStep `json:"hist"`
}

func valOf(t string) int {
	switch t {
	case "t1":
		return 1
	case "t2":
		return 2
	}
	return 3
}

type frun struct {
	b       FBehaviour
	s       *vsched.Sched
	tr      *vtrace.Tracer
	gs      []string
	isGet   map[string]bool
	mu      sync.Mutex
	res     map[string]int
	sawSel  map[string]bool
	pref    string
	cancels map[string]context.CancelFunc
}

func (r *frun) pcs() map[string]string {
	out := map[string]string{}
	for _, name := range r.gs {
		g := r.s.ByName(name)
		pc := "?"
		switch {
		case g == nil:
			pc = "?"
		case g.State() == vsched.Done:
			pc = "done"
		case g.State() == vsched.Blocked:
			pc = "blk"
		case g.State() == vsched.Parked:
			switch k := g.Kind(); k {
			case "start":
				pc = "start"
			case "select":
				pc = "sel"
				r.sawSel[name] = true
			case "lock":
				if !r.isGet[name] {
					pc = "l"
				} else if r.sawSel[name] {
					pc = "l2"
				} else {
					pc = "l1"
				}
			default:
				pc = k
			}
		}
		if pc == "blk" {
			r.sawSel[name] = true
		}
		out[name] = pc
	}
	return out
}

func (r *frun) emit(name, g string) {
	pcs := r.pcs()
	r.mu.Lock()
	res := map[string]int{}
	for _, n := range r.gs {
		res[n] = r.res[n]
	}
	r.mu.Unlock()
	r.tr.Emit(name, vtrace.Ev{"g": g, "pcs": pcs, "res": res})
}

func runFuture(t *testing.T, b FBehaviour, out *bufio.Writer, outMu *sync.Mutex) {
	synctest.Test(t, func(t *testing.T) {
		r := &frun{b: b, isGet: map[string]bool{}, res: map[string]int{}, sawSel: map[string]bool{},
			cancels: map[string]context.CancelFunc{}}
		r.tr = vtrace.New(lockedWriter{out, outMu}, b.ID)
		r.s = vsched.New()
		defer r.s.Shutdown()
		r.s.OnPanic = func(g *vsched.G, v interface{}, stack string) {
			r.mu.Lock()
			r.res[g.Name] = -2
			r.mu.Unlock()
		}
		// the select of GetContext: case 0 = notify, case 1 = ctx.Done()
		r.s.SelOrder = func(g *vsched.G, n int) []int {
			o := make([]int, n)
			for i := range o {
				o[i] = i
			}
			if r.pref == "ctx" && n == 2 {
				o[0], o[1] = 1, 0
			}
			return o
		}
		f := future.New()
		getters := append([]string(nil), b.Cfg.Getters...)
		sort.Strings(getters)
		setters := append([]string(nil), b.Cfg.Setters...)
		sort.Strings(setters)
		isCtx := map[string]bool{}
		for _, g := range b.Cfg.CtxGetters {
			isCtx[g] = true
		}
		r.gs = append(append([]string(nil), getters...), setters...)
		sort.Strings(r.gs)
		r.tr.Emit("Cfg", vtrace.Ev{"Getters": getters, "CtxGetters": b.Cfg.CtxGetters, "Setters": setters})
		for _, g := range getters {
			g := g
			r.isGet[g] = true
			var ctx context.Context
			if isCtx[g] {
				var cancel context.CancelFunc
				ctx, cancel = context.WithCancel(context.Background())
				r.cancels[g] = cancel
			}
			r.s.Spawn(g, func() {
				var (
					v   interface{}
					err error
				)
				if ctx != nil {
					v, err = f.GetContext(ctx)
				} else {
					v, err = f.Get()
				}
				got := 0
				switch {
				case err != nil && (errors.Is(err, context.Canceled) || errors.Is(err, context.DeadlineExceeded)):
					got = -1
				case err != nil:
					got = -3 // an error nobody set
				default:
					if n, ok := v.(int); ok {
						got = n
					} else {
						got = -4 // a value nobody set
					}
				}
				r.mu.Lock()
				r.res[g] = got
				r.mu.Unlock()
			})
		}
		for _, s := range setters {
			s := s
			r.s.Spawn(s, func() {
				f.Set(valOf(s), nil)
				r.mu.Lock()
				r.res[s] = 1
				r.mu.Unlock()
			})
		}
		r.s.Settle()
		for _, st := range b.Hist {
			switch st.A {
			case "Step":
				g := r.s.ByName(st.G)
				r.pref = st.Pref
				if !r.s.Step(g) {
					continue // not runnable on this code: the choice is skipped
				}
				r.emit("Step", st.G)
			case "Cancel":
				c := r.cancels[st.G]
				if c == nil {
					continue
				}
				c()
				r.s.Settle()
				r.emit("Cancel", st.G)
			case "End":
			default:
				t.Fatalf("behaviour %d: unknown step %q", b.ID, st.A)
			}
		}
		// whatever can still run runs (a behaviour cut at its first violation ends in the middle of things)
		for i := 0; i < 1000; i++ {
			var next *vsched.G
			for _, name := range r.gs {
				if g := r.s.ByName(name); g != nil && g.State() == vsched.Parked && g.Kind() != "start" {
					next = g
					break
				}
			}
			if next == nil {
				break
			}
			r.pref = ""
			if !r.s.Step(next) {
				break
			}
			r.emit("Step", next.Name)
		}
		r.tr.Emit("End", nil)
		for _, c := range r.cancels {
			c()
		}
	})
}

func TestFuture(t *testing.T) {
	in, outp := os.Getenv("VERIF_IN"), os.Getenv("VERIF_OUT")
	if in == "" || outp == "" {
		t.Skip("VERIF_IN / VERIF_OUT not set")
	}
	log.DefaultLogger.Out = log.NopOutput{} // "Future.Set called multiple times" + a stack per second Set
	fin, err := os.Open(in)
	if err != nil {
		t.Fatal(err)
	}
	defer fin.Close()
	fout, err := os.Create(outp)
	if err != nil {
		t.Fatal(err)
	}
	defer fout.Close()
	w := bufio.NewWriter(fout)
	defer w.Flush()
	var mu sync.Mutex
	sc := bufio.NewScanner(fin)
	sc.Buffer(make([]byte, 1<<20), 1<<26)
	for sc.Scan() {
		if len(bytes.TrimSpace(sc.Bytes())) == 0 {
			continue
		}
		var b FBehaviour
		if err := json.Unmarshal(sc.Bytes(), &b); err != nil {
			t.Fatalf("bad behaviour: %v", err)
		}
		fmt.Fprintf(os.Stderr, "BEGIN %d\n", b.ID)
		runFuture(t, b, w, &mu)
	}
	if err := sc.Err(); err != nil {
		t.Fatal(err)
	}
}
