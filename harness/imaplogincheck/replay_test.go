// Package imaplogincheck runs the rows of spec/ImapLogin.tla (X18) through the real code:
//
//   - "login" / "tls" / "close" rows: the real IMAP endpoint (internal/endpoint/imap, go-imap server
//     included) configured from configuration nodes, listening on a unix socket under $VERIF_TMP, on
//     top of the real storage.imapsql (sqlite file) and a scripted authentication provider that logs
//     every call; the real go-imap client talks to it (LOGIN, AUTHENTICATE PLAIN, STARTTLS, CREATE).
//     Which storage account a session sees is read from the database afterwards: the session
//     creates a mailbox named after the row, the account that owns it is the one that was opened.
//   - "flt" rows: the real imap.filter.command created through the module registry, running a shell
//     script that records argv (NUL separated) and stdin and prints / exits as the row says; once
//     called directly (IMAPFilter) and once inside a real delivery through storage.imapsql.
//
// Input  (VERIF_IN):  one group per line {"id":G,"kind":"login|tls|flt","cfg":{...},"rows":[{"id":N,"in":{..},"world":{..}}]}
// Output (VERIF_OUT): {"t":N,"seq":1,"e":"Row","in":..,"out":..} per row and one
//
//	{"t":G,"seq":1,"e":"Group","cfg":..,"pairs":[{"sp":..,"acct":..}]} per login group.
package imaplogincheck

import (
	"bufio"
	"bytes"
	"context"
	"crypto/ecdsa"
	"crypto/elliptic"
	"crypto/rand"
	"crypto/tls"
	"crypto/x509"
	"crypto/x509/pkix"
	"encoding/base64"
	"encoding/json"
	"encoding/pem"
	"fmt"
	"math/big"
	"net"
	"os"
	"os/exec"
	"path/filepath"
	"sort"
	"strings"
	"sync"
	"testing"
	"time"

	"github.com/emersion/go-imap"
	"github.com/emersion/go-imap/client"
	"github.com/emersion/go-imap/commands"
	"github.com/emersion/go-imap/responses"
	"github.com/emersion/go-message/textproto"
	"github.com/emersion/go-sasl"
	"github.com/emersion/go-smtp"
	"github.com/foxcpp/maddy/framework/buffer"
	"github.com/foxcpp/maddy/framework/config"
	"github.com/foxcpp/maddy/framework/log"
	"github.com/foxcpp/maddy/framework/module"
	imapep "github.com/foxcpp/maddy/internal/endpoint/imap"
	_ "github.com/foxcpp/maddy/internal/imap_filter"
	_ "github.com/foxcpp/maddy/internal/imap_filter/command"
	_ "github.com/foxcpp/maddy/internal/storage/blob/fs"
	"github.com/foxcpp/maddy/internal/storage/imapsql"
	_ "github.com/foxcpp/maddy/internal/table"
	_ "github.com/foxcpp/maddy/internal/tls"
)

// ---- forms of ImapLogin.tla and their concrete spellings ----

var formText = map[string]string{
	"u": "user@example.org", "uC": "User@Example.ORG", "uW": "\uff55\uff53\uff45\uff52@example.org",
	"e": "us\u00e9r@example.org", "eD": "use\u0301r@example.org",
	"b": "user@b\u00fccher.example", "bA": "user@xn--bcher-kva.example",
	"l": "user", "lC": "USER", "lW": "\uff55\uff53\uff45\uff52",
	"o": "other@example.org", "c": "user@example.com", "x": "us er@example.org",
	"uP": "User@example.org", "lP": "User", "eL": "us\u00e9r", "eDL": "use\u0301r", "oL": "other", "xL": "us er",
	"box1": "box1", "box2": "box2",
}

func formOf(text string) string {
	for f, t := range formText {
		if t == text {
			return f
		}
	}
	return "other"
}

// credentials of the scripted provider (DB of the specification)
var credDB = map[string]string{"u": "pwu", "o": "pwo", "l": "pwl", "e": "pwe", "b": "pwb", "lC": "pwC", "uP": "pwP"}

var authStatic = [][2]string{{"u", "l"}, {"o", "o"}}
var storeStatic = [][2]string{{"u", "box1"}, {"o", "box2"}, {"l", "box1"}}

// ---- scripted provider and log capture ----

type call struct {
	N    string `json:"n"`
	Same bool   `json:"same"`
}

var world struct {
	mu    sync.Mutex
	curPw string
	calls []call
	logs  []string
}

type provider struct{}

func (provider) Name() string               { return "auth.x18" }
func (provider) InstanceName() string       { return "x18" }
func (provider) Init(cfg *config.Map) error { return nil }
func (provider) AuthPlain(user, pw string) error {
	world.mu.Lock()
	world.calls = append(world.calls, call{N: formOf(user), Same: pw == world.curPw})
	world.mu.Unlock()
	if want, ok := credDB[formOf(user)]; ok && want == pw {
		return nil
	}
	return module.ErrUnknownCredentials
}

func init() {
	log.DefaultLogger.Out = log.FuncOutput(func(_ time.Time, _ bool, s string) {
		world.mu.Lock()
		if len(world.logs) < 4096 {
			world.logs = append(world.logs, s)
		}
		world.mu.Unlock()
	}, func() error { return nil })
	module.Register("auth.x18", func(_, _ string, _, _ []string) (module.Module, error) { return provider{}, nil })
}

func arm(pw string) {
	world.mu.Lock()
	world.curPw, world.calls, world.logs = pw, nil, nil
	world.mu.Unlock()
}

func node(name string, args []string, ch ...config.Node) config.Node {
	return config.Node{Name: name, Args: args, Children: ch}
}

// ---- input ----

type Row struct {
	ID    int                    `json:"id"`
	In    map[string]interface{} `json:"in"`
	World json.RawMessage        `json:"world"`
}

type Group struct {
	ID   int               `json:"id"`
	Kind string            `json:"kind"`
	Cfg  map[string]string `json:"cfg"`
	Rows []Row             `json:"rows"`
}

type emitter struct {
	mu sync.Mutex
	w  *bufio.Writer
}

func (e *emitter) emit(ev map[string]interface{}) {
	ev["seq"] = 1
	b, err := json.Marshal(ev)
	if err != nil {
		panic(err)
	}
	e.mu.Lock()
	e.w.Write(append(b, '\n'))
	e.mu.Unlock()
}

// ---- the endpoint ----

var certOnce sync.Once
var certFile, keyFile string

func selfSigned(t testing.TB) (string, string) {
	certOnce.Do(func() {
		key, err := ecdsa.GenerateKey(elliptic.P256(), rand.Reader)
		if err != nil {
			t.Fatal(err)
		}
		tpl := &x509.Certificate{SerialNumber: big.NewInt(1), Subject: pkix.Name{CommonName: "x18.example"},
			NotBefore: time.Now().Add(-time.Hour), NotAfter: time.Now().Add(24 * time.Hour),
			DNSNames: []string{"x18.example"}, KeyUsage: x509.KeyUsageDigitalSignature,
			ExtKeyUsage: []x509.ExtKeyUsage{x509.ExtKeyUsageServerAuth}}
		der, err := x509.CreateCertificate(rand.Reader, tpl, tpl, &key.PublicKey, key)
		if err != nil {
			t.Fatal(err)
		}
		kb, err := x509.MarshalPKCS8PrivateKey(key)
		if err != nil {
			t.Fatal(err)
		}
		dir := os.Getenv("VERIF_TMP")
		certFile, keyFile = filepath.Join(dir, "x18cert.pem"), filepath.Join(dir, "x18key.pem")
		os.WriteFile(certFile, pem.EncodeToMemory(&pem.Block{Type: "CERTIFICATE", Bytes: der}), 0o600)
		os.WriteFile(keyFile, pem.EncodeToMemory(&pem.Block{Type: "PRIVATE KEY", Bytes: kb}), 0o600)
	})
	return certFile, keyFile
}

type endpoint struct {
	ep   *imapep.Endpoint
	st   *imapsql.Storage
	sock string
	dir  string
}

func staticTable(name string, ents [][2]string) config.Node {
	var ch []config.Node
	for _, e := range ents {
		ch = append(ch, node("entry", []string{formText[e[0]], formText[e[1]]}))
	}
	return node(name, []string{"static"}, ch...)
}

func newEndpoint(t testing.TB, g Group) *endpoint {
	dir, err := os.MkdirTemp(os.Getenv("VERIF_TMP"), "g")
	if err != nil {
		t.Fatal(err)
	}
	e := &endpoint{dir: dir, sock: filepath.Join(dir, "s")}
	m, err := imapep.New("imap", []string{"unix://" + e.sock})
	if err != nil {
		t.Fatalf("imap.New: %v", err)
	}
	c := g.Cfg
	var stch []config.Node
	stch = append(stch, node("msg_store", []string{"fs", filepath.Join(dir, "blobs")}))
	if bn := c["bn"]; bn != "" && bn != "auto" {
		stch = append(stch, node("auth_normalize", []string{bn}))
	}
	nodes := []config.Node{
		node("auth", []string{"x18"}),
		node("storage", []string{"imapsql", "sqlite3", filepath.Join(dir, "imapsql.db")}, stch...),
	}
	if c["tls"] == "on" {
		cf, kf := selfSigned(t)
		nodes = append(nodes, node("tls", []string{"file", cf, kf}))
	} else {
		nodes = append(nodes, node("tls", []string{"off"}))
	}
	if v := c["ins"]; v == "yes" || v == "no" {
		nodes = append(nodes, node("insecure_auth", []string{v}))
	}
	if v := c["iod"]; v == "yes" || v == "no" {
		// "no" is spelled out in half of the groups, left to the default in the other half
		if v == "yes" || g.ID%2 == 0 {
			nodes = append(nodes, node("io_debug", []string{v}))
		}
		nodes = append(nodes, node("debug", []string{"yes"}))
	}
	// the default of the *_normalize directives is "auto": left out in every other group
	if v := c["an"]; v != "" && !(v == "auto" && g.ID%2 == 1) {
		nodes = append(nodes, node("auth_map_normalize", []string{v}))
	}
	if v := c["sn"]; v != "" && !(v == "auto" && g.ID%2 == 1) {
		nodes = append(nodes, node("storage_map_normalize", []string{v}))
	}
	switch c["am"] {
	case "lp":
		nodes = append(nodes, node("auth_map", []string{"email_localpart_optional"}))
	case "static":
		nodes = append(nodes, staticTable("auth_map", authStatic))
	}
	switch c["sm"] {
	case "lp":
		nodes = append(nodes, node("storage_map", []string{"email_localpart_optional"}))
	case "static":
		nodes = append(nodes, staticTable("storage_map", storeStatic))
	}
	e.ep = m.(*imapep.Endpoint)
	if err := e.ep.Init(config.NewMap(nil, node("imap", nil, nodes...))); err != nil {
		t.Fatalf("group %d: endpoint Init: %v", g.ID, err)
	}
	st, ok := e.ep.Store.(*imapsql.Storage)
	if !ok {
		t.Fatalf("group %d: storage is %T", g.ID, e.ep.Store)
	}
	e.st = st
	return e
}

func (e *endpoint) dial() (*client.Client, error) {
	conn, err := net.DialTimeout("unix", e.sock, 5*time.Second)
	if err != nil {
		return nil, err
	}
	c, err := client.New(conn)
	if err != nil {
		conn.Close()
		return nil, err
	}
	c.Timeout = 20 * time.Second
	return c, nil
}

func verdict(st *imap.StatusResp, err error) string {
	if err != nil || st == nil {
		return "bye"
	}
	switch st.Type {
	case imap.StatusRespOk:
		return "ok"
	case imap.StatusRespNo:
		return "no"
	}
	return "bye"
}

// credentials are always put on the wire: the client library's own LOGINDISABLED guard is bypassed
func sendLogin(c *client.Client, user, pw string) string {
	return verdict(c.Execute(&commands.Login{Username: user, Password: pw}, nil))
}

func sendPlain(c *client.Client, authzid, user, pw string) string {
	auth := sasl.NewPlainClient(authzid, user, pw)
	mech, ir, err := auth.Start()
	if err != nil {
		return "bye"
	}
	cmd := &commands.Authenticate{Mechanism: mech}
	res := &responses.Authenticate{Mechanism: auth, InitialResponse: ir, RepliesCh: make(chan []byte, 10)}
	return verdict(c.Execute(cmd, res))
}

func (e *endpoint) owners() (map[string]string, error) {
	out := map[string]string{}
	accts, err := e.st.ListIMAPAccts()
	if err != nil {
		return nil, err
	}
	for _, a := range accts {
		u, err := e.st.GetIMAPAcct(a)
		if err != nil {
			return nil, err
		}
		mboxes, err := u.ListMailboxes(false)
		if err != nil {
			return nil, err
		}
		for _, mi := range mboxes {
			if strings.HasPrefix(mi.Name, "R") {
				if prev, dup := out[mi.Name]; dup {
					out[mi.Name] = prev + "+" + formOf(a)
				} else {
					out[mi.Name] = formOf(a)
				}
			}
		}
		u.Logout()
	}
	return out, nil
}

func (e *endpoint) shutdown() (closeErr bool) {
	done := make(chan error, 1)
	go func() { done <- e.ep.Close() }()
	select {
	case err := <-done:
		closeErr = err != nil
	case <-time.After(15 * time.Second):
		closeErr = true
	}
	e.st.Close()
	os.RemoveAll(e.dir)
	return closeErr
}

func runLoginGroup(t *testing.T, g Group, em *emitter) {
	e := newEndpoint(t, g)
	type res struct {
		row Row
		out map[string]interface{}
	}
	var results []res
	for _, r := range g.Rows {
		var w struct {
			Pw      string `json:"pw"`
			Authzid string `json:"authzid"`
		}
		if err := json.Unmarshal(r.World, &w); err != nil {
			t.Fatalf("row %d: world: %v", r.ID, err)
		}
		user := formText[r.In["sp"].(string)]
		arm(w.Pw)
		c, err := e.dial()
		if err != nil {
			t.Fatalf("row %d: dial: %v", r.ID, err)
		}
		var v string
		switch r.In["mech"].(string) {
		case "login":
			v = sendLogin(c, user, w.Pw)
		default:
			az := w.Authzid
			if az != "" {
				az = formText[az]
			}
			v = sendPlain(c, az, user, w.Pw)
		}
		if v == "ok" {
			c.SetState(imap.AuthenticatedState, nil)
			if err := c.Create(fmt.Sprintf("R%d", r.ID)); err != nil {
				t.Fatalf("row %d: CREATE after a successful login failed: %v", r.ID, err)
			}
			c.Logout()
		} else {
			c.Terminate()
		}
		world.mu.Lock()
		calls := append([]call{}, world.calls...)
		world.mu.Unlock()
		results = append(results, res{r, map[string]interface{}{"v": v, "pc": calls}})
	}
	own, err := e.owners()
	if err != nil {
		t.Fatalf("group %d: cannot read the accounts back: %v", g.ID, err)
	}
	pairs := []map[string]string{}
	seen := map[string]bool{}
	for _, r := range results {
		acct := "none"
		if a, ok := own[fmt.Sprintf("R%d", r.row.ID)]; ok {
			acct = a
		}
		r.out["acct"] = acct
		em.emit(map[string]interface{}{"t": r.row.ID, "e": "Row", "in": r.row.In, "out": r.out})
		if r.out["v"] == "ok" {
			k := r.row.In["sp"].(string) + "|" + acct
			if !seen[k] {
				seen[k] = true
				pairs = append(pairs, map[string]string{"sp": r.row.In["sp"].(string), "acct": acct})
			}
		}
	}
	sort.Slice(pairs, func(i, j int) bool { return pairs[i]["sp"]+pairs[i]["acct"] < pairs[j]["sp"]+pairs[j]["acct"] })
	em.emit(map[string]interface{}{"t": g.ID, "e": "Group", "cfg": g.Cfg, "pairs": pairs})
	e.shutdown()
}

func runTLSGroup(t *testing.T, g Group, em *emitter) {
	e := newEndpoint(t, g)
	var closeRow *Row
	for i := range g.Rows {
		r := g.Rows[i]
		if r.In["tab"] == "close" {
			closeRow = &g.Rows[i]
			continue
		}
		pw := "pwu"
		if r.In["pw"] == "wrong" {
			pw = "nope-" + fmt.Sprint(r.ID)
		}
		arm(pw)
		c, err := e.dial()
		if err != nil {
			t.Fatalf("row %d: dial: %v", r.ID, err)
		}
		if r.In["stls"] == true {
			if err := c.StartTLS(&tls.Config{InsecureSkipVerify: true}); err != nil {
				t.Fatalf("row %d: STARTTLS: %v", r.ID, err)
			}
		}
		caps, err := c.Capability()
		if err != nil {
			t.Fatalf("row %d: CAPABILITY: %v", r.ID, err)
		}
		var v string
		if r.In["mech"] == "login" {
			v = sendLogin(c, formText["u"], pw)
		} else {
			v = sendPlain(c, "", formText["u"], pw)
		}
		c.Terminate()
		world.mu.Lock()
		n := len(world.calls)
		pwlog := false
		// the password as typed, or inside the base64 SASL PLAIN response
		b64 := base64.StdEncoding.EncodeToString([]byte("\x00" + formText["u"] + "\x00" + pw))
		for _, l := range world.logs {
			if strings.Contains(l, pw) || strings.Contains(l, b64) {
				pwlog = true
			}
		}
		world.mu.Unlock()
		em.emit(map[string]interface{}{"t": r.ID, "e": "Row", "in": r.In, "out": map[string]interface{}{
			"ld": caps["LOGINDISABLED"], "st": caps["STARTTLS"], "ap": caps["AUTH=PLAIN"], "v": v, "pc": n, "pwlog": pwlog}})
	}
	if closeRow == nil {
		e.shutdown()
		return
	}
	// Close: an idle session is open; afterwards nobody can connect and the session is over
	c, err := e.dial()
	if err != nil {
		t.Fatalf("row %d: dial: %v", closeRow.ID, err)
	}
	cerr := e.shutdown()
	ended := false
	select {
	case <-c.LoggedOut():
		ended = true
	case <-time.After(10 * time.Second):
	}
	c.Terminate()
	refused := false
	if conn, err := net.DialTimeout("unix", e.sock, 2*time.Second); err != nil {
		refused = true
	} else {
		conn.Close()
	}
	em.emit(map[string]interface{}{"t": closeRow.ID, "e": "Row", "in": closeRow.In,
		"out": map[string]interface{}{"err": cerr, "refused": refused, "ended": ended}})
}

// ---- imap.filter.command ----

const helperScript = `#!/bin/sh
# $1 = directory prepared by the harness; the other arguments are what the filter passed
d="$1"; shift
n=$(cat "$d/count" 2>/dev/null || echo 0); n=$((n+1)); echo "$n" > "$d/count"
: > "$d/args.$n"
for a in "$@"; do printf '%s\0' "$a" >> "$d/args.$n"; done
cat > "$d/stdin.$n"
cat "$d/plan.out"
exit "$(cat "$d/plan.rc")"
`

var outText = map[string]string{"none": "", "folder": "Work\n", "flags": "\n$Label1\n", "both": "Work\n$A\n$B\n",
	"nonl": "Work", "ghost": "Nope\n$A\n"}

type fltWorld struct {
	Args []string `json:"args"`
	Vals struct {
		AuthUser string   `json:"auth_user"`
		Sender   string   `json:"sender"`
		RcptTo   string   `json:"rcpt_to"`
		Subject  string   `json:"subject"`
		Account  string   `json:"account_name"`
		MsgID    string   `json:"msg_id"`
		Conn     bool     `json:"conn"`
		HasSubj  bool     `json:"hassubj"`
		Chain    []string `json:"chain"`
		Cyc      bool     `json:"cyc"`
	} `json:"vals"`
}

func (w *fltWorld) meta() *module.MsgMetadata {
	m := &module.MsgMetadata{ID: w.Vals.MsgID, OriginalFrom: w.Vals.Sender, OriginalRcpts: map[string]string{}}
	if w.Vals.Conn {
		m.Conn = &module.ConnState{AuthUser: w.Vals.AuthUser}
	}
	for k := 1; k < len(w.Vals.Chain); k++ {
		m.OriginalRcpts[w.Vals.Chain[k]] = w.Vals.Chain[k-1]
	}
	return m
}

func (w *fltWorld) message(id int) (textproto.Header, []byte) {
	h := textproto.Header{}
	h.Add("From", "<sender@example.net>")
	h.Add("To", "<user@example.org>")
	if w.Vals.HasSubj {
		h.Add("Subject", w.Vals.Subject)
	}
	h.Add("X-Row", fmt.Sprint(id))
	return h, []byte(fmt.Sprintf("body of row %d\r\nsecond line\r\n", id))
}

func plan(dir string, outk string, rc int) {
	os.WriteFile(filepath.Join(dir, "plan.out"), []byte(outText[outk]), 0o600)
	os.WriteFile(filepath.Join(dir, "plan.rc"), []byte(fmt.Sprint(rc)), 0o600)
	os.Remove(filepath.Join(dir, "count"))
	ents, _ := os.ReadDir(dir)
	for _, en := range ents {
		if strings.HasPrefix(en.Name(), "args.") || strings.HasPrefix(en.Name(), "stdin.") {
			os.Remove(filepath.Join(dir, en.Name()))
		}
	}
}

func readRun(dir string) (ran int, args []string, stdin []byte) {
	b, err := os.ReadFile(filepath.Join(dir, "count"))
	if err != nil {
		return 0, []string{}, nil
	}
	fmt.Sscan(strings.TrimSpace(string(b)), &ran)
	ab, _ := os.ReadFile(filepath.Join(dir, "args.1"))
	args = []string{}
	if len(ab) > 0 {
		args = strings.Split(strings.TrimSuffix(string(ab), "\x00"), "\x00")
	}
	stdin, _ = os.ReadFile(filepath.Join(dir, "stdin.1"))
	return ran, args, stdin
}

type fltOut struct {
	Folder string   `json:"folder"`
	Flags  []string `json:"flags"`
	Err    string   `json:"err"`
	ErrTxt string   `json:"errText,omitempty"`
}

func newFilter(helper, dir string, args []string) (module.IMAPFilter, error) {
	inline := append([]string{helper, dir}, args...)
	m, err := module.Get("imap.filter.command")("imap.filter.command", "", nil, inline)
	if err != nil {
		return nil, err
	}
	if err := m.Init(config.NewMap(nil, node("command", inline))); err != nil {
		return nil, err
	}
	return m.(module.IMAPFilter), nil
}

func callFilter(f module.IMAPFilter, w *fltWorld, id int) fltOut {
	h, body := w.message(id)
	folder, flags, err := f.IMAPFilter(w.Vals.Account, w.Vals.RcptTo, w.meta(), h, buffer.MemoryBuffer{Slice: body})
	o := fltOut{Folder: folder, Flags: flags, Err: "none"}
	if o.Flags == nil {
		o.Flags = []string{}
	}
	if err != nil {
		o.Err, o.ErrTxt = "err", err.Error()
	}
	return o
}

// TestChild is the body of the child process that calls IMAPFilter for rows whose rewriting history
// is a cycle: a call that never returns is an observation (the parent kills the child), not a stuck shard.
func TestChild(t *testing.T) {
	spec := os.Getenv("VERIF_X18_CHILD")
	if spec == "" {
		t.Skip("not a child")
	}
	var c struct {
		Helper, Dir string
		ID          int
		World       fltWorld
	}
	if err := json.Unmarshal([]byte(spec), &c); err != nil {
		t.Fatal(err)
	}
	f, err := newFilter(c.Helper, c.Dir, c.World.Args)
	if err != nil {
		t.Fatal(err)
	}
	o := callFilter(f, &c.World, c.ID)
	b, _ := json.Marshal(o)
	os.WriteFile(filepath.Join(c.Dir, "child.out"), b, 0o600)
}

func callInChild(t *testing.T, helper, dir string, w *fltWorld, id int) fltOut {
	spec, _ := json.Marshal(map[string]interface{}{"Helper": helper, "Dir": dir, "ID": id, "World": w})
	os.Remove(filepath.Join(dir, "child.out"))
	ctx, cancel := context.WithTimeout(context.Background(), 4*time.Second)
	defer cancel()
	cmd := exec.CommandContext(ctx, os.Args[0], "-test.run", "^TestChild$", "-test.count", "1")
	cmd.Env = append(os.Environ(), "VERIF_X18_CHILD="+string(spec))
	cmd.Run()
	b, err := os.ReadFile(filepath.Join(dir, "child.out"))
	if err != nil {
		if ctx.Err() != nil {
			return fltOut{Flags: []string{}, Err: "hang"}
		}
		t.Fatalf("row %d: child failed without a result", id)
	}
	var o fltOut
	if err := json.Unmarshal(b, &o); err != nil {
		t.Fatalf("row %d: child result: %v", id, err)
	}
	return o
}

type landing struct {
	N     int      `json:"n"`
	Box   string   `json:"box"`
	Flags []string `json:"flags"`
}

// where are the copies of the message with X-Row: id in the account
func findMessage(st *imapsql.Storage, acct string, id int) (landing, error) {
	l := landing{Flags: []string{}}
	u, err := st.GetIMAPAcct(acct)
	if err != nil {
		return l, err
	}
	defer u.Logout()
	mboxes, err := u.ListMailboxes(false)
	if err != nil {
		return l, err
	}
	want := []byte(fmt.Sprintf("X-Row: %d\r\n", id))
	for _, mi := range mboxes {
		_, mb, err := u.GetMailbox(mi.Name, true, nil)
		if err != nil {
			return l, err
		}
		ch := make(chan *imap.Message, 64)
		ss := new(imap.SeqSet)
		ss.AddRange(1, 0)
		sec, _ := imap.ParseBodySectionName("BODY.PEEK[HEADER]")
		var lerr error
		done := make(chan struct{})
		go func() {
			lerr = mb.ListMessages(true, ss, []imap.FetchItem{imap.FetchFlags, imap.FetchUid, sec.FetchItem()}, ch)
			close(done)
		}()
		for m := range ch {
			for _, lit := range m.Body {
				var buf bytes.Buffer
				buf.ReadFrom(lit)
				if bytes.Contains(buf.Bytes(), want) {
					l.N++
					if l.N == 1 {
						l.Box = mi.Name
						for _, f := range m.Flags {
							if !strings.HasPrefix(f, "\\") {
								l.Flags = append(l.Flags, f)
							}
						}
						sort.Strings(l.Flags)
					}
				}
			}
		}
		<-done
		mb.Close()
		if lerr != nil {
			return l, lerr
		}
	}
	return l, nil
}

func runFilterGroup(t *testing.T, g Group, em *emitter) {
	dir, err := os.MkdirTemp(os.Getenv("VERIF_TMP"), "f")
	if err != nil {
		t.Fatal(err)
	}
	defer os.RemoveAll(dir)
	helper := filepath.Join(dir, "helper.sh")
	if err := os.WriteFile(helper, []byte(helperScript), 0o700); err != nil {
		t.Fatal(err)
	}
	var w0 fltWorld
	if len(g.Rows) == 0 {
		return
	}
	if err := json.Unmarshal(g.Rows[0].World, &w0); err != nil {
		t.Fatal(err)
	}
	direct, err := newFilter(helper, dir, w0.Args)
	if err != nil {
		t.Fatalf("group %d: filter: %v", g.ID, err)
	}
	// the storage with the same filter configured
	m, err := imapsql.New("storage.imapsql", "x18store", nil, []string{"sqlite3", filepath.Join(dir, "imapsql.db")})
	if err != nil {
		t.Fatal(err)
	}
	st := m.(*imapsql.Storage)
	cmdArgs := append([]string{helper, dir}, w0.Args...)
	if err := st.Init(config.NewMap(nil, node("storage.imapsql", nil,
		node("msg_store", []string{"fs", filepath.Join(dir, "blobs")}),
		node("imap_filter", nil, node("command", cmdArgs))))); err != nil {
		t.Fatalf("group %d: storage Init: %v", g.ID, err)
	}
	defer st.Close()
	const acct = "user@example.org"
	if err := st.CreateIMAPAcct(acct); err != nil {
		t.Fatal(err)
	}
	u, err := st.GetIMAPAcct(acct)
	if err != nil {
		t.Fatal(err)
	}
	if err := u.CreateMailbox("Work"); err != nil {
		t.Fatal(err)
	}
	u.Logout()
	ctx := context.Background()
	for _, r := range g.Rows {
		var w fltWorld
		if err := json.Unmarshal(r.World, &w); err != nil {
			t.Fatalf("row %d: world: %v", r.ID, err)
		}
		if strings.Join(w.Args, "\x00") != strings.Join(w0.Args, "\x00") {
			t.Fatalf("group %d mixes templates", g.ID)
		}
		outk, rc := r.In["outk"].(string), int(r.In["rc"].(float64))
		plan(dir, outk, rc)
		var o fltOut
		if w.Vals.Cyc {
			o = callInChild(t, helper, dir, &w, r.ID)
		} else {
			o = callFilter(direct, &w, r.ID)
		}
		ran, args, stdin := readRun(dir)
		h, body := w.message(r.ID)
		var exp bytes.Buffer
		textproto.WriteHeader(&exp, h)
		exp.Write(body)
		sk := "differs"
		if ran == 0 {
			sk = "none"
		} else if bytes.Equal(stdin, exp.Bytes()) {
			sk = "exact"
		}
		land := landing{Flags: []string{}}
		if o.Err != "hang" {
			// the same message through a real delivery
			plan(dir, outk, rc)
			d, err := st.Start(ctx, w.meta(), w.Vals.Sender)
			if err != nil {
				t.Fatalf("row %d: Start: %v", r.ID, err)
			}
			if err := d.AddRcpt(ctx, w.Vals.RcptTo, smtp.RcptOptions{}); err != nil {
				t.Fatalf("row %d: AddRcpt: %v", r.ID, err)
			}
			derr := d.Body(ctx, h, buffer.MemoryBuffer{Slice: body})
			if derr == nil {
				derr = d.Commit(ctx)
			} else {
				d.Abort(ctx)
			}
			land, err = findMessage(st, acct, r.ID)
			if err != nil {
				t.Fatalf("row %d: cannot read the mailboxes back: %v", r.ID, err)
			}
			_ = derr
		}
		em.emit(map[string]interface{}{"t": r.ID, "e": "Row", "in": r.In, "out": map[string]interface{}{
			"ran": ran, "args": args, "stdin": sk, "folder": o.Folder, "flags": o.Flags, "err": o.Err, "land": land},
			"errText": o.ErrTxt})
	}
}

func TestReplay(t *testing.T) {
	in, out := os.Getenv("VERIF_IN"), os.Getenv("VERIF_OUT")
	if in == "" || out == "" {
		t.Skip("VERIF_IN / VERIF_OUT not set")
	}
	f, err := os.Open(in)
	if err != nil {
		t.Fatal(err)
	}
	defer f.Close()
	of, err := os.Create(out)
	if err != nil {
		t.Fatal(err)
	}
	defer of.Close()
	em := &emitter{w: bufio.NewWriter(of)}
	defer em.w.Flush()
	sc := bufio.NewScanner(f)
	sc.Buffer(make([]byte, 1<<20), 1<<26)
	n := 0
	for sc.Scan() {
		var g Group
		if err := json.Unmarshal(sc.Bytes(), &g); err != nil {
			t.Fatalf("bad group line: %v", err)
		}
		switch g.Kind {
		case "login":
			runLoginGroup(t, g, em)
		case "tls":
			runTLSGroup(t, g, em)
		case "flt":
			runFilterGroup(t, g, em)
		default:
			t.Fatalf("group %d: unknown kind %q", g.ID, g.Kind)
		}
		n++
	}
	t.Logf("replayed %d groups", n)
}
