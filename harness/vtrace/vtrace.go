// Package vtrace writes NDJSON event traces. Sequence numbers are assigned
// under one mutex at the observation point; never wall-clock time.
package vtrace

import (
	"encoding/json"
	"io"
	"sync"
)

// Ev is one event. Keys "t" (trace number), "seq" and "e" are set by Emit.
type Ev map[string]interface{}

type Tracer struct {
	mu   sync.Mutex
	w    io.Writer
	t    int
	seq  int
	Evs  []Ev // in-memory copy (for in-harness inspection)
	Keep bool
}

func New(w io.Writer, traceNo int) *Tracer { return &Tracer{w: w, t: traceNo} }

// Emit records event name e with fields f (f may be nil).
func (tr *Tracer) Emit(e string, f Ev) {
	tr.mu.Lock()
	defer tr.mu.Unlock()
	tr.seq++
	out := Ev{"t": tr.t, "seq": tr.seq, "e": e}
	for k, v := range f {
		out[k] = v
	}
	if tr.Keep {
		tr.Evs = append(tr.Evs, out)
	}
	if tr.w != nil {
		b, err := json.Marshal(out)
		if err != nil {
			panic(err)
		}
		tr.w.Write(append(b, '\n'))
	}
}

// Locked runs f while holding the tracer mutex (for observation points that
// must log a state change atomically with making it).
func (tr *Tracer) Seq() int {
	tr.mu.Lock()
	defer tr.mu.Unlock()
	return tr.seq
}
