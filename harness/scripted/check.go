package scripted

// Scripted checks and recording delivery targets for harnesses that drive the
// real message pipeline (internal/msgpipeline).
//
//   - Module "check.verif_scripted": a module.Check with a verdict per stage.
//     A failing stage returns module.CheckResult{Reason: ...} passed through the
//     real modconfig.FailAction.Apply for the configured action (reject /
//     quarantine / ignore), exactly as maddy's own checks do.  Every call parks
//     on a gate of the behaviour's CheckCtl until the harness releases it, so
//     the harness decides the completion order of the parallel check goroutines.
//   - Module "target.verif_rec": a module.DeliveryTarget (PartialDelivery) that
//     always succeeds and records every call with the value of
//     MsgMetadata.Quarantine it saw.
//
// Both are ordinary maddy modules: they are created through the module registry
// from configuration blocks and find their controller by the `ctl` directive.

import (
	"context"
	"errors"
	"fmt"
	"sort"
	"sync"

	"github.com/emersion/go-message/textproto"
	"github.com/emersion/go-msgauth/authres"
	"github.com/emersion/go-smtp"
	"github.com/foxcpp/maddy/framework/buffer"
	"github.com/foxcpp/maddy/framework/config"
	modconfig "github.com/foxcpp/maddy/framework/config/module"
	"github.com/foxcpp/maddy/framework/exterrors"
	"github.com/foxcpp/maddy/framework/module"
	"github.com/foxcpp/maddy/verifharness/vtrace"
)

// ParkedCall is a check call waiting on its gate.
type ParkedCall struct {
	Check, Stage, Arg string
	Cmd               int // command number when the call started
	gate              chan struct{}
}

// CheckCtl is the per-behaviour controller shared by the scripted checks and
// recording targets of one pipeline.
type CheckCtl struct {
	Tr *vtrace.Tracer
	// RcptID maps an address to the abstract recipient id used in events.
	RcptID func(addr string) string
	// NoGate lets calls run through without parking (used outside bubbles).
	NoGate bool

	mu     sync.Mutex
	parked []*ParkedCall
	cmd    int
	ord    int
	nstate map[string]int
}

func NewCheckCtl(tr *vtrace.Tracer, rcptID func(string) string) *CheckCtl {
	return &CheckCtl{Tr: tr, RcptID: rcptID, nstate: map[string]int{}}
}

var (
	ctlMu sync.Mutex
	ctls  = map[string]*CheckCtl{}
)

// BindCheckCtl makes ctl reachable for modules configured with `ctl key`.
func BindCheckCtl(key string, ctl *CheckCtl) {
	ctlMu.Lock()
	defer ctlMu.Unlock()
	ctls[key] = ctl
}

func UnbindCheckCtl(key string) {
	ctlMu.Lock()
	defer ctlMu.Unlock()
	delete(ctls, key)
}

func lookupCtl(key string) (*CheckCtl, error) {
	ctlMu.Lock()
	defer ctlMu.Unlock()
	c := ctls[key]
	if c == nil {
		return nil, fmt.Errorf("verif_scripted: no controller bound for %q", key)
	}
	return c, nil
}

// SetCmd sets the number of the command the driver is about to issue.
func (c *CheckCtl) SetCmd(n int) {
	c.mu.Lock()
	c.cmd = n
	c.mu.Unlock()
}

// Parked returns the calls currently waiting on their gates, ordered by check name.
func (c *CheckCtl) Parked() []*ParkedCall {
	c.mu.Lock()
	defer c.mu.Unlock()
	out := append([]*ParkedCall(nil), c.parked...)
	sort.SliceStable(out, func(i, j int) bool { return out[i].Check < out[j].Check })
	return out
}

// Release lets one parked call finish.
func (c *CheckCtl) Release(p *ParkedCall) {
	c.mu.Lock()
	for i, q := range c.parked {
		if q == p {
			c.parked = append(c.parked[:i], c.parked[i+1:]...)
			break
		}
	}
	c.mu.Unlock()
	close(p.gate)
}

func (c *CheckCtl) park(check, stage, arg string) *ParkedCall {
	c.mu.Lock()
	p := &ParkedCall{Check: check, Stage: stage, Arg: arg, Cmd: c.cmd, gate: make(chan struct{})}
	if c.NoGate {
		close(p.gate)
	} else {
		c.parked = append(c.parked, p)
	}
	c.mu.Unlock()
	return p
}

func (c *CheckCtl) nextOrd() int {
	c.mu.Lock()
	defer c.mu.Unlock()
	c.ord++
	return c.ord
}

func (c *CheckCtl) newState(check string) int {
	c.mu.Lock()
	defer c.mu.Unlock()
	c.nstate[check]++
	return c.nstate[check]
}

func (c *CheckCtl) rid(addr string) string {
	if c.RcptID != nil {
		return c.RcptID(addr)
	}
	return addr
}

// ---------------------------------------------------------------------------

// Check is the scripted check module.
type Check struct {
	modName, instName string
	id                string
	ctl               *CheckCtl
	failOn            []string
	actions           map[string]*modconfig.FailAction
	rcptOnly          string
	raw               map[string]*string // stage -> "" | "rq" | "rqp": raw combined result, not through Apply
}

var checkStages = []string{"conn", "sender", "rcpt", "body"}

func NewCheck(modName, instName string, _, inlineArgs []string) (module.Module, error) {
	if len(inlineArgs) != 0 {
		return nil, fmt.Errorf("%s: inline arguments are not used", modName)
	}
	return &Check{modName: modName, instName: instName, actions: map[string]*modconfig.FailAction{},
		raw: map[string]*string{}}, nil
}

func (c *Check) Init(cfg *config.Map) error {
	var key string
	cfg.String("id", false, true, "", &c.id)
	cfg.String("ctl", false, true, "", &key)
	cfg.StringList("fail_on", false, false, nil, &c.failOn)
	cfg.String("rcpt_only", false, false, "", &c.rcptOnly)
	for _, st := range checkStages {
		a := &modconfig.FailAction{}
		c.actions[st] = a
		cfg.Custom(st+"_action", false, false, func() (interface{}, error) {
			return modconfig.FailAction{Reject: true}, nil
		}, modconfig.FailActionDirective, a)
		// <stage>_raw rq|rqp: the check sets Reject and Quarantine itself (as check.milter does for a
		// quarantine action followed by reject/tempfail); rq: the Reason carries an SMTP code, rqp: plain error
		r := new(string)
		c.raw[st] = r
		cfg.String(st+"_raw", false, false, "", r)
	}
	if _, err := cfg.Process(); err != nil {
		return err
	}
	ctl, err := lookupCtl(key)
	if err != nil {
		return err
	}
	c.ctl = ctl
	return nil
}

func (c *Check) Name() string         { return c.modName }
func (c *Check) InstanceName() string { return c.instName }

func (c *Check) CheckStateForMsg(ctx context.Context, msgMeta *module.MsgMetadata) (module.CheckState, error) {
	sid := c.ctl.newState(c.id)
	c.ctl.Tr.Emit("CheckState", vtrace.Ev{"c": c.id, "sid": sid})
	return &checkState{c: c, sid: sid}, nil
}

type checkState struct {
	c      *Check
	sid    int
	mu     sync.Mutex
	closed bool
}

func verdictName(a modconfig.FailAction) string {
	switch {
	case a.Reject:
		return "reject"
	case a.Quarantine:
		return "quar"
	}
	return "ignore"
}

func (s *checkState) do(stage, addr string) module.CheckResult {
	c := s.c
	arg := ""
	if stage == "rcpt" {
		arg = c.ctl.rid(addr)
	}
	p := c.ctl.park(c.id, stage, arg)
	<-p.gate

	fails := false
	for _, f := range c.failOn {
		if f == stage {
			fails = true
		}
	}
	if stage == "rcpt" && c.rcptOnly != "" && addr != c.rcptOnly {
		fails = false
	}
	res := module.CheckResult{}
	v := "none"
	if fails && *c.raw[stage] != "" {
		v = *c.raw[stage]
		res = module.CheckResult{Reject: true, Quarantine: true}
		if v == "rq" {
			res.Reason = &exterrors.SMTPError{Code: 550, EnhancedCode: exterrors.EnhancedCode{5, 7, 1},
				Message: "scripted check " + c.id + " quarantined and rejected at " + stage, CheckName: "verif_scripted"}
		} else {
			res.Reason = errors.New("scripted check " + c.id + " quarantined and rejected at " + stage)
		}
	} else if fails {
		act := *c.actions[stage]
		v = verdictName(act)
		// what maddy's checks do: report the failure, let the configured action decide
		res = act.Apply(module.CheckResult{Reason: &exterrors.SMTPError{
			Code:         550,
			EnhancedCode: exterrors.EnhancedCode{5, 7, 1},
			Message:      "scripted check " + c.id + " failed at " + stage,
			CheckName:    "verif_scripted",
		}})
	}
	s.mu.Lock()
	closed := s.closed
	s.mu.Unlock()
	c.ctl.Tr.Emit("CheckCall", vtrace.Ev{"c": c.id, "stage": stage, "arg": arg, "v": v,
		"rej": res.Reject, "quar": res.Quarantine, "sid": s.sid, "cmd": p.Cmd,
		"ord": c.ctl.nextOrd(), "afterClose": closed})
	return res
}

func (s *checkState) CheckConnection(ctx context.Context) module.CheckResult { return s.do("conn", "") }
func (s *checkState) CheckSender(ctx context.Context, from string) module.CheckResult {
	return s.do("sender", "")
}
func (s *checkState) CheckRcpt(ctx context.Context, to string) module.CheckResult {
	return s.do("rcpt", to)
}
func (s *checkState) CheckBody(ctx context.Context, h textproto.Header, b buffer.Buffer) module.CheckResult {
	return s.do("body", "")
}
func (s *checkState) Close() error {
	s.mu.Lock()
	again := s.closed
	s.closed = true
	s.mu.Unlock()
	s.c.ctl.Tr.Emit("CheckClose", vtrace.Ev{"c": s.c.id, "sid": s.sid, "again": again})
	return nil
}

// ---------------------------------------------------------------------------

// PipeTarget is the recording delivery target module.
type PipeTarget struct {
	modName, instName string
	id                string
	ctl               *CheckCtl
}

func NewPipeTarget(modName, instName string, _, inlineArgs []string) (module.Module, error) {
	if len(inlineArgs) != 0 {
		return nil, fmt.Errorf("%s: inline arguments are not used", modName)
	}
	return &PipeTarget{modName: modName, instName: instName}, nil
}

func (t *PipeTarget) Init(cfg *config.Map) error {
	var key string
	cfg.String("id", false, true, "", &t.id)
	cfg.String("ctl", false, true, "", &key)
	if _, err := cfg.Process(); err != nil {
		return err
	}
	ctl, err := lookupCtl(key)
	if err != nil {
		return err
	}
	t.ctl = ctl
	return nil
}

func (t *PipeTarget) Name() string         { return t.modName }
func (t *PipeTarget) InstanceName() string { return t.instName }

type pipeDelivery struct {
	t     *PipeTarget
	meta  *module.MsgMetadata
	rcpts []string
}

func (t *PipeTarget) log(op, arg string, meta *module.MsgMetadata) {
	t.ctl.Tr.Emit("TgtCall", vtrace.Ev{"tgt": t.id, "op": op, "arg": arg, "res": "ok", "q": meta.Quarantine})
}

func (t *PipeTarget) Start(ctx context.Context, msgMeta *module.MsgMetadata, mailFrom string) (module.Delivery, error) {
	t.log("start", "", msgMeta)
	return &pipeDelivery{t: t, meta: msgMeta}, nil
}

func (d *pipeDelivery) AddRcpt(ctx context.Context, rcptTo string, _ smtp.RcptOptions) error {
	d.t.log("rcpt", d.t.ctl.rid(rcptTo), d.meta)
	d.rcpts = append(d.rcpts, rcptTo)
	return nil
}

func (d *pipeDelivery) Body(ctx context.Context, header textproto.Header, body buffer.Buffer) error {
	d.t.log("body", "", d.meta)
	return nil
}

func (d *pipeDelivery) BodyNonAtomic(ctx context.Context, c module.StatusCollector, header textproto.Header, body buffer.Buffer) {
	d.t.log("bodyNA", "", d.meta)
	for _, r := range d.rcpts {
		c.SetStatus(r, nil)
	}
}

func (d *pipeDelivery) Commit(ctx context.Context) error {
	d.t.log("commit", "", d.meta)
	return nil
}

func (d *pipeDelivery) Abort(ctx context.Context) error {
	d.t.log("abort", "", d.meta)
	return nil
}

// AuthresCheck ("check.verif_authres") reports failing DKIM and SPF results for a
// foreign domain at the body stage, without verdict, gate or trace events: it only
// feeds the pipeline's DMARC evaluation (dmarc yes).
type AuthresCheck struct{ modName, instName string }

func (c *AuthresCheck) Init(cfg *config.Map) error { _, err := cfg.Process(); return err }
func (c *AuthresCheck) Name() string                { return c.modName }
func (c *AuthresCheck) InstanceName() string        { return c.instName }
func (c *AuthresCheck) CheckStateForMsg(ctx context.Context, m *module.MsgMetadata) (module.CheckState, error) {
	return authresState{}, nil
}

type authresState struct{}

func (authresState) CheckConnection(ctx context.Context) module.CheckResult { return module.CheckResult{} }
func (authresState) CheckSender(ctx context.Context, from string) module.CheckResult {
	return module.CheckResult{}
}
func (authresState) CheckRcpt(ctx context.Context, to string) module.CheckResult {
	return module.CheckResult{}
}
func (authresState) CheckBody(ctx context.Context, h textproto.Header, b buffer.Buffer) module.CheckResult {
	return module.CheckResult{AuthResult: []authres.Result{
		&authres.DKIMResult{Value: authres.ResultFail, Domain: "foreign.example", Identifier: "@foreign.example"},
		&authres.SPFResult{Value: authres.ResultFail, From: "foreign.example", Helo: "mx.foreign.example"},
	}}
}
func (authresState) Close() error { return nil }

// RcptMod ("modify.verif_mod") is a recipient modifier of a destination block that leaves
// every address as it is and fails (451) for the addresses listed in fail_rcpt. Every
// RewriteRcpt call is recorded as a ModCall event.
type RcptMod struct {
	modName, instName string
	id                string
	ctl               *CheckCtl
	fail              []string
}

func NewRcptMod(modName, instName string, _, inlineArgs []string) (module.Module, error) {
	if len(inlineArgs) != 0 {
		return nil, fmt.Errorf("%s: inline arguments are not used", modName)
	}
	return &RcptMod{modName: modName, instName: instName}, nil
}

func (m *RcptMod) Init(cfg *config.Map) error {
	var key string
	cfg.String("id", false, true, "", &m.id)
	cfg.String("ctl", false, true, "", &key)
	cfg.StringList("fail_rcpt", false, false, nil, &m.fail)
	if _, err := cfg.Process(); err != nil {
		return err
	}
	ctl, err := lookupCtl(key)
	if err != nil {
		return err
	}
	m.ctl = ctl
	return nil
}

func (m *RcptMod) Name() string         { return m.modName }
func (m *RcptMod) InstanceName() string { return m.instName }
func (m *RcptMod) ModStateForMsg(ctx context.Context, msgMeta *module.MsgMetadata) (module.ModifierState, error) {
	return rcptModState{m}, nil
}

type rcptModState struct{ m *RcptMod }

func (s rcptModState) RewriteSender(ctx context.Context, from string) (string, error) { return from, nil }
func (s rcptModState) RewriteRcpt(ctx context.Context, to string) ([]string, error) {
	res := "ok"
	for _, f := range s.m.fail {
		if f == to {
			res = "err"
		}
	}
	s.m.ctl.Tr.Emit("ModCall", vtrace.Ev{"blk": s.m.id, "r": s.m.ctl.rid(to), "res": res})
	if res != "ok" {
		return nil, &exterrors.SMTPError{Code: 451, EnhancedCode: exterrors.EnhancedCode{4, 3, 0},
			Message: "scripted modifier failure", ModifierName: "verif_mod"}
	}
	return []string{to}, nil
}
func (s rcptModState) RewriteBody(ctx context.Context, h *textproto.Header, body buffer.Buffer) error {
	return nil
}
func (s rcptModState) Close() error { return nil }

func init() {
	module.Register("modify.verif_mod", NewRcptMod)
	module.Register("check.verif_authres", func(modName, instName string, _, _ []string) (module.Module, error) {
		return &AuthresCheck{modName: modName, instName: instName}, nil
	})
	module.Register("check.verif_scripted", NewCheck)
	module.Register("target.verif_rec", NewPipeTarget)
}
