package scripted

// NamedCheck: a scripted module.Check for the session harness (C03), registered
// as maddy module "check.verifnamed" and looked up by name, so a pipeline built
// from configuration nodes can say `check { verifnamed CK }`. A verdict
// function decides per stage; every call is logged as a "Chk" event.
// (Independent of Check/CheckCtl in check.go, which serve C06.)

import (
	"context"
	"fmt"
	"sync"

	"github.com/emersion/go-message/textproto"
	"github.com/foxcpp/maddy/framework/buffer"
	"github.com/foxcpp/maddy/framework/config"
	"github.com/foxcpp/maddy/framework/exterrors"
	"github.com/foxcpp/maddy/framework/module"
	"github.com/foxcpp/maddy/verifharness/vtrace"
)

// NamedVerdict of a check at one stage: "" / "none" (accept), "reject", "quarantine".
type NamedVerdict func(stage, arg string, hdr *textproto.Header) string

type NamedCheck struct {
	CName   string
	Tr      *vtrace.Tracer
	Verdict NamedVerdict

	mu     sync.Mutex
	states int
	open   int
}

func (c *NamedCheck) Name() string               { return "verifnamed" }
func (c *NamedCheck) InstanceName() string       { return c.CName }
func (c *NamedCheck) Init(cfg *config.Map) error { return nil }

// OpenStates returns the number of check states created and not closed.
func (c *NamedCheck) OpenStates() int {
	c.mu.Lock()
	defer c.mu.Unlock()
	return c.open
}

var (
	namedCheckMu    sync.Mutex
	namedCheckTable = map[string]*NamedCheck{}
	namedCheckOnce  sync.Once
)

// SetNamedChecks installs the checks reachable as `check { verifnamed <name> }`.
func SetNamedChecks(cs ...*NamedCheck) {
	namedCheckOnce.Do(func() {
		module.Register("check.verifnamed", func(modName, instName string, aliases, inlineArgs []string) (module.Module, error) {
			if len(inlineArgs) != 1 {
				return nil, fmt.Errorf("verifnamed check: exactly one argument (check name) required")
			}
			namedCheckMu.Lock()
			defer namedCheckMu.Unlock()
			c := namedCheckTable[inlineArgs[0]]
			if c == nil {
				return nil, fmt.Errorf("verifnamed: unknown check %s", inlineArgs[0])
			}
			return c, nil
		})
	})
	namedCheckMu.Lock()
	defer namedCheckMu.Unlock()
	namedCheckTable = map[string]*NamedCheck{}
	for _, c := range cs {
		namedCheckTable[c.CName] = c
	}
}

type namedCheckState struct {
	c      *NamedCheck
	n      int
	closed bool
}

func (c *NamedCheck) CheckStateForMsg(ctx context.Context, msgMeta *module.MsgMetadata) (module.CheckState, error) {
	c.mu.Lock()
	c.states++
	c.open++
	n := c.states
	c.mu.Unlock()
	return &namedCheckState{c: c, n: n}, nil
}

func (s *namedCheckState) run(stage, arg string, hdr *textproto.Header) module.CheckResult {
	v := ""
	if s.c.Verdict != nil {
		v = s.c.Verdict(stage, arg, hdr)
	}
	if v == "" {
		v = "none"
	}
	ts := "ok"
	if s.closed {
		ts = "closed"
	}
	s.c.Tr.Emit("Chk", vtrace.Ev{"chk": s.c.CName, "n": s.n, "stage": stage, "arg": arg, "verdict": v, "ts": ts})
	res := module.CheckResult{}
	if v != "none" {
		res.Reason = &exterrors.SMTPError{Code: 550, EnhancedCode: exterrors.EnhancedCode{5, 7, 1},
			Message: "scripted check " + s.c.CName + " verdict " + v + " at " + stage, CheckName: "verifnamed"}
	}
	switch v {
	case "reject":
		res.Reject = true
	case "quarantine":
		res.Quarantine = true
	}
	return res
}

func (s *namedCheckState) CheckConnection(ctx context.Context) module.CheckResult {
	return s.run("conn", "", nil)
}

func (s *namedCheckState) CheckSender(ctx context.Context, mailFrom string) module.CheckResult {
	return s.run("sender", mailFrom, nil)
}

func (s *namedCheckState) CheckRcpt(ctx context.Context, rcptTo string) module.CheckResult {
	return s.run("rcpt", rcptTo, nil)
}

func (s *namedCheckState) CheckBody(ctx context.Context, header textproto.Header, body buffer.Buffer) module.CheckResult {
	return s.run("body", "", &header)
}

func (s *namedCheckState) Close() error {
	s.c.mu.Lock()
	if !s.closed {
		s.closed = true
		s.c.open--
	}
	s.c.mu.Unlock()
	return nil
}
