package scripted

// A resolver LIST for code that talks to a DNSSEC-aware stub resolver
// configured with several servers (resolv.conf: a local validating resolver
// plus a fall-back that is reached over the network).  All servers listen on
// the same port (the stub resolver has one port setting) on different
// addresses, serve the same zone data (DNSZone, AD bits as given - what a
// server CLAIMS) and can be made to fail (SERVFAIL) a class of queries each, so
// that the harness decides which server of the list ends up answering.
//
// Addresses: loopback servers get 127.0.0.2, 127.0.0.3, ... (all of 127/8 is
// on the loopback interface).  A non-loopback server gets the first
// non-loopback IPv4 address of an interface of the machine; when the machine
// has none, it is configured as "0.0.0.0" - which is not a loopback address as
// far as net.IP.IsLoopback is concerned, while Linux delivers datagrams sent
// there to 127.0.0.1, where the server is then bound.

import (
	"fmt"
	"net"
	"strconv"

	"github.com/miekg/dns"
)

type DNSResolverSpec struct {
	Loopback bool
	FailMX   bool // does not answer the MX queries
	FailHost bool // does not answer any other query (A, AAAA, CNAME, TLSA, ...)
}

type DNSResolverSet struct {
	// Base holds the zone data, the Gate and the query log shared by all
	// servers of the set (it has no socket of its own: do not Close it).
	Base *DNSServer
	// Addrs are the server addresses to configure in the stub resolver, in order.
	Addrs []string
	Port  string

	srvs []*dns.Server
}

func nonLoopbackIPv4() string {
	addrs, err := net.InterfaceAddrs()
	if err != nil {
		return ""
	}
	for _, a := range addrs {
		ipn, ok := a.(*net.IPNet)
		if !ok {
			continue
		}
		ip := ipn.IP.To4()
		if ip == nil || ip.IsLoopback() || ip.IsLinkLocalUnicast() || ip.IsUnspecified() {
			continue
		}
		return ip.String()
	}
	return ""
}

// NewDNSResolverSet starts one server per spec. At most one spec may be a
// non-loopback one.
func NewDNSResolverSet(zones map[string]DNSZone, specs []DNSResolverSpec) (*DNSResolverSet, error) {
	if len(specs) == 0 {
		return nil, fmt.Errorf("scripted: empty resolver list")
	}
	type bindPlan struct{ cfgAddr, bindAddr string }
	var plan []bindPlan
	nonLoop, loop := 0, 0
	for _, sp := range specs {
		if sp.Loopback {
			loop++
			a := "127.0.0." + strconv.Itoa(1+loop)
			plan = append(plan, bindPlan{a, a})
			continue
		}
		nonLoop++
		if nonLoop > 1 {
			return nil, fmt.Errorf("scripted: more than one non-loopback resolver")
		}
		if a := nonLoopbackIPv4(); a != "" {
			plan = append(plan, bindPlan{a, a})
		} else {
			plan = append(plan, bindPlan{"0.0.0.0", "127.0.0.1"})
		}
	}

	set := &DNSResolverSet{Base: &DNSServer{Zones: zones}}
	var lastErr error
	for try := 0; try < 200; try++ {
		var pcs []net.PacketConn
		port := 0
		ok := true
		for _, p := range plan {
			pc, err := net.ListenPacket("udp4", net.JoinHostPort(p.bindAddr, strconv.Itoa(port)))
			if err != nil {
				lastErr = err
				ok = false
				break
			}
			pcs = append(pcs, pc)
			if port == 0 {
				port = pc.LocalAddr().(*net.UDPAddr).Port
			}
		}
		if !ok {
			for _, pc := range pcs {
				pc.Close()
			}
			continue
		}
		for i, pc := range pcs {
			sp := specs[i]
			h := dns.HandlerFunc(func(w dns.ResponseWriter, m *dns.Msg) {
				if len(m.Question) == 1 {
					isMX := m.Question[0].Qtype == dns.TypeMX
					if (isMX && sp.FailMX) || (!isMX && sp.FailHost) {
						reply := new(dns.Msg)
						reply.SetReply(m)
						reply.Rcode = dns.RcodeServerFailure
						w.WriteMsg(reply)
						return
					}
				}
				set.Base.ServeDNS(w, m)
			})
			started := make(chan struct{})
			srv := &dns.Server{PacketConn: pc, Handler: h, NotifyStartedFunc: func() { close(started) }}
			go srv.ActivateAndServe()
			<-started
			set.srvs = append(set.srvs, srv)
			set.Addrs = append(set.Addrs, plan[i].cfgAddr)
		}
		set.Port = strconv.Itoa(port)
		return set, nil
	}
	return nil, fmt.Errorf("scripted: cannot bind the resolver list on one port: %v", lastErr)
}

func (s *DNSResolverSet) Close() {
	for _, srv := range s.srvs {
		srv.Shutdown()
	}
}
