package scripted

import (
	"bufio"
	"bytes"
	"context"
	"io"
	"mime"
	"mime/multipart"
	"net/textproto"
	"strings"

	mtextproto "github.com/emersion/go-message/textproto"
	"github.com/emersion/go-smtp"
	"github.com/foxcpp/maddy/framework/buffer"
	"github.com/foxcpp/maddy/framework/module"
	"github.com/foxcpp/maddy/verifharness/vtrace"
)

// Bounce is the target standing in for the bounce pipeline. It parses every
// failure report with the standard library (independent of maddy's generator)
// and logs an abstract record of it. Plan: per report, the stage that fails.
type Bounce struct {
	Tr   *vtrace.Tracer
	ID   func(addr string) string
	Fail []BouncePlan // per report (in order of Start calls)
	// OnCall, if set, is invoked at the beginning of every call (crash gate).
	OnCall func()
	// Sender is the address the reports are expected to go to; OrigSubject the Subject
	// of the failed message (for the "carries the original header" clause).
	Sender      string
	OrigSubject string
	// OrigFields, if set: every header field of the failed message (name, value); the report's header part
	// must contain each of them (per field name the same values, white space runs collapsed)
	OrigFields [][2]string
	// Next, if set, receives every call as well (e.g. a second real queue standing in for
	// a bounce pipeline that routes into a queue); its errors are ignored.
	Next module.DeliveryTarget
	n    int
}

func (b *Bounce) gate() {
	if b.OnCall != nil {
		b.OnCall()
	}
}

type BouncePlan struct {
	Start, Rcpt, Body, Commit string
}

type bounceDelivery struct {
	next   module.Delivery
	b      *Bounce
	n      int
	plan   BouncePlan
	from   string
	to     []string
	report vtrace.Ev
	closed bool
}

func (b *Bounce) id(a string) string {
	if b.ID != nil {
		return b.ID(a)
	}
	return a
}

func (b *Bounce) Start(ctx context.Context, msgMeta *module.MsgMetadata, mailFrom string) (module.Delivery, error) {
	b.gate()
	b.n++
	var plan BouncePlan
	if b.n-1 < len(b.Fail) {
		plan = b.Fail[b.n-1]
	}
	res := orOK(plan.Start)
	b.Tr.Emit("DStart", vtrace.Ev{"n": b.n, "from": mailFrom, "res": res})
	d := &bounceDelivery{b: b, n: b.n, plan: plan, from: mailFrom}
	if err := ErrFor(res, "bounce Start"); err != nil {
		d.final("start", res)
		return nil, err
	}
	if b.Next != nil {
		d.next, _ = b.Next.Start(ctx, msgMeta, mailFrom)
	}
	return d, nil
}

func (d *bounceDelivery) AddRcpt(ctx context.Context, rcptTo string, _ smtp.RcptOptions) error {
	d.b.gate()
	res := orOK(d.plan.Rcpt)
	d.b.Tr.Emit("DAddRcpt", vtrace.Ev{"n": d.n, "to": rcptTo, "res": res})
	if err := ErrFor(res, "bounce AddRcpt"); err != nil {
		return err
	}
	d.to = append(d.to, rcptTo)
	if d.next != nil {
		d.next.AddRcpt(ctx, rcptTo, smtp.RcptOptions{})
	}
	return nil
}

// final emits the one "Dsn" event that closes a report hand-over. stage = "ok" or the
// stage whose scripted failure ended it.
func (d *bounceDelivery) final(stage, res string) {
	ev := vtrace.Ev{"n": d.n, "stage": stage, "res": res, "known": d.report != nil, "from": d.from,
		"rcpts": []string{}, "rewritten": []string{}, "status": map[string]string{"-": "-"},
		"cls": map[string]string{"-": "-"}, "mimeOK": true,
		"reportType": "delivery-status", "parts": 3, "dsnAscii": true, "hasOrigHdr": true,
		"origSubjOK": true, "toSender": true, "to": ""}
	if len(d.to) > 0 {
		ev["to"] = d.to[0]
		ev["toSender"] = len(d.to) == 1 && d.to[0] == d.b.Sender
	} else if stage != "start" && stage != "rcpt" {
		ev["toSender"] = false
	}
	if d.report != nil {
		for _, k := range []string{"mimeOK", "reportType", "parts", "dsnAscii", "hasOrigHdr", "status"} {
			ev[k] = d.report[k]
		}
		var listed, rewritten []string
		listed, rewritten = []string{}, []string{}
		for _, r := range d.report["rcpts"].([]string) {
			if strings.HasPrefix(r, "eff:") {
				rewritten = append(rewritten, strings.TrimPrefix(r, "eff:"))
				r = strings.TrimPrefix(r, "eff:")
			}
			listed = append(listed, r)
		}
		st := map[string]string{}
		for k, v := range d.report["status"].(map[string]string) {
			st[strings.TrimPrefix(k, "eff:")] = v
		}
		if len(st) == 0 {
			st["-"] = "-"
		}
		ev["status"] = st
		// class digit of each listed status (a data abstraction for the specification, which cannot index strings)
		cls := map[string]string{}
		for k, v := range st {
			cls[k] = "-"
			if len(v) > 0 {
				cls[k] = v[:1]
			}
		}
		ev["cls"] = cls
		ev["rcpts"], ev["rewritten"] = listed, rewritten
		oh, _ := d.report["origHdr"].(string)
		ev["origSubjOK"] = (d.b.OrigSubject == "" || strings.Contains(oh, d.b.OrigSubject)) && fieldsIn(oh, d.b.OrigFields)
	}
	d.b.Tr.Emit("Dsn", ev)
}

// ParseReport extracts an abstract record from a multipart/report message
// using only the standard library.
func ParseReport(hdr mtextproto.Header, body []byte, id func(string) string) vtrace.Ev {
	rec := vtrace.Ev{"mimeOK": false, "rcpts": []string{}, "status": map[string]string{},
		"action": map[string]string{}, "hasOrigHdr": false, "parts": 0, "reportType": "", "dsnAscii": true}
	ct := hdr.Get("Content-Type")
	mt, params, err := mime.ParseMediaType(ct)
	if err != nil || !strings.EqualFold(mt, "multipart/report") {
		rec["err"] = "content-type: " + ct
		return rec
	}
	rec["reportType"] = strings.ToLower(params["report-type"])
	mr := multipart.NewReader(bytes.NewReader(body), params["boundary"])
	rcpts := []string{}
	status := map[string]string{}
	action := map[string]string{}
	diag := map[string]string{}
	parts := 0
	for {
		p, err := mr.NextPart()
		if err == io.EOF {
			break
		}
		if err != nil {
			rec["err"] = "multipart: " + err.Error()
			return rec
		}
		parts++
		pct, _, _ := mime.ParseMediaType(p.Header.Get("Content-Type"))
		data, _ := io.ReadAll(p)
		switch strings.ToLower(pct) {
		case "message/delivery-status", "message/global-delivery-status":
			for _, c := range data {
				if c >= 0x80 {
					rec["dsnAscii"] = false
				}
			}
			rd := textproto.NewReader(bufio.NewReader(bytes.NewReader(data)))
			first := true
			for {
				h, err := rd.ReadMIMEHeader()
				if len(h) == 0 {
					break
				}
				if first {
					first = false
					rec["reportingMTA"] = h.Get("Reporting-Mta")
				} else if fr := h.Get("Final-Recipient"); fr != "" {
					addr := fr
					if i := strings.Index(fr, ";"); i >= 0 {
						addr = strings.TrimSpace(fr[i+1:])
					}
					r := id(addr)
					rcpts = append(rcpts, r)
					status[r] = h.Get("Status")
					action[r] = h.Get("Action")
					diag[r] = h.Get("Diagnostic-Code")
				}
				if err != nil {
					break
				}
			}
		case "message/rfc822-headers", "message/global-headers", "text/rfc822-headers":
			rec["hasOrigHdr"] = true
			rec["origHdr"] = string(data)
		}
	}
	rec["mimeOK"] = true
	rec["parts"] = parts
	rec["rcpts"] = rcpts
	rec["status"] = status
	rec["action"] = action
	rec["diag"] = diag
	return rec
}

func (d *bounceDelivery) Body(ctx context.Context, header mtextproto.Header, body buffer.Buffer) error {
	d.b.gate()
	res := orOK(d.plan.Body)
	r, err := body.Open()
	var blob []byte
	if err == nil {
		blob, _ = io.ReadAll(r)
		r.Close()
	}
	d.report = ParseReport(header, blob, d.b.id)
	d.report["hdrFrom"] = header.Get("From")
	d.report["hdrTo"] = header.Get("To")
	ev := vtrace.Ev{"n": d.n, "res": res}
	for k, v := range d.report {
		ev[k] = v
	}
	delete(ev, "origHdr")
	d.b.Tr.Emit("DBody", ev)
	if d.next != nil {
		d.next.Body(ctx, header, body)
	}
	return ErrFor(res, "bounce Body")
}

func (d *bounceDelivery) Commit(ctx context.Context) error {
	d.b.gate()
	res := orOK(d.plan.Commit)
	if d.closed {
		d.b.Tr.Emit("DMisuse", vtrace.Ev{"n": d.n, "op": "Commit"})
	}
	d.closed = true
	if d.next != nil {
		d.next.Commit(ctx)
	}
	if res == "ok" {
		d.final("ok", "ok")
	} else {
		d.final("commit", res)
	}
	return ErrFor(res, "bounce Commit")
}

func (d *bounceDelivery) Abort(ctx context.Context) error {
	d.b.gate()
	if d.closed { // Abort after a failed Commit: tolerated, the hand-over is already closed
		d.b.Tr.Emit("DMisuse", vtrace.Ev{"n": d.n, "op": "Abort"})
		return nil
	}
	d.closed = true
	if d.next != nil {
		d.next.Abort(ctx)
	}
	stage, res := "abort", "unspec"
	switch {
	case orOK(d.plan.Rcpt) != "ok":
		stage, res = "rcpt", d.plan.Rcpt
	case orOK(d.plan.Body) != "ok":
		stage, res = "body", d.plan.Body
	}
	d.final(stage, res)
	return nil
}

// fieldsIn: does the header block blob (as found in the report) carry every field of want?
// Parsed with net/textproto; values are compared per field name as multisets, white space collapsed.
func fieldsIn(blob string, want [][2]string) bool {
	if len(want) == 0 {
		return true
	}
	if !strings.HasSuffix(blob, "\r\n\r\n") && !strings.HasSuffix(blob, "\n\n") {
		blob += "\r\n\r\n"
	}
	h, _ := textproto.NewReader(bufio.NewReader(strings.NewReader(blob))).ReadMIMEHeader()
	norm := func(v string) string { return strings.Join(strings.Fields(v), " ") }
	have := map[string]map[string]int{}
	for k, vs := range h {
		for _, v := range vs {
			if have[k] == nil {
				have[k] = map[string]int{}
			}
			have[k][norm(v)]++
		}
	}
	for _, f := range want {
		k := textproto.CanonicalMIMEHeaderKey(f[0])
		if have[k][norm(f[1])] == 0 {
			return false
		}
		have[k][norm(f[1])]--
	}
	return true
}
