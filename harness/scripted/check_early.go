package scripted

// Module "check.verif_scripted_early": the scripted check of check.go that ALSO has the
// connection-time hook module.EarlyCheck (what check.dnsbl has): MsgPipeline.RunEarlyChecks
// calls CheckConnection(ctx, *ConnState) on the check object itself, before any message
// exists.  The directive `early_reject yes` makes that call refuse the connection.  Like
// every other scripted call it parks on the controller's gate (stage "early") and is
// recorded as a CheckCall event with stage "early" and verdict none / reject.
//
// Everything else (the per-message stages) is inherited unchanged from Check.

import (
	"context"
	"fmt"

	"github.com/foxcpp/maddy/framework/config"
	"github.com/foxcpp/maddy/framework/exterrors"
	"github.com/foxcpp/maddy/framework/module"
	"github.com/foxcpp/maddy/verifharness/vtrace"
)

type EarlyCheck struct {
	*Check
	earlyReject bool
}

func NewEarlyCheck(modName, instName string, aliases, inlineArgs []string) (module.Module, error) {
	m, err := NewCheck(modName, instName, aliases, inlineArgs)
	if err != nil {
		return nil, err
	}
	return &EarlyCheck{Check: m.(*Check)}, nil
}

func (c *EarlyCheck) Init(cfg *config.Map) error {
	// the hook's own directive is taken out before the inherited Init sees the block
	rest := config.Node{Name: cfg.Block.Name, Args: cfg.Block.Args, File: cfg.Block.File, Line: cfg.Block.Line}
	for _, ch := range cfg.Block.Children {
		if ch.Name == "early_reject" {
			if len(ch.Args) != 1 || (ch.Args[0] != "yes" && ch.Args[0] != "no") {
				return fmt.Errorf("verif_scripted_early: early_reject yes|no")
			}
			c.earlyReject = ch.Args[0] == "yes"
			continue
		}
		rest.Children = append(rest.Children, ch)
	}
	return c.Check.Init(config.NewMap(cfg.Globals, rest))
}

// CheckConnection implements module.EarlyCheck.
func (c *EarlyCheck) CheckConnection(ctx context.Context, state *module.ConnState) error {
	p := c.ctl.park(c.id, "early", "")
	<-p.gate
	v := "none"
	var err error
	if c.earlyReject {
		v = "reject"
		err = &exterrors.SMTPError{Code: 554, EnhancedCode: exterrors.EnhancedCode{5, 7, 0},
			Message: "scripted check " + c.id + " refuses the connection", CheckName: "verif_scripted_early"}
	}
	c.ctl.Tr.Emit("CheckCall", vtrace.Ev{"c": c.id, "stage": "early", "arg": "", "v": v,
		"rej": err != nil, "quar": false, "sid": 0, "cmd": p.Cmd, "ord": c.ctl.nextOrd(), "afterClose": false})
	return err
}

func init() {
	module.Register("check.verif_scripted_early", NewEarlyCheck)
}
