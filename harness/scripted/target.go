package scripted

import (
	"context"
	"sync"

	"github.com/emersion/go-message/textproto"
	"github.com/emersion/go-smtp"
	"github.com/foxcpp/maddy/framework/buffer"
	"github.com/foxcpp/maddy/framework/module"
	"github.com/foxcpp/maddy/verifharness/vtrace"
)

// RcptRes is the scripted result of one AddRcpt call.
type RcptRes struct {
	R   string `json:"r"`
	Res string `json:"res"`
}

// AttemptPlan is the fault plan of one delivery attempt. Missing = "ok".
type AttemptPlan struct {
	Start  string            `json:"start"`
	Rcpt   []RcptRes         `json:"rcpt"`
	Body   string            `json:"body"`
	Status map[string]string `json:"status"`
	Commit string            `json:"commit"`
}

// Target is a module.DeliveryTarget following a plan (one AttemptPlan per
// Start call). Recipient addresses are mapped to abstract ids with ID.
type Target struct {
	Tr      *vtrace.Tracer
	Plan    []AttemptPlan
	Partial bool
	ID      func(addr string) string
	// OnCall, if set, is invoked (outside the lock) at the beginning of every
	// call with its name; used as a scheduler gate / crash point.
	OnCall func(op string)
	// Inspect, if set, is called with the metadata/header/body handed over.
	InspectStart func(att int, meta *module.MsgMetadata, from string) vtrace.Ev
	InspectBody  func(att int, hdr textproto.Header, body buffer.Buffer) vtrace.Ev

	mu  sync.Mutex
	att int
}

type delivery struct {
	t      *Target
	att    int
	plan   AttemptPlan
	used   []bool
	closed bool
	acc    []string
}

type partialDelivery struct{ *delivery }

// Att returns the number of Start calls so far; SetAtt lets a new incarnation
// continue the global attempt numbering (and the plan) of an earlier one.
func (t *Target) Att() int {
	t.mu.Lock()
	defer t.mu.Unlock()
	return t.att
}

func (t *Target) SetAtt(n int) {
	t.mu.Lock()
	t.att = n
	t.mu.Unlock()
}

func (t *Target) id(a string) string {
	if t.ID != nil {
		return t.ID(a)
	}
	return a
}

func (t *Target) call(op string) {
	if t.OnCall != nil {
		t.OnCall(op)
	}
}

func merge(a, b vtrace.Ev) vtrace.Ev {
	for k, v := range b {
		a[k] = v
	}
	return a
}

func (t *Target) Start(ctx context.Context, msgMeta *module.MsgMetadata, mailFrom string) (module.Delivery, error) {
	t.call("start")
	t.mu.Lock()
	t.att++
	att := t.att
	var plan AttemptPlan
	if att-1 < len(t.Plan) {
		plan = t.Plan[att-1]
	}
	t.mu.Unlock()
	res := orOK(plan.Start)
	ev := vtrace.Ev{"att": att, "res": res}
	if t.InspectStart != nil {
		merge(ev, t.InspectStart(att, msgMeta, mailFrom))
	}
	t.Tr.Emit("TStart", ev)
	if err := ErrFor(res, "Start"); err != nil {
		return nil, err
	}
	d := &delivery{t: t, att: att, plan: plan, used: make([]bool, len(plan.Rcpt))}
	if t.Partial {
		return partialDelivery{d}, nil
	}
	return d, nil
}

func orOK(s string) string {
	if s == "" {
		return "ok"
	}
	return s
}

func (d *delivery) misuse(op string) {
	d.t.Tr.Emit("TMisuse", vtrace.Ev{"att": d.att, "op": op})
}

func (d *delivery) AddRcpt(ctx context.Context, rcptTo string, _ smtp.RcptOptions) error {
	d.t.call("rcpt")
	if d.closed {
		d.misuse("AddRcpt")
	}
	r := d.t.id(rcptTo)
	res := "ok"
	for i, pr := range d.plan.Rcpt {
		if !d.used[i] && pr.R == r {
			d.used[i] = true
			res = orOK(pr.Res)
			break
		}
	}
	d.t.Tr.Emit("TAddRcpt", vtrace.Ev{"att": d.att, "r": r, "res": res})
	if err := ErrFor(res, "AddRcpt"); err != nil {
		return err
	}
	d.acc = append(d.acc, rcptTo)
	return nil
}

func (d *delivery) Body(ctx context.Context, header textproto.Header, body buffer.Buffer) error {
	d.t.call("body")
	if d.closed {
		d.misuse("Body")
	}
	res := orOK(d.plan.Body)
	ev := vtrace.Ev{"att": d.att, "res": res}
	if d.t.InspectBody != nil {
		merge(ev, d.t.InspectBody(d.att, header, body))
	}
	d.t.Tr.Emit("TBody", ev)
	return ErrFor(res, "Body")
}

func (d partialDelivery) BodyNonAtomic(ctx context.Context, c module.StatusCollector, header textproto.Header, body buffer.Buffer) {
	d.t.call("body")
	if d.closed {
		d.misuse("BodyNonAtomic")
	}
	st := map[string]interface{}{}
	seen := map[string]bool{}
	var order []string
	for _, a := range d.acc {
		if seen[a] {
			continue
		}
		seen[a] = true
		order = append(order, a)
		st[d.t.id(a)] = orOK(d.plan.Status[d.t.id(a)])
	}
	ev := vtrace.Ev{"att": d.att, "st": st}
	if d.t.InspectBody != nil {
		merge(ev, d.t.InspectBody(d.att, header, body))
	}
	d.t.Tr.Emit("TBodyNA", ev)
	for _, a := range order {
		c.SetStatus(a, ErrFor(st[d.t.id(a)].(string), "BodyNonAtomic"))
	}
}

func (d *delivery) Commit(ctx context.Context) error {
	d.t.call("commit")
	if d.closed {
		d.misuse("Commit")
	}
	d.closed = true
	res := orOK(d.plan.Commit)
	d.t.Tr.Emit("TCommit", vtrace.Ev{"att": d.att, "res": res})
	return ErrFor(res, "Commit")
}

func (d *delivery) Abort(ctx context.Context) error {
	d.t.call("abort")
	if d.closed {
		d.misuse("Abort")
	}
	d.closed = true
	d.t.Tr.Emit("TAbort", vtrace.Ev{"att": d.att})
	return nil
}
