package scripted

// A scripted DNS server (UDP, loopback) for code that talks to a DNSSEC-aware
// resolver: per name the AD bit, SERVFAIL, A / MX / TLSA answers, and a Gate
// callback that may hold the answer to a query (to decide the order in which
// concurrent lookups of the code under test complete without sleeping).

import (
	"net"
	"strconv"
	"strings"
	"sync"
	"time"

	"github.com/miekg/dns"
)

type DNSZone struct {
	AD       bool
	ServFail bool
	// CNAME makes the name an alias: an A query is answered with the CNAME record
	// followed by the address records of the target (AD as above: "the whole chain
	// is authenticated"), a CNAME query with the record alone and AD = ADCNAME.
	CNAME   string
	ADCNAME bool
	A       []string
	MX      []net.MX
	TLSA    []dns.TLSA // Hdr is filled in by the server
}

type DNSQuery struct {
	Name string // lower-case FQDN
	Type string // "A", "AAAA", "MX", "TLSA", "CNAME", ...
}

type DNSServer struct {
	Zones map[string]DNSZone // key: lower-case FQDN
	// Gate is called (in the query's own goroutine) before the answer is written
	// and may block. nil = answer immediately.
	Gate func(q DNSQuery)

	pc  net.PacketConn
	srv *dns.Server
	mu  sync.Mutex
	log []DNSQuery
}

func NewDNSServer(zones map[string]DNSZone) (*DNSServer, error) {
	var pc net.PacketConn
	var err error
	for i := 0; i < 300; i++ { // ride out a momentarily exhausted port range
		pc, err = net.ListenPacket("udp4", "127.0.0.1:0")
		if err == nil {
			break
		}
		time.Sleep(100 * time.Millisecond)
	}
	if err != nil {
		return nil, err
	}
	s := &DNSServer{Zones: zones, pc: pc}
	started := make(chan struct{})
	s.srv = &dns.Server{PacketConn: pc, Handler: s, NotifyStartedFunc: func() { close(started) }}
	go s.srv.ActivateAndServe()
	<-started
	return s, nil
}

func (s *DNSServer) Host() string { return s.pc.LocalAddr().(*net.UDPAddr).IP.String() }
func (s *DNSServer) Port() string { return strconv.Itoa(s.pc.LocalAddr().(*net.UDPAddr).Port) }
func (s *DNSServer) Close()       { s.srv.Shutdown() }

// Queries returns the queries received so far, in order of arrival.
func (s *DNSServer) Queries() []DNSQuery {
	s.mu.Lock()
	defer s.mu.Unlock()
	return append([]DNSQuery{}, s.log...)
}

func (s *DNSServer) ServeDNS(w dns.ResponseWriter, m *dns.Msg) {
	reply := new(dns.Msg)
	reply.SetReply(m)
	reply.RecursionAvailable = true
	if len(m.Question) != 1 {
		reply.Rcode = dns.RcodeFormatError
		w.WriteMsg(reply)
		return
	}
	q := m.Question[0]
	name := strings.ToLower(dns.Fqdn(q.Name))
	dq := DNSQuery{Name: name, Type: dns.TypeToString[q.Qtype]}
	s.mu.Lock()
	s.log = append(s.log, dq)
	s.mu.Unlock()
	if s.Gate != nil {
		s.Gate(dq)
	}
	z, ok := s.Zones[name]
	switch {
	case !ok:
		reply.Rcode = dns.RcodeNameError
	case z.ServFail:
		reply.Rcode = dns.RcodeServerFailure
	default:
		reply.AuthenticatedData = z.AD
		hdr := func(t uint16) dns.RR_Header {
			return dns.RR_Header{Name: q.Name, Rrtype: t, Class: dns.ClassINET, Ttl: 9999}
		}
		switch q.Qtype {
		case dns.TypeA:
			if z.CNAME != "" {
				target := strings.ToLower(dns.Fqdn(z.CNAME))
				reply.Answer = append(reply.Answer, &dns.CNAME{Hdr: hdr(dns.TypeCNAME), Target: target})
				for _, a := range s.Zones[target].A {
					reply.Answer = append(reply.Answer, &dns.A{
						Hdr: dns.RR_Header{Name: target, Rrtype: dns.TypeA, Class: dns.ClassINET, Ttl: 9999},
						A:   net.ParseIP(a)})
				}
				break
			}
			for _, a := range z.A {
				reply.Answer = append(reply.Answer, &dns.A{Hdr: hdr(dns.TypeA), A: net.ParseIP(a)})
			}
		case dns.TypeCNAME:
			reply.AuthenticatedData = z.ADCNAME
			if z.CNAME != "" {
				reply.Answer = append(reply.Answer, &dns.CNAME{Hdr: hdr(dns.TypeCNAME), Target: dns.Fqdn(z.CNAME)})
			}
		case dns.TypeMX:
			for _, mx := range z.MX {
				reply.Answer = append(reply.Answer, &dns.MX{Hdr: hdr(dns.TypeMX), Preference: mx.Pref, Mx: mx.Host})
			}
		case dns.TypeTLSA:
			for _, r := range z.TLSA {
				rr := r
				rr.Hdr = hdr(dns.TypeTLSA)
				reply.Answer = append(reply.Answer, &rr)
			}
		}
	}
	w.WriteMsg(reply)
}
