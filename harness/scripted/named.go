package scripted

// Named, multi-target scripted deliveries for the session/pipeline harness
// (C03 and later C06/C09). Independent of Target (target.go, used by C01).
//
// A NamedTarget is a module.DeliveryTarget (registered as maddy module
// "target.verifscripted", looked up by name from a process-global table so a
// pipeline built from configuration nodes can say `deliver_to verifscripted T1`).
// It follows a fault plan (one NPlan per Start call), logs every call as a
// "Tgt" event and is a typestate monitor: every delivery object knows whether
// it was closed (Commit/Abort) and reports calls made after that (ts="closed").

import (
	"context"
	"fmt"
	"sync"

	"github.com/emersion/go-message/textproto"
	"github.com/emersion/go-smtp"
	"github.com/foxcpp/maddy/framework/buffer"
	"github.com/foxcpp/maddy/framework/config"
	"github.com/foxcpp/maddy/framework/module"
	"github.com/foxcpp/maddy/verifharness/vtrace"
)

// NPlan is the fault plan of one delivery (one Start call) on a NamedTarget.
// Missing entries mean "ok".
type NPlan struct {
	Start  string            `json:"start"`
	Rcpt   []RcptRes         `json:"rcpt"`   // results of the AddRcpt calls, consumed in order per recipient id
	Body   string            `json:"body"`   // result of Body
	Status map[string]string `json:"status"` // recipient id -> status set by BodyNonAtomic
	Commit string            `json:"commit"`
	Abort  string            `json:"abort"`
}

type NamedTarget struct {
	TName   string
	Tr      *vtrace.Tracer
	Plan    []NPlan
	Partial bool
	ID      func(addr string) string
	// Quarantine etc. can be inspected by later checks.
	InspectStart func(meta *module.MsgMetadata) vtrace.Ev

	mu   sync.Mutex
	att  int
	open int
}

func (t *NamedTarget) Name() string               { return "verifscripted" }
func (t *NamedTarget) InstanceName() string       { return t.TName }
func (t *NamedTarget) Init(cfg *config.Map) error { return nil }

// Open returns the number of deliveries started successfully and neither
// committed nor aborted.
func (t *NamedTarget) Open() int {
	t.mu.Lock()
	defer t.mu.Unlock()
	return t.open
}

var (
	namedMu    sync.Mutex
	namedTable = map[string]*NamedTarget{}
	namedOnce  sync.Once
)

// SetNamed installs the targets reachable as `deliver_to verifscripted <name>`.
func SetNamed(ts ...*NamedTarget) {
	namedOnce.Do(func() {
		module.Register("target.verifscripted", func(modName, instName string, aliases, inlineArgs []string) (module.Module, error) {
			if len(inlineArgs) != 1 {
				return nil, fmt.Errorf("verifscripted: exactly one argument (target name) required")
			}
			namedMu.Lock()
			defer namedMu.Unlock()
			t := namedTable[inlineArgs[0]]
			if t == nil {
				return nil, fmt.Errorf("verifscripted: unknown target %s", inlineArgs[0])
			}
			return t, nil
		})
	})
	namedMu.Lock()
	defer namedMu.Unlock()
	namedTable = map[string]*NamedTarget{}
	for _, t := range ts {
		namedTable[t.TName] = t
	}
}

type nDelivery struct {
	t      *NamedTarget
	att    int
	plan   NPlan
	closed bool
	used   []bool
	acc    []string // ids, one per accepted AddRcpt call, in order
	addrs  []string
}

type nPartialDelivery struct{ *nDelivery }

func (t *NamedTarget) id(a string) string {
	if t.ID != nil {
		return t.ID(a)
	}
	return a
}

func (d *nDelivery) ts() string {
	if d.closed {
		return "closed"
	}
	return "ok"
}

func (t *NamedTarget) emit(att int, op, r, res string, st map[string]string, ts string, extra vtrace.Ev) {
	stv := map[string]interface{}{}
	for k, v := range st {
		stv[k] = v
	}
	ev := vtrace.Ev{"tgt": t.TName, "att": att, "op": op, "r": r, "res": res, "st": stv, "ts": ts}
	for k, v := range extra {
		ev[k] = v
	}
	t.Tr.Emit("Tgt", ev)
}

func (t *NamedTarget) Start(ctx context.Context, msgMeta *module.MsgMetadata, mailFrom string) (module.Delivery, error) {
	t.mu.Lock()
	t.att++
	att := t.att
	var plan NPlan
	if att-1 < len(t.Plan) {
		plan = t.Plan[att-1]
	}
	res := orOK(plan.Start)
	if res == "ok" {
		t.open++
	}
	t.mu.Unlock()
	var extra vtrace.Ev
	if t.InspectStart != nil {
		extra = t.InspectStart(msgMeta)
	}
	t.emit(att, "start", "", res, nil, "ok", extra)
	if err := ErrFor(res, t.TName+" Start"); err != nil {
		return nil, err
	}
	d := &nDelivery{t: t, att: att, plan: plan}
	if t.Partial {
		return nPartialDelivery{d}, nil
	}
	return d, nil
}

func (d *nDelivery) AddRcpt(ctx context.Context, rcptTo string, _ smtp.RcptOptions) error {
	r := d.t.id(rcptTo)
	res := "ok"
	if d.used == nil {
		d.used = make([]bool, len(d.plan.Rcpt))
	}
	for i, pr := range d.plan.Rcpt {
		if !d.used[i] && pr.R == r {
			d.used[i] = true
			res = orOK(pr.Res)
			break
		}
	}
	d.t.emit(d.att, "rcpt", r, res, nil, d.ts(), nil)
	if err := ErrFor(res, d.t.TName+" AddRcpt"); err != nil {
		return err
	}
	d.acc = append(d.acc, r)
	d.addrs = append(d.addrs, rcptTo)
	return nil
}

func (d *nDelivery) Body(ctx context.Context, header textproto.Header, body buffer.Buffer) error {
	res := orOK(d.plan.Body)
	d.t.emit(d.att, "body", "", res, nil, d.ts(), nil)
	return ErrFor(res, d.t.TName+" Body")
}

func (d nPartialDelivery) BodyNonAtomic(ctx context.Context, c module.StatusCollector, header textproto.Header, body buffer.Buffer) {
	st := map[string]string{}
	for _, r := range d.acc {
		st[r] = orOK(d.plan.Status[r])
	}
	d.t.emit(d.att, "bodyNA", "", "", st, d.ts(), nil)
	// one status per accepted AddRcpt call, in order
	for i, r := range d.acc {
		c.SetStatus(d.addrs[i], ErrFor(st[r], d.t.TName+" BodyNonAtomic"))
	}
}

func (d *nDelivery) close() {
	if !d.closed {
		d.closed = true
		d.t.mu.Lock()
		d.t.open--
		d.t.mu.Unlock()
	}
}

func (d *nDelivery) Commit(ctx context.Context) error {
	res := orOK(d.plan.Commit)
	d.t.emit(d.att, "commit", "", res, nil, d.ts(), nil)
	d.close()
	return ErrFor(res, d.t.TName+" Commit")
}

func (d *nDelivery) Abort(ctx context.Context) error {
	res := orOK(d.plan.Abort)
	d.t.emit(d.att, "abort", "", res, nil, d.ts(), nil)
	d.close()
	return ErrFor(res, d.t.TName+" Abort")
}
