// Package scripted contains scripted peers (delivery targets, bounce targets)
// that follow a fault plan, log every call and act as typestate monitors.
package scripted

import (
	"errors"

	"github.com/foxcpp/maddy/framework/exterrors"
)

// MsgSuffix is appended to the text of every scripted SMTP error (multi-line and
// non-ASCII error texts; set per behaviour by sequential drivers only).
var MsgSuffix string

// ErrShape varies how the scripted failures are built (set per behaviour by sequential drivers only):
// "" = plain SMTPError; "421" = temporary failures carry the code 421 (service shutting down) instead of
// 451; "nested" = the error wraps another annotated error with DIFFERENT SMTP fields (the shape
// target.remote builds when every MX failed): the outer error is the one that counts.
var ErrShape string

// ErrFor returns an error value of the given class: "ok" (nil), "temp",
// "perm" or "unspec" (no temporary/permanent marker at all).
func ErrFor(res, where string) error {
	switch res {
	case "", "ok":
		return nil
	case "temp":
		e := &exterrors.SMTPError{Code: 451, EnhancedCode: exterrors.EnhancedCode{4, 3, 0},
			Message: "scripted temporary failure at " + where + MsgSuffix, TargetName: "scripted"}
		if ErrShape == "421" {
			e.Code = 421
		}
		if ErrShape == "nested" {
			e.Err = &exterrors.SMTPError{Code: 452, EnhancedCode: exterrors.EnhancedCode{4, 5, 3},
				Message: "inner cause", TargetName: "inner"}
		}
		return e
	case "perm":
		e := &exterrors.SMTPError{Code: 550, EnhancedCode: exterrors.EnhancedCode{5, 1, 1},
			Message: "scripted permanent failure at " + where + MsgSuffix, TargetName: "scripted"}
		if ErrShape == "nested" {
			e.Err = &exterrors.SMTPError{Code: 554, EnhancedCode: exterrors.EnhancedCode{5, 4, 2},
				Message: "inner cause", TargetName: "inner"}
		}
		return e
	case "unspec":
		return errors.New("scripted unclassified failure at " + where)
	}
	panic("scripted: unknown result class " + res)
}
