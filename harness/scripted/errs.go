// Package scripted contains scripted peers (delivery targets, bounce targets)
// that follow a fault plan, log every call and act as typestate monitors.
package scripted

import (
	"errors"

	"github.com/foxcpp/maddy/framework/exterrors"
)

// MsgSuffix is appended to the text of every scripted SMTP error (multi-line and
// non-ASCII error texts; set per behaviour by sequential drivers only).
var MsgSuffix string

// ErrShape varies how the scripted failures are built (set per behaviour by sequential drivers only):
// "" = plain SMTPError; "421" = temporary failures carry the code 421 (service shutting down) instead of
// 451; "nested" = the error wraps another annotated error with DIFFERENT SMTP fields (the shape
// target.remote builds when every MX failed): the outer error is the one that counts;
// "noenh" = the failure carries a basic reply code and a text but NO enhanced status code (what a next hop
// without ENHANCEDSTATUSCODES produces, or a module that fills only Code/Message);
// "fields" = not an SMTPError at all: an ordinary error annotated with exterrors.WithFields (smtp_code,
// smtp_enchcode, smtp_msg) and an explicit temporary/permanent marker, the way policy code builds failures.
var ErrShape string

// ErrFor returns an error value of the given class: "ok" (nil), "temp",
// "perm" or "unspec" (no temporary/permanent marker at all).
func ErrFor(res, where string) error {
	switch res {
	case "", "ok":
		return nil
	}
	if ErrShape == "noenh" && (res == "temp" || res == "perm") {
		e := &exterrors.SMTPError{Code: 451, Message: "scripted temporary failure at " + where + MsgSuffix, TargetName: "scripted"}
		if res == "perm" {
			e.Code, e.Message = 550, "scripted permanent failure at "+where+MsgSuffix
		}
		return e
	}
	if ErrShape == "fields" && (res == "temp" || res == "perm") {
		f := map[string]interface{}{"smtp_code": 451, "smtp_enchcode": exterrors.EnhancedCode{4, 3, 0},
			"smtp_msg": "scripted temporary failure at " + where + MsgSuffix, "target": "scripted"}
		if res == "perm" {
			f["smtp_code"], f["smtp_enchcode"] = 550, exterrors.EnhancedCode{5, 1, 1}
			f["smtp_msg"] = "scripted permanent failure at " + where + MsgSuffix
		}
		return exterrors.WithTemporary(exterrors.WithFields(errors.New("scripted annotated failure at "+where), f), res == "temp")
	}
	switch res {
	case "temp":
		e := &exterrors.SMTPError{Code: 451, EnhancedCode: exterrors.EnhancedCode{4, 3, 0},
			Message: "scripted temporary failure at " + where + MsgSuffix, TargetName: "scripted"}
		if ErrShape == "421" {
			e.Code = 421
		}
		if ErrShape == "nested" {
			e.Err = &exterrors.SMTPError{Code: 452, EnhancedCode: exterrors.EnhancedCode{4, 5, 3},
				Message: "inner cause", TargetName: "inner"}
		}
		return e
	case "perm":
		e := &exterrors.SMTPError{Code: 550, EnhancedCode: exterrors.EnhancedCode{5, 1, 1},
			Message: "scripted permanent failure at " + where + MsgSuffix, TargetName: "scripted"}
		if ErrShape == "nested" {
			e.Err = &exterrors.SMTPError{Code: 554, EnhancedCode: exterrors.EnhancedCode{5, 4, 2},
				Message: "inner cause", TargetName: "inner"}
		}
		return e
	case "unspec":
		return errors.New("scripted unclassified failure at " + where)
	}
	panic("scripted: unknown result class " + res)
}
