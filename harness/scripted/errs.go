// Package scripted contains scripted peers (delivery targets, bounce targets)
// that follow a fault plan, log every call and act as typestate monitors.
package scripted

import (
	"errors"

	"github.com/foxcpp/maddy/framework/exterrors"
)

// MsgSuffix is appended to the text of every scripted SMTP error (multi-line and
// non-ASCII error texts; set per behaviour by sequential drivers only).
var MsgSuffix string

// ErrFor returns an error value of the given class: "ok" (nil), "temp",
// "perm" or "unspec" (no temporary/permanent marker at all).
func ErrFor(res, where string) error {
	switch res {
	case "", "ok":
		return nil
	case "temp":
		return &exterrors.SMTPError{Code: 451, EnhancedCode: exterrors.EnhancedCode{4, 3, 0},
			Message: "scripted temporary failure at " + where + MsgSuffix, TargetName: "scripted"}
	case "perm":
		return &exterrors.SMTPError{Code: 550, EnhancedCode: exterrors.EnhancedCode{5, 1, 1},
			Message: "scripted permanent failure at " + where + MsgSuffix, TargetName: "scripted"}
	case "unspec":
		return errors.New("scripted unclassified failure at " + where)
	}
	panic("scripted: unknown result class " + res)
}
