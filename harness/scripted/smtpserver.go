package scripted

// A raw, line-based SMTP/LMTP server that follows a script. It is deliberately
// not built on go-smtp: it must be able to misbehave (strip STARTTLS, break the
// handshake, answer any command with any code, drop the connection, answer per
// recipient after the final dot) and it records what the SERVER saw: the TLS
// state of every connection and, per transaction, the envelope as it appeared
// on the wire and whether the message content arrived.
//
// Events (through Emit, typically a vtrace.Tracer):
//   SrvConn  srv, conn, tls ("none" | "fail" | "enc-unauth" | "enc-auth"), cert, starttls
//            logged once per connection, at the moment its TLS state is settled:
//            handshake finished/failed, first command other than EHLO/LHLO/STARTTLS,
//            or the connection ended. Always logged BEFORE the reply that follows.
//   SrvCmd   srv, conn, verb, arg, code
//   SrvData  srv, conn, txn, from, rcpts, tls, cert, bytes   (complete content received)
//   SrvClose srv, conn, how ("quit" | "eof" | "drop")
//
// "enc-auth" means: TLS handshake completed and the certificate the server
// presented is of class "valid" (right name, chains to the CA the client trusts).

import (
	"bufio"
	"context"
	"crypto/ecdsa"
	"crypto/elliptic"
	"crypto/rand"
	"crypto/sha256"
	"crypto/tls"
	"crypto/x509"
	"crypto/x509/pkix"
	"encoding/hex"
	"errors"
	"fmt"
	"math/big"
	"net"
	"strings"
	"sync"
	"time"
)

// SMTPReply is a scripted reply. Code 0 means "the normal positive reply".
// Drop closes the connection instead of replying.
type SMTPReply struct {
	Code int    `json:"code"`
	Enh  string `json:"enh"`
	Drop bool   `json:"drop"`
}

// SMTPTxn scripts one mail transaction (selected by the number of MAIL commands
// the server has received so far, over all connections).
type SMTPTxn struct {
	Mail    SMTPReply   `json:"mail"`
	Rcpt    []SMTPReply `json:"rcpt"`    // by position of the RCPT command; missing = 250
	Data    SMTPReply   `json:"data"`    // reply to DATA; 0 = 354
	Dot     SMTPReply   `json:"dot"`     // SMTP: reply after the final dot; 0 = 250
	LMTPDot []SMTPReply `json:"lmtpDot"` // LMTP: per accepted recipient, in order; missing = 250
	// Replies keyed by the address exactly as it appears on the wire; they take
	// precedence over the positional ones.
	RcptFor    map[string]SMTPReply `json:"rcptFor"`
	LMTPDotFor map[string]SMTPReply `json:"lmtpDotFor"`
	// LMTP: break the connection instead of sending per-recipient reply number
	// LMTPDrop (1-based) after the final dot; 0 = never.
	LMTPDrop int `json:"lmtpDrop"`
	// Reset the connection (RST) after 354 and the first bytes of the message, while the
	// client is still writing it.
	ResetInData bool `json:"resetInData"`
	// Withhold the reply to RCPT command number LateRcpt (1-based, in this transaction) until
	// the client's NEXT command line has arrived (i.e. after the client gave up waiting); if the
	// client closes the connection instead, nothing is sent. 0 = never.
	LateRcpt int `json:"lateRcpt"`
}

type SMTPServerConfig struct {
	Name           string // server identity in events
	Hostname       string
	LMTP           bool
	NoSTARTTLS     bool        // STARTTLS is neither advertised nor accepted ("stripped")
	STARTTLSCode   int         // reply to STARTTLS; 0 = 220
	BreakHandshake bool        // answer 220, then close the connection
	NoSMTPUTF8     bool        // omit SMTPUTF8
	NoREQUIRETLS   bool        // omit REQUIRETLS (otherwise advertised once TLS is on)
	// QuitMode: "" = 221 and close; "busy" = 421 and keep the connection open; "silent" = no
	// reply, keep reading; "drop" = close without a reply
	QuitMode string
	TLS            *tls.Config // nil: no STARTTLS at all
	CertClass      string      // recorded in events: "valid" | "selfsigned" | "wrongname" | ""
	Txns           []SMTPTxn   // transactions beyond the script are answered positively
	Emit           func(e string, f map[string]interface{})
	IOTimeout      time.Duration // per read; 0 = 60 s
}

// SMTPTxnRecord is what the server saw of one transaction.
type SMTPTxnRecord struct {
	Conn     int
	TLS      string
	From     string
	MailArgs string
	Rcpts    []string // accepted RCPT addresses exactly as on the wire
	DataCmd  bool
	Content  bool // the complete content (final dot) arrived
	Payload  []byte
}

type SMTPServer struct {
	cfg SMTPServerConfig
	l   net.Listener

	mu      sync.Mutex
	conns   int
	settled int
	txns    []*SMTPTxnRecord
	open    map[net.Conn]struct{}
	closed  bool
	change  chan struct{} // closed and replaced whenever settled changes
	wg      sync.WaitGroup
	sel     func(from string, n int) *SMTPTxn
}

// SetSelect installs a function choosing the script of a transaction from its
// MAIL FROM address and the number of transactions seen before it (nil = the
// positional Txns list). May be changed between transactions.
func (s *SMTPServer) SetSelect(f func(from string, n int) *SMTPTxn) {
	s.mu.Lock()
	s.sel = f
	s.mu.Unlock()
}

// NewSMTPServer starts the server on a loopback TCP port.
func NewSMTPServer(cfg SMTPServerConfig) (*SMTPServer, error) {
	l, err := listenLoopback()
	if err != nil {
		return nil, err
	}
	if cfg.IOTimeout == 0 {
		cfg.IOTimeout = 60 * time.Second
	}
	if cfg.Hostname == "" {
		cfg.Hostname = "scripted.invalid"
	}
	s := &SMTPServer{cfg: cfg, l: l, open: map[net.Conn]struct{}{}, change: make(chan struct{})}
	s.wg.Add(1)
	go s.serve()
	return s, nil
}

// listenLoopback binds a loopback TCP port; when the ephemeral port range is
// momentarily exhausted (thousands of short-lived connections in TIME_WAIT) it
// retries for a while instead of failing the harness.
func listenLoopback() (net.Listener, error) {
	var l net.Listener
	var err error
	for i := 0; i < 300; i++ {
		l, err = net.Listen("tcp4", "127.0.0.1:0")
		if err == nil {
			return l, nil
		}
		time.Sleep(100 * time.Millisecond)
	}
	return nil, err
}

// Reconfigure replaces the parts of the configuration that may change between
// behaviours when one server is reused (capabilities, event sink) and forgets
// the recorded transactions. Only call it while no connection is open.
func (s *SMTPServer) Reconfigure(f func(c *SMTPServerConfig)) {
	s.mu.Lock()
	defer s.mu.Unlock()
	f(&s.cfg)
	s.txns = nil
	s.sel = nil
}

// WaitIdle waits until every accepted connection has ended (their handlers have
// logged SrvClose). Reports false on time-out.
func (s *SMTPServer) WaitIdle(d time.Duration) bool {
	deadline := time.Now().Add(d)
	for {
		s.mu.Lock()
		n := len(s.open)
		s.mu.Unlock()
		if n == 0 {
			return true
		}
		if time.Now().After(deadline) {
			return false
		}
		time.Sleep(time.Millisecond)
	}
}

func (s *SMTPServer) Addr() string { return s.l.Addr().String() }
func (s *SMTPServer) Name() string { return s.cfg.Name }

// Transactions returns a snapshot of the recorded transactions.
func (s *SMTPServer) Transactions() []SMTPTxnRecord {
	s.mu.Lock()
	defer s.mu.Unlock()
	out := make([]SMTPTxnRecord, len(s.txns))
	for i, t := range s.txns {
		out[i] = *t
		out[i].Rcpts = append([]string{}, t.Rcpts...)
	}
	return out
}

// Close stops accepting, closes every open connection and waits for the handlers.
func (s *SMTPServer) Close() {
	s.mu.Lock()
	s.closed = true
	for c := range s.open {
		c.Close()
	}
	s.mu.Unlock()
	s.l.Close()
	s.wg.Wait()
}

func (s *SMTPServer) emit(e string, f map[string]interface{}) {
	if s.cfg.Emit != nil {
		f["srv"] = s.cfg.Name
		s.cfg.Emit(e, f)
	}
}

func (s *SMTPServer) serve() {
	defer s.wg.Done()
	for {
		c, err := s.l.Accept()
		if err != nil {
			return
		}
		s.mu.Lock()
		if s.closed {
			s.mu.Unlock()
			c.Close()
			return
		}
		s.conns++
		id := s.conns
		s.open[c] = struct{}{}
		s.mu.Unlock()
		s.wg.Add(1)
		go func() {
			defer s.wg.Done()
			s.handle(c, id)
		}()
	}
}

// settledCount / waitChange are used by SMTPNet to serialise "previous
// connection settled" before "next connection dialled".
func (s *SMTPServer) settledCount() (int, chan struct{}) {
	s.mu.Lock()
	defer s.mu.Unlock()
	return s.settled, s.change
}

type srvConn struct {
	pending *string // a command line read ahead (late reply)
	s       *SMTPServer
	id      int
	raw     net.Conn
	c       net.Conn
	r       *bufio.Reader
	tls     string // "none" until settled otherwise
	settled bool
	how     string
}

func (c *srvConn) settle(state string) {
	if c.settled {
		return
	}
	c.settled = true
	c.tls = state
	c.s.emit("SrvConn", map[string]interface{}{"conn": c.id, "tls": state, "cert": c.certClass(state),
		"starttls": c.s.cfg.TLS != nil && !c.s.cfg.NoSTARTTLS})
	c.s.mu.Lock()
	c.s.settled++
	close(c.s.change)
	c.s.change = make(chan struct{})
	c.s.mu.Unlock()
}

func (c *srvConn) certClass(state string) string {
	if state == "none" {
		return ""
	}
	return c.s.cfg.CertClass
}

func (c *srvConn) readLine() (string, error) {
	if c.pending != nil {
		l := *c.pending
		c.pending = nil
		return l, nil
	}
	c.c.SetReadDeadline(time.Now().Add(c.s.cfg.IOTimeout))
	line, err := c.r.ReadString('\n')
	if err != nil {
		return "", err
	}
	return strings.TrimRight(line, "\r\n"), nil
}

func (c *srvConn) write(s string) error {
	c.c.SetWriteDeadline(time.Now().Add(c.s.cfg.IOTimeout))
	_, err := c.c.Write([]byte(s))
	return err
}

func replyText(r SMTPReply, defCode int, defEnh, text string) (int, string) {
	code := r.Code
	if code == 0 {
		code = defCode
	}
	enh := r.Enh
	if enh == "" {
		if r.Code == 0 {
			enh = defEnh
		} else {
			enh = fmt.Sprintf("%d.0.0", code/100)
		}
	}
	if enh != "" && code != 354 && code != 220 && code != 221 {
		return code, fmt.Sprintf("%d %s %s\r\n", code, enh, text)
	}
	return code, fmt.Sprintf("%d %s\r\n", code, text)
}

func addrOf(arg string) (addr, rest string) {
	// "FROM:<a@b> PARAMS" / "TO:<a@b>"
	i := strings.Index(arg, "<")
	j := strings.Index(arg, ">")
	if i < 0 || j < i {
		return arg, ""
	}
	return arg[i+1 : j], strings.TrimSpace(arg[j+1:])
}

func (s *SMTPServer) handle(raw net.Conn, id int) {
	c := &srvConn{s: s, id: id, raw: raw, c: raw, r: bufio.NewReader(raw), tls: "none", how: "eof"}
	defer func() {
		c.settle(c.tls)
		s.emit("SrvClose", map[string]interface{}{"conn": id, "how": c.how})
		c.c.Close()
		s.mu.Lock()
		delete(s.open, raw)
		s.mu.Unlock()
	}()

	if err := c.write("220 " + s.cfg.Hostname + " ESMTP scripted\r\n"); err != nil {
		return
	}
	var cur *SMTPTxnRecord
	var script SMTPTxn
	rcptPos := 0
	for {
		line, err := c.readLine()
		if err != nil {
			return
		}
		verb := line
		arg := ""
		if i := strings.IndexByte(line, ' '); i >= 0 {
			verb, arg = line[:i], line[i+1:]
		}
		verb = strings.ToUpper(verb)
		logCmd := func(code int) {
			s.emit("SrvCmd", map[string]interface{}{"conn": id, "verb": verb, "arg": arg, "code": code})
		}
		switch verb {
		case "EHLO", "LHLO", "HELO":
			if (verb == "LHLO") != s.cfg.LMTP {
				logCmd(500)
				if c.write("500 5.5.1 wrong protocol\r\n") != nil {
					return
				}
				continue
			}
			if verb == "HELO" {
				logCmd(250)
				if c.write("250 "+s.cfg.Hostname+"\r\n") != nil {
					return
				}
				continue
			}
			lines := []string{s.cfg.Hostname, "8BITMIME", "ENHANCEDSTATUSCODES"}
			if !s.cfg.NoSMTPUTF8 {
				lines = append(lines, "SMTPUTF8")
			}
			if s.cfg.TLS != nil && !s.cfg.NoSTARTTLS && c.c == c.raw {
				lines = append(lines, "STARTTLS")
			}
			if !s.cfg.NoREQUIRETLS && c.c != c.raw {
				lines = append(lines, "REQUIRETLS")
			}
			lines = append(lines, "HELP")
			var sb strings.Builder
			for i, l := range lines {
				sep := "-"
				if i == len(lines)-1 {
					sep = " "
				}
				sb.WriteString("250" + sep + l + "\r\n")
			}
			logCmd(250)
			if c.write(sb.String()) != nil {
				return
			}
		case "STARTTLS":
			if s.cfg.TLS == nil || s.cfg.NoSTARTTLS || c.c != c.raw {
				logCmd(502)
				if c.write("502 5.5.1 STARTTLS not available\r\n") != nil {
					return
				}
				continue
			}
			if s.cfg.STARTTLSCode != 0 && s.cfg.STARTTLSCode != 220 {
				c.settle("none") // refused: this connection stays in plaintext
				logCmd(s.cfg.STARTTLSCode)
				if c.write(fmt.Sprintf("%d %d.7.0 STARTTLS refused\r\n", s.cfg.STARTTLSCode, s.cfg.STARTTLSCode/100)) != nil {
					return
				}
				continue
			}
			logCmd(220)
			if c.write("220 2.0.0 go ahead\r\n") != nil {
				return
			}
			if s.cfg.BreakHandshake {
				c.settle("fail")
				c.how = "drop"
				return
			}
			tc := tls.Server(c.raw, s.cfg.TLS)
			tc.SetDeadline(time.Now().Add(s.cfg.IOTimeout))
			if err := tc.Handshake(); err != nil {
				c.settle("fail")
				c.how = "drop"
				return
			}
			tc.SetDeadline(time.Time{})
			c.c = tc
			c.r = bufio.NewReader(tc)
			if s.cfg.CertClass == "valid" {
				c.settle("enc-auth")
			} else {
				c.settle("enc-unauth")
			}
		case "MAIL":
			c.settle(c.tls)
			s.mu.Lock()
			n := len(s.txns)
			from, rest := addrOf(arg)
			script = SMTPTxn{}
			if s.sel != nil {
				if sc := s.sel(from, n); sc != nil {
					script = *sc
				}
			} else if n < len(s.cfg.Txns) {
				script = s.cfg.Txns[n]
			}
			cur = &SMTPTxnRecord{Conn: id, TLS: c.tls, From: from, MailArgs: rest}
			s.txns = append(s.txns, cur)
			s.mu.Unlock()
			rcptPos = 0
			if script.Mail.Drop {
				logCmd(-1)
				c.how = "drop"
				return
			}
			code, txt := replyText(script.Mail, 250, "2.1.0", "sender ok")
			logCmd(code)
			if code/100 != 2 {
				cur = nil
			}
			if c.write(txt) != nil {
				return
			}
		case "RCPT":
			c.settle(c.tls)
			if cur == nil {
				logCmd(503)
				if c.write("503 5.5.1 MAIL first\r\n") != nil {
					return
				}
				continue
			}
			var rp SMTPReply
			if rcptPos < len(script.Rcpt) {
				rp = script.Rcpt[rcptPos]
			}
			if to, _ := addrOf(arg); script.RcptFor != nil {
				if r, ok := script.RcptFor[to]; ok {
					rp = r
				}
			}
			rcptPos++
			if rp.Drop {
				logCmd(-1)
				c.how = "drop"
				return
			}
			code, txt := replyText(rp, 250, "2.1.5", "recipient ok")
			logCmd(code)
			if code/100 == 2 {
				to, _ := addrOf(arg)
				s.mu.Lock()
				cur.Rcpts = append(cur.Rcpts, to)
				s.mu.Unlock()
			}
			if script.LateRcpt != 0 && rcptPos == script.LateRcpt {
				next, err := c.readLine() // the reply is overdue until the client moves on
				if err != nil {
					c.how = "eof"
					return
				}
				c.pending = &next
			}
			if c.write(txt) != nil {
				return
			}
		case "DATA":
			c.settle(c.tls)
			if cur == nil || len(cur.Rcpts) == 0 {
				logCmd(503)
				if c.write("503 5.5.1 RCPT first\r\n") != nil {
					return
				}
				continue
			}
			s.mu.Lock()
			cur.DataCmd = true
			s.mu.Unlock()
			if script.Data.Drop {
				logCmd(-1)
				c.how = "drop"
				return
			}
			code, txt := replyText(script.Data, 354, "", "go ahead")
			logCmd(code)
			if c.write(txt) != nil {
				return
			}
			if code != 354 {
				cur = nil
				continue
			}
			if script.ResetInData {
				c.readLine() // some of the message has arrived
				if tc, ok := c.raw.(*net.TCPConn); ok {
					tc.SetLinger(0)
				}
				c.how = "drop"
				return
			}
			var payload []byte
			for {
				l, err := c.readLine()
				if err != nil {
					return
				}
				if l == "." {
					break
				}
				if strings.HasPrefix(l, ".") {
					l = l[1:]
				}
				payload = append(payload, l...)
				payload = append(payload, '\r', '\n')
			}
			s.mu.Lock()
			cur.Content = true
			cur.Payload = payload
			rcpts := append([]string{}, cur.Rcpts...)
			txn := len(s.txns)
			s.mu.Unlock()
			sum := sha256.Sum256(payload)
			s.emit("SrvData", map[string]interface{}{"conn": id, "txn": txn, "from": cur.From, "rcpts": rcpts,
				"tls": c.tls, "cert": c.certClass(c.tls), "bytes": len(payload), "sha": hex.EncodeToString(sum[:8])})
			if s.cfg.LMTP {
				for i := range rcpts {
					var rp SMTPReply
					if i < len(script.LMTPDot) {
						rp = script.LMTPDot[i]
					}
					if r, ok := script.LMTPDotFor[rcpts[i]]; ok {
						rp = r
					}
					if script.LMTPDrop != 0 && i+1 == script.LMTPDrop {
						rp = SMTPReply{Drop: true}
					}
					if rp.Drop {
						c.how = "drop"
						return
					}
					_, txt := replyText(rp, 250, "2.0.0", "delivered "+rcpts[i])
					if c.write(txt) != nil {
						return
					}
				}
			} else {
				if script.Dot.Drop {
					c.how = "drop"
					return
				}
				_, txt := replyText(script.Dot, 250, "2.0.0", "queued")
				if c.write(txt) != nil {
					return
				}
			}
			cur = nil
		case "RSET":
			c.settle(c.tls)
			cur = nil
			logCmd(250)
			if c.write("250 2.0.0 reset\r\n") != nil {
				return
			}
		case "NOOP":
			c.settle(c.tls)
			logCmd(250)
			if c.write("250 2.0.0 ok\r\n") != nil {
				return
			}
		case "QUIT":
			c.settle(c.tls)
			switch s.cfg.QuitMode {
			case "busy":
				logCmd(421)
				if c.write("421 4.3.2 service not available\r\n") != nil {
					return
				}
				continue
			case "silent":
				logCmd(-1)
				continue
			case "drop":
				logCmd(-1)
				c.how = "drop"
				return
			}
			logCmd(221)
			c.how = "quit"
			c.write("221 2.0.0 bye\r\n")
			return
		default:
			c.settle(c.tls)
			logCmd(500)
			if c.write("500 5.5.1 unknown command\r\n") != nil {
				return
			}
		}
	}
}

// ---------------------------------------------------------------------------
// SMTPNet maps host names to scripted servers and provides the dialer to inject
// into the code under test. Before a new connection is dialled it waits until
// every connection dialled earlier has settled its TLS state on the server
// side, so the order of SrvConn events is the order of the client's attempts.
// ---------------------------------------------------------------------------

type SMTPNet struct {
	mu      sync.Mutex
	servers map[string]*SMTPServer
	dialled map[*SMTPServer]int
	base    map[*SMTPServer]int // connections the server had settled before it was added
	// TimedOut is set when the harness itself had to give up waiting; this is an
	// infrastructure problem, never a verdict about the code under test.
	TimedOut bool
	Wait     time.Duration // default 20 s
}

func NewSMTPNet() *SMTPNet {
	return &SMTPNet{servers: map[string]*SMTPServer{}, dialled: map[*SMTPServer]int{}, base: map[*SMTPServer]int{},
		Wait: 20 * time.Second}
}

func normHost(h string) string { return strings.ToLower(strings.TrimSuffix(h, ".")) }

func (n *SMTPNet) Add(host string, s *SMTPServer) {
	n.mu.Lock()
	defer n.mu.Unlock()
	n.servers[normHost(host)] = s
	if _, ok := n.base[s]; !ok {
		n.base[s], _ = s.settledCount()
	}
}

// Settle waits until all connections dialled so far have settled.
func (n *SMTPNet) Settle() error {
	n.mu.Lock()
	want := map[*SMTPServer]int{}
	for s, k := range n.dialled {
		want[s] = k + n.base[s]
	}
	n.mu.Unlock()
	deadline := time.After(n.Wait)
	for s, k := range want {
		for {
			got, ch := s.settledCount()
			if got >= k {
				break
			}
			select {
			case <-ch:
			case <-deadline:
				n.mu.Lock()
				n.TimedOut = true
				n.mu.Unlock()
				return errors.New("scripted: harness time-out waiting for earlier connections to settle")
			}
		}
	}
	return nil
}

// DialContext has the signature of net.Dialer.DialContext.
func (n *SMTPNet) DialContext(ctx context.Context, network, addr string) (net.Conn, error) {
	host, _, err := net.SplitHostPort(addr)
	if err != nil {
		host = addr
	}
	n.mu.Lock()
	s := n.servers[normHost(host)]
	n.mu.Unlock()
	if s == nil {
		return nil, &net.OpError{Op: "dial", Net: network, Err: errors.New("scripted: no such host " + host)}
	}
	if err := n.Settle(); err != nil {
		return nil, err
	}
	n.mu.Lock()
	n.dialled[s]++
	n.mu.Unlock()
	var c net.Conn
	for i := 0; i < 150; i++ { // ride out a momentarily exhausted ephemeral port range
		c, err = (&net.Dialer{Timeout: n.Wait}).Dial("tcp4", s.Addr())
		if err == nil {
			return c, nil
		}
		time.Sleep(100 * time.Millisecond)
	}
	n.mu.Lock()
	n.dialled[s]--
	n.TimedOut = true // the harness could not connect to its own server: infrastructure, not a verdict
	n.mu.Unlock()
	return nil, err
}

// ---------------------------------------------------------------------------
// Certificates (crypto/x509): one CA, and per host a valid leaf, a leaf for a
// wrong name (both signed by the CA, chain = leaf + CA) and a self-signed leaf.
// ---------------------------------------------------------------------------

type SMTPCerts struct {
	CA     *x509.Certificate
	caKey  *ecdsa.PrivateKey
	Pool   *x509.CertPool
	mu     sync.Mutex
	leaves map[string]*tls.Certificate
	serial int64
}

func NewSMTPCerts() (*SMTPCerts, error) {
	key, err := ecdsa.GenerateKey(elliptic.P256(), rand.Reader)
	if err != nil {
		return nil, err
	}
	tmpl := &x509.Certificate{
		SerialNumber:          big.NewInt(1),
		Subject:               pkix.Name{CommonName: "verif scripted CA"},
		NotBefore:             time.Now().Add(-time.Hour),
		NotAfter:              time.Now().Add(24 * time.Hour),
		IsCA:                  true,
		BasicConstraintsValid: true,
		KeyUsage:              x509.KeyUsageCertSign | x509.KeyUsageDigitalSignature,
	}
	der, err := x509.CreateCertificate(rand.Reader, tmpl, tmpl, &key.PublicKey, key)
	if err != nil {
		return nil, err
	}
	ca, err := x509.ParseCertificate(der)
	if err != nil {
		return nil, err
	}
	pool := x509.NewCertPool()
	pool.AddCert(ca)
	return &SMTPCerts{CA: ca, caKey: key, Pool: pool, leaves: map[string]*tls.Certificate{}, serial: 1}, nil
}

// Leaf returns the certificate (chain) of the given class for host:
// "valid", "wrongname" or "selfsigned". Leaf.Leaf is populated.
func (cs *SMTPCerts) Leaf(host, class string) (*tls.Certificate, error) {
	cs.mu.Lock()
	defer cs.mu.Unlock()
	k := class + "|" + host
	if c, ok := cs.leaves[k]; ok {
		return c, nil
	}
	key, err := ecdsa.GenerateKey(elliptic.P256(), rand.Reader)
	if err != nil {
		return nil, err
	}
	cs.serial++
	name := normHost(host)
	if class == "wrongname" {
		name = "other-" + name
	}
	tmpl := &x509.Certificate{
		SerialNumber: big.NewInt(cs.serial),
		Subject:      pkix.Name{CommonName: name},
		DNSNames:     []string{name},
		NotBefore:    time.Now().Add(-time.Hour),
		NotAfter:     time.Now().Add(24 * time.Hour),
		KeyUsage:     x509.KeyUsageDigitalSignature,
		ExtKeyUsage:  []x509.ExtKeyUsage{x509.ExtKeyUsageServerAuth},
	}
	var der []byte
	chain := [][]byte{}
	switch class {
	case "valid", "wrongname":
		der, err = x509.CreateCertificate(rand.Reader, tmpl, cs.CA, &key.PublicKey, cs.caKey)
		chain = [][]byte{der, cs.CA.Raw}
	case "selfsigned":
		der, err = x509.CreateCertificate(rand.Reader, tmpl, tmpl, &key.PublicKey, key)
		chain = [][]byte{der}
	default:
		return nil, errors.New("scripted: unknown certificate class " + class)
	}
	if err != nil {
		return nil, err
	}
	leaf, err := x509.ParseCertificate(der)
	if err != nil {
		return nil, err
	}
	c := &tls.Certificate{Certificate: chain, PrivateKey: key, Leaf: leaf}
	cs.leaves[k] = c
	return c, nil
}

// SPKISHA256 is the TLSA "selector 1, matching type 1" association data.
func SPKISHA256(c *x509.Certificate) string {
	sum := sha256.Sum256(c.RawSubjectPublicKeyInfo)
	return hex.EncodeToString(sum[:])
}
