// Package authkit holds the building blocks shared by the authentication
// harnesses (authcheck: C14, authzcheck: C15): a mutable in-memory table
// module with failure injection, helpers to build real maddy modules from
// configuration text, an in-memory net.Listener and a line-level SMTP client.
package authkit

import (
	"bufio"
	"context"
	"encoding/base64"
	"errors"
	"fmt"
	"net"
	"strconv"
	"strings"
	"sync"
	"time"

	parser "github.com/foxcpp/maddy/framework/cfgparser"
	"github.com/foxcpp/maddy/framework/config"
	"github.com/foxcpp/maddy/framework/module"
)

// ---- mutable in-memory table ------------------------------------------------

// MemTable implements module.MutableTable. When FailNext is set the next
// SetKey/RemoveKey returns an error and leaves the table untouched
// ("the table backend refused the write").
type MemTable struct {
	Inst     string
	mu       sync.Mutex
	m        map[string]string
	FailNext bool
}

var ErrBackend = errors.New("verifmem: injected backend failure")

func NewMemTable(inst string) *MemTable { return &MemTable{Inst: inst, m: map[string]string{}} }

func (t *MemTable) Name() string             { return "table.verifmem" }
func (t *MemTable) InstanceName() string     { return t.Inst }
func (t *MemTable) Init(_ *config.Map) error { return nil }

func (t *MemTable) Lookup(_ context.Context, k string) (string, bool, error) {
	t.mu.Lock()
	defer t.mu.Unlock()
	v, ok := t.m[k]
	return v, ok, nil
}

func (t *MemTable) Keys() ([]string, error) {
	t.mu.Lock()
	defer t.mu.Unlock()
	var out []string
	for k := range t.m {
		out = append(out, k)
	}
	return out, nil
}

func (t *MemTable) RemoveKey(k string) error {
	t.mu.Lock()
	defer t.mu.Unlock()
	if t.FailNext {
		t.FailNext = false
		return ErrBackend
	}
	delete(t.m, k)
	return nil
}

func (t *MemTable) SetKey(k, v string) error {
	t.mu.Lock()
	defer t.mu.Unlock()
	if t.FailNext {
		t.FailNext = false
		return ErrBackend
	}
	t.m[k] = v
	return nil
}

func (t *MemTable) Snapshot() map[string]string {
	t.mu.Lock()
	defer t.mu.Unlock()
	out := map[string]string{}
	for k, v := range t.m {
		out[k] = v
	}
	return out
}

// FailingTable wraps a real mutable table module (e.g. table.sql_table) with the
// same write-failure injection as MemTable; everything else is delegated.
type FailingTable struct {
	Inst     string
	Inner    module.MutableTable
	mu       sync.Mutex
	FailNext bool
}

func (t *FailingTable) Name() string             { return "table.veriffailing" }
func (t *FailingTable) InstanceName() string     { return t.Inst }
func (t *FailingTable) Init(_ *config.Map) error { return nil }
func (t *FailingTable) Lookup(ctx context.Context, k string) (string, bool, error) {
	return t.Inner.Lookup(ctx, k)
}
func (t *FailingTable) Keys() ([]string, error) { return t.Inner.Keys() }
func (t *FailingTable) armed() bool {
	t.mu.Lock()
	defer t.mu.Unlock()
	f := t.FailNext
	t.FailNext = false
	return f
}
func (t *FailingTable) RemoveKey(k string) error {
	if t.armed() {
		return ErrBackend
	}
	return t.Inner.RemoveKey(k)
}
func (t *FailingTable) SetKey(k, v string) error {
	if t.armed() {
		return ErrBackend
	}
	return t.Inner.SetKey(k, v)
}
func (t *FailingTable) SetFail(f bool) { t.mu.Lock(); t.FailNext = f; t.mu.Unlock() }

// SetFail arms / disarms the failure of the next write.
func (t *MemTable) SetFail(f bool) { t.mu.Lock(); t.FailNext = f; t.mu.Unlock() }

// ---- module plumbing ----------------------------------------------------------

// RegisterReady puts an already initialised module instance into maddy's
// instance registry so that configuration text can refer to it as &name.
func RegisterReady(inst module.Module) {
	module.RegisterInstance(inst, config.NewMap(nil, config.Node{}))
	module.Initialized[inst.InstanceName()] = true
}

// Nodes parses configuration text with maddy's own parser.
func Nodes(text string) ([]config.Node, error) {
	return parser.Read(strings.NewReader(text), "verif.conf")
}

// InitFromText creates module modName (as registered in maddy) with the given
// instance name and inline arguments and initialises it from the
// configuration block body `text`.
func InitFromText(modName, inst string, inlineArgs []string, text string) (module.Module, error) {
	f := module.Get(modName)
	if f == nil {
		return nil, fmt.Errorf("module %s is not registered", modName)
	}
	m, err := f(modName, inst, nil, inlineArgs)
	if err != nil {
		return nil, err
	}
	nodes, err := Nodes(text)
	if err != nil {
		return nil, err
	}
	if err := m.Init(config.NewMap(nil, config.Node{Children: nodes})); err != nil {
		return nil, err
	}
	return m, nil
}

// ---- in-memory listener ---------------------------------------------------------

type PipeListener struct {
	ch   chan net.Conn
	done chan struct{}
	once sync.Once
}

func NewPipeListener() *PipeListener {
	return &PipeListener{ch: make(chan net.Conn), done: make(chan struct{})}
}

type pipeAddr struct{}

func (pipeAddr) Network() string { return "pipe" }
func (pipeAddr) String() string  { return "pipe" }

func (l *PipeListener) Accept() (net.Conn, error) {
	select {
	case c := <-l.ch:
		return c, nil
	case <-l.done:
		return nil, net.ErrClosed
	}
}
func (l *PipeListener) Close() error   { l.once.Do(func() { close(l.done) }); return nil }
func (l *PipeListener) Addr() net.Addr { return pipeAddr{} }

// Dial hands the server end of a fresh net.Pipe to Accept and returns the client end.
func (l *PipeListener) Dial() (net.Conn, error) {
	c, s := net.Pipe()
	select {
	case l.ch <- s:
		return c, nil
	case <-l.done:
		return nil, net.ErrClosed
	case <-time.After(30 * time.Second):
		return nil, errors.New("pipe listener: nobody accepts")
	}
}

// ---- line-level SMTP client -------------------------------------------------------

type Client struct {
	c net.Conn
	r *bufio.Reader
}

type Reply struct {
	Code int
	Text string
}

func NewClient(c net.Conn) *Client { return &Client{c: c, r: bufio.NewReader(c)} }

func (cl *Client) Close() { cl.c.Close() }

func (cl *Client) ReadReply() (Reply, error) {
	cl.c.SetReadDeadline(time.Now().Add(60 * time.Second))
	var text []string
	for {
		line, err := cl.r.ReadString('\n')
		if err != nil {
			return Reply{}, err
		}
		line = strings.TrimRight(line, "\r\n")
		if len(line) < 3 {
			return Reply{}, fmt.Errorf("short reply line %q", line)
		}
		code, err := strconv.Atoi(line[:3])
		if err != nil {
			return Reply{}, fmt.Errorf("bad reply line %q", line)
		}
		if len(line) > 4 {
			text = append(text, line[4:])
		}
		if len(line) == 3 || line[3] == ' ' {
			return Reply{Code: code, Text: strings.Join(text, "\n")}, nil
		}
	}
}

func (cl *Client) write(b []byte) error {
	cl.c.SetWriteDeadline(time.Now().Add(60 * time.Second))
	_, err := cl.c.Write(b)
	return err
}

func (cl *Client) Cmd(line string) (Reply, error) {
	if err := cl.write([]byte(line + "\r\n")); err != nil {
		return Reply{}, err
	}
	return cl.ReadReply()
}

func b64(s string) string {
	if s == "" {
		return "="
	}
	return base64.StdEncoding.EncodeToString([]byte(s))
}

// AuthPlain performs a real SASL PLAIN exchange (RFC 4616 over RFC 4954);
// ir selects whether the response travels as initial response.
func (cl *Client) AuthPlain(authzid, authcid, pw string, ir bool) (Reply, error) {
	resp := b64(authzid + "\x00" + authcid + "\x00" + pw)
	if ir {
		return cl.Cmd("AUTH PLAIN " + resp)
	}
	r, err := cl.Cmd("AUTH PLAIN")
	if err != nil || r.Code != 334 {
		return r, err
	}
	return cl.Cmd(resp)
}

// AuthLogin performs a real SASL LOGIN exchange.
func (cl *Client) AuthLogin(user, pw string, ir bool) (Reply, error) {
	var r Reply
	var err error
	if ir {
		r, err = cl.Cmd("AUTH LOGIN " + b64(user))
	} else {
		r, err = cl.Cmd("AUTH LOGIN")
		if err != nil || r.Code != 334 {
			return r, err
		}
		r, err = cl.Cmd(b64(user))
	}
	if err != nil || r.Code != 334 {
		return r, err
	}
	return cl.Cmd(b64(pw))
}

// Data sends DATA and the message (raw bytes, CRLF line ends; dot-stuffed here).
func (cl *Client) Data(msg []byte) (Reply, error) {
	r, err := cl.Cmd("DATA")
	if err != nil || r.Code != 354 {
		return r, err
	}
	var sb strings.Builder
	for _, line := range strings.SplitAfter(string(msg), "\n") {
		if strings.HasPrefix(line, ".") {
			sb.WriteString(".")
		}
		sb.WriteString(line)
	}
	s := sb.String()
	if !strings.HasSuffix(s, "\r\n") {
		s += "\r\n"
	}
	s += ".\r\n"
	if err := cl.write([]byte(s)); err != nil {
		return Reply{}, err
	}
	return cl.ReadReply()
}
