package authzcheck

import (
	"bufio"
	"context"
	"encoding/json"
	"fmt"
	"os"
	"strings"
	"sync"
	"testing"

	"github.com/emersion/go-message/textproto"
	"github.com/emersion/go-smtp"
	"github.com/foxcpp/maddy/framework/buffer"
	"github.com/foxcpp/maddy/framework/config"
	"github.com/foxcpp/maddy/framework/log"
	"github.com/foxcpp/maddy/framework/module"
	"github.com/foxcpp/maddy/internal/auth/pass_table"
	_ "github.com/foxcpp/maddy/internal/check/authorize_sender"
	smtpendp "github.com/foxcpp/maddy/internal/endpoint/smtp"
	_ "github.com/foxcpp/maddy/internal/table"
	"github.com/foxcpp/maddy/verifharness/authkit"
	"github.com/foxcpp/maddy/verifharness/scripted"
	"github.com/foxcpp/maddy/verifharness/vtrace"
)

type In struct {
	ID  int    `json:"id"`
	Via string `json:"via"` // "direct" | "endpoint"
	In  Row    `json:"in"`
}

type Out struct {
	Accepted bool   `json:"accepted"`
	Flagged  bool   `json:"flagged"` // delivered / passed with the quarantine flag
	Stage    string `json:"stage"`
	Code     int    `json:"code"`
}

// ---- direct: the check module itself ------------------------------------------------

var checks = map[string]module.Check{}

func checkFor(t *testing.T, r Row) module.Check {
	k := fmt.Sprintf("%s/%s/%v/%s", r.Tbl, r.NormSpec(), r.Chk, r.Act)
	if c, ok := checks[k]; ok {
		return c
	}
	m, err := authkit.InitFromText("check.authorize_sender", fmt.Sprintf("c15chk%d", len(checks)), nil,
		CheckConfig(r.Tbl, r.NormSpec(), r.Chk, r.Act))
	if err != nil {
		t.Fatalf("authorize_sender init (%s): %v\n%s", k, err, CheckConfig(r.Tbl, r.NormSpec(), r.Chk, r.Act))
	}
	c := m.(module.Check)
	checks[k] = c
	return c
}

// fileRow runs a row of family H (file_test.go): message, edit + reload, message again.
func fileRow(t *testing.T, r Row, run func(ref string, first bool) Out) Out {
	ft := newFileTable(t, r)
	defer ft.close()
	run(ft.ref, true)
	ft.edit(t, r)
	return run(ft.ref, false)
}

func direct(t *testing.T, r Row) Out {
	if isFileTbl(r.Tbl) {
		var c module.Check
		return fileRow(t, r, func(ref string, first bool) Out {
			if first {
				m, err := authkit.InitFromText("check.authorize_sender", "c15chk_"+ref, nil,
					checkConfig(r.Tbl, r.NormSpec(), r.Chk, r.Act, ref))
				if err != nil {
					t.Fatalf("authorize_sender init (file): %v", err)
				}
				c = m.(module.Check)
			}
			return directOn(t, c, r)
		})
	}
	return directOn(t, checkFor(t, r), r)
}

func directOn(t *testing.T, c module.Check, r Row) Out {
	ctx := context.Background()
	meta := &module.MsgMetadata{ID: "verif", Conn: &module.ConnState{AuthUser: User(r.Auth), Proto: "ESMTP"}}
	st, err := c.CheckStateForMsg(ctx, meta)
	if err != nil {
		t.Fatal(err)
	}
	defer st.Close()
	flagged := false
	if res := st.CheckSender(ctx, Addr(r.Mf)); res.Reject {
		return Out{false, false, "mail", codeOf(res)}
	} else if res.Quarantine {
		flagged = true
	}
	hdr, err := textproto.ReadHeader(bufio.NewReader(strings.NewReader(Header(r) + "\r\n")))
	if err != nil {
		t.Fatalf("harness rendered a header go-message cannot read: %v\n%s", err, Header(r))
	}
	if res := st.CheckBody(ctx, hdr, buffer.MemoryBuffer{Slice: []byte("hello\r\n")}); res.Reject {
		return Out{false, false, "data", codeOf(res)}
	} else if res.Quarantine {
		flagged = true
	}
	return Out{true, flagged, "accepted", 250}
}

func codeOf(res module.CheckResult) int {
	type coder interface{ Fields() map[string]interface{} }
	if res.Reason == nil {
		return 0
	}
	if f, ok := res.Reason.(coder); ok {
		if c, ok := f.Fields()["smtp_code"].(int); ok {
			return c
		}
	}
	return 0
}

// ---- endpoint: AUTH, MAIL, RCPT, DATA against the real endpoint ----------------------

type sink struct {
	inst string
	mu   sync.Mutex
	n    int
	quar bool // quarantine flag of the last committed message
}

func (s *sink) Name() string             { return "target.verifsink" }
func (s *sink) InstanceName() string     { return s.inst }
func (s *sink) Init(_ *config.Map) error { return nil }
func (s *sink) Start(_ context.Context, meta *module.MsgMetadata, _ string) (module.Delivery, error) {
	return &sinkDelivery{s, meta}, nil
}
func (s *sink) count() int { s.mu.Lock(); defer s.mu.Unlock(); return s.n }

type sinkDelivery struct {
	s    *sink
	meta *module.MsgMetadata
}

func (d *sinkDelivery) AddRcpt(context.Context, string, smtp.RcptOptions) error { return nil }
func (d *sinkDelivery) Body(context.Context, textproto.Header, buffer.Buffer) error {
	return nil
}
func (d *sinkDelivery) Abort(context.Context) error { return nil }
func (d *sinkDelivery) Commit(context.Context) error {
	d.s.mu.Lock()
	d.s.n++
	d.s.quar = d.meta.Quarantine
	d.s.mu.Unlock()
	return nil
}

type endpoint struct {
	endp *smtpendp.Endpoint
	ln   *authkit.PipeListener
	sink *sink
}

var (
	endpoints = map[string]*endpoint{}
	authReady bool
)

// every account has its own password
var pw = map[string]string{"U": "correct horse", "V": "battery staple"}

// neighbourBlock is a scripted check (harness/scripted) for the same check block as
// authorize_sender: it fails at the sender and body stages with the given action.
func neighbourBlock(nb string) string {
	switch nb {
	case "absent":
		return ""
	case "none":
		return "    verif_scripted {\n        id nb\n        ctl c15\n    }\n"
	case "quarantine", "reject":
		return "    verif_scripted {\n        id nb\n        ctl c15\n        fail_on sender body\n" +
			"        sender_action " + nb + "\n        body_action " + nb + "\n    }\n"
	}
	panic("unknown neighbour " + nb)
}

func endpointFor(t *testing.T, kind string, r Row) *endpoint {
	return endpointWith(t, kind, r, "")
}

// endpointWith: fileRef != "" builds a private endpoint whose check refers to that table.file instance.
func endpointWith(t *testing.T, kind string, r Row, fileRef string) *endpoint {
	tbl, norm := r.Tbl, r.NormSpec()
	k := fmt.Sprintf("%s/%s/%s/%v/%s/%s/%s", kind, tbl, norm, r.Chk, r.Nb, r.Act, fileRef)
	if e, ok := endpoints[k]; ok {
		return e
	}
	if !authReady {
		tblm := authkit.NewMemTable("c15creds")
		authkit.RegisterReady(tblm)
		m, err := pass_table.New("auth.pass_table", "c15auth", nil, []string{"&c15creds"})
		if err != nil {
			t.Fatal(err)
		}
		if err := m.Init(config.NewMap(nil, config.Node{})); err != nil {
			t.Fatal(err)
		}
		pt := m.(*pass_table.Auth)
		for _, u := range []string{"U", "V"} {
			if err := pt.CreateUserHash(User(Item{u, "plain"}), pw[u], pass_table.HashBcrypt, pass_table.HashOpts{BcryptCost: 4}); err != nil {
				t.Fatal(err)
			}
		}
		authkit.RegisterReady(pt)
		ctl := scripted.NewCheckCtl(vtrace.New(nil, 0), nil)
		ctl.NoGate = true
		scripted.BindCheckCtl("c15", ctl)
		authReady = true
	}
	sk := &sink{inst: fmt.Sprintf("c15sink%d", len(endpoints))}
	authkit.RegisterReady(sk)
	text := "hostname mx.example.org\ntls off\nbuffer ram\n"
	if kind == "submission" {
		text += "auth &c15auth\nsasl_login yes\n"
	}
	text += "check {\n    authorize_sender {\n"
	for _, l := range strings.Split(strings.TrimSpace(checkConfig(tbl, norm, r.Chk, r.Act, fileRef)), "\n") {
		text += "        " + l + "\n"
	}
	text += "    }\n" + neighbourBlock(r.Nb) + "}\ndeliver_to &" + sk.inst + "\n"
	nodes, err := authkit.Nodes(text)
	if err != nil {
		t.Fatalf("config: %v\n%s", err, text)
	}
	em, err := smtpendp.New(kind, nil)
	if err != nil {
		t.Fatal(err)
	}
	e := &endpoint{endp: em.(*smtpendp.Endpoint), ln: authkit.NewPipeListener(), sink: sk}
	e.endp.Log = log.Logger{Out: log.NopOutput{}}
	if err := e.endp.Init(config.NewMap(nil, config.Node{Children: nodes})); err != nil {
		t.Fatalf("endpoint init: %v\n%s", err, text)
	}
	e.endp.VerifAuthSASL().Log = log.Logger{Out: log.NopOutput{}}
	go e.endp.VerifAuthServe(e.ln)
	endpoints[k] = e
	return e
}

func viaEndpoint(t *testing.T, r Row) Out {
	kind := "submission"
	if r.Auth.A == "none" {
		kind = "smtp" // a submission endpoint refuses MAIL outright; the check's own rule is reached on port 25
	}
	if isFileTbl(r.Tbl) {
		var e *endpoint
		out := fileRow(t, r, func(ref string, first bool) Out {
			if first {
				e = endpointWith(t, kind, r, ref)
			}
			return converse(t, e, r)
		})
		e.ln.Close()
		e.endp.Close()
		for k, v := range endpoints {
			if v == e {
				delete(endpoints, k)
			}
		}
		return out
	}
	return converse(t, endpointFor(t, kind, r), r)
}

// converse: one connection - EHLO, AUTH, MAIL, RCPT, DATA.
func converse(t *testing.T, e *endpoint, r Row) Out {
	c, err := e.ln.Dial()
	if err != nil {
		t.Fatal(err)
	}
	cl := authkit.NewClient(c)
	defer cl.Close()
	must := func(rep authkit.Reply, err error) authkit.Reply {
		if err != nil {
			t.Fatalf("smtp conversation: %v", err)
		}
		return rep
	}
	if rep := must(cl.ReadReply()); rep.Code != 220 {
		t.Fatalf("greeting %v", rep)
	}
	if rep := must(cl.Cmd("EHLO client.example.org")); rep.Code != 250 {
		t.Fatalf("EHLO %v", rep)
	}
	before := e.sink.count()
	if r.Auth.A != "none" {
		// the client holds the password of r.Auth only; the authorization identity is what it claims
		var rep authkit.Reply
		if r.Sasl.Mech == "LOGIN" {
			rep = must(cl.AuthLogin(User(r.Auth), pw[r.Auth.A], true))
		} else {
			az := ""
			switch r.Sasl.Az {
			case "same":
				az = User(r.Auth)
			case "other":
				other := "V"
				if r.Auth.A == "V" {
					other = "U"
				}
				az = User(Item{other, "plain"})
			}
			rep = must(cl.AuthPlain(az, User(r.Auth), pw[r.Auth.A], true))
		}
		if rep.Code != 235 {
			return Out{false, false, "auth", rep.Code}
		}
	}
	if rep := must(cl.Cmd("MAIL FROM:<" + Addr(r.Mf) + "> SMTPUTF8")); rep.Code != 250 {
		return Out{false, false, "mail", rep.Code}
	}
	if rep := must(cl.Cmd("RCPT TO:<rcpt@dest.example>")); rep.Code != 250 {
		return Out{false, false, "rcpt", rep.Code}
	}
	rep := must(cl.Data([]byte(Header(r) + "\r\nhello\r\n")))
	cl.Cmd("QUIT")
	if rep.Code != 250 {
		return Out{false, false, "data", rep.Code}
	}
	if e.sink.count() != before+1 {
		t.Fatalf("DATA answered 250 but the target did not get the message")
	}
	e.sink.mu.Lock()
	flagged := e.sink.quar
	e.sink.mu.Unlock()
	return Out{true, flagged, "accepted", 250}
}

func TestReplay(t *testing.T) {
	in, out := os.Getenv("VERIF_IN"), os.Getenv("VERIF_OUT")
	if in == "" || out == "" {
		t.Skip("VERIF_IN / VERIF_OUT not set")
	}
	f, err := os.Open(in)
	if err != nil {
		t.Fatal(err)
	}
	defer f.Close()
	of, err := os.Create(out)
	if err != nil {
		t.Fatal(err)
	}
	defer of.Close()
	w := bufio.NewWriter(of)
	defer w.Flush()
	sc := bufio.NewScanner(f)
	sc.Buffer(make([]byte, 1<<20), 1<<26)
	n := 0
	for sc.Scan() {
		var row In
		if err := json.Unmarshal(sc.Bytes(), &row); err != nil {
			t.Fatalf("bad row: %v", err)
		}
		if row.In.Edit == "" {
			row.In.Edit = "none" // rows stored before the field existed
		}
		if row.In.Anorm == "" {
			row.In.Anorm = "="
		}
		var o Out
		switch row.Via {
		case "direct":
			o = direct(t, row.In)
		case "endpoint":
			o = viaEndpoint(t, row.In)
		default:
			t.Fatalf("row %d: unknown via %q", row.ID, row.Via)
		}
		tr := vtrace.New(w, row.ID)
		tr.Emit("Row", vtrace.Ev{"via": row.Via, "in": row.In, "out": o})
		n++
	}
	for _, e := range endpoints {
		e.ln.Close()
		e.endp.Close()
	}
	t.Logf("ran %d rows", n)
	_ = fmt.Sprint
}
