package authzcheck

// Rows of family H: the entitlement mapping lives in a table.file that is edited
// and reloaded while the "server" (the check module / the endpoint) is running.
//
// Per row: write the initial file, build a fresh table.file on it (and a fresh
// check / endpoint that refers to it), send the message of the row once (what a
// running server has been doing all along; the decision is not recorded), apply
// the edit of the row, make the module reload the file the way the reload timer
// and the SIGUSR2 hook do (one event on the reloader's channel), then send the
// message: that decision is the row's output.  The model (Authz.tla, tbl "file" /
// "fileprep", field edit) judges it against the file as last reloaded.

import (
	"fmt"
	"os"
	"path/filepath"
	"strings"
	"testing"
	"time"

	"github.com/foxcpp/maddy/framework/log"
	"github.com/foxcpp/maddy/internal/table"
	"github.com/foxcpp/maddy/verifharness/authkit"
)

func init() {
	// the reloader's ticker never fires by itself during a run; reload() skips files
	// modified less than half an interval ago, so the files get mtimes hours in the past
	table.VerifSetReloadInterval(time.Hour)
}

func isFileTbl(tbl string) bool { return tbl == "file" || tbl == "fileprep" }

// fileContents returns the lines of the file when the server starts and after the edit.
func fileContents(tbl, edit string) (v0, v1 []string) {
	self, alias := Addr(Item{"self", "plain"}), Addr(Item{"alias", "plain"})
	peer, ivy := Addr(Item{"peer", "plain"}), Addr(Item{"ivy", "plain"})
	switch tbl {
	case "file": // user_to_email
		full := []string{"# sender addresses", self + ": " + self + ", " + alias, peer + ": " + peer}
		bare := []string{"# sender addresses", self + ": " + self, peer + ": " + peer}
		switch edit {
		case "none", "same":
			return full, full
		case "revoke":
			return full, bare
		case "delline":
			return full, []string{"# sender addresses", peer + ": " + peer}
		case "replace":
			return full, []string{"# sender addresses", self + ": " + self + ", " + ivy, peer + ": " + peer}
		case "grant":
			return bare, full
		}
	case "fileprep": // prepare_email
		other := "someone@else.example: someone@else.example"
		full := []string{other, alias + ": " + self}
		switch edit {
		case "none", "same":
			return full, full
		case "revoke", "delline":
			return full, []string{other}
		case "replace":
			return full, []string{other, alias + ": " + peer}
		case "grant":
			return []string{other}, full
		}
	}
	panic("unknown file table / edit " + tbl + "/" + edit)
}

type fileTable struct {
	ref  string
	path string
	f    *table.File
	t0   time.Time
	n    int
}

var fileSeq int

func newFileTable(t *testing.T, r Row) *fileTable {
	fileSeq++
	dir, err := os.MkdirTemp(os.Getenv("VERIF_TMP"), "c15file")
	if err != nil {
		t.Fatal(err)
	}
	ft := &fileTable{ref: fmt.Sprintf("c15file%d_%d", os.Getpid(), fileSeq), path: filepath.Join(dir, "senders"),
		t0: time.Now().Add(-6 * time.Hour)}
	v0, _ := fileContents(r.Tbl, r.Edit)
	ft.write(t, v0)
	m, err := authkit.InitFromText("table.file", ft.ref, []string{ft.path}, "")
	if err != nil {
		t.Fatalf("table.file: %v", err)
	}
	ft.f = m.(*table.File)
	ft.f.VerifSetLog(log.Logger{Out: log.NopOutput{}})
	authkit.RegisterReady(ft.f)
	return ft
}

// write replaces the file the way an editor / configuration management does
// (new file renamed over the old one); every version is an hour younger.
func (ft *fileTable) write(t *testing.T, lines []string) {
	tmp := ft.path + ".new"
	if err := os.WriteFile(tmp, []byte(strings.Join(lines, "\n")+"\n"), 0o644); err != nil {
		t.Fatal(err)
	}
	mt := ft.t0.Add(time.Duration(ft.n) * time.Hour)
	ft.n++
	if err := os.Chtimes(tmp, mt, mt); err != nil {
		t.Fatal(err)
	}
	if err := os.Rename(tmp, ft.path); err != nil {
		t.Fatal(err)
	}
}

// reload raises one reload event and waits until the reloader has dealt with it
// (it takes the next event only after reload() returned).
func (ft *fileTable) reload(t *testing.T) {
	_, force := ft.f.VerifChans()
	for i := 0; i < 2; i++ {
		select {
		case force <- struct{}{}:
		case <-time.After(60 * time.Second):
			t.Fatalf("table.file reloader does not take reload events")
		}
	}
}

func (ft *fileTable) edit(t *testing.T, r Row) {
	if r.Edit == "none" {
		return
	}
	_, v1 := fileContents(r.Tbl, r.Edit)
	ft.write(t, v1)
	ft.reload(t)
}

func (ft *fileTable) close() {
	ft.f.Close()
	os.RemoveAll(filepath.Dir(ft.path))
}
