// Package authzcheck runs the rows of Authz.tla on the real
// check.authorize_sender (CheckSender + CheckBody, real table modules, real
// internal/authz) and, for a sample, through the real submission/smtp endpoint
// (AUTH, MAIL, RCPT, DATA over an in-memory connection; submissionPrepare,
// message pipeline and check runner included).
package authzcheck

import (
	"encoding/base64"
	"fmt"
	"strings"

	"golang.org/x/net/idna"
)

type Item struct {
	A string `json:"a"`
	V string `json:"v"`
}

type From struct {
	Layout string `json:"layout"`
	X      Item   `json:"x"`
	Y      Item   `json:"y"`
	Style  string `json:"style"`
}

type Sasl struct {
	Mech string `json:"mech"` // PLAIN | LOGIN
	Az   string `json:"az"`   // empty | same | other
}

type Row struct {
	Tbl    string `json:"tbl"`
	Norm   string `json:"norm"`  // from_normalize (and auth_normalize when Anorm is "=")
	Anorm  string `json:"anorm"` // auth_normalize: "=" (as Norm) or a setting of its own (family I)
	Auth   Item   `json:"auth"` // a = "U" | "V" | "none": the account whose password the client presents
	Mf     Item   `json:"mf"`
	From   From   `json:"from"`
	Sender Item   `json:"sender"`
	Chk    bool   `json:"chk"`  // check_header
	Sasl   Sasl   `json:"sasl"` // endpoint rows: mechanism and authorization identity
	Nb     string `json:"nb"`   // endpoint rows: neighbour check: absent | none | quarantine | reject
	Act    string `json:"act"`  // action directives: default | reject | quarantine | custom_reject | custom_quarantine
	Edit   string `json:"edit"` // tables "file"/"fileprep": what was done to the file before this message (file_test.go)
	Fam    string `json:"fam"`
}

const (
	loc  = "zo\u00eb"         // z o e-diaeresis (NFC)
	dom  = "ex\u00e4mple.org" // a-diaeresis (NFC); A-label form xn--exmple-cua.org
	evil = "evil.example"
	dom2 = "fass\u03c3.example" // second domain of U ("ss" and a sigma: it has deviation-character twins)
)

// canonical spelling of every mailbox of Authz.tla
var mailbox = map[string][2]string{
	"self":    {loc, dom},
	"alias":   {"sales", dom},
	"peer":    {"bob", dom},
	"foreign": {"mallory", evil},
	"look":    {loc, dom + "." + evil},
	"sub":     {loc, "mail." + dom},
	"suffix":  {loc, "evil" + dom},
	"ivy":     {"ivy", dom},
	// the case twin of self: local part in capitals, domain as it is.  Another address (and,
	// as the name of account W, another account) wherever the operator's setting keeps the case.
	"cself": {"ZO\u00cb", dom},
	"ivyd":    {"\u0130vy", dom}, // capital I with dot above: not the same mailbox, but strings.ToLower makes it "ivy"
	// a mailbox of U on a second domain, and the three addresses that differ from it by an
	// IDNA deviation character (other domains under IDNA2008; the same after transitional mapping)
	"dv":   {"ceo", dom2},
	"dvss": {"ceo", "fa\u00df\u03c3.example"},     // sharp s for "ss"
	"dvfs": {"ceo", "fass\u03c2.example"},         // final sigma for sigma
	"dvzw": {"ceo", "fas\u200cs\u03c3.example"},   // zero-width non-joiner inside
}

func nfd(s string) string {
	s = strings.ReplaceAll(s, "\u00eb", "e\u0308")
	return strings.ReplaceAll(s, "\u00e4", "a\u0308")
}

// full-width forms of the first two (ASCII) letters of the local part
func wide(local string) string {
	out := []rune{}
	n := 0
	for _, r := range local {
		if n < 2 && r >= 'a' && r <= 'z' {
			out = append(out, r-'a'+0xff41)
			n++
		} else {
			out = append(out, r)
		}
	}
	return string(out)
}

// Addr renders a spelling of a mailbox. All spellings denote the same
// address: upper case, canonical decomposition, full-width letters (folded
// by the PRECIS profiles maddy applies) and the A-label form of the domain.
func Addr(it Item) string {
	switch it.A {
	case "null": // the null reverse-path
		return ""
	case "pm": // the special mailbox without a domain
		if it.V == "upper" {
			return "POSTMASTER"
		}
		return "postmaster"
	}
	mb, ok := mailbox[it.A]
	if !ok {
		panic("unknown mailbox " + it.A)
	}
	l, d := mb[0], mb[1]
	switch it.V {
	case "plain":
	case "upper":
		l, d = strings.ToUpper(l), strings.ToUpper(d)
	case "nfd":
		l, d = nfd(l), nfd(d)
	case "wide":
		l = wide(l)
	case "idn":
		a, err := idna.ToASCII(d)
		if err != nil {
			panic(err)
		}
		d = a
	default:
		panic("unknown variant " + it.V)
	}
	return l + "@" + d
}

// User renders the SASL user name: U = zoe's address, V = bob's.
func User(it Item) string {
	switch it.A {
	case "U":
		return Addr(Item{A: "self", V: it.V})
	case "V":
		return Addr(Item{A: "peer", V: it.V})
	case "W": // the account whose name is the case twin of U's
		return Addr(Item{A: "cself", V: it.V})
	case "none":
		return ""
	}
	panic("unknown user " + it.A)
}

func b64word(s string) string {
	return "=?utf-8?b?" + base64.StdEncoding.EncodeToString([]byte(s)) + "?="
}

// FromLines renders the From field(s) of a row (CRLF-terminated lines).
func FromLines(f From) string {
	self := Addr(Item{A: "self", V: "plain"})
	x := func() string { return Addr(f.X) }
	y := func() string { return Addr(f.Y) }
	switch f.Layout {
	case "none":
		return ""
	case "one":
		switch f.Style {
		case "bare":
			return "From: " + x() + "\r\n"
		case "angle":
			return "From: <" + x() + ">\r\n"
		case "dn":
			return "From: Zoe Example <" + x() + ">\r\n"
		case "dntrick": // the display name looks like the entitled address
			return "From: \"" + self + "\" <" + x() + ">\r\n"
		case "encoded":
			return "From: =?utf-8?q?Zo=C3=AB?= <" + x() + ">\r\n"
		case "enctrick": // an encoded word that decodes to "<entitled address>"
			return "From: " + b64word("<"+self+">") + " <" + x() + ">\r\n"
		case "folded":
			return "From: Zoe\r\n Example\r\n\t<" + x() + ">\r\n"
		case "comment":
			return "From: " + x() + " (Zoe)\r\n"
		case "commenttrick":
			return "From: " + x() + " (" + self + ")\r\n"
		case "casename":
			return "fRoM: <" + x() + ">\r\n"
		case "spacename":
			return "From : <" + x() + ">\r\n"
		}
		panic("unknown style " + f.Style)
	case "two":
		return "From: <" + x() + ">, <" + y() + ">\r\n"
	case "fields":
		return "From: <" + x() + ">\r\nFrom: <" + y() + ">\r\n"
	case "group":
		return "From: Team: <" + x() + ">, <" + y() + ">;\r\n"
	case "group1":
		return "From: Team: <" + x() + ">;\r\n"
	// a repeated From field whose later instance names further mailboxes
	case "fields_xy":
		return "From: <" + x() + ">\r\nFrom: <" + x() + ">, <" + y() + ">\r\n"
	case "fields_yx":
		return "From: <" + x() + ">\r\nFrom: <" + y() + ">, <" + x() + ">\r\n"
	case "fields_g":
		return "From: <" + x() + ">\r\nFrom: Team: <" + x() + ">, <" + y() + ">;\r\n"
	case "fields3":
		return "From: <" + x() + ">\r\nFrom: <" + x() + ">\r\nFrom: <" + y() + ">\r\n"
	}
	panic("unknown layout " + f.Layout)
}

// Header renders the complete header section of the message of a row.
func Header(r Row) string {
	var sb strings.Builder
	sb.WriteString(FromLines(r.From))
	if r.Sender.A != "-" {
		sb.WriteString("Sender: <" + Addr(r.Sender) + ">\r\n")
	}
	sb.WriteString("To: <rcpt@dest.example>\r\n")
	sb.WriteString("Subject: verif\r\n")
	sb.WriteString("Date: Thu, 01 Oct 2026 10:00:00 +0000\r\n")
	sb.WriteString("Message-ID: <verif@mx.example.org>\r\n")
	return sb.String()
}

func q(s string) string { return fmt.Sprintf("%q", s) }

// NormSpec is the normalisation argument of CheckConfig for a row: "<from_normalize>" or
// "<from_normalize>/<auth_normalize>" when the two directives are set independently.
func (r Row) NormSpec() string {
	if r.Anorm == "" || r.Anorm == "=" {
		return r.Norm
	}
	return r.Norm + "/" + r.Anorm
}

// CheckConfig is the configuration block body of check.authorize_sender for
// an entitlement table kind and a normalisation setting.
func CheckConfig(tbl, norm string, chk bool, act string) string {
	return checkConfig(tbl, norm, chk, act, "")
}

// checkConfig: ref is the instance name of the table.file module behind the
// table kinds "file" (user_to_email) and "fileprep" (prepare_email).
func checkConfig(tbl, norm string, chk bool, act string, ref string) string {
	self, alias := Addr(Item{"self", "plain"}), Addr(Item{"alias", "plain"})
	peer, ivy := Addr(Item{"peer", "plain"}), Addr(Item{"ivy", "plain"})
	dv := Addr(Item{"dv", "plain"})
	var s string
	switch tbl {
	case "identity":
		s = "user_to_email identity\n"
	case "list":
		s = "user_to_email static {\n    entry " + q(self) + " " + q(self) + " " + q(alias) + " " + q(ivy) + " " + q(dv) + "\n}\n"
	case "domain":
		s = "user_to_email static {\n    entry " + q(self) + " " + q(dom) + " " + q(dom2) + "\n}\n"
	case "star":
		s = "user_to_email static {\n    entry " + q(self) + " \"*\"\n}\n"
	case "twin": // case twins as distinct keys (U, W) and as distinct addresses (self of U, cself of V)
		cself := Addr(Item{"cself", "plain"})
		s = "user_to_email static {\n    entry " + q(self) + " " + q(self) + " " + q(alias) + "\n" +
			"    entry " + q(cself) + " " + q(ivy) + "\n" +
			"    entry " + q(peer) + " " + q(peer) + " " + q(cself) + "\n}\n"
	case "absent":
		s = "user_to_email static {\n    entry \"someone@else.example\" \"someone@else.example\"\n}\n"
	case "prepare":
		s = "user_to_email identity\nprepare_email static {\n    entry " + q(alias) + " " + q(self) + "\n}\n"
	case "file":
		s = "user_to_email &" + ref + "\n"
	case "fileprep":
		s = "user_to_email identity\nprepare_email &" + ref + "\n"
	case "chain_req": // both steps required; V is in no group
		s = "user_to_email chain {\n" +
			"    step static {\n        entry " + q(self) + " \"grp-u\"\n    }\n" +
			"    step static {\n        entry \"grp-u\" " + q(self) + " " + q(alias) + "\n    }\n}\n"
	case "chain_dom": // the tenant key of U is the domain name and has no sender addresses
		s = "user_to_email chain {\n" +
			"    step static {\n        entry " + q(self) + " " + q(dom) + "\n        entry " + q(peer) + " \"grp-v\"\n    }\n" +
			"    step static {\n        entry \"grp-v\" " + q(peer) + "\n        entry \"other.example\" \"noreply@other.example\"\n    }\n}\n"
	case "chain_opt": // a miss in an optional step passes the user name on
		s = "user_to_email chain {\n" +
			"    optional_step static {\n        entry " + q(self) + " " + q(self) + " " + q(alias) + "\n    }\n}\n"
	default:
		panic("unknown table kind " + tbl)
	}
	switch act {
	case "", "default":
	case "reject", "quarantine":
		s += "unauth_action " + act + "\nno_match_action " + act + "\nerr_action " + act + "\n"
	case "custom_reject", "custom_quarantine":
		a := strings.TrimPrefix(act, "custom_")
		s += "unauth_action " + a + " 530 5.7.0 \"Log in first\"\n" +
			"no_match_action " + a + " 553 5.7.1 \"This sender address is not yours\"\n" +
			"err_action " + a + " 451 4.7.0 \"Try again later\"\n"
	default:
		panic("unknown action kind " + act)
	}
	if !chk {
		s += "check_header no\n"
	}
	fnorm, anorm := norm, norm
	if i := strings.IndexByte(norm, '/'); i >= 0 {
		fnorm, anorm = norm[:i], norm[i+1:]
	}
	return s + "auth_normalize " + anorm + "\nfrom_normalize " + fnorm + "\n"
}
