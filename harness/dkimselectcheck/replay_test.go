// Package dkimselectcheck (extension X19) runs every row of spec/DkimSelect.tla through the real modify.dkim
// (New, Init with the row's directives, ModStateForMsg with the row's session, RewriteSender, RewriteBody,
// Close) and records what Init answered, which key files it made, what RewriteBody returned and what it did to
// the header: the tags of the added DKIM-Signature, which of the configured domains' keys verifies it (the
// independent verifier of harness/dkimcheck), whether everything else is byte-for-byte what went in.
// Event: Row {in, out}.  Nothing is judged here; TLC evaluates the predicates (spec/DkimSelectTrace.tla).
package dkimselectcheck

import (
	"bufio"
	"bytes"
	"context"
	"crypto"
	"crypto/ed25519"
	"crypto/rand"
	"crypto/x509"
	"encoding/json"
	"encoding/pem"
	"fmt"
	"os"
	"path/filepath"
	"sort"
	"strings"
	"testing"

	"github.com/emersion/go-message/textproto"
	"github.com/foxcpp/maddy/framework/buffer"
	"github.com/foxcpp/maddy/framework/config"
	"github.com/foxcpp/maddy/framework/module"
	moddkim "github.com/foxcpp/maddy/internal/modify/dkim"
	"github.com/foxcpp/maddy/verifharness/vtrace"
)

type Cfg struct {
	Doms []string `json:"doms"`
	Sub  bool     `json:"sub"`
	Rsm  string   `json:"rsm"`
	Amf  bool     `json:"amf"`
	Tpl  string   `json:"tpl"`
	Pre  bool     `json:"pre"`
	Hc   string   `json:"hc"`
	Bc   string   `json:"bc"`
	Algo string   `json:"algo"`
}

type Conc struct {
	Domains  []string `json:"domains"`
	Selector string   `json:"selector"`
	KeyPath  string   `json:"key_path"`
	KeyFiles []string `json:"keyfiles"`
	Rsm      []string `json:"rsm"`
	MailFrom string   `json:"mailfrom"`
	FromHdr  string   `json:"fromhdr"`
	AuthUser string   `json:"authuser"`
}

type In struct {
	Tab string                 `json:"tab"`
	C   Cfg                    `json:"c"`
	M   map[string]interface{} `json:"m"`
	X   Conc                   `json:"x"`
}

type Row struct {
	ID int             `json:"id"`
	In json.RawMessage `json:"in"`
}

// tokens of the specification <-> the characters they stand for
var tokens = [][2]string{{"{d}", "ü"}, {"{u}", "ü"}, {"{U}", "Ü"}}

func detok(s string) string {
	for _, t := range tokens {
		s = strings.ReplaceAll(s, t[0], t[1])
	}
	return s
}

func tok(s string) string {
	for _, t := range tokens {
		s = strings.ReplaceAll(s, t[1], t[0])
	}
	var b strings.Builder
	for _, r := range s {
		if r > 126 || r < 32 {
			fmt.Fprintf(&b, "{x%04X}", r)
		} else {
			b.WriteRune(r)
		}
	}
	return b.String()
}

func isASCII(s string) bool {
	for i := 0; i < len(s); i++ {
		if s[i] > 126 {
			return false
		}
	}
	return true
}

func pubOf(path string) crypto.PublicKey {
	blob, err := os.ReadFile(path)
	if err != nil {
		return nil
	}
	block, _ := pem.Decode(blob)
	if block == nil {
		return nil
	}
	priv, err := x509.ParsePKCS8PrivateKey(block.Bytes)
	if err != nil {
		return nil
	}
	s, ok := priv.(crypto.Signer)
	if !ok {
		return nil
	}
	return s.Public()
}

func listFiles(root string) map[string]bool {
	res := map[string]bool{}
	filepath.Walk(root, func(p string, fi os.FileInfo, err error) error {
		if err == nil && !fi.IsDir() {
			rel, _ := filepath.Rel(root, p)
			res[rel] = true
		}
		return nil
	})
	return res
}

// the tags of a DKIM-Signature field value
func tagsOf(v string) map[string]string {
	res := map[string]string{}
	for _, part := range strings.Split(v, ";") {
		kv := strings.SplitN(part, "=", 2)
		if len(kv) != 2 {
			continue
		}
		val := strings.Map(func(r rune) rune {
			if r == ' ' || r == '\t' || r == '\r' || r == '\n' {
				return -1
			}
			return r
		}, kv[1])
		res[strings.TrimSpace(kv[0])] = val
	}
	return res
}

func rawFields(h textproto.Header) [][]byte {
	var res [][]byte
	for f := h.Fields(); f.Next(); {
		raw, err := f.Raw()
		if err != nil {
			raw = []byte(f.Key() + ": " + f.Value() + "\r\n")
		}
		res = append(res, append([]byte(nil), raw...))
	}
	return res
}

const bodyText = "Hello,\r\n\r\nthis is the X19 probe.  \r\n.leading dot\r\n\r\n"

func runRow(t *testing.T, root string, r Row, tr *vtrace.Tracer) {
	var in In
	if err := json.Unmarshal(r.In, &in); err != nil {
		t.Fatalf("bad row %d: %v", r.ID, err)
	}
	var inAny interface{}
	json.Unmarshal(r.In, &inAny)
	out := vtrace.Ev{"initErr": false, "err": false, "nsig": 0, "d": "", "dascii": false, "auid": "", "s": "", "key": 0,
		"newkeys": []string{}, "intact": false, "hc": "", "bc": "", "alg": "", "panic": ""}
	defer func() {
		if p := recover(); p != nil {
			out["panic"] = fmt.Sprint(p)
			out["err"] = true
			out["intact"] = false
		}
		tr.Emit("Row", vtrace.Ev{"in": inAny, "out": out})
	}()

	kdir, err := os.MkdirTemp(root, "k")
	if err != nil {
		t.Fatal(err)
	}
	defer os.RemoveAll(kdir)
	// key files the configuration names (written before Init when the row says they exist)
	want := make([]string, len(in.X.KeyFiles))
	for j, n := range in.X.KeyFiles {
		want[j] = filepath.Join(kdir, detok(n))
	}
	if in.C.Pre {
		for _, p := range want {
			_, priv, err := ed25519.GenerateKey(rand.Reader)
			if err != nil {
				t.Fatal(err)
			}
			der, err := x509.MarshalPKCS8PrivateKey(priv)
			if err != nil {
				t.Fatal(err)
			}
			if err := os.MkdirAll(filepath.Dir(p), 0o777); err != nil {
				t.Fatal(err)
			}
			if err := os.WriteFile(p, pem.EncodeToMemory(&pem.Block{Type: "PRIVATE KEY", Bytes: der}), 0o600); err != nil {
				t.Fatal(err)
			}
		}
	}
	before := listFiles(kdir)

	doms := make([]string, len(in.X.Domains))
	for j, d := range in.X.Domains {
		doms[j] = detok(d)
	}
	nodes := []config.Node{
		{Name: "domains", Args: doms},
		{Name: "selector", Args: []string{in.X.Selector}},
		{Name: "key_path", Args: []string{filepath.Join(kdir, in.X.KeyPath)}},
		{Name: "newkey_algo", Args: []string{in.C.Algo}},
		{Name: "header_canon", Args: []string{in.C.Hc}},
		{Name: "body_canon", Args: []string{in.C.Bc}},
		{Name: "hash", Args: []string{"sha256"}},
	}
	if in.C.Sub {
		nodes = append(nodes, config.Node{Name: "sign_subdomains", Args: []string{"yes"}})
	}
	if in.C.Amf {
		nodes = append(nodes, config.Node{Name: "allow_multiple_from", Args: []string{"yes"}})
	}
	if len(in.X.Rsm) > 0 {
		nodes = append(nodes, config.Node{Name: "require_sender_match", Args: in.X.Rsm})
	}
	mod, err := moddkim.New("modify.dkim", "verif_x19", nil, nil)
	if err != nil {
		t.Fatal(err)
	}
	m := mod.(*moddkim.Modifier)
	if err := m.Init(config.NewMap(nil, config.Node{Children: nodes})); err != nil {
		out["initErr"] = true
		out["initMsg"] = tok(err.Error())
		return
	}
	var newkeys []string
	for f := range listFiles(kdir) {
		if !before[f] && !strings.HasSuffix(f, ".dns") {
			newkeys = append(newkeys, tok(f))
		}
	}
	sort.Strings(newkeys)
	if newkeys == nil {
		newkeys = []string{}
	}
	out["newkeys"] = newkeys
	pubs := make([]crypto.PublicKey, len(want))
	for j, p := range want {
		pubs[j] = pubOf(p)
	}

	// the message and the session
	utf8, _ := in.M["utf8"].(bool)
	hdr := textproto.Header{}
	hdr.AddRaw([]byte("Subject: x19 probe\r\n"))
	hdr.AddRaw([]byte("Message-ID: <x19.1@probe.example>\r\n"))
	hdr.AddRaw([]byte("Date: Mon, 02 Jan 2006 15:04:05 -0700\r\n"))
	hdr.AddRaw([]byte("To: Rcpt <rcpt@dst.example>\r\n"))
	if in.X.FromHdr != "" {
		hdr.AddRaw([]byte("From: " + detok(in.X.FromHdr) + "\r\n"))
	}
	hdr.AddRaw([]byte("Received: from a.example by b.example;\r\n\tMon, 02 Jan 2006 15:04:05 -0700\r\n"))
	orig := rawFields(hdr)
	meta := &module.MsgMetadata{ID: fmt.Sprintf("x19-%d", r.ID)}
	meta.SMTPOpts.UTF8 = utf8
	meta.Conn = &module.ConnState{Hostname: "client.example.net", Proto: "ESMTPSA"}
	if in.X.AuthUser != "" {
		meta.Conn.AuthUser = detok(in.X.AuthUser)
	}
	mailFrom := detok(in.X.MailFrom)
	meta.OriginalFrom = mailFrom
	body := buffer.MemoryBuffer{Slice: []byte(bodyText)}
	ctx := context.Background()
	st, err := m.ModStateForMsg(ctx, meta)
	if err != nil {
		out["err"] = true
		out["errMsg"] = tok(err.Error())
		return
	}
	defer st.Close()
	got, err := st.RewriteSender(ctx, mailFrom)
	if err != nil || got != mailFrom {
		out["err"] = true
		out["errMsg"] = "RewriteSender changed or refused the sender"
		return
	}
	if rc, err := st.RewriteRcpt(ctx, "rcpt@dst.example"); err != nil || len(rc) != 1 || rc[0] != "rcpt@dst.example" {
		out["err"] = true
		out["errMsg"] = "RewriteRcpt changed or refused the recipient"
		return
	}
	if err := st.RewriteBody(ctx, &hdr, body); err != nil {
		out["err"] = true
		out["errMsg"] = tok(err.Error())
	}
	after := rawFields(hdr)
	// signature fields = what was put above the original fields
	nsig, rest := 0, after
	var sigVal string
	for _, f := range after {
		c := bytes.IndexByte(f, ':')
		if c > 0 && strings.EqualFold(string(f[:c]), "DKIM-Signature") {
			nsig++
		}
	}
	if nsig > 0 && len(after) >= nsig {
		rest = after[nsig:]
		c := bytes.IndexByte(after[0], ':')
		if c > 0 && strings.EqualFold(string(after[0][:c]), "DKIM-Signature") {
			sigVal = string(after[0][c+1:])
		}
	}
	intact := len(rest) == len(orig) && string(body.Slice) == bodyText
	if intact {
		for j := range rest {
			if !bytes.Equal(rest[j], orig[j]) {
				intact = false
			}
		}
	}
	out["intact"] = intact
	out["nsig"] = nsig
	if nsig >= 1 {
		tags := tagsOf(sigVal)
		out["d"] = tok(tags["d"])
		out["dascii"] = isASCII(tags["d"])
		out["auid"] = tok(tags["i"])
		out["s"] = tok(tags["s"])
		out["alg"] = tags["a"]
		cn := strings.SplitN(tags["c"], "/", 2)
		out["hc"] = cn[0]
		if len(cn) == 2 {
			out["bc"] = cn[1]
		} else {
			out["bc"] = "simple"
		}
		var msg bytes.Buffer
		for _, f := range after {
			msg.Write(f)
		}
		msg.WriteString("\r\n")
		msg.WriteString(bodyText)
		for j, pub := range pubs {
			if pub == nil {
				continue
			}
			if Verify(msg.Bytes(), pub) == nil {
				out["key"] = j + 1
				break
			}
		}
	}
}

func TestReplay(t *testing.T) {
	inp, outp := os.Getenv("VERIF_IN"), os.Getenv("VERIF_OUT")
	if inp == "" || outp == "" {
		t.Skip("VERIF_IN / VERIF_OUT not set")
	}
	f, err := os.Open(inp)
	if err != nil {
		t.Fatal(err)
	}
	defer f.Close()
	of, err := os.Create(outp)
	if err != nil {
		t.Fatal(err)
	}
	defer of.Close()
	w := bufio.NewWriter(of)
	defer w.Flush()
	root, err := os.MkdirTemp(os.Getenv("VERIF_TMP"), "x19")
	if err != nil {
		t.Fatal(err)
	}
	defer os.RemoveAll(root)
	sc := bufio.NewScanner(f)
	sc.Buffer(make([]byte, 1<<20), 1<<26)
	for sc.Scan() {
		var r Row
		if err := json.Unmarshal(sc.Bytes(), &r); err != nil {
			t.Fatalf("bad row: %v", err)
		}
		runRow(t, root, r, vtrace.New(w, r.ID))
		if os.Getenv("VERIF_SHOW") != "" {
			t.Logf("row %d done", r.ID)
		}
	}
}
