// Verbatim copy of harness/dkimcheck/indep.go (the independent DKIM verifier of C08): that package cannot be
// imported (its non-test files refer to types of its test files).  Only the package clause differs.
// Package dkimcheck: C08 harness. indep.go is a small DKIM verifier written from
// RFC 6376 for this harness (own canonicalisation; crypto from the standard library),
// independent of go-msgauth which maddy's signer and checker use.
package dkimselectcheck

import (
	"bytes"
	"crypto"
	"crypto/ed25519"
	"crypto/rsa"
	"crypto/sha256"
	"crypto/x509"
	"encoding/base64"
	"errors"
	"fmt"
	"strconv"
	"strings"
	"time"
)

type field struct {
	name string // as written
	raw  []byte // whole field incl. name, colon, value, folding, final CRLF
}

// splitMessage splits raw message bytes into header fields and body.
func splitMessage(msg []byte) ([]field, []byte, error) {
	var fields []field
	pos := 0
	for {
		if pos >= len(msg) {
			return fields, nil, nil // no body separator: empty body
		}
		if bytes.HasPrefix(msg[pos:], []byte("\r\n")) {
			return fields, msg[pos+2:], nil
		}
		// one field: up to CRLF not followed by WSP
		end := pos
		for {
			i := bytes.Index(msg[end:], []byte("\r\n"))
			if i < 0 {
				return nil, nil, errors.New("unterminated header field")
			}
			end += i + 2
			if end < len(msg) && (msg[end] == ' ' || msg[end] == '\t') {
				continue
			}
			break
		}
		raw := msg[pos:end]
		c := bytes.IndexByte(raw, ':')
		if c < 0 {
			return nil, nil, fmt.Errorf("header field without colon: %q", raw)
		}
		fields = append(fields, field{name: string(raw[:c]), raw: raw})
		pos = end
	}
}

func isWSP(b byte) bool { return b == ' ' || b == '\t' }

func canonHeaderField(canon string, raw []byte) []byte {
	if canon == "simple" {
		return raw
	}
	c := bytes.IndexByte(raw, ':')
	name := strings.ToLower(strings.TrimRight(string(raw[:c]), " \t"))
	val := raw[c+1:]
	// unfold
	val = bytes.ReplaceAll(val, []byte("\r\n"), nil)
	// compress WSP runs
	var out []byte
	inWS := false
	for _, b := range val {
		if isWSP(b) {
			inWS = true
			continue
		}
		if inWS && len(out) > 0 {
			out = append(out, ' ')
		}
		inWS = false
		out = append(out, b)
	}
	return []byte(name + ":" + string(out) + "\r\n")
}

func canonBody(canon string, body []byte) []byte {
	var lines [][]byte
	if len(body) > 0 {
		lines = bytes.Split(body, []byte("\r\n"))
		if len(lines[len(lines)-1]) == 0 {
			lines = lines[:len(lines)-1] // body ended with CRLF
		}
	}
	if canon == "relaxed" {
		for i, l := range lines {
			var out []byte
			inWS := false
			for _, b := range l {
				if isWSP(b) {
					inWS = true
					continue
				}
				if inWS {
					out = append(out, ' ')
				}
				inWS = false
				out = append(out, b)
			}
			lines[i] = out
		}
	}
	for len(lines) > 0 && len(lines[len(lines)-1]) == 0 {
		lines = lines[:len(lines)-1]
	}
	var buf bytes.Buffer
	for _, l := range lines {
		buf.Write(l)
		buf.WriteString("\r\n")
	}
	if canon == "simple" && buf.Len() == 0 {
		buf.WriteString("\r\n")
	}
	return buf.Bytes()
}

func parseTags(v string) map[string]string {
	tags := map[string]string{}
	for _, part := range strings.Split(v, ";") {
		kv := strings.SplitN(part, "=", 2)
		if len(kv) != 2 {
			continue
		}
		tags[strings.TrimSpace(kv[0])] = strings.TrimSpace(kv[1])
	}
	return tags
}

func stripWS(s string) string {
	return strings.Map(func(r rune) rune {
		if r == ' ' || r == '\t' || r == '\r' || r == '\n' {
			return -1
		}
		return r
	}, s)
}

// Verify checks the first DKIM-Signature of msg against pub. It returns nil iff the
// signature verifies (body hash and header signature).
func Verify(msg []byte, pub crypto.PublicKey) error {
	fields, body, err := splitMessage(msg)
	if err != nil {
		return err
	}
	sigIdx := -1
	for i, f := range fields {
		if strings.EqualFold(strings.TrimSpace(f.name), "DKIM-Signature") {
			sigIdx = i
			break
		}
	}
	if sigIdx < 0 {
		return errors.New("no DKIM-Signature field")
	}
	sigRaw := fields[sigIdx].raw
	c := bytes.IndexByte(sigRaw, ':')
	tags := parseTags(string(sigRaw[c+1:]))
	hc, bc := "simple", "simple"
	if cv := tags["c"]; cv != "" {
		p := strings.SplitN(cv, "/", 2)
		hc = p[0]
		if len(p) == 2 {
			bc = p[1]
		}
	}
	if tags["l"] != "" {
		return errors.New("l= not supported by this verifier")
	}
	// x= (RFC 6376 3.5): a signature that has expired when it arrives, or expires before it was made, fails
	if x := stripWS(tags["x"]); x != "" {
		xv, err := strconv.ParseInt(x, 10, 64)
		if err != nil {
			return fmt.Errorf("x: %w", err)
		}
		if time.Now().Unix() > xv {
			return errors.New("signature has expired (x=)")
		}
		if t := stripWS(tags["t"]); t != "" {
			if tv, err := strconv.ParseInt(t, 10, 64); err == nil && xv <= tv {
				return errors.New("x= is not later than t=")
			}
		}
	}
	// body hash
	bh := sha256.Sum256(canonBody(bc, body))
	want, err := base64.StdEncoding.DecodeString(stripWS(tags["bh"]))
	if err != nil {
		return fmt.Errorf("bh: %w", err)
	}
	if !bytes.Equal(bh[:], want) {
		return errors.New("body hash mismatch")
	}
	// header hash input: fields named in h=, selected bottom-up, each instance once
	used := make([]bool, len(fields))
	var data bytes.Buffer
	for _, name := range strings.Split(tags["h"], ":") {
		name = strings.TrimSpace(name)
		for i := len(fields) - 1; i >= 0; i-- {
			if used[i] || i == sigIdx {
				continue
			}
			if strings.EqualFold(strings.TrimSpace(fields[i].name), name) {
				used[i] = true
				data.Write(canonHeaderField(hc, fields[i].raw))
				break
			}
		}
		// no (further) instance: the null string is hashed, i.e. nothing
	}
	// the signature field itself with b= emptied, without its final CRLF
	sigField := removeBValue(sigRaw)
	cs := canonHeaderField(hc, sigField)
	cs = bytes.TrimSuffix(cs, []byte("\r\n"))
	data.Write(cs)
	sig, err := base64.StdEncoding.DecodeString(stripWS(tags["b"]))
	if err != nil {
		return fmt.Errorf("b: %w", err)
	}
	digest := sha256.Sum256(data.Bytes())
	switch k := pub.(type) {
	case *rsa.PublicKey:
		if tags["a"] != "rsa-sha256" {
			return fmt.Errorf("a=%s with an RSA key", tags["a"])
		}
		return rsa.VerifyPKCS1v15(k, crypto.SHA256, digest[:], sig)
	case ed25519.PublicKey:
		if tags["a"] != "ed25519-sha256" {
			return fmt.Errorf("a=%s with an Ed25519 key", tags["a"])
		}
		if !ed25519.Verify(k, digest[:], sig) {
			return errors.New("ed25519 signature mismatch")
		}
		return nil
	}
	return errors.New("unsupported key type")
}

// removeBValue empties the value of the b= tag (not bh=) in a DKIM-Signature field.
func removeBValue(raw []byte) []byte {
	s := string(raw)
	c := strings.IndexByte(s, ':')
	val := s[c+1:]
	pos := 0
	for {
		i := strings.Index(val[pos:], "b")
		if i < 0 {
			return raw
		}
		i += pos
		// tag name must be exactly "b": preceded by start or ';' (+FWS), followed by FWS* '='
		j := i - 1
		for j >= 0 && (val[j] == ' ' || val[j] == '\t' || val[j] == '\r' || val[j] == '\n') {
			j--
		}
		k := i + 1
		for k < len(val) && (val[k] == ' ' || val[k] == '\t' || val[k] == '\r' || val[k] == '\n') {
			k++
		}
		if (j < 0 || val[j] == ';') && k < len(val) && val[k] == '=' {
			end := strings.IndexByte(val[k:], ';')
			if end < 0 {
				// last tag: keep the trailing CRLF of the field
				rest := strings.TrimRight(val[k+1:], "\r\n")
				_ = rest
				tail := ""
				if strings.HasSuffix(val, "\r\n") {
					tail = "\r\n"
				}
				return []byte(s[:c+1] + val[:k+1] + tail)
			}
			return []byte(s[:c+1] + val[:k+1] + val[k+end:])
		}
		pos = i + 1
	}
}

// VerifyZone checks the first DKIM-Signature of msg the way a next hop does: the key comes from
// the TXT record the zone publishes at <s=>._domainkey.<d=>. It returns the d= value.
func VerifyZone(msg []byte, lookup func(name string) (string, bool)) (string, error) {
	fields, _, err := splitMessage(msg)
	if err != nil {
		return "", err
	}
	for _, f := range fields {
		if !strings.EqualFold(strings.TrimSpace(f.name), "DKIM-Signature") {
			continue
		}
		c := bytes.IndexByte(f.raw, ':')
		tags := parseTags(string(f.raw[c+1:]))
		d, s := stripWS(tags["d"]), stripWS(tags["s"])
		txt, ok := lookup(s + "._domainkey." + d)
		if !ok {
			return d, errors.New("no key record for " + s + "._domainkey." + d)
		}
		pub, err := parseKeyRecord(txt)
		if err != nil {
			return d, err
		}
		return d, Verify(msg, pub)
	}
	return "", errors.New("no DKIM-Signature field")
}

// parseKeyRecord: RFC 6376 3.6.1, only what maddy publishes (v, k, p).
func parseKeyRecord(txt string) (crypto.PublicKey, error) {
	tags := parseTags(txt)
	if v, ok := tags["v"]; ok && v != "DKIM1" {
		return nil, errors.New("key record: bad version")
	}
	blob, err := base64.StdEncoding.DecodeString(stripWS(tags["p"]))
	if err != nil {
		return nil, fmt.Errorf("key record: p: %w", err)
	}
	switch tags["k"] {
	case "", "rsa":
		k, err := x509.ParsePKIXPublicKey(blob)
		if err != nil {
			return nil, fmt.Errorf("key record: %w", err)
		}
		rk, ok := k.(*rsa.PublicKey)
		if !ok {
			return nil, errors.New("key record: not an RSA key")
		}
		return rk, nil
	case "ed25519":
		if len(blob) != ed25519.PublicKeySize {
			return nil, errors.New("key record: bad Ed25519 key length")
		}
		return ed25519.PublicKey(blob), nil
	}
	return nil, errors.New("key record: unknown k=" + tags["k"])
}
