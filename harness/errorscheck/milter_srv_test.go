package errorscheck

import (
	"context"
	"encoding/binary"
	"encoding/json"
	"fmt"
	"io"
	"net"
	"os"
	"path/filepath"

	"github.com/emersion/go-smtp"
	"github.com/foxcpp/maddy/framework/exterrors"
	"github.com/foxcpp/maddy/framework/module"
	endpsmtp "github.com/foxcpp/maddy/internal/endpoint/smtp"
)

// A scripted milter that speaks the wire protocol itself (4-byte length, command
// byte, payload), so that it can answer a stage with any SMFIR_REPLYCODE - also
// codes libmilter would refuse to send. Modelled on the raw server of
// harness/extscancheck, reduced to what the C16 rows need.

type wireMilter struct {
	ln    net.Listener
	stage byte   // 'M' (MAIL FROM) or 'E' (end of body)
	reply string // "xyz text"
}

func milterReadPkt(c net.Conn) (byte, []byte, error) {
	var l uint32
	if err := binary.Read(c, binary.BigEndian, &l); err != nil {
		return 0, nil, err
	}
	if l == 0 || l > 1<<20 {
		return 0, nil, fmt.Errorf("bad packet length %d", l)
	}
	d := make([]byte, l)
	if _, err := io.ReadFull(c, d); err != nil {
		return 0, nil, err
	}
	return d[0], d[1:], nil
}

func milterWritePkt(c net.Conn, code byte, data []byte) error {
	b := make([]byte, 4, 5+len(data))
	binary.BigEndian.PutUint32(b, uint32(len(data)+1))
	b = append(b, code)
	b = append(b, data...)
	_, err := c.Write(b)
	return err
}

func (m *wireMilter) serve() {
	for {
		c, err := m.ln.Accept()
		if err != nil {
			return
		}
		go m.handle(c)
	}
}

func (m *wireMilter) handle(c net.Conn) {
	defer c.Close()
	for {
		code, _, err := milterReadPkt(c)
		if err != nil {
			return
		}
		switch code {
		case 'O': // option negotiation: version 6, every action, no protocol restriction
			d := make([]byte, 12)
			binary.BigEndian.PutUint32(d, 6)
			binary.BigEndian.PutUint32(d[4:], 0x1ff)
			binary.BigEndian.PutUint32(d[8:], 0)
			err = milterWritePkt(c, 'O', d)
		case 'D', 'A': // macros, abort: no reply
		case 'Q':
			return
		case 'C', 'H', 'M', 'R', 'L', 'N', 'B', 'E':
			if code == m.stage {
				err = milterWritePkt(c, 'y', append([]byte(m.reply), 0))
			} else {
				err = milterWritePkt(c, 'c', nil)
			}
		default:
			err = milterWritePkt(c, 'c', nil)
		}
		if err != nil {
			return
		}
	}
}

// compMilterWire: the real check.milter inside a real message pipeline, talking to
// the scripted milter over a unix socket; the reply is recorded as it reaches the
// client (through the endpoint's conversion).
func compMilterWire(c CompCase) ([]compOut, error) {
	var in struct {
		Code  int    `json:"code"`
		Fo    bool   `json:"fo"`
		Enh   string `json:"enh"`
		Stage string `json:"stage"`
	}
	if err := json.Unmarshal(c.In, &in); err != nil {
		return nil, err
	}
	text := "go away"
	switch in.Enh {
	case "none":
	case "same":
		text = fmt.Sprintf("%d.7.1 go away", in.Code/100%10)
	case "other": // an enhanced code of another class than the basic code
		other := 5
		if in.Code/100 == 5 {
			other = 4
		}
		text = fmt.Sprintf("%d.7.1 go away", other)
	default:
		return nil, fmt.Errorf("unknown enh %q", in.Enh)
	}
	stage := map[string]byte{"mail": 'M', "eob": 'E'}[in.Stage]
	if stage == 0 {
		return nil, fmt.Errorf("unknown stage %q", in.Stage)
	}
	sock := filepath.Join(workDir(), fmt.Sprintf("m%d.sock", c.ID))
	os.Remove(sock)
	ln, err := net.Listen("unix", sock)
	if err != nil {
		return nil, err
	}
	defer os.Remove(sock)
	defer ln.Close()
	m := &wireMilter{ln: ln, stage: stage, reply: fmt.Sprintf("%03d %s", in.Code, text)}
	go m.serve()

	fo := "no"
	if in.Fo {
		fo = "yes"
	}
	p, err := pipelineOf(fmt.Sprintf("check {\n    milter unix://%s {\n        fail_open %s\n    }\n}\ndeliver_to &verif_c16_sink\n", sock, fo))
	if err != nil {
		return nil, err
	}
	ctx := context.Background()
	meta := &module.MsgMetadata{ID: fmt.Sprintf("c16mw%d", c.ID), DontTraceSender: true, OriginalFrom: "bounce@example.org",
		Conn: &module.ConnState{Proto: "ESMTP", Hostname: "client.example.org",
			RemoteAddr: &net.TCPAddr{IP: net.IPv4(192, 0, 2, 1), Port: 2525}},
		SMTPOpts: smtp.MailOptions{}}
	derr := deliverMeta(p, ctx, meta, header("example.org"))
	if derr == nil {
		return []compOut{outOf(nil)}, nil
	}
	o := outOf(derr)
	o.Temp = exterrors.IsTemporary(derr)
	// what the client is told
	if r, ok := endpsmtp.VerifWrapErr("", true, "DATA", derr).(*smtp.SMTPError); ok {
		o.Code, o.Enh, o.Msg = r.Code, [3]int(r.EnhancedCode), CPs(r.Message)
	}
	return []compOut{o}, nil
}
