package errorscheck

import (
	"bufio"
	"encoding/json"
	"fmt"
	"os"
	"strings"
	"sync"
	"testing"

	"github.com/foxcpp/maddy/framework/config"
	"github.com/foxcpp/maddy/framework/log"
	smtpendp "github.com/foxcpp/maddy/internal/endpoint/smtp"
	_ "github.com/foxcpp/maddy/internal/table"
	"github.com/foxcpp/maddy/verifharness/authkit"
	"github.com/foxcpp/maddy/verifharness/vtrace"
)

// Rows "Auth" of ErrorsTrace.tla: the reply of the real submission endpoint
// (go-smtp + internal/auth SASL front-end) to a SASL exchange whose
// authentication provider fails with the error built from a term.
// Input line: {"id":N,"in":{"mech":"PLAIN|LOGIN","term":[layers]}}.

type AuthCase struct {
	ID  int             `json:"id"`
	Raw json.RawMessage `json:"in"`
	In  struct {
		Mech string  `json:"mech"`
		Term []Layer `json:"term"`
	} `json:"-"`
}

// failingAuth is a module.PlainAuth whose answer for a user is scripted.
type failingAuth struct {
	mu   sync.Mutex
	errs map[string]error
}

func (a *failingAuth) Name() string             { return "auth.verif_c16" }
func (a *failingAuth) InstanceName() string     { return "c16auth" }
func (a *failingAuth) Init(_ *config.Map) error { return nil }
func (a *failingAuth) AuthPlain(username, _ string) error {
	a.mu.Lock()
	defer a.mu.Unlock()
	if e, ok := a.errs[username]; ok {
		return e
	}
	return fmt.Errorf("unknown user")
}

func TestAuth(t *testing.T) {
	in, out := os.Getenv("VERIF_IN"), os.Getenv("VERIF_OUT")
	if in == "" || out == "" {
		t.Skip("VERIF_IN / VERIF_OUT not set")
	}
	f, err := os.Open(in)
	if err != nil {
		t.Fatal(err)
	}
	defer f.Close()
	of, err := os.Create(out)
	if err != nil {
		t.Fatal(err)
	}
	defer of.Close()
	w := bufio.NewWriter(of)
	defer w.Flush()

	prov := &failingAuth{errs: map[string]error{}}
	authkit.RegisterReady(prov)
	text := "hostname mx.example.org\ntls off\nauth &c16auth\nsasl_login yes\nbuffer ram\ndeliver_to dummy\n"
	nodes, err := authkit.Nodes(text)
	if err != nil {
		t.Fatal(err)
	}
	em, err := smtpendp.New("submission", nil)
	if err != nil {
		t.Fatal(err)
	}
	endp := em.(*smtpendp.Endpoint)
	endp.Log = log.Logger{Out: log.NopOutput{}}
	if err := endp.Init(config.NewMap(nil, config.Node{Children: nodes})); err != nil {
		t.Fatalf("endpoint init: %v", err)
	}
	endp.VerifAuthSASL().Log = log.Logger{Out: log.NopOutput{}}
	ln := authkit.NewPipeListener()
	go endp.VerifAuthServe(ln)
	defer func() { ln.Close(); endp.Close() }()

	sc := bufio.NewScanner(f)
	n := 0
	for sc.Scan() {
		var c AuthCase
		if err := json.Unmarshal(sc.Bytes(), &c); err != nil {
			t.Fatalf("bad case line: %v", err)
		}
		if err := json.Unmarshal(c.Raw, &c.In); err != nil {
			t.Fatalf("case %d: %v", c.ID, err)
		}
		e, err := Build(c.In.Term)
		if err != nil {
			t.Fatalf("case %d: %v", c.ID, err)
		}
		user := fmt.Sprintf("user%d", c.ID)
		prov.mu.Lock()
		prov.errs[user] = e
		prov.mu.Unlock()

		conn, err := ln.Dial()
		if err != nil {
			t.Fatal(err)
		}
		cl := authkit.NewClient(conn)
		if r, err := cl.ReadReply(); err != nil || r.Code != 220 {
			t.Fatalf("greeting: %v %v", r, err)
		}
		if r, err := cl.Cmd("EHLO client.example.org"); err != nil || r.Code != 250 {
			t.Fatalf("EHLO: %v %v", r, err)
		}
		var r authkit.Reply
		switch c.In.Mech {
		case "PLAIN":
			r, err = cl.AuthPlain("", user, "secret", c.ID%2 == 0)
		case "LOGIN":
			r, err = cl.AuthLogin(user, "secret", c.ID%2 == 0)
		default:
			t.Fatalf("case %d: mechanism %q", c.ID, c.In.Mech)
		}
		if err != nil {
			t.Fatalf("case %d: AUTH: %v", c.ID, err)
		}
		cl.Close()
		enh := [3]int{0, 0, 0}
		msg := r.Text
		if f := strings.SplitN(r.Text, " ", 2); len(f) >= 1 {
			if e3, ok := parseEnh(f[0]); ok {
				enh = e3
				msg = ""
				if len(f) == 2 {
					msg = f[1]
				}
			}
		}
		vtrace.New(w, c.ID).Emit("Auth", vtrace.Ev{"in": c.Raw,
			"out": map[string]interface{}{"code": r.Code, "enh": enh, "msg": CPs(msg), "text": esc(r.Text)}})
		n++
	}
	t.Logf("%d SASL exchanges", n)
}
