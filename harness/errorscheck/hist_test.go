package errorscheck

import (
	"bufio"
	"context"
	"encoding/json"
	"os"
	"strconv"
	"strings"
	"testing"
	"testing/synctest"
	"time"

	"github.com/emersion/go-message/textproto"
	"github.com/emersion/go-smtp"
	"github.com/foxcpp/maddy/framework/buffer"
	"github.com/foxcpp/maddy/framework/log"
	"github.com/foxcpp/maddy/framework/module"
	"github.com/foxcpp/maddy/internal/target/queue"
	"github.com/foxcpp/maddy/verifharness/scripted"
	"github.com/foxcpp/maddy/verifharness/vtrace"
)

// Rows "Hist" of ErrorsTrace.tla: one recipient failing over several delivery
// attempts of the real queue. Input line: {"id":N,"in":{"mt":M,"seq":[term,...]}}
// (a member of HistSpace of Errors.tla); attempt i of the recipient fails with
// the error built from seq[i].

type HistCase struct {
	ID  int             `json:"id"`
	Raw json.RawMessage `json:"in"`
	In  struct {
		Mt  int       `json:"mt"`
		Seq [][]Layer `json:"seq"`
	} `json:"-"`
}

// seqTarget fails AddRcpt for a recipient with the error of its current attempt.
type seqTarget struct {
	errs  map[string][]error
	calls map[string]int
}

type seqDelivery struct{ t *seqTarget }

func (t *seqTarget) Start(context.Context, *module.MsgMetadata, string) (module.Delivery, error) {
	return &seqDelivery{t}, nil
}
func (d *seqDelivery) AddRcpt(_ context.Context, rcpt string, _ smtp.RcptOptions) error {
	n := d.t.calls[rcpt]
	d.t.calls[rcpt]++
	es := d.t.errs[rcpt]
	if n >= len(es) {
		n = len(es) - 1
	}
	return es[n]
}
func (d *seqDelivery) Body(context.Context, textproto.Header, buffer.Buffer) error { return nil }
func (d *seqDelivery) Abort(context.Context) error                                 { return nil }
func (d *seqDelivery) Commit(context.Context) error                                { return nil }

type histOut struct {
	Attempts int    `json:"attempts"`
	Dsn      bool   `json:"dsn"`
	DCode    int    `json:"dcode"`
	DEnh     [3]int `json:"denh"`
	Status   [3]int `json:"status"`
	Raw      string `json:"raw,omitempty"`
}

// runHistories gives all histories with the same max_tries to one real queue as
// one message with one recipient per history.
func runHistories(t *testing.T, mt int, batch []HistCase) map[int]histOut {
	res := map[int]histOut{}
	dir, err := os.MkdirTemp(workDir(), "spool")
	if err != nil {
		t.Fatal(err)
	}
	defer os.RemoveAll(dir)
	synctest.Test(t, func(t *testing.T) {
		tgt := &seqTarget{errs: map[string][]error{}, calls: map[string]int{}}
		addr := func(id int) string { return "h" + strconv.Itoa(id) + "@example.org" }
		for _, c := range batch {
			for _, term := range c.In.Seq {
				e, err := Build(term)
				if err != nil {
					t.Fatal(err)
				}
				tgt.errs[addr(c.ID)] = append(tgt.errs[addr(c.ID)], e)
			}
		}
		tr := vtrace.New(nil, 0)
		tr.Keep = true
		q, err := queue.VerifNewQueue(queue.VerifConfig{
			Location: dir, Target: tgt, Bounce: &scripted.Bounce{Tr: tr}, MaxTries: mt, MaxParallelism: 1,
			InitialRetryTime: retryDelay, RetryTimeScale: 1, PostInitDelay: 0,
			Hostname: "mx.example.org", AutogenMsgDomain: "example.org",
			Log: log.Logger{Out: log.NopOutput{}},
		})
		if err != nil {
			t.Fatal(err)
		}
		ctx := context.Background()
		from := "sender@example.com"
		meta := &module.MsgMetadata{ID: "hist" + strconv.Itoa(mt), OriginalFrom: from,
			SMTPOpts: smtp.MailOptions{UTF8: true}}
		d, err := q.Start(ctx, meta, from)
		if err != nil {
			t.Fatal(err)
		}
		for _, c := range batch {
			if err := d.AddRcpt(ctx, addr(c.ID), smtp.RcptOptions{}); err != nil {
				t.Fatal(err)
			}
		}
		hdr := textproto.Header{}
		hdr.Add("Subject", "verif")
		hdr.Add("From", "<sender@example.com>")
		if err := d.Body(ctx, hdr, buffer.MemoryBuffer{Slice: []byte("hello\r\n")}); err != nil {
			t.Fatal(err)
		}
		if err := d.Commit(ctx); err != nil {
			t.Fatal(err)
		}
		for i := 0; i < 3*mt+3; i++ {
			synctest.Wait()
			ents, _ := os.ReadDir(dir)
			if len(ents) == 0 {
				break
			}
			time.Sleep(2 * retryDelay)
		}
		synctest.Wait()
		q.Close()

		status := map[string]string{}
		diag := map[string]string{}
		for _, ev := range tr.Evs {
			if ev["e"] != "DBody" {
				continue
			}
			if m, ok := ev["status"].(map[string]string); ok {
				for k, v := range m {
					status[k] = v
				}
			}
			if m, ok := ev["diag"].(map[string]string); ok {
				for k, v := range m {
					diag[k] = v
				}
			}
		}
		for _, c := range batch {
			o := histOut{Attempts: tgt.calls[addr(c.ID)]}
			if st, ok := status[addr(c.ID)]; ok {
				o.Dsn = true
				o.Status, _ = parseEnh(st)
				f := strings.Fields(strings.TrimPrefix(strings.TrimSpace(diag[addr(c.ID)]), "smtp;"))
				okp := false
				if len(f) >= 2 {
					if v, err := strconv.Atoi(f[0]); err == nil {
						o.DCode = v
						o.DEnh, okp = parseEnh(f[1])
					}
				}
				if !okp {
					o.Raw = diag[addr(c.ID)]
				}
			}
			res[c.ID] = o
		}
	})
	return res
}

func TestHist(t *testing.T) {
	in, out := os.Getenv("VERIF_IN"), os.Getenv("VERIF_OUT")
	if in == "" || out == "" {
		t.Skip("VERIF_IN / VERIF_OUT not set")
	}
	f, err := os.Open(in)
	if err != nil {
		t.Fatal(err)
	}
	defer f.Close()
	of, err := os.Create(out)
	if err != nil {
		t.Fatal(err)
	}
	defer of.Close()
	w := bufio.NewWriter(of)
	defer w.Flush()
	sc := bufio.NewScanner(f)
	sc.Buffer(make([]byte, 1<<20), 1<<26)
	byMt := map[int][]HistCase{}
	var all []HistCase
	for sc.Scan() {
		var c HistCase
		if err := json.Unmarshal(sc.Bytes(), &c); err != nil {
			t.Fatalf("bad case line: %v", err)
		}
		if err := json.Unmarshal(c.Raw, &c.In); err != nil {
			t.Fatalf("case %d: %v", c.ID, err)
		}
		if c.In.Mt < 1 || len(c.In.Seq) != c.In.Mt {
			t.Fatalf("case %d: bad history", c.ID)
		}
		byMt[c.In.Mt] = append(byMt[c.In.Mt], c)
		all = append(all, c)
	}
	outs := map[int]histOut{}
	for mt, batch := range byMt {
		for id, o := range runHistories(t, mt, batch) {
			outs[id] = o
		}
	}
	for _, c := range all {
		vtrace.New(w, c.ID).Emit("Hist", vtrace.Ev{"in": c.Raw, "out": outs[c.ID]})
	}
	t.Logf("%d histories through the real queue", len(all))
}
