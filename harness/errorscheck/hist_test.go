package errorscheck

import (
	"bufio"
	"context"
	"encoding/json"
	"os"
	"strconv"
	"strings"
	"testing"
	"testing/synctest"
	"time"

	"github.com/emersion/go-message/textproto"
	"github.com/emersion/go-smtp"
	"github.com/foxcpp/maddy/framework/buffer"
	"github.com/foxcpp/maddy/framework/log"
	"github.com/foxcpp/maddy/framework/module"
	"github.com/foxcpp/maddy/internal/target/queue"
	"github.com/foxcpp/maddy/verifharness/scripted"
	"github.com/foxcpp/maddy/verifharness/vtrace"
)

// Rows "Hist" of ErrorsTrace.tla: one recipient failing over several delivery
// attempts of the real queue. Input line:
// {"id":N,"in":{"mt":M,"seq":[term,...],"pt":P,"rs":B}} (a member of HistSpace of
// Errors.tla); attempt i of the recipient fails with the error built from seq[i].
// pt is where the target fails: "rcpt" (AddRcpt), "status" (per-recipient status of
// a non-atomic body, module.PartialDelivery), "start", "body", "commit" (the whole
// message); rs: the queue is closed and started again on the same spool between
// the attempts. pt and rs are data dimensions of the replay: the rule and the
// predicates of Errors.tla are the same for every value (see HistSpace).

type HistCase struct {
	ID  int             `json:"id"`
	Raw json.RawMessage `json:"in"`
	In  struct {
		Mt  int       `json:"mt"`
		Seq [][]Layer `json:"seq"`
		Pt  string    `json:"pt"`
		Rs  bool      `json:"rs"`
	} `json:"-"`
}

type histGroup struct {
	Mt int
	Pt string
	Rs bool
}

// seqTarget fails a recipient (points rcpt, status: key = recipient) or a whole
// message (points start, body, commit: key = envelope sender) with the error of
// its current attempt.
type seqTarget struct {
	pt    string
	errs  map[string][]error
	calls map[string]int
}

func (t *seqTarget) cur(key string) error {
	es := t.errs[key]
	if len(es) == 0 {
		return nil
	}
	n := t.calls[key] - 1
	if n < 0 {
		n = 0
	}
	if n >= len(es) {
		n = len(es) - 1
	}
	return es[n]
}

type seqDelivery struct {
	t     *seqTarget
	from  string
	rcpts []string
}

// seqPartDelivery additionally implements module.PartialDelivery (point "status").
type seqPartDelivery struct{ *seqDelivery }

func (t *seqTarget) Start(_ context.Context, _ *module.MsgMetadata, from string) (module.Delivery, error) {
	d := &seqDelivery{t: t, from: from}
	switch t.pt {
	case "start":
		t.calls[from]++
		return nil, t.cur(from)
	case "body", "commit":
		t.calls[from]++
	case "status":
		return seqPartDelivery{d}, nil
	}
	return d, nil
}
func (d *seqDelivery) AddRcpt(_ context.Context, rcpt string, _ smtp.RcptOptions) error {
	switch d.t.pt {
	case "rcpt":
		d.t.calls[rcpt]++
		return d.t.cur(rcpt)
	case "status":
		d.t.calls[rcpt]++
		d.rcpts = append(d.rcpts, rcpt)
	}
	return nil
}
func (d *seqDelivery) Body(context.Context, textproto.Header, buffer.Buffer) error {
	if d.t.pt == "body" {
		return d.t.cur(d.from)
	}
	return nil
}
func (d *seqDelivery) Abort(context.Context) error { return nil }
func (d *seqDelivery) Commit(context.Context) error {
	if d.t.pt == "commit" {
		return d.t.cur(d.from)
	}
	return nil
}
func (d seqPartDelivery) BodyNonAtomic(_ context.Context, sc module.StatusCollector, _ textproto.Header, _ buffer.Buffer) {
	for _, r := range d.rcpts {
		sc.SetStatus(r, d.t.cur(r))
	}
}

type histOut struct {
	Attempts int    `json:"attempts"`
	Dsn      bool   `json:"dsn"`
	DCode    int    `json:"dcode"`
	DEnh     [3]int `json:"denh"`
	Status   [3]int `json:"status"`
	Raw      string `json:"raw,omitempty"`
}

// runHistories runs all histories of one group (same max_tries, failure point,
// restart flag) on one real queue: per-recipient points as one message with one
// recipient per history (the recipients share the message's meta-data), message
// level points as one message per history.
func runHistories(t *testing.T, g histGroup, batch []HistCase) map[int]histOut {
	res := map[int]histOut{}
	mt := g.Mt
	dir, err := os.MkdirTemp(workDir(), "spool")
	if err != nil {
		t.Fatal(err)
	}
	defer os.RemoveAll(dir)
	perMsg := g.Pt == "start" || g.Pt == "body" || g.Pt == "commit"
	synctest.Test(t, func(t *testing.T) {
		tgt := &seqTarget{pt: g.Pt, errs: map[string][]error{}, calls: map[string]int{}}
		addr := func(id int) string { return "h" + strconv.Itoa(id) + "@example.org" }
		sender := func(id int) string {
			if perMsg {
				return "s" + strconv.Itoa(id) + "@example.com"
			}
			return "sender@example.com"
		}
		key := func(id int) string {
			if perMsg {
				return sender(id)
			}
			return addr(id)
		}
		for _, c := range batch {
			for _, term := range c.In.Seq {
				e, err := Build(term)
				if err != nil {
					t.Fatal(err)
				}
				tgt.errs[key(c.ID)] = append(tgt.errs[key(c.ID)], e)
			}
		}
		tr := vtrace.New(nil, 0)
		tr.Keep = true
		open := func() *queue.Queue {
			q, err := queue.VerifNewQueue(queue.VerifConfig{
				Location: dir, Target: tgt, Bounce: &scripted.Bounce{Tr: tr}, MaxTries: mt, MaxParallelism: 1,
				InitialRetryTime: retryDelay, RetryTimeScale: 1, PostInitDelay: 0,
				Hostname: "mx.example.org", AutogenMsgDomain: "example.org",
				Log: log.Logger{Out: log.NopOutput{}},
			})
			if err != nil {
				t.Fatal(err)
			}
			return q
		}
		q := open()
		ctx := context.Background()
		submit := func(msgID, from string, cs []HistCase) {
			meta := &module.MsgMetadata{ID: msgID, OriginalFrom: from, SMTPOpts: smtp.MailOptions{UTF8: true}}
			d, err := q.Start(ctx, meta, from)
			if err != nil {
				t.Fatal(err)
			}
			for _, c := range cs {
				if err := d.AddRcpt(ctx, addr(c.ID), smtp.RcptOptions{}); err != nil {
					t.Fatal(err)
				}
			}
			if !perMsg {
				// a recipient the target accepts (no history, no row): the first attempt of the
				// shared message is a partial failure that goes on to Commit, not an Abort
				if err := d.AddRcpt(ctx, "ok@example.org", smtp.RcptOptions{}); err != nil {
					t.Fatal(err)
				}
			}
			hdr := textproto.Header{}
			hdr.Add("Subject", "verif")
			hdr.Add("From", "<"+from+">")
			if err := d.Body(ctx, hdr, buffer.MemoryBuffer{Slice: []byte("hello\r\n")}); err != nil {
				t.Fatal(err)
			}
			if err := d.Commit(ctx); err != nil {
				t.Fatal(err)
			}
		}
		if perMsg {
			for _, c := range batch {
				submit("hist"+strconv.Itoa(c.ID), sender(c.ID), []HistCase{c})
				synctest.Wait()
			}
		} else {
			submit("hist"+strconv.Itoa(mt)+g.Pt, sender(0), batch)
		}
		for i := 0; i < 3*mt+3; i++ {
			synctest.Wait()
			ents, _ := os.ReadDir(dir)
			if len(ents) == 0 {
				break
			}
			if g.Rs {
				// nothing is in flight (synctest.Wait): an orderly shut-down, then a new queue
				// object on the same spool reads the stored meta-data back
				q.Close()
				q = open()
				synctest.Wait()
			}
			time.Sleep(2 * retryDelay)
		}
		synctest.Wait()
		q.Close()

		status := map[string]string{}
		diag := map[string]string{}
		for _, ev := range tr.Evs {
			if ev["e"] != "DBody" {
				continue
			}
			if m, ok := ev["status"].(map[string]string); ok {
				for k, v := range m {
					status[k] = v
				}
			}
			if m, ok := ev["diag"].(map[string]string); ok {
				for k, v := range m {
					diag[k] = v
				}
			}
		}
		for _, c := range batch {
			o := histOut{Attempts: tgt.calls[key(c.ID)]}
			if st, ok := status[addr(c.ID)]; ok {
				o.Dsn = true
				o.Status, _ = parseEnh(st)
				f := strings.Fields(strings.TrimPrefix(strings.TrimSpace(diag[addr(c.ID)]), "smtp;"))
				okp := false
				if len(f) >= 2 {
					if v, err := strconv.Atoi(f[0]); err == nil {
						o.DCode = v
						o.DEnh, okp = parseEnh(f[1])
					}
				}
				if !okp {
					o.Raw = diag[addr(c.ID)]
				}
			}
			res[c.ID] = o
		}
	})
	return res
}

func TestHist(t *testing.T) {
	in, out := os.Getenv("VERIF_IN"), os.Getenv("VERIF_OUT")
	if in == "" || out == "" {
		t.Skip("VERIF_IN / VERIF_OUT not set")
	}
	f, err := os.Open(in)
	if err != nil {
		t.Fatal(err)
	}
	defer f.Close()
	of, err := os.Create(out)
	if err != nil {
		t.Fatal(err)
	}
	defer of.Close()
	w := bufio.NewWriter(of)
	defer w.Flush()
	sc := bufio.NewScanner(f)
	sc.Buffer(make([]byte, 1<<20), 1<<26)
	byMt := map[histGroup][]HistCase{}
	var all []HistCase
	for sc.Scan() {
		var c HistCase
		if err := json.Unmarshal(sc.Bytes(), &c); err != nil {
			t.Fatalf("bad case line: %v", err)
		}
		if err := json.Unmarshal(c.Raw, &c.In); err != nil {
			t.Fatalf("case %d: %v", c.ID, err)
		}
		if c.In.Mt < 1 || len(c.In.Seq) != c.In.Mt {
			t.Fatalf("case %d: bad history", c.ID)
		}
		if c.In.Pt == "" {
			c.In.Pt = "rcpt"
		}
		switch c.In.Pt {
		case "rcpt", "status", "start", "body", "commit":
		default:
			t.Fatalf("case %d: unknown failure point %q", c.ID, c.In.Pt)
		}
		g := histGroup{c.In.Mt, c.In.Pt, c.In.Rs}
		byMt[g] = append(byMt[g], c)
		all = append(all, c)
	}
	outs := map[int]histOut{}
	for g, batch := range byMt {
		for id, o := range runHistories(t, g, batch) {
			outs[id] = o
		}
	}
	for _, c := range all {
		vtrace.New(w, c.ID).Emit("Hist", vtrace.Ev{"in": c.Raw, "out": outs[c.ID]})
	}
	t.Logf("%d histories through the real queue", len(all))
}
