package errorscheck

import (
	"context"
	"encoding/json"
	"fmt"
	"net"
	"strings"
	"syscall"
	"time"

	"github.com/emersion/go-smtp"
	"github.com/foxcpp/go-mtasts"
	"github.com/foxcpp/maddy/framework/log"
	"github.com/foxcpp/maddy/framework/module"
	"github.com/foxcpp/maddy/internal/smtpconn/pool"
	"github.com/foxcpp/maddy/internal/target/remote"
)

// compRemoteNoMX: the real target.remote with the real MTA-STS policy (enforce,
// fetch injected) for a recipient domain whose MXs all fail: a "temp" MX is
// covered by the policy and refuses the connection, a "perm" MX is not covered
// by the policy. The error of AddRcpt is the "No usable MXs" reply.

type mxResolver struct{ hosts []string }

func (r mxResolver) LookupAddr(context.Context, string) ([]string, error) { return nil, errNotScripted }
func (r mxResolver) LookupHost(context.Context, string) ([]string, error) { return nil, errNotScripted }
func (r mxResolver) LookupTXT(context.Context, string) ([]string, error)  { return nil, errNotScripted }
func (r mxResolver) LookupIPAddr(context.Context, string) ([]net.IPAddr, error) {
	return nil, errNotScripted
}
func (r mxResolver) LookupMX(_ context.Context, name string) ([]*net.MX, error) {
	if strings.TrimSuffix(strings.ToLower(name), ".") != "rcpt.example.com" {
		return nil, &net.DNSError{Err: "no such host", Name: name, IsNotFound: true}
	}
	var out []*net.MX
	for i, h := range r.hosts {
		out = append(out, &net.MX{Host: h, Pref: uint16(10 * (i + 1))})
	}
	return out, nil
}

func compRemoteNoMX(c CompCase) ([]compOut, error) {
	var in struct {
		MX []string `json:"mx"`
	}
	if err := json.Unmarshal(c.In, &in); err != nil {
		return nil, err
	}
	var hosts []string
	for i, k := range in.MX {
		switch k {
		case "temp":
			hosts = append(hosts, fmt.Sprintf("mx%d.covered.example.net", i+1))
		case "perm":
			hosts = append(hosts, fmt.Sprintf("mx%d.elsewhere.example.org", i+1))
		default:
			return nil, fmt.Errorf("unknown MX failure %q", k)
		}
	}
	nolog := log.Logger{Out: log.NopOutput{}}
	sts := remote.VerifRemoteMTASTSPolicy(func(_ context.Context, d string) (*mtasts.Policy, error) {
		return &mtasts.Policy{Mode: mtasts.ModeEnforce, MX: []string{"*.covered.example.net"}, MaxAge: 3600}, nil
	}, nolog)
	rt := remote.VerifRemoteNewTarget(remote.VerifRemoteConfig{
		Hostname: "client.example.org",
		Resolver: mxResolver{hosts},
		Dialer: func(_ context.Context, network, addr string) (net.Conn, error) {
			return nil, &net.OpError{Op: "dial", Net: network, Err: syscall.ECONNREFUSED}
		},
		Policies: []module.MXAuthPolicy{sts},
		Pool: pool.Config{MaxKeys: 100, MaxConnsPerKey: 5, MaxConnLifetimeSec: 150,
			StaleKeyLifetimeSec: 300},
		ConnReuseLimit:    10,
		RelaxedREQUIRETLS: true,
		ConnectTimeout:    5 * time.Second,
		CommandTimeout:    5 * time.Second,
		SubmissionTimeout: 5 * time.Second,
		Log:               nolog,
	})
	defer rt.Close()
	ctx := context.Background()
	meta := &module.MsgMetadata{ID: fmt.Sprintf("c16mx%d", c.ID), OriginalFrom: "sender@example.org", SMTPOpts: smtp.MailOptions{}}
	d, err := rt.Start(ctx, meta, "sender@example.org")
	if err != nil {
		return nil, fmt.Errorf("remote Start: %v", err)
	}
	rerr := d.AddRcpt(ctx, "user@rcpt.example.com", smtp.RcptOptions{})
	_ = d.Abort(ctx)
	return []compOut{outOf(rerr)}, nil
}
