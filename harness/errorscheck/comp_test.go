package errorscheck

import (
	"bufio"
	"context"
	"encoding/json"
	"errors"
	"fmt"
	"net"
	"os"
	"strconv"
	"strings"
	"sync"
	"testing"

	"github.com/emersion/go-message/textproto"
	"github.com/emersion/go-msgauth/authres"
	"github.com/emersion/go-smtp"
	"github.com/foxcpp/maddy/framework/buffer"
	parser "github.com/foxcpp/maddy/framework/cfgparser"
	"github.com/foxcpp/maddy/framework/config"
	modconfig "github.com/foxcpp/maddy/framework/config/module"
	"github.com/foxcpp/maddy/framework/exterrors"
	"github.com/foxcpp/maddy/framework/log"
	"github.com/foxcpp/maddy/framework/module"
	"github.com/foxcpp/maddy/internal/check/milter"
	"github.com/foxcpp/maddy/internal/msgpipeline"
	"github.com/foxcpp/maddy/internal/smtpconn"
	"github.com/foxcpp/maddy/verifharness/vtrace"
)

// Replies whose codes are computed at run time (rows "Comp" of ErrorsTrace.tla).
// Input line: {"id":N,"site":"...","in":{...}} (a member of CompSpace of
// Errors.tla); every site is a real code path of maddy driven so that it fails.

type CompCase struct {
	ID   int             `json:"id"`
	Site string          `json:"site"`
	In   json.RawMessage `json:"in"`
}

type compOut struct {
	Failed bool   `json:"failed"`
	Code   int    `json:"code"`
	Enh    [3]int `json:"enh"`
	Temp   bool   `json:"temp"`
	Err    string `json:"err"` // diagnostic only
	Msg    []int  `json:"msg"`
}

func outOf(err error) compOut {
	o := compOut{Msg: []int{}}
	if err == nil {
		return o
	}
	o.Failed = true
	o.Err = esc(err.Error())
	o.Temp = exterrors.IsTemporary(err)
	var se *exterrors.SMTPError
	if errors.As(err, &se) {
		o.Code, o.Enh, o.Msg = se.Code, [3]int(se.EnhancedCode), CPs(se.Message)
	}
	return o
}

func esc(s string) string {
	q := strconv.QuoteToASCII(s)
	return q[1 : len(q)-1]
}

// ---- DMARC reject through the real message pipeline --------------------------

type dmarcKey struct{}

// dmarcEnv scripts the _dmarc TXT lookup of one message.
type dmarcEnv struct{ tempfail bool }

type dmarcResolver struct{}

var errNotScripted = errors.New("errorscheck: lookup not scripted")

func (dmarcResolver) LookupAddr(context.Context, string) ([]string, error) {
	return nil, errNotScripted
}
func (dmarcResolver) LookupHost(context.Context, string) ([]string, error) {
	return nil, errNotScripted
}
func (dmarcResolver) LookupMX(context.Context, string) ([]*net.MX, error) { return nil, errNotScripted }
func (dmarcResolver) LookupIPAddr(context.Context, string) ([]net.IPAddr, error) {
	return nil, errNotScripted
}
func (dmarcResolver) LookupTXT(ctx context.Context, name string) ([]string, error) {
	env, _ := ctx.Value(dmarcKey{}).(*dmarcEnv)
	if env == nil {
		return nil, errNotScripted
	}
	if !strings.HasPrefix(strings.ToLower(name), "_dmarc.") {
		return nil, &net.DNSError{Err: "no such host", Name: name, IsNotFound: true}
	}
	if env.tempfail {
		return nil, &net.DNSError{Err: "server misbehaving", Name: name, Server: "scripted", IsTemporary: true}
	}
	return []string{"v=DMARC1; p=reject"}, nil
}

type authCheck struct{ rows sync.Map }

func (c *authCheck) Init(*config.Map) error { return nil }
func (c *authCheck) Name() string           { return "verif_c16_check" }
func (c *authCheck) InstanceName() string   { return "verif_c16_check" }
func (c *authCheck) CheckStateForMsg(_ context.Context, m *module.MsgMetadata) (module.CheckState, error) {
	v, _ := c.rows.Load(m.ID)
	res, _ := v.([]authres.Result)
	return &authState{res}, nil
}

type authState struct{ res []authres.Result }

func (s *authState) CheckConnection(context.Context) module.CheckResult { return module.CheckResult{} }
func (s *authState) CheckSender(context.Context, string) module.CheckResult {
	return module.CheckResult{}
}
func (s *authState) CheckRcpt(context.Context, string) module.CheckResult {
	return module.CheckResult{}
}
func (s *authState) CheckBody(context.Context, textproto.Header, buffer.Buffer) module.CheckResult {
	return module.CheckResult{AuthResult: s.res}
}
func (s *authState) Close() error { return nil }

type sink struct{}

func (sink) Init(*config.Map) error { return nil }
func (sink) Name() string           { return "verif_c16_sink" }
func (sink) InstanceName() string   { return "verif_c16_sink" }
func (sink) Start(context.Context, *module.MsgMetadata, string) (module.Delivery, error) {
	return sinkDelivery{}, nil
}

type sinkDelivery struct{}

func (sinkDelivery) AddRcpt(context.Context, string, smtp.RcptOptions) error     { return nil }
func (sinkDelivery) Body(context.Context, textproto.Header, buffer.Buffer) error { return nil }
func (sinkDelivery) Abort(context.Context) error                                 { return nil }
func (sinkDelivery) Commit(context.Context) error                                { return nil }

var (
	worldOnce sync.Once
	theCheck  = &authCheck{}
)

func registerOnce() {
	worldOnce.Do(func() {
		module.Register("check.verif_c16", func(_, _ string, _, _ []string) (module.Module, error) {
			return theCheck, nil
		})
		module.RegisterInstance(sink{}, nil)
	})
}

func pipelineOf(cfg string) (*msgpipeline.MsgPipeline, error) {
	registerOnce()
	nodes, err := parser.Read(strings.NewReader(cfg), "verif-c16.conf")
	if err != nil {
		return nil, err
	}
	p, err := msgpipeline.New(map[string]interface{}{}, nodes)
	if err != nil {
		return nil, err
	}
	p.Resolver = dmarcResolver{}
	p.Hostname = "mx.verif.invalid"
	p.Log = log.Logger{Out: log.NopOutput{}}
	return p, nil
}

func header(from string) textproto.Header {
	h, err := textproto.ReadHeader(bufio.NewReader(strings.NewReader(
		"Subject: verif\r\nFrom: Author <author@" + from + ">\r\nTo: <rcpt@rcpt.invalid>\r\n\r\n")))
	if err != nil {
		panic(err)
	}
	return h
}

// deliver runs one message through the pipeline and returns the first error.
func deliver(p *msgpipeline.MsgPipeline, ctx context.Context, id string, hdr textproto.Header) error {
	return deliverMeta(p, ctx, &module.MsgMetadata{ID: id, DontTraceSender: true, OriginalFrom: "bounce@example.org"}, hdr)
}

func deliverMeta(p *msgpipeline.MsgPipeline, ctx context.Context, meta *module.MsgMetadata, hdr textproto.Header) error {
	d, err := p.Start(ctx, meta, meta.OriginalFrom)
	if err != nil {
		return err
	}
	if err := d.AddRcpt(ctx, "rcpt@rcpt.invalid", smtp.RcptOptions{}); err != nil {
		_ = d.Abort(ctx)
		return err
	}
	if err := d.Body(ctx, hdr, buffer.MemoryBuffer{Slice: []byte("hello\r\n")}); err != nil {
		_ = d.Abort(ctx)
		return err
	}
	return d.Commit(ctx)
}

func compDMARC(c CompCase) ([]compOut, error) {
	var in struct {
		Verdict string `json:"verdict"`
	}
	if err := json.Unmarshal(c.In, &in); err != nil {
		return nil, err
	}
	p, err := pipelineOf("dmarc yes\ncheck {\n    verif_c16\n}\ndeliver_to &verif_c16_sink\n")
	if err != nil {
		return nil, err
	}
	type scen struct {
		tempfail bool
		res      []authres.Result
	}
	var scens []scen
	spfFail := &authres.SPFResult{Value: authres.ResultFail, From: "other.example.net", Helo: "helo.invalid"}
	switch in.Verdict {
	case "fail": // p=reject, nothing aligned passes
		scens = []scen{{false, []authres.Result{spfFail,
			&authres.DKIMResult{Value: authres.ResultFail, Domain: "example.org"}}}}
	case "temperror": // the policy lookup fails temporarily / an aligned signature could not be evaluated
		scens = []scen{
			{true, []authres.Result{spfFail}},
			{false, []authres.Result{spfFail, &authres.DKIMResult{Value: authres.ResultTempError, Domain: "example.org"}}},
		}
	default:
		return nil, fmt.Errorf("unknown verdict %q", in.Verdict)
	}
	var outs []compOut
	for i, s := range scens {
		id := fmt.Sprintf("c16comp%d-%d", c.ID, i)
		theCheck.rows.Store(id, s.res)
		ctx := context.WithValue(context.Background(), dmarcKey{}, &dmarcEnv{tempfail: s.tempfail})
		outs = append(outs, outOf(deliver(p, ctx, id, header("example.org"))))
		theCheck.rows.Delete(id)
	}
	return outs, nil
}

// ---- "reject" directives ------------------------------------------------------

func rejectArgs(raw json.RawMessage) ([]string, error) {
	var in struct {
		Args []json.RawMessage `json:"args"`
	}
	if err := json.Unmarshal(raw, &in); err != nil {
		return nil, err
	}
	var out []string
	for i, a := range in.Args {
		if i == 0 {
			var code int
			if err := json.Unmarshal(a, &code); err != nil {
				return nil, err
			}
			out = append(out, strconv.Itoa(code))
		} else {
			var enh [3]int
			if err := json.Unmarshal(a, &enh); err != nil {
				return nil, err
			}
			out = append(out, fmt.Sprintf("%d.%d.%d", enh[0], enh[1], enh[2]))
		}
	}
	return out, nil
}

func compPipelineReject(c CompCase) ([]compOut, error) {
	args, err := rejectArgs(c.In)
	if err != nil {
		return nil, err
	}
	p, err := pipelineOf("reject " + strings.Join(args, " ") + "\n")
	if err != nil {
		return nil, err
	}
	return []compOut{outOf(deliver(p, context.Background(), fmt.Sprintf("c16rej%d", c.ID), header("example.org")))}, nil
}

func compFailAction(c CompCase) ([]compOut, error) {
	args, err := rejectArgs(c.In)
	if err != nil {
		return nil, err
	}
	fa, err := modconfig.ParseActionDirective(append([]string{"reject"}, args...))
	if err != nil {
		return nil, err
	}
	orig := &exterrors.SMTPError{Code: 550, EnhancedCode: exterrors.EnhancedCode{5, 7, 1}, Message: "check failed"}
	var outs []compOut
	if len(args) > 0 {
		res := fa.Apply(module.CheckResult{Reason: orig})
		outs = append(outs, outOf(res.Reason))
	}
	// the directive on its own
	se, err := modconfig.ParseRejectDirective(args)
	if err != nil {
		return nil, err
	}
	return append(outs, outOf(se)), nil
}

func compMilter(c CompCase) ([]compOut, error) {
	var in struct {
		Code int `json:"code"`
	}
	if err := json.Unmarshal(c.In, &in); err != nil {
		return nil, err
	}
	res := milter.VerifHandleReplyCode(in.Code, "go away")
	return []compOut{outOf(res.Reason)}, nil
}

func compSMTPConn(c CompCase) ([]compOut, error) {
	var in struct {
		Code int    `json:"code"`
		Enh  [3]int `json:"enh"`
	}
	if err := json.Unmarshal(c.In, &in); err != nil {
		return nil, err
	}
	e := smtpconn.VerifWrapClientErr(&smtp.SMTPError{Code: in.Code, EnhancedCode: smtp.EnhancedCode(in.Enh),
		Message: "peer said so"}, "mx.peer.invalid")
	return []compOut{outOf(e)}, nil
}

func TestComp(t *testing.T) {
	in, out := os.Getenv("VERIF_IN"), os.Getenv("VERIF_OUT")
	if in == "" || out == "" {
		t.Skip("VERIF_IN / VERIF_OUT not set")
	}
	f, err := os.Open(in)
	if err != nil {
		t.Fatal(err)
	}
	defer f.Close()
	of, err := os.Create(out)
	if err != nil {
		t.Fatal(err)
	}
	defer of.Close()
	w := bufio.NewWriter(of)
	defer w.Flush()
	sc := bufio.NewScanner(f)
	n := 0
	for sc.Scan() {
		var c CompCase
		if err := json.Unmarshal(sc.Bytes(), &c); err != nil {
			t.Fatalf("bad case line: %v", err)
		}
		var outs []compOut
		switch c.Site {
		case "dmarc-reject":
			outs, err = compDMARC(c)
		case "pipeline-reject":
			outs, err = compPipelineReject(c)
		case "failaction-reject":
			outs, err = compFailAction(c)
		case "milter-replycode":
			outs, err = compMilter(c)
		case "remote-nomx":
			outs, err = compRemoteNoMX(c)
		case "milter-wire":
			outs, err = compMilterWire(c)
		case "smtpconn-reply":
			outs, err = compSMTPConn(c)
		default:
			err = fmt.Errorf("unknown site %q", c.Site)
		}
		if err != nil {
			t.Fatalf("case %d (%s): %v", c.ID, c.Site, err)
		}
		// one event per way the path was driven; t = id*10 + k keeps them apart
		for k, o := range outs {
			vtrace.New(w, c.ID*10+k).Emit("Comp", vtrace.Ev{"site": c.Site, "in": c.In, "out": o, "case": c.ID})
			n++
		}
	}
	t.Logf("%d computed replies recorded", n)
}
