package errorscheck

import (
	"go/ast"
	"go/parser"
	"go/token"
	"os"
	"path/filepath"
	"strconv"
	"strings"
)

// Site is one SMTPError composite literal found in the tree.
//
// CodeKind / EnhKind: "const" (integer literal / {a,b,c} literal), "helper"
// (exterrors.SMTPCode / exterrors.SMTPEnchCode call with constant arguments),
// "unset" (field absent), "notset" (smtp.EnhancedCodeNotSet), "dynamic"
// (anything else: variables, fields of another error, ...).
type Site struct {
	File     string `json:"file"`
	Line     int    `json:"line"`
	Type     string `json:"type"` // "exterrors.SMTPError", "smtp.SMTPError", ...
	CodeKind string `json:"codeKind"`
	Code     int    `json:"code"`     // const
	CodeT    int    `json:"codeT"`    // helper: temporary code
	CodeP    int    `json:"codeP"`    // helper: permanent code
	EnhKind  string `json:"enhKind"`
	Enh      [3]int `json:"enh"`      // const, or the base passed to the helper
	Expr     string `json:"expr"`     // short rendering for the report
}

func intLit(e ast.Expr) (int, bool) {
	if p, ok := e.(*ast.ParenExpr); ok {
		return intLit(p.X)
	}
	if u, ok := e.(*ast.UnaryExpr); ok && u.Op == token.SUB {
		v, ok := intLit(u.X)
		return -v, ok
	}
	b, ok := e.(*ast.BasicLit)
	if !ok || b.Kind != token.INT {
		return 0, false
	}
	v, err := strconv.ParseInt(b.Value, 0, 64)
	if err != nil {
		return 0, false
	}
	return int(v), true
}

func typeName(e ast.Expr) string {
	switch t := e.(type) {
	case *ast.Ident:
		return t.Name
	case *ast.SelectorExpr:
		if x, ok := t.X.(*ast.Ident); ok {
			return x.Name + "." + t.Sel.Name
		}
		return t.Sel.Name
	}
	return ""
}

func calleeName(e ast.Expr) string {
	c, ok := e.(*ast.CallExpr)
	if !ok {
		return ""
	}
	n := typeName(c.Fun)
	if i := strings.LastIndexByte(n, '.'); i >= 0 {
		n = n[i+1:]
	}
	return n
}

func enhLit(e ast.Expr) ([3]int, bool) {
	var out [3]int
	cl, ok := e.(*ast.CompositeLit)
	if !ok || len(cl.Elts) != 3 {
		return out, false
	}
	if cl.Type != nil && !strings.HasSuffix(typeName(cl.Type), "EnhancedCode") {
		return out, false
	}
	for i, el := range cl.Elts {
		v, ok := intLit(el)
		if !ok {
			return out, false
		}
		out[i] = v
	}
	return out, true
}

// ScanTree walks root and returns every SMTPError composite literal of the
// non-test, non-verif Go files.
func ScanTree(root string) ([]Site, int, error) {
	var sites []Site
	files := 0
	fset := token.NewFileSet()
	err := filepath.Walk(root, func(path string, info os.FileInfo, err error) error {
		if err != nil {
			return err
		}
		if info.IsDir() {
			n := info.Name()
			if path != root && (strings.HasPrefix(n, ".") || n == "vendor" || n == "testdata") {
				return filepath.SkipDir
			}
			return nil
		}
		n := info.Name()
		if !strings.HasSuffix(n, ".go") || strings.HasSuffix(n, "_test.go") || strings.HasPrefix(n, "verif_export") {
			return nil
		}
		f, perr := parser.ParseFile(fset, path, nil, parser.SkipObjectResolution)
		if perr != nil {
			return nil // a file that does not parse cannot be built either
		}
		files++
		rel, _ := filepath.Rel(root, path)
		ast.Inspect(f, func(nd ast.Node) bool {
			cl, ok := nd.(*ast.CompositeLit)
			if !ok || cl.Type == nil {
				return true
			}
			tn := typeName(cl.Type)
			if tn != "SMTPError" && !strings.HasSuffix(tn, ".SMTPError") {
				return true
			}
			s := Site{File: rel, Line: fset.Position(cl.Pos()).Line, Type: tn,
				CodeKind: "unset", EnhKind: "unset"}
			for _, el := range cl.Elts {
				kv, ok := el.(*ast.KeyValueExpr)
				if !ok {
					continue
				}
				k, _ := kv.Key.(*ast.Ident)
				if k == nil {
					continue
				}
				switch k.Name {
				case "Code":
					if v, ok := intLit(kv.Value); ok {
						s.CodeKind, s.Code = "const", v
					} else if calleeName(kv.Value) == "SMTPCode" {
						c := kv.Value.(*ast.CallExpr)
						s.CodeKind = "dynamic"
						if len(c.Args) == 3 {
							a, ok1 := intLit(c.Args[1])
							b, ok2 := intLit(c.Args[2])
							if ok1 && ok2 {
								s.CodeKind, s.CodeT, s.CodeP = "helper", a, b
							}
						}
					} else {
						s.CodeKind = "dynamic"
					}
				case "EnhancedCode":
					if v, ok := enhLit(kv.Value); ok {
						s.EnhKind, s.Enh = "const", v
					} else if calleeName(kv.Value) == "SMTPEnchCode" {
						c := kv.Value.(*ast.CallExpr)
						s.EnhKind = "dynamic"
						if len(c.Args) == 2 {
							if v, ok := enhLit(c.Args[1]); ok {
								s.EnhKind, s.Enh = "helper", v
							}
						}
					} else if strings.HasSuffix(typeName(kv.Value), "EnhancedCodeNotSet") {
						s.EnhKind = "notset"
					} else {
						s.EnhKind = "dynamic"
					}
				}
			}
			sites = append(sites, s)
			return true
		})
		return nil
	})
	return sites, files, err
}
