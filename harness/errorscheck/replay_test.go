package errorscheck

import (
	"bufio"
	"context"
	"encoding/json"
	"fmt"
	"os"
	"strconv"
	"strings"
	"testing"
	"testing/synctest"
	"time"

	"github.com/emersion/go-message/textproto"
	"github.com/emersion/go-smtp"
	"github.com/foxcpp/maddy/framework/buffer"
	"github.com/foxcpp/maddy/framework/exterrors"
	"github.com/foxcpp/maddy/framework/log"
	"github.com/foxcpp/maddy/framework/module"
	endpsmtp "github.com/foxcpp/maddy/internal/endpoint/smtp"
	"github.com/foxcpp/maddy/internal/target/queue"
	"github.com/foxcpp/maddy/verifharness/scripted"
	"github.com/foxcpp/maddy/verifharness/vtrace"
)

// Input line: {"id":N,"term":[layers],"att":bool}; att = also run one real
// queue attempt for this term.
type Case struct {
	ID   int             `json:"id"`
	Raw  json.RawMessage `json:"term"` // echoed into the row as it came
	Att  bool            `json:"att"`
	Term []Layer         `json:"-"`
}

type reply struct {
	Mangle bool   `json:"mangle"`
	Mid    bool   `json:"mid"`
	Code   int    `json:"code"`
	Enh    [3]int `json:"enh"`
	Msg    []int  `json:"msg"`
}

type qreply struct {
	Code int    `json:"code"`
	Enh  [3]int `json:"enh"`
	Msg  []int  `json:"msg"`
}

// attempt is what one real queue attempt showed for the term
type attempt struct {
	Ran     bool    `json:"ran"`
	Retried bool    `json:"retried"`         // a second delivery attempt was made
	Dsn     bool    `json:"dsn"`             // a failure report naming the recipient arrived
	DCode   int     `json:"dcode"`           // Diagnostic-Code: smtp; <dcode> <denh> ...
	DEnh    [3]int  `json:"denh"`
	Status  [3]int  `json:"status"`          // Status: field
	Raw     *string `json:"raw,omitempty"`   // diagnostic line when it could not be parsed
}

var combos = [4][2]bool{{true, true}, {true, false}, {false, true}, {false, false}}

const msgID = "M1"

func convert(c Case) (map[string]interface{}, error) {
	e, err := Build(c.Term)
	if err != nil {
		return nil, err
	}
	var es []reply
	for _, cb := range combos {
		mid := ""
		if cb[1] {
			mid = msgID
		}
		r := endpsmtp.VerifWrapErr(mid, cb[0], "DATA", e)
		se, ok := r.(*smtp.SMTPError)
		if !ok {
			return nil, fmt.Errorf("wrapErr returned %T", r)
		}
		es = append(es, reply{cb[0], cb[1], se.Code, [3]int(se.EnhancedCode), CPs(se.Message)})
	}
	q := queue.VerifToSMTPErr(e)
	if q == nil {
		return nil, fmt.Errorf("toSMTPErr returned nil")
	}
	return map[string]interface{}{
		"e":   es,
		"q":   qreply{q.Code, [3]int(q.EnhancedCode), CPs(q.Message)},
		"it":  exterrors.IsTemporary(e),
		"tou": exterrors.IsTemporaryOrUnspec(e),
	}, nil
}

// errTarget fails AddRcpt for every recipient with the error of its term.
type errTarget struct {
	errs  map[string]error
	calls map[string]int
}

type errDelivery struct{ t *errTarget }

func (t *errTarget) Start(ctx context.Context, _ *module.MsgMetadata, _ string) (module.Delivery, error) {
	return &errDelivery{t}, nil
}
func (d *errDelivery) AddRcpt(ctx context.Context, rcpt string, _ smtp.RcptOptions) error {
	d.t.calls[rcpt]++
	return d.t.errs[rcpt]
}
func (d *errDelivery) Body(context.Context, textproto.Header, buffer.Buffer) error { return nil }
func (d *errDelivery) Abort(context.Context) error                                  { return nil }
func (d *errDelivery) Commit(context.Context) error                                 { return nil }

const retryDelay = time.Minute

func workDir() string {
	if d := os.Getenv("VERIF_TMP"); d != "" {
		return d
	}
	return os.TempDir()
}

func parseEnh(s string) ([3]int, bool) {
	var out [3]int
	p := strings.Split(strings.TrimSpace(s), ".")
	if len(p) != 3 {
		return out, false
	}
	for i := range p {
		v, err := strconv.Atoi(p[i])
		if err != nil {
			return out, false
		}
		out[i] = v
	}
	return out, true
}

// runAttempts gives every case of the batch to the real queue as one message
// with one recipient per case (max_tries 2) and reports, per case, whether a
// second attempt was made and what the failure report says.
func runAttempts(t *testing.T, batch []Case) map[int]attempt {
	res := map[int]attempt{}
	dir, err := os.MkdirTemp(workDir(), "spool")
	if err != nil {
		t.Fatal(err)
	}
	defer os.RemoveAll(dir)
	synctest.Test(t, func(t *testing.T) {
		tgt := &errTarget{errs: map[string]error{}, calls: map[string]int{}}
		addr := func(id int) string { return "r" + strconv.Itoa(id) + "@example.org" }
		for _, c := range batch {
			e, err := Build(c.Term)
			if err != nil {
				t.Fatal(err)
			}
			tgt.errs[addr(c.ID)] = e
		}
		tr := vtrace.New(nil, 0)
		tr.Keep = true
		bounce := &scripted.Bounce{Tr: tr}
		q, err := queue.VerifNewQueue(queue.VerifConfig{
			Location: dir, Target: tgt, Bounce: bounce, MaxTries: 2, MaxParallelism: 1,
			InitialRetryTime: retryDelay, RetryTimeScale: 1, PostInitDelay: 0,
			Hostname: "mx.example.org", AutogenMsgDomain: "example.org",
			Log: log.Logger{Out: log.NopOutput{}},
		})
		if err != nil {
			t.Fatal(err)
		}
		ctx := context.Background()
		from := "sender@example.com"
		meta := &module.MsgMetadata{ID: "m" + strconv.Itoa(batch[0].ID), OriginalFrom: from,
			SMTPOpts: smtp.MailOptions{UTF8: true}}
		d, err := q.Start(ctx, meta, from)
		if err != nil {
			t.Fatal(err)
		}
		for _, c := range batch {
			if err := d.AddRcpt(ctx, addr(c.ID), smtp.RcptOptions{}); err != nil {
				t.Fatal(err)
			}
		}
		hdr := textproto.Header{}
		hdr.Add("Subject", "verif")
		hdr.Add("From", "<sender@example.com>")
		if err := d.Body(ctx, hdr, buffer.MemoryBuffer{Slice: []byte("hello\r\n")}); err != nil {
			t.Fatal(err)
		}
		if err := d.Commit(ctx); err != nil {
			t.Fatal(err)
		}
		for i := 0; i < 6; i++ {
			synctest.Wait()
			ents, _ := os.ReadDir(dir)
			if len(ents) == 0 {
				break
			}
			time.Sleep(2 * retryDelay)
		}
		synctest.Wait()
		q.Close()

		status := map[string]string{}
		diag := map[string]string{}
		for _, ev := range tr.Evs {
			if ev["e"] != "DBody" {
				continue
			}
			if m, ok := ev["status"].(map[string]string); ok {
				for k, v := range m {
					status[k] = v
				}
			}
			if m, ok := ev["diag"].(map[string]string); ok {
				for k, v := range m {
					diag[k] = v
				}
			}
		}
		for _, c := range batch {
			a := attempt{Ran: true, Retried: tgt.calls[addr(c.ID)] >= 2}
			if st, ok := status[addr(c.ID)]; ok {
				a.Dsn = true
				a.Status, _ = parseEnh(st)
				dg := diag[addr(c.ID)]
				// "smtp; 550 5.1.1 text"
				f := strings.Fields(strings.TrimPrefix(strings.TrimSpace(dg), "smtp;"))
				okp := false
				if len(f) >= 2 {
					if v, err := strconv.Atoi(f[0]); err == nil {
						a.DCode = v
						a.DEnh, okp = parseEnh(f[1])
					}
				}
				if !okp {
					raw := dg
					a.Raw = &raw
				}
			}
			res[c.ID] = a
		}
	})
	return res
}

func TestReplay(t *testing.T) {
	in, out := os.Getenv("VERIF_IN"), os.Getenv("VERIF_OUT")
	if in == "" || out == "" {
		t.Skip("VERIF_IN / VERIF_OUT not set")
	}
	f, err := os.Open(in)
	if err != nil {
		t.Fatal(err)
	}
	defer f.Close()
	of, err := os.Create(out)
	if err != nil {
		t.Fatal(err)
	}
	defer of.Close()
	w := bufio.NewWriter(of)
	defer w.Flush()
	sc := bufio.NewScanner(f)
	sc.Buffer(make([]byte, 1<<20), 1<<26)
	var cases []Case
	for sc.Scan() {
		var c Case
		if err := json.Unmarshal(sc.Bytes(), &c); err != nil {
			t.Fatalf("bad case line: %v", err)
		}
		if err := json.Unmarshal(c.Raw, &c.Term); err != nil {
			t.Fatalf("bad term: %v", err)
		}
		cases = append(cases, c)
	}
	// real queue attempts, 12 terms per message
	atts := map[int]attempt{}
	var batch []Case
	flush := func() {
		if len(batch) == 0 {
			return
		}
		for id, a := range runAttempts(t, batch) {
			atts[id] = a
		}
		batch = nil
	}
	for _, c := range cases {
		if c.Att {
			batch = append(batch, c)
			if len(batch) == 12 {
				flush()
			}
		}
	}
	flush()
	for _, c := range cases {
		o, err := convert(c)
		if err != nil {
			t.Fatalf("case %d: %v", c.ID, err)
		}
		if a, ok := atts[c.ID]; ok {
			o["att"] = a
		} else {
			o["att"] = map[string]interface{}{"ran": false}
		}
		tr := vtrace.New(w, c.ID)
		tr.Emit("Row", vtrace.Ev{"in": map[string]interface{}{"t": c.Raw}, "out": o})
	}
	t.Logf("replayed %d terms, %d through the real queue", len(cases), len(atts))
}

// TestScan: static scan of the tree under VERIF_SCAN_ROOT; every SMTPError
// composite literal becomes one or more "Lit" rows. Helper pairs are evaluated
// with the real exterrors.SMTPCode / SMTPEnchCode on a temporary and on a
// permanent error.
func TestScan(t *testing.T) {
	root, out := os.Getenv("VERIF_SCAN_ROOT"), os.Getenv("VERIF_OUT")
	if root == "" || out == "" {
		t.Skip("VERIF_SCAN_ROOT / VERIF_OUT not set")
	}
	sites, files, err := ScanTree(root)
	if err != nil {
		t.Fatal(err)
	}
	of, err := os.Create(out)
	if err != nil {
		t.Fatal(err)
	}
	defer of.Close()
	w := bufio.NewWriter(of)
	defer w.Flush()
	id := 0
	emit := func(ev vtrace.Ev) {
		id++
		vtrace.New(w, 1000000+id).Emit("Lit", ev)
	}
	tempErr := exterrors.WithTemporary(fmt.Errorf("t"), true)
	permErr := exterrors.WithTemporary(fmt.Errorf("p"), false)
	for _, s := range sites {
		base := vtrace.Ev{"file": s.File, "line": s.Line, "type": s.Type,
			"codeKind": s.CodeKind, "enhKind": s.EnhKind}
		mk := func(kind string, more vtrace.Ev) vtrace.Ev {
			ev := vtrace.Ev{"kind": kind}
			for k, v := range base {
				ev[k] = v
			}
			for k, v := range more {
				ev[k] = v
			}
			return ev
		}
		enhConst := s.EnhKind == "const" || s.EnhKind == "unset" || s.EnhKind == "notset"
		switch {
		case s.CodeKind == "const" && enhConst:
			emit(mk("lit", vtrace.Ev{"code": s.Code, "enh": s.Enh}))
		case s.CodeKind == "helper" || s.EnhKind == "helper":
			if (s.CodeKind != "helper" && s.CodeKind != "const") || (s.EnhKind != "helper" && !enhConst) {
				emit(mk("dynamic", nil))
				continue
			}
			for _, temp := range []bool{true, false} {
				e := permErr
				if temp {
					e = tempErr
				}
				code, enh := s.Code, s.Enh
				codeT, codeP := s.Code, s.Code
				if s.CodeKind == "helper" {
					code = exterrors.SMTPCode(e, s.CodeT, s.CodeP)
					codeT, codeP = s.CodeT, s.CodeP
				}
				if s.EnhKind == "helper" {
					enh = [3]int(exterrors.SMTPEnchCode(e, exterrors.EnhancedCode(s.Enh)))
				}
				emit(mk("helper", vtrace.Ev{"temp": temp, "codeT": codeT, "codeP": codeP, "base": s.Enh,
					"enhHelper": s.EnhKind == "helper", "code": code, "enh": enh}))
			}
		case s.CodeKind == "dynamic" && s.EnhKind == "const":
			// the basic code comes from outside (a peer, the configuration): the
			// constant enhanced code has to fit whichever failure class arrives
			for _, cls := range []int{4, 5} {
				emit(mk("dyncode", vtrace.Ev{"code": cls*100 + 50, "enh": s.Enh}))
			}
		default:
			emit(mk("dynamic", nil))
		}
	}
	vtrace.New(w, 1000000).Emit("ScanEnd", vtrace.Ev{"files": files, "sites": len(sites)})
}
