// Package errorscheck binds spec/Errors.tla to maddy's error conversions.
//
// A term is the JSON rendering of a TLA+ sequence of layers (outermost first)
// printed by TLC; Build constructs the corresponding error value with the
// real primitives of framework/exterrors, go-smtp, net and context.
package errorscheck

import (
	"context"
	"errors"
	"fmt"
	"net"

	"github.com/emersion/go-smtp"
	"github.com/foxcpp/maddy/framework/exterrors"
	"github.com/foxcpp/maddy/internal/target/remote"
)

// Layer is one element of a term (see spec/Errors.tla).
type Layer struct {
	K string `json:"k"`
	C string `json:"c,omitempty"`
	M string `json:"m,omitempty"`
	B bool   `json:"b,omitempty"`
	F string `json:"f,omitempty"`
}

type codeEnt struct {
	code int
	enh  [3]int
	set  bool
}

// concretisation tables: must agree with CodeTab / MsgTab / Txt* of Errors.tla
var codeTab = map[string]codeEnt{
	"t":  {451, [3]int{4, 3, 0}, true},
	"p":  {550, [3]int{5, 1, 1}, true},
	"tu": {450, [3]int{0, 0, 0}, false},
	"pu": {554, [3]int{0, 0, 0}, false},
}

var msgTab = map[string]string{
	"a": "Full",
	"u": "Plé\u0080\u0081",
}

const (
	TxtPlain = "kaboom"
	TxtDns   = "dnsfail"
	TxtNs    = "ns.internal"
	TxtField = "f1eldsecret"
	TxtWrap  = "ctx9wrap"
)

// Build constructs the error value a term denotes.
func Build(t []Layer) (error, error) {
	var e error
	for i := len(t) - 1; i >= 0; i-- {
		l := t[i]
		leaf := i == len(t)-1
		switch l.K {
		case "plain":
			e = errors.New(TxtPlain)
		case "net":
			e = &net.DNSError{Err: TxtDns, Name: TxtNs, IsTemporary: l.B, IsNotFound: !l.B}
		case "deadline":
			e = context.DeadlineExceeded
		case "gosmtp":
			c, ok := codeTab[l.C]
			if !ok {
				return nil, fmt.Errorf("unknown code id %q", l.C)
			}
			e = &smtp.SMTPError{Code: c.code, EnhancedCode: smtp.EnhancedCode(c.enh), Message: msgTab["a"]}
		case "smtp":
			c, ok := codeTab[l.C]
			m, ok2 := msgTab[l.M]
			if !ok || !ok2 {
				return nil, fmt.Errorf("unknown code/msg id %q/%q", l.C, l.M)
			}
			se := &exterrors.SMTPError{Code: c.code, Message: m, Err: e}
			if c.set {
				se.EnhancedCode = exterrors.EnhancedCode(c.enh)
			}
			e = se
		case "multi":
			// target/remote: several recipients failed; b = one of them temporarily
			first := error(&exterrors.SMTPError{Code: 550, EnhancedCode: exterrors.EnhancedCode{5, 1, 1}, Message: msgTab["a"]})
			if l.B {
				first = &exterrors.SMTPError{Code: 451, EnhancedCode: exterrors.EnhancedCode{4, 3, 0}, Message: msgTab["a"]}
			}
			e = remote.VerifMultipleErrs(map[string]error{
				"r1@example.org": first,
				"r2@example.org": &exterrors.SMTPError{Code: 550, EnhancedCode: exterrors.EnhancedCode{5, 1, 1}, Message: msgTab["a"]},
			})
		case "smtph":
			if leaf {
				return nil, errors.New("smtph needs a cause")
			}
			e = &exterrors.SMTPError{
				Code:         exterrors.SMTPCode(e, 451, 550),
				EnhancedCode: exterrors.SMTPEnchCode(e, exterrors.EnhancedCode{0, 4, 0}),
				Message:      msgTab["a"],
				Err:          e,
			}
		case "temp":
			e = exterrors.WithTemporary(e, l.B)
		case "fields":
			if l.F == "r" {
				e = exterrors.WithFields(e, map[string]interface{}{"reason": TxtField})
			} else {
				e = exterrors.WithFields(e, map[string]interface{}{"target": "verif"})
			}
		case "wrap":
			e = fmt.Errorf(TxtWrap+": %w", e)
		default:
			return nil, fmt.Errorf("unknown layer kind %q", l.K)
		}
		if leaf && (l.K == "temp" || l.K == "fields" || l.K == "wrap") {
			return nil, fmt.Errorf("wrapper %q without a cause", l.K)
		}
	}
	if e == nil {
		return nil, errors.New("empty term")
	}
	return e, nil
}

// CPs renders a text as its sequence of code points (the form Errors.tla reads).
func CPs(s string) []int {
	out := []int{}
	for _, r := range s {
		out = append(out, int(r))
	}
	return out
}
