package stscachecheck

import (
	"context"
	"fmt"
	"io"
	"net"
	"net/http"
	"os"
	"path/filepath"
	"strings"
	"testing"
	"testing/synctest"
	"time"

	mtasts "github.com/foxcpp/go-mtasts"
)

type rtFunc func(*http.Request) (*http.Response, error)

func (f rtFunc) RoundTrip(r *http.Request) (*http.Response, error) { return f(r) }

type res struct{ f func(string) ([]string, error) }

func (r res) LookupTXT(ctx context.Context, d string) ([]string, error) { return r.f(d) }

func try(name string, f func()) {
	defer func() {
		if e := recover(); e != nil {
			fmt.Println(name, "PANIC:", e)
		}
	}()
	f()
}

func TestProbe(t *testing.T) {
	try("match1", func() {
		p := mtasts.Policy{Mode: mtasts.ModeEnforce, MX: []string{"*.example.de"}}
		fmt.Println("match xn--bcher-kva.de:", p.Match("xn--bcher-kva.de"))
	})
	try("match2", func() {
		p := mtasts.Policy{Mode: mtasts.ModeEnforce, MX: []string{"*.xn--bcher-kva.de"}}
		fmt.Println("match mx.xn--bcher-kva.de:", p.Match("mx.xn--bcher-kva.de"))
		fmt.Println("match mx.bücher.de:", p.Match("mx.bücher.de"))
		fmt.Println("match MX.xn--bcher-kva.de.:", p.Match("MX.xn--bcher-kva.de."))
		fmt.Println("match xn--mx-kva.xn--bcher-kva.de:", p.Match("xn--4ca.xn--bcher-kva.de"))
	})
	old := http.DefaultTransport
	defer func() { http.DefaultTransport = old }()
	synctest.Test(t, func(t *testing.T) {
		dir := t.TempDir()
		http.DefaultTransport = rtFunc(func(r *http.Request) (*http.Response, error) {
			fmt.Println("GET", r.URL.String())
			body := "version: STSv1\nmode: enforce\nmax_age: 100\nmx: a.example.org\n"
			return &http.Response{StatusCode: 200, Status: "200 OK", Header: http.Header{"Content-Type": {"text/plain"}},
				Body: io.NopCloser(strings.NewReader(body)), Request: r}, nil
		})
		c := mtasts.NewFSCache(dir)
		c.Resolver = res{func(d string) ([]string, error) { fmt.Println("TXT", d); return []string{"v=STSv1; id=1"}, nil }}
		p, err := c.Get(context.Background(), "example.org")
		fmt.Println("get1", p, err, time.Now())
		time.Sleep(101 * time.Second)
		c.Resolver = res{func(d string) ([]string, error) { return nil, &net.DNSError{IsTemporary: true, Err: "servfail"} }}
		p, err = c.Get(context.Background(), "example.org")
		fmt.Println("get2 (expired, dns temp)", p, err)
		b, _ := os.ReadFile(filepath.Join(dir, "example.org"))
		fmt.Println(string(b))
		// store failure
		os.RemoveAll(dir)
		c.Resolver = res{func(d string) ([]string, error) { return []string{"v=STSv1; id=1"}, nil }}
		try("storefail", func() {
			p, err = c.Get(context.Background(), "example.org")
			fmt.Println("get3 (store fails)", p, err)
		})
		os.MkdirAll(dir, 0o777)
		os.WriteFile(filepath.Join(dir, "example.org"), []byte("{}"), 0o666)
		try("nullpolicy", func() {
			p, err = c.Get(context.Background(), "example.org")
			fmt.Println("get4 ({} file)", p, err)
		})
	})
}
