package stscachecheck

// TestRows runs the rows of spec/StsCacheTables.tla through the real code:
// "match" rows through (mtasts.Policy).Match, the other tables through Get of
// a fresh RAM cache (real TXT parser, real HTTPS download path with the
// scripted transport, real policy parser).  Nothing is decided here.

import (
	"bufio"
	"context"
	"encoding/json"
	"fmt"
	"net"
	"net/http"
	"os"
	"strings"
	"testing"

	mtasts "github.com/foxcpp/go-mtasts"
	"github.com/foxcpp/maddy/framework/log"
	"github.com/foxcpp/maddy/framework/module"
	"github.com/foxcpp/maddy/internal/target/remote"
	"github.com/foxcpp/maddy/verifharness/vtrace"
)

type label struct {
	C  string `json:"c"`
	Sp string `json:"sp"`
}

type rowIn struct {
	Tab  string  `json:"tab"`
	Mx   []label `json:"mx"`
	Dot  bool    `json:"dot"`
	Pats []struct {
		Wild bool    `json:"wild"`
		Base []label `json:"base"`
	} `json:"pats"`
	DNS string `json:"dns"`
	Txt struct {
		N string `json:"n"`
		F struct {
			Ver   string `json:"ver"`
			ID    string `json:"id"`
			Ext   bool   `json:"ext"`
			Order string `json:"order"`
			Sp    string `json:"sp"`
		} `json:"f"`
	} `json:"txt"`
	HTTP struct {
		Status int    `json:"status"`
		Ctype  string `json:"ctype"`
	} `json:"http"`
	Body struct {
		Ver   string `json:"ver"`
		Mode  string `json:"mode"`
		Age   string `json:"age"`
		Nmx   int    `json:"nmx"`
		Ext   string `json:"ext"`
		Eol   string `json:"eol"`
		Final bool   `json:"final"`
		Order string `json:"order"`
	} `json:"body"`
}

type rowItem struct {
	ID int             `json:"id"`
	In json.RawMessage `json:"in"`
}

func renderLabel(l label) string {
	switch l.C {
	case "x":
		if l.Sp == "uc" {
			return "ALPHA"
		}
		return "alpha"
	case "y":
		return "beta"
	case "idn":
		switch l.Sp {
		case "u":
			return "bücher"
		case "U":
			return "BÜCHER"
		case "a":
			return "xn--bcher-kva"
		case "A":
			return "XN--BCHER-KVA"
		case "d":
			return "bu\u0308cher" // NFD spelling
		}
	}
	return l.C
}

func renderName(ls []label) string {
	parts := make([]string, len(ls))
	for i, l := range ls {
		parts[i] = renderLabel(l)
	}
	return strings.Join(parts, ".")
}

const rowDomain = "p.sts.test"

func renderTxt(in *rowIn) []string {
	f := in.Txt.F
	rec := func(idSuffix string) string {
		var v, id, ext string
		switch f.Ver {
		case "STSv1", "STSv2":
			v = "v=" + f.Ver
		}
		switch f.ID {
		case "good":
			id = "id=20240101T000000" + idSuffix
		case "empty":
			id = "id="
		case "space":
			id = "id=a b" + idSuffix
		}
		if f.Ext {
			ext = "foo=bar"
		}
		var parts []string
		order := []string{v, id, ext}
		if f.Order == "vlast" {
			order = []string{id, ext, v}
		}
		for _, p := range order {
			if p != "" {
				parts = append(parts, p)
			}
		}
		switch f.Sp {
		case "tight":
			return strings.Join(parts, ";")
		case "trail":
			return strings.Join(parts, "; ") + ";"
		}
		return strings.Join(parts, "; ")
	}
	switch in.Txt.N {
	case "zero":
		return nil
	case "two":
		return []string{rec(""), rec("b")}
	case "foreign":
		return []string{"google-site-verification=abcdef0123456789", rec("")}
	}
	return []string{rec("")}
}

func renderBody(in *rowIn) string {
	b := in.Body
	var ver, mode, age, ext string
	switch b.Ver {
	case "STSv1", "STSv2":
		ver = "version: " + b.Ver
	}
	switch b.Mode {
	case "absent":
	case "bogus":
		mode = "mode: strict"
	default:
		mode = "mode: " + b.Mode
	}
	switch b.Age {
	case "num":
		age = "max_age: 604800"
	case "alpha":
		age = "max_age: week"
	case "neg":
		age = "max_age: -604800"
	}
	switch b.Ext {
	case "plain":
		ext = "x-note: hello"
	case "colon":
		ext = "x-url: https://example.org/a"
	}
	mx := []string{"mx: mx1." + rowDomain, "mx: *." + rowDomain}[:b.Nmx]
	var lines []string
	add := func(s ...string) {
		for _, x := range s {
			if x != "" {
				lines = append(lines, x)
			}
		}
	}
	if b.Order == "vlast" {
		add(mode)
		add(mx...)
		add(age, ext, ver)
	} else {
		add(ver, mode)
		add(mx...)
		add(age, ext)
	}
	eol := "\n"
	if b.Eol == "crlf" {
		eol = "\r\n"
	}
	s := strings.Join(lines, eol)
	if b.Final && len(lines) > 0 {
		s += eol
	}
	return s
}

type rowResolver struct{ in *rowIn }

func (r rowResolver) LookupTXT(ctx context.Context, name string) ([]string, error) {
	if name != "_mta-sts."+rowDomain {
		return nil, &net.DNSError{Err: "no such host", Name: name, IsNotFound: true}
	}
	switch r.in.DNS {
	case "temp":
		return nil, &net.DNSError{Err: "server misbehaving", Name: name, IsTemporary: true}
	case "perm":
		return nil, &net.DNSError{Err: "no such host", Name: name, IsNotFound: true}
	}
	return renderTxt(r.in), nil
}

type rowTransport struct{ in *rowIn }

func (rt rowTransport) RoundTrip(req *http.Request) (*http.Response, error) {
	if req.URL.String() != "https://mta-sts."+rowDomain+"/.well-known/mta-sts.txt" || req.Method != "GET" {
		// not the policy host of the domain: a valid policy of somebody else
		return resp(req, 200, "text/plain", "version: STSv1\nmode: enforce\nmx: mx.evil.test\nmax_age: 604800\n", nil), nil
	}
	ctype := map[string]string{"plain": "text/plain", "plaincs": "text/plain; charset=utf-8", "html": "text/html"}[rt.in.HTTP.Ctype]
	var hdr map[string]string
	if rt.in.HTTP.Status == 301 {
		hdr = map[string]string{"Location": "https://mta-sts.evil.test/.well-known/mta-sts.txt"}
	}
	return resp(req, rt.in.HTTP.Status, ctype, renderBody(rt.in), hdr), nil
}

func runRow(in *rowIn) vtrace.Ev {
	if in.Tab == "match" {
		pol := mtasts.Policy{Mode: mtasts.ModeEnforce, MaxAge: 3600}
		for _, p := range in.Pats {
			s := renderName(p.Base)
			if p.Wild {
				s = "*." + s
			}
			pol.MX = append(pol.MX, s)
		}
		mx := renderName(in.Mx)
		if in.Dot {
			mx += "."
		}
		out := vtrace.Ev{"m": "", "mxname": mx, "patterns": pol.MX}
		// through maddy: the delivery object of mx_auth.mtasts with this policy as the result of the lookup
		mp := remote.VerifRemoteMTASTSPolicy(func(context.Context, string) (*mtasts.Policy, error) { return &pol, nil },
			log.Logger{Out: log.NopOutput{}})
		dl := mp.Start(&module.MsgMetadata{ID: "row"})
		dl.PrepareDomain(context.Background(), rowDomain)
		func() {
			defer func() {
				if r := recover(); r != nil {
					out["m"] = "panic"
					out["msg"] = fmt.Sprint(r)
				}
			}()
			lvl, err := dl.CheckMX(context.Background(), module.MXNone, rowDomain, mx, false)
			switch {
			case lvl == module.MX_MTASTS && err == nil:
				out["m"] = "yes"
			case lvl == module.MXNone && err != nil:
				out["m"] = "no" // enforce mode: a host outside the policy is refused
			default:
				out["m"] = fmt.Sprintf("level %v err %v", lvl, err)
			}
		}()
		return out
	}
	out := vtrace.Ev{"kind": "", "mode": "", "age": 0, "mx": []string{}}
	c := mtasts.NewRAMCache()
	c.Resolver = rowResolver{in}
	http.DefaultTransport = rowTransport{in}
	func() {
		defer func() {
			if r := recover(); r != nil {
				out["kind"] = "panic"
				out["msg"] = fmt.Sprint(r)
			}
		}()
		p, err := c.Get(context.Background(), rowDomain)
		switch {
		case err == nil && p == nil:
			out["kind"] = "nil"
		case err == nil:
			out["kind"] = "policy"
			out["mode"] = string(p.Mode)
			out["age"] = p.MaxAge
			if p.MX != nil {
				out["mx"] = p.MX
			}
		case mtasts.IsNoPolicy(err):
			out["kind"] = "nopolicy"
		default:
			out["kind"] = "temp"
			out["msg"] = err.Error()
		}
	}()
	return out
}

func TestRows(t *testing.T) {
	inPath, outPath := os.Getenv("VERIF_IN"), os.Getenv("VERIF_OUT")
	if inPath == "" || outPath == "" {
		t.Skip("VERIF_IN / VERIF_OUT not set")
	}
	fin, err := os.Open(inPath)
	if err != nil {
		t.Fatal(err)
	}
	defer fin.Close()
	fout, err := os.Create(outPath)
	if err != nil {
		t.Fatal(err)
	}
	defer fout.Close()
	w := bufio.NewWriter(fout)
	defer w.Flush()
	oldT := http.DefaultTransport
	defer func() { http.DefaultTransport = oldT }()

	sc := bufio.NewScanner(fin)
	sc.Buffer(make([]byte, 1<<20), 1<<26)
	for sc.Scan() {
		if len(strings.TrimSpace(sc.Text())) == 0 {
			continue
		}
		var it rowItem
		if err := json.Unmarshal(sc.Bytes(), &it); err != nil {
			t.Fatalf("bad row line: %v", err)
		}
		var in rowIn
		if err := json.Unmarshal(it.In, &in); err != nil {
			t.Fatalf("bad row: %v", err)
		}
		out := runRow(&in)
		var raw interface{}
		json.Unmarshal(it.In, &raw)
		vtrace.New(w, it.ID).Emit("Row", vtrace.Ev{"in": raw, "out": out})
	}
	if err := sc.Err(); err != nil {
		t.Fatal(err)
	}
}
