// Package stscachecheck binds spec/StsCache.tla (extension X02) to the real
// MTA-STS policy cache of maddy: mx_auth.mtasts built the way maddy builds it
// (module registry, PolicyGroup, Init from config nodes), the real go-mtasts
// Cache with its fs/ram store, the real TXT parser, the real HTTPS download
// path (net/http client of go-mtasts; only http.DefaultTransport is replaced
// by a scripted policy host) on the fake clock of a testing/synctest bubble.
//
// TestReplay executes behaviours printed by TLC (VERIF_IN) and records what
// the real code did (VERIF_OUT); nothing is decided here.
package stscachecheck

import (
	"bufio"
	"context"
	"encoding/json"
	"errors"
	"fmt"
	"io"
	"math/rand"
	"net"
	"net/http"
	"os"
	"path/filepath"
	"strconv"
	"strings"
	"sync"
	"testing"
	"testing/synctest"
	"time"

	mtasts "github.com/foxcpp/go-mtasts"
	"github.com/foxcpp/maddy/framework/config"
	modconfig "github.com/foxcpp/maddy/framework/config/module"
	"github.com/foxcpp/maddy/framework/log"
	"github.com/foxcpp/maddy/framework/module"
	"github.com/foxcpp/maddy/internal/target/remote"
	"github.com/foxcpp/maddy/verifharness/vtrace"
)

type behaviour struct {
	ID  int `json:"id"`
	Cfg struct {
		Kind string `json:"kind"`
		Life string `json:"life"`
	} `json:"cfg"`
	Hist []map[string]interface{} `json:"hist"`
}

const suffix = ".sts.test"

func realDomain(d string) string { return d + suffix }

type pubState struct {
	txt      string
	ver, age int
}

// env is the world around the cache for one behaviour.
type env struct {
	mu      sync.Mutex
	doms    []string
	pub     map[string]pubState
	plan    map[string]string
	rng     *rand.Rand
	fetches []vtrace.Ev
	txtq    []string
	lists   int  // Store.List calls = runs of Cache.Refresh
	panics  int  // "panic during MTA-STS update" log lines
	badName bool // a TXT query for something else than _mta-sts.<known domain>
}

var (
	curMu sync.Mutex
	cur   *env
)

func current() *env { curMu.Lock(); defer curMu.Unlock(); return cur }

// ---- resolver -----------------------------------------------------------

type resolver struct{ e *env }

func txtRecord(rng *rand.Rand, id string) string {
	switch rng.Intn(5) {
	case 0:
		return "v=STSv1; id=" + id
	case 1:
		return "v=STSv1;id=" + id + ";"
	case 2:
		return "v=STSv1; id=" + id + "; "
	case 3:
		return "v=STSv1;  id=" + id + ";ext=1"
	}
	return "v=STSv1; id=" + id + ";"
}

func (r resolver) LookupTXT(ctx context.Context, name string) ([]string, error) {
	e := r.e
	e.mu.Lock()
	defer e.mu.Unlock()
	e.txtq = append(e.txtq, name)
	dom := strings.TrimPrefix(name, "_mta-sts.")
	d := strings.TrimSuffix(dom, suffix)
	p, known := e.pub[d]
	if !strings.HasPrefix(name, "_mta-sts.") || !strings.HasSuffix(dom, suffix) || !known {
		e.badName = true
		return nil, &net.DNSError{Err: "no such host", Name: name, IsNotFound: true}
	}
	seen := p.txt
	switch e.plan[d] {
	case "temp", "perm", "multi", "bad":
		seen = e.plan[d]
	}
	switch seen {
	case "temp":
		switch e.rng.Intn(3) {
		case 0:
			return nil, &net.DNSError{Err: "server misbehaving", Name: name, IsTemporary: true}
		case 1:
			return nil, &net.DNSError{Err: "i/o timeout", Name: name, IsTimeout: true, IsTemporary: true}
		}
		return nil, context.DeadlineExceeded
	case "perm":
		return nil, &net.DNSError{Err: "no such host", Name: name, IsNotFound: true}
	case "none":
		if e.rng.Intn(2) == 0 {
			return nil, &net.DNSError{Err: "no such host", Name: name, IsNotFound: true}
		}
		return nil, nil
	case "multi":
		return []string{"v=STSv1; id=i1;", "v=STSv1; id=i2;"}, nil
	case "bad":
		bad := []string{"v=STSv2; id=i1;", "id=i1", "v=STSv1;", "v=STSv1; id=;", "v=STSv1; id=i 1", "v=STSv1 id=i1", "hello"}
		return []string{bad[e.rng.Intn(len(bad))]}, nil
	}
	return []string{txtRecord(e.rng, seen)}, nil
}

// ---- policy host ----------------------------------------------------------

func modeOf(ver int) string {
	switch ver % 3 {
	case 1:
		return "enforce"
	case 2:
		return "testing"
	}
	return "none"
}

func mxOf(d string, ver int) []string {
	return []string{fmt.Sprintf("mx-v%d.%s", ver, realDomain(d)), fmt.Sprintf("*.v%d.%s", ver, realDomain(d))}
}

func policyBody(rng *rand.Rand, d string, ver, age int) string {
	eol := "\n"
	if rng.Intn(2) == 0 {
		eol = "\r\n"
	}
	mx := mxOf(d, ver)
	lines := []string{"version: STSv1", "mode: " + modeOf(ver), "mx: " + mx[0], "mx:" + mx[1],
		"max_age: " + strconv.Itoa(age*3600)}
	if rng.Intn(3) == 0 {
		lines = append(lines, "x-ext: something")
	}
	body := strings.Join(lines, eol)
	if rng.Intn(4) != 0 {
		body += eol
	}
	return body
}

// decode maps a policy object back to the (ver, age) the model knows; anything
// that is not exactly a policy the scripted host serves for d has ver -1.
func decode(d string, p *mtasts.Policy) (ver, age int) {
	if p == nil || len(p.MX) != 2 || p.MaxAge%3600 != 0 {
		return -1, 0
	}
	var v int
	if _, err := fmt.Sscanf(p.MX[0], "mx-v%d.", &v); err != nil {
		return -1, 0
	}
	mx := mxOf(d, v)
	if p.MX[0] != mx[0] || p.MX[1] != mx[1] || string(p.Mode) != modeOf(v) {
		return -1, 0
	}
	return v, p.MaxAge / 3600
}

type transport struct{}

func resp(req *http.Request, code int, ctype, body string, hdr map[string]string) *http.Response {
	h := http.Header{}
	if ctype != "" {
		h.Set("Content-Type", ctype)
	}
	for k, v := range hdr {
		h.Set(k, v)
	}
	return &http.Response{StatusCode: code, Status: fmt.Sprintf("%d %s", code, http.StatusText(code)),
		Proto: "HTTP/1.1", ProtoMajor: 1, ProtoMinor: 1, Header: h,
		Body: io.NopCloser(strings.NewReader(body)), ContentLength: int64(len(body)), Request: req}
}

func (transport) RoundTrip(req *http.Request) (*http.Response, error) {
	e := current()
	if e == nil {
		return nil, errors.New("no behaviour is running")
	}
	e.mu.Lock()
	defer e.mu.Unlock()
	host := req.URL.Hostname()
	d := strings.TrimSuffix(strings.TrimPrefix(host, "mta-sts."), suffix)
	p, known := e.pub[d]
	urlok := known && req.Method == "GET" && req.URL.Scheme == "https" && host == "mta-sts."+realDomain(d) &&
		req.URL.Port() == "" && req.URL.Path == "/.well-known/mta-sts.txt" && req.URL.RawQuery == ""
	if !urlok {
		// somebody else's host (e.g. the target of a redirect): serves a perfectly valid policy of its own
		e.fetches = append(e.fetches, vtrace.Ev{"d": host, "urlok": false, "ver": 9, "age": 20})
		body := "version: STSv1\nmode: none\nmx: mx-v9." + host + "\nmx: *.v9." + host + "\nmax_age: 72000\n"
		return resp(req, 200, "text/plain", body, nil), nil
	}
	if e.plan[d] == "http" || p.ver == 0 {
		e.fetches = append(e.fetches, vtrace.Ev{"d": d, "urlok": true, "ver": 0, "age": 0})
		good := policyBody(e.rng, d, p.ver, p.age)
		switch e.rng.Intn(12) {
		case 0:
			return resp(req, 404, "text/plain", good, nil), nil
		case 1:
			return resp(req, 500, "text/plain", good, nil), nil
		case 2:
			return resp(req, 301, "text/plain", good, map[string]string{"Location": "https://mta-sts.evil" + suffix + "/.well-known/mta-sts.txt"}), nil
		case 3:
			return resp(req, 302, "text/plain", good, map[string]string{"Location": "https://" + host + "/other.txt"}), nil
		case 4:
			return resp(req, 200, "text/html", good, nil), nil
		case 5:
			return resp(req, 200, "", good, nil), nil
		case 6:
			return nil, errors.New("connection refused")
		case 7:
			return nil, errors.New("x509: certificate signed by unknown authority")
		case 8:
			return resp(req, 200, "text/plain", strings.Replace(good, "version: STSv1", "version: STSv2", 1), nil), nil
		case 9:
			return resp(req, 200, "text/plain", "", nil), nil
		case 10:
			return resp(req, 200, "text/plain", strings.Replace(good, "mode: "+modeOf(p.ver), "mode: strict", 1), nil), nil
		}
		return resp(req, 200, "text/plain", strings.Replace(good, "max_age: ", "maxage: ", 1), nil), nil
	}
	e.fetches = append(e.fetches, vtrace.Ev{"d": d, "urlok": true, "ver": p.ver, "age": p.age})
	ctype := "text/plain"
	if e.rng.Intn(3) == 0 {
		ctype = "text/plain; charset=utf-8"
	}
	return resp(req, 200, ctype, policyBody(e.rng, d, p.ver, p.age), nil), nil
}

// ---- store observer -------------------------------------------------------------

// recStore passes everything through to the configured store and counts
// List calls (only Cache.Refresh lists the store).
type recStore struct {
	inner mtasts.Store
	e     *env
}

func (s recStore) List() ([]string, error) {
	s.e.mu.Lock()
	s.e.lists++
	s.e.mu.Unlock()
	return s.inner.List()
}
func (s recStore) Store(key, id string, ft time.Time, p *mtasts.Policy) error {
	return s.inner.Store(key, id, ft, p)
}
func (s recStore) Load(key string) (string, time.Time, *mtasts.Policy, error) {
	return s.inner.Load(key)
}

// ---- one running module -----------------------------------------------------------

type instance struct {
	pol   module.MXAuthPolicy
	cache *mtasts.Cache
	inner mtasts.Store
	get   func(context.Context, string) (*mtasts.Policy, error)
}

func start(e *env, kind, dir, life string, ready func(*instance)) (*instance, error) {
	// the way maddy does it: remote.Init -> modconfig.GroupFromNode("mx_auth") -> PolicyGroup.Init ->
	// ModuleFromNode("mx_auth.mtasts") -> NewMTASTSPolicy + Init(config.Map)
	node := config.Node{Name: "mx_auth", Children: []config.Node{{Name: "mtasts", Children: []config.Node{
		{Name: "cache", Args: []string{kind}},
		{Name: "fs_dir", Args: []string{dir}},
	}}}}
	var pg *remote.PolicyGroup
	if err := modconfig.GroupFromNode("mx_auth", nil, node, map[string]interface{}{}, &pg); err != nil {
		return nil, err
	}
	if len(pg.L) != 1 {
		return nil, fmt.Errorf("policy group has %d policies", len(pg.L))
	}
	in := &instance{pol: pg.L[0]}
	in.cache = remote.VerifMTASTSCache(in.pol)
	in.get = remote.VerifMTASTSGet(in.pol)
	if in.cache == nil || in.get == nil {
		return nil, errors.New("not an mx_auth.mtasts policy")
	}
	in.cache.Resolver = resolver{e}
	in.inner = in.cache.Store
	in.cache.Store = recStore{in.inner, e}
	ready(in) // the module is initialised; the refresh loop (if any) has not started yet
	if life == "test" {
		// what the package's own tests do in addition (remote_test.go:testSTSPolicy)
		in.pol.(interface{ StartUpdater() }).StartUpdater()
	}
	synctest.Wait()
	return in, nil
}

func (in *instance) close() {
	if c, ok := in.pol.(io.Closer); ok {
		c.Close()
	}
}

var epoch time.Time

func (in *instance) snap(e *env) vtrace.Ev {
	out := vtrace.Ev{}
	for _, d := range e.doms {
		id, ft, p, err := in.inner.Load(realDomain(d))
		ent := vtrace.Ev{"k": "none", "id": "", "ft": 0, "ver": 0, "age": 0}
		switch {
		case err == mtasts.ErrNoPolicy:
		case err != nil:
			ent["k"] = "junk"
		case p == nil:
			ent["k"] = "nullpol"
		default:
			ver, age := decode(d, p)
			h := ft.Sub(epoch)
			hours := int(h / time.Hour)
			if h%time.Hour != 0 || h < 0 {
				hours = 999999
			}
			ent = vtrace.Ev{"k": "ent", "id": id, "ft": hours, "ver": ver, "age": age}
		}
		out[d] = ent
	}
	return out
}

func str(m map[string]interface{}, k string) string { s, _ := m[k].(string); return s }
func num(m map[string]interface{}, k string) int    { f, _ := m[k].(float64); return int(f) }

func planOf(e *env, h map[string]interface{}) map[string]string {
	pl := map[string]string{}
	for _, d := range e.doms {
		pl[d] = "ok"
	}
	if h != nil {
		if raw, ok := h["plan"].(map[string]interface{}); ok {
			for d, v := range raw {
				pl[d], _ = v.(string)
			}
		}
	}
	return pl
}

// blockStore makes fsStore.Store fail for d (os.Create(<file>.tmp) hits a directory) without
// touching what Load sees; undo removes the obstacle.
func blockStore(dir, d string) (undo func()) {
	p := filepath.Join(dir, realDomain(d)+".tmp")
	if err := os.Mkdir(p, 0o777); err != nil {
		panic(err)
	}
	return func() { os.Remove(p) }
}

func runBehaviour(t *testing.T, b behaviour, tr *vtrace.Tracer, seed int64, tmp string) {
	e := &env{pub: map[string]pubState{}, plan: map[string]string{}, rng: rand.New(rand.NewSource(seed*1000003 + int64(b.ID)))}
	seen := map[string]bool{}
	for _, h := range b.Hist {
		if d := str(h, "d"); d != "" && !seen[d] {
			seen[d] = true
		}
		if pl, ok := h["plan"].(map[string]interface{}); ok {
			for d := range pl {
				seen[d] = true
			}
		}
	}
	for _, d := range []string{"d1", "d2", "d3"} {
		if seen[d] {
			e.doms = append(e.doms, d)
			e.pub[d] = pubState{txt: "none"}
			e.plan[d] = "ok"
		}
	}
	dir := filepath.Join(tmp, fmt.Sprintf("sts-%d", b.ID))
	defer os.RemoveAll(dir)
	curMu.Lock()
	cur = e
	curMu.Unlock()

	epoch = time.Now()
	tr.Emit("Cfg", vtrace.Ev{"kind": b.Cfg.Kind, "life": b.Cfg.Life, "doms": e.doms})

	// collect what a step made the code do
	take := func() (fs []vtrace.Ev, q []string) {
		e.mu.Lock()
		defer e.mu.Unlock()
		fs, q = e.fetches, e.txtq
		if fs == nil {
			fs = []vtrace.Ev{}
		}
		if q == nil {
			q = []string{}
		}
		e.fetches, e.txtq = nil, nil
		return
	}
	setPlan := func(pl map[string]string) (undo func()) {
		var undos []func()
		e.mu.Lock()
		for d, f := range pl {
			e.plan[d] = f
		}
		e.mu.Unlock()
		for _, d := range e.doms {
			if pl[d] == "store" && b.Cfg.Kind == "fs" {
				undos = append(undos, blockStore(dir, d))
			}
		}
		return func() {
			for _, u := range undos {
				u()
			}
			e.mu.Lock()
			for d := range e.plan {
				e.plan[d] = "ok"
			}
			e.mu.Unlock()
		}
	}
	next := func(i int) map[string]interface{} {
		if i+1 < len(b.Hist) && str(b.Hist[i+1], "a") == "AutoRefresh" {
			return b.Hist[i+1]
		}
		return nil
	}
	var in *instance
	lists := 0
	// after a step during which the refresh loop may have run: report the run
	reportRefresh := func(pl map[string]string) {
		e.mu.Lock()
		ran := e.lists > lists
		lists = e.lists
		pan := e.panics > 0
		e.panics = 0
		e.mu.Unlock()
		if !ran {
			return
		}
		fs, q := take()
		tr.Emit("Refresh", vtrace.Ev{"plan": pl, "fetch": fs, "txtq": q, "snap": in.snap(e), "panicked": pan})
	}
	boot := func(i int, ev string) {
		pl := planOf(e, next(i))
		undo := setPlan(pl)
		var err error
		in, err = start(e, b.Cfg.Kind, dir, b.Cfg.Life, func(in *instance) {
			if ev != "" {
				tr.Emit(ev, vtrace.Ev{"snap": in.snap(e)})
			}
		})
		undo()
		if err != nil {
			t.Fatalf("behaviour %d: cannot start mx_auth.mtasts: %v", b.ID, err)
		}
		reportRefresh(pl)
	}
	boot(-1, "")

	for i, h := range b.Hist {
		switch str(h, "a") {
		case "AutoRefresh":
			// performed by the module itself when it became due (boot / Tick); nothing to drive
		case "Publish":
			d := str(h, "d")
			e.mu.Lock()
			e.pub[d] = pubState{txt: str(h, "txt"), ver: num(h, "ver"), age: num(h, "age")}
			e.mu.Unlock()
			tr.Emit("Publish", vtrace.Ev{"d": d, "txt": str(h, "txt"), "ver": num(h, "ver"), "age": num(h, "age")})
		case "Tick":
			pl := planOf(e, next(i))
			undo := setPlan(pl)
			time.Sleep(time.Duration(num(h, "dt")) * time.Hour)
			synctest.Wait()
			undo()
			tr.Emit("Tick", vtrace.Ev{"dt": num(h, "dt")})
			reportRefresh(pl)
		case "Get":
			d, flt := str(h, "d"), str(h, "flt")
			undo := setPlan(map[string]string{d: flt})
			res := vtrace.Ev{"kind": "", "ver": 0, "age": 0}
			func() {
				defer func() {
					if r := recover(); r != nil {
						res["kind"] = "panic"
						res["msg"] = fmt.Sprint(r)
					}
				}()
				p, err := in.get(context.Background(), realDomain(d))
				switch {
				case err == nil && p == nil:
					res["kind"] = "nil"
				case err == nil:
					res["kind"] = "policy"
					res["ver"], res["age"] = decode(d, p)
				case mtasts.IsNoPolicy(err):
					res["kind"] = "nopolicy"
				default:
					res["kind"] = "temp"
					res["msg"] = err.Error()
				}
			}()
			undo()
			fs, q := take()
			tr.Emit("Get", vtrace.Ev{"d": d, "flt": flt, "res": res, "fetch": fs, "txtq": q, "snap": in.snap(e)})
		case "Restart":
			in.close()
			synctest.Wait()
			boot(i, "Restart")
		case "Corrupt":
			d, kind := str(h, "d"), str(h, "kind")
			p := filepath.Join(dir, realDomain(d))
			// (if the code under test did not write the file the model expects, the damaged file is created:
			// the snapshot of this event then tells the difference)
			old, _ := os.ReadFile(p)
			os.MkdirAll(dir, 0o777)
			var data []byte
			if kind == "nullpol" {
				alts := []string{"{}", "null", `{"ID":"i1","FetchTime":"2000-01-01T00:00:00Z"}`, `{"ID":"i1","FetchTime":"2000-01-01T00:00:00Z","Policy":null}`}
				data = []byte(alts[e.rng.Intn(len(alts))])
			} else {
				v := e.rng.Intn(5)
				if len(old) < 8 && v >= 3 {
					v = e.rng.Intn(3) // nothing left to tear
				}
				switch v {
				case 0:
					data = []byte{}
				case 1:
					data = make([]byte, len(old)+1) // a block of NULs, as after an unclean shutdown
				case 2:
					data = []byte("\x7fELF garbage")
				default:
					data = old[:1+e.rng.Intn(len(old)-3)] // torn write
				}
			}
			if err := os.WriteFile(p, data, 0o666); err != nil {
				t.Fatal(err)
			}
			tr.Emit("Corrupt", vtrace.Ev{"d": d, "kind": kind, "snap": in.snap(e)})
		case "End":
			e.mu.Lock()
			bad := e.badName
			e.mu.Unlock()
			tr.Emit("End", vtrace.Ev{"badName": bad})
		default:
			t.Fatalf("behaviour %d: unknown action %v", b.ID, h)
		}
	}
	in.close()
	synctest.Wait()
}

func TestReplay(t *testing.T) {
	inPath, outPath := os.Getenv("VERIF_IN"), os.Getenv("VERIF_OUT")
	if inPath == "" || outPath == "" {
		t.Skip("VERIF_IN / VERIF_OUT not set")
	}
	tmp := os.Getenv("VERIF_TMP")
	if tmp == "" {
		tmp = t.TempDir()
	}
	seed, _ := strconv.ParseInt(os.Getenv("VERIF_SEED"), 10, 64)
	fin, err := os.Open(inPath)
	if err != nil {
		t.Fatal(err)
	}
	defer fin.Close()
	fout, err := os.Create(outPath)
	if err != nil {
		t.Fatal(err)
	}
	defer fout.Close()
	w := bufio.NewWriter(fout)
	defer w.Flush()

	oldT := http.DefaultTransport
	http.DefaultTransport = transport{}
	defer func() { http.DefaultTransport = oldT }()
	log.DefaultLogger.Debug = true
	log.DefaultLogger.Out = log.FuncOutput(func(_ time.Time, _ bool, msg string) {
		if e := current(); e != nil && strings.Contains(msg, "panic during MTA-STS update") {
			e.mu.Lock()
			e.panics++
			e.mu.Unlock()
		}
	}, func() error { return nil })

	sc := bufio.NewScanner(fin)
	sc.Buffer(make([]byte, 1<<20), 1<<26)
	for sc.Scan() {
		if len(strings.TrimSpace(sc.Text())) == 0 {
			continue
		}
		var b behaviour
		if err := json.Unmarshal(sc.Bytes(), &b); err != nil {
			t.Fatalf("bad behaviour line: %v", err)
		}
		tr := vtrace.New(w, b.ID)
		synctest.Test(t, func(t *testing.T) { runBehaviour(t, b, tr, seed, tmp) })
	}
	if err := sc.Err(); err != nil {
		t.Fatal(err)
	}
}
