package stscachecheck

// Reproductions of the findings of extension X02 against the real code, outside the
// model (go1.26 test -tags verif -run TestFinding ./stscachecheck, in /verif/harness).
// They document what happens on the unchanged tree; they print, they do not fail.

import (
	"context"
	"fmt"
	"net"
	"net/http"
	"os"
	"path/filepath"
	"strings"
	"testing"
	"time"

	"github.com/emersion/go-message/textproto"
	"github.com/emersion/go-smtp"
	"github.com/foxcpp/go-mockdns"
	mtasts "github.com/foxcpp/go-mtasts"
	"github.com/foxcpp/maddy/framework/buffer"
	"github.com/foxcpp/maddy/framework/config"
	modconfig "github.com/foxcpp/maddy/framework/config/module"
	"github.com/foxcpp/maddy/framework/log"
	"github.com/foxcpp/maddy/framework/module"
	"github.com/foxcpp/maddy/internal/smtpconn/pool"
	"github.com/foxcpp/maddy/internal/target/queue"
	"github.com/foxcpp/maddy/internal/target/remote"
	"github.com/foxcpp/maddy/verifharness/scripted"
	"github.com/foxcpp/maddy/verifharness/vtrace"
)

type fixedTXT struct{ rec string }

func (f fixedTXT) LookupTXT(ctx context.Context, name string) ([]string, error) {
	return []string{f.rec}, nil
}

type fixedPolicyHost struct{ body string }

func (h fixedPolicyHost) RoundTrip(req *http.Request) (*http.Response, error) {
	return resp(req, 200, "text/plain", h.body, nil), nil
}

// mtastsFromConfig builds mx_auth { mtasts { cache fs; fs_dir dir } } the way remote.Init does.
func mtastsFromConfig(t *testing.T, dir string) module.MXAuthPolicy {
	node := config.Node{Name: "mx_auth", Children: []config.Node{{Name: "mtasts", Children: []config.Node{
		{Name: "cache", Args: []string{"fs"}}, {Name: "fs_dir", Args: []string{dir}}}}}}
	var pg *remote.PolicyGroup
	if err := modconfig.GroupFromNode("mx_auth", nil, node, map[string]interface{}{}, &pg); err != nil {
		t.Fatal(err)
	}
	return pg.L[0]
}

// X02-F1 end to end: a queued message for a domain whose enforce policy has a wildcard mx pattern and whose
// MX host is an IDN in A-label form.  Policy.Match panics inside mtastsDelivery.CheckMX; the queue's panic
// handler marks the message broken: it is neither delivered nor reported as failed (property C01).
func TestFindingF1QueueLosesMessage(t *testing.T) {
	dir := t.TempDir()
	oldT := http.DefaultTransport
	defer func() { http.DefaultTransport = oldT }()
	http.DefaultTransport = fixedPolicyHost{"version: STSv1\nmode: enforce\nmx: *.example.de\nmax_age: 604800\n"}
	log.DefaultLogger.Out = log.FuncOutput(func(_ time.Time, _ bool, msg string) {
		if strings.Contains(msg, "panic") {
			fmt.Println("   maddy log:", strings.SplitN(msg, "\n", 2)[0])
		}
	}, func() error { return nil })

	pol := mtastsFromConfig(t, filepath.Join(dir, "mtasts_cache"))
	remote.VerifMTASTSCache(pol).Resolver = fixedTXT{"v=STSv1; id=20240101;"}

	rt := remote.VerifRemoteNewTarget(remote.VerifRemoteConfig{
		Hostname: "mx.sender.example",
		Resolver: &mockdns.Resolver{Zones: map[string]mockdns.Zone{
			"example.de.":       {MX: []net.MX{{Host: "xn--bcher-kva.de.", Pref: 10}}},
			"xn--bcher-kva.de.": {A: []string{"127.0.0.1"}},
		}},
		Dialer: func(ctx context.Context, network, addr string) (net.Conn, error) {
			return nil, fmt.Errorf("no network in this test")
		},
		Policies:       []module.MXAuthPolicy{pol},
		Pool:           pool.Config{MaxKeys: 100, MaxConnsPerKey: 5, MaxConnLifetimeSec: 150, StaleKeyLifetimeSec: 300},
		ConnReuseLimit: 1, ConnectTimeout: 5 * time.Second, CommandTimeout: 5 * time.Second,
		SubmissionTimeout: 5 * time.Second, Log: log.Logger{Out: log.NopOutput{}},
	})
	defer rt.Close()

	tr := vtrace.New(nil, 1)
	tr.Keep = true
	bounce := &scripted.Bounce{Tr: tr, ID: func(a string) string { return a }, Sender: "sender@sender.example", OrigSubject: "x02-f1"}
	spool := filepath.Join(dir, "spool")
	os.MkdirAll(spool, 0o777)
	q, err := queue.VerifNewQueue(queue.VerifConfig{
		Location: spool, Target: rt, Bounce: bounce, MaxTries: 3, MaxParallelism: 1,
		InitialRetryTime: time.Millisecond, RetryTimeScale: 1, PostInitDelay: 0,
		Hostname: "mx.sender.example", AutogenMsgDomain: "sender.example", Log: log.Logger{Out: log.NopOutput{}},
	})
	if err != nil {
		t.Fatal(err)
	}
	ctx := context.Background()
	from := "sender@sender.example"
	d, err := q.Start(ctx, &module.MsgMetadata{ID: "x02f1", OriginalFrom: from}, from)
	if err != nil {
		t.Fatal(err)
	}
	if err := d.AddRcpt(ctx, "user@example.de", smtp.RcptOptions{}); err != nil {
		t.Fatal(err)
	}
	hdr := textproto.Header{}
	hdr.Add("Subject", "x02-f1")
	if err := d.Body(ctx, hdr, buffer.MemoryBuffer{Slice: []byte("hello\r\n")}); err != nil {
		t.Fatal(err)
	}
	if err := d.Commit(ctx); err != nil {
		t.Fatal(err)
	}
	fmt.Println("X02-F1: message for user@example.de accepted by the queue (MX xn--bcher-kva.de., policy mx: *.example.de, mode enforce)")
	time.Sleep(1500 * time.Millisecond)
	q.Close()
	ents, _ := os.ReadDir(spool)
	var names []string
	for _, e := range ents {
		names = append(names, e.Name())
	}
	reports := 0
	for _, e := range tr.Evs {
		if e["e"] == "Dsn" {
			reports++
		}
	}
	fmt.Printf("X02-F1: spool after the attempt: %v; failure reports handed to the bounce pipeline: %d\n", names, reports)
	broken := false
	for _, n := range names {
		if strings.HasSuffix(n, ".meta_broken") {
			broken = true
		}
	}
	if broken && reports == 0 {
		fmt.Println("X02-F1 REPRODUCED: the message was marked broken by the queue's panic handler: not delivered, not retried, no failure report (breaks C01)")
	} else {
		fmt.Println("X02-F1 not reproduced on this tree")
	}
}

// X02-F1 at the API: the three faces of the wrong offset.
func TestFindingF1Match(t *testing.T) {
	try := func(pat, mx string) {
		defer func() {
			if r := recover(); r != nil {
				fmt.Printf("X02-F1: Policy{MX:[%q]}.Match(%q) PANICS: %v\n", pat, mx, r)
			}
		}()
		p := mtasts.Policy{Mode: mtasts.ModeEnforce, MX: []string{pat}}
		fmt.Printf("X02-F1: Policy{MX:[%q]}.Match(%q) = %v\n", pat, mx, p.Match(mx))
	}
	try("*.example.de", "xn--bcher-kva.de")                // panic
	try("*.xn--bcher-kva.de", "xn--4ca.xn--bcher-kva.de")  // false although ä.bücher.de is one label below
	try("*.beta", "xn--bcher-kva.alpha.beta")              // true although two labels below
	try("xn--bcher-kva.de", "XN--BCHER-KVA.DE")            // false: upper-case A-label
}

// X02-F2: the cache cannot be written.
func TestFindingF2StoreFailure(t *testing.T) {
	dir := t.TempDir()
	oldT := http.DefaultTransport
	defer func() { http.DefaultTransport = oldT }()
	http.DefaultTransport = fixedPolicyHost{"version: STSv1\nmode: enforce\nmx: mx.example.org\nmax_age: 604800\n"}
	pol := mtastsFromConfig(t, dir)
	remote.VerifMTASTSCache(pol).Resolver = fixedTXT{"v=STSv1; id=1;"}
	os.Mkdir(filepath.Join(dir, "example.org.tmp"), 0o777) // os.Create(<dir>/example.org.tmp) fails
	p, err := remote.VerifMTASTSGet(pol)(context.Background(), "example.org")
	fmt.Printf("X02-F2: Get with an unwritable cache returned policy=%v err=%v\n", p, err)
	dl := pol.Start(&module.MsgMetadata{ID: "x02f2"})
	dl.PrepareDomain(context.Background(), "example.org")
	func() {
		defer func() {
			if r := recover(); r != nil {
				fmt.Println("X02-F2 REPRODUCED: CheckMX panics:", r)
			}
		}()
		lvl, err := dl.CheckMX(context.Background(), module.MXNone, "example.org", "mx.example.org", false)
		fmt.Println("X02-F2: CheckMX returned", lvl, err)
	}()
}

// X02-F4: built the way maddy builds it, the module never refreshes anything.
func TestFindingF4NoUpdater(t *testing.T) {
	src, err := os.ReadFile(filepath.Join(repoRoot(), "internal/target/remote/security.go"))
	if err == nil {
		fmt.Println("X02-F4: 'StartUpdater()' call sites in security.go besides its definition:",
			strings.Count(string(src), "StartUpdater()")-1)
	}
}

func repoRoot() string {
	if r := os.Getenv("VERIF_REPO"); r != "" {
		return r
	}
	return "/repo"
}
