//go:debug rsa1024min=0

// Package inboundauthcheck runs the rows of spec/InboundAuth.tla (printed by
// TLC) through the real inbound authentication checks of maddy and records
// what the message pipeline did with the message:
//
//   - the real check.spf / check.dkim modules (internal/check/spf, .../dkim),
//     created by their own New, configured by their own Init from configuration
//     text rendered from the row (the directives are TLC's), placed in a real
//     internal/msgpipeline (global / source / destination block, "dmarc yes|no");
//   - DNS is a go-mockdns resolver filled from the row's zone (SPF and DMARC
//     record texts are TLC's; DKIM key records are the public halves of keys
//     generated here);
//   - DKIM-Signature fields are real signatures made with go-msgauth over the
//     row's message (or over a deliberately different one: bad body hash,
//     altered header, expired, unsigned required field, ...).
//
// Observed: the stage at which the pipeline refused (Start = MAIL, AddRcpt =
// RCPT, Body = DATA), the SMTP code / enhanced code / temporary flag of the
// refusal, the quarantine flag and the Authentication-Results field the
// delivery target saw.
//
// Input  (VERIF_IN):  {"id":N,"in":{...},"world":{...}}
// Output (VERIF_OUT): {"t":id,"seq":1,"e":"Row","in":...,"out":{...}}
package inboundauthcheck

import (
	"bufio"
	"bytes"
	"context"
	"crypto"
	"crypto/ed25519"
	"crypto/rand"
	"crypto/rsa"
	"crypto/x509"
	"encoding/base64"
	"encoding/json"
	"errors"
	"fmt"
	"net"
	"os"
	"strings"
	"sync"
	"testing"
	"time"

	"github.com/emersion/go-message/textproto"
	"github.com/emersion/go-msgauth/authres"
	"github.com/emersion/go-msgauth/dkim"
	"github.com/emersion/go-smtp"
	"github.com/foxcpp/go-mockdns"
	"github.com/foxcpp/maddy/framework/buffer"
	parser "github.com/foxcpp/maddy/framework/cfgparser"
	"github.com/foxcpp/maddy/framework/config"
	"github.com/foxcpp/maddy/framework/exterrors"
	"github.com/foxcpp/maddy/framework/log"
	"github.com/foxcpp/maddy/framework/module"
	dkimcheck "github.com/foxcpp/maddy/internal/check/dkim"
	spfcheck "github.com/foxcpp/maddy/internal/check/spf"
	"github.com/foxcpp/maddy/internal/msgpipeline"
	"github.com/foxcpp/maddy/verifharness/vtrace"
	"golang.org/x/net/idna"
)

// ---- row format ---------------------------------------------------------------

type Directive struct {
	D string   `json:"d"`
	A []string `json:"a"`
}

type CheckCfg struct {
	Mod   string      `json:"mod"`   // "spf" | "dkim"
	Place string      `json:"place"` // "global" | "source" | "dest"
	Cfg   []Directive `json:"cfg"`
}

type ZoneEnt struct {
	Name string   `json:"name"`
	Err  string   `json:"err"` // "" | "servfail"
	Txt  []string `json:"txt"`
	A    []string `json:"a"`
	MX   []string `json:"mx"`
}

type Sig struct {
	K string `json:"k"`
	D string `json:"d"`
}

type World struct {
	Checks []CheckCfg `json:"checks"`
	Pdmarc bool       `json:"pdmarc"`
	Host   string     `json:"hostname"` // the pipeline's hostname = authserv-id
	Forged []string   `json:"forged"`   // Authentication-Results field values the client put in
	Conn   string     `json:"conn"`   // tcp4 | tcp6 | unix | local
	Helo   string     `json:"helo"`   // HELO name
	Sender string     `json:"sender"` // MAIL FROM address, "" = null reverse-path
	UTF8   bool       `json:"utf8"`
	From   struct {
		Shape string `json:"shape"` // one | nofrom | twofrom
		Dom   string `json:"dom"`
	} `json:"from"`
	Sigs []Sig     `json:"sigs"`
	Zone []ZoneEnt `json:"zone"`
}

type Row struct {
	ID    int   `json:"id"`
	World World `json:"world"`
}

type AREntry struct {
	M string `json:"m"`
	V string `json:"v"`
	A string `json:"a"`
	B string `json:"b"`
	R string `json:"r"` // reason text (diagnosis only, the spec does not read it)
}

type Out struct {
	Cfg       string    `json:"cfg"`
	Stage     string    `json:"stage"`
	Class     string    `json:"class"`
	Code      int       `json:"code"`
	Enh       string    `json:"enh"`
	Ar        []AREntry `json:"ar"`
	Delivered bool      `json:"delivered"`
	Err       string    `json:"err"`
	ArRaw     string    `json:"arRaw"`
	Foreign   int       `json:"foreign"` // Authentication-Results fields under another authserv-id
	Queries   []string  `json:"queries"`
}

// ---- DNS: one resolver for every pipeline, the row's zone travels in the context ----

type rowKey struct{}

type rowEnv struct {
	r       *mockdns.Resolver
	mu      sync.Mutex
	queries []string
}

func (e *rowEnv) note(kind, name string) {
	e.mu.Lock()
	e.queries = append(e.queries, kind+" "+name)
	e.mu.Unlock()
}

type ctxResolver struct{}

var errNoEnv = errors.New("inboundauthcheck: lookup outside of a row")

func envOfCtx(ctx context.Context) *rowEnv {
	e, _ := ctx.Value(rowKey{}).(*rowEnv)
	return e
}

func (ctxResolver) LookupAddr(ctx context.Context, a string) ([]string, error) {
	e := envOfCtx(ctx)
	if e == nil {
		return nil, errNoEnv
	}
	e.note("PTR", a)
	return e.r.LookupAddr(ctx, a)
}
func (ctxResolver) LookupHost(ctx context.Context, h string) ([]string, error) {
	e := envOfCtx(ctx)
	if e == nil {
		return nil, errNoEnv
	}
	e.note("HOST", h)
	return e.r.LookupHost(ctx, h)
}
func (ctxResolver) LookupMX(ctx context.Context, n string) ([]*net.MX, error) {
	e := envOfCtx(ctx)
	if e == nil {
		return nil, errNoEnv
	}
	e.note("MX", n)
	return e.r.LookupMX(ctx, n)
}
func (ctxResolver) LookupTXT(ctx context.Context, n string) ([]string, error) {
	e := envOfCtx(ctx)
	if e == nil {
		return nil, errNoEnv
	}
	e.note("TXT", n)
	return e.r.LookupTXT(ctx, n)
}
func (ctxResolver) LookupIPAddr(ctx context.Context, h string) ([]net.IPAddr, error) {
	e := envOfCtx(ctx)
	if e == nil {
		return nil, errNoEnv
	}
	e.note("IP", h)
	return e.r.LookupIPAddr(ctx, h)
}

// ---- keys and signatures --------------------------------------------------------

type keyring struct {
	rsa2048 *rsa.PrivateKey
	rsa512  *rsa.PrivateKey
	ed      ed25519.PrivateKey
	txt     map[string]string // placeholder -> TXT record
}

func newKeyring(t *testing.T) *keyring {
	k := &keyring{txt: map[string]string{}}
	var err error
	if k.rsa2048, err = rsa.GenerateKey(rand.Reader, 2048); err != nil {
		t.Fatalf("rsa 2048: %v", err)
	}
	if k.rsa512, err = rsa.GenerateKey(rand.Reader, 512); err != nil {
		t.Fatalf("rsa 512 (needs //go:debug rsa1024min=0): %v", err)
	}
	if _, k.ed, err = ed25519.GenerateKey(rand.Reader); err != nil {
		t.Fatalf("ed25519: %v", err)
	}
	der := func(pub interface{}) string {
		b, err := x509.MarshalPKIXPublicKey(pub)
		if err != nil {
			t.Fatal(err)
		}
		return base64.StdEncoding.EncodeToString(b)
	}
	k.txt["KEY:rsa"] = "v=DKIM1; k=rsa; p=" + der(&k.rsa2048.PublicKey)
	k.txt["KEY:short"] = "v=DKIM1; k=rsa; p=" + der(&k.rsa512.PublicKey)
	k.txt["KEY:ed"] = "v=DKIM1; k=ed25519; p=" + base64.StdEncoding.EncodeToString(k.ed.Public().(ed25519.PublicKey))
	k.txt["KEY:revoked"] = "v=DKIM1; k=rsa; p="
	return k
}

const (
	msgBody    = "Hello,\r\n\r\nthis is the body of the message.\r\n"
	msgBodyAlt = "Hello,\r\n\r\nthis is NOT the body that was signed.\r\n"
)

func baseHeader(w World, subject string) string {
	var b strings.Builder
	switch w.From.Shape {
	case "one":
		b.WriteString("From: Author <author@" + w.From.Dom + ">\r\n")
	case "nofrom":
	case "twofrom":
		b.WriteString("From: A <a@" + w.From.Dom + ">, B <b@" + w.From.Dom + ">\r\n")
	default:
		panic("unknown From shape " + w.From.Shape)
	}
	b.WriteString("To: <rcpt@rcpt.example>\r\n")
	b.WriteString("Subject: " + subject + "\r\n")
	b.WriteString("Date: Fri, 11 Jul 2003 21:00:37 -0700\r\n")
	b.WriteString("Message-Id: <x03@verif.invalid>\r\n")
	return b.String()
}

type sigKey struct {
	k, d, hdr string
}

type signer struct {
	keys  *keyring
	mu    sync.Mutex
	cache map[sigKey]string
}

// field returns the DKIM-Signature field (with its CRLF) of kind k by domain d for a
// message with header text hdr (everything but the signatures) and the body msgBody.
func (s *signer) field(t *testing.T, k, d, hdr string, w World) string {
	key := sigKey{k, d, hdr}
	s.mu.Lock()
	defer s.mu.Unlock()
	if f, ok := s.cache[key]; ok {
		return f
	}
	signed := hdr
	body := msgBody
	opts := &dkim.SignOptions{
		Domain:                 d,
		Selector:               k,
		Signer:                 s.keys.rsa2048,
		Hash:                   crypto.SHA256,
		HeaderCanonicalization: dkim.CanonicalizationRelaxed,
		BodyCanonicalization:   dkim.CanonicalizationRelaxed,
		HeaderKeys:             []string{"From", "Subject", "To", "Date"},
	}
	switch k {
	case "pass", "nokey", "revoked", "temp", "lentag", "sha1":
	case "wrongi":
		opts.Identifier = "@elsewhere.example"
	case "passlc":
		opts.HeaderKeys = []string{"from", "subject", "to", "date"}
	case "ed":
		opts.Signer = s.keys.ed
	case "nosubj":
		opts.HeaderKeys = []string{"From", "To", "Date"}
	case "noto":
		opts.HeaderKeys = []string{"From", "Subject", "Date"}
	case "badbody":
		body = msgBodyAlt
	case "badsig":
		signed = baseHeader(w, "another subject")
	case "shortkey":
		opts.Signer = s.keys.rsa512
	case "expired":
		opts.Expiration = time.Date(2001, 1, 1, 0, 0, 0, 0, time.UTC)
	case "malformed":
		f := "DKIM-Signature: this field does not hold a tag list\r\n"
		s.cache[key] = f
		return f
	default:
		t.Fatalf("unknown signature kind %q", k)
	}
	sg, err := dkim.NewSigner(opts)
	if err != nil {
		t.Fatalf("signer for %s: %v", k, err)
	}
	if _, err := sg.Write([]byte(signed + "\r\n" + body)); err != nil {
		t.Fatalf("sign %s: %v", k, err)
	}
	if err := sg.Close(); err != nil {
		t.Fatalf("sign %s: %v", k, err)
	}
	f := sg.Signature()
	if k == "lentag" {
		// a body length tag; the signature itself is no longer valid either, which does
		// not matter: body-subset signatures are not acceptable (dkim.md: allow_body_subset no)
		f = strings.Replace(f, " v=1;", " v=1; l=5;", 1)
		if !strings.Contains(f, "l=5;") {
			t.Fatalf("could not add l= to %q", f)
		}
	}
	if k == "sha1" {
		f = strings.Replace(f, "a=rsa-sha256;", "a=rsa-sha1;", 1)
		if !strings.Contains(f, "a=rsa-sha1;") {
			t.Fatalf("could not rewrite a= in %q", f)
		}
	}
	if k == "wrongi" && !strings.Contains(f, "i=@elsewhere.example") {
		t.Fatalf("signer did not write i= into %q", f)
	}
	s.cache[key] = f
	return f
}

// ---- the recording target --------------------------------------------------------

type seen struct {
	body, committed bool
	quarantine      bool
	arHdr           []string
}

type tgt struct {
	mu   sync.Mutex
	msgs map[string]*seen
}

func (t *tgt) Init(*config.Map) error { return nil }
func (t *tgt) Name() string           { return "x03_target" }
func (t *tgt) InstanceName() string   { return "x03_target" }
func (t *tgt) get(id string) *seen {
	t.mu.Lock()
	defer t.mu.Unlock()
	s := t.msgs[id]
	if s == nil {
		s = &seen{}
		t.msgs[id] = s
	}
	return s
}
func (t *tgt) take(id string) *seen {
	t.mu.Lock()
	defer t.mu.Unlock()
	s := t.msgs[id]
	delete(t.msgs, id)
	return s
}
func (t *tgt) Start(_ context.Context, m *module.MsgMetadata, _ string) (module.Delivery, error) {
	return &tgtDelivery{t: t, m: m}, nil
}

type tgtDelivery struct {
	t *tgt
	m *module.MsgMetadata
}

func (d *tgtDelivery) AddRcpt(context.Context, string, smtp.RcptOptions) error { return nil }
func (d *tgtDelivery) Body(_ context.Context, h textproto.Header, _ buffer.Buffer) error {
	s := d.t.get(d.m.ID)
	s.body = true
	s.quarantine = d.m.Quarantine
	s.arHdr = h.Values("Authentication-Results")
	return nil
}
func (d *tgtDelivery) Abort(context.Context) error { return nil }
func (d *tgtDelivery) Commit(context.Context) error {
	s := d.t.get(d.m.ID)
	s.committed = true
	s.quarantine = s.quarantine || d.m.Quarantine
	return nil
}

// ---- pipelines, one per distinct configuration ------------------------------------

type harness struct {
	t     *testing.T
	tgt   *tgt
	keys  *keyring
	sign  *signer
	pipes map[string]*pipeRes
}

type pipeRes struct {
	p   *msgpipeline.MsgPipeline
	err error
	txt string
}

var registerOnce sync.Once

func registerModules(tg *tgt) {
	registerOnce.Do(func() {
		// the real modules, created by their own constructors; only the resolver is replaced
		module.Register("check.x03_spf", func(_, instName string, _, inlineArgs []string) (module.Module, error) {
			m, err := spfcheck.New("check.spf", instName, nil, inlineArgs)
			if err != nil {
				return nil, err
			}
			spfcheck.VerifSetResolver(m.(*spfcheck.Check), ctxResolver{})
			return m, nil
		})
		module.Register("check.x03_dkim", func(_, instName string, _, inlineArgs []string) (module.Module, error) {
			m, err := dkimcheck.New("check.dkim", instName, nil, inlineArgs)
			if err != nil {
				return nil, err
			}
			dkimcheck.VerifSetResolver(m.(*dkimcheck.Check), ctxResolver{})
			return m, nil
		})
		module.RegisterInstance(tg, nil)
	})
}

func quote(s string) string {
	if s == "" || strings.ContainsAny(s, " \t\"{};") {
		return `"` + strings.ReplaceAll(s, `"`, `\"`) + `"`
	}
	return s
}

func renderChecks(cs []CheckCfg, place, indent string) string {
	var b strings.Builder
	n := 0
	for _, c := range cs {
		if c.Place != place {
			continue
		}
		if n == 0 {
			b.WriteString(indent + "check {\n")
		}
		n++
		b.WriteString(indent + "    x03_" + c.Mod + " {\n")
		for _, d := range c.Cfg {
			b.WriteString(indent + "        " + d.D)
			for _, a := range d.A {
				b.WriteString(" " + quote(a))
			}
			b.WriteString("\n")
		}
		b.WriteString(indent + "    }\n")
	}
	if n > 0 {
		b.WriteString(indent + "}\n")
	}
	return b.String()
}

func renderConfig(w World) string {
	var b strings.Builder
	if w.Pdmarc {
		b.WriteString("dmarc yes\n")
	} else {
		b.WriteString("dmarc no\n")
	}
	b.WriteString(renderChecks(w.Checks, "global", ""))
	src := renderChecks(w.Checks, "source", "    ")
	dst := renderChecks(w.Checks, "dest", "    ")
	switch {
	case src != "" && dst != "":
		b.WriteString("default_source {\n" + src + "    default_destination {\n" +
			renderChecks(w.Checks, "dest", "        ") + "        deliver_to &x03_target\n    }\n}\n")
	case src != "":
		b.WriteString("default_source {\n" + src + "    deliver_to &x03_target\n}\n")
	case dst != "":
		b.WriteString("default_destination {\n" + dst + "    deliver_to &x03_target\n}\n")
	default:
		b.WriteString("deliver_to &x03_target\n")
	}
	return b.String()
}

func (h *harness) pipeline(w World) *pipeRes {
	txt := renderConfig(w)
	if w.Host == "" {
		h.t.Fatalf("row without hostname")
	}
	if pr, ok := h.pipes[txt]; ok {
		return pr
	}
	pr := &pipeRes{txt: txt}
	nodes, err := parser.Read(strings.NewReader(txt), "x03.conf")
	if err != nil {
		h.t.Fatalf("the rendered configuration does not even parse (harness error): %v\n%s", err, txt)
	}
	p, err := msgpipeline.New(map[string]interface{}{}, nodes)
	if err != nil {
		pr.err = err
	} else {
		p.Resolver = ctxResolver{}
		p.Hostname = w.Host
		p.Log = log.Logger{Out: log.NopOutput{}}
		pr.p = p
	}
	h.pipes[txt] = pr
	return pr
}

// ---- one row ------------------------------------------------------------------------

func normName(s string) string {
	if s == "" {
		return ""
	}
	a, err := idna.ToASCII(s)
	if err != nil {
		return "unnormalizable:" + s
	}
	return strings.ToLower(strings.TrimSuffix(a, "."))
}

// authServID returns the authserv-id of an Authentication-Results field value
// (RFC 8601 2.2: authserv-id [ CFWS authres-version ] before the first ";").
func authServID(v string) string {
	head := v
	if i := strings.IndexByte(v, ';'); i >= 0 {
		head = v[:i]
	}
	f := strings.Fields(head)
	if len(f) == 0 {
		return ""
	}
	return f[0]
}

// parseAR returns the entries of the fields that bear the server's own authserv-id
// (compared case-insensitively), top to bottom, and the number of other fields.
func parseAR(vals []string, own string) ([]AREntry, int, string) {
	out := []AREntry{}
	foreign := 0
	for _, v := range vals {
		if !strings.EqualFold(authServID(v), own) {
			foreign++
			continue
		}
		if id := authServID(v); true {
			// go-msgauth does not know the optional version: drop it before parsing
			if i := strings.IndexByte(v, ';'); i >= 0 {
				v = id + v[i:]
			}
		}
		_, results, err := authres.Parse(v)
		if err != nil {
			return out, foreign, "unparsable Authentication-Results: " + err.Error()
		}
		for _, r := range results {
			switch r := r.(type) {
			case *authres.SPFResult:
				out = append(out, AREntry{M: "spf", V: string(r.Value), A: normName(r.From), B: normName(r.Helo), R: r.Reason})
			case *authres.DKIMResult:
				out = append(out, AREntry{M: "dkim", V: string(r.Value), A: normName(r.Domain), B: strings.ToLower(r.Identifier), R: r.Reason})
			case *authres.DMARCResult:
				out = append(out, AREntry{M: "dmarc", V: string(r.Value), A: normName(r.From), R: r.Reason})
			default:
				out = append(out, AREntry{M: fmt.Sprintf("%T", r)})
			}
		}
	}
	return out, foreign, ""
}

func (h *harness) zone(w World) map[string]mockdns.Zone {
	z := map[string]mockdns.Zone{}
	for _, e := range w.Zone {
		name := strings.ToLower(e.Name) + "."
		var zn mockdns.Zone
		switch e.Err {
		case "":
			for _, t := range e.Txt {
				if strings.HasPrefix(t, "KEY:") {
					k, ok := h.keys.txt[t]
					if !ok {
						h.t.Fatalf("unknown key placeholder %q", t)
					}
					t = k
				}
				zn.TXT = append(zn.TXT, t)
			}
			zn.A = []string{"192.0.2.200"} // the name exists, whatever it has
			if len(e.A) > 0 {
				zn.A = e.A
			}
			for _, mx := range e.MX {
				zn.MX = append(zn.MX, net.MX{Host: strings.ToLower(mx) + ".", Pref: 10})
			}
		case "servfail":
			zn.Err = &net.DNSError{Err: "server misbehaving", Name: name, Server: "scripted", IsTemporary: true}
		default:
			h.t.Fatalf("unknown zone error %q", e.Err)
		}
		z[name] = zn
	}
	return z
}

func classify(err error, o *Out) {
	o.Err = err.Error()
	var se *exterrors.SMTPError
	if errors.As(err, &se) {
		o.Code = se.Code
		o.Enh = fmt.Sprintf("%d.%d.%d", se.EnhancedCode[0], se.EnhancedCode[1], se.EnhancedCode[2])
	} else {
		// what the SMTP endpoint would answer for an error that is not an SMTPError
		o.Code = 554
		o.Enh = "5.0.0"
		if exterrors.IsTemporary(err) {
			o.Code = 451
			o.Enh = "4.0.0"
		}
	}
	temp := exterrors.IsTemporary(err)
	switch {
	case o.Code >= 500 && o.Code < 600 && !temp:
		o.Class = "permreject"
	case o.Code >= 400 && o.Code < 500 && temp:
		o.Class = "tempreject"
	default:
		o.Class = fmt.Sprintf("incoherent-%d-temp-%v", o.Code, temp)
	}
}

func (h *harness) runRow(r Row) (o Out) {
	w := r.World
	o = Out{Cfg: "ok", Stage: "none", Class: "accept", Ar: []AREntry{}, Queries: []string{}}
	pr := h.pipeline(w)
	if pr.err != nil {
		o.Cfg, o.Class, o.Err = "error", "cfgerror", pr.err.Error()
		return o
	}
	env := &rowEnv{r: &mockdns.Resolver{Zones: h.zone(w)}}
	ctx := context.WithValue(context.Background(), rowKey{}, env)
	defer func() {
		if e := recover(); e != nil {
			o.Class, o.Err = "panic", fmt.Sprint(e)
		}
		env.mu.Lock()
		o.Queries = append(o.Queries, env.queries...)
		env.mu.Unlock()
	}()

	// the message
	hdrText := baseHeader(w, "an inbound message")
	var raw strings.Builder
	for _, s := range w.Sigs {
		raw.WriteString(h.sign.field(h.t, s.K, s.D, hdrText, w))
	}
	for _, f := range w.Forged {
		raw.WriteString("Authentication-Results: " + f + "\r\n")
	}
	raw.WriteString(hdrText)
	raw.WriteString("\r\n")
	hdr, err := textproto.ReadHeader(bufio.NewReader(strings.NewReader(raw.String())))
	if err != nil {
		h.t.Fatalf("row %d: message header: %v", r.ID, err)
	}
	body := buffer.MemoryBuffer{Slice: []byte(msgBody)}

	id := fmt.Sprintf("row%d", r.ID)
	if w.UTF8 {
		// an SMTPUTF8 client sends the domain as a U-label; the row names it by its A-label
		if at := strings.LastIndexByte(w.Sender, '@'); at >= 0 {
			u, err := idna.ToUnicode(w.Sender[at+1:])
			if err != nil || u == w.Sender[at+1:] {
				h.t.Fatalf("row %d: %q has no U-label form (%v)", r.ID, w.Sender, err)
			}
			w.Sender = w.Sender[:at+1] + u
		}
	}
	meta := &module.MsgMetadata{ID: id, DontTraceSender: true, OriginalFrom: w.Sender,
		SMTPOpts: smtp.MailOptions{UTF8: w.UTF8}}
	switch w.Conn {
	case "tcp4":
		meta.Conn = &module.ConnState{Proto: "ESMTP", Hostname: w.Helo,
			RemoteAddr: &net.TCPAddr{IP: net.ParseIP("192.0.2.10"), Port: 40025}}
	case "tcp6":
		meta.Conn = &module.ConnState{Proto: "ESMTP", Hostname: w.Helo,
			RemoteAddr: &net.TCPAddr{IP: net.ParseIP("2001:db8::10"), Port: 40025}}
	case "unix":
		meta.Conn = &module.ConnState{Proto: "LMTP", Hostname: w.Helo,
			RemoteAddr: &net.UnixAddr{Name: "/run/x03.sock", Net: "unix"}}
	case "local":
	default:
		h.t.Fatalf("unknown conn %q", w.Conn)
	}

	d, err := pr.p.Start(ctx, meta, w.Sender)
	if err != nil {
		o.Stage = "mail"
		classify(err, &o)
		return o
	}
	if err := d.AddRcpt(ctx, "rcpt@rcpt.example", smtp.RcptOptions{}); err != nil {
		_ = d.Abort(ctx)
		o.Stage = "rcpt"
		classify(err, &o)
		return o
	}
	if err := d.Body(ctx, hdr, body); err != nil {
		_ = d.Abort(ctx)
		o.Stage = "body"
		classify(err, &o)
		if s := h.tgt.take(id); s != nil && s.body {
			o.Class = "refused-but-delivered"
		}
		return o
	}
	if err := d.Commit(ctx); err != nil {
		h.t.Fatalf("row %d: Commit: %v", r.ID, err)
	}
	s := h.tgt.take(id)
	if s == nil || !s.body || !s.committed {
		o.Class = "lost"
		return o
	}
	o.Delivered = true
	if s.quarantine || meta.Quarantine {
		o.Class = "quarantine"
	}
	o.ArRaw = strings.Join(s.arHdr, " || ")
	var perr string
	o.Ar, o.Foreign, perr = parseAR(s.arHdr, w.Host)
	if perr != "" {
		o.Err = perr
		o.Ar = append(o.Ar, AREntry{M: "unparsable"})
	}
	return o
}

func TestReplay(t *testing.T) {
	inPath, outPath := os.Getenv("VERIF_IN"), os.Getenv("VERIF_OUT")
	if inPath == "" || outPath == "" {
		t.Skip("VERIF_IN / VERIF_OUT not set")
	}
	f, err := os.Open(inPath)
	if err != nil {
		t.Fatal(err)
	}
	defer f.Close()
	of, err := os.Create(outPath)
	if err != nil {
		t.Fatal(err)
	}
	defer of.Close()
	wr := bufio.NewWriterSize(of, 1<<20)
	defer wr.Flush()

	keys := newKeyring(t)
	h := &harness{t: t, tgt: &tgt{msgs: map[string]*seen{}}, keys: keys,
		sign: &signer{keys: keys, cache: map[sigKey]string{}}, pipes: map[string]*pipeRes{}}
	registerModules(h.tgt)

	sc := bufio.NewScanner(f)
	sc.Buffer(make([]byte, 1<<20), 1<<26)
	n := 0
	for sc.Scan() {
		line := bytes.TrimSpace(sc.Bytes())
		if len(line) == 0 {
			continue
		}
		var r Row
		if err := json.Unmarshal(line, &r); err != nil {
			t.Fatalf("bad row: %v", err)
		}
		var generic struct {
			In json.RawMessage `json:"in"`
		}
		_ = json.Unmarshal(line, &generic)
		o := h.runRow(r)
		ev := vtrace.Ev{"in": generic.In, "out": o}
		if os.Getenv("VERIF_SHOWCFG") != "" {
			ev["cfgText"] = renderConfig(r.World)
		}
		vtrace.New(wr, r.ID).Emit("Row", ev)
		n++
	}
	t.Logf("ran %d rows through %d pipeline configurations", n, len(h.pipes))
}
