// Package pathcheck wires the real SMTP endpoint, message pipeline, queue and SMTP/LMTP forwarder
// together and replays behaviours of MsgPath.tla: a raw client speaks to the endpoint over
// loopback TCP, the forwarder talks to a scripted next hop, a scripted bounce target receives the
// failure reports. Events: Cfg, Rcpt, End, HopRcpt, HopAccept, Report, Quiet.
package pathcheck

import (
	"bufio"
	"context"
	"encoding/json"
	"fmt"
	"net"
	"os"
	"strings"
	"sync"
	"testing"
	"time"

	"github.com/foxcpp/maddy/framework/config"
	"github.com/foxcpp/maddy/framework/log"
	"github.com/foxcpp/maddy/framework/module"
	smtpendp "github.com/foxcpp/maddy/internal/endpoint/smtp"
	"github.com/foxcpp/maddy/internal/target/queue"
	tsmtp "github.com/foxcpp/maddy/internal/target/smtp"
	"github.com/foxcpp/maddy/verifharness/scripted"
	"github.com/foxcpp/maddy/verifharness/vtrace"
)

type RSt struct {
	Rcpt string `json:"rcpt"`
	Dot  string `json:"dot"`
}

type Step struct {
	A   string         `json:"a"`
	R   string         `json:"r"`
	Ok  bool           `json:"ok"`
	How string         `json:"how"`
	M   string         `json:"m"`
	St  map[string]RSt `json:"st"`
	D   string         `json:"d"`
}

type Behaviour struct {
	ID  int `json:"id"`
	Cfg struct {
		Lmtp bool     `json:"lmtp"`
		List []string `json:"list"`
		How  string   `json:"how"`
	} `json:"cfg"`
	Rejected []string `json:"rejected"`
	Hist     []Step   `json:"hist"`
}

const dom = "@dst.example"

func idOf(a string) string { return strings.TrimSuffix(a, dom) }

// ---- proxy module: deliver_to verifpath Q -> the queue object of the running behaviour ----
var (
	curMu  sync.Mutex
	curTgt module.DeliveryTarget
	regOnce sync.Once
)

type proxy struct{ inst string }

func (p *proxy) Name() string               { return "verifpath" }
func (p *proxy) InstanceName() string       { return p.inst }
func (p *proxy) Init(cfg *config.Map) error { return nil }
func (p *proxy) Start(ctx context.Context, m *module.MsgMetadata, from string) (module.Delivery, error) {
	curMu.Lock()
	t := curTgt
	curMu.Unlock()
	return t.Start(ctx, m, from)
}

func register() {
	regOnce.Do(func() {
		module.Register("target.verifpath", func(_, inst string, _, _ []string) (module.Module, error) {
			return &proxy{inst: inst}, nil
		})
	})
}

// ---- scripted next hop ----------------------------------------------------------------
type attempt struct {
	M  string
	St map[string]RSt
	D  string
}

type hop struct {
	l    net.Listener
	lmtp bool
	mu   sync.Mutex
	tr   *vtrace.Tracer
	plan []attempt
	n    int
}

func newHop(lmtp bool) (*hop, error) {
	l, err := net.Listen("tcp4", "127.0.0.1:0")
	if err != nil {
		return nil, err
	}
	h := &hop{l: l, lmtp: lmtp}
	go func() {
		for {
			c, err := l.Accept()
			if err != nil {
				return
			}
			go func() { defer c.Close(); h.handle(c) }()
		}
	}()
	return h, nil
}

func reply(res string) string {
	switch res {
	case "temp":
		return "451 4.3.0 scripted temporary failure"
	case "perm":
		return "550 5.1.1 scripted permanent failure"
	}
	return "250 2.0.0 ok"
}

func argAddr(arg string) string {
	i, j := strings.IndexByte(arg, '<'), strings.IndexByte(arg, '>')
	if i < 0 || j < i {
		return arg
	}
	return arg[i+1 : j]
}

func (h *hop) handle(c net.Conn) {
	c.SetDeadline(time.Now().Add(60 * time.Second))
	rd := bufio.NewReader(c)
	wr := func(s string) bool { _, err := c.Write([]byte(s + "\r\n")); return err == nil }
	if !wr("220 hop.example ready") {
		return
	}
	h.mu.Lock()
	tr := h.tr
	h.mu.Unlock()
	var cur attempt
	var acc []string
	in := false
	for {
		line, err := rd.ReadString('\n')
		if err != nil {
			return
		}
		line = strings.TrimRight(line, "\r\n")
		if os.Getenv("VERIF_DEBUG") != "" {
			fmt.Fprintf(os.Stderr, "HOP< %s   (plan %+v)\n", line, cur)
		}
		verb, arg := line, ""
		if i := strings.IndexByte(line, ' '); i >= 0 {
			verb, arg = line[:i], line[i+1:]
		}
		switch strings.ToUpper(verb) {
		case "EHLO", "LHLO":
			if !wr("250-hop.example\r\n250-8BITMIME\r\n250-SMTPUTF8\r\n250 ENHANCEDSTATUSCODES") {
				return
			}
		case "MAIL":
			h.mu.Lock()
			cur = attempt{M: "ok"}
			if h.n < len(h.plan) {
				cur = h.plan[h.n]
			}
			h.n++
			h.mu.Unlock()
			acc, in = nil, cur.M == "ok" || cur.M == ""
			if !wr(reply(cur.M)) {
				return
			}
		case "RCPT":
			if !in {
				wr("503 5.5.1 MAIL first")
				continue
			}
			r := idOf(argAddr(arg))
			tr.Emit("HopRcpt", vtrace.Ev{"r": r})
			res := cur.St[r].Rcpt
			if res == "" || res == "ok" {
				acc = append(acc, r)
			}
			if !wr(reply(res)) {
				return
			}
		case "DATA":
			if !in || len(acc) == 0 {
				wr("503 5.5.1 RCPT first")
				continue
			}
			if !wr("354 go ahead") {
				return
			}
			for {
				l, err := rd.ReadString('\n')
				if err != nil {
					return
				}
				if l == ".\r\n" {
					break
				}
			}
			in = false
			if !h.lmtp {
				if cur.D == "" || cur.D == "ok" {
					tr.Emit("HopAccept", vtrace.Ev{"rcpts": append([]string{}, acc...)})
				}
				if !wr(reply(cur.D)) {
					return
				}
				continue
			}
			var ok []string
			for _, r := range acc {
				if d := cur.St[r].Dot; d == "" || d == "ok" {
					ok = append(ok, r)
				}
			}
			if ok == nil {
				ok = []string{}
			}
			tr.Emit("HopAccept", vtrace.Ev{"rcpts": ok})
			for _, r := range acc {
				if !wr(reply(cur.St[r].Dot)) {
					return
				}
			}
		case "RSET":
			in = false
			if !wr("250 2.0.0 reset") {
				return
			}
		case "NOOP":
			wr("250 2.0.0 ok")
		case "QUIT":
			wr("221 2.0.0 bye")
			return
		default:
			if !wr("500 5.5.1 unknown") {
				return
			}
		}
	}
}

func node(name string, args []string, children ...config.Node) config.Node {
	return config.Node{Name: name, Args: args, Children: children}
}

type bounceTap struct {
	*scripted.Bounce
}

func runBehaviour(t *testing.T, b Behaviour, w *bufio.Writer, hops map[bool]*hop, downs map[bool]module.DeliveryTarget) {
	register()
	dir, err := os.MkdirTemp(os.Getenv("VERIF_TMP"), "pathspool")
	if err != nil {
		t.Fatal(err)
	}
	defer os.RemoveAll(dir)
	lw := &lockedWriter{w: w}
	tr := vtrace.New(lw, b.ID)
	tr.Emit("Cfg", vtrace.Ev{"lmtp": b.Cfg.Lmtp, "list": b.Cfg.List, "how": b.Cfg.How, "rejected": b.Rejected})
	var plan []attempt
	for _, s := range b.Hist {
		if s.A == "Attempt" {
			plan = append(plan, attempt{M: s.M, St: s.St, D: s.D})
		}
	}
	h := hops[b.Cfg.Lmtp]
	h.mu.Lock()
	h.tr, h.plan, h.n = tr, plan, 0
	h.mu.Unlock()
	// reports: the scripted bounce target's "Dsn" event is re-emitted as "Report"
	rtr := vtrace.New(&reportFilter{tr: tr}, b.ID)
	bnc := &scripted.Bounce{Tr: rtr, ID: idOf}
	// harness-only dimension: on every third behaviour the server is restarted (clean stop) after the
	// first attempt; the retries then come from what a new queue instance reads back from the spool
	restart := b.ID%3 == 0 && b.Cfg.How == "data"
	mkQueue := func(retry time.Duration) *queue.Queue {
		q, err := queue.VerifNewQueue(queue.VerifConfig{
			Location: dir, Target: downs[b.Cfg.Lmtp], Bounce: bnc, MaxTries: 2, MaxParallelism: 1,
			InitialRetryTime: retry, RetryTimeScale: 1, PostInitDelay: 0,
			Hostname: "mx.example.org", AutogenMsgDomain: "example.org", Log: log.Logger{Out: log.NopOutput{}},
		})
		if err != nil {
			t.Fatal(err)
		}
		return q
	}
	firstRetry := time.Millisecond
	if restart {
		firstRetry = time.Hour
	}
	q := mkQueue(firstRetry)
	curMu.Lock()
	curTgt = q
	curMu.Unlock()

	rej := map[string]bool{}
	for _, r := range b.Rejected {
		rej[r] = true
	}
	var dests []config.Node
	var okAddrs []string
	for _, r := range []string{"r1", "r2", "r3"} {
		if rej[r] {
			dests = append(dests, node("destination", []string{r + dom}, node("reject", []string{"550", "5.1.1", "no such user"})))
		} else {
			okAddrs = append(okAddrs, r+dom)
		}
	}
	if len(okAddrs) > 0 { // one block: one delivery on the queue (two inline instances would be two targets)
		dests = append(dests, node("destination", okAddrs, node("deliver_to", []string{"verifpath", "Q"})))
	}
	dests = append(dests, node("default_destination", nil, node("reject", []string{"550", "5.1.2", "no such domain"})))
	mod, err := smtpendp.New("smtp", nil)
	if err != nil {
		t.Fatal(err)
	}
	endp := mod.(*smtpendp.Endpoint)
	endp.Log = log.Logger{Out: log.NopOutput{}}
	err = endp.Init(config.NewMap(map[string]interface{}{}, config.Node{Children: []config.Node{
		node("hostname", []string{"mx.example.org"}),
		node("tls", []string{"off"}),
		node("buffer", []string{"ram"}),
		node("default_source", nil, dests...),
	}}))
	if err != nil {
		t.Fatalf("endpoint init: %v", err)
	}
	l, err := net.Listen("tcp4", "127.0.0.1:0")
	if err != nil {
		t.Fatal(err)
	}
	served := make(chan error, 1)
	go func() { served <- endp.VerifSessionServe(l) }()

	// ---- the client ----
	c, err := net.Dial("tcp4", l.Addr().String())
	if err != nil {
		t.Fatal(err)
	}
	c.SetDeadline(time.Now().Add(60 * time.Second))
	rd := bufio.NewReader(c)
	readReply := func() string {
		for {
			line, err := rd.ReadString('\n')
			if err != nil {
				return "000"
			}
			if len(line) >= 4 && line[3] == ' ' {
				return line[:3]
			}
		}
	}
	send := func(s string) string { fmt.Fprintf(c, "%s\r\n", s); return readReply() }
	readReply()
	send("EHLO client.example")
	send("MAIL FROM:<sender@src.example>")
	for _, r := range b.Cfg.List {
		code := send("RCPT TO:<" + r + dom + ">")
		tr.Emit("Rcpt", vtrace.Ev{"r": r, "ok": code == "250"})
	}
	ok := false
	switch b.Cfg.How {
	case "data":
		if send("DATA") == "354" {
			fmt.Fprintf(c, "Subject: path %d\r\nFrom: <sender@src.example>\r\n\r\nhello\r\n.leading dot\r\n", b.ID)
			ok = send(".") == "250"
		}
		tr.Emit("End", vtrace.Ev{"how": "data", "ok": ok})
		send("QUIT")
	case "rset":
		send("RSET")
		tr.Emit("End", vtrace.Ev{"how": "rset", "ok": false})
		send("QUIT")
	default:
		tr.Emit("End", vtrace.Ev{"how": "drop", "ok": false})
	}
	c.Close()

	deadline := time.Now().Add(40 * time.Second)
	if restart && ok {
		// wait for the first attempt to be over (the message is gone, or waits for a retry an hour away)
		for time.Now().Before(deadline) {
			h.mu.Lock()
			n := h.n
			h.mu.Unlock()
			if ents, _ := os.ReadDir(dir); len(ents) == 0 || n >= 1 {
				break
			}
			time.Sleep(2 * time.Millisecond)
		}
		q.Close() // waits for the running attempt
		q = mkQueue(time.Millisecond)
		curMu.Lock()
		curTgt = q
		curMu.Unlock()
		tr.Emit("Restarted", nil)
	}
	for time.Now().Before(deadline) {
		ents, _ := os.ReadDir(dir)
		if len(ents) == 0 {
			break
		}
		time.Sleep(2 * time.Millisecond)
	}
	l.Close()
	endp.Close()
	<-served
	q.Close()
	if ents, _ := os.ReadDir(dir); len(ents) != 0 {
		tr.Emit("Stuck", vtrace.Ev{"files": len(ents)})
		return
	}
	tr.Emit("Quiet", nil)
}

type lockedWriter struct {
	mu sync.Mutex
	w  *bufio.Writer
}

func (l *lockedWriter) Write(p []byte) (int, error) {
	l.mu.Lock()
	defer l.mu.Unlock()
	return l.w.Write(p)
}

// reportFilter turns the bounce target's final "Dsn" event into a "Report" event of the path
// trace and drops the other bounce events.
type reportFilter struct{ tr *vtrace.Tracer }

func (f *reportFilter) Write(p []byte) (int, error) {
	var e map[string]interface{}
	if json.Unmarshal(p, &e) == nil && e["e"] == "Dsn" && e["known"] == true {
		f.tr.Emit("Report", vtrace.Ev{"rcpts": e["rcpts"]})
	}
	return len(p), nil
}

func mkDown(t *testing.T, lmtp bool, addr string) module.DeliveryTarget {
	name := "target.smtp"
	if lmtp {
		name = "target.lmtp"
	}
	mod, err := tsmtp.NewDownstream(name, "verif_"+name, nil, nil)
	if err != nil {
		t.Fatal(err)
	}
	err = mod.Init(config.NewMap(nil, config.Node{Children: []config.Node{
		{Name: "targets", Args: []string{"tcp://" + addr}},
		{Name: "hostname", Args: []string{"mx.example.org"}},
		{Name: "attempt_starttls", Args: []string{"no"}},
		{Name: "require_tls", Args: []string{"no"}},
	}}))
	if err != nil {
		t.Fatal(err)
	}
	return mod.(module.DeliveryTarget)
}

func TestReplay(t *testing.T) {
	in, out := os.Getenv("VERIF_IN"), os.Getenv("VERIF_OUT")
	if in == "" || out == "" {
		t.Skip("VERIF_IN / VERIF_OUT not set")
	}
	f, err := os.Open(in)
	if err != nil {
		t.Fatal(err)
	}
	defer f.Close()
	of, err := os.Create(out)
	if err != nil {
		t.Fatal(err)
	}
	defer of.Close()
	w := bufio.NewWriter(of)
	defer w.Flush()
	hops := map[bool]*hop{}
	downs := map[bool]module.DeliveryTarget{}
	for _, lmtp := range []bool{false, true} {
		h, err := newHop(lmtp)
		if err != nil {
			t.Fatal(err)
		}
		defer h.l.Close()
		hops[lmtp] = h
		downs[lmtp] = mkDown(t, lmtp, h.l.Addr().String())
	}
	sc := bufio.NewScanner(f)
	sc.Buffer(make([]byte, 1<<20), 1<<26)
	for sc.Scan() {
		var b Behaviour
		if err := json.Unmarshal(sc.Bytes(), &b); err != nil {
			t.Fatalf("bad behaviour line: %v", err)
		}
		runBehaviour(t, b, w, hops, downs)
	}
}
