// Package acctmgmtcheck binds spec/AcctMgmt.tla (extension X10) to the real management commands of
// maddy: every command of a TLC-generated behaviour is executed by the real command-line entry point
// (maddycli.Run, exactly what cmd/maddy/main.go calls) in a child process of this test binary, against
// a real configuration file (auth.pass_table over table.sql_table, storage.imapsql, both sqlite3).
// After every command the parent process reads the complete state back through the module APIs (the
// credential table and which spelling/password pairs authenticate through auth.pass_table.AuthPlain,
// the IMAP accounts, which spellings the storage accepts as a recipient, every mailbox with its
// special-use attribute, UIDVALIDITY and UIDNEXT, every message with UID, flags and body) and logs
// it; AcctMgmtTrace.tla judges the log.
package acctmgmtcheck

import (
	"bufio"
	"bytes"
	"context"
	"encoding/json"
	"fmt"
	"io"
	"os"
	"os/exec"
	"path/filepath"
	"regexp"
	"sort"
	"strconv"
	"strings"
	"reflect"
	"testing"
	"time"
	"unsafe"

	"github.com/emersion/go-imap"
	"github.com/emersion/go-imap/backend"
	"github.com/emersion/go-message/textproto"
	"github.com/emersion/go-smtp"
	_ "github.com/foxcpp/maddy"
	"github.com/foxcpp/maddy/framework/buffer"
	"github.com/foxcpp/maddy/framework/config"
	"github.com/foxcpp/maddy/framework/log"
	"github.com/foxcpp/maddy/framework/module"
	"github.com/foxcpp/maddy/internal/auth/pass_table"
	maddycli "github.com/foxcpp/maddy/internal/cli"
	_ "github.com/foxcpp/maddy/internal/cli/ctl"
	"github.com/foxcpp/maddy/internal/storage/imapsql"
	"github.com/foxcpp/maddy/verifharness/vtrace"
)

// TestMain: with X10_CHILD set this binary *is* maddy: main() of cmd/maddy is `maddycli.Run()`.
func TestMain(m *testing.M) {
	if os.Getenv("X10_CHILD") == "1" {
		os.Args = append([]string{"maddy"}, os.Args[1:]...)
		maddycli.Run()
		os.Exit(0)
	}
	os.Exit(m.Run())
}

// ---- abstract names <-> concrete strings -----------------------------------------------------------

var spellText = map[string]string{
	"a": "alice@example.org", "aC": "ALICE@Example.ORG", "aW": "ａlice@example.org",
	"b": "bob@example.org", "bC": "Bob@EXAMPLE.org", "x": "al ice@example.org",
}
var probeSp = []string{"a", "aC", "aW", "b", "bC", "x"}

// names as they may be found stored
var storedID = map[string]string{
	"alice@example.org": "a", "bob@example.org": "b", "ａlice@example.org": "aW", "al ice@example.org": "x",
}
var pwText = map[string]string{"p1": "pass-One 1", "p2": "pässword2"}
var flagText = map[string]string{"S": imap.SeenFlag, "F": imap.FlaggedFlag, "K": "kw1"}
var flagID = map[string]string{imap.SeenFlag: "S", imap.FlaggedFlag: "F", "kw1": "K"}

func nameID(s string) string {
	if id, ok := storedID[s]; ok {
		return id
	}
	return "?" + s
}

// ---- behaviours ------------------------------------------------------------------------------------

type Cmd struct {
	K    string   `json:"k"`
	Sp   string   `json:"sp"`
	Pw   string   `json:"pw"`
	Cf   string   `json:"cf"`
	Su   bool     `json:"su"`
	Mb   []string `json:"mb"`
	Mb2  []string `json:"mb2"`
	Spc  string   `json:"spc"`
	Fl   []string `json:"fl"`
	Uidm bool     `json:"uidm"`
	Lo   int      `json:"lo"`
	Hi   int      `json:"hi"`
	Body string   `json:"body"`
	Op   string   `json:"op"`
}

type Behaviour struct {
	ID     int    `json:"id"`
	Preset string `json:"preset"`
	Hist   []Cmd  `json:"hist"`
	Lists  bool   `json:"lists"` // also run the read-only commands after every step
	Stdin  bool   `json:"stdin"` // passwords through stdin instead of --password
}

func (c Cmd) ev() vtrace.Ev {
	fl := c.Fl
	if fl == nil {
		fl = []string{}
	}
	sort.Strings(fl)
	mb, mb2 := c.Mb, c.Mb2
	if mb == nil {
		mb = []string{}
	}
	if mb2 == nil {
		mb2 = []string{}
	}
	return vtrace.Ev{"k": c.K, "sp": c.Sp, "pw": c.Pw, "cf": c.Cf, "su": c.Su, "mb": mb, "mb2": mb2, "spc": c.Spc,
		"fl": fl, "uidm": c.Uidm, "lo": c.Lo, "hi": c.Hi, "body": c.Body, "op": c.Op}
}

func seqArg(lo, hi int) string {
	f := func(n int) string {
		if n == 0 {
			return "*"
		}
		return strconv.Itoa(n)
	}
	if lo == hi {
		return f(lo)
	}
	return f(lo) + ":" + f(hi)
}

func message(id string) string {
	return "From: <sender@example.org>\r\nTo: <alice@example.org>\r\nSubject: " + id + "\r\nX-Body: " + id +
		"\r\n\r\nThis is message " + id + ".\r\n"
}

var bodyRe = regexp.MustCompile(`(?m)^X-Body: (\S+)\r?$`)

// argv builds the command line (after `maddy --config F`) and the standard input of a command.
func argv(c Cmd, stdinPw bool) (args []string, stdin string) {
	sp := spellText[c.Sp]
	pos := func(xs ...string) {
		if c.Sp == "" {
			return // USERNAME missing: no positional arguments at all
		}
		args = append(args, sp)
		for _, x := range xs {
			if x == "" {
				return
			}
			args = append(args, x)
		}
	}
	confirm := func() {
		switch c.Cf {
		case "flag":
			args = append(args, "--yes")
		case "y":
			stdin = "y\n"
		case "n":
			stdin = "n\n"
		default:
			stdin = "\n"
		}
	}
	uid := func() {
		if c.Uidm {
			args = append(args, "--uid")
		}
	}
	mb, mb2 := strings.Join(c.Mb, "."), strings.Join(c.Mb2, ".")
	switch c.K {
	case "CredsCreate":
		args = []string{"creds", "create", "--bcrypt-cost", "4"}
		if stdinPw {
			stdin = pwText[c.Pw] + "\n"
		} else {
			args = append(args, "--password", pwText[c.Pw])
		}
		pos()
	case "CredsPassword":
		args = []string{"creds", "password"}
		if stdinPw {
			stdin = pwText[c.Pw] + "\n"
		} else {
			args = append(args, "--password", pwText[c.Pw])
		}
		pos()
	case "CredsRemove":
		args = []string{"creds", "remove"}
		confirm()
		pos()
	case "AcctCreate":
		args = []string{"imap-acct", "create"}
		if !c.Su {
			args = append(args, "--no-specialuse")
		}
		pos()
	case "AcctRemove":
		args = []string{"imap-acct", "remove"}
		confirm()
		pos()
	case "MboxCreate":
		args = []string{"imap-mboxes", "create"}
		if c.Spc != "none" {
			args = append(args, "--special", strings.ToLower(c.Spc))
		}
		pos(mb)
	case "MboxRemove":
		args = []string{"imap-mboxes", "remove"}
		confirm()
		pos(mb)
	case "MboxRename":
		args = []string{"imap-mboxes", "rename"}
		pos(mb, mb2)
	case "MsgAdd":
		args = []string{"imap-msgs", "add"}
		for _, f := range c.Fl {
			args = append(args, "--flag", flagText[f])
		}
		pos(mb)
		if c.Body != "" {
			stdin = message(c.Body)
		}
	case "MsgRemove":
		args = []string{"imap-msgs", "remove"}
		uid()
		confirm()
		pos(mb, seqArg(c.Lo, c.Hi))
	case "MsgCopy", "MsgMove":
		args = []string{"imap-msgs", map[string]string{"MsgCopy": "copy", "MsgMove": "move"}[c.K]}
		uid()
		pos(mb, seqArg(c.Lo, c.Hi), mb2)
	case "MsgFlags":
		args = []string{"imap-msgs", map[string]string{"add": "add-flags", "rem": "rem-flags", "set": "set-flags"}[c.Op]}
		uid()
		fl := []string{}
		for _, f := range c.Fl {
			fl = append(fl, flagText[f])
		}
		pos(append([]string{mb, seqArg(c.Lo, c.Hi)}, fl...)...)
	case "CredsList":
		args = []string{"creds", "list"}
	case "AcctList":
		args = []string{"imap-acct", "list"}
	case "MboxList":
		args = []string{"imap-mboxes", "list"}
		pos()
	case "MsgList":
		args = []string{"imap-msgs", "list"}
		pos(mb)
	}
	return
}

// ---- the environment of one behaviour --------------------------------------------------------------

type env struct {
	dir, conf, credDB, imapDB, blobs string
	uv                               map[uint32]int
	authCache                        map[string]bool
	self                             string
}

const confText = `state_dir %[1]s/state
runtime_dir %[1]s/run
hostname mx.example.org

auth.pass_table local_authdb {
    table sql_table {
        driver sqlite3
        dsn %[2]s
        table_name passwords
    }
}

storage.imapsql local_mailboxes {
    driver sqlite3
    dsn %[3]s
    msg_store fs %[4]s
}

imap tcp://127.0.0.1:1143 {
    tls off
    auth &local_authdb
    storage &local_mailboxes
}
`

func newEnv(t testing.TB, root string) *env {
	e := &env{dir: root, conf: filepath.Join(root, "maddy.conf"), credDB: filepath.Join(root, "state", "credentials.db"),
		imapDB: filepath.Join(root, "state", "imapsql.db"), blobs: filepath.Join(root, "state", "messages"),
		uv: map[uint32]int{}, authCache: map[string]bool{}}
	for _, d := range []string{"state", "run"} {
		if err := os.MkdirAll(filepath.Join(root, d), 0o755); err != nil {
			t.Fatal(err)
		}
	}
	if err := os.WriteFile(e.conf, []byte(fmt.Sprintf(confText, root, e.credDB, e.imapDB, e.blobs)), 0o644); err != nil {
		t.Fatal(err)
	}
	self, err := os.Executable()
	if err != nil {
		t.Fatal(err)
	}
	e.self = self
	return e
}

type result struct {
	rc     int
	stdout string
	stderr string
	failed bool
	panic  bool
}

// run executes one maddy command line in a child process.
func (e *env) run(t testing.TB, args []string, stdin string) result {
	ctx, cancel := context.WithTimeout(context.Background(), 10*time.Minute)
	defer cancel()
	cmd := exec.CommandContext(ctx, e.self, append([]string{"--config", e.conf}, args...)...)
	cmd.Env = append(os.Environ(), "X10_CHILD=1")
	cmd.Dir = e.dir
	cmd.Stdin = strings.NewReader(stdin)
	var so, se bytes.Buffer
	cmd.Stdout, cmd.Stderr = &so, &se
	err := cmd.Run()
	r := result{stdout: so.String(), stderr: se.String()}
	if err != nil {
		ee, ok := err.(*exec.ExitError)
		if !ok || ctx.Err() != nil {
			t.Fatalf("cannot run maddy %v: %v (%s)", args, err, se.String())
		}
		r.rc = ee.ExitCode()
	}
	r.panic = strings.Contains(r.stderr, "panic:") || strings.Contains(r.stderr, "goroutine 1 [")
	r.failed = r.rc != 0 || strings.Contains(r.stderr, "app.Run failed") || r.panic
	return r
}

func node(name string, args []string, ch ...config.Node) config.Node {
	return config.Node{Name: name, Args: args, Children: ch}
}

type mboxRec struct {
	Acct string   `json:"acct"`
	Name []string `json:"name"`
	Spc  string   `json:"spc"`
	Uv   string   `json:"uv"`
	Next int      `json:"next"`
}
type msgRec struct {
	Acct  string   `json:"acct"`
	Mbox  []string `json:"mbox"`
	UID   int      `json:"uid"`
	Body  string   `json:"body"`
	Flags []string `json:"flags"`
}
type credRec struct {
	Name string `json:"name"`
	Pw   string `json:"pw"`
}
type authRec struct {
	Sp string `json:"sp"`
	Pw string `json:"pw"`
}
type snapshot struct {
	Creds  []credRec `json:"creds"`
	Auth   []authRec `json:"auth"`
	Accts  []string  `json:"accts"`
	Reach  []string  `json:"reach"`
	Mboxes []mboxRec `json:"mboxes"`
	Msgs   []msgRec  `json:"msgs"`
	Nuv    int       `json:"nuv"`
	Nblob  int       `json:"nblob"`
}

// snapshot reads the whole state back through the module APIs (fresh module instances every time:
// nothing cached in this process can hide what a command did).
func (e *env) snapshot() (*snapshot, error) {
	s := &snapshot{Creds: []credRec{}, Auth: []authRec{}, Accts: []string{}, Reach: []string{}, Mboxes: []mboxRec{}, Msgs: []msgRec{}}
	ctx := context.Background()

	// --- credentials: auth.pass_table over table.sql_table
	pm, err := pass_table.New("auth.pass_table", "verif_authdb", nil, []string{"sql_table"})
	if err != nil {
		return nil, err
	}
	pt := pm.(*pass_table.Auth)
	if err := pt.Init(config.NewMap(nil, node("auth.pass_table", nil,
		node("driver", []string{"sqlite3"}), node("dsn", []string{e.credDB}), node("table_name", []string{"passwords"})))); err != nil {
		return nil, fmt.Errorf("pass_table init: %w", err)
	}
	keys, err := pt.ListUsers()
	if err != nil {
		return nil, fmt.Errorf("list users: %w", err)
	}
	sort.Strings(keys)
	dump := ""
	for _, k := range keys {
		h, _, err := pt.Lookup(ctx, k)
		if err != nil {
			return nil, fmt.Errorf("lookup %q: %w", k, err)
		}
		dump += k + "=" + h + ";"
	}
	authOK := func(name, pw string) bool {
		ck := name + "\x00" + pw + "\x00" + dump
		if v, ok := e.authCache[ck]; ok {
			return v
		}
		v := pt.AuthPlain(name, pwText[pw]) == nil
		e.authCache[ck] = v
		return v
	}
	for _, k := range keys {
		var ok []string
		for _, pw := range []string{"p1", "p2"} {
			if authOK(k, pw) {
				ok = append(ok, pw)
			}
		}
		pw := "?"
		if len(ok) == 1 {
			pw = ok[0]
		} else if len(ok) > 1 {
			pw = "many"
		}
		s.Creds = append(s.Creds, credRec{Name: nameID(k), Pw: pw})
	}
	for _, sp := range probeSp {
		for _, pw := range []string{"p1", "p2"} {
			if authOK(spellText[sp], pw) {
				s.Auth = append(s.Auth, authRec{Sp: sp, Pw: pw})
			}
		}
	}
	closeTable(pt)

	// --- the storage
	st, err := e.openStorage()
	if err != nil {
		return nil, err
	}
	defer st.Close()
	accts, err := st.ListIMAPAccts()
	if err != nil {
		return nil, fmt.Errorf("list accounts: %w", err)
	}
	for _, a := range accts {
		s.Accts = append(s.Accts, nameID(a))
	}
	// which spellings does the server resolve to an account: the recipient check of a delivery
	// (Start / AddRcpt / Abort) and the table look-up (destination_in &local_mailboxes)
	for _, sp := range probeSp {
		_, found, lerr := st.Lookup(ctx, spellText[sp])
		d, err := st.Start(ctx, &module.MsgMetadata{ID: "probe", OriginalFrom: "sender@example.org"}, "sender@example.org")
		if err != nil {
			return nil, fmt.Errorf("delivery start: %w", err)
		}
		rerr := d.AddRcpt(ctx, spellText[sp], smtp.RcptOptions{})
		if err := d.Abort(ctx); err != nil {
			return nil, fmt.Errorf("delivery abort: %w", err)
		}
		switch {
		case rerr == nil && found && lerr == nil:
			s.Reach = append(s.Reach, sp)
		case rerr == nil:
			s.Reach = append(s.Reach, sp+"!rcpt-only")
		case found:
			s.Reach = append(s.Reach, sp+"!lookup-only")
		}
	}
	for _, a := range accts {
		u, err := st.GetIMAPAcct(a)
		if err != nil {
			return nil, fmt.Errorf("get account %q: %w", a, err)
		}
		mboxes, err := u.ListMailboxes(false)
		if err != nil {
			return nil, fmt.Errorf("list mailboxes %q: %w", a, err)
		}
		for _, mi := range mboxes {
			spc := "none"
			for _, at := range mi.Attributes {
				switch at {
				case imap.SentAttr, imap.TrashAttr, imap.JunkAttr, imap.DraftsAttr, imap.ArchiveAttr, imap.AllAttr, imap.FlaggedAttr:
					spc = strings.TrimPrefix(at, "\\")
				}
			}
			status, err := u.Status(mi.Name, []imap.StatusItem{imap.StatusUidNext, imap.StatusUidValidity, imap.StatusMessages})
			if err != nil {
				return nil, fmt.Errorf("status %q/%q: %w", a, mi.Name, err)
			}
			if _, ok := e.uv[status.UidValidity]; !ok {
				e.uv[status.UidValidity] = len(e.uv) + 1
			}
			path := strings.Split(mi.Name, ".")
			s.Mboxes = append(s.Mboxes, mboxRec{Acct: nameID(a), Name: path, Spc: spc, Uv: fmt.Sprintf("u%d", status.UidValidity), Next: int(status.UidNext)})

			// the mailbox is opened by its listed name; a listed name that cannot be opened as such
			// (e.g. a second mailbox called "inbox") is reported with a marker message
			row, err := mailboxMessages(u, mi.Name)
			if err != nil {
				return nil, fmt.Errorf("messages %q/%q: %w", a, mi.Name, err)
			}
			for _, m := range row {
				m.Acct, m.Mbox = nameID(a), path
				s.Msgs = append(s.Msgs, m)
			}
			if int(status.Messages) != len(row) && !strings.EqualFold(mi.Name, "INBOX") {
				s.Msgs = append(s.Msgs, msgRec{Acct: nameID(a), Mbox: path, UID: 0, Body: fmt.Sprintf("COUNT%d", status.Messages), Flags: []string{}})
			}
		}
		u.Logout()
	}
	s.Nuv = 0
	s.Nblob = countFiles(e.blobs)
	return s, nil
}

func countFiles(dir string) int {
	n := 0
	filepath.Walk(dir, func(_ string, fi os.FileInfo, err error) error {
		if err == nil && fi.Mode().IsRegular() {
			n++
		}
		return nil
	})
	return n
}

func (e *env) openStorage() (*imapsql.Storage, error) {
	sm, err := imapsql.New("storage.imapsql", "verif_mailboxes", nil, nil)
	if err != nil {
		return nil, err
	}
	st := sm.(*imapsql.Storage)
	st.Log = log.Logger{Name: "imapsql", Out: log.NopOutput{}}
	if err := st.Init(config.NewMap(nil, node("storage.imapsql", nil,
		node("driver", []string{"sqlite3"}), node("dsn", []string{e.imapDB}), node("msg_store", []string{"fs", e.blobs})))); err != nil {
		return nil, fmt.Errorf("imapsql init: %w", err)
	}
	return st, nil
}

// deliver hands one message for RCPT TO:<rcpt> to the storage the way the SMTP pipeline does
// (module.DeliveryTarget: Start / AddRcpt / Body / Commit).
func (e *env) deliver(rcpt, body string) (bool, string, error) {
	st, err := e.openStorage()
	if err != nil {
		return false, "", err
	}
	defer st.Close()
	ctx := context.Background()
	d, err := st.Start(ctx, &module.MsgMetadata{ID: body, OriginalFrom: "sender@example.org"}, "sender@example.org")
	if err != nil {
		return false, "", fmt.Errorf("delivery start: %w", err)
	}
	if err := d.AddRcpt(ctx, rcpt, smtp.RcptOptions{}); err != nil {
		d.Abort(ctx)
		return false, err.Error(), nil
	}
	raw := message(body)
	i := strings.Index(raw, "\r\n\r\n")
	hdr, err := textproto.ReadHeader(bufio.NewReader(strings.NewReader(raw[:i+4])))
	if err != nil {
		return false, "", err
	}
	if err := d.Body(ctx, hdr, buffer.MemoryBuffer{Slice: []byte(raw[i+4:])}); err != nil {
		d.Abort(ctx)
		return false, err.Error(), nil
	}
	if err := d.Commit(ctx); err != nil {
		return false, err.Error(), nil
	}
	return true, "", nil
}

// closeTable closes the table module inside the pass_table instance (the field is private and
// pass_table has no Close): otherwise every snapshot would leak a database connection.
func closeTable(pt *pass_table.Auth) {
	f := reflect.ValueOf(pt).Elem().FieldByName("table")
	if !f.IsValid() {
		return
	}
	v := reflect.NewAt(f.Type(), unsafe.Pointer(f.UnsafeAddr())).Elem().Interface()
	if c, ok := v.(io.Closer); ok {
		c.Close()
	}
}

func mailboxMessages(u backend.User, name string) ([]msgRec, error) {
	_, mb, err := u.GetMailbox(name, true, nil)
	if err != nil {
		return nil, err
	}
	defer mb.Close()
	all := new(imap.SeqSet)
	all.AddRange(1, 0)
	list := func(items []imap.FetchItem, f func(m *imap.Message)) error {
		ch := make(chan *imap.Message, 64)
		var lerr error
		done := make(chan struct{})
		go func() {
			lerr = mb.ListMessages(true, all, items, ch)
			close(done)
		}()
		for m := range ch {
			f(m)
		}
		<-done
		return lerr
	}
	byUID := map[uint32]*msgRec{}
	var order []uint32
	err = list([]imap.FetchItem{imap.FetchFlags, imap.FetchUid}, func(m *imap.Message) {
		r := &msgRec{UID: int(m.Uid), Body: "LOST", Flags: []string{}}
		for _, f := range m.Flags {
			if f == imap.RecentFlag {
				continue
			}
			if id, ok := flagID[f]; ok {
				r.Flags = append(r.Flags, id)
			} else {
				r.Flags = append(r.Flags, "?"+f)
			}
		}
		sort.Strings(r.Flags)
		byUID[m.Uid] = r
		order = append(order, m.Uid)
	})
	if err != nil && len(order) > 0 {
		return nil, err
	}
	if len(order) > 0 {
		sec, _ := imap.ParseBodySectionName("BODY.PEEK[]")
		err = list([]imap.FetchItem{imap.FetchUid, sec.FetchItem()}, func(m *imap.Message) {
			r, ok := byUID[m.Uid]
			if !ok {
				return
			}
			for _, l := range m.Body {
				raw, _ := io.ReadAll(l)
				if mm := bodyRe.FindSubmatch(raw); mm != nil {
					r.Body = string(mm[1])
				} else if len(raw) > 0 {
					r.Body = "GARBLED"
				}
			}
		})
		if err != nil {
			return nil, err
		}
	}
	out := []msgRec{}
	for _, uid := range order {
		out = append(out, *byUID[uid])
	}
	return out, nil
}

// ---- listings ---------------------------------------------------------------------------------------

var uidLine = regexp.MustCompile(`(?m)^UID (\d+):`)

func parseListing(k, out string) interface{} {
	switch k {
	case "CredsList", "AcctList":
		res := []string{}
		for _, l := range strings.Split(out, "\n") {
			if l = strings.TrimRight(l, "\r"); l != "" {
				res = append(res, nameID(l))
			}
		}
		return res
	case "MboxList":
		res := [][]string{}
		for _, l := range strings.Split(out, "\n") {
			if l = strings.TrimRight(l, "\r"); l != "" {
				res = append(res, strings.Split(strings.SplitN(l, "\t", 2)[0], "."))
			}
		}
		return res
	case "MsgList":
		res := []int{}
		for _, m := range uidLine.FindAllStringSubmatch(out, -1) {
			n, _ := strconv.Atoi(m[1])
			res = append(res, n)
		}
		return res
	}
	return []string{}
}

// ---- one behaviour ----------------------------------------------------------------------------------

func runBehaviour(t *testing.T, b Behaviour, w io.Writer) {
	root := filepath.Join(os.Getenv("VERIF_TMP"), fmt.Sprintf("t%d", b.ID))
	if os.Getenv("VERIF_TMP") == "" {
		root = filepath.Join(t.TempDir(), fmt.Sprintf("t%d", b.ID))
	}
	os.RemoveAll(root)
	e := newEnv(t, root)
	defer os.RemoveAll(root)
	tr := vtrace.New(w, b.ID)
	s0, err := e.snapshot()
	if err != nil {
		t.Fatalf("behaviour %d: initial snapshot: %v", b.ID, err)
	}
	tr.Emit("Cfg", vtrace.Ev{"preset": b.Preset, "snap": s0})
	for i, c := range b.Hist {
		var args []string
		var r result
		if c.K == "Deliver" {
			ok, msg, err := e.deliver(spellText[c.Sp], c.Body)
			if err != nil {
				t.Fatalf("behaviour %d step %d: delivery: %v", b.ID, i+1, err)
			}
			args = []string{"(delivery)", "RCPT TO:<" + spellText[c.Sp] + ">"}
			r = result{failed: !ok, stderr: msg}
			if !ok {
				r.rc = 1 // not an exit status: a refused recipient (ez = FALSE in the model)
			}
		} else {
			var stdin string
			args, stdin = argv(c, b.Stdin)
			r = e.run(t, args, stdin)
		}
		snap, err := e.snapshot()
		if err != nil {
			t.Fatalf("behaviour %d step %d (%v): snapshot: %v\nstderr: %s", b.ID, i+1, args, err, r.stderr)
		}
		res := "ok"
		if r.failed {
			res = "fail"
		}
		ev := vtrace.Ev{"c": c.ev(), "res": res, "ez": r.rc == 0, "rc": r.rc, "panic": r.panic, "snap": snap,
			"argv": args, "err": tail(r.stderr, 300), "out": strings.TrimSpace(r.stdout)}
		tr.Emit("Cmd", ev)
		if b.Lists {
			kinds := []string{"CredsList", "AcctList", "MboxList", "MsgList"}
			lc := Cmd{K: kinds[(i+b.ID)%4], Sp: c.Sp, Mb: c.Mb, Cf: "flag", Spc: "none", Uidm: true}
			if lc.Sp == "" {
				lc.Sp = "a"
			}
			if len(lc.Mb) == 0 {
				lc.Mb = []string{"INBOX"}
			}
			if lc.K == "CredsList" || lc.K == "AcctList" {
				lc.Sp, lc.Mb = "", nil
			}
			if lc.K == "MboxList" {
				lc.Mb = nil
			}
			la, _ := argv(lc, false)
			lr := e.run(t, la, "")
			lres := "ok"
			if lr.failed {
				lres = "fail"
			}
			tr.Emit("List", vtrace.Ev{"c": lc.ev(), "res": lres, "ez": lr.rc == 0, "rc": lr.rc, "panic": lr.panic,
				"out": parseListing(lc.K, lr.stdout), "argv": la, "err": tail(lr.stderr, 300)})
		}
	}
	tr.Emit("End", nil)
}

func tail(s string, n int) string {
	if len(s) > n {
		return s[len(s)-n:]
	}
	return s
}

func TestReplay(t *testing.T) {
	in, out := os.Getenv("VERIF_IN"), os.Getenv("VERIF_OUT")
	if in == "" || out == "" {
		t.Skip("VERIF_IN / VERIF_OUT not set")
	}
	f, err := os.Open(in)
	if err != nil {
		t.Fatal(err)
	}
	defer f.Close()
	of, err := os.Create(out)
	if err != nil {
		t.Fatal(err)
	}
	defer of.Close()
	w := bufio.NewWriter(of)
	defer w.Flush()
	sc := bufio.NewScanner(f)
	sc.Buffer(make([]byte, 1<<20), 1<<26)
	n := 0
	for sc.Scan() {
		var b Behaviour
		if err := json.Unmarshal(sc.Bytes(), &b); err != nil {
			t.Fatalf("bad behaviour line: %v", err)
		}
		runBehaviour(t, b, w)
		n++
	}
	t.Logf("replayed %d behaviours", n)
}
